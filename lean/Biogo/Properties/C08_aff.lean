/-
C08, part `aff`: optimality of the affine aligners (property theorems only).

The property: "the total score of the alignment returned by the Needleman-Wunsch aligners
equals the maximum over all global alignments … under the … affine gap model; … the
Smith-Waterman aligners … maximum over all local alignments (zero if none is positive); the
fitted aligners return an alignment that consumes the whole query and is optimal among all such
alignments that end at the same reference position".

Since the repairs of K1 (the three-layer recurrences had no transition between the two gap
layers) and K3 (FittedAffine took its end from the match layer only) the full statements hold
of the model of the code: `nwAffine_opt`, `swAffine_opt`, `fittedAffine_opt`.

The theorems about the aligners *before* the repairs are kept, restated about the legacy
variants of the model (`nwAlignNoCross`, `swAlignNoCross`, `fitAlignLegacy`, `fitTable false`):
what held (`…_opt_partial`, `fittedAffine_opt_restricted`, `…_of_side_condition`), the
refutations of the full statements (`nwAffine_not_opt`, `fittedAffine_not_opt`) and the
yardstick of the K3 recogniser (`fittedRestricted_yardstick`), so that the recognisers of the
driver keep their meaning and a regression is reported by name.
-/
import Biogo.Proofs.NWAffine
import Biogo.Proofs.SWAffine
import Biogo.Proofs.FittedAffine
import Biogo.Proofs.FittedFull
import Biogo.Proofs.NoAdjSuffices
import Biogo.Proofs.FittedClass
import Biogo.Proofs.TraceWF

namespace Biogo.Properties.C08_aff
open Biogo.Spec.Alignment Biogo.AlignAff Biogo.Spec.AffineOpt
open Biogo.Proofs.AffineOpt Biogo.Proofs.NWAffine Biogo.Proofs.NoAdjSuffices

/-- The yardstick of the check is what it claims to be: `globalOpt true` is the maximum of
    the affine score over all global alignments (`none` never arises for an existing
    alignment), `globalOpt false` the maximum over those without adjacent opposite gaps. -/
theorem globalOpt_optimal (cross : Bool) (S : Matrix) (gapOpen : Int) (r q : List Nat) :
    (∀ a, IsGlobal a r q → (cross = true ∨ NoAdj a) →
        ∃ x, globalOpt cross S gapOpen r q = some x ∧ scoreAff S gapOpen a ≤ x) ∧
    (∀ x, globalOpt cross S gapOpen r q = some x →
        ∃ a, IsGlobal a r q ∧ (cross = true ∨ NoAdj a) ∧ scoreAff S gapOpen a = x) := by
  have h := globalOpt_isOpt cross S gapOpen r q
  exact ⟨fun a hg hc => h.1 a ⟨hg, hc⟩, fun x hx => let ⟨a, ha, e⟩ := h.2 x hx; ⟨a, ha.1, ha.2, e⟩⟩

/-- the yardstick for the local aligners: `localOpt cross` is the maximum of the affine score
    over all local alignments (`cross`) / those without adjacent opposite gaps, the empty
    alignment (score 0) included -/
theorem localOpt_optimal (cross : Bool) (S : Matrix) (gapOpen : Int) (r q : List Nat) :
    (∀ a, IsLocal a r q → (cross = true ∨ NoAdj a) →
        ∃ x, localOpt cross S gapOpen r q = some x ∧ scoreAff S gapOpen a ≤ x) ∧
    (∀ x, localOpt cross S gapOpen r q = some x →
        ∃ a, IsLocal a r q ∧ (cross = true ∨ NoAdj a) ∧ scoreAff S gapOpen a = x) := by
  have h := localOpt_isOpt cross S gapOpen r q
  exact ⟨fun a hg hc => h.1 a ⟨hg, hc⟩, fun x hx => let ⟨a, ha, e⟩ := h.2 x hx; ⟨a, ha.1, ha.2, e⟩⟩

/-- the yardstick for the fitted aligners: `fittedOpt cross … e` is the maximum of the affine
    score over the alignments of the whole query with a reference segment ending at `e` -/
theorem fittedOpt_optimal (cross : Bool) (S : Matrix) (gapOpen : Int) (r q : List Nat) (e : Nat)
    (he : e ≤ r.length) :
    (∀ a, IsFitted a r q e → (cross = true ∨ NoAdj a) →
        ∃ x, fittedOpt cross S gapOpen r q e = some x ∧ scoreAff S gapOpen a ≤ x) ∧
    (∀ x, fittedOpt cross S gapOpen r q e = some x →
        ∃ a, IsFitted a r q e ∧ (cross = true ∨ NoAdj a) ∧ scoreAff S gapOpen a = x) := by
  have h := fittedOpt_isOpt cross S gapOpen r q e he
  exact ⟨fun a hg hc => h.1 a ⟨hg, hc⟩, fun x hx => let ⟨a, ha, e⟩ := h.2 x hx; ⟨a, ha.1, ha.2, e⟩⟩

/-! ### the property, at full strength, of the code after the repairs of K1 and K3 -/

/-- **C08, NWAffine**: "the total score of the alignment returned by the Needleman-Wunsch
    aligners equals the maximum over all global alignments … under the … affine gap model".
    For all matrices, gap-open values and non-empty sequences the model of `NWAffine` (the
    fill with all nine transitions between the three layers, layer-aware traceback) returns
    pairs whose total is an upper bound for the affine score of *every* global alignment and is
    attained by one. -/
theorem nwAffine_opt (S : Matrix) (gapOpen : Int) (r q : List Nat) (hr : r ≠ []) (hq : q ≠ []) :
    ∃ ps, nwAlign S gapOpen r q = .ok ps ∧
      (∀ a, IsGlobal a r q → scoreAff S gapOpen a ≤ total ps) ∧
      (∃ a, IsGlobal a r q ∧ scoreAff S gapOpen a = total ps) := by
  obtain ⟨ps, x, hps, hx, htot⟩ := nwAlign_total S gapOpen r q hr hq
  have h := globalOpt_isOpt true S gapOpen r q
  refine ⟨ps, hps, ?_, ?_⟩
  · intro a hg
    obtain ⟨y, hy, hle⟩ := h.1 a ⟨hg, Or.inl rfl⟩
    rw [hx] at hy
    cases hy
    omega
  · obtain ⟨a, ⟨hg, _⟩, e⟩ := h.2 x hx
    exact ⟨a, hg, by omega⟩

/-- non-vacuity: the K1 witness (`S[a][c] = −10`, gap scores −2/0, gap-open −2, `a` vs `c`),
    on which the aligner returned −10 before the repair, now gives `-a` / `c-` with total −6 -/
example : nwAlign (sc [[0, 0, 0], [-2, 1, -10], [-2, -10, 1]]) (-2) [1] [2] =
    .ok [⟨0, 0, 0, 1, -2⟩, ⟨0, 1, 1, 1, -4⟩] := by
  decide +kernel

/-- **C08, SWAffine**: "… the Smith-Waterman aligners equals the maximum over all local
    alignments (zero if none is positive)".  For all matrices with non-positive gap scores,
    every gap-open ≤ 0 and all sequences the model of `SWAffine` returns pairs whose total
    bounds the affine score of *every* local alignment and is attained by one (the empty
    alignment scores 0). -/
theorem swAffine_opt (S : Matrix) (gapOpen : Int) (ho : gapOpen ≤ 0)
    (hg : ∀ x, S x 0 ≤ 0 ∧ S 0 x ≤ 0) (r q : List Nat) :
    ∃ ps, swAlign S gapOpen r q = .ok ps ∧
      (∀ a, IsLocal a r q → scoreAff S gapOpen a ≤ total ps) ∧
      (∃ a, IsLocal a r q ∧ scoreAff S gapOpen a = total ps) :=
  Biogo.Proofs.SWAffine.swAlign_total S gapOpen ho hg r q

/-- non-vacuity: the F11 witness (`aa` / `aca`, match 7, gap-vs-c 0, gap-open −2) gives 12;
    and a local alignment through two adjacent opposite gaps (mismatch −10, gaps 0, open −1,
    `aca` / `aga`: `ac-a` / `a-ga` scores 5 + (−1) + (−1) + 5 = 8 > 5) -/
example : swAlign (sc [[0, -1, 0], [-1, 7, -3], [-1, -3, 7]]) (-2) [1, 1] [1, 2, 1] =
    .ok [⟨0, 1, 0, 1, 7⟩, ⟨1, 1, 1, 2, -2⟩, ⟨1, 2, 2, 3, 7⟩] := by
  decide +kernel
example : swAlign (sc [[0, 0, 0, 0], [0, 5, -10, -10], [0, -10, 5, -10], [0, -10, -10, 5]]) (-1)
    [1, 2, 1] [1, 3, 1] = .ok [⟨0, 1, 0, 1, 5⟩, ⟨1, 1, 1, 2, -1⟩, ⟨1, 2, 2, 2, -1⟩, ⟨2, 3, 2, 3, 5⟩] := by
  decide +kernel

/-- **C08, FittedAffine**: "the fitted aligners return an alignment that consumes the whole
    query and is optimal among all such alignments that end at the same reference position".
    For all matrices in which a reference letter against a gap never scores more than 0, every
    gap-open ≤ 0 and all non-empty sequences the model of `FittedAffine` returns pairs that
    start at query position 0, end at `|q|` and at a reference position `1 ≤ e ≤ |r|`, and
    whose total bounds the affine score of *every* alignment of the whole query with a
    reference segment ending at `e` and is attained by one.
    (The sign hypothesis is where the free reference prefix of column 0 is used: skipping
    reference letters is never worse than aligning them with gaps.) -/
theorem fittedAffine_opt (S : Matrix) (gapOpen : Int) (ho : gapOpen ≤ 0) (hg : ∀ x, S x 0 ≤ 0)
    (r q : List Nat) (hr : r ≠ []) (hq : q ≠ []) :
    ∃ ps, fitAlign S gapOpen r q = .ok ps ∧
      (Biogo.Spec.AffPairs.firstStart ps).2 = 0 ∧ (Biogo.Spec.AffPairs.lastEnd ps).2 = q.length ∧
      1 ≤ (Biogo.Spec.AffPairs.lastEnd ps).1 ∧ (Biogo.Spec.AffPairs.lastEnd ps).1 ≤ r.length ∧
      (∀ a, IsFitted a r q (Biogo.Spec.AffPairs.lastEnd ps).1 → scoreAff S gapOpen a ≤ total ps) ∧
      (∃ a, IsFitted a r q (Biogo.Spec.AffPairs.lastEnd ps).1 ∧ scoreAff S gapOpen a = total ps) := by
  obtain ⟨ps, hps, he1, heR, hopt⟩ := Biogo.Proofs.FittedFull.fitAlign_total S gapOpen ho hg r q hr hq
  obtain ⟨_, _, h0, hC⟩ := Biogo.Proofs.TraceWF.fitAlign_wf S gapOpen r q ps hps
  have h := fittedOpt_isOpt true S gapOpen r q _ heR
  refine ⟨ps, hps, h0, hC, he1, heR, ?_, ?_⟩
  · intro a ha
    obtain ⟨y, hy, hle⟩ := h.1 a ⟨ha, Or.inl rfl⟩
    rw [hopt] at hy
    cases hy
    exact hle
  · obtain ⟨a, ⟨ha, _⟩, e⟩ := h.2 _ hopt
    exact ⟨a, ha, e⟩

/-- non-vacuity: the two K3 witnesses.  Unit costs, gap-open 0, `a` / `aac`: −3 before the
    repairs, now `a--` / `aac` with −1 (the alignment ends with a gap in the reference);
    gap-open −3, `aa` / `cca`: −6 before, now `--a` / `cca` with −4 (a query gap opened after
    the skipped reference prefix) -/
example : fitAlign (sc [[0, -1, -1], [-1, 1, -1], [-1, -1, 1]]) 0 [1] [1, 1, 2] =
    .ok [⟨0, 1, 0, 1, 1⟩, ⟨1, 1, 1, 3, -2⟩] := by
  decide +kernel
example : fitAlign (sc [[0, -1, -1], [-1, 1, -1], [-1, -1, 1]]) (-3) [1, 1] [2, 2, 1] =
    .ok [⟨1, 1, 0, 2, -5⟩, ⟨1, 2, 2, 3, 1⟩] := by
  decide +kernel

/-- **The repair of K1 is conservative for the totals** (NWAffine): the repaired aligner never
    reports less than the aligner before the repair did, and reports the same total whenever
    the optimum can be reached without a gap directly next to a gap in the other sequence
    (`globalOpt false = globalOpt true`). -/
theorem k1_repair_conservative_nw (S : Matrix) (gapOpen : Int) (r q : List Nat) (hr : r ≠ []) (hq : q ≠ []) :
    ∃ ps ps', nwAlignNoCross S gapOpen r q = .ok ps ∧ nwAlign S gapOpen r q = .ok ps' ∧
      total ps ≤ total ps' ∧
      (globalOpt false S gapOpen r q = globalOpt true S gapOpen r q → total ps = total ps') := by
  obtain ⟨ps, x, hps, hx, htot⟩ := nwAlignNoCross_total S gapOpen r q hr hq
  obtain ⟨ps', x', hps', hx', htot'⟩ := nwAlign_total S gapOpen r q hr hq
  refine ⟨ps, ps', hps, hps', ?_, ?_⟩
  · obtain ⟨a, ⟨hg, _⟩, e⟩ := (globalOpt_isOpt false S gapOpen r q).2 x hx
    obtain ⟨y, hy, hle⟩ := (globalOpt_isOpt true S gapOpen r q).1 a ⟨hg, Or.inl rfl⟩
    rw [hx'] at hy
    cases hy
    omega
  · intro heq
    rw [heq, hx'] at hx
    cases hx
    omega

/-- the same for `SWAffine` (gap scores and gap-open ≤ 0) -/
theorem k1_repair_conservative_sw (S : Matrix) (gapOpen : Int) (ho : gapOpen ≤ 0)
    (hg : ∀ x, S x 0 ≤ 0 ∧ S 0 x ≤ 0) (r q : List Nat) :
    ∃ ps ps', swAlignNoCross S gapOpen r q = .ok ps ∧ swAlign S gapOpen r q = .ok ps' ∧
      total ps ≤ total ps' ∧
      (localOpt false S gapOpen r q = localOpt true S gapOpen r q → total ps = total ps') := by
  obtain ⟨ps, hps, hub, a, hl, hn, he⟩ := Biogo.Proofs.SWAffine.swAlignNoCross_total S gapOpen ho hg r q
  obtain ⟨ps', hps', hub', a', hl', he'⟩ := Biogo.Proofs.SWAffine.swAlign_total S gapOpen ho hg r q
  refine ⟨ps, ps', hps, hps', by have := hub' a hl; omega, ?_⟩
  intro heq
  have h1 : IsOpt (fun a => IsLocal a r q ∧ ((false : Bool) = true ∨ NoAdj a)) (scoreAff S gapOpen) (some (total ps)) :=
    ⟨fun b hb => ⟨_, rfl, hub b hb.1 (hb.2.resolve_left (by simp))⟩,
     fun x hx => by cases hx; exact ⟨a, ⟨hl, Or.inr hn⟩, he⟩⟩
  have h2 : IsOpt (fun a => IsLocal a r q ∧ ((true : Bool) = true ∨ NoAdj a)) (scoreAff S gapOpen) (some (total ps')) :=
    ⟨fun b hb => ⟨_, rfl, hub' b hb.1⟩, fun x hx => by cases hx; exact ⟨a', ⟨hl', Or.inl rfl⟩, he'⟩⟩
  have e1 := isOpt_unique h1 (localOpt_isOpt false S gapOpen r q)
  have e2 := isOpt_unique h2 (localOpt_isOpt true S gapOpen r q)
  rw [← e1, ← e2] at heq
  exact Option.some.inj heq

/-! ### the aligners before the repairs: what held, what did not -/

/-- **C08, NWAffine before the repair of K1, the part that held** (`_partial`: the maximum is
    over the global alignments without adjacent opposite gaps, not over all of them — finding
    K1).  For all matrices, gap-open values and non-empty sequences the model of `NWAffine`
    without the `up ↔ left` transitions (`nwAlignNoCross`) returns pairs whose total is an upper
    bound for every such alignment and is attained by one. -/
theorem nwAffine_opt_partial (S : Matrix) (gapOpen : Int) (r q : List Nat) (hr : r ≠ []) (hq : q ≠ []) :
    ∃ ps, nwAlignNoCross S gapOpen r q = .ok ps ∧
      (∀ a, IsGlobal a r q → NoAdj a → scoreAff S gapOpen a ≤ total ps) ∧
      (∃ a, IsGlobal a r q ∧ NoAdj a ∧ scoreAff S gapOpen a = total ps) := by
  obtain ⟨ps, x, hps, hx, htot⟩ := nwAlignNoCross_total S gapOpen r q hr hq
  have h := globalOpt_isOpt false S gapOpen r q
  refine ⟨ps, hps, ?_, ?_⟩
  · intro a hg hn
    obtain ⟨y, hy, hle⟩ := h.1 a ⟨hg, Or.inr hn⟩
    rw [hx] at hy
    cases hy
    omega
  · obtain ⟨a, ⟨hg, hn⟩, e⟩ := h.2 x hx
    rcases hn with hn | hn
    · cases hn
    · exact ⟨a, hg, hn, by omega⟩

/-- **C08, SWAffine before the repair of K1, the part that held** (`_partial`: maximum over the
    local alignments without adjacent opposite gaps — K1 — "zero if none is positive" being the
    empty alignment).  For all matrices with non-positive gap scores, every gap-open ≤ 0 and all
    sequences the model of `SWAffine` without the `up ↔ left` transitions (`swAlignNoCross`,
    after fix F11) returns pairs whose total bounds every such alignment and is attained by one. -/
theorem swAffine_opt_partial (S : Matrix) (gapOpen : Int) (ho : gapOpen ≤ 0)
    (hg : ∀ x, S x 0 ≤ 0 ∧ S 0 x ≤ 0) (r q : List Nat) :
    ∃ ps, swAlignNoCross S gapOpen r q = .ok ps ∧
      (∀ a, IsLocal a r q → NoAdj a → scoreAff S gapOpen a ≤ total ps) ∧
      (∃ a, IsLocal a r q ∧ NoAdj a ∧ scoreAff S gapOpen a = total ps) :=
  Biogo.Proofs.SWAffine.swAlignNoCross_total S gapOpen ho hg r q

/-- non-vacuity: the F11 witness (`aa` / `aca`, match 7, gap-vs-c 0, gap-open −2) gives 12 -/
example : swAlignNoCross (sc [[0, -1, 0], [-1, 7, -3], [-1, -3, 7]]) (-2) [1, 1] [1, 2, 1] =
    .ok [⟨0, 1, 0, 1, 7⟩, ⟨1, 1, 1, 2, -2⟩, ⟨1, 2, 2, 3, 7⟩] := by
  decide +kernel

/-- **C08, FittedAffine before the repairs of K1 and K3, as far as it held** (`_partial`; the
    model is `fitAlignLegacy`).  The property: "the fitted aligners
    return an alignment that consumes the whole query and is optimal among all such alignments
    that end at the same reference position".  Full statement:

        ∃ ps, fitAlignLegacy S open r q = .ok ps ∧ consumes the query ∧
          (∀ a, IsFitted a r q (lastEnd ps).1 → scoreAff S open a ≤ total ps) ∧
          (∃ a, IsFitted a r q (lastEnd ps).1 ∧ scoreAff S open a = total ps)

    The upper bound was false of that code even over `NoAdj` alignments (`fittedAffine_not_opt`,
    finding K3).  What held for all matrices, gap-open values and non-empty sequences: the
    result consumes the whole query (after fix K2b), ends inside the reference, and its total
    is the affine score of a genuine alignment of the whole query with a reference segment
    ending at the reported end, without adjacent opposite gaps — so the total never exceeds
    the optimum for that end (`fittedOpt_optimal`). -/
theorem fittedAffine_opt_partial (S : Matrix) (gapOpen : Int) (r q : List Nat) (hr : r ≠ []) (hq : q ≠ []) :
    ∃ ps, fitAlignLegacy S gapOpen r q = .ok ps ∧
      (Biogo.Spec.AffPairs.firstStart ps).2 = 0 ∧ (Biogo.Spec.AffPairs.lastEnd ps).2 = q.length ∧
      (Biogo.Spec.AffPairs.lastEnd ps).1 ≤ r.length ∧
      ∃ a, IsFitted a r q (Biogo.Spec.AffPairs.lastEnd ps).1 ∧ NoAdj a ∧ scoreAff S gapOpen a = total ps := by
  obtain ⟨ps, hps, hle, a, hfit, hna, hsc⟩ := Biogo.Proofs.FittedAffine.fitAlign_sound S gapOpen r q hr hq
  obtain ⟨t, ht⟩ := Biogo.Proofs.TraceWF.map_fst_ok hps
  obtain ⟨_, _, h0, hC⟩ := Biogo.Proofs.TraceWF.fitAlignT_wf true false false S gapOpen r q ps t ht
  exact ⟨ps, hps, h0, hC, hle, a, hfit, hna, hsc⟩

/-- Refutation of the full statement for `FittedAffine` before the repairs (finding K3): unit
    costs, gap-open 0, `r = a`, `q = aac`: the aligner reported `--a` / `aac` with total −3 for end 1, while
    `a--` / `aac` also ends at 1, consumes the query, has no adjacent opposite gaps and scores −1
    (only match-layer ends were considered).  The repaired aligner returns that alignment
    (example after `fittedAffine_opt`). -/
theorem fittedAffine_not_opt :
    ∃ (M : List (List Int)) (gapOpen : Int) (r q : List Nat) (ps : List Pair) (a : Aln),
      gapOpen ≤ 0 ∧ (∀ x, x < 3 → sc M x 0 ≤ 0 ∧ sc M 0 x ≤ 0) ∧
      fitAlignLegacy (sc M) gapOpen r q = .ok ps ∧
      IsFitted a r q (Biogo.Spec.AffPairs.lastEnd ps).1 ∧ NoAdj a ∧ total ps < scoreAff (sc M) gapOpen a :=
  ⟨[[0, -1, -1], [-1, 1, -1], [-1, -1, 1]], 0, [1], [1, 1, 2],
    [⟨0, 0, 0, 2, -2⟩, ⟨0, 1, 2, 3, -1⟩], [.m 1 1, .l 1, .l 2],
    by decide, by decide, by decide +kernel, ⟨0, by decide, by decide, by decide, by decide⟩,
    (by show noAdj _ = true; decide), by decide⟩

/-- **C08, FittedAffine before the repairs: optimal over the class it explored** (finding K3
    was exactly the difference between this class and all fitted alignments).  For all matrices,
    gap-open values and non-empty sequences the model `fitAlignLegacy` returns pairs whose total
    is the maximum of the affine score over the alignments of the whole query with a reference
    segment ending at the reported end that
      * have no gap directly next to a gap in the other sequence (K1),
      * end with a letter pair (the end value was read from the match layer only),
      * start with a letter pair — or, when the segment starts at reference position 0, with a
        gap in the reference (the free reference prefix sits in the `up` layer of column 0 and,
        without the `up → left` transition, fed only the match layer of column 1)
    (`Spec.FittedRestricted.IsFittedRestricted`): upper bound and attainment. -/
theorem fittedAffine_opt_restricted (S : Matrix) (gapOpen : Int) (r q : List Nat) (hr : r ≠ []) (hq : q ≠ []) :
    ∃ ps, fitAlignLegacy S gapOpen r q = .ok ps ∧
      (∀ a, Biogo.Spec.FittedRestricted.IsFittedRestricted a r q (Biogo.Spec.AffPairs.lastEnd ps).1 →
        scoreAff S gapOpen a ≤ total ps) ∧
      (∃ a, Biogo.Spec.FittedRestricted.IsFittedRestricted a r q (Biogo.Spec.AffPairs.lastEnd ps).1 ∧
        scoreAff S gapOpen a = total ps) :=
  Biogo.Proofs.FittedClass.fitAlign_restricted_opt S gapOpen r q hr hq

/-- the yardstick of the K3 recogniser is what it claims to be: for every row `e` the
    match-layer value of the last column of the fitted table of the fill before the repair of K1
    (`fitTable false`) is the maximum of the affine score over the restricted class for end `e`
    (`none` iff the class is empty) -/
theorem fittedRestricted_yardstick (S : Matrix) (gapOpen : Int) (r q : List Nat) (hq : q ≠ []) (e : Nat)
    (he : e ≤ r.length) :
    (∀ a, Biogo.Spec.FittedRestricted.IsFittedRestricted a r q e →
        ∃ x, ((fitTable false S gapOpen r q).at e q.length).d = some x ∧ scoreAff S gapOpen a ≤ x) ∧
    (∀ x, ((fitTable false S gapOpen r q).at e q.length).d = some x →
        ∃ a, Biogo.Spec.FittedRestricted.IsFittedRestricted a r q e ∧ scoreAff S gapOpen a = x) :=
  Biogo.Proofs.FittedClass.fitTable_restricted_opt S gapOpen r q hq e he

/-- non-vacuity: the class is inhabited (`ac` against `ac`, two letter pairs) -/
example : Biogo.Spec.FittedRestricted.IsFittedRestricted [.m 1 1, .m 2 2] [3, 1, 2] [1, 2] 3 :=
  ⟨⟨1, by decide, by decide, by decide, by decide⟩, (by show noAdj _ = true; decide), by decide,
    Or.inl (by decide)⟩

/-- The classical side condition did not rescue `FittedAffine` before the repairs (there is
    no analogue of `nwAffine_opt_of_side_condition`): unit costs satisfy `S x 0 + S 0 y ≤ S x y`, gap-open 0,
    and the K3 witness (`r = a`, `q = aac`: −3 reported for end 1, `a--` / `aac` scores −1)
    stands.  The alignment that wins ends with a gap in the reference, which the match-layer
    end cannot represent, whatever the matrix. -/
theorem fittedAffine_side_condition_insufficient :
    ∃ (M : List (List Int)) (gapOpen : Int) (r q : List Nat) (ps : List Pair) (a : Aln),
      gapOpen ≤ 0 ∧ (∀ x, x < 3 → sc M x 0 ≤ 0 ∧ sc M 0 x ≤ 0) ∧
      (∀ x, x < 3 → ∀ y, y < 3 → sc M x 0 + sc M 0 y ≤ sc M x y) ∧
      fitAlignLegacy (sc M) gapOpen r q = .ok ps ∧
      IsFitted a r q (Biogo.Spec.AffPairs.lastEnd ps).1 ∧ NoAdj a ∧ total ps < scoreAff (sc M) gapOpen a :=
  ⟨[[0, -1, -1], [-1, 1, -1], [-1, -1, 1]], 0, [1], [1, 1, 2],
    [⟨0, 0, 0, 2, -2⟩, ⟨0, 1, 2, 3, -1⟩], [.m 1 1, .l 1, .l 2],
    by decide, by decide, by decide, by decide +kernel, ⟨0, by decide, by decide, by decide, by decide⟩,
    (by show noAdj _ = true; decide), by decide⟩

/-- non-vacuity: the K1 witness itself -/
example : nwAlignNoCross (sc [[0, 0, 0], [-2, 1, -10], [-2, -10, 1]]) (-2) [1] [2] = .ok [⟨0, 1, 0, 1, -10⟩] := by
  decide +kernel

/-- the K1 witness: `S[a][c] = −10`, gap scores `−2` (gap in the query) and `0` (gap in the
    reference), gap-open `−2`; letters `a = 1`, `c = 2` of `-acgt` -/
def k1M : List (List Int) :=
  [[0, 0, 0, 0, 0], [-2, 1, -10, -10, -10], [-2, -10, 1, -10, -10], [-2, -10, -10, 1, -10], [-2, -10, -10, -10, 1]]

/-- Refutation of the full-strength statement of C08 for `NWAffine` before the repair of K1
    ("the total equals the maximum over all global alignments under the affine gap model"):
    for `r = a`, `q = c` the aligner reported −10 while the global alignment `a-` / `-c`
    scores −6 — and the repaired aligner (`nwAlign`) reports −6 on the same input. -/
theorem nwAffine_not_opt :
    ∃ (M : List (List Int)) (gapOpen : Int) (r q : List Nat) (ps ps' : List Pair) (a : Aln),
      gapOpen ≤ 0 ∧ (∀ x, x < 5 → sc M x 0 ≤ 0 ∧ sc M 0 x ≤ 0) ∧
      nwAlignNoCross (sc M) gapOpen r q = .ok ps ∧ IsGlobal a r q ∧ total ps < scoreAff (sc M) gapOpen a ∧
      nwAlign (sc M) gapOpen r q = .ok ps' ∧ total ps' = scoreAff (sc M) gapOpen a :=
  ⟨k1M, -2, [1], [2], [⟨0, 1, 0, 1, -10⟩], [⟨0, 0, 0, 1, -2⟩, ⟨0, 1, 1, 1, -4⟩], [.u 1, .l 2],
    by decide, by decide, by decide +kernel, ⟨by decide, by decide⟩, by decide, by decide +kernel, by decide⟩

/-- **The classical side condition.**  If a letter pair never scores less than its two
    letters against gaps and opening a gap costs, every global alignment is matched or beaten
    by one without adjacent opposite gaps, so the maximum over the restricted class is the
    maximum over all global alignments.
    (DESIGN.md states the condition as `S r q ≥ (open + S r 0) + (open + S 0 q)`; that is not
    sufficient, see `design_side_condition_insufficient`.) -/
theorem noAdj_suffices (S : Matrix) (gapOpen : Int) (ho : gapOpen ≤ 0)
    (H : ∀ x y, S x 0 + S 0 y ≤ S x y) (r q : List Nat) (a : Aln) (h : IsGlobal a r q) :
    ∃ a', IsGlobal a' r q ∧ NoAdj a' ∧ scoreAff S gapOpen a ≤ scoreAff S gapOpen a' :=
  exists_noAdj_ge S gapOpen ho H r q a h

/-- non-vacuity of the side condition: unit costs satisfy it -/
example : ∀ x, x < 3 → ∀ y, y < 3 →
    sc [[0, -1, -1], [-1, 1, -1], [-1, -1, 1]] x 0 + sc [[0, -1, -1], [-1, 1, -1], [-1, -1, 1]] 0 y
      ≤ sc [[0, -1, -1], [-1, 1, -1], [-1, -1, 1]] x y := by decide

/-- **C08 for NWAffine before the repair of K1, at full strength under the side condition**:
    the total equals the maximum over *all* global alignments. -/
theorem nwAffine_opt_of_side_condition (S : Matrix) (gapOpen : Int) (ho : gapOpen ≤ 0)
    (H : ∀ x y, S x 0 + S 0 y ≤ S x y) (r q : List Nat) (hr : r ≠ []) (hq : q ≠ []) :
    ∃ ps, nwAlignNoCross S gapOpen r q = .ok ps ∧
      (∀ a, IsGlobal a r q → scoreAff S gapOpen a ≤ total ps) ∧
      (∃ a, IsGlobal a r q ∧ scoreAff S gapOpen a = total ps) := by
  obtain ⟨ps, hps, hub, a, hg, _, he⟩ := nwAffine_opt_partial S gapOpen r q hr hq
  refine ⟨ps, hps, ?_, a, hg, he⟩
  intro b hb
  obtain ⟨b', hg', hn', hle⟩ := noAdj_suffices S gapOpen ho H r q b hb
  have := hub b' hg' hn'
  omega

/-- **C08 for SWAffine before the repair of K1, at full strength under the side condition**:
    the total equals the maximum over *all* local alignments (zero if none is positive). -/
theorem swAffine_opt_of_side_condition (S : Matrix) (gapOpen : Int) (ho : gapOpen ≤ 0)
    (hg : ∀ x, S x 0 ≤ 0 ∧ S 0 x ≤ 0) (H : ∀ x y, S x 0 + S 0 y ≤ S x y) (r q : List Nat) :
    ∃ ps, swAlignNoCross S gapOpen r q = .ok ps ∧
      (∀ a, IsLocal a r q → scoreAff S gapOpen a ≤ total ps) ∧
      (∃ a, IsLocal a r q ∧ scoreAff S gapOpen a = total ps) := by
  obtain ⟨ps, hps, hub, a, hl, _, he⟩ := swAffine_opt_partial S gapOpen ho hg r q
  refine ⟨ps, hps, ?_, a, hl, he⟩
  intro b hb
  obtain ⟨b', hl', hn', hle⟩ := exists_noAdj_ge_local S gapOpen ho H r q b hb
  have := hub b' hl' hn'
  omega

/-- The side condition as DESIGN.md words it, `S r q ≥ (open + S r 0) + (open + S 0 q)`, does
    not make the restricted optimum the optimum: all letter pairs −10, gap letters −1,
    gap-open −4, `r = aa`, `q = cc`: the condition holds (−10 ≥ −10), `NWAffine` before the repair
    of K1 returned −20, the alignment `aa--` / `--cc` scores −12. -/
theorem design_side_condition_insufficient :
    ∃ (M : List (List Int)) (gapOpen : Int) (r q : List Nat) (ps : List Pair) (a : Aln),
      gapOpen ≤ 0 ∧
      (∀ x, x < 5 → ∀ y, y < 5 → 0 < x → 0 < y →
        (gapOpen + sc M x 0) + (gapOpen + sc M 0 y) ≤ sc M x y) ∧
      nwAlignNoCross (sc M) gapOpen r q = .ok ps ∧ IsGlobal a r q ∧ total ps < scoreAff (sc M) gapOpen a :=
  ⟨[[0, -1, -1, -1, -1], [-1, -10, -10, -10, -10], [-1, -10, -10, -10, -10], [-1, -10, -10, -10, -10],
     [-1, -10, -10, -10, -10]], -4, [1, 1], [2, 2],
    [⟨0, 2, 0, 2, -20⟩], [.u 1, .u 1, .l 2, .l 2],
    by decide, by decide, by decide +kernel, ⟨by decide, by decide⟩, by decide⟩

end Biogo.Properties.C08_aff
