/-
C15 — the proved chain from an ε-match to the trapezoid handed to the DP aligner:

  ε-match  ⇒ (C14 `filter_complete`)  covered by a filter hit
           ⇒ (`merger_covers_hits`)    inside a trapezoid `FinaliseMerge` returns.

Both links are theorems about the models the drivers run against `filter.Filter` and
`filter.Merger`; the hit list passes from one to the other through the morass, modelled as
"some list with the same elements in ascending `From`".

Two forms of each chain theorem: `…_given_merge` assumes that the merger model answers
(`merge … = some traps`); the unsuffixed form proves it (`filter_hits_in_merger_domain` +
`merger_total`) and so has no hypothesis on the merger.  Both exist for the forward strand
(`epsmatch_inside_trapezoid`), for either strand of `PALS.Align(complement)`
(`epsmatch_inside_trapezoid_strand`) and for the complement strand of a self comparison
(`epsmatch_inside_trapezoid_complement`).
-/
import Biogo.Properties.C14
import Biogo.Properties.C15_merge
import Biogo.Proofs.PalsChain
import Biogo.Proofs.PalsChainDomain

namespace Biogo.Properties.C15_chain
open Biogo.Spec.Filter Biogo.Spec.Kmer Biogo.Proofs.Kmer Biogo.Proofs.FilterComplete
open Biogo.Filter (filter minWordsPerFilterHit)
open Biogo.PalsMerge Biogo.Proofs.PalsMerge Biogo.Properties.C15_merge

/-- a filter hit as the merger reads it -/
def toF (h : Biogo.Filter.Hit) : FHit := { from_ := h.from_, to := h.to, diagonal := h.diagonal }

/-- which letters `valueToCode` accepts -/
def validity (lk : Lookup) (s : List UInt8) : Array Bool := (s.map fun b => (lk b).isSome).toArray

/-- `NewMerger(index, query, params, maxIGap, selfCompare)` for the pair the filter ran on -/
def mergerCfg (lk : Lookup) (t q : List UInt8) (k e off g : Nat) (selfAlign : Bool) : Cfg :=
  { qv := validity lk q, tv := validity lk t, k := k, maxError := e, tubeOffset := off, maxIGap := g,
    selfComparison := selfAlign }

theorem validity_allValid (lk : Lookup) (s : List UInt8) (h : Biogo.Proofs.FilterComplete.AllValid lk s) :
    Biogo.Proofs.PalsMerge.AllValid (validity lk s) := by
  intro i hi
  have hi' : i < s.length := by simpa [validity] using hi
  have := h _ (List.getElem_mem hi')
  simp [validity, Array.getD, hi', this]

/-- **`epsmatch_inside_trapezoid_given_merge`** (the second wave's statement, kept): for target and
    query over the four-letter alphabet, the
    parameter ranges of C14's `filter_complete`, `maxIGap ≥ 1`: let `hits` be what the filter model
    returns, `sorted` any list with the same elements in ascending `From` (the morass), and `traps`
    what the merger model returns for it — *given that it answers* (`hm`; `epsmatch_inside_trapezoid`
    below discharges this hypothesis).  Then every ε-match `t[a:a+n] ~ q[b:b+n]` (at most `e`
    substitutions) — in a self comparison: every such match at least
    `MaxError + maxIGap + tubeWidth` diagonals above the main diagonal, below that the merger's cut
    may drop the covering hit on purpose — lies in a returned trapezoid: its diagonal `b - a` is
    within `[Left, Right]`, its query interval `[b, b+n)` overlaps `[Bottom, Top]`, and the
    trapezoid is at least `k` high (it contains a filter hit, which contains a whole k-mer), so it
    passes the pre-screen `t.Top-t.Bottom >= a.k` of `AlignTraps` and — unless an earlier hit
    already covers it — is handed to the kernel. -/
theorem epsmatch_inside_trapezoid_given_merge {lk : Lookup} (hlk : FourLetter lk) (t q : List UInt8)
    (k n e off g : Nat) (selfAlign : Bool)
    (hk : Biogo.Kmer.minKmerLen ≤ k) (hk' : k ≤ Biogo.Kmer.maxKmerLen) (ht : k + 1 ≤ t.length)
    (hq : Biogo.Proofs.FilterComplete.AllValid lk q) (htv : Biogo.Proofs.FilterComplete.AllValid lk t)
    (hthr : 0 < minWordsPerFilterHit n k e) (he : e ≤ off) (hoff : 1 ≤ off) (hg : 1 ≤ g)
    (hits : List Biogo.Filter.Hit)
    (hf : filter Biogo.Generated.FilterFacts.rule lk (builtIndex lk k t)
            { minMatch := n, maxError := e, tubeOffset := off } q selfAlign false = .ok hits)
    (sorted : List FHit) (hsame : ∀ x, x ∈ sorted ↔ x ∈ hits.map toF) (hsorted : SortedByFrom sorted)
    (traps : List Trap) (hm : merge (mergerCfg lk t q k e off g selfAlign) sorted = some traps) :
    ∀ a b, EpsMatch lk t q n e a b → required selfAlign a b = true →
      (selfAlign = true → (b : Int) - a > (e : Int) + g + ((off : Int) + e - 1)) →
      ∃ T ∈ traps, T.left ≤ (b : Int) - a ∧ (b : Int) - a ≤ T.right ∧
        T.bottom < (b : Int) + n ∧ (b : Int) < T.top ∧ preScreen k T = true := by
  intro a b hmatch hreq hfar
  have hk1 : 2 ≤ k ∧ 2 * k ≤ Biogo.Kmer.wordBits := by
    unfold Biogo.Kmer.minKmerLen at hk; unfold Biogo.Kmer.maxKmerLen at hk'; unfold Biogo.Kmer.wordBits; omega
  -- link 1: the filter
  obtain ⟨_, hcomp⟩ := Biogo.Properties.C14.filter_complete hlk t q k n e off selfAlign hk hk' ht hthr he hoff
  obtain ⟨h, hh, hcov⟩ := hcomp hits hf a b hmatch hreq
  obtain ⟨h0, hh0, rfl⟩ := List.mem_map.mp hh
  simp only [covers, toSpec, Bool.and_eq_true] at hcov
  obtain ⟨⟨⟨c1, c2⟩, c3⟩, c4⟩ := hcov
  have c1 := of_decide_eq_true c1
  have c2 := of_decide_eq_true c2
  have c3 := of_decide_eq_true c3
  have c4 := of_decide_eq_true c4
  -- every filter hit has From ≤ To
  have hqlen : k ≤ q.length := by
    obtain ⟨_, hb, _⟩ := hmatch
    have := thr_pos_imp hthr (by omega : 1 ≤ k)
    omega
  have hwf := Biogo.Proofs.PalsChain.filter_hits_wf hlk _ (builtIndex lk k t)
    { minMatch := n, maxError := e, tubeOffset := off } q selfAlign false
    (by rw [Biogo.Properties.C14.rule_tie]; rfl) (by rw [builtIndex_k]; omega) (by rw [builtIndex_k]; exact hk1.2) (by rw [builtIndex_k]; exact hqlen)
    he hoff hits hf
  -- link 2: the merger
  have pre : Pre (mergerCfg lk t q k e off g selfAlign) sorted :=
    { band := by simp only [Cfg.binWidth, Cfg.tubeWidth, mergerCfg]; omega
      gap := by simp only [mergerCfg]; omega
      qvalid := validity_allValid lk q hq
      tvalid := validity_allValid lk t htv
      sorted := hsorted
      ordered := by
        intro x hx
        obtain ⟨y, hy, rfl⟩ := List.mem_map.mp ((hsame x).mp hx)
        have := (hwf y hy).1
        simp only [toF]
        omega }
  have hin : toF h0 ∈ sorted := (hsame _).mpr (List.mem_map.mpr ⟨h0, hh0, rfl⟩)
  have hnotcut : dropped (mergerCfg lk t q k e off g selfAlign) (toF h0) = false := by
    have hql : (mergerCfg lk t q k e off g selfAlign).qlen = (q.length : Int) := by
      simp [Cfg.qlen, mergerCfg, validity]
    have hbq : b + n ≤ q.length := hmatch.2.1
    unfold dropped
    rw [Bool.or_eq_false_iff]
    constructor
    · -- the band of the covering hit contains the diagonal of the match, which lies inside the query
      unfold beyondQuery
      rw [hql]
      simp only [toF]
      apply decide_eq_false
      omega
    · unfold selfCut
      cases hs : selfAlign with
      | false => simp [mergerCfg]
      | true =>
        have := hfar hs
        simp only [mergerCfg, toF, Bool.true_and]
        apply decide_eq_false
        omega
  obtain ⟨T, hT, l1, l2, l3, l4⟩ := merger_covers_hits _ sorted traps pre hm (toF h0) hin hnotcut
  have hk0 := (hwf h0 hh0).1
  rw [builtIndex_k] at hk0
  refine ⟨T, hT, ?_, ?_, ?_, ?_, ?_⟩
  · simp only [toF] at l1; omega
  · simp only [toF, Cfg.binWidth, Cfg.tubeWidth, mergerCfg] at l2; omega
  · simp only [toF] at l3; omega
  · simp only [toF] at l4; omega
  · simp only [toF] at l3 l4
    unfold preScreen
    apply decide_eq_true
    omega


/-- `NewMerger(index, working, params, maxIGap, selfCompare && !complement)` as `PALS.Align(complement)`
    builds it since the repair `d09a2b0` (upstream `fd44978`): on the complement strand the merger's
    main-diagonal cut is off — the filter has already restricted that strand to one side of the
    anti-diagonal. -/
def mergerCfgStrand (lk : Lookup) (t q : List UInt8) (k e off g : Nat) (selfAlign complement : Bool) : Cfg :=
  mergerCfg lk t q k e off g (selfAlign && !complement)

/-- **`epsmatch_inside_trapezoid_strand_given_merge`** — the chain for either strand of
    `PALS.Align(complement)`, *given that the merger model answers* (`hm`;
    `epsmatch_inside_trapezoid_strand` below discharges this hypothesis):
    the filter runs with the flags `(selfAlign, complement)`, the merger with
    `selfComparison = selfAlign && !complement` (`pals.go`).  Every ε-match required on the strand
    (`requiredC`: forward strand of a self comparison `a < b`, complement strand `Tlen ≤ a + b`,
    everything otherwise) lies in a returned trapezoid that passes the pre-screen of `AlignTraps`;
    only on the forward strand of a self comparison the match must in addition stay
    `MaxError + maxIGap + tubeWidth` diagonals above the main diagonal (the merger's cut). -/
theorem epsmatch_inside_trapezoid_strand_given_merge {lk : Lookup} (hlk : FourLetter lk) (t q : List UInt8)
    (k n e off g : Nat) (selfAlign complement : Bool)
    (hk : Biogo.Kmer.minKmerLen ≤ k) (hk' : k ≤ Biogo.Kmer.maxKmerLen) (ht : k + 1 ≤ t.length)
    (hq : Biogo.Proofs.FilterComplete.AllValid lk q) (htv : Biogo.Proofs.FilterComplete.AllValid lk t)
    (hthr : 0 < minWordsPerFilterHit n k e) (he : e ≤ off) (hoff : 1 ≤ off) (hg : 1 ≤ g)
    (hits : List Biogo.Filter.Hit)
    (hf : filter Biogo.Generated.FilterFacts.rule lk (builtIndex lk k t)
            { minMatch := n, maxError := e, tubeOffset := off } q selfAlign complement = .ok hits)
    (sorted : List FHit) (hsame : ∀ x, x ∈ sorted ↔ x ∈ hits.map toF) (hsorted : SortedByFrom sorted)
    (traps : List Trap) (hm : merge (mergerCfgStrand lk t q k e off g selfAlign complement) sorted = some traps) :
    ∀ a b, EpsMatch lk t q n e a b → requiredC selfAlign complement t.length a b = true →
      (selfAlign = true → complement = false → (b : Int) - a > (e : Int) + g + ((off : Int) + e - 1)) →
      ∃ T ∈ traps, T.left ≤ (b : Int) - a ∧ (b : Int) - a ≤ T.right ∧
        T.bottom < (b : Int) + n ∧ (b : Int) < T.top ∧ preScreen k T = true := by
  intro a b hmatch hreq hfar
  have hk1 : 2 ≤ k ∧ 2 * k ≤ Biogo.Kmer.wordBits := by
    unfold Biogo.Kmer.minKmerLen at hk; unfold Biogo.Kmer.maxKmerLen at hk'; unfold Biogo.Kmer.wordBits; omega
  -- link 1: the filter
  have hcomp := Biogo.Properties.C14.filter_complete_strand hlk t q k n e off selfAlign complement hk hk' ht hthr he hoff
  obtain ⟨h, hh, hcov⟩ := hcomp hits hf a b hmatch hreq
  obtain ⟨h0, hh0, rfl⟩ := List.mem_map.mp hh
  simp only [covers, toSpec, Bool.and_eq_true] at hcov
  obtain ⟨⟨⟨c1, c2⟩, c3⟩, c4⟩ := hcov
  have c1 := of_decide_eq_true c1
  have c2 := of_decide_eq_true c2
  have c3 := of_decide_eq_true c3
  have c4 := of_decide_eq_true c4
  -- every filter hit has From ≤ To
  have hqlen : k ≤ q.length := by
    obtain ⟨_, hb, _⟩ := hmatch
    have := thr_pos_imp hthr (by omega : 1 ≤ k)
    omega
  have hwf := Biogo.Proofs.PalsChain.filter_hits_wf hlk _ (builtIndex lk k t)
    { minMatch := n, maxError := e, tubeOffset := off } q selfAlign complement
    (by rw [Biogo.Properties.C14.rule_tie]; rfl) (by rw [builtIndex_k]; omega) (by rw [builtIndex_k]; exact hk1.2) (by rw [builtIndex_k]; exact hqlen)
    he hoff hits hf
  -- link 2: the merger
  have pre : Pre (mergerCfgStrand lk t q k e off g selfAlign complement) sorted :=
    { band := by simp only [Cfg.binWidth, Cfg.tubeWidth, mergerCfgStrand, mergerCfg]; omega
      gap := by simp only [mergerCfgStrand, mergerCfg]; omega
      qvalid := validity_allValid lk q hq
      tvalid := validity_allValid lk t htv
      sorted := hsorted
      ordered := by
        intro x hx
        obtain ⟨y, hy, rfl⟩ := List.mem_map.mp ((hsame x).mp hx)
        have := (hwf y hy).1
        simp only [toF]
        omega }
  have hin : toF h0 ∈ sorted := (hsame _).mpr (List.mem_map.mpr ⟨h0, hh0, rfl⟩)
  have hnotcut : dropped (mergerCfgStrand lk t q k e off g selfAlign complement) (toF h0) = false := by
    have hql : (mergerCfgStrand lk t q k e off g selfAlign complement).qlen = (q.length : Int) := by
      simp [Cfg.qlen, mergerCfgStrand, mergerCfg, validity]
    have hbq : b + n ≤ q.length := hmatch.2.1
    unfold dropped
    rw [Bool.or_eq_false_iff]
    constructor
    · -- the band of the covering hit contains the diagonal of the match, which lies inside the query
      unfold beyondQuery
      rw [hql]
      simp only [toF]
      apply decide_eq_false
      omega
    · unfold selfCut
      cases hs : selfAlign with
      | false => simp [mergerCfgStrand, mergerCfg]
      | true =>
        cases hc : complement with
        | true => simp [mergerCfgStrand, mergerCfg]
        | false =>
          have := hfar hs hc
          simp only [mergerCfgStrand, mergerCfg, toF, Bool.true_and, Bool.not_false]
          apply decide_eq_false
          omega
  obtain ⟨T, hT, l1, l2, l3, l4⟩ := merger_covers_hits _ sorted traps pre hm (toF h0) hin hnotcut
  have hk0 := (hwf h0 hh0).1
  rw [builtIndex_k] at hk0
  refine ⟨T, hT, ?_, ?_, ?_, ?_, ?_⟩
  · simp only [toF] at l1; omega
  · simp only [toF, Cfg.binWidth, Cfg.tubeWidth, mergerCfgStrand, mergerCfg] at l2; omega
  · simp only [toF] at l3; omega
  · simp only [toF] at l4; omega
  · simp only [toF] at l3 l4
    unfold preScreen
    apply decide_eq_true
    omega

/-- **`epsmatch_inside_trapezoid_complement_given_merge`** — the complement strand of a self
    comparison (`PALS.Align(true)` with `selfCompare`), given that the merger model answers: every
    ε-match of the target against the reverse-complemented query that lies on or above the
    anti-diagonal (`Tlen ≤ a + b`) is inside a trapezoid handed to the DP — with no margin: the merger
    does not cut on this strand. -/
theorem epsmatch_inside_trapezoid_complement_given_merge {lk : Lookup} (hlk : FourLetter lk) (t q : List UInt8)
    (k n e off g : Nat)
    (hk : Biogo.Kmer.minKmerLen ≤ k) (hk' : k ≤ Biogo.Kmer.maxKmerLen) (ht : k + 1 ≤ t.length)
    (hq : Biogo.Proofs.FilterComplete.AllValid lk q) (htv : Biogo.Proofs.FilterComplete.AllValid lk t)
    (hthr : 0 < minWordsPerFilterHit n k e) (he : e ≤ off) (hoff : 1 ≤ off) (hg : 1 ≤ g)
    (hits : List Biogo.Filter.Hit)
    (hf : filter Biogo.Generated.FilterFacts.rule lk (builtIndex lk k t)
            { minMatch := n, maxError := e, tubeOffset := off } q true true = .ok hits)
    (sorted : List FHit) (hsame : ∀ x, x ∈ sorted ↔ x ∈ hits.map toF) (hsorted : SortedByFrom sorted)
    (traps : List Trap) (hm : merge (mergerCfg lk t q k e off g false) sorted = some traps) :
    ∀ a b, EpsMatch lk t q n e a b → t.length ≤ a + b →
      ∃ T ∈ traps, T.left ≤ (b : Int) - a ∧ (b : Int) - a ≤ T.right ∧
        T.bottom < (b : Int) + n ∧ (b : Int) < T.top ∧ preScreen k T = true := by
  intro a b hmatch hab
  exact epsmatch_inside_trapezoid_strand_given_merge hlk t q k n e off g true true hk hk' ht hq htv hthr he hoff hg hits hf
    sorted hsame hsorted traps hm a b hmatch (by simp [requiredC, hab]) (by intro _ h; cases h)

/-! ### the filter's hits lie in the merger's domain

Since the ticker follows the query position (`Rule.tickByPosition`, fix `0c69d0c`) the scan of the
filter model is the position-by-position scan for *any* query, so these hold for any query — the
hypothesis `AllValid lk q` of their first statement is gone — and on either strand; the merger's
`selfComparison` flag plays no part in them (`mself` below is arbitrary; `PALS.Align` passes
`selfAlign && !complement`, `mergerCfgStrand`). -/

/-- **`filter_hits_in_merger_domain_strand`** — every hit the filter model returns (any query at
    least a word long, either strand) lies inside the domain of the merger model:
    `From - bottomPadding ≤ Qlen + 1` (a hit starts at a query position already scanned), i.e. the
    sentinel of the merger's active list stays an inert end marker. -/
theorem filter_hits_in_merger_domain_strand {lk : Lookup} (hlk : FourLetter lk) (t q : List UInt8)
    (k n e off g : Nat) (selfAlign complement mself : Bool)
    (hk : Biogo.Kmer.minKmerLen ≤ k) (hk' : k ≤ Biogo.Kmer.maxKmerLen)
    (hkq : k ≤ q.length) (he : e ≤ off) (hoff : 1 ≤ off)
    (hits : List Biogo.Filter.Hit)
    (hf : filter Biogo.Generated.FilterFacts.rule lk (builtIndex lk k t)
            { minMatch := n, maxError := e, tubeOffset := off } q selfAlign complement = .ok hits) :
    ∀ h ∈ hits, inDomain (mergerCfg lk t q k e off g mself) (toF h) = true := by
  have hk1 : 2 ≤ k ∧ 2 * k ≤ Biogo.Kmer.wordBits := by
    unfold Biogo.Kmer.minKmerLen at hk; unfold Biogo.Kmer.maxKmerLen at hk'; unfold Biogo.Kmer.wordBits; omega
  intro h hh
  have hwf := Biogo.Proofs.PalsChain.filter_hits_wf hlk _ (builtIndex lk k t)
    { minMatch := n, maxError := e, tubeOffset := off } q selfAlign complement
    (by rw [Biogo.Properties.C14.rule_tie]; rfl)
    (by rw [builtIndex_k]; omega) (by rw [builtIndex_k]; exact hk1.2) (by rw [builtIndex_k]; exact hkq)
    he hoff hits hf h hh
  have hql : (mergerCfg lk t q k e off g mself).qlen = (q.length : Int) := by
    simp [Cfg.qlen, mergerCfg, validity]
  unfold inDomain
  rw [hql]
  simp only [toF, Cfg.bottomPadding, mergerCfg]
  exact decide_eq_true (by omega)

/-- **`filter_hits_in_merger_domain`** — the forward strand, the merger built with the filter's
    `selfAlign` flag (the form `epsmatch_inside_trapezoid` uses). -/
theorem filter_hits_in_merger_domain {lk : Lookup} (hlk : FourLetter lk) (t q : List UInt8)
    (k n e off g : Nat) (selfAlign : Bool)
    (hk : Biogo.Kmer.minKmerLen ≤ k) (hk' : k ≤ Biogo.Kmer.maxKmerLen)
    (hkq : k ≤ q.length) (he : e ≤ off) (hoff : 1 ≤ off)
    (hits : List Biogo.Filter.Hit)
    (hf : filter Biogo.Generated.FilterFacts.rule lk (builtIndex lk k t)
            { minMatch := n, maxError := e, tubeOffset := off } q selfAlign false = .ok hits) :
    ∀ h ∈ hits, inDomain (mergerCfg lk t q k e off g selfAlign) (toF h) = true :=
  filter_hits_in_merger_domain_strand hlk t q k n e off g selfAlign false selfAlign hk hk' hkq he hoff hits hf

/-- **`filter_hits_within_query_band_strand`** — when the query is at least a tube wide
    (`TubeOffset + MaxError ≤ Qlen + 1`) no hit of the filter model (any query, either strand) lies
    beyond the last query row (`-Diagonal ≤ Qlen`): the guard `Left > Qlen` of `MergeFilterHit` never
    fires.  The diagonal of a hit is that of the tube index it is *emitted under* (by an evicting
    k-mer, a tick, or the final flush over a circular array), so this needs a global invariant of the
    tube array (`Proofs/PalsChainDomain.lean`).  The width condition is needed
    (`filter_hit_beyond_query_narrow`): the wrap-around `tubeIndex 0 → cap-1` of `commonKmer` emits
    under index `cap-1`, whose diagonal lies up to `TubeOffset + MaxError - 1` beyond the end of the
    target — the sixth defect (`MergeFilterHit` walked off its list on such a hit). -/
theorem filter_hits_within_query_band_strand {lk : Lookup} (hlk : FourLetter lk) (t q : List UInt8)
    (k n e off g : Nat) (selfAlign complement mself : Bool)
    (hk : Biogo.Kmer.minKmerLen ≤ k) (hk' : k ≤ Biogo.Kmer.maxKmerLen) (ht : k + 1 ≤ t.length)
    (hkq : k ≤ q.length)
    (hthr : 0 < minWordsPerFilterHit n k e) (he : e ≤ off) (hoff : 1 ≤ off) (hwide : off + e ≤ q.length + 1)
    (hits : List Biogo.Filter.Hit)
    (hf : filter Biogo.Generated.FilterFacts.rule lk (builtIndex lk k t)
            { minMatch := n, maxError := e, tubeOffset := off } q selfAlign complement = .ok hits) :
    ∀ h ∈ hits, beyondQuery (mergerCfg lk t q k e off g mself) (toF h) = false := by
  have hk1 : 2 ≤ k ∧ 2 * k ≤ Biogo.Kmer.wordBits := by
    unfold Biogo.Kmer.minKmerLen at hk; unfold Biogo.Kmer.maxKmerLen at hk'; unfold Biogo.Kmer.wordBits; omega
  rw [Biogo.Properties.C14.rule_tie] at hf
  intro h hh
  obtain ⟨d1, _⟩ := Biogo.Proofs.PalsChainDomain.filter_hits_dom hlk t q k
    { minMatch := n, maxError := e, tubeOffset := off } selfAlign complement (by omega) hk1.2 (by omega) hkq he hoff
    (by show e + 1 ≤ q.length; omega) hwide hthr hits hf h hh
  have hql : (mergerCfg lk t q k e off g mself).qlen = (q.length : Int) := by
    simp [Cfg.qlen, mergerCfg, validity]
  unfold beyondQuery
  rw [hql]
  simp only [toF]
  exact decide_eq_false (by omega)

/-- **`filter_hits_within_query_band`** — the forward strand, the merger built with the filter's
    `selfAlign` flag. -/
theorem filter_hits_within_query_band {lk : Lookup} (hlk : FourLetter lk) (t q : List UInt8)
    (k n e off g : Nat) (selfAlign : Bool)
    (hk : Biogo.Kmer.minKmerLen ≤ k) (hk' : k ≤ Biogo.Kmer.maxKmerLen) (ht : k + 1 ≤ t.length)
    (hkq : k ≤ q.length)
    (hthr : 0 < minWordsPerFilterHit n k e) (he : e ≤ off) (hoff : 1 ≤ off) (hwide : off + e ≤ q.length + 1)
    (hits : List Biogo.Filter.Hit)
    (hf : filter Biogo.Generated.FilterFacts.rule lk (builtIndex lk k t)
            { minMatch := n, maxError := e, tubeOffset := off } q selfAlign false = .ok hits) :
    ∀ h ∈ hits, beyondQuery (mergerCfg lk t q k e off g selfAlign) (toF h) = false :=
  filter_hits_within_query_band_strand hlk t q k n e off g selfAlign false selfAlign hk hk' ht hkq hthr he hoff hwide
    hits hf

/-! ### the chain without a hypothesis on the merger -/

/-- **`epsmatch_inside_trapezoid`** — the chain without a hypothesis on the merger: for target and
    query over the four-letter alphabet, the parameter ranges of C14's `filter_complete`,
    `maxIGap ≥ 1`, a query at least a word long: let `hits` be what the filter model returns and
    `sorted` any list with the same elements in ascending `From` (the morass).  Then **the merger
    model answers** (`filter_hits_in_merger_domain` + `merger_total`: the filter's hits never reach
    the sentinel of the active list) with a list `traps` in which every ε-match `t[a:a+n] ~ q[b:b+n]`
    (at most `e` substitutions; in a self comparison at least `MaxError + maxIGap + tubeWidth`
    diagonals above the main diagonal) lies: diagonal `b - a` within `[Left, Right]`, query interval
    overlapping `[Bottom, Top]`, trapezoid at least `k` high — it passes the pre-screen of
    `AlignTraps`: *ε-match ⇒ covered by a filter hit ⇒ inside a trapezoid handed to the DP*. -/
theorem epsmatch_inside_trapezoid {lk : Lookup} (hlk : FourLetter lk) (t q : List UInt8)
    (k n e off g : Nat) (selfAlign : Bool)
    (hk : Biogo.Kmer.minKmerLen ≤ k) (hk' : k ≤ Biogo.Kmer.maxKmerLen) (ht : k + 1 ≤ t.length)
    (hq : Biogo.Proofs.FilterComplete.AllValid lk q) (htv : Biogo.Proofs.FilterComplete.AllValid lk t)
    (hkq : k ≤ q.length)
    (hthr : 0 < minWordsPerFilterHit n k e) (he : e ≤ off) (hoff : 1 ≤ off) (hg : 1 ≤ g)
    (hits : List Biogo.Filter.Hit)
    (hf : filter Biogo.Generated.FilterFacts.rule lk (builtIndex lk k t)
            { minMatch := n, maxError := e, tubeOffset := off } q selfAlign false = .ok hits)
    (sorted : List FHit) (hsame : ∀ x, x ∈ sorted ↔ x ∈ hits.map toF) (hsorted : SortedByFrom sorted) :
    ∃ traps, merge (mergerCfg lk t q k e off g selfAlign) sorted = some traps ∧
      ∀ a b, EpsMatch lk t q n e a b → required selfAlign a b = true →
        (selfAlign = true → (b : Int) - a > (e : Int) + g + ((off : Int) + e - 1)) →
        ∃ T ∈ traps, T.left ≤ (b : Int) - a ∧ (b : Int) - a ≤ T.right ∧
          T.bottom < (b : Int) + n ∧ (b : Int) < T.top ∧ preScreen k T = true := by
  have hdom := filter_hits_in_merger_domain hlk t q k n e off g selfAlign hk hk' hkq he hoff hits hf
  obtain ⟨traps, hm⟩ := merger_total (mergerCfg lk t q k e off g selfAlign) sorted (by
    intro x hx
    obtain ⟨y, hy, rfl⟩ := List.mem_map.mp ((hsame x).mp hx)
    exact Or.inr (hdom y hy))
  exact ⟨traps, hm, epsmatch_inside_trapezoid_given_merge hlk t q k n e off g selfAlign hk hk' ht hq htv hthr he hoff hg
    hits hf sorted hsame hsorted traps hm⟩

/-- **`epsmatch_inside_trapezoid_strand`** — the chain for either strand of `PALS.Align(complement)`
    without a hypothesis on the merger: the filter runs with the flags `(selfAlign, complement)`, the
    merger with `selfComparison = selfAlign && !complement` (`mergerCfgStrand`).  **The merger model
    answers** on the filter's hits (`filter_hits_in_merger_domain_strand` + `merger_total`), and every
    ε-match required on the strand (`requiredC`: forward strand of a self comparison `a < b`,
    complement strand `Tlen ≤ a + b`, everything otherwise) lies in a returned trapezoid that passes
    the pre-screen of `AlignTraps`; only on the forward strand of a self comparison the match must in
    addition stay `MaxError + maxIGap + tubeWidth` diagonals above the main diagonal (the merger's
    cut). -/
theorem epsmatch_inside_trapezoid_strand {lk : Lookup} (hlk : FourLetter lk) (t q : List UInt8)
    (k n e off g : Nat) (selfAlign complement : Bool)
    (hk : Biogo.Kmer.minKmerLen ≤ k) (hk' : k ≤ Biogo.Kmer.maxKmerLen) (ht : k + 1 ≤ t.length)
    (hq : Biogo.Proofs.FilterComplete.AllValid lk q) (htv : Biogo.Proofs.FilterComplete.AllValid lk t)
    (hkq : k ≤ q.length)
    (hthr : 0 < minWordsPerFilterHit n k e) (he : e ≤ off) (hoff : 1 ≤ off) (hg : 1 ≤ g)
    (hits : List Biogo.Filter.Hit)
    (hf : filter Biogo.Generated.FilterFacts.rule lk (builtIndex lk k t)
            { minMatch := n, maxError := e, tubeOffset := off } q selfAlign complement = .ok hits)
    (sorted : List FHit) (hsame : ∀ x, x ∈ sorted ↔ x ∈ hits.map toF) (hsorted : SortedByFrom sorted) :
    ∃ traps, merge (mergerCfgStrand lk t q k e off g selfAlign complement) sorted = some traps ∧
      ∀ a b, EpsMatch lk t q n e a b → requiredC selfAlign complement t.length a b = true →
        (selfAlign = true → complement = false → (b : Int) - a > (e : Int) + g + ((off : Int) + e - 1)) →
        ∃ T ∈ traps, T.left ≤ (b : Int) - a ∧ (b : Int) - a ≤ T.right ∧
          T.bottom < (b : Int) + n ∧ (b : Int) < T.top ∧ preScreen k T = true := by
  have hdom := filter_hits_in_merger_domain_strand hlk t q k n e off g selfAlign complement (selfAlign && !complement)
    hk hk' hkq he hoff hits hf
  obtain ⟨traps, hm⟩ := merger_total (mergerCfgStrand lk t q k e off g selfAlign complement) sorted (by
    intro x hx
    obtain ⟨y, hy, rfl⟩ := List.mem_map.mp ((hsame x).mp hx)
    exact Or.inr (hdom y hy))
  exact ⟨traps, hm, epsmatch_inside_trapezoid_strand_given_merge hlk t q k n e off g selfAlign complement hk hk' ht hq htv
    hthr he hoff hg hits hf sorted hsame hsorted traps hm⟩

/-- **`epsmatch_inside_trapezoid_complement`** — the complement strand of a self comparison
    (`PALS.Align(true)` with `selfCompare`) without a hypothesis on the merger: the merger model
    (built with `selfComparison = false`, as `pals.go` does on this strand) answers, and every ε-match
    of the target against the reverse-complemented query that lies on or above the anti-diagonal
    (`Tlen ≤ a + b`) is inside a trapezoid handed to the DP — with no margin: the merger does not cut
    on this strand. -/
theorem epsmatch_inside_trapezoid_complement {lk : Lookup} (hlk : FourLetter lk) (t q : List UInt8)
    (k n e off g : Nat)
    (hk : Biogo.Kmer.minKmerLen ≤ k) (hk' : k ≤ Biogo.Kmer.maxKmerLen) (ht : k + 1 ≤ t.length)
    (hq : Biogo.Proofs.FilterComplete.AllValid lk q) (htv : Biogo.Proofs.FilterComplete.AllValid lk t)
    (hkq : k ≤ q.length)
    (hthr : 0 < minWordsPerFilterHit n k e) (he : e ≤ off) (hoff : 1 ≤ off) (hg : 1 ≤ g)
    (hits : List Biogo.Filter.Hit)
    (hf : filter Biogo.Generated.FilterFacts.rule lk (builtIndex lk k t)
            { minMatch := n, maxError := e, tubeOffset := off } q true true = .ok hits)
    (sorted : List FHit) (hsame : ∀ x, x ∈ sorted ↔ x ∈ hits.map toF) (hsorted : SortedByFrom sorted) :
    ∃ traps, merge (mergerCfg lk t q k e off g false) sorted = some traps ∧
      ∀ a b, EpsMatch lk t q n e a b → t.length ≤ a + b →
        ∃ T ∈ traps, T.left ≤ (b : Int) - a ∧ (b : Int) - a ≤ T.right ∧
          T.bottom < (b : Int) + n ∧ (b : Int) < T.top ∧ preScreen k T = true := by
  obtain ⟨traps, hm, hall⟩ := epsmatch_inside_trapezoid_strand hlk t q k n e off g true true hk hk' ht hq htv hkq hthr he hoff hg
    hits hf sorted hsame hsorted
  refine ⟨traps, hm, ?_⟩
  intro a b hmatch hab
  exact hall a b hmatch (by simp [requiredC, hab]) (by intro _ h; cases h)

theorem except_ok_of_check {ε α : Type} [DecidableEq α] (x : Except ε α) (v : α)
    (h : (match x with | .ok a => decide (a = v) | .error _ => false) = true) : x = .ok v := by
  cases x with
  | error e => simp at h
  | ok a => simp only [decide_eq_true_eq] at h; rw [h]

theorem fourLetter_dna : FourLetter Biogo.Properties.C14.dna := by
  intro b d h
  unfold Biogo.Properties.C14.dna at h
  split at h
  · cases h; omega
  · split at h
    · cases h; omega
    · split at h
      · cases h; omega
      · split at h
        · cases h; omega
        · cases h

/-! ### non-vacuity: the hypotheses hold on the K4 witness of `corpus/C14.txt`
(`k=4 n=4 e=0 off=2`, target `caacc`, query `acaacaaaca`, exact match at `a=0 b=1`), where the chain
yields the trapezoid `{Top 5, Bottom 1, Left 1, Right 2}` -/

open Biogo.Properties.C14 (dna) in
example :
    ∃ T ∈ [(⟨5, 1, 1, 2⟩ : Trap)], T.left ≤ ((1 : Nat) : Int) - (0 : Nat) ∧ ((1 : Nat) : Int) - (0 : Nat) ≤ T.right ∧
      T.bottom < ((1 : Nat) : Int) + (4 : Nat) ∧ ((1 : Nat) : Int) < T.top ∧ preScreen (4 : Nat) T = true :=
  epsmatch_inside_trapezoid_given_merge fourLetter_dna [99, 97, 97, 99, 99] [97, 99, 97, 97, 99, 97, 97, 97, 99, 97] 4 4 0 2 5 false
    (by decide) (by decide) (by decide)
    (by unfold Biogo.Proofs.FilterComplete.AllValid; decide) (by unfold Biogo.Proofs.FilterComplete.AllValid; decide)
    (by decide) (by decide) (by decide) (by decide)
    [⟨1, 5, -1⟩] (except_ok_of_check _ _ (by decide +kernel)) [⟨1, 5, -1⟩] (by simp [toF]) (by simp [SortedByFrom])
    [⟨5, 1, 1, 2⟩] (by decide +kernel) 0 1 (by decide +kernel) (by decide) (by intro h; cases h)

/-- the same witness through `epsmatch_inside_trapezoid`: no hypothesis on the merger — the theorem
    itself supplies the trapezoid list, and every ε-match of the pair lies in it -/
example :
    ∃ traps, merge (mergerCfg Biogo.Properties.C14.dna [99, 97, 97, 99, 99] [97, 99, 97, 97, 99, 97, 97, 97, 99, 97] 4 0 2 5 false)
        [⟨1, 5, -1⟩] = some traps ∧
      ∀ a b, EpsMatch Biogo.Properties.C14.dna [99, 97, 97, 99, 99] [97, 99, 97, 97, 99, 97, 97, 97, 99, 97] 4 0 a b →
        required false a b = true → (false = true → (b : Int) - a > ((0 : Nat) : Int) + (5 : Nat) + (((2 : Nat) : Int) + (0 : Nat) - 1)) →
        ∃ T ∈ traps, T.left ≤ (b : Int) - a ∧ (b : Int) - a ≤ T.right ∧
          T.bottom < (b : Int) + (4 : Nat) ∧ (b : Int) < T.top ∧ preScreen (4 : Nat) T = true :=
  epsmatch_inside_trapezoid fourLetter_dna [99, 97, 97, 99, 99] [97, 99, 97, 97, 99, 97, 97, 97, 99, 97] 4 4 0 2 5 false
    (by decide) (by decide) (by decide)
    (by unfold Biogo.Proofs.FilterComplete.AllValid; decide) (by unfold Biogo.Proofs.FilterComplete.AllValid; decide)
    (by decide) (by decide) (by decide) (by decide) (by decide)
    [⟨1, 5, -1⟩] (except_ok_of_check _ _ (by decide +kernel)) [⟨1, 5, -1⟩] (by simp [toF]) (by simp [SortedByFrom])

/-! ### non-vacuity on the complement strand: `caacgttg` (its own reverse complement, `L = 8`),
`k = n = 4`, `e = 0`, `off = 2`, `maxIGap = 5`: the match `(4, 4)` on the anti-diagonal is handed to
the DP in the trapezoid `{Top 8, Bottom 4, Left 0, Right 1}`.  The covering hit has diagonal 0: with
the merger's main-diagonal cut on (as before `d09a2b0`) it would have been dropped
(`Left - maxIGap = -5 ≤ MaxError`). -/

open Biogo.Properties.C14 (dna) in
example :
    (∃ T ∈ [(⟨8, 4, 0, 1⟩ : Trap)], T.left ≤ ((4 : Nat) : Int) - (4 : Nat) ∧ ((4 : Nat) : Int) - (4 : Nat) ≤ T.right ∧
      T.bottom < ((4 : Nat) : Int) + (4 : Nat) ∧ ((4 : Nat) : Int) < T.top ∧ preScreen (4 : Nat) T = true) ∧
    merge (mergerCfg dna [99, 97, 97, 99, 103, 116, 116, 103] [99, 97, 97, 99, 103, 116, 116, 103] 4 0 2 5 true)
      [⟨4, 8, 0⟩] = some [] := by
  refine ⟨?_, by decide +kernel⟩
  exact epsmatch_inside_trapezoid_complement_given_merge fourLetter_dna [99, 97, 97, 99, 103, 116, 116, 103] [99, 97, 97, 99, 103, 116, 116, 103] 4 4 0 2 5
    (by decide) (by decide) (by decide)
    (by unfold Biogo.Proofs.FilterComplete.AllValid; decide) (by unfold Biogo.Proofs.FilterComplete.AllValid; decide)
    (by decide) (by decide) (by decide) (by decide)
    [⟨4, 8, 0⟩] (except_ok_of_check _ _ (by decide +kernel)) [⟨4, 8, 0⟩] (by simp [toF]) (by simp [SortedByFrom])
    [⟨8, 4, 0, 1⟩] (by decide +kernel) 4 4 (by decide +kernel) (by decide)

/-- the same witness through `epsmatch_inside_trapezoid_complement`: no hypothesis on the merger —
    the theorem supplies the trapezoid list of the complement strand -/
example :
    ∃ traps, merge (mergerCfg Biogo.Properties.C14.dna [99, 97, 97, 99, 103, 116, 116, 103] [99, 97, 97, 99, 103, 116, 116, 103] 4 0 2 5 false)
        [⟨4, 8, 0⟩] = some traps ∧
      ∀ a b, EpsMatch Biogo.Properties.C14.dna [99, 97, 97, 99, 103, 116, 116, 103] [99, 97, 97, 99, 103, 116, 116, 103] 4 0 a b →
        [99, 97, 97, 99, 103, 116, 116, 103].length ≤ a + b →
        ∃ T ∈ traps, T.left ≤ (b : Int) - a ∧ (b : Int) - a ≤ T.right ∧
          T.bottom < (b : Int) + (4 : Nat) ∧ (b : Int) < T.top ∧ preScreen (4 : Nat) T = true :=
  epsmatch_inside_trapezoid_complement fourLetter_dna [99, 97, 97, 99, 103, 116, 116, 103] [99, 97, 97, 99, 103, 116, 116, 103] 4 4 0 2 5
    (by decide) (by decide) (by decide)
    (by unfold Biogo.Proofs.FilterComplete.AllValid; decide) (by unfold Biogo.Proofs.FilterComplete.AllValid; decide)
    (by decide) (by decide) (by decide) (by decide) (by decide)
    [⟨4, 8, 0⟩] (except_ok_of_check _ _ (by decide +kernel)) [⟨4, 8, 0⟩] (by simp [toF]) (by simp [SortedByFrom])

/-! ### the width condition of `filter_hits_within_query_band` is needed (the sixth defect) -/

/-- 22 × `a` then `acgt` -/
def narrowT : List UInt8 := List.replicate 22 97 ++ [97, 99, 103, 116]
/-- `acgt` then 22 × `t` -/
def narrowQ : List UInt8 := [97, 99, 103, 116] ++ List.replicate 22 116

/-- **`filter_hit_beyond_query_narrow`** — `k = 4, n = 24, e = 5, off = 30` (threshold 1), a 26-letter
    target ending in `acgt` and a 26-letter query beginning with it (`TubeOffset + MaxError = 35 >
    Qlen + 1`): the only common 4-mer lies on diagonal index 4 `< MaxError` of tube 0, `commonKmer`
    also credits it to slot `cap-1 = 2`, and the final flush reports that slot as tube 2: the filter
    model — and `filter.Filter` (second witness of the sixth defect in `corpus/C15.txt`, and the `fl`
    run recorded in `notes/C15_merge.md`) — returns the hit `0:4:-34` whose band starts at
    `-Diagonal = 34 > Qlen = 26`.  Before the repair `MergeFilterHit` walked past the end marker of
    its list on it (nil dereference); now it is dropped and the merger returns the trapezoid of the
    real hit alone. -/
theorem filter_hit_beyond_query_narrow :
    filter Biogo.Generated.FilterFacts.rule Biogo.Properties.C14.dna (builtIndex Biogo.Properties.C14.dna 4 narrowT)
      { minMatch := 24, maxError := 5, tubeOffset := 30 } narrowQ false false = .ok [⟨0, 4, 26⟩, ⟨0, 4, -34⟩] ∧
    beyondQuery (mergerCfg Biogo.Properties.C14.dna narrowT narrowQ 4 5 30 5 false) ⟨0, 4, -34⟩ = true ∧
    merge (mergerCfg Biogo.Properties.C14.dna narrowT narrowQ 4 5 30 5 false) [⟨0, 4, 26⟩, ⟨0, 4, -34⟩]
      = some [⟨4, 0, -26, 8⟩] :=
  ⟨except_ok_of_check _ _ (by decide +kernel), by decide +kernel, by decide +kernel⟩

end Biogo.Properties.C15_chain
