/-
C15 — the proved chain from an ε-match to the trapezoid handed to the DP aligner:

  ε-match  ⇒ (C14 `filter_complete`)  covered by a filter hit
           ⇒ (`merger_covers_hits`)    inside a trapezoid `FinaliseMerge` returns.

Both links are theorems about the models the drivers run against `filter.Filter` and
`filter.Merger`; the hit list passes from one to the other through the morass, modelled as
"some list with the same elements in ascending `From`".
-/
import Biogo.Properties.C14
import Biogo.Properties.C15_merge
import Biogo.Proofs.PalsChain

namespace Biogo.Properties.C15_chain
open Biogo.Spec.Filter Biogo.Spec.Kmer Biogo.Proofs.Kmer Biogo.Proofs.FilterComplete
open Biogo.Filter (filter minWordsPerFilterHit)
open Biogo.PalsMerge Biogo.Proofs.PalsMerge Biogo.Properties.C15_merge

/-- a filter hit as the merger reads it -/
def toF (h : Biogo.Filter.Hit) : FHit := { from_ := h.from_, to := h.to, diagonal := h.diagonal }

/-- which letters `valueToCode` accepts -/
def validity (lk : Lookup) (s : List UInt8) : Array Bool := (s.map fun b => (lk b).isSome).toArray

/-- `NewMerger(index, query, params, maxIGap, selfCompare)` for the pair the filter ran on -/
def mergerCfg (lk : Lookup) (t q : List UInt8) (k e off g : Nat) (selfAlign : Bool) : Cfg :=
  { qv := validity lk q, tv := validity lk t, k := k, maxError := e, tubeOffset := off, maxIGap := g,
    selfComparison := selfAlign }

theorem validity_allValid (lk : Lookup) (s : List UInt8) (h : Biogo.Proofs.FilterComplete.AllValid lk s) :
    Biogo.Proofs.PalsMerge.AllValid (validity lk s) := by
  intro i hi
  have hi' : i < s.length := by simpa [validity] using hi
  have := h _ (List.getElem_mem hi')
  simp [validity, Array.getD, hi', this]

/-- **`epsmatch_inside_trapezoid`** — for target and query over the four-letter alphabet, the
    parameter ranges of C14's `filter_complete`, `maxIGap ≥ 1`: let `hits` be what the filter model
    returns, `sorted` any list with the same elements in ascending `From` (the morass), and `traps`
    what the merger model returns for it.  Then every ε-match `t[a:a+n] ~ q[b:b+n]` (at most `e`
    substitutions) — in a self comparison: every such match at least
    `MaxError + maxIGap + tubeWidth` diagonals above the main diagonal, below that the merger's cut
    may drop the covering hit on purpose — lies in a returned trapezoid: its diagonal `b - a` is
    within `[Left, Right]`, its query interval `[b, b+n)` overlaps `[Bottom, Top]`, and the
    trapezoid is at least `k` high (it contains a filter hit, which contains a whole k-mer), so it
    passes the pre-screen `t.Top-t.Bottom >= a.k` of `AlignTraps` and — unless an earlier hit
    already covers it — is handed to the kernel: **the pair is guaranteed to be seeded**. -/
theorem epsmatch_inside_trapezoid {lk : Lookup} (hlk : FourLetter lk) (t q : List UInt8)
    (k n e off g : Nat) (selfAlign : Bool)
    (hk : Biogo.Kmer.minKmerLen ≤ k) (hk' : k ≤ Biogo.Kmer.maxKmerLen) (ht : k + 1 ≤ t.length)
    (hq : Biogo.Proofs.FilterComplete.AllValid lk q) (htv : Biogo.Proofs.FilterComplete.AllValid lk t)
    (hthr : 0 < minWordsPerFilterHit n k e) (he : e ≤ off) (hoff : 1 ≤ off) (hg : 1 ≤ g)
    (hits : List Biogo.Filter.Hit)
    (hf : filter Biogo.Generated.FilterFacts.rule lk (builtIndex lk k t)
            { minMatch := n, maxError := e, tubeOffset := off } q selfAlign false = .ok hits)
    (sorted : List FHit) (hsame : ∀ x, x ∈ sorted ↔ x ∈ hits.map toF) (hsorted : SortedByFrom sorted)
    (traps : List Trap) (hm : merge (mergerCfg lk t q k e off g selfAlign) sorted = some traps) :
    ∀ a b, EpsMatch lk t q n e a b → required selfAlign a b = true →
      (selfAlign = true → (b : Int) - a > (e : Int) + g + ((off : Int) + e - 1)) →
      ∃ T ∈ traps, T.left ≤ (b : Int) - a ∧ (b : Int) - a ≤ T.right ∧
        T.bottom < (b : Int) + n ∧ (b : Int) < T.top ∧ preScreen k T = true := by
  intro a b hmatch hreq hfar
  have hk1 : 2 ≤ k ∧ 2 * k ≤ Biogo.Kmer.wordBits := by
    unfold Biogo.Kmer.minKmerLen at hk; unfold Biogo.Kmer.maxKmerLen at hk'; unfold Biogo.Kmer.wordBits; omega
  -- link 1: the filter
  obtain ⟨_, hcomp⟩ := Biogo.Properties.C14.filter_complete hlk t q k n e off selfAlign hk hk' ht hthr he hoff
  obtain ⟨h, hh, hcov⟩ := hcomp hits hf a b hmatch hreq
  obtain ⟨h0, hh0, rfl⟩ := List.mem_map.mp hh
  simp only [covers, toSpec, Bool.and_eq_true] at hcov
  obtain ⟨⟨⟨c1, c2⟩, c3⟩, c4⟩ := hcov
  have c1 := of_decide_eq_true c1
  have c2 := of_decide_eq_true c2
  have c3 := of_decide_eq_true c3
  have c4 := of_decide_eq_true c4
  -- every filter hit has From ≤ To
  have hqlen : k ≤ q.length := by
    obtain ⟨_, hb, _⟩ := hmatch
    have := thr_pos_imp hthr (by omega : 1 ≤ k)
    omega
  have hwf := Biogo.Proofs.PalsChain.filter_hits_wf hlk _ (builtIndex lk k t)
    { minMatch := n, maxError := e, tubeOffset := off } q selfAlign false
    (by rw [Biogo.Properties.C14.rule_tie]; rfl) (by rw [builtIndex_k]; omega) (by rw [builtIndex_k]; exact hk1.2) (by rw [builtIndex_k]; exact hqlen)
    he hoff hits hf
  -- link 2: the merger
  have pre : Pre (mergerCfg lk t q k e off g selfAlign) sorted :=
    { band := by simp only [Cfg.binWidth, Cfg.tubeWidth, mergerCfg]; omega
      gap := by simp only [mergerCfg]; omega
      qvalid := validity_allValid lk q hq
      tvalid := validity_allValid lk t htv
      sorted := hsorted
      ordered := by
        intro x hx
        obtain ⟨y, hy, rfl⟩ := List.mem_map.mp ((hsame x).mp hx)
        have := hwf y hy
        simp only [toF]
        omega }
  have hin : toF h0 ∈ sorted := (hsame _).mpr (List.mem_map.mpr ⟨h0, hh0, rfl⟩)
  have hnotcut : selfCut (mergerCfg lk t q k e off g selfAlign) (toF h0) = false := by
    unfold selfCut
    cases hs : selfAlign with
    | false => simp [mergerCfg]
    | true =>
      have := hfar hs
      simp only [mergerCfg, toF, Bool.true_and]
      apply decide_eq_false
      omega
  obtain ⟨T, hT, l1, l2, l3, l4⟩ := merger_covers_hits _ sorted traps pre hm (toF h0) hin hnotcut
  have hk0 := hwf h0 hh0
  rw [builtIndex_k] at hk0
  refine ⟨T, hT, ?_, ?_, ?_, ?_, ?_⟩
  · simp only [toF] at l1; omega
  · simp only [toF, Cfg.binWidth, Cfg.tubeWidth, mergerCfg] at l2; omega
  · simp only [toF] at l3; omega
  · simp only [toF] at l4; omega
  · simp only [toF] at l3 l4
    unfold preScreen
    apply decide_eq_true
    omega

/-- `NewMerger(index, working, params, maxIGap, selfCompare && !complement)` as `PALS.Align(complement)`
    builds it since the repair `d09a2b0` (upstream `fd44978`): on the complement strand the merger's
    main-diagonal cut is off — the filter has already restricted that strand to one side of the
    anti-diagonal. -/
def mergerCfgStrand (lk : Lookup) (t q : List UInt8) (k e off g : Nat) (selfAlign complement : Bool) : Cfg :=
  mergerCfg lk t q k e off g (selfAlign && !complement)

/-- **`epsmatch_inside_trapezoid_strand`** — the chain for either strand of `PALS.Align(complement)`:
    the filter runs with the flags `(selfAlign, complement)`, the merger with
    `selfComparison = selfAlign && !complement` (`pals.go`).  Every ε-match required on the strand
    (`requiredC`: forward strand of a self comparison `a < b`, complement strand `Tlen ≤ a + b`,
    everything otherwise) lies in a returned trapezoid that passes the pre-screen of `AlignTraps`;
    only on the forward strand of a self comparison the match must in addition stay
    `MaxError + maxIGap + tubeWidth` diagonals above the main diagonal (the merger's cut). -/
theorem epsmatch_inside_trapezoid_strand {lk : Lookup} (hlk : FourLetter lk) (t q : List UInt8)
    (k n e off g : Nat) (selfAlign complement : Bool)
    (hk : Biogo.Kmer.minKmerLen ≤ k) (hk' : k ≤ Biogo.Kmer.maxKmerLen) (ht : k + 1 ≤ t.length)
    (hq : Biogo.Proofs.FilterComplete.AllValid lk q) (htv : Biogo.Proofs.FilterComplete.AllValid lk t)
    (hthr : 0 < minWordsPerFilterHit n k e) (he : e ≤ off) (hoff : 1 ≤ off) (hg : 1 ≤ g)
    (hits : List Biogo.Filter.Hit)
    (hf : filter Biogo.Generated.FilterFacts.rule lk (builtIndex lk k t)
            { minMatch := n, maxError := e, tubeOffset := off } q selfAlign complement = .ok hits)
    (sorted : List FHit) (hsame : ∀ x, x ∈ sorted ↔ x ∈ hits.map toF) (hsorted : SortedByFrom sorted)
    (traps : List Trap) (hm : merge (mergerCfgStrand lk t q k e off g selfAlign complement) sorted = some traps) :
    ∀ a b, EpsMatch lk t q n e a b → requiredC selfAlign complement t.length a b = true →
      (selfAlign = true → complement = false → (b : Int) - a > (e : Int) + g + ((off : Int) + e - 1)) →
      ∃ T ∈ traps, T.left ≤ (b : Int) - a ∧ (b : Int) - a ≤ T.right ∧
        T.bottom < (b : Int) + n ∧ (b : Int) < T.top ∧ preScreen k T = true := by
  intro a b hmatch hreq hfar
  have hk1 : 2 ≤ k ∧ 2 * k ≤ Biogo.Kmer.wordBits := by
    unfold Biogo.Kmer.minKmerLen at hk; unfold Biogo.Kmer.maxKmerLen at hk'; unfold Biogo.Kmer.wordBits; omega
  -- link 1: the filter
  have hcomp := Biogo.Properties.C14.filter_complete_strand hlk t q k n e off selfAlign complement hk hk' ht hthr he hoff
  obtain ⟨h, hh, hcov⟩ := hcomp hits hf a b hmatch hreq
  obtain ⟨h0, hh0, rfl⟩ := List.mem_map.mp hh
  simp only [covers, toSpec, Bool.and_eq_true] at hcov
  obtain ⟨⟨⟨c1, c2⟩, c3⟩, c4⟩ := hcov
  have c1 := of_decide_eq_true c1
  have c2 := of_decide_eq_true c2
  have c3 := of_decide_eq_true c3
  have c4 := of_decide_eq_true c4
  -- every filter hit has From ≤ To
  have hqlen : k ≤ q.length := by
    obtain ⟨_, hb, _⟩ := hmatch
    have := thr_pos_imp hthr (by omega : 1 ≤ k)
    omega
  have hwf := Biogo.Proofs.PalsChain.filter_hits_wf hlk _ (builtIndex lk k t)
    { minMatch := n, maxError := e, tubeOffset := off } q selfAlign complement
    (by rw [Biogo.Properties.C14.rule_tie]; rfl) (by rw [builtIndex_k]; omega) (by rw [builtIndex_k]; exact hk1.2) (by rw [builtIndex_k]; exact hqlen)
    he hoff hits hf
  -- link 2: the merger
  have pre : Pre (mergerCfgStrand lk t q k e off g selfAlign complement) sorted :=
    { band := by simp only [Cfg.binWidth, Cfg.tubeWidth, mergerCfgStrand, mergerCfg]; omega
      gap := by simp only [mergerCfgStrand, mergerCfg]; omega
      qvalid := validity_allValid lk q hq
      tvalid := validity_allValid lk t htv
      sorted := hsorted
      ordered := by
        intro x hx
        obtain ⟨y, hy, rfl⟩ := List.mem_map.mp ((hsame x).mp hx)
        have := hwf y hy
        simp only [toF]
        omega }
  have hin : toF h0 ∈ sorted := (hsame _).mpr (List.mem_map.mpr ⟨h0, hh0, rfl⟩)
  have hnotcut : selfCut (mergerCfgStrand lk t q k e off g selfAlign complement) (toF h0) = false := by
    unfold selfCut
    cases hs : selfAlign with
    | false => simp [mergerCfgStrand, mergerCfg]
    | true =>
      cases hc : complement with
      | true => simp [mergerCfgStrand, mergerCfg]
      | false =>
        have := hfar hs hc
        simp only [mergerCfgStrand, mergerCfg, toF, Bool.true_and, Bool.not_false]
        apply decide_eq_false
        omega
  obtain ⟨T, hT, l1, l2, l3, l4⟩ := merger_covers_hits _ sorted traps pre hm (toF h0) hin hnotcut
  have hk0 := hwf h0 hh0
  rw [builtIndex_k] at hk0
  refine ⟨T, hT, ?_, ?_, ?_, ?_, ?_⟩
  · simp only [toF] at l1; omega
  · simp only [toF, Cfg.binWidth, Cfg.tubeWidth, mergerCfgStrand, mergerCfg] at l2; omega
  · simp only [toF] at l3; omega
  · simp only [toF] at l4; omega
  · simp only [toF] at l3 l4
    unfold preScreen
    apply decide_eq_true
    omega

/-- **the complement strand of a self comparison** (`PALS.Align(true)` with `selfCompare`): every
    ε-match of the target against the reverse-complemented query that lies on or above the
    anti-diagonal (`Tlen ≤ a + b`) is inside a trapezoid handed to the DP — with no margin: the merger
    does not cut on this strand. -/
theorem epsmatch_inside_trapezoid_complement {lk : Lookup} (hlk : FourLetter lk) (t q : List UInt8)
    (k n e off g : Nat)
    (hk : Biogo.Kmer.minKmerLen ≤ k) (hk' : k ≤ Biogo.Kmer.maxKmerLen) (ht : k + 1 ≤ t.length)
    (hq : Biogo.Proofs.FilterComplete.AllValid lk q) (htv : Biogo.Proofs.FilterComplete.AllValid lk t)
    (hthr : 0 < minWordsPerFilterHit n k e) (he : e ≤ off) (hoff : 1 ≤ off) (hg : 1 ≤ g)
    (hits : List Biogo.Filter.Hit)
    (hf : filter Biogo.Generated.FilterFacts.rule lk (builtIndex lk k t)
            { minMatch := n, maxError := e, tubeOffset := off } q true true = .ok hits)
    (sorted : List FHit) (hsame : ∀ x, x ∈ sorted ↔ x ∈ hits.map toF) (hsorted : SortedByFrom sorted)
    (traps : List Trap) (hm : merge (mergerCfg lk t q k e off g false) sorted = some traps) :
    ∀ a b, EpsMatch lk t q n e a b → t.length ≤ a + b →
      ∃ T ∈ traps, T.left ≤ (b : Int) - a ∧ (b : Int) - a ≤ T.right ∧
        T.bottom < (b : Int) + n ∧ (b : Int) < T.top ∧ preScreen k T = true := by
  intro a b hmatch hab
  exact epsmatch_inside_trapezoid_strand hlk t q k n e off g true true hk hk' ht hq htv hthr he hoff hg hits hf
    sorted hsame hsorted traps hm a b hmatch (by simp [requiredC, hab]) (by intro _ h; cases h)

theorem except_ok_of_check {ε α : Type} [DecidableEq α] (x : Except ε α) (v : α)
    (h : (match x with | .ok a => decide (a = v) | .error _ => false) = true) : x = .ok v := by
  cases x with
  | error e => simp at h
  | ok a => simp only [decide_eq_true_eq] at h; rw [h]

/-! ### non-vacuity: the hypotheses hold on the K4 witness of `corpus/C14.txt`
(`k=4 n=4 e=0 off=2`, target `caacc`, query `acaacaaaca`, exact match at `a=0 b=1`), where the chain
yields the trapezoid `{Top 5, Bottom 1, Left 1, Right 2}` -/

open Biogo.Properties.C14 (dna) in
example :
    ∃ T ∈ [(⟨5, 1, 1, 2⟩ : Trap)], T.left ≤ ((1 : Nat) : Int) - (0 : Nat) ∧ ((1 : Nat) : Int) - (0 : Nat) ≤ T.right ∧
      T.bottom < ((1 : Nat) : Int) + (4 : Nat) ∧ ((1 : Nat) : Int) < T.top ∧ preScreen (4 : Nat) T = true := by
  have hlk : FourLetter dna := by
    intro b d h
    unfold dna at h
    split at h
    · cases h; omega
    · split at h
      · cases h; omega
      · split at h
        · cases h; omega
        · split at h
          · cases h; omega
          · cases h
  exact epsmatch_inside_trapezoid hlk [99, 97, 97, 99, 99] [97, 99, 97, 97, 99, 97, 97, 97, 99, 97] 4 4 0 2 5 false
    (by decide) (by decide) (by decide)
    (by unfold Biogo.Proofs.FilterComplete.AllValid; decide) (by unfold Biogo.Proofs.FilterComplete.AllValid; decide)
    (by decide) (by decide) (by decide) (by decide)
    [⟨1, 5, -1⟩] (except_ok_of_check _ _ (by decide +kernel)) [⟨1, 5, -1⟩] (by simp [toF]) (by simp [SortedByFrom])
    [⟨5, 1, 1, 2⟩] (by decide +kernel) 0 1 (by decide +kernel) (by decide) (by intro h; cases h)

/-! ### non-vacuity on the complement strand: `caacgttg` (its own reverse complement, `L = 8`),
`k = n = 4`, `e = 0`, `off = 2`, `maxIGap = 5`: the match `(4, 4)` on the anti-diagonal is handed to
the DP in the trapezoid `{Top 8, Bottom 4, Left 0, Right 1}`.  The covering hit has diagonal 0: with
the merger's main-diagonal cut on (as before `d09a2b0`) it would have been dropped
(`Left - maxIGap = -5 ≤ MaxError`). -/

open Biogo.Properties.C14 (dna) in
example :
    (∃ T ∈ [(⟨8, 4, 0, 1⟩ : Trap)], T.left ≤ ((4 : Nat) : Int) - (4 : Nat) ∧ ((4 : Nat) : Int) - (4 : Nat) ≤ T.right ∧
      T.bottom < ((4 : Nat) : Int) + (4 : Nat) ∧ ((4 : Nat) : Int) < T.top ∧ preScreen (4 : Nat) T = true) ∧
    merge (mergerCfg dna [99, 97, 97, 99, 103, 116, 116, 103] [99, 97, 97, 99, 103, 116, 116, 103] 4 0 2 5 true)
      [⟨4, 8, 0⟩] = some [] := by
  have hlk : FourLetter dna := by
    intro b d h
    unfold dna at h
    split at h
    · cases h; omega
    · split at h
      · cases h; omega
      · split at h
        · cases h; omega
        · split at h
          · cases h; omega
          · cases h
  refine ⟨?_, by decide +kernel⟩
  exact epsmatch_inside_trapezoid_complement hlk [99, 97, 97, 99, 103, 116, 116, 103] [99, 97, 97, 99, 103, 116, 116, 103] 4 4 0 2 5
    (by decide) (by decide) (by decide)
    (by unfold Biogo.Proofs.FilterComplete.AllValid; decide) (by unfold Biogo.Proofs.FilterComplete.AllValid; decide)
    (by decide) (by decide) (by decide) (by decide)
    [⟨4, 8, 0⟩] (except_ok_of_check _ _ (by decide +kernel)) [⟨4, 8, 0⟩] (by simp [toF]) (by simp [SortedByFrom])
    [⟨8, 4, 0, 1⟩] (by decide +kernel) 4 4 (by decide +kernel) (by decide)

end Biogo.Properties.C15_chain
