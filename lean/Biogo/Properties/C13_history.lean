/-
C13, whole histories — an I/O failure anywhere in a usage history is never hidden.
Same labelled transition system with the fault oracle as `Properties/C13.lean`; the caller's
program is `histOps h` for a well-formed history `h` of use cycles on one sorter.
-/
import Biogo.Model.MorassConc
import Biogo.Spec.Morass
import Biogo.Proofs.MorassConc
import Biogo.Proofs.MorassCycle
import Biogo.Proofs.MorassHistory
import Biogo.Properties.C12_history
import Biogo.Properties.C11_checker
import Biogo.Drive.C13

namespace Biogo.Properties.C13_history
open Biogo.Morass Biogo.MorassConc Biogo.Interleave

/-- **An I/O failure anywhere in a history is never hidden.**  Every chunk size ≥ 1, either
    mode, AutoClear/AutoClean on or off, every well-formed history `h` of use cycles, any single
    fault — the n-th temporary-file creation, Encode, Sync, Seek, Decode (in `Finalise` or in
    `Pull`), Close or Remove of the *whole history*, so in whichever cycle it falls — or none,
    and every schedule: once the caller has returned from its last call, either some call
    returned an I/O error, or every call of every cycle succeeded *and* the outputs satisfy
    `HistorySpec`: in every cycle the pulls delivered a non-decreasing permutation of the values
    pushed in that cycle, then io.EOF.  The sorter never reports success throughout a history
    while delivering, in some cycle, fewer or different values than were pushed in it.

    (After an I/O error the caller of the model gives up the cycle — sequential mode — or the
    sorter — concurrent mode; what the code does when it is used on after a reported error is
    outside this statement, see notes/C13.md.) -/
theorem history_fault_surfaces (c : Nat) (hc : 1 ≤ c) (conc ac acl : Bool) (h : List Cycle)
    (hwf : wellFormed ac h = true) (flt : Fault) {s : CState}
    (hr : Reach (sys conc c ac acl (histOps h) flt) s) (hfin : finished s = true) :
    (∃ o ∈ s.outs, o.res = .ioerr) ∨ HistorySpec ac h s.outs.reverse := by
  cases h with
  | nil =>
    right
    have : s.outs = [] := Biogo.Properties.C12_history.reach_empty (by simpa [histOps] using hr)
    simp [HistorySpec, this]
  | cons cy todo => exact finished_of_HInv c ac (reach_HInv c ac hc hwf hr) hfin

/-- without an injected fault no call of a history fails (so the second alternative holds) -/
theorem history_no_error (c : Nat) (conc ac acl : Bool) (h : List Cycle) {s : CState}
    (hr : Reach (sys conc c ac acl (histOps h) none) s) : ∀ o ∈ s.outs, o.res ≠ .ioerr :=
  (reach_NoFault hr).2.2

/-- non-vacuity: the two-cycle history of `C12_history` with the third Encode of the history
    failing — it falls into the *second* cycle (the first has two) — under a schedule that
    interleaves the writers with the caller: the first cycle completes, the failure is reported
    by a call of the second cycle -/
example : ∃ s, Reach (sys true 1 false false
      (histOps [⟨[⟨2, 0⟩, ⟨1, 0⟩], 1, true⟩, ⟨[⟨4, 0⟩, ⟨3, 0⟩], 3, false⟩]) (some (.encode, 2))) s
    ∧ finished s = true ∧ s.outs.reverse.map (·.res) = [.ok, .ok, .ok, .ok, .ok, .ok, .ok, .ioerr] := by
  let S := sys true 1 false false (histOps [⟨[⟨2, 0⟩, ⟨1, 0⟩], 1, true⟩, ⟨[⟨4, 0⟩, ⟨3, 0⟩], 3, false⟩]) (some (.encode, 2))
  let sched := [0, 0, 0, 1, 0, 1, 0, 1, 0, 1, 0, 1, 0, 0, 0, 0, 0, 0, 0, 0, 0, 0, 0, 2, 0, 2, 0, 2, 0, 2, 0, 0, 0, 0, 0]
  have h : (runFrom S S.init sched).isSome = true := by decide
  obtain ⟨s, hs⟩ := Option.isSome_iff_exists.mp h
  refine ⟨s, reach_run S _ s hs, ?_, ?_⟩
  · have : (runFrom S S.init sched).map finished = some true := by decide
    rw [hs] at this; simpa using this
  · have : (runFrom S S.init sched).map (fun s => s.outs.reverse.map (·.res))
        = some [.ok, .ok, .ok, .ok, .ok, .ok, .ok, .ioerr] := by decide
    rw [hs] at this; simpa using this

/-- **The executable statement of the C13 driver implies the statement of `history_fault_surfaces`**
    on the implementation's outputs: if `surfaceStatement` accepts the outputs of a program that
    `historyOf` recognises as the well-formed history `h`, then some call returned an error
    (an I/O error, or the "push on finalised" error), or the outputs satisfy `HistorySpec`. -/
theorem surfaceStatement_sound (ac : Bool) (ops : List Op) (h : List Cycle) (outs : List Out)
    (hh : historyOf ac ops = some h) (hs : Biogo.Drive.C13.surfaceStatement ac h ops outs = none) :
    (∃ o ∈ outs, o.res = .ioerr ∨ o.res = .finalised) ∨ HistorySpec ac h outs := by
  unfold Biogo.Drive.C13.surfaceStatement at hs
  simp only at hs
  cases hf : outs.find? (fun o => o.res != .ok && o.res != .eof) with
  | some o =>
    left
    rw [hf] at hs
    have hmem : o ∈ outs := List.mem_of_find?_eq_some hf
    have hp := List.find?_some hf
    refine ⟨o, hmem, ?_⟩
    simp only [Option.any_some, Option.isSome_some, if_true] at hs
    cases hr : o.res <;> simp [hr] at hp hs ⊢
  | none =>
    right
    rw [hf] at hs
    simp only [Option.any_none, Bool.false_eq_true, if_false, Option.isSome_none, Option.map_eq_none_iff] at hs
    exact (Biogo.Properties.C11_checker.historyStatement_sound ac ops h outs hh hs).2.2

end Biogo.Properties.C13_history
