/-
C13, whole histories — an I/O failure anywhere in a usage history is never hidden.
Same labelled transition system with the fault oracle as `Properties/C13.lean`; the caller's
program is `histOps h` for a well-formed history `h` of use cycles on one sorter.
-/
import Biogo.Model.MorassConc
import Biogo.Spec.Morass
import Biogo.Proofs.MorassConc
import Biogo.Proofs.MorassCycle
import Biogo.Proofs.MorassHistory
import Biogo.Proofs.MorassReject
import Biogo.Properties.C12_history
import Biogo.Properties.C11_checker
import Biogo.Drive.C13

namespace Biogo.Properties.C13_history
open Biogo.Morass Biogo.MorassConc Biogo.Interleave

/-- **An I/O failure anywhere in a history is never hidden.**  Every chunk size ≥ 1, either
    mode, AutoClear/AutoClean on or off, every well-formed history `h` of use cycles, any
    fault — the n-th temporary-file creation, Encode, Sync, Seek, Decode (in `Finalise` or in
    `Pull`), Close or Remove of the *whole history*, so in whichever cycle it falls — or none, or
    (third wave) any *list* of faults armed one after the other (`MorassConc.Fault`),
    and every schedule: once the caller has returned from its last call, either some call
    returned an I/O error, or every call of every cycle succeeded *and* the outputs satisfy
    `HistorySpec`: in every cycle the pulls delivered a non-decreasing permutation of the values
    pushed in that cycle, then io.EOF.  The sorter never reports success throughout a history
    while delivering, in some cycle, fewer or different values than were pushed in it.

    (After an I/O error the caller of the model gives up the cycle — sequential mode — or the
    sorter — concurrent mode.  For a list of faults this statement is satisfied as soon as the first
    failure has been reported; what holds for the failures that follow the caller's recovery is
    `C13_recovery.recovery_surfaces`.) -/
theorem history_fault_surfaces (c : Nat) (hc : 1 ≤ c) (conc ac acl : Bool) (h : List Cycle)
    (hwf : wellFormed ac h = true) (flt : Fault) {s : CState}
    (hr : Reach (sys conc c ac acl (histOps h) flt) s) (hfin : finished s = true) :
    (∃ o ∈ s.outs, o.res = .ioerr) ∨ HistorySpec ac h s.outs.reverse := by
  cases h with
  | nil =>
    right
    have : s.outs = [] := Biogo.Properties.C12_history.reach_empty (by simpa [histOps] using hr)
    simp [HistorySpec, this]
  | cons cy todo => exact finished_of_HInv c ac (reach_HInv c ac hc hwf hr) hfin

/-- without an injected fault no call of a history fails (so the second alternative holds) -/
theorem history_no_error (c : Nat) (conc ac acl : Bool) (h : List Cycle) {s : CState}
    (hr : Reach (sys conc c ac acl (histOps h) []) s) : ∀ o ∈ s.outs, o.res ≠ .ioerr :=
  (reach_NoFault hr).2.2

/-- non-vacuity: the two-cycle history of `C12_history` with the third Encode of the history
    failing — it falls into the *second* cycle (the first has two) — under a schedule that
    interleaves the writers with the caller: the first cycle completes, the failure is reported
    by a call of the second cycle -/
example : ∃ s, Reach (sys true 1 false false
      (histOps [⟨[⟨2, 0⟩, ⟨1, 0⟩], 1, true⟩, ⟨[⟨4, 0⟩, ⟨3, 0⟩], 3, false⟩]) [(.encode, 2)]) s
    ∧ finished s = true ∧ s.outs.reverse.map (·.res) = [.ok, .ok, .ok, .ok, .ok, .ok, .ok, .ioerr] := by
  let S := sys true 1 false false (histOps [⟨[⟨2, 0⟩, ⟨1, 0⟩], 1, true⟩, ⟨[⟨4, 0⟩, ⟨3, 0⟩], 3, false⟩]) [(.encode, 2)]
  let sched := [0, 0, 0, 1, 0, 1, 0, 1, 0, 1, 0, 1, 0, 0, 0, 0, 0, 0, 0, 0, 0, 0, 0, 2, 0, 2, 0, 2, 0, 2, 0, 0, 0, 0, 0]
  have h : (runFrom S S.init sched).isSome = true := by decide
  obtain ⟨s, hs⟩ := Option.isSome_iff_exists.mp h
  refine ⟨s, reach_run S _ s hs, ?_, ?_⟩
  · have : (runFrom S S.init sched).map finished = some true := by decide
    rw [hs] at this; simpa using this
  · have : (runFrom S S.init sched).map (fun s => s.outs.reverse.map (·.res))
        = some [.ok, .ok, .ok, .ok, .ok, .ok, .ok, .ioerr] := by decide
    rw [hs] at this; simpa using this

/-! ### rejected pushes are no-ops of the history, under every schedule and fault -/

/-- **A rejected Push is a no-op of the history, whatever the interleaving.**  A program whose
    accepted calls are the well-formed history `h`, with `Push` calls of values of another type
    inserted anywhere (in particular when the chunk is exactly full, and right before `Finalise`),
    either mode, any single fault or none, any schedule: the rejected calls spawn no writer and
    hand over no chunk — every reachable state is, once the rejected calls and their outputs are
    erased, a reachable state of the program without them (`reach_erase`) — so when the caller
    has returned from its last call, some call returned an I/O error or the outputs of the
    accepted calls satisfy `HistorySpec ac h`. -/
theorem history_rejected_push_noop (c : Nat) (hc : 1 ≤ c) (conc ac acl : Bool) (h : List Cycle)
    (hwf : wellFormed ac h = true) (ops : List Op) (hops : dropRejects ops = histOps h) (flt : Fault)
    {s : CState} (hr : Reach (sys conc c ac acl ops flt) s) (hfin : finished s = true) :
    (∃ o ∈ s.outs, o.res = .ioerr) ∨ HistorySpec ac h (dropRejOuts s.outs.reverse) := by
  have hr' := reach_erase hr
  rw [hops] at hr'
  rcases history_fault_surfaces c hc conc ac acl h hwf flt hr' (finished_erase hfin) with ⟨o, ho, hio⟩ | hspec
  · left
    refine ⟨o, ?_, hio⟩
    have : o ∈ dropRejOuts s.outs := ho
    exact (List.mem_filter.mp this).1
  · right
    have e : (erase s).outs.reverse = dropRejOuts s.outs.reverse := by
      show (dropRejOuts s.outs).reverse = _
      simp [dropRejOuts, List.filter_reverse]
    rw [← e]; exact hspec

/-- non-vacuity (and the shape of the seeded change C12-m3): chunk 2, push 2 1, a rejected Push
    with the chunk exactly full, Finalise, pulls — concurrent mode; the model spawns no writer for
    the rejected call and the pulls deliver 1 2 -/
example : ∃ s, Reach (sys true 2 false false [.push ⟨2, 0⟩, .push ⟨1, 0⟩, .reject, .finalise, .pull, .pull, .pull] []) s
    ∧ finished s = true ∧ s.writers.length = 0
    ∧ s.outs.reverse.map (·.res) = [.ok, .ok, .rejected, .ok, .ok, .ok, .eof]
    ∧ s.outs.reverse.filterMap (·.val) = [⟨1, 0⟩, ⟨2, 0⟩] := by
  let S := sys true 2 false false [.push ⟨2, 0⟩, .push ⟨1, 0⟩, .reject, .finalise, .pull, .pull, .pull] []
  let sched := [0, 0, 0, 0, 0, 0, 0, 0, 0, 0, 0, 0, 0, 0, 0]
  have h : (runFrom S S.init sched).isSome = true := by decide
  obtain ⟨s, hs⟩ := Option.isSome_iff_exists.mp h
  refine ⟨s, reach_run S _ s hs, ?_, ?_, ?_, ?_⟩
  · have : (runFrom S S.init sched).map finished = some true := by decide
    rw [hs] at this; simpa using this
  · have : (runFrom S S.init sched).map (·.writers.length) = some 0 := by decide
    rw [hs] at this; simpa using this
  · have : (runFrom S S.init sched).map (fun s => s.outs.reverse.map (·.res))
        = some [.ok, .ok, .rejected, .ok, .ok, .ok, .eof] := by decide
    rw [hs] at this; simpa using this
  · have : (runFrom S S.init sched).map (fun s => s.outs.reverse.filterMap (·.val)) = some [⟨1, 0⟩, ⟨2, 0⟩] := by decide
    rw [hs] at this; simpa using this

/-! ### residue of the temporary directory after a whole history -/

theorem spec_has_eof (ac : Bool) : ∀ (h : List Cycle) (outs : List Out), HistorySpec ac h outs →
    ∀ cy ∈ h, cy.pushes.length < cy.pulls → ∃ o ∈ outs, o.res = .eof := by
  intro h
  induction h with
  | nil => intro outs _ cy hcy; simp at hcy
  | cons c0 rest ih =>
    intro outs hs cy hcy hdrain
    obtain ⟨ys, outs', hys, rfl, hrest⟩ := hs
    rcases List.mem_cons.mp hcy with rfl | hmem
    · have hlen : ys.length = cy.pushes.length := hys.1.length_eq
      refine ⟨⟨.eof, none, if ac then 0 else cy.pushes.length, if ac then 0 else cy.pushes.length⟩, ?_, rfl⟩
      apply List.mem_append_left
      unfold specCycle
      simp only [List.mem_append, List.mem_cons, List.mem_map, List.mem_range]
      right; right; left
      refine ⟨cy.pushes.length, hdrain, ?_⟩
      rw [List.getElem?_eq_none (by omega)]
    · obtain ⟨o, ho, hr⟩ := ih outs' hrest cy hmem hdrain
      exact ⟨o, List.mem_append_right _ ho, hr⟩

/-- **Draining a sorter that has AutoClean set removes its temporary directory**, for whole
    histories: a fault-free well-formed history in which some cycle was pulled to io.EOF
    (`pulls > pushes`), either mode, any schedule — when the caller has returned from its last
    call the directory is gone. -/
theorem history_autoclean_drain_removes_dir (c : Nat) (hc : 1 ≤ c) (conc ac : Bool) (h : List Cycle)
    (hwf : wellFormed ac h = true) (cy : Cycle) (hcy : cy ∈ h) (hdrain : cy.pushes.length < cy.pulls)
    {s : CState} (hr : Reach (sys conc c ac true (histOps h) []) s) (hfin : finished s = true) :
    s.dirExists = false := by
  have hacl : s.autoClean = true := autoClean_const hr
  apply (reach_EofDir hr).2 hacl
  have hspec := Biogo.Properties.C12_history.conc_history_sorted_multiset c hc conc ac true h hwf hr hfin
  obtain ⟨o, ho, hres⟩ := spec_has_eof ac h _ hspec cy hcy hdrain
  exact ⟨o, List.mem_reverse.mp ho, hres⟩

/-- **Draining with AutoClear set leaves no run files**, for whole histories: a fault-free
    well-formed history whose last cycle was pulled to io.EOF (AutoClean not set), either mode,
    any schedule — no run file of any cycle is left in the temporary directory. -/
theorem history_autoclear_drain_no_runs (c : Nat) (hc : 1 ≤ c) (conc : Bool) (done : List Cycle) (cy : Cycle)
    (hwf : wellFormed true (done ++ [cy]) = true) (hdrain : cy.pushes.length < cy.pulls)
    {s : CState} (hr : Reach (sys conc c true false (histOps (done ++ [cy])) []) s) (hfin : finished s = true) :
    s.onDisk = 0 := by
  have hnf := (reach_NoFault hr).2.2
  have hnr : ¬ Reported s := fun ⟨o, ho, hio⟩ => hnf o ho hio
  have hne : done ++ [cy] ≠ [] := by simp
  obtain ⟨c0, rest, hcons⟩ := List.exists_cons_of_ne_nil hne
  have hinv : HInv c true (done ++ [cy]) s := by
    rw [hcons] at hwf hr ⊢
    exact reach_HInv c true hc hwf hr
  obtain ⟨done', cy', pre, n0, hH, hold, hcinv, hfin'⟩ := finished_view c true hinv hfin hnr
  have hcy : cy' = cy := by
    have := congrArg List.getLast? hH
    simpa using this.symm
  subst hcy
  obtain ⟨hfiles, hcnt⟩ := finished_no_files hcinv
    (fun o ho => hnf o (List.mem_of_mem_take ho)) hfin' hdrain
  have hcnt' : cnt atReg s = 0 := by
    rw [← cnt_proj (viewOf pre [] n0) s atReg (fun w hw => by simp [atReg, hold w hw])]
    exact hcnt
  have := (reach_DiskInv hr).2.2.2
  have hfiles' : s.m.files = [] := hfiles
  rw [hfiles', hcnt'] at this
  simpa using this

/-- **The executable statement of the C13 driver implies the statement of `history_fault_surfaces`**
    on the implementation's outputs: if `surfaceStatement` accepts the outputs of a program that
    `historyOf` recognises (rejected pushes removed) as the well-formed history `h`, then some
    call returned an error (an I/O error, or the "push on finalised" error — the type-mismatch
    error of a rejected `Push` does not count), or the outputs of the accepted calls satisfy
    `HistorySpec` and every rejected `Push` was a no-op. -/
theorem surfaceStatement_sound (ac : Bool) (ops : List Op) (h : List Cycle) (outs : List Out)
    (hh : historyOf ac (dropRejects ops) = some h) (hs : Biogo.Drive.C13.surfaceStatement ac h ops outs = none) :
    (∃ o ∈ outs, o.res = .ioerr ∨ o.res = .finalised)
    ∨ (HistorySpec ac h (dropRejOuts outs) ∧ outs = weave ops (dropRejOuts outs) 0 0) := by
  unfold Biogo.Drive.C13.surfaceStatement at hs
  simp only at hs
  cases hf : outs.find? (fun o => o.res != .ok && o.res != .eof && o.res != .rejected) with
  | some o =>
    left
    rw [hf] at hs
    have hmem : o ∈ outs := List.mem_of_find?_eq_some hf
    have hp := List.find?_some hf
    refine ⟨o, hmem, ?_⟩
    simp only [Option.any_some, Option.isSome_some, if_true] at hs
    cases hr : o.res <;> simp [hr] at hp hs ⊢
  | none =>
    right
    rw [hf] at hs
    simp only [Option.any_none, Bool.false_eq_true, if_false, Option.isSome_none, Option.map_eq_none_iff] at hs
    have := Biogo.Properties.C11_checker.programStatement_sound ac ops h outs hh hs
    exact ⟨this.2.2.1, this.2.2.2⟩

end Biogo.Properties.C13_history
