/-
C01 — FASTA and FASTQ write-then-read reproduces every record.  Property theorems only.
-/
import Biogo.Model.Fasta
import Biogo.Model.Fastq
import Biogo.Spec.Seqio
import Biogo.Generated.Seqio
import Biogo.Generated.Alphabets

namespace Biogo.Properties.C01
open Biogo.Go.Bytes

/-- The constants the models are stated for are the ones in the source: the default FASTA
    prefixes, `seq.DefaultQphred`, `seq.DefaultEncoding = alphabet.Sanger`, and the numeric
    values of the encodings (regenerated from /repo on every run). -/
theorem source_constants :
    Biogo.Generated.Seqio.fastaIDPrefix = ({} : Biogo.Fasta.Cfg).idPrefix ∧
    Biogo.Generated.Seqio.fastaSeqPrefix = ({} : Biogo.Fasta.Cfg).seqPrefix ∧
    Biogo.Generated.Seqio.defaultQphred = 40 ∧
    Biogo.Generated.Seqio.defaultEncoding = 0 ∧
    Biogo.Generated.Seqio.encodingValues = [-1, 0, 1, 2, 3, 4, 5] := by
  decide

end Biogo.Properties.C01
