/-
C01 — FASTA and FASTQ write-then-read reproduces every record.  Property theorems only.

The models are `Biogo.Model.Fasta` / `Biogo.Model.Fastq` (the definitions the driver runs);
the domain of the property is `Biogo.Spec.Seqio` (`wfFasta`, `wfFastq`, `wfFastqPlain`).
A call history `[.ret ⟨some r₁, none⟩, …, .ret ⟨some rₙ, none⟩, .ret ⟨none, some .eof⟩]`
says: the successive calls of `Read` returned `r₁ … rₙ` with a nil error and then `io.EOF`.
-/
import Biogo.Proofs.Fasta
import Biogo.Proofs.Fastq
import Biogo.Proofs.SeqFormat
import Biogo.Proofs.FastaPrefix
import Biogo.Generated.Seqio
import Biogo.Generated.Alphabets

namespace Biogo.Properties.C01
open Biogo.Go.Bytes Biogo.Spec.Seqio

/-- The constants the models are stated for are the ones in the source: the default FASTA
    prefixes, `seq.DefaultQphred`, `seq.DefaultEncoding = alphabet.Sanger`, and the numeric
    values of the encodings (regenerated from /repo on every run). -/
theorem source_constants :
    Biogo.Generated.Seqio.fastaIDPrefix = ({} : Biogo.Fasta.Cfg).idPrefix ∧
    Biogo.Generated.Seqio.fastaSeqPrefix = ({} : Biogo.Fasta.Cfg).seqPrefix ∧
    Biogo.Generated.Seqio.defaultQphred = 40 ∧
    Biogo.Generated.Seqio.defaultEncoding = 0 ∧
    Biogo.Generated.Seqio.encodingValues = [-1, 0, 1, 2, 3, 4, 5] := by
  decide

/-- "letters drawn from a nucleotide or protein alphabet": every letter (in either case) of
    every built-in alphabet, as regenerated from the source, is a legal FASTA letter
    (visible ASCII, not `>`) and a legal FASTQ letter (not `+`, so in particular a legal
    first letter). -/
theorem alphabet_letters_ok :
    ∀ d ∈ Biogo.Generated.builtins, ∀ l ∈ d.letters,
      (visible l && l != 62 && l != 43 &&
       visible (Biogo.Alphabet.toUpper l) && Biogo.Alphabet.toUpper l != 62 && Biogo.Alphabet.toUpper l != 43) = true := by
  decide +kernel

/-! ### FASTA -/

section fasta
open Biogo.Fasta

/-- **FASTA write-then-read.**  Any list of well-formed records, written by `Writer.Write` at
    any positive width, is read back by `Reader.Read` as the same records in the same order
    (identical name, description and letters), followed by `io.EOF`.  The writer does not
    panic, and `ns` are the counts it returned. -/
theorem fasta_roundtrip (recs : List Rec) (w : Nat) (hw : 1 ≤ w) (hwf : ∀ r ∈ recs, wfFasta r = true) :
    ∃ sink ns, writeAll { width := w } {} recs = .ok (sink, ns) ∧
      readAll {} sink.bytes
        = recs.map (fun r => Call.ret ⟨some r, none⟩) ++ [Call.ret ⟨none, some .eof⟩] := by
  obtain ⟨sink, h1, h2⟩ := writeAll_spec w (by omega) {} recs
  refine ⟨sink, _, h1, ?_⟩
  have hb : sink.bytes = recs.flatMap (render w) := by simpa [Sink.bytes] using h2
  rw [hb]
  exact renders_read recs _ hwf (renders_writer w recs hwf)

/-- **Byte count (FASTA).**  Whenever `Write` returns, the `n` it returns is the number of bytes
    it put on the writer — for every record (well-formed or not), width and pair of prefixes. -/
theorem fasta_write_count (wr : Writer) (sink sink' : Sink) (r : Rec) (n : Nat)
    (h : write wr sink r = .ok (sink', n)) : sink'.out.size = sink.out.size + n :=
  write_count wr sink sink' r n h

/-- **The writer with user-set `IDPrefix` / `SeqPrefix`** (exported fields; `gff.Writer` sets them to
    `##DNA ` / `##` for inline sequences): at any width ≥ 1 and for any record — no
    well-formedness needed — `Write` emits `IDPrefix name [" " desc]`, then before every
    `width`-th letter `"\n" SeqPrefix`, a final `"\n"`, and returns the number of these bytes. -/
theorem fasta_write_layout_prefixes (cfg : Cfg) (w : Nat) (hw : w ≠ 0) (sink : Sink) (r : Rec) :
    ∃ sink', write { cfg := cfg, width := w } sink r = .ok (sink', (renderCfg cfg w r).length) ∧
      sink'.bytes = sink.bytes ++ renderCfg cfg w r := write_spec_cfg cfg w hw sink r

-- with the default prefixes this is the layout of `fasta_roundtrip`
example (w : Nat) (r : Rec) : renderCfg {} w r = render w r := by
  simp only [renderCfg, render, ← header_eq]

/-- the stronger statement behind the round trip (shared with C04): any layout of the
    records reads back as the records -/
theorem fasta_renders_read (recs : List Rec) (bs : Bytes) (hwf : ∀ r ∈ recs, wfFasta r = true)
    (h : FastaRenders recs bs) :
    readAll {} bs = recs.map (fun r => Call.ret ⟨some r, none⟩) ++ [Call.ret ⟨none, some .eof⟩] :=
  renders_read recs bs hwf h

-- non-vacuity: well-formed records exist (an empty sequence, names made of `>` `@` `+`,
-- a description with inner double blank), and the statement computes on them
example : wfFasta ⟨[62, 64, 43], [97, 32, 32, 98], []⟩ = true ∧ wfFasta ⟨[], [], [97, 45, 42]⟩ = true := by decide
example :
    (match writeAll { width := 2 } {} [⟨[62, 64, 43], [97, 32, 32, 98], [97, 99, 103]⟩, ⟨[], [], []⟩] with
     | .ok (sink, ns) => (ns, readAll {} sink.bytes)
     | .error _ => ([], []))
    = ([15, 2], [.ret ⟨some ⟨[62, 64, 43], [97, 32, 32, 98], [97, 99, 103]⟩, none⟩,
                 .ret ⟨some ⟨[], [], []⟩, none⟩, .ret ⟨none, some .eof⟩]) := by decide

end fasta

/-! ### FASTQ -/

section fastq
open Biogo.Fastq

/-- **FASTQ write-then-read** (`linear.QSeq`).  Any list of well-formed records with scores
    inside the printable range of the Phred-offset encoding `enc` (Sanger, Illumina 1.3, 1.5,
    1.8, 1.9 — `wfFastq` is false for the others), written by `Writer.Write` with or without
    the identifier on the `+` line (`qid`), is read back by a reader whose template has the
    same encoding as the same records in the same order — identical name, description,
    letters and scores — followed by `io.EOF`; for either behaviour of the underlying
    `io.Reader` at the end of the input, and whatever the two conversion tables are. -/
theorem fastq_roundtrip (tabs : QTables) (enc : Encoding) (qid eofWithData : Bool) (recs : List QRec)
    (hwf : ∀ r ∈ recs, wfFastq enc r = true) :
    readAll ⟨.qseq enc, tabs⟩ eofWithData (writeAll tabs qid enc {} recs).1.bytes
      = recs.map (fun r => Call.ret ⟨some r, none⟩) ++ [Call.ret ⟨none, some .eof⟩] := by
  have hb : (writeAll tabs qid enc {} recs).1.bytes = recs.flatMap (renderQ tabs qid enc) := by
    simpa [Sink.bytes] using (writeAll_spec tabs qid enc {} recs).1
  have hok : ∀ r ∈ recs, RecOK (qlineOf tabs enc) r := fun r hr => (recOK_of_wf tabs enc r (hwf r hr)).1
  rw [hb, renders_read ⟨.qseq enc, tabs⟩ eofWithData (qlineOf tabs enc) recs _ hok (renders_writer tabs qid enc recs hok)]
  congr 1
  apply List.map_congr_left
  intro r hr
  simp only [retOK]
  rw [built_qseq tabs enc r (recOK_of_wf tabs enc r (hwf r hr)).2]

/-- **FASTQ write-then-read** (plain `linear.Seq`): the writer sees every score as
    `seq.DefaultQphred` in the Sanger encoding (`ofPlain`); a reader with a `linear.Seq`
    template returns the same names, descriptions and letters. -/
theorem fastq_roundtrip_plain (tabs : QTables) (qid eofWithData : Bool) (recs : List QRec)
    (hwf : ∀ r ∈ recs, wfFastqPlain r = true) :
    readAll ⟨.seq, tabs⟩ eofWithData (writeAll tabs qid .sanger {} (recs.map ofPlain)).1.bytes
      = recs.map (fun r => Call.ret ⟨some r, none⟩) ++ [Call.ret ⟨none, some .eof⟩] := by
  have hb : (writeAll tabs qid .sanger {} (recs.map ofPlain)).1.bytes
      = (recs.map ofPlain).flatMap (renderQ tabs qid .sanger) := by
    simpa [Sink.bytes] using (writeAll_spec tabs qid .sanger {} (recs.map ofPlain)).1
  have hok : ∀ r ∈ recs.map ofPlain, RecOK (qlineOf tabs .sanger) r := by
    intro r hr
    obtain ⟨r0, h0, rfl⟩ := List.mem_map.mp hr
    exact recOK_of_wfPlain tabs r0 (hwf r0 h0)
  rw [hb, renders_read ⟨.seq, tabs⟩ eofWithData (qlineOf tabs .sanger) _ _ hok
    (renders_writer tabs qid .sanger _ hok), List.map_map]
  congr 1
  apply List.map_congr_left
  intro r hr
  simp only [Function.comp, retOK]
  rw [built_seq tabs r (hwf r hr)]

/-- **Byte count (FASTQ).**  The `n` returned by `Write` is the number of bytes it put on the
    writer — for every record, encoding and `+`-line style. -/
theorem fastq_write_count (tabs : QTables) (qid : Bool) (enc : Encoding) (sink : Sink) (r : QRec) :
    (write tabs qid enc sink r).1.out.size = sink.out.size + (write tabs qid enc sink r).2 :=
  write_count tabs qid enc sink r

/-- scores at both ends of each printable range survive the trip through their byte -/
theorem fastq_score_range (tabs : QTables) (enc : Encoding) (lo hi off : UInt8)
    (h : phredRange enc = some (lo, hi, off)) (q : UInt8) (h1 : lo ≤ q) (h2 : q ≤ hi) :
    decode tabs enc (encode tabs enc q) = q :=
  (decode_encode tabs enc lo hi off h q h1 h2).1

-- non-vacuity: a well-formed record whose quality string starts with `@` (Q = 31) and one
-- that starts with `+` (Q = 10), an empty record, scores at both ends of the range
example : wfFastq .sanger ⟨[64, 43], [100], [97, 99], [31, 10]⟩ = true ∧
    wfFastq .sanger ⟨[120], [], [], []⟩ = true ∧ wfFastq .illumina1_5 ⟨[120], [], [97, 99], [2, 62]⟩ = true ∧
    wfFastq .sanger ⟨[120], [], [97, 99], [0, 93]⟩ = true := by decide

-- the statement computes on them (both `+`-line styles; `@+` is the quality string of the first record)
example :
    readAll ⟨.qseq .sanger, ⟨id, id⟩⟩ false
      (writeAll ⟨id, id⟩ true .sanger {} [⟨[64, 43], [100], [97, 99], [31, 10]⟩, ⟨[120], [], [], []⟩]).1.bytes
    = [.ret ⟨some ⟨[64, 43], [100], [97, 99], [31, 10]⟩, none⟩, .ret ⟨some ⟨[120], [], [], []⟩, none⟩,
       .ret ⟨none, some .eof⟩] ∧
    (writeAll ⟨id, id⟩ false .sanger {} [⟨[64, 43], [100], [97, 99], [31, 10]⟩]).1.bytes
    = [64, 64, 43, 32, 100, 10, 97, 99, 10, 43, 10, 64, 43, 10] := by decide

end fastq

/-! ### the `%a` / `%q` verbs of `linear.Seq` / `linear.QSeq` (corollaries)

The statement of C01 names the two writers; the `Format` verbs are a second writer anchored by
the property.  They print every letter of a `QSeq` through its `QFilter` (a score below
`Threshold` replaces the letter by the ambiguous letter), so the round trip is about the
sequence *as printed*: `r.letters` below are the letters after the filter (all of them, when
every score is at least the threshold). -/

section format
open Biogo.SeqFormat

/-- `fmt.Sprintf("%<w>a", s)` (any width other than 0, or no width) is read back by the FASTA
    reader as the sequence — although the output has no final newline. -/
theorem format_a_roundtrip (w : Option Nat) (hw : w ≠ some 0) (r : Biogo.Fasta.Rec) (hwf : wfFasta r = true) :
    ∃ bytes, formatA w none r.name r.desc r.letters = .ok bytes ∧
      Biogo.Fasta.readAll {} bytes = [.ret ⟨some r, none⟩, .ret ⟨none, some .eof⟩] := by
  obtain ⟨bytes, h1, _, h3⟩ := formatA_roundtrip w hw r hwf
  exact ⟨bytes, h1, h3⟩

/-- `fmt.Sprintf("%q", s)` / `"%+q"` of a `QSeq` with scores in the printable range is read
    back by the FASTQ reader as the sequence. -/
theorem format_q_roundtrip (tabs : Biogo.Fastq.QTables) (enc : Biogo.Fastq.Encoding) (plus eofWithData : Bool)
    (r : Biogo.Fastq.QRec) (hwf : wfFastq enc r = true) :
    Biogo.Fastq.readAll ⟨.qseq enc, tabs⟩ eofWithData
      (formatQ plus none r.name r.desc r.letters (r.quals.map (Biogo.Fastq.encode tabs enc)))
      = [.ret ⟨some r, none⟩, .ret ⟨none, some .eof⟩] :=
  (formatQ_roundtrip tabs enc plus eofWithData r hwf).2

end format

end Biogo.Properties.C01
