/-
C01 — FASTA and FASTQ write-then-read reproduces every record.  Property theorems only.

The models are `Biogo.Model.Fasta` / `Biogo.Model.Fastq` (the definitions the driver runs);
the domain of the property is `Biogo.Spec.Seqio` (`wfFasta`, `wfFastq`, `wfFastqPlain`).
A call history `[.ret ⟨some r₁, none⟩, …, .ret ⟨some rₙ, none⟩, .ret ⟨none, some .eof⟩]`
says: the successive calls of `Read` returned `r₁ … rₙ` with a nil error and then `io.EOF`.
-/
import Biogo.Proofs.Fasta
import Biogo.Generated.Seqio
import Biogo.Generated.Alphabets

namespace Biogo.Properties.C01
open Biogo.Go.Bytes Biogo.Spec.Seqio

/-- The constants the models are stated for are the ones in the source: the default FASTA
    prefixes, `seq.DefaultQphred`, `seq.DefaultEncoding = alphabet.Sanger`, and the numeric
    values of the encodings (regenerated from /repo on every run). -/
theorem source_constants :
    Biogo.Generated.Seqio.fastaIDPrefix = ({} : Biogo.Fasta.Cfg).idPrefix ∧
    Biogo.Generated.Seqio.fastaSeqPrefix = ({} : Biogo.Fasta.Cfg).seqPrefix ∧
    Biogo.Generated.Seqio.defaultQphred = 40 ∧
    Biogo.Generated.Seqio.defaultEncoding = 0 ∧
    Biogo.Generated.Seqio.encodingValues = [-1, 0, 1, 2, 3, 4, 5] := by
  decide

/-- "letters drawn from a nucleotide or protein alphabet": every letter (in either case) of
    every built-in alphabet, as regenerated from the source, is a legal FASTA letter
    (visible ASCII, not `>`) and a legal FASTQ letter (not `+`, so in particular a legal
    first letter). -/
theorem alphabet_letters_ok :
    ∀ d ∈ Biogo.Generated.builtins, ∀ l ∈ d.letters,
      (visible l && l != 62 && l != 43 &&
       visible (Biogo.Alphabet.toUpper l) && Biogo.Alphabet.toUpper l != 62 && Biogo.Alphabet.toUpper l != 43) = true := by
  decide +kernel

/-! ### FASTA -/

section fasta
open Biogo.Fasta

/-- **FASTA write-then-read.**  Any list of well-formed records, written by `Writer.Write` at
    any positive width, is read back by `Reader.Read` as the same records in the same order
    (identical name, description and letters), followed by `io.EOF`.  The writer does not
    panic, and `ns` are the counts it returned. -/
theorem fasta_roundtrip (recs : List Rec) (w : Nat) (hw : 1 ≤ w) (hwf : ∀ r ∈ recs, wfFasta r = true) :
    ∃ sink ns, writeAll { width := w } {} recs = .ok (sink, ns) ∧
      readAll {} sink.bytes
        = recs.map (fun r => Call.ret ⟨some r, none⟩) ++ [Call.ret ⟨none, some .eof⟩] := by
  obtain ⟨sink, h1, h2⟩ := writeAll_spec w (by omega) {} recs
  refine ⟨sink, _, h1, ?_⟩
  have hb : sink.bytes = recs.flatMap (render w) := by simpa [Sink.bytes] using h2
  rw [hb]
  exact renders_read recs _ hwf (renders_writer w recs hwf)

/-- **Byte count (FASTA).**  Whenever `Write` returns, the `n` it returns is the number of bytes
    it put on the writer — for every record (well-formed or not), width and pair of prefixes. -/
theorem fasta_write_count (wr : Writer) (sink sink' : Sink) (r : Rec) (n : Nat)
    (h : write wr sink r = .ok (sink', n)) : sink'.out.size = sink.out.size + n :=
  write_count wr sink sink' r n h

/-- the stronger statement behind the round trip (shared with C04): any layout of the
    records reads back as the records -/
theorem fasta_renders_read (recs : List Rec) (bs : Bytes) (hwf : ∀ r ∈ recs, wfFasta r = true)
    (h : FastaRenders recs bs) :
    readAll {} bs = recs.map (fun r => Call.ret ⟨some r, none⟩) ++ [Call.ret ⟨none, some .eof⟩] :=
  renders_read recs bs hwf h

-- non-vacuity: well-formed records exist (an empty sequence, names made of `>` `@` `+`,
-- a description with inner double blank), and the statement computes on them
example : wfFasta ⟨[62, 64, 43], [97, 32, 32, 98], []⟩ = true ∧ wfFasta ⟨[], [], [97, 45, 42]⟩ = true := by decide
example :
    (match writeAll { width := 2 } {} [⟨[62, 64, 43], [97, 32, 32, 98], [97, 99, 103]⟩, ⟨[], [], []⟩] with
     | .ok (sink, ns) => (ns, readAll {} sink.bytes)
     | .error _ => ([], []))
    = ([15, 2], [.ret ⟨some ⟨[62, 64, 43], [97, 32, 32, 98], [97, 99, 103]⟩, none⟩,
                 .ret ⟨some ⟨[], [], []⟩, none⟩, .ret ⟨none, some .eof⟩]) := by decide

end fasta

end Biogo.Properties.C01
