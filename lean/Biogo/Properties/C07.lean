/-
C07 — Multi-sequence containers keep row and column views consistent under edits.
Property theorems only; lemmas are in Biogo.Proofs.ContGrid / Containers / ContFrame.  The
theorems are about the definitions the driver executes (Biogo/Model/Containers.lean:
`Multi.column`, `Multi.columnQL`, `Aln.column`, `Aln.columnQL`, `Lin.at?`, `Aln.at?`, …).
-/
import Biogo.Model.ContWorld
import Biogo.Proofs.Containers
import Biogo.Proofs.ContFrame
import Biogo.Proofs.ContGrid

namespace Biogo.Properties.C07
open Biogo.Containers Biogo.Go

/-! ### the column view is the row view -/

/-- **row_eq_column (multi.Multi, row-stored, arbitrary row offsets).** "the letter seen
    through the row view at a position equals the corresponding entry of the column view at
    that position, the gap letter standing in for rows that do not cover it when filling is
    requested": for every heap, multi, position and row index `i`, entry `i` of
    `ColumnQL(pos, true)` is `Row(i).At(pos)` when row `i` covers `pos` and `{gap, 0}`
    otherwise; entry `i` of `Column(pos, true)` is its letter; and `Column(pos, false)` lists
    exactly the letters of the covering rows, in row order. -/
theorem row_eq_column_multi (cx : Ctx) (h : Cells) (m : Multi) (pos : Int) :
    (∀ (i : Nat) (r : Lin), m.rows[i]? = some r →
      (m.columnQL cx h pos true)[i]? =
        some (if Multi.covers r pos then (r.at? h pos).getD zeroQL else ⟨cx.gap, 0⟩) ∧
      (m.column cx h pos true)[i]? =
        some (if Multi.covers r pos then ((r.at? h pos).getD zeroQL).L else cx.gap)) ∧
    (m.columnQL cx h pos true).length = m.nrows ∧ (m.column cx h pos true).length = m.nrows ∧
    m.column cx h pos false =
      m.rows.filterMap fun r => if Multi.covers r pos then some ((r.at? h pos).getD zeroQL).L else none := by
  refine ⟨fun i r hi => ⟨?_, ?_⟩, ?_, ?_, ?_⟩
  · rw [Multi.columnQL_fill, List.getElem?_map, hi]
    simp only [Option.map_some, Multi.cell]
    cases Multi.covers r pos <;> simp
  · rw [Multi.column_fill, List.getElem?_map, hi]
    simp only [Option.map_some, Multi.cell]
    cases Multi.covers r pos <;> simp
  · rw [Multi.columnQL_fill, List.length_map]; rfl
  · rw [Multi.column_fill, List.length_map]; rfl
  · rw [Multi.column_nofill]
    congr 1
    funext r
    simp only [Multi.cell]
    cases Multi.covers r pos <;> simp

/-- in a well-formed multi, `At(pos)` of a covering row is a real read (no index panic), so
    the `getD` above never takes its default -/
theorem row_at_defined (h : Cells) (r : Lin) (hv : r.Valid h) (pos : Int)
    (hc : Multi.covers r pos = true) : (r.at? h pos).isSome = true :=
  Lin.at?_isSome_of_covers h r hv pos hc

/-- **row_eq_column (alignment.Seq / alignment.QSeq, column-stored).** For every heap,
    alignment, column index `i` and row `r`: entry `r` of `ColumnQL(Start+i)` is exactly
    `Row(r).At(Start+i)` (both undefined together); entry `r` of `Column(Start+i)` is its
    letter — for the quality alignment under the container's documented filter
    `Q ≥ Threshold`, the ambiguity letter standing for letters below it. -/
theorem row_eq_column_aln (cx : Ctx) (h : Cells) (a : Aln) (r i : Nat) :
    (a.columnQL h i)[r]? = a.at? h r (a.off + (i : Int)) ∧
    (a.column cx h i)[r]? = ((a.cols[i]?).bind fun c => (h.get? c r)).map fun x =>
      if a.q then (if x.Q ≥ alnThreshold then x.L else cx.amb) else x.L := by
  refine ⟨?_, ?_⟩
  · rw [Aln.columnQL_get, Aln.at?_col]
  · rw [Aln.column_get]
    cases a.cols[i]? with
    | none => rfl
    | some c => cases h.get? c r <;> rfl

-- non-vacuity: a ragged multi, position 3 is covered by row 0 only
example :
    let cx : Ctx := { comp := fun l => l, gap := 45, amb := 110,
                      alpha := ⟨[], 0, fun _ => false, fun _ => -1, 45, 110, false⟩, grow := growExact }
    let w := initWorld cx "multi" 1 [⟨false, 0, 1, 0, [⟨65, 0⟩, ⟨67, 0⟩, ⟨71, 0⟩, ⟨84, 0⟩]⟩,
                                    ⟨true, 5, 1, 1, [⟨71, 30⟩, ⟨71, 31⟩]⟩]
    (match w.objs with
     | [.multi m] => m.column cx w.cells 3 true == [84, 45] && m.column cx w.cells 3 false == [84]
                     && m.columnQL cx w.cells 5 true == [⟨45, 0⟩, ⟨71, 30⟩]
     | _ => false) = true := by decide

end Biogo.Properties.C07
