/-
C07 — Multi-sequence containers keep row and column views consistent under edits.
Property theorems only; lemmas are in Biogo.Proofs.ContGrid / Containers / ContFrame.  The
theorems are about the definitions the driver executes (Biogo/Model/Containers.lean:
`Multi.column`, `Multi.columnQL`, `Aln.column`, `Aln.columnQL`, `Lin.at?`, `Aln.at?`, …).
-/
import Biogo.Model.ContWorld
import Biogo.Proofs.Containers
import Biogo.Proofs.ContFrame
import Biogo.Proofs.ContGrid
import Biogo.Proofs.ContCons
import Biogo.Proofs.ContAln
import Biogo.Proofs.ContAppend
import Biogo.Proofs.ContSepWorld
import Biogo.Proofs.ContModelObs
import Biogo.Proofs.ContModelObs07
import Biogo.Generated.Alphabets

namespace Biogo.Properties.C07
open Biogo.Containers Biogo.Go Biogo.Alphabet

/-! ### the column view is the row view -/

/-- **row_eq_column (multi.Multi, row-stored, arbitrary row offsets).** "the letter seen
    through the row view at a position equals the corresponding entry of the column view at
    that position, the gap letter standing in for rows that do not cover it when filling is
    requested": for every heap, multi, position and row index `i`, entry `i` of
    `ColumnQL(pos, true)` is `Row(i).At(pos)` when row `i` covers `pos` and `{gap, 0}`
    otherwise; entry `i` of `Column(pos, true)` is its letter; and `Column(pos, false)` lists
    exactly the letters of the covering rows, in row order. -/
theorem row_eq_column_multi (cx : Ctx) (h : Cells) (m : Multi) (pos : Int) :
    (∀ (i : Nat) (r : Lin), m.rows[i]? = some r →
      (m.columnQL cx h pos true)[i]? =
        some (if Multi.covers r pos then (r.at? h pos).getD zeroQL else ⟨cx.gap, 0⟩) ∧
      (m.column cx h pos true)[i]? =
        some (if Multi.covers r pos then ((r.at? h pos).getD zeroQL).L else cx.gap)) ∧
    (m.columnQL cx h pos true).length = m.nrows ∧ (m.column cx h pos true).length = m.nrows ∧
    m.column cx h pos false =
      m.rows.filterMap fun r => if Multi.covers r pos then some ((r.at? h pos).getD zeroQL).L else none := by
  refine ⟨fun i r hi => ⟨?_, ?_⟩, ?_, ?_, ?_⟩
  · rw [Multi.columnQL_fill, List.getElem?_map, hi]
    simp only [Option.map_some, Multi.cell]
    cases Multi.covers r pos <;> simp
  · rw [Multi.column_fill, List.getElem?_map, hi]
    simp only [Option.map_some, Multi.cell]
    cases Multi.covers r pos <;> simp
  · rw [Multi.columnQL_fill, List.length_map]; rfl
  · rw [Multi.column_fill, List.length_map]; rfl
  · rw [Multi.column_nofill]
    congr 1
    funext r
    simp only [Multi.cell]
    cases Multi.covers r pos <;> simp

/-- in a well-formed multi, `At(pos)` of a covering row is a real read (no index panic), so
    the `getD` above never takes its default -/
theorem row_at_defined (h : Cells) (r : Lin) (hv : r.Valid h) (pos : Int)
    (hc : Multi.covers r pos = true) : (r.at? h pos).isSome = true :=
  Lin.at?_isSome_of_covers h r hv pos hc

/-- **row_eq_column (alignment.Seq / alignment.QSeq, column-stored).** For every heap,
    alignment, column index `i` and row `r`: entry `r` of `ColumnQL(Start+i)` is exactly
    `Row(r).At(Start+i)` (both undefined together); entry `r` of `Column(Start+i)` is its
    letter — for the quality alignment under the container's documented filter
    `Q ≥ Threshold`, the ambiguity letter standing for letters below it. -/
theorem row_eq_column_aln (cx : Ctx) (h : Cells) (a : Aln) (r i : Nat) :
    (a.columnQL h i)[r]? = a.at? h r (a.off + (i : Int)) ∧
    (a.column cx h i)[r]? = ((a.cols[i]?).bind fun c => (h.get? c r)).map fun x =>
      if a.q then (if x.Q ≥ alnThreshold then x.L else cx.amb) else x.L := by
  refine ⟨?_, ?_⟩
  · rw [Aln.columnQL_get, Aln.at?_col]
  · rw [Aln.column_get]
    cases a.cols[i]? with
    | none => rfl
    | some c => cases h.get? c r <;> rfl

-- non-vacuity: a ragged multi, position 3 is covered by row 0 only
example :
    let cx : Ctx := { comp := fun l => l, gap := 45, amb := 110,
                      alpha := ⟨[], 0, fun _ => false, fun _ => -1, 45, 110, false⟩, grow := growExact }
    let w := initWorld cx "multi" 1 [⟨false, 0, 1, 0, [⟨65, 0⟩, ⟨67, 0⟩, ⟨71, 0⟩, ⟨84, 0⟩]⟩,
                                    ⟨true, 5, 1, 1, [⟨71, 30⟩, ⟨71, 31⟩]⟩]
    (match w.objs with
     | [.multi m] => m.column cx w.cells 3 true == [84, 45] && m.column cx w.cells 3 false == [84]
                     && m.columnQL cx w.cells 5 true == [⟨45, 0⟩, ⟨71, 30⟩]
     | _ => false) = true := by decide

/-! ### Truncate and Subseq over a range every row covers -/

/-- **subseq_truncate_exact (Truncate).** If every row of the multi covers `[st,en)` then
    `Truncate(st, en)` reports no error and every row afterwards spans exactly `[st,en)` and
    shows exactly the letters (and qualities) it showed at those positions. -/
theorem truncate_exact (h : Cells) (m : Multi) (st en : Int)
    (hcov : ∀ r ∈ m.rows, r.start ≤ st ∧ st ≤ en ∧ en ≤ r.«end» ∧ r.s.len ≤ r.s.cap) :
    (m.truncate st en).2 = true ∧
    All2 (fun r r' =>
        r'.letters h = ((r.letters h).drop (st - r.start).toNat).take (en - st).toNat ∧
        r'.start = st ∧ r'.«end» = en ∧ r'.q = r.q ∧ r'.name = r.name ∧ r'.strand = r.strand)
      m.rows (m.truncate st en).1.rows := by
  have hall : ∀ r ∈ m.rows, (r.truncate st en).isSome = true := fun r hr =>
    Lin.truncate_isSome r st en (hcov r hr).1 (hcov r hr).2.1 (hcov r hr).2.2.1 (hcov r hr).2.2.2
  obtain ⟨hok, hrows⟩ := Multi.truncate_spec m st en hall
  refine ⟨hok, hrows.imp fun r r' hrr => ?_⟩
  obtain ⟨s1, s2, s3, s4, s5, s6, _⟩ := Lin.truncate_spec h r r' st en hrr
  exact ⟨s1, s2, s3, s4, s5, s6⟩

/-- **subseq_truncate_exact (Subseq).** If every row covers `[st,en)` then `Subseq(st, en)`
    returns a multi (no error, no panic) whose rows span exactly `[st,en)` and show exactly the
    letters the receiver shows there; the receiver's backing arrays are untouched and the new
    rows live in arrays that did not exist before (so the two are independent). -/
theorem subseq_exact (cx : Ctx) (h : Cells) (m : Multi) (st en : Int)
    (hcov : ∀ r ∈ m.rows, r.Valid h ∧ r.start ≤ st ∧ st ≤ en ∧ en ≤ r.«end») :
    ∃ m', (m.subseq cx h st en).2 = some m' ∧
      All2 (fun r c =>
          c.letters (m.subseq cx h st en).1 = ((r.letters h).drop (st - r.start).toNat).take (en - st).toNat ∧
          c.start = st ∧ c.«end» = en ∧ c.q = r.q ∧ c.name = r.name ∧ c.strand = r.strand ∧
          h.arrays.length ≤ c.s.arr) m.rows m'.rows ∧
      (∀ b, b < h.arrays.length → (m.subseq cx h st en).1.arr b = h.arr b) ∧
      (∀ r ∈ m.rows, r.letters (m.subseq cx h st en).1 = r.letters h) := by
  obtain ⟨cs, h2, hall, _, _, hfr⟩ := subseqFold_spec cx st en m.rows h [] hcov
  have hres : (m.subseq cx h st en) =
      ((m.rows.foldl (Multi.subseqStep cx st en) (h, [], true)).1,
       if (m.rows.foldl (Multi.subseqStep cx st en) (h, [], true)).2.2
       then some { m with rows := (m.rows.foldl (Multi.subseqStep cx st en) (h, [], true)).2.1 } else none) := rfl
  rw [hres, h2]
  refine ⟨{ m with rows := [] ++ cs }, rfl, ?_, hfr, ?_⟩
  · simp only [List.nil_append]
    exact hall.imp fun r c hrc => ⟨hrc.1.1, hrc.1.2.1, hrc.1.2.2.1, hrc.1.2.2.2.1, hrc.1.2.2.2.2.1,
      hrc.1.2.2.2.2.2, hrc.2.1⟩
  · intro r hr
    exact Lin.letters_congr (hfr _ (hcov r hr).1.1)

/-! ### AppendColumns on column-stored alignments -/

/-- **append_exact (alignment.Seq / alignment.QSeq, AppendColumns).** When `AppendColumns`
    accepts its arguments, the alignment's columns are the old columns, every one read exactly
    as before ("without altering existing columns"), followed by one new column per supplied
    column holding exactly the supplied letters (`Seq`: letters only, `QSeq`: letter and
    quality); the new columns live in arrays allocated by the call. -/
theorem append_exact_aln (cx : Ctx) (h h' : Cells) (a a' : Aln) (rows : Nat) (colsIn : List (List QL))
    (hv : a.ColsValid h) (happ : a.appendColumns cx h rows colsIn = some (h', a')) :
    ∃ news, a'.cols = a.cols ++ news ∧
      (∀ c ∈ a.cols, h'.read c = h.read c) ∧
      All2 (fun c s => h'.read s = c.map (Lin.stored a.q) ∧ c.length = rows ∧
          h.arrays.length ≤ s.arr ∧ s.arr < h'.arrays.length) colsIn news ∧
      (∀ b, b < h.arrays.length → h'.arr b = h.arr b) ∧
      a'.q = a.q ∧ a'.subs = a.subs ∧ a'.strand = a.strand ∧ a'.off = a.off := by
  have hok : colsIn.any (fun c => c.length != rows) = false := by
    cases hc : colsIn.any (fun c => c.length != rows) with
    | false => rfl
    | true => simp [Aln.appendColumns, hc] at happ
  rw [Aln.appendColumns_eq cx h a rows colsIn hok] at happ
  simp only [Option.some.injEq, Prod.mk.injEq] at happ
  obtain ⟨e1, e2⟩ := happ
  obtain ⟨news, h2, hall, _, hfr⟩ := colsFold_spec cx a.q colsIn h a.cols
  subst e1; subst e2
  refine ⟨news, h2, fun c hc => read_congr_arr _ _ _ (hfr _ (hv c hc)), ?_, hfr, rfl, rfl, rfl, rfl⟩
  have hlen : ∀ c ∈ colsIn, c.length = rows := by
    intro c hc
    have := List.any_eq_false.mp hok c hc
    simpa using this
  exact hall.imp_mem fun c s hc hcs => ⟨hcs.1, hlen c hc, hcs.2.1, hcs.2.2.1⟩

/-- **append_no_retain (AppendColumns).** "without … retaining the caller's buffers": after
    `AppendColumns`, a write to any slice `b` that existed before the call and is not a column
    of the alignment — in particular to any of the caller's buffers — changes no column of
    the alignment. -/
theorem append_no_retain_aln (cx : Ctx) (h h' : Cells) (a a' : Aln) (rows : Nat) (colsIn : List (List QL))
    (hv : a.ColsValid h) (happ : a.appendColumns cx h rows colsIn = some (h', a'))
    (b : Slice) (hb : b.arr < h.arrays.length) (hsep : ∀ c ∈ a.cols, c.arr ≠ b.arr) (i : Nat) (v : QL) :
    ∀ s ∈ a'.cols, (h'.set b i v).read s = h'.read s := by
  obtain ⟨news, h2, _, hall, _, _⟩ := append_exact_aln cx h h' a a' rows colsIn hv happ
  intro s hs
  rw [h2] at hs
  apply Heap.read_set_other
  rcases List.mem_append.mp hs with hold | hnew
  · exact fun e => hsep s hold e.symm
  · obtain ⟨c, _, hcs⟩ := hall.exists_left s hnew
    have := hcs.2.2.1
    omega

/-! ### consensus of a unanimous column -/

/-- per-letter facts about a built-in alphabet that the consensus law needs: a valid letter
    has an index inside `0..Len-1`, `Letter(IndexOf l)` is `l` up to case, and (the built-in
    alphabets being case-insensitive) the index does not depend on the case -/
def consensusFactsAt (d : Def) (l : UInt8) : Bool :=
  match d.build with
  | .error _ => false
  | .ok (a, _) =>
    !a.valid l ||
      (0 ≤ a.index l && (a.index l).toNat < a.length &&
       (match a.letter (a.index l).toNat with
        | some x => toLower x == toLower l
        | none => false) &&
       a.index (toLower l) == a.index l)

theorem builtin_consensus_facts_nat :
    ∀ d ∈ Biogo.Generated.builtins, ∀ n < 256, consensusFactsAt d (UInt8.ofNat n) = true := by
  decide +kernel

theorem builtin_consensus_facts (d : Def) (hd : d ∈ Biogo.Generated.builtins) (l : UInt8) :
    consensusFactsAt d l = true := by
  have h := builtin_consensus_facts_nat d hd l.toNat l.toNat_lt
  simpa using h

/-- **unanimous_consensus.** "a column in which every row holds the same valid letter has that
    letter, up to case, as its count-based consensus": for every built-in alphabet and every
    non-empty column whose letters are all valid and all equal to `l0` up to case, the letter of
    `seq.DefaultConsensus` (arg-max of the counts of valid letters) equals `l0` up to case. -/
theorem unanimous_consensus (d : Def) (hd : d ∈ Biogo.Generated.builtins) (a : Alpha)
    (p : Option Pairing) (hb : d.build = .ok (a, p)) (col : List UInt8) (l0 : UInt8) (hl0 : l0 ∈ col)
    (hall : ∀ l ∈ col, a.valid l = true ∧ toLower l = toLower l0) :
    toLower (consensusLetter a col) = toLower l0 := by
  have facts : ∀ l, a.valid l = true →
      0 ≤ a.index l ∧ (a.index l).toNat < a.length ∧
      (∃ x, a.letter (a.index l).toNat = some x ∧ toLower x = toLower l) ∧
      a.index (toLower l) = a.index l := by
    intro l hv
    have h := builtin_consensus_facts d hd l
    simp only [consensusFactsAt, hb, hv, Bool.not_true, Bool.false_or, Bool.and_eq_true,
      decide_eq_true_eq, beq_iff_eq] at h
    obtain ⟨⟨⟨h1, h2⟩, h3⟩, h4⟩ := h
    refine ⟨h1, h2, ?_, h4⟩
    cases hx : a.letter (a.index l).toNat with
    | none => simp [hx] at h3
    | some x => simp only [hx, beq_iff_eq] at h3; exact ⟨x, rfl, h3⟩
  obtain ⟨hv0, _⟩ := hall l0 hl0
  obtain ⟨_, hk, ⟨x, hx, hxl⟩, _⟩ := facts l0 hv0
  have hidx : ∀ l ∈ col, a.valid l = true ∧ (a.index l).toNat = (a.index l0).toNat := by
    intro l hl
    obtain ⟨hv, hlow⟩ := hall l hl
    refine ⟨hv, ?_⟩
    have e1 := (facts l hv).2.2.2
    have e2 := (facts l0 hv0).2.2.2
    rw [← e1, hlow, e2]
  have hne : col ≠ [] := List.ne_nil_of_mem hl0
  rw [consensus_unanimous a col (a.index l0).toNat hne hk hidx, hx]
  exact hxl

-- non-vacuity: DNA, the column [A, a, A] has consensus a
example : (match Biogo.Generated.alphaDNA.build with
    | .ok (a, _) => consensusLetter a [65, 97, 65] == 97 && a.valid 65
    | .error _ => false) = true := by decide +kernel

/-! ### Delete -/

/-- **delete_exact (alignment.Seq / alignment.QSeq).** "Delete removes exactly the indexed
    row": for a well-formed alignment of `n` rows and `i < n`, after `Delete(i)` every column
    reads as it read before with entry `i` removed (the entries of the other rows keep their
    order), every column has `n-1` rows, and the row annotations lose exactly entry `i`. -/
theorem delete_exact_aln (h : Cells) (a : Aln) (n i : Nat) (hi : i < n) (hw : ColsWF h n a.cols)
    (hcap : ∀ c ∈ a.cols, c.len ≤ c.cap) :
    All2 (fun c c' => (a.delete h i).1.read c' = (h.read c).eraseIdx i ∧ c'.len = n - 1)
      a.cols (a.delete h i).2.cols ∧
    (a.delete h i).2.subs = a.subs.eraseIdx i ∧ (a.delete h i).2.strand = a.strand ∧
    (a.delete h i).2.q = a.q := by
  obtain ⟨cols', h2, hall, _, _⟩ := delFold_spec i n hi a.cols h [] hw hcap
  rw [Aln.delete_eq]
  simp only [List.nil_append] at h2
  simp only [h2]
  exact ⟨hall.imp fun c c' hcc => ⟨hcc.1, hcc.2.2⟩, trivial, trivial, trivial⟩

/-- **delete_exact (multi.Multi).** The rows after `Delete(i)` are the rows before without
    row `i`; no letter is touched. -/
theorem delete_exact_multi (h : Cells) (m : Multi) (i : Nat) :
    (Obj.multi (m.delete i)).rowsV h = ((Obj.multi m).rowsV h).eraseIdx i := by
  simp only [Obj.rowsV, Obj.lins, Multi.delete]
  generalize m.rows = rows
  induction rows generalizing i with
  | nil => rfl
  | cons r rs ih =>
    cases i with
    | zero => rfl
    | succ i => simp only [List.eraseIdx_cons_succ, List.map_cons, ih]

/-! ### AppendEach on column-stored alignments -/

/-- **append_exact (alignment.Seq / alignment.QSeq, AppendEach).** With one run per row,
    `AppendEach` reports no error and appends `max_i len(run_i)` columns; the old columns read
    exactly as before; new column `j` holds, for row `r`, the `j`-th letter of run `r`, or the
    gap letter when run `r` is shorter ("column-stored alignments padding shorter runs with the
    gap letter"); every new column lives in an array allocated by the call (so nothing of the
    caller's buffers or of the scratch column is retained). -/
theorem append_each_exact_aln (cx : Ctx) (h : Cells) (a : Aln) (rows : Nat) (runs : List (List QL))
    (hv : a.ColsValid h) (hr : runs.length = rows) :
    ∃ h' a' news, a.appendEach cx h rows runs = some (h', a') ∧
      a'.cols = a.cols ++ news ∧
      news.length = runs.foldl (fun m ss => Nat.max m ss.length) 0 ∧
      (∀ c ∈ a.cols, h'.read c = h.read c) ∧
      (∀ (j : Nat) (s : Slice), news[j]? = some s →
        h'.read s = (runs.map fun ss => match ss[j]? with | some c => c | none => ⟨cx.gap, 0⟩).map (Lin.stored a.q) ∧
        h.arrays.length ≤ s.arr) ∧
      a'.subs = a.subs ∧ a'.q = a.q := by
  obtain ⟨hk, ak, news, hfold, hcols, hlen, hnews, hold, _, hq, hsubs, _, _⟩ :=
    appendEach_prefix cx rows runs hr h a (runs.foldl (fun m ss => Nat.max m ss.length) 0)
  refine ⟨hk, ak, news, ?_, hcols, hlen, fun c hc => read_congr_arr _ _ _ (hold _ (hv c hc)), ?_, hsubs, hq⟩
  · simp only [Aln.appendEach, hr, bne_self_eq_false, Bool.false_eq_true, if_false]
    exact hfold
  · intro j s hs
    obtain ⟨e1, e2, _⟩ := hnews j s hs
    exact ⟨e1, e2⟩

/-! ### AppendEach / AppendColumns on row-stored multis (Go `append`: in place iff capacity) -/

/-- **append_exact (multi.Multi, AppendEach).** With one run per row `AppendEach` reports no
    error and row `i` afterwards shows its old letters followed by exactly run `i` (letters and
    qualities for a `QSeq` row, letters for a `Seq` row), starts where it started and ends
    `len(run_i)` later — whatever the spare capacity of the rows (in-place and reallocating
    appends alike); the rows stay in pairwise different arrays and no other array changes. -/
theorem append_each_exact_multi (cx : Ctx) (h : Cells) (m : Multi) (runs : List (List QL))
    (hwf : RowsCapWF h m.rows) (hr : runs.length = m.nrows) :
    ∃ h' m', m.appendEach cx h runs = some (h', m') ∧ m'.rows.length = m.rows.length ∧
      (∀ (i : Nat) (r : Lin), m.rows[i]? = some r → ∃ r', m'.rows[i]? = some r' ∧
        r'.letters h' = r.letters h ++ (runs.getD i []).map (fun c => Lin.shown r.q (Lin.stored r.q c)) ∧
        r'.start = r.start ∧ r'.«end» = r.«end» + (runs.getD i []).length ∧
        r'.q = r.q ∧ r'.name = r.name ∧ r'.strand = r.strand) ∧
      RowsCapWF h' m'.rows ∧
      (∀ b, (∀ r ∈ m.rows, r.s.arr ≠ b) → b < h.arrays.length → h'.arr b = h.arr b) := by
  obtain ⟨hlen, hrows, hwf', hfr⟩ := appendRows_spec cx (fun k => runs.getD k []) h m.rows hwf
  refine ⟨_, { m with rows := _ }, ?_, hlen, hrows, hwf', hfr⟩
  simp only [Multi.appendEach, hr, bne_self_eq_false, Bool.false_eq_true, if_false]

/-- **append_exact (multi.Multi, AppendColumns).** When every column has one entry per row,
    row `i` is extended by exactly `a[0][i], a[1][i], …`. -/
theorem append_columns_exact_multi (cx : Ctx) (h : Cells) (m : Multi) (colsIn : List (List QL))
    (hwf : RowsCapWF h m.rows) (hc : ∀ c ∈ colsIn, c.length = m.nrows) :
    ∃ h' m', m.appendColumns cx h colsIn = some (h', m') ∧ m'.rows.length = m.rows.length ∧
      (∀ (i : Nat) (r : Lin), m.rows[i]? = some r → ∃ r', m'.rows[i]? = some r' ∧
        r'.letters h' = r.letters h ++
          (colsIn.map fun c => c.getD i zeroQL).map (fun c => Lin.shown r.q (Lin.stored r.q c)) ∧
        r'.start = r.start ∧ r'.«end» = r.«end» + colsIn.length ∧
        r'.q = r.q ∧ r'.name = r.name ∧ r'.strand = r.strand) ∧
      RowsCapWF h' m'.rows ∧
      (∀ b, (∀ r ∈ m.rows, r.s.arr ≠ b) → b < h.arrays.length → h'.arr b = h.arr b) := by
  obtain ⟨hlen, hrows, hwf', hfr⟩ :=
    appendRows_spec cx (fun k => colsIn.map fun c => c.getD k zeroQL) h m.rows hwf
  have hok : colsIn.any (fun c => c.length != m.nrows) = false := by
    apply List.any_eq_false.mpr
    intro c hcm
    simp [hc c hcm]
  refine ⟨_, { m with rows := _ }, ?_, hlen, ?_, hwf', hfr⟩
  · simp only [Multi.appendColumns, hok, Bool.false_eq_true, if_false]
  · intro i r hi
    obtain ⟨r', h1, h2⟩ := hrows i r hi
    refine ⟨r', h1, h2.1, h2.2.1, ?_, h2.2.2.2⟩
    have := h2.2.2.1
    simp only [List.length_map] at this
    exact this

/-! ### Flush -/

/-- **flush_preserves.** "Flush pads ragged rows with the fill letter so that all rows span
    the alignment while every original letter keeps its position": for a well-formed multi
    with span `[S,E)`, after `Flush(where, fill)` every row starts at `S` if `where` has the
    `seq.Start` bit (else where it started) and ends at `E` if it has the `seq.End` bit (else
    where it ended); it shows `fill` at the positions gained on either side and, between them,
    exactly the letters and qualities it showed before — at the same absolute positions, since
    the row's start moved left by exactly the number of letters prepended.  (Including the
    code's early return when `IsFlush(where)` already holds and its one-row special case.) -/
theorem flush_preserves (cx : Ctx) (h : Cells) (m : Multi) (wh : Nat) (fill : UInt8)
    (hwf : RowsCapWF h m.rows) (hr : m.InRange) :
    All2 (fun r r' =>
        r'.start = (if wh % 2 == 1 then m.start else r.start) ∧
        r'.«end» = (if (wh / 2) % 2 == 1 then m.«end» else r.«end») ∧
        r'.letters (m.flush cx h wh fill).1 =
          List.replicate (r.start - r'.start).toNat (Lin.shown r.q ⟨fill, 0⟩) ++ r.letters h ++
          List.replicate (r'.«end» - r.«end»).toNat (Lin.shown r.q ⟨fill, 0⟩) ∧
        r'.q = r.q ∧ r'.name = r.name ∧ r'.strand = r.strand)
      m.rows (m.flush cx h wh fill).2.rows :=
  Multi.flush_spec cx h m wh fill hwf hr

-- non-vacuity: rows [0,4) and [5,7) flushed at both ends with '-'
example :
    let cx : Ctx := { comp := fun l => l, gap := 45, amb := 110,
                      alpha := ⟨[], 0, fun _ => false, fun _ => -1, 45, 110, false⟩, grow := growExact }
    let w := initWorld cx "multi" 1 [⟨false, 0, 1, 0, [⟨65, 0⟩, ⟨67, 0⟩, ⟨71, 0⟩, ⟨84, 0⟩]⟩,
                                    ⟨true, 5, 1, 1, [⟨71, 30⟩, ⟨71, 31⟩]⟩]
    (match w.objs with
     | [.multi m] =>
        ((m.flush cx w.cells 3 45).2.rows.map fun r => (r.start, r.«end», (r.letters (m.flush cx w.cells 3 45).1).map (·.L)))
          == [(0, 7, [65, 67, 71, 84, 45, 45, 45]), (0, 7, [45, 45, 45, 45, 45, 71, 71])]
     | _ => false) = true := by decide

/-- the hypothesis `RowsCapWF` of the theorems about multis holds of every multi the harness
    (and any caller of `linear.NewSeq/NewQSeq` + `multi.NewMulti`) builds: each row owns a new
    backing array, with its capacity inside it -/
theorem initial_multi_wellformed (cx : Ctx) (strand : Int) (rows : List SeqSpec) :
    match (initWorld cx "multi" strand rows).objs with
    | [.multi m] => RowsCapWF (initWorld cx "multi" strand rows).cells m.rows
    | _ => False :=
  newLins_rowsCapWF cx Heap.empty rows

/-! ### every reachable state is well formed

The theorems above assume well-formedness of the container they speak about (`ColsWF`,
`Aln.ColsValid`, `c.len ≤ c.cap`, `RowsCapWF`, `RowsWF`, `Lin.Valid`).  `WorldWF` (defined in
Proofs/ContSep.lean) packages these for every object of a world, together with the separation
of objects and caller buffers; it holds of the initial object of every history and is preserved
by every operation, so the hypotheses hold of every state a history reaches. -/

/-- **preservation**: `AppendColumns`, `AppendEach`, `Delete`, `Add`, `Flush`, `Truncate`,
    `Subseq`, `Clone` — and every other operation of the histories, error returns and panics
    included — take a well-formed world to a well-formed world -/
theorem operation_preserves_wellformed (cx : Ctx) (w : World) (hw : WorldWF w) (op : Op) :
    WorldWF (apply cx w op).1 :=
  (step_all cx w hw op).1

/-- **Reach**: every state reachable from a constructor (`linear.NewSeq/NewQSeq`,
    `alignment.NewSeq/NewQSeq`, `multi.NewMulti`, `multi.Set`) by the modelled operations is
    well formed -/
theorem reachable_wellformed (cx : Ctx) (kind : String) (strand : Int) (rows : List SeqSpec) (ops : List Op) :
    WorldWF (runOps cx (initWorld cx kind strand rows) ops) :=
  reach_wf cx kind strand rows ops

/-- what `WorldWF` gives for one object: exactly the hypotheses of the theorems of this file and
    of C05 — for a column-stored alignment `ColsWF` for some number of rows `n` (which is
    `Rows()` whenever there is a column, and then also the number of row annotations, so that
    `Row(i)` for `i < Rows()` always finds its annotation), capacities, `ColsValid`, offset 0; for a multi
    `RowsCapWF` and `RowsWF`; for a linear sequence `Lin.Valid` -/
theorem wellformed_gives_hypotheses (w : World) (hw : WorldWF w) (k : Nat) :
    (∀ a, w.objs[k]? = some (.aln a) →
      a.off = 0 ∧ a.ColsValid w.cells ∧ (∀ c ∈ a.cols, c.len ≤ c.cap) ∧
      ∃ n, ColsWF w.cells n a.cols ∧ (a.cols ≠ [] → a.rows = n ∧ a.subs.length = n)) ∧
    (∀ m, w.objs[k]? = some (.multi m) → RowsCapWF w.cells m.rows ∧ RowsWF w.cells m.rows) ∧
    (∀ m, w.objs[k]? = some (.set m) → RowsCapWF w.cells m.rows ∧ RowsWF w.cells m.rows) ∧
    (∀ l, w.objs[k]? = some (.lin l) → l.Valid w.cells) := by
  refine ⟨?_, ?_, ?_, ?_⟩
  · intro a hk
    obtain ⟨h0, n, hc, hsub⟩ := hw.obj k _ hk
    refine ⟨h0, fun c hm => (hc.1.1 c hm).1, hc.cap, n, hc.toColsWF, ?_⟩
    intro hne
    refine ⟨?_, hsub hne⟩
    cases hcols : a.cols with
    | nil => exact (hne hcols).elim
    | cons c cs =>
      simp only [Aln.rows, Aln.rows?, hcols, List.head?_cons, Option.map_some, Option.getD_some]
      exact hc.2 c (by rw [hcols]; exact List.mem_cons_self)
  · intro m hk
    have := hw.obj k _ hk
    exact ⟨this, RowsCapWF.toRowsWF this⟩
  · intro m hk
    have := hw.obj k _ hk
    exact ⟨this, RowsCapWF.toRowsWF this⟩
  · intro l hk
    exact CapValid.toValid (hw.obj k _ hk)

/-- `clone_deep` for the edit histories of C07 (column-stored alignments and multis, all edit
    operations, caller buffers): C05's `clone_deep_all`, restated here with the same proof -/
theorem clone_deep_edits (cx : Ctx) (w : World) (hw : WorldWF w) (k : Nat) (o : Obj)
    (hk : w.objs[k]? = some o) (hclonable : ∀ m, o ≠ .set m) (ops : List Op) :
    let w1 := (apply cx w (.clone k)).1
    ∃ c, w1.objs[w.objs.length]? = some c ∧ viewObj cx w1.cells c = viewObj cx w.cells o ∧
      ((∀ op ∈ ops, op.written ≠ some k) →
        (runOps cx w1 ops).objs[k]? = some o ∧
        viewObj cx (runOps cx w1 ops).cells o = viewObj cx w.cells o) ∧
      ((∀ op ∈ ops, op.written ≠ some w.objs.length) →
        (runOps cx w1 ops).objs[w.objs.length]? = some c ∧
        viewObj cx (runOps cx w1 ops).cells c = viewObj cx w.cells o) := by
  intro w1
  obtain ⟨c, hc, hobs⟩ := clone_view_equal cx w hw k o hk hclonable
  obtain ⟨hw1, hoth1⟩ := step_all cx w hw (.clone k)
  obtain ⟨hk1, hko⟩ := hoth1 k o (by simp [Op.written]) hk
  refine ⟨c, hc, hobs, ?_, ?_⟩
  · intro hnot
    have r := untouched_all cx ops w1 hw1 k o hk1 hnot
    exact ⟨r.1, r.2.trans hko⟩
  · intro hnot
    have r := untouched_all cx ops w1 hw1 w.objs.length c hc hnot
    exact ⟨r.1, r.2.trans hobs⟩

/-- **append_no_retain, over histories**: after `AppendColumns` / `AppendEach` from caller
    buffers, any later sequence of writes to caller buffers (`mut`), creation of buffers and
    operations on other objects leaves the alignment / multi observed exactly as it was — the
    general form of `append_no_retain_aln`, for every container kind -/
theorem append_no_retain_history (cx : Ctx) (w : World) (hw : WorldWF w) (app : Op) (k : Nat) (o' : Obj)
    (hk' : (apply cx w app).1.objs[k]? = some o') (later : List Op)
    (hnot : ∀ op ∈ later, op.written ≠ some k) :
    (runOps cx (apply cx w app).1 later).objs[k]? = some o' ∧
    viewObj cx (runOps cx (apply cx w app).1 later).cells o' = viewObj cx (apply cx w app).1.cells o' :=
  untouched_all cx later _ (step_all cx w hw app).1 k o' hk' hnot

/-! ### the model satisfies the declarative statements the executable laws stand for

`Laws.RowEqColumnSpec`, `Laws.FrameSpec` (Proofs/ContLawsSound.lean) are the declarative
statements that `lawRowEqColumn`, `lawFrame` are proved to imply of the implementation's
observations (`C07_laws.c07_verdict_sound`).  Here they are proved of the model's own
observations, for every reachable state: the same proposition is a theorem on the model's side
and a sound executable check on the implementation's side. -/

/-- **row_eq_column, observation level, every reachable state**: for every object of every state
    a history reaches — column-stored alignment with or without qualities, multi with arbitrary
    row offsets — `Rows()`/`Len()` agree with the rows and the span, and at every position of the
    span entry `i` of `ColumnQL(pos, true)` / `Column(pos, true)` is what row `i` shows there
    (`At`), the gap letter standing for rows that do not cover it (quality filter for
    `alignment.QSeq.Column`); `Column(pos, false)` lists the covering rows' letters. -/
theorem row_eq_column_reachable (cx : Ctx) (kind : String) (strand : Int) (rows : List SeqSpec) (ops : List Op) :
    ∀ o ∈ (runOps cx (initWorld cx kind strand rows) ops).view cx, Laws.RowEqColumnSpec cx.gap cx.amb o :=
  model_row_eq_column cx _ (reach_wf cx kind strand rows ops)

/-- **append_no_retain / clone_deep, observation level**: after any operation on a well-formed
    world every object it is not applied to is observed exactly as before (`mut` of a caller
    buffer and `Clone` are applied to no object) -/
theorem frame_on_observations (cx : Ctx) (w : World) (hw : WorldWF w) (op : Op) :
    Laws.FrameSpec (w.view cx) ((apply cx w op).1.view cx) op.written :=
  model_frame cx w hw op

/-- `Clone`, observation level: the new object is observed exactly as the original -/
theorem clone_equal_on_observations (cx : Ctx) (w : World) (hw : WorldWF w) (k : Nat) (o : Obj)
    (hk : w.objs[k]? = some o) (hclonable : ∀ m, o ≠ .set m) :
    ((apply cx w (.clone k)).1.view cx)[w.objs.length]? = (w.view cx)[k]? :=
  model_clone_equal cx w hw k o hk hclonable

/-- **delete_exact, observation level** (column-stored alignment in a well-formed state,
    `ObjWF` = what `WorldWF` gives for the object): the rows observed after `Delete(i)` — letters
    over the span, names, strands, offsets — are the rows observed before without row `i`, and
    `Rows()` drops by one -/
theorem delete_on_observations_aln (cx : Ctx) (h : Cells) (a : Aln) (hwf : ObjWF h (.aln a)) (i : Nat)
    (hi : i < a.rows) :
    Laws.DeleteSpec (viewObj cx h (.aln a)) (viewObj cx (a.delete h i).1 (.aln (a.delete h i).2)) i := by
  obtain ⟨_, n, hc, _⟩ := hwf
  exact model_delete_aln cx h a n hc i hi

/-- **delete_exact, observation level** (multi) -/
theorem delete_on_observations_multi (cx : Ctx) (h : Cells) (m : Multi) (i : Nat) (hi : i < m.nrows) :
    Laws.DeleteSpec (viewObj cx h (.multi m)) (viewObj cx h (.multi (m.delete i))) i :=
  model_delete_multi cx h m i hi

/-- **subseq_truncate_exact (Truncate), observation level**: over a range every row of a
    well-formed multi covers, `Truncate` reports no error and every row is observed to span
    exactly `[st,en)` with exactly the cells it showed there -/
theorem truncate_on_observations (cx : Ctx) (h : Cells) (m : Multi) (hwf : ObjWF h (.multi m)) (st en : Int)
    (hse : st ≤ en) (hcov : ∀ r ∈ m.rows, r.start ≤ st ∧ en ≤ r.«end») :
    (m.truncate st en).2 = true ∧
    Laws.RangeSpec (viewObj cx h (.multi m)) (viewObj cx h (.multi (m.truncate st en).1)) st en :=
  model_truncate_multi cx h m hwf st en hse hcov

/-- **append_exact (AppendColumns), observation level** (column-stored alignment in a
    well-formed state): when `AppendColumns` accepts its arguments every row is observed as
    before followed by exactly the supplied letters (default quality for an alignment without
    qualities), same start, end moved by the number of columns, same name / strand / kind -/
theorem append_columns_on_observations (cx : Ctx) (h : Cells) (a : Aln) (hwf : ObjWF h (.aln a))
    (rows : Nat) (hr : a.rows? = some rows) (colsIn : List (List QL)) (h' : Cells) (a' : Aln)
    (happ : a.appendColumns cx h rows colsIn = some (h', a')) :
    Laws.AppendColsSpec (viewObj cx h (.aln a)) (viewObj cx h' (.aln a')) colsIn := by
  obtain ⟨_, n, hc, _⟩ := hwf
  exact model_appendCols_aln cx h a n hc rows hr colsIn h' a' happ

end Biogo.Properties.C07
