/-
C17 — the loops the driver runs over the implementation's 256-entry answers
(`Drive.C17.naStatement` for `NewAlphabet`, `npStatement` for `NewPairing`, `avFirst` for
`AllValid`) are the ∀-statements of the property.
-/
import Biogo.Drive.C17

namespace Biogo.Properties.C17_checker
open Biogo.Alphabet Biogo.Drive.C17

theorem firstBad_none_iff (p : Nat → Bool) : firstBad p = none ↔ ∀ l < 256, p l = true := by
  unfold firstBad
  rw [List.find?_eq_none]
  simp only [List.mem_range, Bool.not_eq_true', Bool.not_eq_false]

theorem lB (a : Int) (b : Bool) : (decide (a < 0) == !b) = true ↔ (a < 0 ↔ b = false) := by
  cases b <;> simp

theorem lC (ox : Option UInt8) (v : Nat → Bool) (ix : Nat → Int) (i : Nat) :
    ¬ (match ox with
       | some x => !(v x.toNat && ix x.toNat == (i : Int))
       | none => true) = true ↔ ∃ x, ox = some x ∧ v x.toNat = true ∧ ix x.toNat = (i : Int) := by
  cases ox <;> simp

theorem lD (b : Bool) (a : Int) (n : Nat) (ox : Option UInt8) (cased : Bool) (l : Nat) :
    (!b || (decide (0 ≤ a) && decide (a < (n : Int)) &&
      match ox with
      | some x => if cased then x.toNat == l else toLower x == toLower (UInt8.ofNat l)
      | none => false)) = true ↔
    (b = true → 0 ≤ a ∧ a < (n : Int) ∧
      ∃ x, ox = some x ∧ (if cased then x.toNat = l else toLower x = toLower (UInt8.ofNat l))) := by
  cases b <;> cases ox <;> cases cased <;> simp [and_assoc]

/-- **`NewAlphabet`, checker = statement**: no violation is reported for the parsed answers
    exactly when `Len()` is the length of the definition; for every one of the 256 letter values
    `IsValid` ⇔ the letter (in either case for a case-insensitive alphabet) is in the definition and
    `IndexOf < 0` ⇔ invalid; `IndexOf (Letter i) = i` with `Letter i` valid for every `i < Len`;
    and `Letter (IndexOf l)` is `l` (up to case when case-insensitive) with `0 ≤ IndexOf l < Len`
    for every valid `l`. -/
theorem naStatement_none_iff (cased : Bool) (ls : List UInt8) (len : Nat) (valid : Array Bool)
    (idx : Array Int) (letters : Array UInt8) :
    naStatement cased ls len valid idx letters = none ↔
      idx.size = 256 ∧ len = ls.length ∧
      (∀ l < 256, valid.getD l false = inDefinition cased ls (UInt8.ofNat l)) ∧
      (∀ l < 256, (idx.getD l (-1) < 0 ↔ valid.getD l false = false)) ∧
      (∀ i < len, ∃ x, letters[i]? = some x ∧ valid.getD x.toNat false = true ∧
        idx.getD x.toNat (-1) = (i : Int)) ∧
      (∀ l < 256, valid.getD l false = true →
        0 ≤ idx.getD l (-1) ∧ idx.getD l (-1) < len ∧
        ∃ x, letters[(idx.getD l (-1)).toNat]? = some x ∧
          (if cased then x.toNat = l else toLower x = toLower (UInt8.ofNat l))) := by
  unfold naStatement
  simp only []
  by_cases h1' : ¬ idx.size = 256
  · simp [h1']
  have h1 : idx.size = 256 := Classical.not_not.mp h1'
  by_cases h2' : ¬ len = ls.length
  · simp [h1, h2']
  have h2 : len = ls.length := Classical.not_not.mp h2'
  subst h2
  simp only [h1, ne_eq, not_true_eq_false, if_false, true_and]
  cases hA : firstBad (fun l => valid.getD l false == inDefinition cased ls (UInt8.ofNat l)) with
  | some l =>
    simp only [reduceCtorEq, false_iff]
    intro h
    have := (firstBad_none_iff _).mpr (fun l hl => beq_iff_eq.mpr (h.1 l hl))
    rw [hA] at this; cases this
  | none =>
    have hA' := (firstBad_none_iff _).mp hA
    simp only []
    cases hB : firstBad (fun l => decide (idx.getD l (-1) < 0) == !valid.getD l false) with
    | some l =>
      simp only [reduceCtorEq, false_iff]
      intro h
      have := (firstBad_none_iff _).mpr (fun l hl => (lB _ _).mpr (h.2.1 l hl))
      rw [hB] at this; cases this
    | none =>
      have hB' := (firstBad_none_iff _).mp hB
      simp only []
      cases hC : (List.range ls.length).find? (fun i =>
          match letters[i]? with
          | some x => !(valid.getD x.toNat false && idx.getD x.toNat (-1) == (i : Int))
          | none => true) with
      | some i =>
        simp only [reduceCtorEq, false_iff]
        intro h
        have hmem := List.mem_of_find?_eq_some hC
        have hp := List.find?_some hC
        rw [List.mem_range] at hmem
        exact (lC _ (fun n => valid.getD n false) (fun n => idx.getD n (-1)) i).mpr (h.2.2.1 i hmem) hp
      | none =>
        rw [List.find?_eq_none] at hC
        simp only []
        cases hD : firstBad (fun l => !valid.getD l false ||
            (decide (0 ≤ idx.getD l (-1)) && decide (idx.getD l (-1) < (ls.length : Int)) &&
             match letters[(idx.getD l (-1)).toNat]? with
             | some x => if cased then x.toNat == l else toLower x == toLower (UInt8.ofNat l)
             | none => false)) with
        | some l =>
          simp only [reduceCtorEq, false_iff]
          intro h
          have := (firstBad_none_iff _).mpr (fun l hl => (lD _ _ _ _ cased l).mpr (h.2.2.2 l hl))
          rw [hD] at this; cases this
        | none =>
          have hD' := (firstBad_none_iff _).mp hD
          simp only [true_iff]
          refine ⟨fun l hl => beq_iff_eq.mp (hA' l hl), fun l hl => (lB _ _).mp (hB' l hl), ?_, ?_⟩
          · intro i hi
            exact (lC _ (fun n => valid.getD n false) (fun n => idx.getD n (-1)) i).mp
              (hC i (List.mem_range.mpr hi))
          · intro l hl
            exact (lD _ _ _ _ cased l).mp (hD' l hl)

/-- **`NewPairing`, checker = statement**: no violation is reported for the parsed answers exactly
    when, for every one of the 256 letter values, the complement of the complement is the letter
    (`complement_involutive`) and the table entry is the method's result with the high bit set
    exactly when `ok` is false (`table_agrees_method`). -/
theorem npStatement_none_iff (pair : Array UInt8) (okb : Array Bool) (comp : Array UInt8) :
    npStatement pair okb comp = none ↔
      pair.size = 256 ∧ comp.size = 256 ∧
      (∀ l < 256, (pair.getD (pair.getD l 0).toNat 0).toNat = l) ∧
      (∀ l < 256, comp.getD l 0 = if okb.getD l false then pair.getD l 0 else pair.getD l 0 ||| 128) := by
  unfold npStatement
  by_cases h1 : pair.size = 256
  · by_cases h2 : comp.size = 256
    · simp only [h1, h2, ne_eq, not_true_eq_false, decide_false, Bool.or_self, Bool.false_eq_true,
        if_false, true_and]
      cases hA : firstBad (fun l => (pair.getD (pair.getD l 0).toNat 0).toNat == l) with
      | some l =>
        simp only [reduceCtorEq, false_iff]
        intro h
        have := (firstBad_none_iff _).mpr (fun l hl => beq_iff_eq.mpr (h.1 l hl))
        rw [hA] at this; cases this
      | none =>
        have hA' := (firstBad_none_iff _).mp hA
        simp only []
        cases hB : firstBad (fun l =>
            comp.getD l 0 == (if okb.getD l false then pair.getD l 0 else pair.getD l 0 ||| 128)) with
        | some l =>
          simp only [reduceCtorEq, false_iff]
          intro h
          have := (firstBad_none_iff _).mpr (fun l hl => beq_iff_eq.mpr (h.2 l hl))
          rw [hB] at this; cases this
        | none =>
          have hB' := (firstBad_none_iff _).mp hB
          simp only [true_iff]
          exact ⟨fun l hl => beq_iff_eq.mp (hA' l hl), fun l hl => beq_iff_eq.mp (hB' l hl)⟩
    · simp [h1, h2]
  · simp [h1]

/-- **`AllValid`, what is demanded**: `avFirst d ls = some p` exactly when position `p` is inside
    the slice, its letter is not in the definition and every earlier letter is; `= none` exactly
    when every letter is in the definition — the shape of `allValid_first_invalid` -/
theorem avFirst_spec (d : Def) (ls : List UInt8) :
    (∀ p, avFirst d ls = some p ↔
      ∃ h : p < ls.length, inDef d ls[p] = false ∧ ∀ m (hm : m < p), inDef d (ls[m]'(by omega)) = true) ∧
    (avFirst d ls = none ↔ ∀ l ∈ ls, inDef d l = true) := by
  unfold avFirst
  constructor
  · intro p
    rw [List.findIdx?_eq_some_iff_getElem]
    constructor
    · rintro ⟨h, h1, h2⟩
      refine ⟨h, by simpa using h1, fun m hm => ?_⟩
      have := h2 m hm
      simpa using this
    · rintro ⟨h, h1, h2⟩
      refine ⟨h, by simpa using h1, fun m hm => ?_⟩
      have := h2 m hm
      simpa using this
  · rw [List.findIdx?_eq_none_iff]
    constructor
    · intro h l hl; simpa using h l hl
    · intro h l hl; simpa using h l hl

end Biogo.Properties.C17_checker
