/-
C07 — checker soundness.  The C07 driver answers `fail` exactly when `checkC07` (Drive/C07.lean:
the executable laws of Spec/ContLaws.lean evaluated on the implementation's observations)
returns a complaint.  The theorem `c07_verdict_sound` says what the absence of a complaint
means, in declarative terms: every sentence of the property holds of the observations of the
implementation, at every step of the history.  So the executable laws are no longer trusted to
*be* the property's sentences: that is proved here.
-/
import Biogo.Drive.C07
import Biogo.Proofs.ContLawsSound

namespace Biogo.Properties.C07_laws
open Biogo.Containers Biogo.Containers.Laws Biogo.Drive.C07

/-- the caller's buffers after the first `t` operations of a history -/
def bufsAfter (bufs : List (List QL)) (ops : List Op) : List (List QL) := ops.foldl stepBufs bufs

/-- what one step `before --op--> after` of a C07 history must satisfy, declaratively
    (`bufs`: the caller's buffers as the history has left them, this step included) -/
def StepSpec (hist : History) (bufs : List (List QL)) (op : Op) (before after : Snap) : Prop :=
  match op with
  | .mkbuf _ _ => after.1 = "ok" ∧ FrameSpec before.2 after.2 none
  | .mutbuf _ _ _ =>
    -- append_no_retain / clone_deep: a write to a caller buffer changes no object
    after.1 = "ok" ∧ FrameSpec before.2 after.2 none ∧ after.2.length = before.2.length
  | .appendCols k bs =>
    FrameSpec before.2 after.2 (some k) ∧ ∃ b a, before.2[k]? = some b ∧ after.2[k]? = some a ∧
      ((∀ i ∈ bs, i < bufs.length) → (∀ i ∈ bs, (bufs.getD i []).length = b.nrows) → b.nrows > 0 →
        after.1 = "ok" ∧ AppendColsSpec b a (bs.map fun i => bufs.getD i []))
  | .appendEach k bs =>
    FrameSpec before.2 after.2 (some k) ∧ ∃ b a, before.2[k]? = some b ∧ after.2[k]? = some a ∧
      ((∀ i ∈ bs, i < bufs.length) → bs.length = b.nrows → b.nrows > 0 →
        after.1 = "ok" ∧ AppendEachSpec hist.cx.gap b a (bs.map fun i => bufs.getD i []))
  | .add k _ => FrameSpec before.2 after.2 (some k)
  | .delete k i =>
    after.1 = "ok" ∧ FrameSpec before.2 after.2 (some k) ∧
      ∃ b a, before.2[k]? = some b ∧ after.2[k]? = some a ∧ DeleteSpec b a i
  | .flush k wh fill =>
    after.1 = "ok" ∧ FrameSpec before.2 after.2 (some k) ∧
      ∃ b a, before.2[k]? = some b ∧ after.2[k]? = some a ∧ FlushSpec b a wh fill
  | .truncate k st en =>
    FrameSpec before.2 after.2 (some k) ∧ ∃ b a, before.2[k]? = some b ∧ after.2[k]? = some a ∧
      (st ≤ en → (∀ r ∈ b.rows, r.start ≤ st ∧ en ≤ r.«end») → after.1 = "ok" ∧ RangeSpec b a st en)
  | .subseq k st en =>
    FrameSpec before.2 after.2 none ∧ ∃ b, before.2[k]? = some b ∧
      (st ≤ en → (∀ r ∈ b.rows, r.start ≤ st ∧ en ≤ r.«end») →
        after.1 = "ok" ∧ after.2.length = before.2.length + 1 ∧
        ∃ a, after.2[before.2.length]? = some a ∧ RangeSpec b a st en)
  | .clone k =>
    after.1 = "ok" ∧ FrameSpec before.2 after.2 none ∧ after.2.length = before.2.length + 1 ∧
      ∃ b, before.2[k]? = some b ∧ after.2[before.2.length]? = some b
  | .set k r pos c =>
    after.1 = "ok" ∧ FrameSpec before.2 after.2 (some k) ∧
      ∃ b a, before.2[k]? = some b ∧ after.2[k]? = some a ∧ SetSpec b a r pos c
  | _ => False

theorem all_lt {bs : List Nat} {n : Nat} (h : ∀ i ∈ bs, i < n) : bs.all (· < n) = true := by
  rw [List.all_eq_true]; intro i hi; simpa using h i hi

theorem stepLaw_sound (hist : History) (bufs : List (List QL)) (op : Op) (before after : Snap)
    (h : stepLaw hist bufs op before after = none) : StepSpec hist bufs op before after := by
  cases op with
  | mkbuf cells extra =>
    simp only [stepLaw, and_none, check_none, beq_iff_eq] at h
    exact ⟨h.1, lawFrame_sound _ _ _ h.2⟩
  | mutbuf b i c =>
    simp only [stepLaw, and_none, check_none, beq_iff_eq] at h
    exact ⟨h.1, lawFrame_sound _ _ _ h.2.1, h.2.2⟩
  | appendCols k bs =>
    simp only [stepLaw, and_none] at h
    obtain ⟨h1, h2⟩ := h
    refine ⟨lawFrame_sound _ _ _ h1, ?_⟩
    cases hb : before.2[k]? with
    | none => rw [hb] at h2; simp at h2
    | some b =>
      cases ha : after.2[k]? with
      | none => rw [hb, ha] at h2; simp at h2
      | some a =>
        rw [hb, ha] at h2
        refine ⟨b, a, rfl, rfl, ?_⟩
        intro g1 g2 g3
        have hg : (bs.all (· < bufs.length) && (bs.map fun i => bufs.getD i []).all (·.length == b.nrows)
            && decide (b.nrows > 0)) = true := by
          simp only [Bool.and_eq_true, decide_eq_true_eq]
          refine ⟨⟨all_lt g1, ?_⟩, g3⟩
          rw [List.all_eq_true]
          intro x hx
          obtain ⟨i, hi, rfl⟩ := List.mem_map.mp hx
          simpa using g2 i hi
        dsimp only at h2
        rw [if_pos hg] at h2
        simp only [and_none, check_none, beq_iff_eq] at h2
        exact ⟨h2.1, lawAppendCols_sound _ _ _ h2.2⟩
  | appendEach k bs =>
    simp only [stepLaw, and_none] at h
    obtain ⟨h1, h2⟩ := h
    refine ⟨lawFrame_sound _ _ _ h1, ?_⟩
    cases hb : before.2[k]? with
    | none => rw [hb] at h2; simp at h2
    | some b =>
      cases ha : after.2[k]? with
      | none => rw [hb, ha] at h2; simp at h2
      | some a =>
        rw [hb, ha] at h2
        refine ⟨b, a, rfl, rfl, ?_⟩
        intro g1 g2 g3
        have hg : (bs.all (· < bufs.length) && (bs.map fun i => bufs.getD i []).length == b.nrows
            && decide (b.nrows > 0)) = true := by
          simp only [Bool.and_eq_true, decide_eq_true_eq, beq_iff_eq, List.length_map]
          exact ⟨⟨all_lt g1, g2⟩, g3⟩
        dsimp only at h2
        rw [if_pos hg] at h2
        simp only [and_none, check_none, beq_iff_eq] at h2
        exact ⟨h2.1, lawAppendEach_sound _ _ _ _ h2.2⟩
  | add k seqs =>
    simp only [stepLaw] at h
    exact lawFrame_sound _ _ _ h
  | delete k i =>
    simp only [stepLaw, and_none, check_none, beq_iff_eq] at h
    obtain ⟨h0, h1, h2⟩ := h
    refine ⟨h0, lawFrame_sound _ _ _ h1, ?_⟩
    cases hb : before.2[k]? with
    | none => rw [hb] at h2; simp at h2
    | some b =>
      cases ha : after.2[k]? with
      | none => rw [hb, ha] at h2; simp at h2
      | some a => rw [hb, ha] at h2; exact ⟨b, a, rfl, rfl, lawDelete_sound _ _ _ h2⟩
  | flush k wh fill =>
    simp only [stepLaw, and_none, check_none, beq_iff_eq] at h
    obtain ⟨h0, h1, h2⟩ := h
    refine ⟨h0, lawFrame_sound _ _ _ h1, ?_⟩
    cases hb : before.2[k]? with
    | none => rw [hb] at h2; simp at h2
    | some b =>
      cases ha : after.2[k]? with
      | none => rw [hb, ha] at h2; simp at h2
      | some a => rw [hb, ha] at h2; exact ⟨b, a, rfl, rfl, lawFlush_sound _ _ _ _ h2⟩
  | truncate k st en =>
    simp only [stepLaw, and_none] at h
    obtain ⟨h1, h2⟩ := h
    refine ⟨lawFrame_sound _ _ _ h1, ?_⟩
    cases hb : before.2[k]? with
    | none => rw [hb] at h2; simp at h2
    | some b =>
      cases ha : after.2[k]? with
      | none => rw [hb, ha] at h2; simp at h2
      | some a =>
        rw [hb, ha] at h2
        refine ⟨b, a, rfl, rfl, ?_⟩
        intro g1 g2
        have hg : allCover b st en = true := by
          simp only [allCover, Bool.and_eq_true, decide_eq_true_eq, List.all_eq_true]
          exact ⟨g1, g2⟩
        dsimp only at h2
        rw [if_pos hg] at h2
        simp only [and_none, check_none, beq_iff_eq] at h2
        exact ⟨h2.1, lawRange_sound _ _ _ _ h2.2⟩
  | subseq k st en =>
    simp only [stepLaw, and_none] at h
    obtain ⟨h1, h2⟩ := h
    refine ⟨lawFrame_sound _ _ _ h1, ?_⟩
    cases hb : before.2[k]? with
    | none => rw [hb] at h2; simp at h2
    | some b =>
      rw [hb] at h2
      refine ⟨b, rfl, ?_⟩
      intro g1 g2
      have hg : allCover b st en = true := by
        simp only [allCover, Bool.and_eq_true, decide_eq_true_eq, List.all_eq_true]
        exact ⟨g1, g2⟩
      dsimp only at h2
      rw [if_pos hg] at h2
      simp only [and_none, check_none, beq_iff_eq] at h2
      obtain ⟨c1, c2, c3⟩ := h2
      refine ⟨c1, c2, ?_⟩
      cases ha : after.2[before.2.length]? with
      | none => rw [ha] at c3; simp at c3
      | some a => rw [ha] at c3; exact ⟨a, rfl, lawRange_sound _ _ _ _ c3⟩
  | clone k =>
    simp only [stepLaw, and_none, check_none, beq_iff_eq, Bool.and_eq_true] at h
    obtain ⟨h0, h1, h2, h3, h4⟩ := h
    refine ⟨h0, lawFrame_sound _ _ _ h1, h2, ?_⟩
    cases hb : before.2[k]? with
    | none => rw [hb] at h4; simp at h4
    | some b => exact ⟨b, rfl, by rw [h3, hb]⟩
  | set k r pos c =>
    simp only [stepLaw, and_none, check_none, beq_iff_eq] at h
    obtain ⟨h0, h1, h2⟩ := h
    refine ⟨h0, lawFrame_sound _ _ _ h1, ?_⟩
    cases hb : before.2[k]? with
    | none => rw [hb] at h2; simp at h2
    | some b =>
      cases ha : after.2[k]? with
      | none => rw [hb, ha] at h2; simp at h2
      | some a => rw [hb, ha] at h2; exact ⟨b, a, rfl, rfl, lawSet_sound _ _ _ _ _ h2⟩
  | revComp k => simp [stepLaw] at h
  | reverse k => simp [stepLaw] at h
  | rowRevComp k r => simp [stepLaw] at h
  | rowReverse k r => simp [stepLaw] at h

/-- what every single observation must satisfy: row_eq_column and, for the case-insensitive
    alphabets, unanimous_consensus -/
def SnapSpec (hist : History) (s : Snap) : Prop :=
  ∀ o ∈ s.2, RowEqColumnSpec hist.cx.gap hist.cx.amb o ∧
    (hist.cx.alpha.cased = false → ConsensusSpec hist.cx.alpha.valid o)

theorem snapLaw_sound (hist : History) (s : Snap) (h : snapLaw hist s = none) : SnapSpec hist s := by
  intro o ho
  obtain ⟨j, hj⟩ := List.getElem?_of_mem ho
  have hjl : j < s.2.length := (List.getElem?_eq_some_iff.mp hj).1
  simp only [snapLaw, allIdx_none] at h
  have := h j hjl
  rw [hj] at this
  simp only [and_none] at this
  refine ⟨lawRowEqColumn_sound _ _ _ this.1, ?_⟩
  intro hc
  have h2 := this.2
  rw [hc] at h2
  exact lawConsensus_sound _ _ h2

theorem checkSteps_sound (hist : History) : ∀ (ops : List Op) (bufs : List (List QL)) (snaps : List Snap),
    checkSteps hist ops bufs snaps = none →
    snaps.length = ops.length + 1 ∧
    ∀ (t : Nat) (op : Op) (before after : Snap), ops[t]? = some op → snaps[t]? = some before →
      snaps[t + 1]? = some after →
      StepSpec hist (bufsAfter bufs (ops.take (t + 1))) op before after ∧ SnapSpec hist after := by
  intro ops
  induction ops with
  | nil =>
    intro bufs snaps h
    match snaps, h with
    | [_], _ => exact ⟨rfl, fun t op _ _ ht => by simp at ht⟩
    | [], h => simp [checkSteps] at h
    | _ :: _ :: _, h => simp [checkSteps] at h
  | cons op ops ih =>
    intro bufs snaps h
    match snaps, h with
    | [], h => simp [checkSteps] at h
    | [_], h => simp [checkSteps] at h
    | before :: after :: rest, h =>
      simp only [checkSteps, and_none] at h
      obtain ⟨h1, h2, h3⟩ := h
      obtain ⟨hl, hrest⟩ := ih (stepBufs bufs op) (after :: rest) h3
      refine ⟨by simp only [List.length_cons] at hl ⊢; omega, ?_⟩
      intro t op' b' a' hop hb ha
      cases t with
      | zero =>
        simp only [List.getElem?_cons_zero, Option.some.injEq] at hop hb
        simp only [Nat.zero_add, List.getElem?_cons_succ, List.getElem?_cons_zero, Option.some.injEq] at ha
        subst hop; subst hb; subst ha
        exact ⟨stepLaw_sound hist _ _ _ _ h1, snapLaw_sound hist _ h2⟩
      | succ t =>
        simp only [List.getElem?_cons_succ] at hop hb ha
        have := hrest t op' b' a' hop hb ha
        simpa [bufsAfter] using this

/-- **checker soundness (C07).**  If the driver's check of the implementation's observations
    `impl` (one snapshot after construction and one after every operation) raises no complaint,
    then: there is one snapshot per operation; every object of every snapshot satisfies
    row_eq_column and unanimous_consensus; and every step `impl[t] --ops[t]--> impl[t+1]`
    satisfies the declarative statement of its operation (`StepSpec`: append_exact,
    append_no_retain and clone_deep as frame statements, delete_exact, flush_preserves,
    subseq_truncate_exact, the effect of `Set`). -/
theorem c07_verdict_sound (hist : History) (impl : List Snap) (h : checkC07 hist impl = none) :
    impl.length = hist.ops.length + 1 ∧
    (∀ s ∈ impl, SnapSpec hist s) ∧
    ∀ (t : Nat) (op : Op) (before after : Snap), hist.ops[t]? = some op → impl[t]? = some before →
      impl[t + 1]? = some after →
      StepSpec hist (bufsAfter [] (hist.ops.take (t + 1))) op before after := by
  match impl, h with
  | [], h => simp [checkC07] at h
  | s0 :: rest, h =>
    simp only [checkC07, and_none] at h
    obtain ⟨h0, h1⟩ := h
    obtain ⟨hl, hsteps⟩ := checkSteps_sound hist hist.ops [] (s0 :: rest) h1
    refine ⟨hl, ?_, fun t op b a hop hb ha => (hsteps t op b a hop hb ha).1⟩
    intro s hs
    obtain ⟨j, hj⟩ := List.getElem?_of_mem hs
    cases j with
    | zero =>
      simp only [List.getElem?_cons_zero, Option.some.injEq] at hj
      subst hj; exact snapLaw_sound hist _ h0
    | succ j =>
      have hjl : j + 1 < (s0 :: rest).length := (List.getElem?_eq_some_iff.mp hj).1
      have hjo : j < hist.ops.length := by rw [hl] at hjl; omega
      have hbl : j < (s0 :: rest).length := by omega
      exact (hsteps j hist.ops[j] (s0 :: rest)[j] s (List.getElem?_eq_getElem hjo)
        (List.getElem?_eq_getElem hbl) hj).2

/-- **the verdict**: when the driver answers `ok` or `diff` for a case line, the input parsed to
    a history, the implementation's observation parsed to snapshots, and `checkC07` raised no
    complaint about them — so `c07_verdict_sound` applies to the implementation's observations
    (`fail` is answered exactly when a law complains or the implementation panicked or hung;
    `skip` when the model itself panics, i.e. the history leaves the domain of the property) -/
theorem verdict_means_checked (inp obs : String)
    (h : (handleLine inp obs).status = "ok" ∨ (handleLine inp obs).status = "diff") :
    ∃ hist impl, parseHistory Biogo.Generated.builtins (Biogo.Wire.tokens inp) = some hist ∧
      parseSnapshots obs = some impl ∧ checkC07 hist impl = none := by
  unfold handleLine at h
  split at h
  · simp [Biogo.Wire.bad] at h
  · rename_i hist hh
    dsimp only at h
    split at h
    · simp at h
    · split at h
      · simp [Biogo.Wire.fail] at h
      · split at h
        · simp [Biogo.Wire.bad] at h
        · rename_i impl hi
          split at h
          · simp [Biogo.Wire.fail] at h
          · rename_i hc
            exact ⟨hist, impl, hh, hi, hc⟩

end Biogo.Properties.C07_laws
