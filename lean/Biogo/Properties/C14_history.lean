/-
C14 — usage histories.  PALS scans both strands (and callers scan many queries) with ONE
`*filter.Filter`; the property is per scan.  `Biogo.Filter.filterFrom` is `Filter` as a function of
the state the previous call left in the `*Filter` (`FState`: the tube list `f.tubes`; every other
field a scan reads is constant since `New` or assigned at the head of `Filter` — regenerated fact
`perCallFields`).  For the code as it is (`f.tubes` re-made before every scan and reset to nil
after it: `Rule.remakeTubes`, regenerated from the source) the result of a scan does not depend on
the history, so `filter_complete` holds of every scan of every history.  Property theorems only.
-/
import Biogo.Properties.C14

namespace Biogo.Properties.C14_history
open Biogo.Filter Biogo.Spec.Filter Biogo.Spec.Kmer Biogo.Proofs.Kmer Biogo.Proofs.FilterComplete
open Biogo.Properties.C14 (rule_tie dna)

/-- the source re-makes the tube list at the start of every scan and resets it at the end
    (`f.tubes = make([]tubeState, maxActiveTubes)` before the scan, `f.tubes = nil` after the flush),
    and the per-call fields are the ones the model treats as per-call — regenerated from
    `align/pals/filter/filter.go` on every run; fails to build otherwise -/
theorem history_source_facts :
    Biogo.Generated.FilterFacts.rule.remakeTubes = true ∧
    Biogo.Generated.FilterFacts.perCallFields =
      ["selfAlign", "complement", "morass", "k", "minKmersPerHit", "maxKmerDist"] ∧
    Biogo.Generated.FilterFacts.otherFieldWrites = ["tubes", "tubes"] := by
  decide

/-- **a scan does not see the previous one**: with the tube list re-made on every call, `Filter` on
    a `*Filter` in any state `prev` returns what `Filter` returns on a new one (`filter`, the function
    of `filter_complete`), errors included -/
theorem scan_independent_of_state (rule : Rule) (h : rule.remakeTubes = true) (lk : Lookup)
    (ix : Biogo.Kmer.Index) (p : Params) (prev : FState) (q : List UInt8) (selfAlign complement : Bool) :
    (filterFrom rule lk ix p prev q selfAlign complement).1 = filter rule lk ix p q selfAlign complement := by
  unfold filterFrom filter
  by_cases h1 : p.tubeOffset < p.maxError
  · rw [if_pos h1, if_pos h1]
  · rw [if_neg h1, if_neg h1]
    by_cases h2 : p.tubeOffset = 0
    · rw [if_pos h2, if_pos h2]
    · rw [if_neg h2, if_neg h2]
      simp only [h, if_true]
      cases (scanFrom rule lk ix p q selfAlign complement
        (Array.replicate (mkCfg rule ix.k ix.seq.length p selfAlign complement).cap default)).1 <;> rfl

/-- a scan that returns its hits leaves `f.tubes = nil`: the state of a new `*Filter` -/
theorem scan_resets_state (rule : Rule) (h : rule.remakeTubes = true) (lk : Lookup)
    (ix : Biogo.Kmer.Index) (p : Params) (prev : FState) (q : List UInt8) (selfAlign complement : Bool)
    (hits : List Biogo.Filter.Hit) (hok : (filterFrom rule lk ix p prev q selfAlign complement).1 = .ok hits) :
    (filterFrom rule lk ix p prev q selfAlign complement).2.tubes = #[] := by
  unfold filterFrom at hok ⊢
  by_cases h1 : p.tubeOffset < p.maxError
  · rw [if_pos h1] at hok; cases hok
  · rw [if_neg h1] at hok ⊢
    by_cases h2 : p.tubeOffset = 0
    · rw [if_pos h2] at hok; cases hok
    · rw [if_neg h2] at hok ⊢
      simp only [h, if_true] at hok ⊢
      cases hr : (scanFrom rule lk ix p q selfAlign complement
        (Array.replicate (mkCfg rule ix.k ix.seq.length p selfAlign complement).cap default)).1 with
      | error e => rw [hr] at hok; cases hok
      | ok hs => rfl

/-- **every scan of every history**: after any list of earlier calls (any queries, any flags,
    failed or not) on one `*Filter`, the next call returns what a new `*Filter` returns -/
theorem scan_independent_of_history (rule : Rule) (h : rule.remakeTubes = true) (lk : Lookup)
    (ix : Biogo.Kmer.Index) (p : Params) (calls : List (List UInt8 × Bool × Bool)) (q : List UInt8)
    (selfAlign complement : Bool) :
    (filterFrom rule lk ix p (afterHistory rule lk ix p calls) q selfAlign complement).1 =
      filter rule lk ix p q selfAlign complement :=
  scan_independent_of_state rule h lk ix p _ q selfAlign complement

/-- **C14 for every scan of every usage history** (the model of the code as it is, rule regenerated
    from the source): whatever was scanned before with the same `*Filter`, whenever a scan returns
    its hits, every ε-match required on its strand is covered — `filter_complete` /
    `filter_complete_complement` transported along `scan_independent_of_history`. -/
theorem filter_complete_history {lk : Lookup} (hlk : FourLetter lk) (t : List UInt8) (k n e off : Nat)
    (hk : Biogo.Kmer.minKmerLen ≤ k) (hk' : k ≤ Biogo.Kmer.maxKmerLen) (ht : k + 1 ≤ t.length)
    (hthr : 0 < minWordsPerFilterHit n k e) (he : e ≤ off) (hoff : 1 ≤ off)
    (calls : List (List UInt8 × Bool × Bool)) (q : List UInt8) (selfAlign complement : Bool) :
    ∀ hits, (filterFrom Biogo.Generated.FilterFacts.rule lk (builtIndex lk k t)
        { minMatch := n, maxError := e, tubeOffset := off }
        (afterHistory Biogo.Generated.FilterFacts.rule lk (builtIndex lk k t)
          { minMatch := n, maxError := e, tubeOffset := off } calls) q selfAlign complement).1 = .ok hits →
      ∀ a b, EpsMatch lk t q n e a b → requiredC selfAlign complement t.length a b = true →
        Covered (hits.map toSpec) (off + e) n a b := by
  intro hits hf
  rw [scan_independent_of_history _ history_source_facts.1] at hf
  exact Biogo.Properties.C14.filter_complete_strand hlk t q k n e off selfAlign complement hk hk' ht hthr he hoff hits hf

/-! ### the tube list must be re-made: refutation for the variant that keeps it -/

/-- the repaired rule, but the tube list allocated once and kept between scans -/
def keepTubes : Rule :=
  { retireSubMaxError := true, flushFromLastTick := true, tickByPosition := true, remakeTubes := false }

/-- does the scan of `q` that follows a scan of `w` on the same `*Filter` leave the match at `(a, b)`
    uncovered? -/
def missesAfter (rule : Rule) (k n e off : Nat) (t w q : List UInt8) (a b : Nat) : Bool :=
  let ix := builtIndex dna k t
  let p : Params := { minMatch := n, maxError := e, tubeOffset := off }
  match (filterFrom rule dna ix p (filterFrom rule dna ix p FState.new w false false).2 q false false).1 with
  | .ok hits => !(hits.any fun h => covers (off + e) n (toSpec h) a b)
  | .error _ => false

/-- `history_dependent_if_tubes_kept`: with the tube list kept between scans the second scan
    depends on the first — `k=4 n=5 e=0 off=2`, target `caccac`; after a scan of `caaccacacc` the scan
    of `accaccaaac` no longer covers the exact match at `a=1 b=0` (a sub-threshold run left in the
    slot by the first scan is extended: the hit gets a stale `From`); on a new `*Filter`, and under the
    rule of the source after the same first scan, it is covered. -/
theorem history_dependent_if_tubes_kept :
    EpsMatch dna [99, 97, 99, 99, 97, 99] [97, 99, 99, 97, 99, 99, 97, 97, 97, 99] 5 0 1 0 ∧
    missesAfter keepTubes 4 5 0 2 [99, 97, 99, 99, 97, 99] [99, 97, 97, 99, 99, 97, 99, 97, 99, 99]
      [97, 99, 99, 97, 99, 99, 97, 97, 97, 99] 1 0 = true ∧
    missesAfter repaired 4 5 0 2 [99, 97, 99, 99, 97, 99] [99, 97, 97, 99, 99, 97, 99, 97, 99, 99]
      [97, 99, 99, 97, 99, 99, 97, 97, 97, 99] 1 0 = false ∧
    Biogo.Properties.C14.misses keepTubes 4 5 0 2 [99, 97, 99, 99, 97, 99] [97, 99, 99, 97, 99, 99, 97, 97, 97, 99] 1 0 = false := by
  decide +kernel

end Biogo.Properties.C14_history
