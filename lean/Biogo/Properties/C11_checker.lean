/-
C11 — the executable statement the driver evaluates on the implementation's outputs
(`Drive.C11.checkCycle` / `checkHistory`) is sound and complete for the declarative statement
of `history_sorted_multiset` (`HistorySpec`: the outputs of every cycle are `specCycle ac ys cy`
for some non-decreasing permutation `ys` of the values pushed in that cycle).
-/
import Biogo.Drive.C11
import Biogo.Proofs.Morass
import Biogo.Properties.C11

namespace Biogo.Properties.C11_checker
open Biogo.Morass Biogo.Drive.C11

theorem firstViolation_none (l : List (Bool × String)) :
    firstViolation l = none ↔ ∀ x ∈ l, x.1 = false := by
  induction l with
  | nil => simp [firstViolation]
  | cons x xs ih =>
    obtain ⟨c, m⟩ := x
    simp only [firstViolation, List.mem_cons, forall_eq_or_imp]
    cases c <;> simp [ih]

/-- the facts a cycle's outputs satisfy when no clause is violated -/
structure Clauses (ac : Bool) (cy : Cycle) (outs : List Out) : Prop where
  c1 : outs.take cy.pushes.length =
        (List.range cy.pushes.length).map (fun i => (⟨.ok, none, i + 1, i + 1⟩ : Out))
  c2 : outs[cy.pushes.length]? = some ⟨.ok, none, cy.pushes.length, 0⟩
  c3 : nondecreasing ((((outs.drop (cy.pushes.length + 1)).take cy.pulls).filterMap (·.val)).map (·.key)) = true
  c5 : ∀ o ∈ ((outs.drop (cy.pushes.length + 1)).take cy.pulls).take cy.pushes.length,
        o.res = .ok ∧ o.val.isSome = true
  c6 : cy.pushes.length ≤ cy.pulls →
        (((outs.drop (cy.pushes.length + 1)).take cy.pulls).filterMap (·.val)).Perm cy.pushes
  c7 : ((((outs.drop (cy.pushes.length + 1)).take cy.pulls).filterMap (·.val)).foldl List.erase cy.pushes).length
        + (((outs.drop (cy.pushes.length + 1)).take cy.pulls).filterMap (·.val)).length = cy.pushes.length
  c8 : (((outs.drop (cy.pushes.length + 1)).take cy.pulls).filterMap (·.val)).map (·.key) =
        (sortKeys (cy.pushes.map (·.key))).take
          (((outs.drop (cy.pushes.length + 1)).take cy.pulls).filterMap (·.val)).length
  c9 : ∀ o ∈ ((outs.drop (cy.pushes.length + 1)).take cy.pulls).drop cy.pushes.length,
        o.res = .eof ∧ o.val = none
  c10 : ∀ j < cy.pulls, ∃ o, ((outs.drop (cy.pushes.length + 1)).take cy.pulls)[j]? = some o ∧
        (if j < cy.pushes.length then o.len = cy.pushes.length ∧ o.pos = j + 1
         else o.len = (if ac then 0 else cy.pushes.length) ∧ o.pos = (if ac then 0 else cy.pushes.length))
  c11 : cy.clear = true → outs[cy.pushes.length + 1 + cy.pulls]? = some ⟨.ok, none, 0, 0⟩

theorem checkCycle_none_iff (ac : Bool) (cy : Cycle) (outs : List Out) :
    checkCycle ac cy outs = none ↔ Clauses ac cy outs := by
  unfold checkCycle cycleClauses
  rw [firstViolation_none]
  simp only [List.mem_cons, List.not_mem_nil, or_false, forall_eq_or_imp, forall_eq]
  constructor
  · rintro ⟨h1, h2, h3, h4, h5, h6, h7, h8, h9, h10, h11⟩
    refine ⟨by simpa using h1, by simpa using h2, by simpa using h3, ?_, ?_, by simpa using h7,
      by simpa using h8, ?_, ?_, ?_⟩
    · intro o ho
      rw [List.any_eq_false] at h5
      have := h5 o ho
      simp only [Bool.or_eq_true, bne_iff_ne, ne_eq, Option.isNone_iff_eq_none, not_or,
        Decidable.not_not] at this
      refine ⟨this.1, ?_⟩
      cases hv : o.val with
      | none => exact absurd hv this.2
      | some v => rfl
    · intro hle
      have : (decide (cy.pushes.length ≤ cy.pulls)) = true := by simpa using hle
      rw [this] at h6
      simp only [Bool.true_and, Bool.not_eq_false'] at h6
      exact List.isPerm_iff.mp h6
    · intro o ho
      rw [List.any_eq_false] at h9
      have := h9 o ho
      simp only [Bool.or_eq_true, bne_iff_ne, ne_eq, not_or, Decidable.not_not,
        Option.isSome_iff_ne_none] at this
      exact this
    · intro j hj
      rw [List.any_eq_false] at h10
      have := h10 j (List.mem_range.mpr hj)
      cases ho : ((outs.drop (cy.pushes.length + 1)).take cy.pulls)[j]? with
      | none => rw [ho] at this; simp at this
      | some o =>
        rw [ho] at this
        refine ⟨o, rfl, ?_⟩
        by_cases hjn : j < cy.pushes.length
        · simpa [hjn] using this
        · simpa [hjn] using this
    · intro hc
      rw [hc] at h11
      simpa using h11
  · intro h
    refine ⟨by simpa using h.c1, by simpa using h.c2, by simpa using h.c3, ?_, ?_, ?_,
      by simpa using h.c7, by simpa using h.c8, ?_, ?_, ?_⟩
    · rw [List.any_eq_false]
      intro o ho
      simp [(h.c5 o ho).1]
    · rw [List.any_eq_false]
      intro o ho
      have := h.c5 o ho
      cases hv : o.val with
      | none => rw [hv] at this; simp at this
      | some v => simp [this.1]
    · by_cases hle : cy.pushes.length ≤ cy.pulls
      · simp only [hle, decide_true, Bool.true_and, Bool.not_eq_false']
        exact List.isPerm_iff.mpr (h.c6 hle)
      · simp [hle]
    · rw [List.any_eq_false]
      intro o ho
      simp [(h.c9 o ho).1, (h.c9 o ho).2]
    · rw [List.any_eq_false]
      intro j hj
      obtain ⟨o, ho, hlp⟩ := h.c10 j (List.mem_range.mp hj)
      rw [ho]
      by_cases hjn : j < cy.pushes.length
      · simp only [hjn, if_true] at hlp ⊢
        simp [hlp.1, hlp.2]
      · simp only [hjn, if_false] at hlp ⊢
        simp [hlp.1, hlp.2]
    · cases hc : cy.clear with
      | false => simp
      | true => simp [h.c11 hc]

/-! ### list facts -/

theorem nondecreasing_pairwise : ∀ (l : List Int), nondecreasing l = true → l.Pairwise (· ≤ ·)
  | [], _ => List.Pairwise.nil
  | [_], _ => List.pairwise_singleton _ _
  | a :: b :: r, h => by
    simp only [nondecreasing, Bool.and_eq_true, decide_eq_true_eq] at h
    have ih := nondecreasing_pairwise (b :: r) h.2
    rw [List.pairwise_cons] at ih ⊢
    refine ⟨?_, List.pairwise_cons.mpr ih⟩
    intro x hx
    rw [List.mem_cons] at hx
    rcases hx with rfl | hx
    · exact h.1
    · exact Int.le_trans h.1 (ih.1 x hx)

theorem pairwise_nondecreasing : ∀ (l : List Int), l.Pairwise (· ≤ ·) → nondecreasing l = true
  | [], _ => rfl
  | [_], _ => rfl
  | a :: b :: r, h => by
    rw [List.pairwise_cons] at h
    simp only [nondecreasing, Bool.and_eq_true, decide_eq_true_eq]
    exact ⟨h.1 b List.mem_cons_self, pairwise_nondecreasing (b :: r) h.2⟩

theorem map_eq_filterMap_some {α β : Type} (f : α → Option β) :
    ∀ (L : List α), (∀ o ∈ L, (f o).isSome = true) → L.map f = (L.filterMap f).map some
  | [], _ => rfl
  | x :: xs, h => by
    have hx := h x List.mem_cons_self
    cases hfx : f x with
    | none => rw [hfx] at hx; cases hx
    | some v =>
      rw [List.map_cons, List.filterMap_cons_some hfx, List.map_cons, hfx,
        map_eq_filterMap_some f xs (fun o ho => h o (List.mem_cons_of_mem _ ho))]

theorem filterMap_none {α β : Type} (f : α → Option β) (L : List α) (h : ∀ o ∈ L, f o = none) :
    L.filterMap f = [] := by
  rw [List.filterMap_eq_nil_iff]; exact h

theorem foldl_erase_length (vs : List Elem) : ∀ (xs : List Elem),
    xs.length ≤ (vs.foldl List.erase xs).length + vs.length := by
  induction vs with
  | nil => intro xs; simp
  | cons v vs ih =>
    intro xs
    rw [List.foldl_cons, List.length_cons]
    have := ih (xs.erase v)
    have h2 : xs.length ≤ (xs.erase v).length + 1 := by
      rw [List.length_erase]; split <;> omega
    omega

/-- when every erasure removes something, the erased values plus what is left are the list -/
theorem foldl_erase_perm (vs : List Elem) : ∀ (xs : List Elem),
    (vs.foldl List.erase xs).length + vs.length = xs.length → (vs ++ vs.foldl List.erase xs).Perm xs := by
  induction vs with
  | nil => intro xs _; exact List.Perm.refl _
  | cons v vs ih =>
    intro xs h
    rw [List.foldl_cons, List.length_cons] at h
    have h1 := foldl_erase_length vs (xs.erase v)
    have hmem : v ∈ xs := by
      apply Classical.byContradiction
      intro hn
      rw [List.erase_of_not_mem hn] at h1 h
      omega
    have hlen : (xs.erase v).length = xs.length - 1 := by rw [List.length_erase, if_pos hmem]
    have hpos : 0 < xs.length := List.length_pos_of_mem hmem
    rw [List.foldl_cons, List.cons_append]
    exact (List.Perm.cons v (ih (xs.erase v) (by omega))).trans (List.perm_cons_erase hmem).symm

theorem foldl_erase_perm_conv (vs : List Elem) : ∀ (xs R : List Elem), (vs ++ R).Perm xs →
    (vs.foldl List.erase xs).Perm R := by
  induction vs with
  | nil => intro xs R h; exact h.symm
  | cons v vs ih =>
    intro xs R h
    rw [List.foldl_cons]
    apply ih
    have hmem : v ∈ xs := h.subset (by simp)
    have := (List.perm_cons_erase hmem)
    rw [List.cons_append] at h
    exact (List.Perm.cons_inv (h.trans this))

/-! ### soundness -/

theorem specCycle_length (ac : Bool) (ys : List Elem) (cy : Cycle) :
    (specCycle ac ys cy).length = cycleOpCount cy := by
  unfold specCycle cycleOpCount
  simp only [List.length_append, List.length_map, List.length_range, List.length_cons]
  split <;> simp <;> omega

/-- **one cycle, checker ⇒ statement**: outputs of the right number that violate no clause are
    `specCycle ac ys cy` for a non-decreasing permutation `ys` of the pushed values -/
theorem checkCycle_sound (ac : Bool) (cy : Cycle) (outs : List Out)
    (hlen : outs.length = cycleOpCount cy) (h : checkCycle ac cy outs = none) :
    ∃ ys, SortedPermOf ys cy.pushes ∧ outs = specCycle ac ys cy := by
  have C := (checkCycle_none_iff ac cy outs).mp h
  obtain ⟨pushes, k, clear⟩ := cy
  simp only [cycleOpCount] at hlen
  obtain ⟨c1, c2, c3, c5, c6, c7, c8, c9, c10, c11⟩ := C
  dsimp only at c1 c2 c3 c5 c6 c7 c8 c9 c10 c11
  generalize hn : pushes.length = n at *
  generalize hP : (outs.drop (n + 1)).take k = P at *
  generalize hvals : P.filterMap (·.val) = vals at *
  have hPlen : P.length = k := by
    rw [← hP, List.length_take, List.length_drop]; split at hlen <;> omega
  -- the values delivered are those of the first `min n k` pulls
  have hsplit : vals = (P.take n).filterMap (·.val) := by
    rw [← hvals]
    conv => lhs; rw [← List.take_append_drop n P]
    rw [List.filterMap_append, filterMap_none _ _ (fun o ho => (c9 o ho).2), List.append_nil]
  have hmap : (P.take n).map (·.val) = vals.map some := by
    rw [hsplit]; exact map_eq_filterMap_some _ _ (fun o ho => (c5 o ho).2)
  have hvlen : vals.length = min n k := by
    have := congrArg List.length hmap
    simp only [List.length_map, List.length_take, hPlen] at this
    omega
  -- the sorted enumeration: the delivered values, then the rest in sorted order
  let R := vals.foldl List.erase pushes
  have hperm0 : (vals ++ R).Perm pushes := foldl_erase_perm vals pushes (by rw [hn]; exact c7)
  have hperm : (vals ++ sortRun R).Perm pushes :=
    (List.Perm.append_left vals (Biogo.Morass.sortRun_perm R)).trans hperm0
  have hsorted : Sorted (vals ++ sortRun R) := by
    unfold Sorted
    rw [List.pairwise_append]
    refine ⟨?_, Biogo.Morass.sortRun_sorted R, ?_⟩
    · have := nondecreasing_pairwise _ c3
      rw [List.pairwise_map] at this
      exact this
    · intro a ha b hb
      have hbR : b ∈ R := (Biogo.Morass.sortRun_perm R).subset hb
      -- keys: S = sorted keys of the pushes; its first |vals| are the keys of vals, the rest those of R
      have hS := Biogo.Properties.C11.sortKeys_perm (pushes.map (·.key))
      have hSs := Biogo.Properties.C11.sortKeys_sorted (pushes.map (·.key))
      generalize sortKeys (pushes.map (·.key)) = S at hS hSs c8
      have hk : (S.take vals.length ++ S.drop vals.length).Perm (vals.map (·.key) ++ R.map (·.key)) := by
        rw [List.take_append_drop, ← List.map_append]
        exact hS.trans (hperm0.map _).symm
      rw [← c8, List.perm_append_left_iff] at hk
      have hb' : b.key ∈ S.drop vals.length := hk.symm.subset (List.mem_map_of_mem hbR)
      have ha' : a.key ∈ S.take vals.length := by rw [← c8]; exact List.mem_map_of_mem ha
      rw [← List.take_append_drop vals.length S, List.pairwise_append] at hSs
      exact hSs.2.2 _ ha' _ hb'
  have hyslen : (vals ++ sortRun R).length = n := by rw [hperm.length_eq, hn]
  refine ⟨vals ++ sortRun R, ⟨hperm, hsorted⟩, ?_⟩
  -- the pulls, one by one
  have hpull : P = (List.range k).map (fun j =>
      match (vals ++ sortRun R)[j]? with
      | some e => (⟨.ok, some e, n, j + 1⟩ : Out)
      | none => ⟨.eof, none, if ac then 0 else n, if ac then 0 else n⟩) := by
    apply List.ext_getElem?
    intro j
    by_cases hj : j < k
    · rw [List.getElem?_map, List.getElem?_range hj, Option.map_some]
      obtain ⟨o, ho, hlp⟩ := c10 j hj
      rw [ho]
      by_cases hjn : j < n
      · rw [if_pos hjn] at hlp
        have hoT : (P.take n)[j]? = some o := by rw [List.getElem?_take_of_lt hjn]; exact ho
        have hmem : o ∈ P.take n := List.mem_of_getElem? hoT
        obtain ⟨hres, hval⟩ := c5 o hmem
        have := congrArg (fun l => l[j]?) hmap
        simp only [List.getElem?_map, hoT, Option.map_some] at this
        cases hv : vals[j]? with
        | none => rw [hv] at this; cases this
        | some v =>
          rw [hv, Option.map_some, Option.some.injEq] at this
          have hjv : j < vals.length := (List.getElem?_eq_some_iff.mp hv).1
          rw [List.getElem?_append_left hjv, hv]
          simp only []
          obtain ⟨r, vl, l, p⟩ := o
          simp only [] at hres this hlp
          rw [hres, this, hlp.1, hlp.2]
      · rw [if_neg hjn] at hlp
        have hoD : (P.drop n)[j - n]? = some o := by
          rw [List.getElem?_drop, show n + (j - n) = j by omega]; exact ho
        obtain ⟨hres, hval⟩ := c9 o (List.mem_of_getElem? hoD)
        have hnone : (vals ++ sortRun R)[j]? = none := by
          rw [List.getElem?_eq_none_iff, hyslen]; omega
        rw [hnone]
        simp only []
        obtain ⟨r, vl, l, p⟩ := o
        simp only [] at hres hval hlp
        rw [hres, hval, hlp.1, hlp.2]
    · rw [List.getElem?_eq_none_iff.mpr (by omega), List.getElem?_eq_none_iff.mpr (by simp; omega)]
  -- assembling the cycle
  have hnlt : n < outs.length := by split at hlen <;> omega
  have hfin : outs[n] = ⟨.ok, none, n, 0⟩ := by
    rw [List.getElem?_eq_getElem hnlt] at c2
    exact Option.some.inj c2
  have hrest : (outs.drop (n + 1)).drop k = if clear then [(⟨.ok, none, 0, 0⟩ : Out)] else [] := by
    rw [List.drop_drop]
    cases hc : clear with
    | false =>
      rw [hc] at hlen
      simp only [Bool.false_eq_true, if_false] at hlen ⊢
      exact List.drop_of_length_le (by omega)
    | true =>
      rw [hc] at hlen
      simp only [if_true] at hlen ⊢
      have hlt : n + 1 + k < outs.length := by omega
      have := c11 hc
      rw [List.getElem?_eq_getElem hlt] at this
      rw [List.drop_eq_getElem_cons hlt, Option.some.inj this, List.drop_of_length_le (by omega)]
  unfold specCycle
  simp only []
  rw [hn]
  conv => lhs; rw [← List.take_append_drop n outs, List.drop_eq_getElem_cons hnlt, hfin,
    ← List.take_append_drop k (outs.drop (n + 1)), hP, hrest]
  rw [c1, hpull]
  rfl

/-! ### completeness -/

theorem sorted_keys (ys xs : List Elem) (h : SortedPermOf ys xs) :
    ys.map (·.key) = sortKeys (xs.map (·.key)) := by
  apply Biogo.Properties.C11.sorted_perm_unique
  · exact (h.1.map _).trans (Biogo.Properties.C11.sortKeys_perm _).symm
  · have := h.2
    unfold Sorted at this
    rw [List.pairwise_map]; exact this
  · exact Biogo.Properties.C11.sortKeys_sorted _

/-- **one cycle, statement ⇒ checker**: the outputs the property describes violate no clause, so
    the checker rejects no correct implementation -/
theorem checkCycle_complete (ac : Bool) (cy : Cycle) (ys : List Elem) (h : SortedPermOf ys cy.pushes) :
    checkCycle ac cy (specCycle ac ys cy) = none := by
  rw [checkCycle_none_iff]
  obtain ⟨pushes, k, clear⟩ := cy
  dsimp only at h
  have hys : ys.length = pushes.length := h.1.length_eq
  generalize hn : pushes.length = n at *
  -- the shape of the outputs
  let g : Nat → Out := fun j =>
    match ys[j]? with
    | some e => (⟨.ok, some e, n, j + 1⟩ : Out)
    | none => ⟨.eof, none, if ac then 0 else n, if ac then 0 else n⟩
  let A : List Out := (List.range n).map (fun i => (⟨.ok, none, i + 1, i + 1⟩ : Out))
  let C : List Out := if clear then [(⟨.ok, none, 0, 0⟩ : Out)] else []
  have hO : specCycle ac ys ⟨pushes, k, clear⟩ = A ++ (⟨.ok, none, n, 0⟩ :: ((List.range k).map g ++ C)) := by
    unfold specCycle
    dsimp only
    rw [hn]
    rfl
  have hA : A.length = n := by simp [A]
  have hPm : ((List.range k).map g).length = k := by simp
  have hdrop : (A ++ (⟨.ok, none, n, 0⟩ :: ((List.range k).map g ++ C))).drop (n + 1) = (List.range k).map g ++ C := by
    rw [List.drop_append, hA, List.drop_of_length_le (by omega), List.nil_append,
      show n + 1 - n = 1 by omega]
    rfl
  have hP : ((A ++ (⟨.ok, none, n, 0⟩ :: ((List.range k).map g ++ C))).drop (n + 1)).take k = (List.range k).map g := by
    rw [hdrop, List.take_append_of_le_length (by omega), List.take_of_length_le (by omega)]
  have hgval : ∀ j, (g j).val = ys[j]? := by
    intro j; simp only [g]; cases ys[j]? <;> rfl
  have hvals : ((List.range k).map g).filterMap (·.val) = ys.take k := by
    rw [List.filterMap_map, ← Biogo.Properties.C11.range_filterMap_getElem? ys k]
    congr 1
    funext j
    exact hgval j
  have hgsome : ∀ j, j < n → (g j).res = .ok ∧ (g j).val.isSome = true ∧ (g j).len = n ∧ (g j).pos = j + 1 := by
    intro j hj
    have : j < ys.length := by omega
    simp [g, List.getElem?_eq_getElem this]
  have hgnone : ∀ j, n ≤ j → (g j).res = .eof ∧ (g j).val = none ∧
      (g j).len = (if ac then 0 else n) ∧ (g j).pos = (if ac then 0 else n) := by
    intro j hj
    have : ys[j]? = none := List.getElem?_eq_none_iff.mpr (by omega)
    simp [g, this]
  have hSk := sorted_keys ys pushes h
  rw [hO]
  refine ⟨?_, ?_, ?_, ?_, ?_, ?_, ?_, ?_, ?_, ?_⟩
  all_goals (try dsimp only)
  all_goals rw [hn]
  · rw [List.take_append_of_le_length (by omega), List.take_of_length_le (by omega)]
  · rw [List.getElem?_append_right (by omega), hA, Nat.sub_self]; rfl
  · rw [hP, hvals]
    apply pairwise_nondecreasing
    rw [List.pairwise_map]
    exact List.Pairwise.sublist (List.take_sublist _ _) h.2
  · rw [hP]
    intro o ho
    rw [List.mem_take_iff_getElem] at ho
    obtain ⟨j, hj, rfl⟩ := ho
    rw [hPm] at hj
    rw [List.getElem_map, List.getElem_range]
    exact ⟨(hgsome j (by omega)).1, (hgsome j (by omega)).2.1⟩
  · intro hle
    rw [hP, hvals, List.take_of_length_le (by omega)]
    exact h.1
  · rw [hP, hvals]
    have hp : (ys.take k ++ ys.drop k).Perm pushes := by rw [List.take_append_drop]; exact h.1
    have := (foldl_erase_perm_conv (ys.take k) pushes (ys.drop k) hp).length_eq
    rw [this, List.length_drop, List.length_take]
    omega
  · rw [hP, hvals, List.map_take, hSk, List.length_take]
    have hSl : (sortKeys (pushes.map (·.key))).length = n := by
      rw [← hSk, List.length_map]; omega
    by_cases hkn : k ≤ n
    · rw [show min k ys.length = k by omega]
    · rw [show min k ys.length = n by omega, List.take_of_length_le (by omega), List.take_of_length_le (by omega)]
  · rw [hP]
    intro o ho
    rw [List.mem_drop_iff_getElem] at ho
    obtain ⟨j, hj, rfl⟩ := ho
    rw [List.getElem_map, List.getElem_range]
    exact ⟨(hgnone (n + j) (by omega)).1, (hgnone (n + j) (by omega)).2.1⟩
  · rw [hP]
    intro j hj
    refine ⟨g j, by rw [List.getElem?_map, List.getElem?_range hj]; rfl, ?_⟩
    by_cases hjn : j < n
    · rw [if_pos hjn]; exact ⟨(hgsome j hjn).2.2.1, (hgsome j hjn).2.2.2⟩
    · rw [if_neg hjn]; exact ⟨(hgnone j (by omega)).2.2.1, (hgnone j (by omega)).2.2.2⟩
  · intro hc
    rw [List.getElem?_append_right (by omega), hA, show n + 1 + k - n = k + 1 by omega,
      List.getElem?_cons_succ, List.getElem?_append_right (by omega), hPm, Nat.sub_self]
    simp only [C, hc, if_true]
    rfl

/-! ### whole histories -/

theorem cycleOps_length (cy : Cycle) : cy.ops.length = cycleOpCount cy := by
  unfold Cycle.ops cycleOpCount
  simp only [List.length_append, List.length_map, List.length_cons, List.length_replicate]
  split <;> simp <;> omega

/-- the number of calls of a history -/
theorem histOps_length (h : List Cycle) : (histOps h).length = (h.map cycleOpCount).sum := by
  unfold histOps
  induction h with
  | nil => rfl
  | cons cy rest ih => rw [List.flatMap_cons, List.length_append, ih, cycleOps_length, List.map_cons, List.sum_cons]

/-- **C11, checker ⇒ statement**: when the implementation answered every call of a well-formed
    history (one output per call) and `checkHistory` reports no violation, its outputs satisfy
    `HistorySpec` — the conclusion of `history_sorted_multiset` with the implementation's outputs in
    place of the model's. -/
theorem checkHistory_sound (ac : Bool) : ∀ (h : List Cycle) (i : Nat) (outs : List Out),
    outs.length = (h.map cycleOpCount).sum → checkHistory ac h i outs = none → HistorySpec ac h outs
  | [], _, outs, hlen, _ => by
    simp only [List.map_nil, List.sum_nil] at hlen
    exact List.eq_nil_of_length_eq_zero hlen
  | cy :: rest, i, outs, hlen, hc => by
    rw [List.map_cons, List.sum_cons] at hlen
    unfold checkHistory at hc
    cases hcy : checkCycle ac cy (outs.take (cycleOpCount cy)) with
    | some why => rw [hcy] at hc; cases hc
    | none =>
      rw [hcy] at hc
      obtain ⟨ys, hys, htake⟩ := checkCycle_sound ac cy _ (by rw [List.length_take]; omega) hcy
      have ih := checkHistory_sound ac rest (i + 1) (outs.drop (cycleOpCount cy))
        (by rw [List.length_drop]; omega) hc
      exact ⟨ys, outs.drop (cycleOpCount cy), hys, by rw [← htake, List.take_append_drop], ih⟩

/-- **C11, statement ⇒ checker**: outputs that satisfy `HistorySpec` pass `checkHistory` (and there
    is one per call) -/
theorem checkHistory_complete (ac : Bool) : ∀ (h : List Cycle) (i : Nat) (outs : List Out),
    HistorySpec ac h outs → checkHistory ac h i outs = none ∧ outs.length = (h.map cycleOpCount).sum
  | [], _, outs, hs => by
    have : outs = [] := hs
    subst this
    exact ⟨rfl, rfl⟩
  | cy :: rest, i, outs, hs => by
    obtain ⟨ys, outs', hys, rfl, hrest⟩ := hs
    obtain ⟨ih1, ih2⟩ := checkHistory_complete ac rest (i + 1) outs' hrest
    have hl := specCycle_length ac ys cy
    constructor
    · unfold checkHistory
      rw [List.take_append_of_le_length (by omega), List.take_of_length_le (by omega),
        checkCycle_complete ac cy ys hys]
      simp only []
      rw [List.drop_append, List.drop_of_length_le (by omega), hl, Nat.sub_self, List.nil_append]
      exact ih1
    · rw [List.length_append, hl, ih2, List.map_cons, List.sum_cons]

/-- … together: for the outputs of a run that answered every call, `checkHistory` reports no
    violation iff the outputs satisfy the statement of C11 -/
theorem checkHistory_iff (ac : Bool) (h : List Cycle) (i : Nat) (outs : List Out) :
    (outs.length = (histOps h).length ∧ checkHistory ac h i outs = none) ↔ HistorySpec ac h outs := by
  rw [histOps_length]
  constructor
  · rintro ⟨h1, h2⟩; exact checkHistory_sound ac h i outs h1 h2
  · intro hs
    obtain ⟨h1, h2⟩ := checkHistory_complete ac h i outs hs
    exact ⟨h2, h1⟩

end Biogo.Properties.C11_checker
