/-
C11 — soundness of the executable statement.  `Biogo.Drive.C11.checkHistory` is what the drivers
of C11, C12 and C13 evaluate on the *implementation's* outputs; here it is proved to imply the
declarative specification `HistorySpec` (per cycle: the pulls are a non-decreasing permutation
of the pushes, then io.EOF; Len/Pos; every Push/Finalise/Clear succeeds).  So an `ok`/`diff`
verdict of a driver means the implementation's outputs satisfy the specification the theorems
are about, and the checker is no longer part of the trusted base.  The converse
(`checkHistory_complete`) shows that the checker demands no more than the specification.
-/
import Biogo.Model.Morass
import Biogo.Spec.Morass
import Biogo.Proofs.Morass
import Biogo.Properties.C11
import Biogo.Drive.C11

namespace Biogo.Properties.C11_checker
open Biogo.Morass Biogo.Drive.C11 Biogo.Properties.C11

/-! ### small facts about the checker's ingredients -/

theorem nondecreasing_pairwise : ∀ (l : List Int), nondecreasing l = true → l.Pairwise (· ≤ ·)
  | [], _ => List.Pairwise.nil
  | [a], _ => by simp
  | a :: b :: r, h => by
    simp only [nondecreasing, Bool.and_eq_true, decide_eq_true_eq] at h
    have ih := nondecreasing_pairwise (b :: r) h.2
    refine List.pairwise_cons.mpr ⟨?_, ih⟩
    intro x hx
    rcases List.mem_cons.mp hx with rfl | hx
    · exact h.1
    · have := (List.pairwise_cons.mp ih).1 x hx; omega

/-- erasing the values of `vs` one by one from `P`: at most one entry goes per value, and when
    exactly one goes each time, `vs` is a sub-multiset of `P` -/
theorem foldl_erase_perm : ∀ (vs P : List Elem),
    P.length ≤ (vs.foldl List.erase P).length + vs.length
    ∧ ((vs.foldl List.erase P).length + vs.length = P.length → P.Perm (vs ++ vs.foldl List.erase P)) := by
  intro vs
  induction vs with
  | nil => intro P; exact ⟨by simp, fun _ => by simp⟩
  | cons a t ih =>
    intro P
    obtain ⟨h1, h2⟩ := ih (P.erase a)
    simp only [List.foldl_cons, List.length_cons]
    by_cases ha : a ∈ P
    · have hl : (P.erase a).length = P.length - 1 := List.length_erase_of_mem ha
      have hpos : 0 < P.length := List.length_pos_of_mem ha
      refine ⟨by omega, ?_⟩
      intro heq
      have := h2 (by omega)
      exact (List.perm_cons_erase ha).trans (List.Perm.cons a this)
    · rw [List.erase_of_not_mem ha] at h1 h2 ⊢
      exact ⟨by omega, fun heq => by omega⟩

theorem filterMap_val_some : ∀ (l : List Out), (∀ o ∈ l, o.val.isSome = true) →
    (l.filterMap (·.val)).length = l.length ∧ ∀ (j : Nat), (l[j]?).map (fun o : Out => o.val) = ((l.filterMap (·.val))[j]?).map some := by
  intro l
  induction l with
  | nil => intro _; exact ⟨rfl, fun j => by simp⟩
  | cons o t ih =>
    intro h
    obtain ⟨v, hv⟩ := Option.isSome_iff_exists.mp (h o (by simp))
    obtain ⟨h1, h2⟩ := ih (fun x hx => h x (List.mem_cons_of_mem _ hx))
    have e : (o :: t).filterMap (·.val) = v :: t.filterMap (·.val) := by
      simp [hv]
    rw [e]
    refine ⟨by simp [h1], ?_⟩
    intro j
    cases j with
    | zero => simp [hv]
    | succ j => simpa using h2 j

theorem filterMap_val_none (l : List Out) (h : ∀ o ∈ l, o.val = none) : l.filterMap (·.val) = [] := by
  apply List.filterMap_eq_nil_iff.mpr
  intro o ho; exact h o ho

theorem sorted_take_le_drop {S : List Int} (hS : S.Pairwise (· ≤ ·)) (k : Nat) :
    ∀ a ∈ S.take k, ∀ b ∈ S.drop k, a ≤ b := by
  rw [← List.take_append_drop k S] at hS
  exact (List.pairwise_append.mp hS).2.2

/-! ### one cycle -/

theorem ite_none {c : Prop} [Decidable c] {s : String} {e : Option String}
    (h : (if c then some s else e) = none) : ¬ c ∧ e = none := by
  by_cases hc : c
  · rw [if_pos hc] at h; cases h
  · rw [if_neg hc] at h; exact ⟨hc, h⟩

theorem any_false {α} {l : List α} {p : α → Bool} (h : ¬ l.any p = true) : ∀ x ∈ l, p x = false := by
  intro x hx
  cases hp : p x with
  | false => rfl
  | true => exact absurd (List.any_eq_true.mpr ⟨x, hx, hp⟩) h

theorem checkCycle_sound (ac : Bool) (cy : Cycle) (o : List Out) (hlen : o.length = cycleOpCount cy)
    (h : checkCycle ac cy o = none) : ∃ ys, SortedPermOf ys cy.pushes ∧ o = specCycle ac ys cy := by
  delta checkCycle at h
  extract_lets n pushO po vals at h
  obtain ⟨c1, h1⟩ := ite_none h; clear h
  obtain ⟨c2, h2⟩ := ite_none h1; clear h1
  obtain ⟨c3, h3⟩ := ite_none h2; clear h2
  obtain ⟨c4, h4⟩ := ite_none h3; clear h3
  obtain ⟨c5, h5⟩ := ite_none h4; clear h4
  obtain ⟨_, h6⟩ := ite_none h5; clear h5
  obtain ⟨c7, h7⟩ := ite_none h6; clear h6
  obtain ⟨c8, h8⟩ := ite_none h7; clear h7
  obtain ⟨c9, h9⟩ := ite_none h8; clear h8
  obtain ⟨c10, h10⟩ := ite_none h9; clear h9
  obtain ⟨c11, _⟩ := ite_none h10; clear h10
  have c1 : pushO = (List.range n).map (fun i => (⟨.ok, none, i + 1, i + 1⟩ : Out)) := Decidable.not_not.mp c1
  have c2 : o[n]? = some ⟨.ok, none, n, 0⟩ := Decidable.not_not.mp c2
  have c3 : nondecreasing (vals.map (·.key)) = true := by simpa using c3
  have c7 : (vals.foldl List.erase cy.pushes).length + vals.length = n := Decidable.not_not.mp c7
  have c8 : vals.map (·.key) = (sortKeys (cy.pushes.map (·.key))).take vals.length := Decidable.not_not.mp c8
  have c4 := any_false c4
  have c5 := any_false c5
  have c9 := any_false c9
  have c10 := any_false c10
  -- lengths
  have hcount : o.length = n + 1 + cy.pulls + (if cy.clear then 1 else 0) := by
    rw [hlen]; rfl
  have hpo : po.length = cy.pulls := by
    show ((o.drop (n + 1)).take cy.pulls).length = _
    rw [List.length_take, List.length_drop]; omega
  -- the first min(n, pulls) pulls deliver a value each, the others none
  have hsome : ∀ x ∈ po.take n, x.val.isSome = true := by
    intro x hx
    have := c5 x hx
    simp only [Bool.or_eq_false_iff] at this
    cases hv : x.val with
    | none => rw [hv] at this; simp at this
    | some v => rfl
  have hnone : ∀ x ∈ po.drop n, x.val = none := by
    intro x hx
    have := c9 x hx
    simp only [Bool.or_eq_false_iff] at this
    cases hv : x.val with
    | none => rfl
    | some v => rw [hv] at this; simp at this
  have hvals : vals = (po.take n).filterMap (·.val) := by
    show po.filterMap (·.val) = _
    conv => lhs; rw [← List.take_append_drop n po]
    rw [List.filterMap_append, filterMap_val_none _ hnone, List.append_nil]
  obtain ⟨hvl, hvj⟩ := filterMap_val_some (po.take n) hsome
  rw [← hvals] at hvl hvj
  have hvlen : vals.length = min n cy.pulls := by rw [hvl, List.length_take, hpo]
  -- the sorted enumeration
  let rest := vals.foldl List.erase cy.pushes
  have hperm : cy.pushes.Perm (vals ++ rest) := (foldl_erase_perm vals cy.pushes).2 c7
  have hS := sortKeys_sorted (cy.pushes.map (·.key))
  have hSp := sortKeys_perm (cy.pushes.map (·.key))
  have hrestKeys : (rest.map (·.key)).Perm ((sortKeys (cy.pushes.map (·.key))).drop vals.length) := by
    have e1 : (sortKeys (cy.pushes.map (·.key))).Perm (vals.map (·.key) ++ rest.map (·.key)) := by
      rw [← List.map_append]; exact hSp.trans (hperm.map _)
    rw [c8] at e1
    have e2 : ((sortKeys (cy.pushes.map (·.key))).take vals.length ++ (sortKeys (cy.pushes.map (·.key))).drop vals.length).Perm
        ((sortKeys (cy.pushes.map (·.key))).take vals.length ++ rest.map (·.key)) := by
      rw [List.take_append_drop]; exact e1
    exact ((List.perm_append_left_iff _).mp e2).symm
  refine ⟨vals ++ sortRun rest, ⟨?_, ?_⟩, ?_⟩
  · exact ((List.Perm.append_left vals (sortRun_perm rest)).trans hperm.symm)
  · apply List.pairwise_append.mpr
    refine ⟨List.pairwise_map.mp (nondecreasing_pairwise _ c3), sortRun_sorted rest, ?_⟩
    intro a ha b hb
    have ha' : a.key ∈ (sortKeys (cy.pushes.map (·.key))).take vals.length := by
      rw [← c8]; exact List.mem_map_of_mem ha
    have hb' : b.key ∈ (sortKeys (cy.pushes.map (·.key))).drop vals.length := by
      apply hrestKeys.mem_iff.mp
      exact List.mem_map_of_mem ((sortRun_perm rest).mem_iff.mp hb)
    exact sorted_take_le_drop hS _ _ ha' _ hb'
  · -- the outputs are exactly those of the specification
    have hrl : rest.length + vals.length = n := c7
    have hyl : (vals ++ sortRun rest).length = n := by
      rw [List.length_append, sortRun_length]; omega
    have hnlt : n < o.length := by omega
    have hfin : o[n] = ⟨.ok, none, n, 0⟩ := by
      have := List.getElem?_eq_getElem hnlt
      rw [c2] at this; exact (Option.some.inj this).symm
    -- the tail after the pulls
    have hT : o.drop (n + 1 + cy.pulls) = if cy.clear then [(⟨.ok, none, 0, 0⟩ : Out)] else [] := by
      have hTl : (o.drop (n + 1 + cy.pulls)).length = if cy.clear then 1 else 0 := by
        rw [List.length_drop]; omega
      cases hcl : cy.clear with
      | false =>
        rw [hcl] at hTl
        have : o.drop (n + 1 + cy.pulls) = [] := List.eq_nil_of_length_eq_zero (by simpa using hTl)
        rw [this]; rfl
      | true =>
        rw [hcl] at hTl
        simp only [if_true] at hTl ⊢
        obtain ⟨a, ha⟩ := List.length_eq_one_iff.mp hTl
        have h0 : (o.drop (n + 1 + cy.pulls))[0]? = o[n + 1 + cy.pulls]? := by
          rw [List.getElem?_drop]; rfl
        have hc : o[n + 1 + cy.pulls]? = some ⟨.ok, none, 0, 0⟩ := by
          have := c11
          rw [hcl] at this
          simpa using this
        rw [ha] at h0 ⊢
        rw [hc] at h0
        simp only [List.getElem?_cons_zero, Option.some.injEq] at h0
        rw [h0]
    -- the pulls
    have hP : po = (List.range cy.pulls).map (fun j =>
        match (vals ++ sortRun rest)[j]? with
        | some e => (⟨.ok, some e, n, j + 1⟩ : Out)
        | none => ⟨.eof, none, if ac then 0 else n, if ac then 0 else n⟩) := by
      apply List.ext_getElem
      · rw [hpo, List.length_map, List.length_range]
      · intro j hj1 hj2
        rw [List.getElem_map, List.getElem_range]
        have hjp : j < cy.pulls := by rw [← hpo]; exact hj1
        have hq : po[j]? = some po[j] := List.getElem?_eq_getElem hj1
        have h10 := c10 j (List.mem_range.mpr hjp)
        rw [hq] at h10
        simp only at h10
        by_cases hjn : j < n
        · -- a value
          have hmem : po[j] ∈ po.take n := by
            apply List.mem_iff_getElem?.mpr
            exact ⟨j, by rw [List.getElem?_take_of_lt hjn]; exact hq⟩
          have h4 := c4 _ hmem
          have h5 := c5 _ hmem
          have hjv : j < vals.length := by rw [hvlen]; omega
          have hv := hvj j
          rw [List.getElem?_take_of_lt hjn, hq, List.getElem?_eq_getElem hjv] at hv
          simp only [Option.map_some, Option.some.injEq] at hv
          have hy : (vals ++ sortRun rest)[j]? = some vals[j] := by
            rw [List.getElem?_append_left hjv, List.getElem?_eq_getElem hjv]
          rw [hy]
          simp only [hjn, if_true, Bool.or_eq_false_iff, bne_eq_false_iff_eq] at h10 h5
          generalize po[j] = x at *
          obtain ⟨r, v, l, p⟩ := x
          simp only at hv h10 h5
          simp only [Out.mk.injEq]
          exact ⟨h5.1, hv, h10.1, h10.2⟩
        · -- io.EOF
          have hmem : po[j] ∈ po.drop n := by
            apply List.mem_iff_getElem?.mpr
            refine ⟨j - n, ?_⟩
            rw [List.getElem?_drop]
            have : n + (j - n) = j := by omega
            rw [this]; exact hq
          have h9 := c9 _ hmem
          have hy : (vals ++ sortRun rest)[j]? = none := List.getElem?_eq_none (by omega)
          rw [hy]
          simp only [hjn, if_false, Bool.or_eq_false_iff, bne_eq_false_iff_eq] at h10 h9
          generalize po[j] = x at *
          obtain ⟨r, v, l, p⟩ := x
          simp only at h10 h9
          simp only [Out.mk.injEq]
          refine ⟨h9.1, ?_, h10.1, h10.2⟩
          cases v with
          | none => rfl
          | some _ => simp at h9
    -- putting the pieces together
    have hsplit : o = o.take n ++ (o[n] :: ((o.drop (n + 1)).take cy.pulls ++ o.drop (n + 1 + cy.pulls))) := by
      conv => lhs; rw [← List.take_append_drop n o]
      congr 1
      rw [List.drop_eq_getElem_cons hnlt]
      congr 1
      conv => lhs; rw [← List.take_append_drop cy.pulls (o.drop (n + 1))]
      rw [List.drop_drop]
    rw [hsplit]
    show pushO ++ (o[n] :: (po ++ o.drop (n + 1 + cy.pulls))) = specCycle ac (vals ++ sortRun rest) cy
    rw [c1, hfin, hT, hP]
    rfl

/-! ### whole histories -/

theorem cycle_ops_length (cy : Cycle) : cy.ops.length = cycleOpCount cy := by
  unfold Cycle.ops cycleOpCount
  cases cy.clear <;> simp <;> omega

/-- **The executable statement implies the specification.**  If `checkHistory` accepts the
    outputs of the calls of the history `h` (one output per call), they satisfy `HistorySpec`:
    for every cycle there is a non-decreasing permutation `ys` of the values pushed in that
    cycle such that the outputs of the cycle are exactly `specCycle ac ys cy` — every
    `Push`/`Finalise`/`Clear` succeeded with the `Len`/`Pos` the property states, the j-th `Pull`
    delivered `ys[j]`, then io.EOF. -/
theorem checkHistory_sound (ac : Bool) : ∀ (h : List Cycle) (i : Nat) (outs : List Out),
    outs.length = (histOps h).length → checkHistory ac h i outs = none → HistorySpec ac h outs := by
  intro h
  induction h with
  | nil =>
    intro i outs hlen _
    simp only [histOps, List.flatMap_nil, List.length_nil] at hlen
    exact List.eq_nil_of_length_eq_zero hlen
  | cons cy rest ih =>
    intro i outs hlen hc
    have hops : (histOps (cy :: rest)).length = cycleOpCount cy + (histOps rest).length := by
      simp only [histOps, List.flatMap_cons, List.length_append, cycle_ops_length]
    rw [hops] at hlen
    simp only [checkHistory] at hc
    cases hcc : checkCycle ac cy (outs.take (cycleOpCount cy)) with
    | some why => rw [hcc] at hc; cases hc
    | none =>
      rw [hcc] at hc
      obtain ⟨ys, hys, hspec⟩ := checkCycle_sound ac cy (outs.take (cycleOpCount cy))
        (by rw [List.length_take]; omega) hcc
      refine ⟨ys, outs.drop (cycleOpCount cy), hys, ?_, ?_⟩
      · rw [← hspec, List.take_append_drop]
      · exact ih (i + 1) _ (by rw [List.length_drop]; omega) hc

/-- what the drivers of C11, C12 and C13 evaluate on the implementation's observation
    (`historyStatement`: one output per call of the program, and `checkHistory`), for a program
    that `historyOf` recognises as the well-formed history `h`: the implementation's outputs
    satisfy the specification of `history_sorted_multiset` / `conc_history_sorted_multiset` -/
theorem historyStatement_sound (ac : Bool) (ops : List Op) (h : List Cycle) (outs : List Out)
    (hh : historyOf ac ops = some h) (hs : historyStatement ac h ops outs = none) :
    wellFormed ac h = true ∧ histOps h = ops ∧ HistorySpec ac h outs := by
  unfold historyOf at hh
  split at hh
  · rename_i g hg
    split at hh
    · rename_i hcond
      simp only [Option.some.injEq] at hh
      subst hh
      unfold historyStatement at hs
      split at hs
      · cases hs
      · rename_i hl
        have hl : outs.length = ops.length := Decidable.not_not.mp hl
        exact ⟨hcond.2, hcond.1, checkHistory_sound ac g 1 outs (by rw [hcond.1]; exact hl) hs⟩
    · cases hh
  · cases hh

/-! ### programs with rejected pushes -/

/-- the statement about rejected pushes determines the outputs of the program from the outputs of
    its accepted calls: they are `weave ops (accepted outputs)` — at every rejected `Push` the
    type-mismatch error, no value, `Len`/`Pos` unchanged — and the accepted outputs are one per
    accepted call -/
theorem rejectsStatement_sound : ∀ (ops : List Op) (outs : List Out) (l p : Nat), outs.length = ops.length →
    rejectsStatement ops outs l p = none →
    outs = weave ops (dropRejOuts outs) l p ∧ (dropRejOuts outs).length = (dropRejects ops).length := by
  intro ops
  induction ops with
  | nil =>
    intro outs l p hlen _
    have : outs = [] := List.eq_nil_of_length_eq_zero (by simpa using hlen)
    subst this; exact ⟨rfl, rfl⟩
  | cons op ops ih =>
    intro outs l p hlen h
    cases outs with
    | nil => simp at hlen
    | cons o outs =>
      simp only [List.length_cons, Nat.add_right_cancel_iff] at hlen
      have nonrej : op ≠ Op.reject → (if o.res = .rejected then some "type-mismatch-returned-by-an-accepted-call"
            else rejectsStatement ops outs o.len o.pos) = none →
          (o :: outs = weave (op :: ops) (dropRejOuts (o :: outs)) l p
            ∧ (dropRejOuts (o :: outs)).length = (dropRejects (op :: ops)).length) := by
        intro hop h
        by_cases hr : o.res = .rejected
        · rw [if_pos hr] at h; cases h
        · rw [if_neg hr] at h
          obtain ⟨h1, h2⟩ := ih outs o.len o.pos hlen h
          have e1 : dropRejOuts (o :: outs) = o :: dropRejOuts outs := by
            simp [dropRejOuts, List.filter_cons, hr]
          have e2 : dropRejects (op :: ops) = op :: dropRejects ops := by
            simp [dropRejects, List.filter_cons, hop]
          rw [e1, e2]
          refine ⟨?_, by simp [h2]⟩
          cases op with
          | reject => exact absurd rfl hop
          | push e => simp only [weave]; rw [← h1]
          | finalise => simp only [weave]; rw [← h1]
          | pull => simp only [weave]; rw [← h1]
          | clear => simp only [weave]; rw [← h1]
      cases op with
      | reject =>
        simp only [rejectsStatement] at h
        by_cases ho : o = ⟨.rejected, none, l, p⟩
        · rw [if_pos ho] at h
          obtain ⟨h1, h2⟩ := ih outs l p hlen h
          subst ho
          have e1 : dropRejOuts ((⟨.rejected, none, l, p⟩ : Out) :: outs) = dropRejOuts outs := by
            simp [dropRejOuts, List.filter_cons]
          have e2 : dropRejects (Op.reject :: ops) = dropRejects ops := by
            simp [dropRejects, List.filter_cons]
          rw [e1, e2]
          refine ⟨?_, h2⟩
          simp only [weave]; rw [← h1]
        · rw [if_neg ho] at h; cases h
      | push e => exact nonrej (by simp) (by simpa [rejectsStatement] using h)
      | finalise => exact nonrej (by simp) (by simpa [rejectsStatement] using h)
      | pull => exact nonrej (by simp) (by simpa [rejectsStatement] using h)
      | clear => exact nonrej (by simp) (by simpa [rejectsStatement] using h)

/-- **what the drivers evaluate on a program with rejected pushes**: if `programStatement` accepts
    the implementation's outputs of a program whose accepted calls `historyOf` recognises as the
    well-formed history `h`, then the outputs of the accepted calls satisfy `HistorySpec ac h` and
    every rejected `Push` is a no-op: the outputs are `weave ops (accepted outputs) 0 0`. -/
theorem programStatement_sound (ac : Bool) (ops : List Op) (h : List Cycle) (outs : List Out)
    (hh : historyOf ac (dropRejects ops) = some h) (hs : programStatement ac h ops outs = none) :
    wellFormed ac h = true ∧ histOps h = dropRejects ops ∧ HistorySpec ac h (dropRejOuts outs)
      ∧ outs = weave ops (dropRejOuts outs) 0 0 := by
  unfold programStatement at hs
  split at hs
  · cases hs
  · rename_i hl
    have hl : outs.length = ops.length := Decidable.not_not.mp hl
    cases hrs : rejectsStatement ops outs 0 0 with
    | some why => rw [hrs] at hs; cases hs
    | none =>
      rw [hrs] at hs
      obtain ⟨h1, h2, h3⟩ := historyStatement_sound ac (dropRejects ops) h (dropRejOuts outs) hh hs
      exact ⟨h1, h2, h3, (rejectsStatement_sound ops outs 0 0 hl hrs).1⟩

/-- non-vacuity: the checker accepts the outputs of the model on the witness history of F13 -/
example : checkHistory false [⟨[⟨3,0⟩, ⟨1,0⟩, ⟨2,0⟩], 4, true⟩, ⟨[⟨9,0⟩, ⟨8,0⟩, ⟨7,0⟩, ⟨6,0⟩, ⟨5,0⟩], 6, true⟩] 1
    (run (init 4 false) (histOps [⟨[⟨3,0⟩, ⟨1,0⟩, ⟨2,0⟩], 4, true⟩, ⟨[⟨9,0⟩, ⟨8,0⟩, ⟨7,0⟩, ⟨6,0⟩, ⟨5,0⟩], 6, true⟩])).2
    = none := by decide

/-- and rejects a history whose second cycle delivers a value of the first -/
example : (checkHistory false [⟨[⟨2,0⟩], 0, true⟩, ⟨[], 1, false⟩] 1
    [⟨.ok, none, 1, 1⟩, ⟨.ok, none, 1, 0⟩, ⟨.ok, none, 0, 0⟩, ⟨.ok, none, 0, 0⟩, ⟨.ok, some ⟨2,0⟩, 0, 1⟩]).isSome = true := by
  decide

/-! ### completeness: the checker demands no more than the specification -/

theorem pairwise_nondecreasing : ∀ (l : List Int), l.Pairwise (· ≤ ·) → nondecreasing l = true
  | [], _ => rfl
  | [a], _ => rfl
  | a :: b :: r, h => by
    simp only [nondecreasing, Bool.and_eq_true, decide_eq_true_eq]
    have h' := List.pairwise_cons.mp h
    exact ⟨h'.1 b (by simp), pairwise_nondecreasing (b :: r) h'.2⟩

/-- a sub-multiset is erased entry by entry -/
theorem foldl_erase_sub : ∀ (vs P R : List Elem), P.Perm (vs ++ R) →
    (vs.foldl List.erase P).length + vs.length = P.length := by
  intro vs
  induction vs with
  | nil => intro P R _; simp
  | cons a t ih =>
    intro P R hp
    have ha : a ∈ P := hp.mem_iff.mpr (by simp)
    have hp' : (P.erase a).Perm (t ++ R) := by
      have := hp.erase a
      simpa using this
    have := ih (P.erase a) R hp'
    have hl : (P.erase a).length = P.length - 1 := List.length_erase_of_mem ha
    have hpos : 0 < P.length := List.length_pos_of_mem ha
    simp only [List.foldl_cons, List.length_cons]
    omega

theorem specCycle_length (ac : Bool) (ys : List Elem) (cy : Cycle) :
    (specCycle ac ys cy).length = cycleOpCount cy := by
  unfold specCycle cycleOpCount
  cases cy.clear <;> simp <;> omega

theorem ite_some_none {c : Prop} [Decidable c] {s : String} {e : Option String}
    (hc : ¬ c) (he : e = none) : (if c then some s else e) = none := by
  rw [if_neg hc]; exact he

theorem any_eq_false' {α} {l : List α} {p : α → Bool} (h : ∀ x ∈ l, p x = false) : ¬ l.any p = true := by
  intro ha
  obtain ⟨x, hx, hp⟩ := List.any_eq_true.mp ha
  rw [h x hx] at hp; cases hp

theorem checkCycle_complete (ac : Bool) (cy : Cycle) (ys : List Elem) (hys : SortedPermOf ys cy.pushes) :
    checkCycle ac cy (specCycle ac ys cy) = none := by
  have hyl : ys.length = cy.pushes.length := hys.1.length_eq
  -- the pieces of the specified outputs
  let A : List Out := (List.range cy.pushes.length).map (fun i => (⟨.ok, none, i + 1, i + 1⟩ : Out))
  let F : Out := ⟨.ok, none, cy.pushes.length, 0⟩
  let P : List Out := (List.range cy.pulls).map (fun j =>
        match ys[j]? with
        | some e => (⟨.ok, some e, cy.pushes.length, j + 1⟩ : Out)
        | none => ⟨.eof, none, if ac then 0 else cy.pushes.length, if ac then 0 else cy.pushes.length⟩)
  let T : List Out := if cy.clear then [(⟨.ok, none, 0, 0⟩ : Out)] else []
  have hspec : specCycle ac ys cy = A ++ (F :: (P ++ T)) := rfl
  have hA : A.length = cy.pushes.length := by simp [A]
  have hP : P.length = cy.pulls := by simp [P]
  have h1 : (specCycle ac ys cy).take cy.pushes.length = A := by rw [hspec, List.take_left' hA]
  have h2 : (specCycle ac ys cy)[cy.pushes.length]? = some F := by
    rw [hspec, List.getElem?_append_right (by omega), hA]; simp
  have h3 : ((specCycle ac ys cy).drop (cy.pushes.length + 1)).take cy.pulls = P := by
    have : specCycle ac ys cy = (A ++ [F]) ++ (P ++ T) := by rw [hspec]; simp
    rw [this, List.drop_left' (by simp [hA]), List.take_left' hP]
  have h4 : cy.clear = true → (specCycle ac ys cy)[cy.pushes.length + 1 + cy.pulls]? = some ⟨.ok, none, 0, 0⟩ := by
    intro hcl
    have : specCycle ac ys cy = (A ++ [F] ++ P) ++ T := by rw [hspec]; simp
    rw [this, List.getElem?_append_right (by simp [hA, hP]; omega)]
    have e : cy.pushes.length + 1 + cy.pulls - (A ++ [F] ++ P).length = 0 := by simp [hA, hP]; omega
    rw [e]
    simp [T, hcl]
  -- entries of the pulls
  have hPj : ∀ j, j < cy.pulls → P[j]? = some (match ys[j]? with
        | some e => (⟨.ok, some e, cy.pushes.length, j + 1⟩ : Out)
        | none => ⟨.eof, none, if ac then 0 else cy.pushes.length, if ac then 0 else cy.pushes.length⟩) := by
    intro j hj
    simp [P, hj]
  have hvals : P.filterMap (·.val) = ys.take cy.pulls := by
    rw [← range_filterMap_getElem? ys cy.pulls]
    simp only [P, List.filterMap_map]
    congr 1
    funext j
    simp only [Function.comp]
    cases ys[j]? <;> rfl
  have hvl : (ys.take cy.pulls).length = min cy.pulls cy.pushes.length := by rw [List.length_take, hyl]
  delta checkCycle
  extract_lets n pushO po vals
  have e1 : pushO = A := h1
  have e3 : po = P := h3
  have e4 : vals = ys.take cy.pulls := by show po.filterMap (·.val) = _; rw [e3, hvals]
  have hn : n = cy.pushes.length := rfl
  have inTake : ∀ x ∈ po.take n, ∃ j e, j < n ∧ ys[j]? = some e ∧ x = (⟨.ok, some e, cy.pushes.length, j + 1⟩ : Out) := by
    intro x hx
    rw [e3] at hx
    obtain ⟨j, hj⟩ := List.mem_iff_getElem?.mp hx
    have hjn : j < n := by
      have := (List.getElem?_eq_some_iff.mp hj).1
      rw [List.length_take] at this; omega
    rw [List.getElem?_take_of_lt hjn] at hj
    have hjp : j < cy.pulls := by
      have := (List.getElem?_eq_some_iff.mp hj).1
      rw [hP] at this; exact this
    rw [hPj j hjp] at hj
    have hjy : j < ys.length := by rw [hyl]; exact hjn
    rw [List.getElem?_eq_getElem hjy] at hj
    simp only [Option.some.injEq] at hj
    exact ⟨j, ys[j], hjn, List.getElem?_eq_getElem hjy, hj.symm⟩
  have inDrop : ∀ x ∈ po.drop n, x = (⟨.eof, none, if ac then 0 else cy.pushes.length, if ac then 0 else cy.pushes.length⟩ : Out) := by
    intro x hx
    rw [e3] at hx
    obtain ⟨j, hj⟩ := List.mem_iff_getElem?.mp hx
    rw [List.getElem?_drop] at hj
    have hjp : n + j < cy.pulls := by
      have := (List.getElem?_eq_some_iff.mp hj).1
      rw [hP] at this; exact this
    rw [hPj _ hjp, List.getElem?_eq_none (by rw [hyl]; omega)] at hj
    simp only [Option.some.injEq] at hj
    exact hj.symm
  apply ite_some_none (by rw [e1]; simp [A, hn])
  apply ite_some_none (by rw [h2]; simp [F, hn])
  apply ite_some_none
  · have : nondecreasing (vals.map (·.key)) = true := by
      apply pairwise_nondecreasing
      rw [e4]
      exact List.pairwise_map.mpr (List.Pairwise.sublist (List.take_sublist _ _) hys.2)
    simp [this]
  apply ite_some_none
  · apply any_eq_false'
    intro x hx
    obtain ⟨j, e, _, _, rfl⟩ := inTake x hx
    rfl
  apply ite_some_none
  · apply any_eq_false'
    intro x hx
    obtain ⟨j, e, _, _, rfl⟩ := inTake x hx
    rfl
  apply ite_some_none
  · intro h
    simp only [Bool.and_eq_true, decide_eq_true_eq, Bool.not_eq_true'] at h
    obtain ⟨hle, hnp⟩ := h
    have : vals.isPerm cy.pushes = true := by
      rw [List.isPerm_iff, e4, List.take_of_length_le (by rw [hyl]; exact hle)]
      exact hys.1
    rw [this] at hnp; cases hnp
  apply ite_some_none
  · have hsub : cy.pushes.Perm (vals ++ ys.drop cy.pulls) := by
      rw [e4, List.take_append_drop]; exact hys.1.symm
    have := foldl_erase_sub vals cy.pushes _ hsub
    intro h; exact h this
  apply ite_some_none
  · have hk := sortedPerm_keys hys
    intro h; apply h
    rw [e4, ← hk, List.map_take, List.length_take]
    rw [show min cy.pulls ys.length = min cy.pulls (ys.map (·.key)).length by rw [List.length_map]]
    exact (List.take_eq_take_min ..)
  apply ite_some_none
  · apply any_eq_false'
    intro x hx
    rw [inDrop x hx]; rfl
  apply ite_some_none
  · apply any_eq_false'
    intro j hj
    have hjp := List.mem_range.mp hj
    rw [e3, hPj j hjp]
    simp only
    by_cases hjn : j < n
    · have hjy : j < ys.length := by rw [hyl]; exact hjn
      rw [List.getElem?_eq_getElem hjy]
      simp only [hjn, if_true]
      simp [hn]
    · rw [List.getElem?_eq_none (by rw [hyl]; omega)]
      simp only [hjn, if_false]
      simp [hn]
  apply ite_some_none
  · intro h
    simp only [Bool.and_eq_true, decide_eq_true_eq] at h
    exact h.2 (h4 h.1)
  rfl

/-- **The executable statement demands no more than the specification**: outputs that satisfy
    `HistorySpec` are accepted by `checkHistory`. -/
theorem checkHistory_complete (ac : Bool) : ∀ (h : List Cycle) (i : Nat) (outs : List Out),
    HistorySpec ac h outs → checkHistory ac h i outs = none := by
  intro h
  induction h with
  | nil => intro i outs _; rfl
  | cons cy rest ih =>
    intro i outs hs
    obtain ⟨ys, outs', hys, rfl, hrest⟩ := hs
    simp only [checkHistory]
    rw [List.take_left' (specCycle_length ac ys cy), checkCycle_complete ac cy ys hys,
      List.drop_left' (specCycle_length ac ys cy)]
    exact ih (i + 1) outs' hrest

/-- on the outputs of a complete run of the history (one output per call) the executable
    statement and the specification coincide -/
theorem checkHistory_iff (ac : Bool) (h : List Cycle) (i : Nat) (outs : List Out)
    (hlen : outs.length = (histOps h).length) :
    checkHistory ac h i outs = none ↔ HistorySpec ac h outs :=
  ⟨checkHistory_sound ac h i outs hlen, checkHistory_complete ac h i outs⟩

/-! ### cycles abandoned with `Clear` (fourth wave)

`checkSegs` / `programStatementA` (what the drivers of C11 and C13 evaluate on a program in which
some cycles are given up with `Clear` before `Finalise`) are the proved-sound `checkHistory` /
`programStatement` when no cycle is abandoned: the extension demands nothing new of use cycles. -/

/-- C11, "whatever earlier cycles did": on a history without abandoned cycles the segment checker
    is the history checker -/
theorem checkSegs_cycles (ac : Bool) (h : List Cycle) (i : Nat) (outs : List Out) :
    checkSegs ac (h.map Seg.cyc) i outs = checkHistory ac h i outs := by
  induction h generalizing i outs with
  | nil => rfl
  | cons cy rest ih =>
    simp only [List.map_cons, checkSegs, checkHistory]
    split <;> simp_all

/-- the executable statement for programs with abandoned cycles coincides with `programStatement`
    on programs without them -/
theorem programStatementA_cycles (ac : Bool) (h : List Cycle) (ops : List Op) (outs : List Out) :
    programStatementA ac (h.map Seg.cyc) ops outs = programStatement ac h ops outs := by
  simp only [programStatementA, programStatement, historyStatement, checkSegs_cycles]

/-- what the property demands of the outputs of a program made of use cycles and abandoned cycles -/
def SegSpec (ac : Bool) : List Seg → List Out → Prop
  | [], outs => outs = []
  | .cyc cy :: rest, outs =>
    ∃ ys outs', SortedPermOf ys cy.pushes ∧ outs = specCycle ac ys cy ++ outs' ∧ SegSpec ac rest outs'
  | .dropped es :: rest, outs =>
    ∃ outs', outs = ((List.range es.length).map (fun i => (⟨.ok, none, i + 1, i + 1⟩ : Out)) ++ [⟨.ok, none, 0, 0⟩]) ++ outs'
      ∧ SegSpec ac rest outs'

/-- **C11 for programs with abandoned cycles** ("whatever earlier cycles did"): for every chunk size
    ≥ 1, AutoClear on or off and every well-formed sequence of use cycles and cycles abandoned with
    `Clear` before `Finalise`, the model's outputs are, segment by segment, those of `specCycle`
    for a sorted enumeration of that cycle's own pushes, resp. nil for every call of an abandoned
    cycle with `Len`/`Pos` counting its pushes and 0/0 after its `Clear`. -/
theorem segs_from_fresh {c : Nat} {ac : Bool} (hc : 1 ≤ c) :
    ∀ (sg : List Seg) {s : State}, Fresh c ac 0 s → wellFormedSegs ac sg = true →
      SegSpec ac sg (run s (sg.flatMap Seg.ops)).2 := by
  intro sg
  induction sg with
  | nil => intro s _ _; simp [run, SegSpec]
  | cons g rest ih =>
    intro s hs hwf
    cases g with
    | cyc cy =>
      obtain ⟨ys, hsp, hout, hclean, hclosed⟩ := cycle_spec (ac := ac) hc cy hs
      have hops : (Seg.cyc cy :: rest).flatMap Seg.ops = cy.ops ++ rest.flatMap Seg.ops := by simp [Seg.ops]
      rw [hops, run_append s _ _ hclean]
      refine ⟨ys, _, hsp, by rw [hout], ?_⟩
      cases rest with
      | nil => simp [run, SegSpec]
      | cons g2 rest2 =>
        simp only [wellFormedSegs, Bool.and_eq_true] at hwf
        exact ih (hclosed hwf.1) hwf.2
    | dropped es =>
      obtain ⟨hout, hfresh⟩ := abandoned_cycle_fresh (ac := ac) hc hs es
      have hclean : Clean (run s (es.map Op.push ++ [Op.clear])).2 := by
        rw [hout]; intro o ho
        simp only [List.mem_append, List.mem_map, List.mem_singleton] at ho
        rcases ho with ⟨i, _, rfl⟩ | rfl <;> simp
      have hops : (Seg.dropped es :: rest).flatMap Seg.ops = (es.map Op.push ++ [Op.clear]) ++ rest.flatMap Seg.ops := by
        simp [Seg.ops]
      rw [hops, run_append s _ _ hclean]
      refine ⟨_, by rw [hout], ?_⟩
      cases rest with
      | nil => simp [run, SegSpec]
      | cons g2 rest2 =>
        simp only [wellFormedSegs, Bool.and_eq_true] at hwf
        exact ih hfresh hwf.2

/-- the expected outputs of an abandoned cycle of `n` pushes -/
def droppedOuts (n : Nat) : List Out :=
  (List.range n).map (fun i => (⟨.ok, none, i + 1, i + 1⟩ : Out)) ++ [⟨.ok, none, 0, 0⟩]

theorem droppedOuts_length (n : Nat) : (droppedOuts n).length = n + 1 := by
  simp [droppedOuts]

/-- `checkDropped` accepts exactly the outputs `droppedOuts n` -/
theorem checkDropped_iff (n : Nat) (o : List Out) (hlen : o.length = n + 1) :
    checkDropped n o = none ↔ o = droppedOuts n := by
  unfold checkDropped droppedOuts
  constructor
  · intro h
    split at h
    · cases h
    · rename_i h1
      split at h
      · cases h
      · rename_i h2
        have h1' := Classical.not_not.mp h1
        have h2' := Classical.not_not.mp h2
        have hd : o.drop n = [⟨.ok, none, 0, 0⟩] := by
          have hl : (o.drop n).length = 1 := by rw [List.length_drop]; omega
          match hdd : o.drop n, hl with
          | [x], _ =>
            have : o[n]? = some x := by
              have := List.getElem?_drop (xs := o) (i := n) (j := 0)
              rw [hdd] at this; simpa using this.symm
            rw [this] at h2'; cases h2'; rfl
        rw [← List.take_append_drop n o, h1', hd]
  · intro h
    subst h
    have hl : ((List.range n).map (fun i => (⟨.ok, none, i + 1, i + 1⟩ : Out))).length = n := by simp
    rw [if_neg (by rw [List.take_left' hl]; exact fun h => h rfl)]
    rw [if_neg]
    rw [List.getElem?_append_right (by omega), hl]
    simp

theorem seg_ops_length_dropped (es : List Elem) : (Seg.dropped es).ops.length = es.length + 1 := by
  simp [Seg.ops]

/-- **The segment checker is sound**: whatever outputs (one per call) `checkSegs` accepts satisfy
    `SegSpec` - every use cycle delivers the sorted multiset of its own pushes (nothing of an
    abandoned cycle), every abandoned cycle answers nil with `Len`/`Pos` restarting.  This closes
    the gap between what the drivers of C11/C13 evaluate on the implementation's observation of a
    program with abandoned cycles and the specification `segs_from_fresh` proves of the model. -/
theorem checkSegs_sound (ac : Bool) : ∀ (sg : List Seg) (i : Nat) (outs : List Out),
    outs.length = (sg.flatMap Seg.ops).length → checkSegs ac sg i outs = none → SegSpec ac sg outs := by
  intro sg
  induction sg with
  | nil =>
    intro i outs hlen _
    simp only [List.flatMap_nil, List.length_nil] at hlen
    exact List.eq_nil_of_length_eq_zero hlen
  | cons g rest ih =>
    intro i outs hlen hc
    cases g with
    | cyc cy =>
      have hops : ((Seg.cyc cy :: rest).flatMap Seg.ops).length = cycleOpCount cy + (rest.flatMap Seg.ops).length := by
        simp only [List.flatMap_cons, List.length_append, Seg.ops, cycle_ops_length]
      rw [hops] at hlen
      simp only [checkSegs] at hc
      cases hcc : checkCycle ac cy (outs.take (cycleOpCount cy)) with
      | some why => rw [hcc] at hc; cases hc
      | none =>
        rw [hcc] at hc
        obtain ⟨ys, hys, hspec⟩ := checkCycle_sound ac cy (outs.take (cycleOpCount cy))
          (by rw [List.length_take]; omega) hcc
        refine ⟨ys, outs.drop (cycleOpCount cy), hys, ?_, ?_⟩
        · rw [← hspec, List.take_append_drop]
        · exact ih (i + 1) _ (by rw [List.length_drop]; omega) hc
    | dropped es =>
      have hops : ((Seg.dropped es :: rest).flatMap Seg.ops).length = (es.length + 1) + (rest.flatMap Seg.ops).length := by
        simp only [List.flatMap_cons, List.length_append, seg_ops_length_dropped]
      rw [hops] at hlen
      simp only [checkSegs] at hc
      cases hcc : checkDropped es.length (outs.take (es.length + 1)) with
      | some why => rw [hcc] at hc; cases hc
      | none =>
        rw [hcc] at hc
        have hd := (checkDropped_iff es.length _ (by rw [List.length_take]; omega)).mp hcc
        refine ⟨outs.drop (es.length + 1), ?_, ?_⟩
        · show outs = droppedOuts es.length ++ _
          rw [← hd, List.take_append_drop]
        · exact ih (i + 1) _ (by rw [List.length_drop]; omega) hc

/-- **The segment checker demands no more than the specification**: outputs that satisfy
    `SegSpec` are accepted by `checkSegs`. -/
theorem checkSegs_complete (ac : Bool) : ∀ (sg : List Seg) (i : Nat) (outs : List Out),
    SegSpec ac sg outs → checkSegs ac sg i outs = none := by
  intro sg
  induction sg with
  | nil => intro i outs _; rfl
  | cons g rest ih =>
    intro i outs hs
    cases g with
    | cyc cy =>
      obtain ⟨ys, outs', hys, rfl, hrest⟩ := hs
      simp only [checkSegs]
      rw [List.take_left' (specCycle_length ac ys cy), checkCycle_complete ac cy ys hys,
        List.drop_left' (specCycle_length ac ys cy)]
      exact ih (i + 1) outs' hrest
    | dropped es =>
      obtain ⟨outs', rfl, hrest⟩ := hs
      simp only [checkSegs]
      have hl := droppedOuts_length es.length
      change (match checkDropped es.length ((droppedOuts es.length ++ outs').take (es.length + 1)) with
        | some why => _ | none => checkSegs ac rest (i + 1) ((droppedOuts es.length ++ outs').drop (es.length + 1))) = none
      rw [List.take_left' hl, (checkDropped_iff es.length _ hl).mpr rfl, List.drop_left' hl]
      exact ih (i + 1) outs' hrest

/-- on one output per call the segment checker and `SegSpec` coincide -/
theorem checkSegs_iff (ac : Bool) (sg : List Seg) (i : Nat) (outs : List Out)
    (hlen : outs.length = (sg.flatMap Seg.ops).length) :
    checkSegs ac sg i outs = none ↔ SegSpec ac sg outs :=
  ⟨checkSegs_sound ac sg i outs hlen, checkSegs_complete ac sg i outs⟩

/-- **what the drivers of C11 and C13 evaluate on a program with abandoned cycles and rejected
    pushes**: if `programStatementA` accepts the implementation's outputs of a program whose
    accepted calls `segsOf` recognises as the well-formed segments `sg`, then the outputs of the
    accepted calls satisfy `SegSpec ac sg` and every rejected `Push` is a no-op. -/
theorem programStatementA_sound (ac : Bool) (ops : List Op) (sg : List Seg) (outs : List Out)
    (hh : segsOf ac (dropRejects ops) = some sg) (hs : programStatementA ac sg ops outs = none) :
    wellFormedSegs ac sg = true ∧ sg.flatMap Seg.ops = dropRejects ops ∧ SegSpec ac sg (dropRejOuts outs)
      ∧ outs = weave ops (dropRejOuts outs) 0 0 := by
  unfold segsOf at hh
  split at hh
  · rename_i g hg
    split at hh
    · rename_i hcond
      simp only [Option.some.injEq] at hh
      subst hh
      unfold programStatementA at hs
      split at hs
      · cases hs
      · rename_i hl
        have hl : outs.length = ops.length := Decidable.not_not.mp hl
        cases hrs : rejectsStatement ops outs 0 0 with
        | some why => rw [hrs] at hs; cases hs
        | none =>
          rw [hrs] at hs
          simp only at hs
          by_cases hl2 : (dropRejOuts outs).length = (dropRejects ops).length
          · rw [if_neg (fun h => h hl2)] at hs
            refine ⟨hcond.2, hcond.1, ?_, (rejectsStatement_sound ops outs 0 0 hl hrs).1⟩
            exact checkSegs_sound ac g 1 _ (by rw [hcond.1]; exact hl2) hs
          · rw [if_pos hl2] at hs; cases hs
    · cases hh
  · cases hh

/-- non-vacuity of `checkSegs_sound` / `checkSegs_iff`: the outputs of an abandoned cycle of two
    pushes are accepted, and a `Len` that did not restart after its `Clear` is refused -/
example : checkSegs true [.dropped [⟨5,0⟩, ⟨3,0⟩]] 1
    [⟨.ok, none, 1, 1⟩, ⟨.ok, none, 2, 2⟩, ⟨.ok, none, 0, 0⟩] = none := by decide
example : checkSegs true [.dropped [⟨5,0⟩, ⟨3,0⟩]] 1
    [⟨.ok, none, 1, 1⟩, ⟨.ok, none, 2, 2⟩, ⟨.ok, none, 2, 0⟩] ≠ none := by decide

/-- non-vacuity: memory-only cycle, abandoned spilling cycle, drained cycle (the shape of C13-m7) -/
example : wellFormedSegs true [.cyc ⟨[⟨2,0⟩], 2, true⟩, .dropped [⟨5,0⟩, ⟨3,0⟩, ⟨4,0⟩], .cyc ⟨[⟨7,0⟩], 2, false⟩] = true := by decide

end Biogo.Properties.C11_checker
