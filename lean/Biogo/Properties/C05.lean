/-
C05 — Reverse-complement, reverse and clone obey their algebra on all sequence types.
Property theorems only; the lemmas are in Biogo.Proofs.Containers.  The theorems are about
the definitions the driver executes (`Biogo.Containers.Lin.revComp`, `Multi.revComp`, … in
Biogo/Model/Containers.lean, interpreted by `Biogo.Containers.apply`).

Hypotheses: `Lin.Valid h l` (the sequence's slice lies in an allocated backing array) and
`RowsWF h rows` (the rows of a multi own pairwise different, allocated arrays) hold of every
object the constructors build (`newLins_wf` below) and are preserved by every operation
proved here; `Multi.InRange` (at least one row, coordinates representable as Go ints) is the
only condition on inputs.
-/
import Biogo.Model.Alphabet
import Biogo.Generated.Alphabets
import Biogo.Model.ContWorld
import Biogo.Proofs.Containers
import Biogo.Proofs.ContFrame
import Biogo.Proofs.ContAln
import Biogo.Proofs.ContSepWorld
import Biogo.Proofs.ContRow
import Biogo.Proofs.ContModelObs
import Biogo.Proofs.ContModelObs05

namespace Biogo.Properties.C05
open Biogo.Alphabet Biogo.Containers Biogo.Go

/-! ### the complement of a built-in alphabet is an involution on the letters it pairs -/

def pairedInvolutiveAt (d : Def) (l : UInt8) : Bool :=
  match ctxOfDef d with
  | some (cx, pairs) => !pairs l || (pairs (cx.comp l) && cx.comp (cx.comp l) == l)
  | none => false

theorem builtin_complement_involutive_nat :
    ∀ d ∈ Biogo.Generated.builtins, ∀ n < 256, pairedInvolutiveAt d (UInt8.ofNat n) = true := by
  decide +kernel

/-- for every built-in alphabet and every letter `l` it pairs, the complement table maps `l`
    to a paired letter and back to `l` (regenerated definitions, all 256 letters). -/
theorem builtin_complement_involutive (d : Def) (hd : d ∈ Biogo.Generated.builtins) (l : UInt8) :
    pairedInvolutiveAt d l = true := by
  have h := builtin_complement_involutive_nat d hd l.toNat l.toNat_lt
  simpa using h

/-! ### the two-pointer loop -/

/-- **loop = list specification.** The in-place loop
    `i, j := 0, len-1; for i < j { l[i], l[j] = f l[j], f l[i]; i++; j-- }; if i == j { l[i] = f l[i] }`
    computes `map f (reverse l)`, for every length (odd: the middle element is mapped once;
    even: no middle element). -/
theorem two_pointer_loop_eq_list_spec {α : Type} (f : α → α) (l : List α) :
    twoPtr f true (loopFuel l.length) 0 l.length l = l.reverse.map f :=
  twoPtr_spec f l

/-- the loop of `Reverse` (no middle step) computes `reverse l` -/
theorem reverse_loop_eq_list_spec {α : Type} (l : List α) :
    twoPtr id false (loopFuel l.length) 0 l.length l = l.reverse :=
  twoPtr_reverse l

-- non-vacuity: odd and even lengths, the middle element is complemented exactly once
example : twoPtr (· + 10) true (loopFuel 5) 0 5 [1, 2, 3, 4, 5] = [15, 14, 13, 12, 11] := by decide
example : twoPtr (· + 10) true (loopFuel 4) 0 4 [1, 2, 3, 4] = [14, 13, 12, 11] := by decide
example : twoPtr (· + 10) true (loopFuel 0) 0 0 ([] : List Nat) = [] := by decide

/-- the same loop run on a slice of the heap is, seen through that slice, the list loop, and
    no other backing array changes -/
theorem heap_loop_refines_list_loop {α : Type} (f : α → α) (mid : Bool) (s : Slice) (fuel i j1 : Nat)
    (h : Heap α) (hs : s.arr < h.arrays.length) :
    (hTwoPtr f mid s fuel i j1 h).read s = twoPtr f mid fuel i j1 (h.read s)
    ∧ ∀ b, s.arr ≠ b → (hTwoPtr f mid s fuel i j1 h).arr b = h.arr b :=
  ⟨read_hTwoPtr f mid s fuel i j1 h hs, fun b hb => arr_hTwoPtr f mid s b hb fuel i j1 h⟩

/-! ### linear.Seq and linear.QSeq -/

/-- **revcomp_spec (linear.Seq, linear.QSeq).** "RevComp equals reversal followed by letterwise
    complement, with qualities travelling with their letters, strand negated": the letters `At`
    reports over `[Start,End)` after `RevComp` are `map complement (reverse before)`, each with
    the quality of the letter it came from; `Strand` is negated; `Start`/`End` are unchanged. -/
theorem revcomp_spec_linear (cx : Ctx) (h : Cells) (l : Lin) (hv : l.Valid h) :
    (l.revComp cx h).2.letters (l.revComp cx h).1 = (l.letters h).reverse.map (compQL cx.comp)
    ∧ (l.revComp cx h).2.strand = -l.strand
    ∧ (l.revComp cx h).2.start = l.start ∧ (l.revComp cx h).2.«end» = l.«end» :=
  Lin.revComp_spec cx h l hv

/-- **revcomp_involutive (linear).** "applying it twice restores the original letters,
    qualities, strand and coordinates" — for letters on which the complement is an involution,
    which `builtin_complement_involutive` shows to be every letter a built-in alphabet pairs. -/
theorem revcomp_involutive_linear (cx : Ctx) (h : Cells) (l : Lin) (hv : l.Valid h)
    (hinv : ∀ c ∈ l.letters h, cx.comp (cx.comp c.L) = c.L) :
    let r1 := l.revComp cx h
    let r2 := r1.2.revComp cx r1.1
    r2.2.letters r2.1 = l.letters h ∧ r2.2.strand = l.strand ∧ r2.2.start = l.start ∧ r2.2.«end» = l.«end» :=
  Lin.revComp_twice cx h l hv hinv

/-- **reverse_involutive (linear).** "Reverse applied twice is the identity on letters" -/
theorem reverse_involutive_linear (h : Cells) (l : Lin) (hv : l.Valid h) :
    let r1 := l.reverse h
    let r2 := r1.2.reverse r1.1
    r2.2.letters r2.1 = l.letters h ∧ r2.2.start = l.start ∧ r2.2.«end» = l.«end» :=
  Lin.reverse_twice h l hv

/-! ### multi.Multi -/

/-- **revcomp_spec (multi.Multi) and multi_revcomp_mirror.** For a multiple alignment whose
    span is `[S,E)`: every row of `RevComp`'s result holds the reverse complement of the
    corresponding row (qualities travelling, strand negated) and occupies
    `[S+E-end_i, S+E-start_i)` — "every row of a multiple alignment mirrored about the
    alignment's span". -/
theorem revcomp_spec_multi (cx : Ctx) (h : Cells) (m : Multi) (hwf : RowsWF h m.rows) :
    All2 (fun r r' =>
        r'.letters (m.revComp cx h).1 = (r.letters h).reverse.map (compQL cx.comp)
        ∧ r'.strand = -r.strand
        ∧ r'.start = m.start + m.«end» - r.«end» ∧ r'.«end» = m.start + m.«end» - r.start
        ∧ r'.q = r.q ∧ r'.name = r.name)
      m.rows (m.revComp cx h).2.rows :=
  (Multi.revComp_rows cx h m hwf).1

/-- the mirrored alignment has the same span -/
theorem multi_revcomp_mirror_span (cx : Ctx) (h : Cells) (m : Multi) (hwf : RowsWF h m.rows)
    (hr : m.InRange) :
    (m.revComp cx h).2.start = m.start ∧ (m.revComp cx h).2.«end» = m.«end» := by
  obtain ⟨a1, _⟩ := Multi.revComp_rows cx h m hwf
  obtain ⟨s1, e1, _⟩ := Multi.span_mirror m (m.revComp cx h).2 hr
    (a1.imp fun a b hab => ⟨hab.2.2.1, hab.2.2.2.1⟩)
  exact ⟨s1, e1⟩

/-- **revcomp_involutive (multi.Multi).** Letters, qualities, strand and the coordinates of every
    row, and the span, are restored by a second `RevComp`. -/
theorem revcomp_involutive_multi (cx : Ctx) (h : Cells) (m : Multi) (hwf : RowsWF h m.rows)
    (hr : m.InRange) (hinv : ∀ r ∈ m.rows, ∀ c ∈ r.letters h, cx.comp (cx.comp c.L) = c.L) :
    let m1 := m.revComp cx h
    let m2 := m1.2.revComp cx m1.1
    All2 (fun r r2 => r2.letters m2.1 = r.letters h ∧ r2.strand = r.strand ∧ r2.start = r.start ∧
        r2.«end» = r.«end» ∧ r2.q = r.q ∧ r2.name = r.name) m.rows m2.2.rows
    ∧ m2.2.start = m.start ∧ m2.2.«end» = m.«end» :=
  Multi.revComp_twice cx h m hwf hr hinv

/-- **reverse_involutive (multi.Multi).** -/
theorem reverse_involutive_multi (h : Cells) (m : Multi) (hwf : RowsWF h m.rows) (hr : m.InRange) :
    let m1 := m.reverse h
    let m2 := m1.2.reverse m1.1
    All2 (fun r r2 => r2.letters m2.1 = r.letters h ∧ r2.start = r.start ∧ r2.«end» = r.«end»)
      m.rows m2.2.rows :=
  Multi.reverse_twice h m hwf hr

/-! ### Clone is deep (heap model) -/

/-- every history starts separated: the rows of the initial object own pairwise different
    backing arrays (the constructors copy the caller's letters) -/
theorem initial_object_separated (cx : Ctx) (kind : String) (strand : Int) (rows : List SeqSpec)
    (hkind : kind = "multi" ∨ kind = "set" ∨ ((kind = "lin" ∨ kind = "qlin") ∧ rows ≠ [])) :
    Separated (initWorld cx kind strand rows) :=
  initWorld_separated cx kind strand rows hkind

/-- **frame**: in a world of linear sequences, multis and sets, whatever operations of C05
    (`RevComp`, `Reverse`, `Clone`, `Set`, row `RevComp`/`Reverse`) are applied to *other*
    objects, an object stays the same and is observed the same: `At(i)` over every row's
    `[Start,End)`, `Start`, `End`, strand of every row. -/
theorem untouched_object_unchanged (cx : Ctx) (w : World) (hs : Separated w) (ops : List Op)
    (hops : ∀ op ∈ ops, op.isC05 = true) (j : Nat) (oj : Obj) (hj : w.objs[j]? = some oj)
    (hnot : ∀ op ∈ ops, op.target ≠ some j) :
    (runOps cx w ops).objs[j]? = some oj ∧ oj.rowsV (runOps cx w ops).cells = oj.rowsV w.cells :=
  let r := Biogo.Containers.untouched_object_unchanged cx ops w hs hops j oj hj hnot
  ⟨r.1, r.2.1⟩

/-- **clone_deep.** "Clone returns an independent deep copy: no later mutation of either copy
    is visible through the other."  Let object `k` be cloned (the copy is object
    `n = w.objs.length`).  (a) The copy is observed equal to the original.  (b) After any
    sequence of C05 operations none of which is applied to the original, the original is
    observed as before — in particular whatever is written through the copy.  (c) After any
    sequence none of which is applied to the copy, the copy is observed as the original was
    when it was cloned — whatever is written through the original. -/
theorem clone_deep (cx : Ctx) (w : World) (hs : Separated w) (k : Nat) (o : Obj)
    (hk : w.objs[k]? = some o) (hclonable : ∀ m, o ≠ .set m)
    (ops : List Op) (hops : ∀ op ∈ ops, op.isC05 = true) :
    let w1 := (apply cx w (.clone k)).1
    ∃ c, w1.objs[w.objs.length]? = some c ∧ c.rowsV w1.cells = o.rowsV w.cells ∧
      ((∀ op ∈ ops, op.target ≠ some k) →
        (runOps cx w1 ops).objs[k]? = some o ∧ o.rowsV (runOps cx w1 ops).cells = o.rowsV w.cells) ∧
      ((∀ op ∈ ops, op.target ≠ some w.objs.length) →
        (runOps cx w1 ops).objs[w.objs.length]? = some c ∧
        c.rowsV (runOps cx w1 ops).cells = o.rowsV w.cells) := by
  intro w1
  obtain ⟨c, hc, hobs⟩ := clone_observed_equal cx w hs k o hk hclonable
  obtain ⟨hsep1, hoth1⟩ := step_clone cx w hs k
  obtain ⟨hk1, hko⟩ := hoth1 k o (by simp [Op.target]) hk
  refine ⟨c, hc, hobs, ?_, ?_⟩
  · intro hnot
    have r := Biogo.Containers.untouched_object_unchanged cx ops w1 hsep1 hops k o hk1 hnot
    exact ⟨r.1, r.2.1.trans hko⟩
  · intro hnot
    have r := Biogo.Containers.untouched_object_unchanged cx ops w1 hsep1 hops w.objs.length c hc hnot
    exact ⟨r.1, r.2.1.trans hobs⟩

-- non-vacuity: a ragged two-row multi (rows [0,5) ACGTA and [2,8) GGTTCC) is separated, can be
-- cloned, and RevComp of the clone (object 1) mirrors its rows while the original keeps its own
example :
    let cx : Ctx := { comp := fun l => l, gap := 45, amb := 110,
                      alpha := ⟨[], 0, fun _ => false, fun _ => -1, 45, 110, false⟩, grow := growExact }
    let rows : List SeqSpec := [⟨false, 0, 1, 0, [⟨65, 0⟩, ⟨67, 0⟩, ⟨71, 0⟩, ⟨84, 0⟩, ⟨65, 0⟩]⟩,
                               ⟨false, 2, 1, 1, [⟨71, 0⟩, ⟨71, 0⟩, ⟨84, 0⟩, ⟨84, 0⟩, ⟨67, 0⟩, ⟨67, 0⟩]⟩]
    let w := runOps cx (initWorld cx "multi" 1 rows) [.clone 0, .revComp 1]
    ((w.objs.map fun o => (o.rowsV w.cells).map fun r => (r.start, r.«end»))
      = [[(0, 5), (2, 8)], [(3, 8), (0, 6)]]) := by decide

/-! ### alignment.Seq and alignment.QSeq (column-stored) -/

/-- **revcomp_spec (alignment.Seq, alignment.QSeq).** For an alignment whose columns are
    well formed (`ColsWF`: every column an allocated slice of `n` cells, pairwise different
    arrays): after `RevComp` the list of columns is the reversed list with every letter
    complemented and every quality travelling with its letter; so every row `r < n` reads
    (`Row(r).At` over the span) as the reverse complement of what it read; the alignment's
    strand is negated; `Start`/`End` and the row annotations are unchanged. -/
theorem revcomp_spec_alignment (cx : Ctx) (h : Cells) (a : Aln) (n : Nat) (hw : ColsWF h n a.cols) :
    (a.revComp cx h).2.cols.map (a.revComp cx h).1.read
        = (a.cols.map h.read).reverse.map (List.map (compQL cx.comp)) ∧
    (∀ r, r < n → (a.revComp cx h).2.rowLetters (a.revComp cx h).1 r
        = (a.rowLetters h r).reverse.map (compQL cx.comp)) ∧
    (a.revComp cx h).2.strand = -a.strand ∧ (a.revComp cx h).2.start = a.start ∧
    (a.revComp cx h).2.«end» = a.«end» ∧ (a.revComp cx h).2.subs = a.subs :=
  let r := Aln.revComp_spec cx h a n hw
  ⟨r.1, r.2.1, r.2.2.1, r.2.2.2.1, r.2.2.2.2.1, r.2.2.2.2.2.1⟩

/-- **revcomp_involutive (alignment.Seq, alignment.QSeq).** -/
theorem revcomp_involutive_alignment (cx : Ctx) (h : Cells) (a : Aln) (n : Nat) (hw : ColsWF h n a.cols)
    (hinv : ∀ c ∈ a.cols, ∀ x ∈ h.read c, cx.comp (cx.comp x.L) = x.L) :
    let r1 := a.revComp cx h
    let r2 := r1.2.revComp cx r1.1
    (∀ r, r2.2.rowLetters r2.1 r = a.rowLetters h r) ∧
    r2.2.strand = a.strand ∧ r2.2.start = a.start ∧ r2.2.«end» = a.«end» :=
  let r := Aln.revComp_twice cx h a n hw hinv
  ⟨r.2.1, r.2.2⟩

/-- `alignment.Seq.Reverse` reverses the list of columns; twice is the identity -/
theorem reverse_involutive_alignment (a : Aln) :
    a.reverse.cols = a.cols.reverse ∧ a.reverse.reverse.cols = a.cols := by
  have h1 : a.reverse.cols = a.cols.reverse := twoPtr_reverse a.cols
  refine ⟨h1, ?_⟩
  have h2 : a.reverse.reverse.cols = a.reverse.cols.reverse := twoPtr_reverse a.reverse.cols
  rw [h2, h1, List.reverse_reverse]

-- non-vacuity: the alignment the constructor builds from three rows of three letters is well formed
example :
    let cx : Ctx := { comp := fun l => l, gap := 45, amb := 110,
                      alpha := ⟨[], 0, fun _ => false, fun _ => -1, 45, 110, false⟩, grow := growExact }
    let w := initWorld cx "qaln" 1 [⟨true, 0, 1, 0, [⟨65, 30⟩, ⟨67, 31⟩, ⟨71, 32⟩]⟩,
                                   ⟨true, 0, 1, 1, [⟨71, 20⟩, ⟨71, 21⟩, ⟨84, 22⟩]⟩]
    (match w.objs with
     | [.aln a] => a.cols.length = 3 ∧ ColsWF w.cells 2 a.cols
     | _ => False) := by
  simp only [initWorld]
  refine ⟨by decide, ⟨?_, by decide⟩⟩
  intro c hc
  simp only [ColValid]
  revert c
  decide

/-- **clone_deep (alignment.Seq, alignment.QSeq), one step.** `Clone` of a well-formed
    alignment gives an alignment whose columns read exactly as the original's, all in backing
    arrays that did not exist before (pairwise different), with its own copy of the row
    annotations (after fix F6; `SubAnnotations` are values in the model); no array of the
    original is changed.  Hence a write through a column of either alignment is not seen
    through any column of the other. -/
theorem clone_deep_alignment (cx : Ctx) (h : Cells) (a : Aln) (n : Nat) (hw : ColsWF h n a.cols) :
    All2 (fun c c' => (a.clone cx h).1.read c' = h.read c ∧ h.arrays.length ≤ c'.arr)
      a.cols (a.clone cx h).2.cols ∧
    ColsWF (a.clone cx h).1 n (a.clone cx h).2.cols ∧
    (∀ c ∈ a.cols, (a.clone cx h).1.read c = h.read c) ∧
    (a.clone cx h).2.subs = a.subs ∧ (a.clone cx h).2.strand = a.strand ∧
    -- writes through the copy are invisible through the original, and vice versa
    (∀ c ∈ a.cols, ∀ c' ∈ (a.clone cx h).2.cols, ∀ (i : Nat) (v : QL),
        ((a.clone cx h).1.set c' i v).read c = (a.clone cx h).1.read c ∧
        ((a.clone cx h).1.set c i v).read c' = (a.clone cx h).1.read c') := by
  obtain ⟨news, h2, hall, hpw, _, hfr⟩ := cloneColsFold_spec cx n a.cols h [] hw.1
  rw [Aln.clone_eq]
  simp only [List.nil_append] at h2
  simp only [h2]
  refine ⟨hall.imp fun c c' hcc => ⟨hcc.1, hcc.2.1⟩,
          ⟨fun c' hc' => by obtain ⟨c, _, hr⟩ := hall.exists_left c' hc'; exact hr.2.2, hpw⟩,
          fun c hc => read_congr_arr _ _ _ (hfr _ (hw.1 c hc).1), trivial, trivial, ?_⟩
  intro c hc c' hc' i v
  obtain ⟨c0, _, hr⟩ := hall.exists_left c' hc'
  have hne : c'.arr ≠ c.arr := by have := hr.2.1; have := (hw.1 c hc).1; omega
  exact ⟨Heap.read_set_other _ _ _ _ _ hne, Heap.read_set_other _ _ _ _ _ hne.symm⟩

/-- the function the driver executes (`runHistory`) reports, as its last observation, the
    observation of exactly the world that `runOps` — the function `clone_deep` and
    `untouched_object_unchanged` speak about — reaches -/
theorem history_observes_runOps (cx : Ctx) (w : World) (ops : List Op) :
    ∃ res, (runHistory cx w ops).getLast? = some (res, (runOps cx w ops).view cx) :=
  runHistory_last cx w ops

/-! ### Clone is deep — every container kind, every operation of the C05 and C07 histories

`WorldWF w`: every object of the world is well formed (its slices lie with their capacity inside
allocated backing arrays; the rows of a multi / the columns of a column-stored alignment are in
pairwise different arrays; all columns of an alignment have `Rows()` entries), different objects
own different backing arrays, and no caller-owned buffer lies in an array an object owns.
`Op.written op` is the object `op` is applied to (`none` for `Clone`, `Subseq`, and the
operations on caller buffers).  `viewObj` is the complete observation the driver compares:
per row `Start`, `End`, strand, name, kind and `At` over the span; `Column(p, true)`,
`ColumnQL(p, true)`, `Column(p, false)` for every position of the span; the consensus letters. -/

/-- the initial object of **every** history (linear, column-stored alignment, multi, set) is
    well formed -/
theorem initial_object_wellformed (cx : Ctx) (kind : String) (strand : Int) (rows : List SeqSpec) :
    WorldWF (initWorld cx kind strand rows) :=
  initWorld_wf cx kind strand rows

/-- one operation of the histories — any of `RevComp`, `Reverse`, `Clone`, `Set`, row
    `RevComp`/`Reverse`, `AppendColumns`, `AppendEach`, `Add`, `Delete`, `Flush`, `Truncate`,
    `Subseq`, creation and mutation of a caller buffer — on any kind of object keeps the world
    well formed and leaves every object it is not applied to, and its complete observation,
    unchanged -/
theorem operation_is_local (cx : Ctx) (w : World) (hw : WorldWF w) (op : Op) :
    WorldWF (apply cx w op).1 ∧
    ∀ (j : Nat) (oj : Obj), op.written ≠ some j → w.objs[j]? = some oj →
      (apply cx w op).1.objs[j]? = some oj ∧
      viewObj cx (apply cx w op).1.cells oj = viewObj cx w.cells oj :=
  step_all cx w hw op

/-- **frame, all container kinds**: in a well-formed world — column-stored `alignment.Seq/QSeq`
    included, and with caller-owned buffers — whatever sequence of operations of the C05 and C07
    histories is applied to *other* objects or to caller buffers, an object stays the same and
    its complete observation stays the same. -/
theorem untouched_object_unchanged_all (cx : Ctx) (w : World) (hw : WorldWF w) (ops : List Op)
    (j : Nat) (oj : Obj) (hj : w.objs[j]? = some oj) (hnot : ∀ op ∈ ops, op.written ≠ some j) :
    (runOps cx w ops).objs[j]? = some oj ∧
    viewObj cx (runOps cx w ops).cells oj = viewObj cx w.cells oj :=
  untouched_all cx ops w hw j oj hj hnot

/-- **clone_deep, all container kinds, all histories.**  Let object `k` — a `linear.Seq/QSeq`, a
    `multi.Multi` or a column-stored `alignment.Seq/QSeq` — be cloned in a well-formed world (the
    copy is object `n = w.objs.length`).  (a) The complete observation of the copy equals that of
    the original.  (b) After any sequence of operations of the C05 and C07 histories none of
    which is applied to the original, the original is observed exactly as before — whatever is
    written through the copy, through other objects or through caller buffers.  (c) After any
    sequence none of which is applied to the copy, the copy is observed as the original was when
    it was cloned.  (The hypothesis `WorldWF` holds of every reachable state:
    `initial_object_wellformed`, `operation_is_local`.) -/
theorem clone_deep_all (cx : Ctx) (w : World) (hw : WorldWF w) (k : Nat) (o : Obj)
    (hk : w.objs[k]? = some o) (hclonable : ∀ m, o ≠ .set m) (ops : List Op) :
    let w1 := (apply cx w (.clone k)).1
    ∃ c, w1.objs[w.objs.length]? = some c ∧ viewObj cx w1.cells c = viewObj cx w.cells o ∧
      ((∀ op ∈ ops, op.written ≠ some k) →
        (runOps cx w1 ops).objs[k]? = some o ∧
        viewObj cx (runOps cx w1 ops).cells o = viewObj cx w.cells o) ∧
      ((∀ op ∈ ops, op.written ≠ some w.objs.length) →
        (runOps cx w1 ops).objs[w.objs.length]? = some c ∧
        viewObj cx (runOps cx w1 ops).cells c = viewObj cx w.cells o) := by
  intro w1
  obtain ⟨c, hc, hobs⟩ := clone_view_equal cx w hw k o hk hclonable
  obtain ⟨hw1, hoth1⟩ := step_all cx w hw (.clone k)
  obtain ⟨hk1, hko⟩ := hoth1 k o (by simp [Op.written]) hk
  refine ⟨c, hc, hobs, ?_, ?_⟩
  · intro hnot
    have r := untouched_all cx ops w1 hw1 k o hk1 hnot
    exact ⟨r.1, r.2.trans hko⟩
  · intro hnot
    have r := untouched_all cx ops w1 hw1 w.objs.length c hc hnot
    exact ⟨r.1, r.2.trans hobs⟩

-- non-vacuity: a quality alignment of two rows and three columns is cloned; the copy's row 0 is
-- reverse-complemented, a row is deleted from it and a column appended to it from a caller
-- buffer that is mutated afterwards; the original is observed exactly as at the start
example :
    let cx : Ctx := { comp := fun l => l, gap := 45, amb := 110,
                      alpha := ⟨[], 0, fun _ => false, fun _ => -1, 45, 110, false⟩, grow := growExact }
    let w0 := initWorld cx "qaln" 1 [⟨true, 0, 1, 0, [⟨65, 30⟩, ⟨67, 31⟩, ⟨71, 32⟩]⟩,
                                    ⟨true, 0, 1, 1, [⟨71, 20⟩, ⟨71, 21⟩, ⟨84, 22⟩]⟩]
    let w := runOps cx w0 [.clone 0, .rowRevComp 1 0, .delete 1 1, .mkbuf [⟨84, 9⟩] 0, .appendCols 1 [0],
                           .mutbuf 0 0 ⟨67, 1⟩]
    ((w.objs.map fun o => (viewObj cx w.cells o).rows.map fun r => (r.strand, r.cells.map (·.L)))
        = [[(1, [65, 67, 71]), (1, [71, 71, 84])], [(-1, [71, 67, 65, 84])]]) ∧
    (w0.objs.map (viewObj cx w0.cells)) = (w.objs.take 1).map (viewObj cx w.cells) := by decide

/-! ### alignment.Row / alignment.QRow: RevComp and Reverse of one row of a column-stored alignment -/

/-- **revcomp_spec (alignment.Row, alignment.QRow).** For a well-formed alignment of `n` rows and
    `r < n`: after `Row(r).RevComp()` row `r` reads (`At` over the span) as the reverse of what it
    read with every letter complemented, each quality travelling with its letter; every other
    row reads exactly as before; only the strand of row `r`'s annotation is negated (every other
    row annotation, and name and offset of row `r`, are untouched); the alignment's own strand,
    coordinates and columns are unchanged, and no backing array outside the alignment's columns
    is written. -/
theorem row_revcomp_spec_alignment (cx : Ctx) (h : Cells) (a : Aln) (n : Nat) (hw : ColsWF h n a.cols)
    (r : Nat) (hr : r < n) :
    (a.rowRevComp cx h r).2.rowLetters (a.rowRevComp cx h r).1 r
        = (a.rowLetters h r).reverse.map (compQL cx.comp) ∧
    (∀ r', r' ≠ r → (a.rowRevComp cx h r).2.rowLetters (a.rowRevComp cx h r).1 r' = a.rowLetters h r') ∧
    (∀ i : Nat, (a.rowRevComp cx h r).2.subs[i]? =
      if r = i then (a.subs[i]?).map (fun s => { s with strand := -s.strand }) else a.subs[i]?) ∧
    (a.rowRevComp cx h r).2.strand = a.strand ∧ (a.rowRevComp cx h r).2.start = a.start ∧
    (a.rowRevComp cx h r).2.«end» = a.«end» ∧ (a.rowRevComp cx h r).2.cols = a.cols ∧
    ColsWF (a.rowRevComp cx h r).1 n (a.rowRevComp cx h r).2.cols ∧
    (∀ b, b ∉ a.cols.map (·.arr) → (a.rowRevComp cx h r).1.arr b = h.arr b) := by
  obtain ⟨s1, s2, s3, s4⟩ := Aln.rowRevComp_spec cx h a n hw r hr
  refine ⟨s1, s2, ?_, rfl, rfl, rfl, rfl, s3, s4⟩
  intro i
  exact getElem?_modify_if a.subs r i _

/-- **Row.Reverse / QRow.Reverse**: row `r` reads reversed (qualities travelling), every other row
    as before; the strand of row `r`'s annotation becomes `seq.None`. -/
theorem row_reverse_spec_alignment (h : Cells) (a : Aln) (n : Nat) (hw : ColsWF h n a.cols)
    (r : Nat) (hr : r < n) :
    (a.rowReverse h r).2.rowLetters (a.rowReverse h r).1 r = (a.rowLetters h r).reverse ∧
    (∀ r', r' ≠ r → (a.rowReverse h r).2.rowLetters (a.rowReverse h r).1 r' = a.rowLetters h r') ∧
    (∀ i : Nat, (a.rowReverse h r).2.subs[i]? =
      if r = i then (a.subs[i]?).map (fun s => { s with strand := 0 }) else a.subs[i]?) ∧
    (a.rowReverse h r).2.strand = a.strand ∧ (a.rowReverse h r).2.cols = a.cols ∧
    ColsWF (a.rowReverse h r).1 n (a.rowReverse h r).2.cols := by
  obtain ⟨s1, s2, s3, _⟩ := Aln.rowReverse_spec h a n hw r hr
  refine ⟨s1, s2, ?_, rfl, rfl, s3⟩
  intro i
  exact getElem?_modify_if a.subs r i _

/-- **revcomp_involutive / reverse_involutive (alignment.Row, alignment.QRow).** `Row(r).RevComp()`
    twice restores the letters and qualities of every row, every row annotation (the strand of
    row `r` included) and the alignment's strand; `Row(r).Reverse()` twice restores the letters
    and qualities of every row. -/
theorem row_revcomp_involutive_alignment (cx : Ctx) (h : Cells) (a : Aln) (n : Nat) (hw : ColsWF h n a.cols)
    (r : Nat) (hr : r < n) (hinv : ∀ c ∈ a.rowLetters h r, cx.comp (cx.comp c.L) = c.L) :
    let r1 := a.rowRevComp cx h r
    let r2 := r1.2.rowRevComp cx r1.1 r
    let v1 := a.rowReverse h r
    let v2 := v1.2.rowReverse v1.1 r
    (∀ r', r2.2.rowLetters r2.1 r' = a.rowLetters h r') ∧ r2.2.subs = a.subs ∧ r2.2.strand = a.strand ∧
    (∀ r', v2.2.rowLetters v2.1 r' = a.rowLetters h r') := by
  intro r1 r2 v1 v2
  obtain ⟨a1, a2, a3, _⟩ := Aln.rowRevComp_spec cx h a n hw r hr
  obtain ⟨b1, b2, _, _⟩ := Aln.rowRevComp_spec cx r1.1 r1.2 n a3 r hr
  obtain ⟨c1, c2, c3, _⟩ := Aln.rowReverse_spec h a n hw r hr
  obtain ⟨d1, d2, _, _⟩ := Aln.rowReverse_spec v1.1 v1.2 n c3 r hr
  refine ⟨?_, ?_, rfl, ?_⟩
  · intro r'
    by_cases e : r' = r
    · subst e; rw [b1, a1]; exact map_comp_twice cx.comp _ hinv
    · rw [b2 r' e, a2 r' e]
  · show Aln.modSub (Aln.modSub a.subs r _) r _ = a.subs
    apply List.ext_getElem?
    intro i
    simp only [Aln.modSub]
    rw [getElem?_modify_if, getElem?_modify_if]
    by_cases e : r = i
    · simp only [e, if_true]
      cases a.subs[i]? with
      | none => rfl
      | some s => simp only [Option.map_some, Int.neg_neg]
    · simp only [e, if_false]
  · intro r'
    by_cases e : r' = r
    · subst e; rw [d1, c1, List.reverse_reverse]
    · rw [d2 r' e, c2 r' e]

-- non-vacuity: Row(0).RevComp() of the 2 x 3 quality alignment above (identity complement)
example :
    let cx : Ctx := { comp := fun l => l, gap := 45, amb := 110,
                      alpha := ⟨[], 0, fun _ => false, fun _ => -1, 45, 110, false⟩, grow := growExact }
    let w := runOps cx (initWorld cx "qaln" 1 [⟨true, 0, 1, 0, [⟨65, 30⟩, ⟨67, 31⟩, ⟨71, 32⟩]⟩,
                                                ⟨true, 0, 1, 1, [⟨71, 20⟩, ⟨71, 21⟩, ⟨84, 22⟩]⟩]) [.rowRevComp 0 0]
    (w.objs.map fun o => (viewObj cx w.cells o).rows.map fun r => (r.strand, r.cells))
      = [[(-1, [⟨71, 32⟩, ⟨67, 31⟩, ⟨65, 30⟩]), (1, [⟨71, 20⟩, ⟨71, 21⟩, ⟨84, 22⟩])]] := by decide

/-! ### multi.Set, and the row view of `alignment.Seq.Reverse` -/

/-- **revcomp_spec (multi.Set).** `Set.RevComp` reverse-complements every row in place: letters
    reversed and complemented (qualities travelling), strand negated, and — a set has no common
    coordinate system — every row keeps its own coordinates; the rows stay well formed. -/
theorem revcomp_spec_set (cx : Ctx) (h : Cells) (m : Multi) (hwf : RowsWF h m.rows) :
    All2 (fun r r' =>
        r'.letters (m.setRevComp cx h).1 = (r.letters h).reverse.map (compQL cx.comp)
        ∧ r'.strand = -r.strand ∧ r'.start = r.start ∧ r'.«end» = r.«end» ∧ r'.q = r.q ∧ r'.name = r.name)
      m.rows (m.setRevComp cx h).2.rows ∧
    RowsWF (m.setRevComp cx h).1 (m.setRevComp cx h).2.rows := by
  obtain ⟨rows', h2, hall, _, _⟩ := rowsFold_spec (fun h r => r.revComp cx h) (inPlace_revComp cx)
    (fun bl r al r' => al = bl.reverse.map (compQL cx.comp) ∧ r'.strand = -r.strand ∧ r'.start = r.start ∧
      r'.«end» = r.«end» ∧ r'.q = r.q ∧ r'.name = r.name)
    (fun h r hv => ⟨(Lin.revComp_spec cx h r hv).1, rfl, rfl, rfl, rfl, rfl⟩) m.rows h [] hwf
  have hm : m.setRevComp cx h = ((rowsFold (fun h r => r.revComp cx h) m.rows (h, [])).1,
      { m with rows := (rowsFold (fun h r => r.revComp cx h) m.rows (h, [])).2 }) := rfl
  rw [hm]
  simp only [List.nil_append] at h2
  simp only [h2]
  exact ⟨hall.imp_mem fun a b _ hab => hab.1,
         rowsWF_of_all2 (hall.imp_mem fun a b _ hab => ⟨hab.2.1, hab.2.2⟩) hwf⟩

/-- **revcomp_involutive (multi.Set).** -/
theorem revcomp_involutive_set (cx : Ctx) (h : Cells) (m : Multi) (hwf : RowsWF h m.rows)
    (hinv : ∀ r ∈ m.rows, ∀ c ∈ r.letters h, cx.comp (cx.comp c.L) = c.L) :
    let m1 := m.setRevComp cx h
    let m2 := m1.2.setRevComp cx m1.1
    All2 (fun r r2 => r2.letters m2.1 = r.letters h ∧ r2.strand = r.strand ∧ r2.start = r.start ∧
        r2.«end» = r.«end» ∧ r2.q = r.q ∧ r2.name = r.name) m.rows m2.2.rows := by
  intro m1 m2
  obtain ⟨a1, wf1⟩ := revcomp_spec_set cx h m hwf
  obtain ⟨a2, _⟩ := revcomp_spec_set cx m1.1 m1.2 wf1
  refine (a1.trans a2).imp_mem fun r r2 hrm ⟨r1', hab, hbc⟩ => ?_
  obtain ⟨l1, s1, b1, c1, q1, n1⟩ := hab
  obtain ⟨l2, s2, b2, c2, q2, n2⟩ := hbc
  refine ⟨?_, by omega, by rw [b2, b1], by rw [c2, c1], by rw [q2, q1], by rw [n2, n1]⟩
  rw [l2, l1]; exact map_comp_twice cx.comp _ (hinv r hrm)

/-- **alignment.Seq/QSeq.Reverse, row view**: every row reads reversed (qualities travelling);
    the strand becomes `seq.None`; nothing is written to the heap (the column headers are swapped) -/
theorem reverse_spec_alignment (h : Cells) (a : Aln) (r : Nat) :
    a.reverse.rowLetters h r = (a.rowLetters h r).reverse ∧ a.reverse.strand = 0 ∧
    a.reverse.subs = a.subs ∧ a.reverse.start = a.start ∧ a.reverse.«end» = a.«end» := by
  have h1 : a.reverse.cols = a.cols.reverse := twoPtr_reverse a.cols
  refine ⟨?_, rfl, rfl, rfl, ?_⟩
  · have hq : a.reverse.q = a.q := rfl
    simp only [Aln.rowLetters, h1, hq, List.map_reverse]
  · simp only [Aln.«end», h1, List.length_reverse]; rfl

/-! ### the model satisfies the declarative statements the executable laws stand for

`Laws.RevCompSpec`, `Laws.RowRevCompSpec`, `Laws.FrameSpec` (Proofs/ContLawsSound.lean) are what
`lawRevComp`, `lawRowRevComp`, `lawFrame` are proved to imply of the implementation's
observations (`C05_laws.c05_verdict_sound`).  Here they are proved of the model's own
observations: one proposition, a theorem on the model's side and a sound executable check on
the implementation's side. -/

/-- **revcomp_spec and multi_revcomp_mirror, observation level**: in a well-formed world, for an
    object of any kind (linear, column-stored alignment, multi, set), the observation after
    `RevComp` is related to the observation before by `RevCompSpec`: every row reads as the
    reverse complement with qualities travelling and its name kept; strands negated; a
    column-stored alignment keeps its coordinates, the rows of a multi are mirrored about its
    span which is kept, the rows of the other kinds keep their coordinates. -/
theorem revcomp_on_observations (cx : Ctx) (w : World) (hw : WorldWF w) (k : Nat) (o : Obj)
    (hk : w.objs[k]? = some o) (hrange : ∀ m, o = .multi m → m.InRange) :
    ∃ b a, (w.view cx)[k]? = some b ∧ ((apply cx w (.revComp k)).1.view cx)[k]? = some a ∧
      Laws.RevCompSpec cx.comp b a :=
  model_revcomp cx w hw k o hk hrange

/-- `Row(r).RevComp()` of a well-formed column-stored alignment, observation level -/
theorem row_revcomp_on_observations (cx : Ctx) (h : Cells) (a : Aln) (n : Nat) (hc : ColsCapWF h n a.cols)
    (r : Nat) (hr : r < a.rows) :
    Laws.RowRevCompSpec cx.comp (viewObj cx h (.aln a))
      (viewObj cx (a.rowRevComp cx h r).1 (.aln (a.rowRevComp cx h r).2)) r :=
  model_rowRevComp_aln cx h a n hc r hr

/-- **clone_deep as a frame statement, observation level** -/
theorem frame_on_observations (cx : Ctx) (w : World) (hw : WorldWF w) (op : Op) :
    Laws.FrameSpec (w.view cx) ((apply cx w op).1.view cx) op.written :=
  model_frame cx w hw op

end Biogo.Properties.C05
