/-
C18 — the integer predicates of `Spec/Quality.lean` that the driver evaluates on the
implementation's *own* outputs (`phredProbClose`, `solexaProbClose`, `Prob.le`, `phredNearest`,
`solexaNearest`, `phredToSolexaNearest`, `solexaToPhredNearest`) imply the statements the
property makes over the real numbers, for every value they are applied to — not only for the
regenerated tables (`Properties/C18_real.lean`).  Imports Mathlib: nothing the driver imports
may import this file.
-/
import Biogo.Properties.C18_real

open Biogo.Quality Biogo.Quality.Spec

namespace Biogo.Properties.C18_checker
open Biogo.Properties.C18Real

/-- the real number an exact value stands for -/
noncomputable def toReal (m k : ℕ) : ℝ := (m : ℝ) / 2 ^ k

/-- `pq`: a probability accepted as "`ProbE(q)` is `10^(-q/10)`" is within relative `2^-47` of
    the real power -/
theorem phredProbClose_real (q m k : ℕ) (h : phredProbClose q (.val m k) = true) :
    |toReal m k - (10 : ℝ) ^ (-(q : ℝ) / 10)| ≤ (1 / (2 : ℝ) ^ 47) * toReal m k := by
  unfold toReal
  simp only [phredProbClose, Bool.and_eq_true, decide_eq_true_eq] at h
  obtain ⟨h1, h2⟩ := h
  have hden : (2 : ℕ) ^ (10 * (k + 47)) = (2 ^ k * 2 ^ 47) ^ 10 := by
    rw [← pow_add, ← pow_mul, Nat.mul_comm]
  rw [hden] at h1 h2
  generalize hd : (2 : ℕ) ^ 47 = d at h1 h2
  have hdpos : 0 < d := by rw [← hd]; exact Nat.pow_pos (by decide)
  have hb := root_bounds (m * (d - 1)) (m * (d + 1)) (2 ^ k * d) q (Nat.mul_pos (Nat.pow_pos (by decide)) hdpos) h1 h2
  have := abs_of_bounds m k d hdpos _ hb.1 hb.2
  have e : ((2 ^ 47 : ℕ) : ℝ) = (2 : ℝ) ^ 47 := by rw [Nat.cast_pow, Nat.cast_ofNat]
  rw [← hd, e] at this
  exact this

/-- only exact values are accepted -/
theorem phredProbClose_val (q : ℕ) (p : Prob) (h : phredProbClose q p = true) : ∃ m k, p = .val m k := by
  cases p with
  | val m k => exact ⟨m, k, rfl⟩
  | nan => simp [phredProbClose] at h
  | bad => simp [phredProbClose] at h

/-- `sq`: a probability accepted as "`ProbE(qs)` is `1/(1+10^(qs/10))`" is an exact value within
    relative `2^-47` of it -/
theorem solexaProbClose_real (qs : ℤ) (p : Prob) (h : solexaProbClose qs p = true) :
    ∃ m k, p = .val m k ∧
      |toReal m k - 1 / (1 + (10 : ℝ) ^ ((qs : ℝ) / 10))| ≤ (1 / (2 : ℝ) ^ 47) * toReal m k := by
  unfold toReal
  cases p with
  | nan => simp [solexaProbClose] at h
  | bad => simp [solexaProbClose] at h
  | val m k =>
    refine ⟨m, k, rfl, ?_⟩
    simp only [solexaProbClose, pow_add, Bool.and_eq_true, Bool.or_eq_true, decide_eq_true_eq,
      ne_eq] at h
    generalize hd : (2 : ℕ) ^ 47 = d at h
    have hdpos : 0 < d := by rw [← hd]; exact Nat.pow_pos (Nat.succ_pos 1)
    obtain ⟨⟨⟨hm, hlt⟩, hlo⟩, hhi⟩ := h
    have hmpos : 0 < m := Nat.pos_of_ne_zero hm
    have hBm : 0 < m * (d - 1) := by
      apply Nat.mul_pos hmpos
      have : 1 < d := by rw [← hd]; exact Nat.one_lt_two_pow (by decide)
      omega
    have hb := solexa_bridge (2 ^ k * d) (m * (d + 1)) (m * (d - 1)) qs hBm hlt
      (Nat.mul_pos hmpos (Nat.succ_pos d)) hlo hhi
    have := abs_of_bounds m k d hdpos _ hb.1 hb.2
    have e : ((2 ^ 47 : ℕ) : ℝ) = (2 : ℝ) ^ 47 := by rw [Nat.cast_pow, Nat.cast_ofNat]
    rw [← hd, e] at this
    exact this

/-- the antitone clause: `Prob.le` is `≤` of the real values -/
theorem probLe_real (p₁ p₂ : Prob) (h : Prob.le p₁ p₂ = true) :
    ∃ m₁ k₁ m₂ k₂, p₁ = .val m₁ k₁ ∧ p₂ = .val m₂ k₂ ∧ toReal m₁ k₁ ≤ toReal m₂ k₂ := by
  unfold toReal
  cases p₁ with
  | nan => simp [Prob.le] at h
  | bad => simp [Prob.le] at h
  | val m₁ k₁ =>
    cases p₂ with
    | nan => simp [Prob.le] at h
    | bad => simp [Prob.le] at h
    | val m₂ k₂ =>
      refine ⟨m₁, k₁, m₂, k₂, rfl, rfl, ?_⟩
      simp only [Prob.le, decide_eq_true_eq] at h
      rw [div_le_div_iff₀ (by positivity) (by positivity)]
      exact_mod_cast h

/-- `pq`: a Solexa score accepted as "the nearest to the analytic value of Phred `q`" is within
    1/2 of `10·log10(10^(q/10) − 1)` -/
theorem phredToSolexaNearest_real (q : ℕ) (qs : ℤ) (h : phredToSolexaNearest q qs = true) :
    |10 * Real.logb 10 ((10 : ℝ) ^ ((q : ℝ) / 10) - 1) - (qs : ℝ)| ≤ 1 / 2 := by
  simp only [phredToSolexaNearest, Bool.and_eq_true] at h
  have a := fracSuccLe_real (tPowHi_den_pos _) (tPowLo_den_pos _) h.1
  have b := fracLeSucc_real (tPowHi_den_pos _) (tPowLo_den_pos _) h.2
  have a1 := le_tPowHi (2 * qs - 1)
  have a2 := tPowLo_le (2 * (q : ℤ))
  have b1 := le_tPowHi (2 * (q : ℤ))
  have b2 := tPowLo_le (2 * qs + 1)
  have e : t ^ (2 * (q : ℤ)) = (10 : ℝ) ^ ((q : ℝ) / 10) := by
    rw [t_zpow]; congr 1; push_cast; ring
  rw [t_zpow] at a1 b2
  rw [e] at a2 b1
  apply log_nearest (n := qs) <;> linarith

/-- `sq`: a Phred score accepted as "the nearest to the analytic value of Solexa `qs`" is within
    1/2 of `10·log10(10^(qs/10) + 1)` -/
theorem solexaToPhredNearest_real (qs : ℤ) (q : ℕ) (h : solexaToPhredNearest qs q = true) :
    |10 * Real.logb 10 ((10 : ℝ) ^ ((qs : ℝ) / 10) + 1) - ((q : ℤ) : ℝ)| ≤ 1 / 2 := by
  simp only [solexaToPhredNearest, Bool.and_eq_true] at h
  have a := fracLeSucc_real (tPowHi_den_pos _) (tPowLo_den_pos _) h.1
  have b := fracSuccLe_real (tPowHi_den_pos _) (tPowLo_den_pos _) h.2
  have a1 := le_tPowHi (2 * (q : ℤ) - 1)
  have a2 := tPowLo_le (2 * qs)
  have b1 := le_tPowHi (2 * qs)
  have b2 := tPowLo_le (2 * (q : ℤ) + 1)
  have e : t ^ (2 * qs) = (10 : ℝ) ^ ((qs : ℝ) / 10) := by
    rw [t_zpow]; congr 1; push_cast; ring
  rw [t_zpow] at a1 b2
  rw [e] at a2 b1
  apply log_nearest (n := (q : ℤ)) <;> linarith

/-- `ep` (exact branch): a score below the cap accepted as "nearest" for a positive probability
    `p = m/2^k` has `−10·log10 p` within 1/2 of it; 0 goes to 254 and NaN to 255 -/
theorem phredNearest_real (m k q : ℕ) (hm : m ≠ 0) (hq : q < 254)
    (hn : phredNearest (.val m k) q = true) :
    |10 * Real.logb 10 (toReal m k) + q| ≤ 1 / 2 := by
  unfold toReal
  obtain ⟨m', rfl⟩ : ∃ m', m = m' + 1 := ⟨m - 1, by omega⟩
  simp only [phredNearest, Bool.and_eq_true, Bool.or_eq_true, decide_eq_true_eq, beq_iff_eq] at hn
  obtain ⟨⟨_, hlo⟩, hhi⟩ := hn
  have hlo := hlo.resolve_left (by omega)
  have hb : (0 : ℝ) < ((2 ^ (20 * k) : ℕ) : ℝ) := by positivity
  have hT : (0 : ℝ) < ((m' + 1 : ℕ) : ℝ) / 2 ^ k := by positivity
  have e20 : (((m' + 1) ^ 20 : ℕ) : ℝ) / ((2 ^ (20 * k) : ℕ) : ℝ) = (((m' + 1 : ℕ) : ℝ) / 2 ^ k) ^ 20 := by
    push_cast; rw [div_pow, ← pow_mul, mul_comm]
  have l1 := pow10Lt_real hb hlo
  have l2 := lePow10_real hb hhi
  rw [e20] at l1 l2
  have r1 := root20_lt hT.le l1
  have r2 := le_root20 l2
  have g1 := Real.logb_lt_logb (b := 10) (by norm_num) (Real.rpow_pos_of_pos (by norm_num) _) r1
  have g2 := Real.logb_le_logb_of_le (b := 10) (by norm_num) hT r2
  rw [Real.logb_rpow (by norm_num) (by norm_num)] at g1 g2
  push_cast at g1 g2 ⊢
  rw [abs_le]; constructor <;> linarith

theorem phredNearest_special (q : ℕ) :
    (phredNearest .nan q = true ↔ q = 255) ∧ (∀ k, phredNearest (.val 0 k) q = true ↔ q = 254) ∧
    phredNearest .bad q = false := by
  simp [phredNearest]

/-- `es` (exact branch): a score strictly inside the range accepted as "nearest" for a probability
    `0 < p < 1` has `−10·log10 (p/(1−p))` within 1/2 of it -/
theorem solexaNearest_real (m k : ℕ) (qs : ℤ) (hm : m ≠ 0) (hq1 : -126 ≤ qs) (hq2 : qs ≤ 126)
    (h : solexaNearest (.val m k) qs = true) :
    m < 2 ^ k ∧ |10 * Real.logb 10 ((m : ℝ) / ((2 ^ k - m : ℕ) : ℝ)) + (qs : ℝ)| ≤ 1 / 2 := by
  obtain ⟨m', rfl⟩ : ∃ m', m = m' + 1 := ⟨m - 1, by omega⟩
  simp only [solexaNearest] at h
  split at h
  · simp only [beq_iff_eq] at h; omega
  · rename_i hlt
    have hlt : m' + 1 < 2 ^ k := Nat.lt_of_not_le hlt
    refine ⟨hlt, ?_⟩
    simp only [oddsNearest, Bool.and_eq_true, Bool.or_eq_true, decide_eq_true_eq, beq_iff_eq] at h
    obtain ⟨⟨_, hlo⟩, hhi⟩ := h
    have hlo := hlo.resolve_left (by omega)
    have hhi := hhi.resolve_left (by omega)
    generalize hb : 2 ^ k - (m' + 1) = b at hlo hhi ⊢
    have hbpos : 0 < b := by omega
    have hbR : (0 : ℝ) < ((b ^ 20 : ℕ) : ℝ) := by positivity
    have hr : (0 : ℝ) < ((m' + 1 : ℕ) : ℝ) / (b : ℝ) := by positivity
    have e20 : (((m' + 1) ^ 20 : ℕ) : ℝ) / ((b ^ 20 : ℕ) : ℝ) = (((m' + 1 : ℕ) : ℝ) / (b : ℝ)) ^ 20 := by
      push_cast; rw [div_pow]
    have l1 := pow10Le_real hbR hlo
    have l2 := lePow10_real hbR hhi
    rw [e20] at l1 l2
    have r1 := root20_le hr.le l1
    have r2 := le_root20 l2
    have g1 := Real.logb_le_logb_of_le (b := 10) (by norm_num) (Real.rpow_pos_of_pos (by norm_num) _) r1
    have g2 := Real.logb_le_logb_of_le (b := 10) (by norm_num) hr r2
    rw [Real.logb_rpow (by norm_num) (by norm_num)] at g1 g2
    push_cast at g1 g2 ⊢
    rw [abs_le]; constructor <;> linarith

/-- the tolerance the float functions `Ephred` / `Esolexa` get: the exact statement for `p`, or for
    `p` moved by the factor `1 ± 2^-40` (what `Prob.nudge` is, over the reals) -/
theorem phredNearestTol_cases (p : Prob) (q : ℕ) (h : phredNearestTol p q = true) :
    phredNearest p q = true ∨ phredNearest (p.nudge true) q = true ∨ phredNearest (p.nudge false) q = true := by
  simpa [phredNearestTol, or_assoc] using h

theorem nudge_real (up : Bool) (m k : ℕ) :
    ∃ m' k', (Prob.val m k).nudge up = .val m' k' ∧
      toReal m' k' = toReal m k * (if up then 1 + 1 / (2 : ℝ) ^ 40 else 1 - 1 / (2 : ℝ) ^ 40) := by
  unfold toReal
  cases up
  · refine ⟨m * (2 ^ 40 - 1), k + 40, rfl, ?_⟩
    have : ((2 ^ 40 - 1 : ℕ) : ℝ) = (2 : ℝ) ^ 40 - 1 := by norm_num
    rw [Nat.cast_mul, this, pow_add]
    simp only [Bool.false_eq_true, if_false]
    field_simp
  · refine ⟨m * (2 ^ 40 + 1), k + 40, rfl, ?_⟩
    have : ((2 ^ 40 + 1 : ℕ) : ℝ) = (2 : ℝ) ^ 40 + 1 := by norm_num
    rw [Nat.cast_mul, this, pow_add]
    simp only [if_true]
    field_simp

end Biogo.Properties.C18_checker
