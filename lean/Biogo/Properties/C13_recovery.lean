/-
C13, third wave — lists of faults: a failure after a recovery is not hidden either.

The fault oracle of `Model/MorassConc.lean` is a *list* of faults armed one after the other.
`history_fault_surfaces` (`Properties/C13_history.lean`) holds for every such list, but once a
call has returned an I/O error its conclusion is satisfied whatever happens later.  The caller
of sequential mode recovers from a reported error with `Clear` and goes on using the sorter;
the theorems here say that the recovered sorter is as good as a new one, so the statement of
`history_fault_surfaces` holds *again* for the rest of the program with the rest of the fault
list — and again after the next recovery, for any number of faults.
-/
import Biogo.Model.MorassConc
import Biogo.Spec.Morass
import Biogo.Proofs.MorassConc
import Biogo.Proofs.MorassCycle
import Biogo.Proofs.MorassHistory
import Biogo.Proofs.MorassSeq
import Biogo.Properties.C13_history
import Biogo.Drive.C13

namespace Biogo.Properties.C13_recovery
open Biogo.Morass Biogo.MorassConc Biogo.Interleave

/-- **Sequential mode: between two calls no chunk writer is alive and exactly one chunk buffer is
    with the caller** (in `m.chunk` or in `pool`) — for every program, every list of faults and
    every schedule.  This is what a `Clear` finds, in particular the `Clear` with which the caller
    recovers from a reported error. -/
theorem sequential_between_calls (c : Nat) (ac acl reuse : Bool) (prog : List Op) (flt : Fault) {s : CState}
    (hr : Reach (sys false c ac acl prog flt reuse) s) (hpc : s.pc = .idle) :
    (∀ w ∈ s.writers, w.pc = .done) ∧ s.writable.buf = [] ∧ s.wg = 0
      ∧ s.m.pool + (if s.m.chunk.isSome then 1 else 0) = 1 := by
  have hi := reach_SeqInv (c := c) (ac := ac) hr
  have hq := hi.quiet (Or.inl hpc)
  have hs := Str_of_Str1 hi.str1
  have hwb : s.writable.buf = [] := wb_nil_of_done hs (by rw [hpc]; simp) hq
  have e : (s.pc == CPc.finWrite) = false := by rw [hpc]; rfl
  have h0 : cnt holding s = 0 := by
    simp only [cnt, e, Bool.false_and, b2n, Bool.false_eq_true, if_false, Nat.add_zero]
    apply List.countP_eq_zero.mpr
    intro w hw; simp [holding, hq w hw]
  have hl : cnt live s = 0 := by
    simp only [cnt, e, Bool.false_and, b2n, Bool.false_eq_true, if_false, Nat.add_zero]
    apply List.countP_eq_zero.mpr
    intro w hw; simp [live, hq w hw]
  refine ⟨hq, hwb, by rw [hs.wg, hl], ?_⟩
  have hcap := hi.str1.cap
  have hlow := hi.low
  have hk : chunkTok s = b2n s.m.chunk.isSome := chunkTok_idle (by rw [hpc]; simp)
  unfold Low tokens at hlow
  rw [h0, hwb, hk] at hlow hcap
  simp only [List.length_nil, Nat.add_zero, b2n] at hlow hcap
  omega

/-- **A buffer is never lost entirely** (both modes, every program, fault list and schedule):
    `pool`, the writers that hold a buffer, the hand-over channel and the caller's chunk together
    hold at least one — so `Clear` always finds a chunk to go on with. -/
theorem a_buffer_remains (conc : Bool) (c : Nat) (ac acl reuse : Bool) (prog : List Op) (flt : Fault) {s : CState}
    (hr : Reach (sys conc c ac acl prog flt reuse) s) :
    1 ≤ s.m.pool + cnt holding s + s.writable.buf.length + chunkTok s :=
  reach_Low hr

theorem no_step_when_over {s : CState} (hfin : finished s = true) (hq : ∀ w ∈ s.writers, w.pc = .done) (i : Nat) :
    MorassConc.step s i = none := by
  simp only [finished, Bool.and_eq_true, List.isEmpty_iff, beq_iff_eq] at hfin
  cases i with
  | zero => simp [MorassConc.step, cstep, hfin.1, hfin.2]
  | succ k =>
    simp only [MorassConc.step]
    cases hk : s.writers[k]? with
    | none => rfl
    | some w => simp [wstep_done_none s (hq w (List.mem_of_getElem? hk))]

/-- **A failure after a recovery is not hidden** — general form, either mode.  Chunk size ≥ 1,
    *any* program, *any* list of faults, any schedule so far: let the caller be about to call
    `Clear` (state `sp`) at a moment when no `write()` activation is alive, and let that `Clear`
    succeed.  If the rest of its program is a well-formed history `h`, then for every continuation
    (`0 :: sched`: the `Clear`, then any schedule), when the caller has returned from its last call:
    among the calls *after that `Clear`* some call returned an I/O error, or their outputs satisfy
    `HistorySpec ac h`.  (In sequential mode the hypothesis about the writers always holds:
    `recovery_surfaces`.  In concurrent mode it is what the caller must make sure of before it
    re-uses a sorter after an error — the code's `Clear` does not wait for the writers.) -/
theorem recovery_surfaces_of_quiet (conc : Bool) (c : Nat) (hc : 1 ≤ c) (ac acl reuse : Bool) (prog : List Op) (flt : Fault)
    {sp : CState} (hr : Reach (sys conc c ac acl prog flt reuse) sp)
    (hpc : sp.pc = .idle) (hq : ∀ w ∈ sp.writers, w.pc = .done)
    (h : List Cycle) (hclr : sp.prog = Op.clear :: histOps h)
    (hok : (clearF sp).2 = .ok) (hwf : wellFormed ac h = true)
    (sched : List Nat) {s : CState}
    (hrun : runFrom (sys conc c ac acl prog flt reuse) sp (0 :: sched) = some s) (hfin : finished s = true) :
    (∃ o ∈ s.outs.take (s.outs.length - (sp.outs.length + 1)), o.res = .ioerr)
    ∨ HistorySpec ac h (s.outs.take (s.outs.length - (sp.outs.length + 1))).reverse := by
  let S := sys conc c ac acl prog flt reuse
  -- the Clear
  have hstep0 : MorassConc.step sp 0 = some (finishOp (clearF sp).1 .ok none) := by
    show cstep sp = _
    simp [cstep, hpc, hclr, hok]
  simp only [runFrom] at hrun
  rw [show (sys conc c ac acl prog flt reuse).step sp 0 = some (finishOp (clearF sp).1 .ok none) from hstep0] at hrun
  simp only at hrun
  obtain ⟨hfr, hq0⟩ := clear_restores_of_quiet (c := c) (ac := ac) (reach_Str hr) (reach_Low hr) (reach_Consts hr) hpc hq hok
  have hfrm := clearF_frame sp
  have hs0 : Str (finishOp (clearF sp).1 .ok none) := Str_step (reach_Str hr) hstep0
  have hl0 : ProgLive (finishOp (clearF sp).1 .ok none) := ProgLive_step (reach_Str hr) (reach_ProgLive hr) hstep0
  have hprog0 : (finishOp (clearF sp).1 .ok none).prog = histOps h := by
    have e : (finishOp (clearF sp).1 .ok none).prog = (clearF sp).1.prog.tail := by simp [finishOp]
    rw [e, hfrm.prog, hclr]; rfl
  have houts0 : (finishOp (clearF sp).1 .ok none).outs.length = sp.outs.length + 1 := by
    show (_ :: (clearF sp).1.outs).length = _
    rw [hfrm.outs]; rfl
  cases h with
  | nil =>
    -- nothing left to do: nobody can move
    right
    have hfin0 : finished (finishOp (clearF sp).1 .ok none) = true := by
      simp only [finished, Bool.and_eq_true, List.isEmpty_iff, beq_iff_eq]
      exact ⟨by rw [hprog0]; rfl, rfl⟩
    cases sched with
    | nil =>
      simp only [runFrom, Option.some.injEq] at hrun
      subst hrun
      rw [houts0]; simp [HistorySpec]
    | cons i is =>
      simp only [runFrom] at hrun
      rw [show (sys conc c ac acl prog flt reuse).step (finishOp (clearF sp).1 .ok none) i = none from
        no_step_when_over hfin0 hq0 i] at hrun
      cases hrun
  | cons cy todo =>
    have hR0 : Restarted c ac (cy :: todo) (restartView (finishOp (clearF sp).1 .ok none)) (finishOp (clearF sp).1 .ok none) := by
      refine ⟨hs0, hl0, rfl, Nat.le_refl _, ?_, Nat.le_refl _, ?_⟩
      · intro w hw; exact hq0 w (List.mem_of_mem_take hw)
      · exact HInv_fresh c ac hs0 rfl hq0 hfr cy todo hwf hprog0
    have hR := Restarted_run hc S rfl sched _ s hR0 hrun
    have hfin' : finished (proj (restartView (finishOp (clearF sp).1 .ok none)) s) = true := by
      simp only [finished, Bool.and_eq_true, List.isEmpty_iff, beq_iff_eq] at hfin ⊢
      refine ⟨?_, hfin.2⟩
      show s.prog.take _ = []
      rw [hfin.1]; rfl
    have hv : (proj (restartView (finishOp (clearF sp).1 .ok none)) s).outs
        = s.outs.take (s.outs.length - (sp.outs.length + 1)) := by
      show s.outs.take (s.outs.length - (finishOp (clearF sp).1 .ok none).outs.length) = _
      rw [houts0]
    rcases finished_of_HInv c ac hR.inv hfin' with hrep | hspec
    · left
      obtain ⟨o, ho, hio⟩ := hrep
      exact ⟨o, by rw [← hv]; exact ho, hio⟩
    · right
      rw [← hv]; exact hspec

/-- **A failure after a recovery is not hidden.**  Sequential mode, chunk size ≥ 1, *any* program,
    *any* list of faults, any schedule so far: let the caller be about to call `Clear` (state `sp`)
    — typically the `Clear` with which it recovers from an I/O error that some call reported, after
    however many faults, reported errors and cycles given up half-way — and let that `Clear` succeed.
    If the rest of its program is a well-formed history `h`, then for every continuation
    (`0 :: sched`: the `Clear`, then any schedule), when the caller has returned from its last call:
    among the calls *after that `Clear`* some call returned an I/O error, or their outputs satisfy
    `HistorySpec ac h` — every cycle's pulls deliver a non-decreasing permutation of the values
    pushed in that cycle, then io.EOF.  So with the fault list `[f₁, f₂, …]` the failure `f₂` that
    fires after the recovery from `f₁` is reported by a call after the recovery, or did no harm. -/
theorem recovery_surfaces (c : Nat) (hc : 1 ≤ c) (ac acl reuse : Bool) (prog : List Op) (flt : Fault)
    {sp : CState} (hr : Reach (sys false c ac acl prog flt reuse) sp)
    (hpc : sp.pc = .idle) (h : List Cycle) (hclr : sp.prog = Op.clear :: histOps h)
    (hok : (clearF sp).2 = .ok) (hwf : wellFormed ac h = true)
    (sched : List Nat) {s : CState}
    (hrun : runFrom (sys false c ac acl prog flt reuse) sp (0 :: sched) = some s) (hfin : finished s = true) :
    (∃ o ∈ s.outs.take (s.outs.length - (sp.outs.length + 1)), o.res = .ioerr)
    ∨ HistorySpec ac h (s.outs.take (s.outs.length - (sp.outs.length + 1))).reverse :=
  recovery_surfaces_of_quiet false c hc ac acl reuse prog flt hr hpc
    (sequential_between_calls c ac acl reuse prog flt hr hpc).1 h hclr hok hwf sched hrun hfin

/-- non-vacuity, and the shape of the seeded change C13-m5: chunk 1, sequential mode, the fault
    list `[tempfile:0, tempfile:0]`; cycle 1 pushes 2 1 — the first temp-file creation fails, the
    second `Push` reports it, the caller recovers with the cycle's `Clear`; cycle 2 pushes 4 3 — the
    first temp-file creation *after the first fault fired* fails, and the second `Push` of cycle 2
    reports it.  (With `setErr` behind a `sync.Once` that `Clear` does not re-arm, the code's
    second cycle would report success throughout and deliver `3` only.) -/
example :
    let S := sys false 1 false false
      (histOps [⟨[⟨2, 0⟩, ⟨1, 0⟩], 3, true⟩, ⟨[⟨4, 0⟩, ⟨3, 0⟩], 3, false⟩]) [(.tempfile, 0), (.tempfile, 0)]
    ((finish S actors 200 S.init).outs.reverse.map (·.res)) = [.ok, .ioerr, .ok, .ok, .ioerr]
    ∧ finished (finish S actors 200 S.init) = true := by
  decide

/-- the same in concurrent mode with a caller that recovers (`reuse`), under the fixed policy
    "writers first" — every writer has ended when the caller calls `Clear` -/
example :
    let S := sys true 1 false false
      (histOps [⟨[⟨2, 0⟩, ⟨1, 0⟩], 3, true⟩, ⟨[⟨4, 0⟩, ⟨3, 0⟩], 3, false⟩]) [(.tempfile, 0), (.tempfile, 0)] true
    ((finish S actors 200 S.init).outs.reverse.map (·.res)) = [.ok, .ioerr, .ok, .ok, .ioerr]
    ∧ finished (finish S actors 200 S.init) = true := by
  decide

/-! ### the executable statement of the driver -/

/-- what `recoveryStatement` establishes: after every recovery (`afterRecovery`: the first call
    that did not succeed returned an I/O error, the caller made no call until its next `Clear`,
    which succeeded) the rest of the program, if it is a well-formed history `h'`, satisfies the
    conclusion of `surfaceStatement_sound` on the outputs that follow — and so on after the next
    recovery (`n` = fuel: the number of outputs is enough) -/
def RecoveredSegments (ac : Bool) : Nat → List Op → List Out → Prop
  | 0, _, _ => True
  | n + 1, ops, outs =>
    ∀ ops' outs', Biogo.Drive.C13.afterRecovery ops outs = some (ops', outs') →
      ∀ h', historyOf ac (dropRejects ops') = some h' →
        ((∃ o ∈ outs', o.res = .ioerr ∨ o.res = .finalised)
          ∨ (HistorySpec ac h' (dropRejOuts outs') ∧ outs' = weave ops' (dropRejOuts outs') 0 0))
        ∧ RecoveredSegments ac n ops' outs'

/-- **The executable statement `recoveryStatement` of the C13 driver is sound**: if it accepts the
    implementation's outputs, then after every recovery some later call returned an error or the
    outputs of the calls after the recovery satisfy `HistorySpec` for the rest of the history. -/
theorem recoveryStatement_sound (ac : Bool) : ∀ (n : Nat) (ops : List Op) (outs : List Out),
    Biogo.Drive.C13.recoveryStatement ac n ops outs = none → RecoveredSegments ac n ops outs := by
  intro n
  induction n with
  | zero => intro ops outs _; trivial
  | succ n ih =>
    intro ops outs hs ops' outs' ha h' hh
    unfold Biogo.Drive.C13.recoveryStatement at hs
    simp only [ha, hh] at hs
    cases hsurf : Biogo.Drive.C13.surfaceStatement ac h' ops' outs' with
    | some why => simp [hsurf] at hs
    | none =>
      simp only [hsurf] at hs
      exact ⟨Biogo.Properties.C13_history.surfaceStatement_sound ac ops' h' outs' hh hsurf, ih ops' outs' hs⟩

/-- reading of `afterRecovery`: the outputs up to position `i` succeeded, the `i`-th call returned
    an I/O error, the next call the caller made was the first `Clear` after it in the program, it
    returned success, and `ops'` / `outs'` are what follows -/
theorem afterRecovery_spec {ops ops' : List Op} {outs outs' : List Out}
    (h : Biogo.Drive.C13.afterRecovery ops outs = some (ops', outs')) :
    ∃ i oc, (∀ o ∈ outs.take i, o.res = .ok ∨ o.res = .eof ∨ o.res = .rejected)
      ∧ (outs[i]?.map (·.res)) = some .ioerr
      ∧ (ops.drop (i + 1)).dropWhile (· != Op.clear) = Op.clear :: ops'
      ∧ outs.drop (i + 1) = oc :: outs' ∧ oc.res = .ok := by
  unfold Biogo.Drive.C13.afterRecovery at h
  cases hf : outs.findIdx? Biogo.Drive.C13.notOk with
  | none => simp [hf] at h
  | some i =>
    simp only [hf] at h
    split at h
    · cases h
    · rename_i hio
      have hio' : (outs[i]?.map (·.res)) = some .ioerr := by simpa using hio
      split at h
      · rename_i ops2 oc outs2 hops houts
        split at h
        · rename_i hoc
          simp only [Option.some.injEq, Prod.mk.injEq] at h
          obtain ⟨rfl, rfl⟩ := h
          refine ⟨i, oc, ?_, hio', hops, houts, by simpa using hoc⟩
          intro o ho
          obtain ⟨j, hj, rfl⟩ := List.mem_iff_getElem.mp ho
          have hjlt : j < i := by
            have := hj; simp only [List.length_take] at this; omega
          have hnot := (List.findIdx?_eq_some_iff_getElem.mp hf).2.2 j hjlt
          have hjo : j < outs.length := by
            have := hj; simp only [List.length_take] at this; omega
          have e : (outs.take i)[j] = outs[j] := by simp
          rw [e]
          have hb : Biogo.Drive.C13.notOk outs[j] = false := by simpa using hnot
          simp only [Biogo.Drive.C13.notOk, Bool.and_eq_false_iff, bne_eq_false_iff_eq] at hb
          rcases hb with (hb | hb) | hb
          · exact Or.inl hb
          · exact Or.inr (Or.inl hb)
          · exact Or.inr (Or.inr hb)
        · cases h
      · cases h

end Biogo.Properties.C13_recovery
