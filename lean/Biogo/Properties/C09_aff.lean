/-
C09, part `aff`: the pairs returned by the affine aligners (property theorems only).
`nwAlign`, `swAlign`, `fitAlign` are the model of the code after the repairs of K5 (layer-aware
traceback), K1 (`up ↔ left` transitions in fill and traceback) and K3 (FittedAffine starts its
traceback in the best layer of its end cell).
-/
import Biogo.Model.AlignAff
import Biogo.Spec.AffPairs
import Biogo.Proofs.TraceWF
import Biogo.Proofs.NWFaith
import Biogo.Proofs.SWFaith
import Biogo.Proofs.FitFaith
import Biogo.Proofs.TraceLegacy

namespace Biogo.Properties.C09_aff
open Biogo.Spec.Alignment Biogo.AlignAff Biogo.Spec.AffPairs

theorem firstNeg_some (l : List Int) (i : Nat) (h : ∃ x ∈ l, x < 0) : ∃ p, firstNeg l i = some p := by
  induction l generalizing i with
  | nil => obtain ⟨x, hx, _⟩ := h; cases hx
  | cons y ys ih =>
    unfold firstNeg
    by_cases hy : y < 0
    · exact ⟨i, by rw [if_pos hy]⟩
    · rw [if_neg hy]
      obtain ⟨x, hx, hlt⟩ := h
      rcases List.mem_cons.mp hx with rfl | hx
      · exact absurd hlt hy
      · exact ih (i + 1) ⟨x, hx, hlt⟩

theorem firstNeg_none (l : List Int) (i : Nat) (h : ¬ ∃ x ∈ l, x < 0) : firstNeg l i = none := by
  induction l generalizing i with
  | nil => rfl
  | cons y ys ih =>
    unfold firstNeg
    have hy : ¬ y < 0 := fun hy => h ⟨y, List.mem_cons_self, hy⟩
    rw [if_neg hy]
    exact ih (i + 1) (fun ⟨x, hx, hlt⟩ => h ⟨x, List.mem_cons_of_mem _ hx, hlt⟩)

/-- an illegal letter in non-empty sequences is met by the letter check of every aligner -/
theorem letterCheck_error (w : Which) (r q : List Int) (hr : r ≠ []) (hq : q ≠ [])
    (h : (∃ x ∈ r, x < 0) ∨ (∃ x ∈ q, x < 0)) :
    ∃ p, letterCheck w r q = .error (.letterR p) ∨ letterCheck w r q = .error (.letterQ p) := by
  have hne : ¬ (r.isEmpty = true ∨ q.isEmpty = true) := by
    cases r <;> cases q <;> simp_all
  by_cases hqn : ∃ x ∈ q, x < 0
  · obtain ⟨p, hp⟩ := firstNeg_some q 0 hqn
    cases w
    · exact ⟨p, Or.inr (by simp only [letterCheck, hp])⟩
    · by_cases h0 : r.headD 0 < 0
      · exact ⟨0, Or.inl (by simp only [letterCheck, if_neg hne, if_pos h0])⟩
      · exact ⟨p, Or.inr (by simp only [letterCheck, if_neg hne, if_neg h0, hp])⟩
    · exact ⟨p, Or.inr (by simp only [letterCheck, hp])⟩
  · have hrn : ∃ x ∈ r, x < 0 := h.resolve_right hqn
    obtain ⟨p, hp⟩ := firstNeg_some r 0 hrn
    have hq0 := firstNeg_none q 0 hqn
    cases w
    · exact ⟨p, Or.inl (by simp only [letterCheck, hp, hq0])⟩
    · by_cases h0 : r.headD 0 < 0
      · exact ⟨0, Or.inl (by simp only [letterCheck, if_neg hne, if_pos h0])⟩
      · exact ⟨p, Or.inl (by simp only [letterCheck, if_neg hne, if_neg h0, hp, hq0])⟩
    · exact ⟨p, Or.inl (by simp only [letterCheck, hp, hq0])⟩

/-- "Illegal letters, mismatched alphabets or sequence types, and non-square or undersized
    matrices produce an error rather than a panic": on such an input the model of every
    affine aligner takes one of the explicit error returns (never one of the two panic
    outcomes, and never an alignment). -/
theorem align_total (w : Which) (M : List (List Int)) (gapOpen : Int) (ref qry : SeqArg)
    (h : ref.alpha = none ∨ qry.alpha ≠ ref.alpha ∨ ref.gapIdx ≠ 0 ∨ ref.quality ≠ qry.quality ∨
         M.length < ref.alen ∨ (∃ row ∈ M, row.length ≠ M.length) ∨
         ((∃ x ∈ ref.idx, x < 0) ∨ (∃ x ∈ qry.idx, x < 0)) ∧ ref.idx ≠ [] ∧ qry.idx ≠ []) :
    ∃ e, align w M gapOpen ref qry = .error e ∧ e ≠ .panicEmpty ∧ ∀ i j, e ≠ .panicNoPath i j := by
  unfold align
  cases hra : ref.alpha with
  | none => exact ⟨.noAlphabet, rfl, by decide, fun _ _ hh => by cases hh⟩
  | some ra =>
    simp only []
    by_cases h1 : qry.alpha ≠ some ra
    · rw [if_pos h1]; exact ⟨.alphabets, rfl, by decide, fun _ _ hh => by cases hh⟩
    rw [if_neg h1]
    by_cases h2 : ref.gapIdx ≠ 0
    · rw [if_pos h2]; exact ⟨.noGap, rfl, by decide, fun _ _ hh => by cases hh⟩
    rw [if_neg h2]
    by_cases h3 : ref.quality ≠ qry.quality
    · rw [if_pos h3]; exact ⟨.types, rfl, by decide, fun _ _ hh => by cases hh⟩
    rw [if_neg h3]
    by_cases h4 : M.length < ref.alen
    · rw [if_pos h4]; exact ⟨.size, rfl, by decide, fun _ _ hh => by cases hh⟩
    rw [if_neg h4]
    by_cases h5 : (M.any fun row => decide (row.length ≠ M.length)) = true
    · rw [if_pos h5]; exact ⟨.notSquare, rfl, by decide, fun _ _ hh => by cases hh⟩
    rw [if_neg h5]
    have h6 : ((∃ x ∈ ref.idx, x < 0) ∨ (∃ x ∈ qry.idx, x < 0)) ∧ ref.idx ≠ [] ∧ qry.idx ≠ [] := by
      rcases h with h | h | h | h | h | h | h
      · rw [hra] at h; cases h
      · rw [hra] at h; exact absurd h h1
      · exact absurd h h2
      · exact absurd h h3
      · exact absurd h h4
      · exfalso; apply h5
        obtain ⟨row, hrow, hne⟩ := h
        exact List.any_eq_true.mpr ⟨row, hrow, by simpa using hne⟩
      · exact h
    obtain ⟨p, hp | hp⟩ := letterCheck_error w ref.idx qry.idx h6.2.1 h6.2.2 h6.1
    · rw [hp]; exact ⟨.letterR p, rfl, (fun hh => by cases hh), (fun _ _ hh => by cases hh)⟩
    · rw [hp]; exact ⟨.letterQ p, rfl, (fun hh => by cases hh), (fun _ _ hh => by cases hh)⟩

/-- the hypothesis of `align_total` is satisfiable, and the conclusion then names the error -/
example : align .nw [[0, -1], [-1, 1]] (-1) ⟨some "X", 2, 0, false, [1, -1]⟩ ⟨some "X", 2, 0, false, [1]⟩
    = .error (.letterR 1) := by decide

/-- "The feature pairs returned by every aligner form one monotone path: consecutive pairs
    abut in both sequences, each pair is an equal-length ungapped block, a gap in exactly one
    sequence, or empty with zero score; global alignments span both sequences entirely":
    `NWAffine`, for every matrix, gap-open value and pair of sequences (whatever the table
    holds — the proof is an invariant of the traceback loop alone). -/
theorem trace_wf_nwAffine (S : Matrix) (gapOpen : Int) (r q : List Nat) (ps : List Pair)
    (h : nwAlign S gapOpen r q = .ok ps) :
    wellFormed ps = true ∧ spansAll ps r.length q.length = true :=
  Biogo.Proofs.TraceWF.nwAlign_wf S gapOpen r q ps h

/-- "… and local ones stay within bounds": `SWAffine`. -/
theorem trace_wf_swAffine (S : Matrix) (gapOpen : Int) (r q : List Nat) (ps : List Pair)
    (h : swAlign S gapOpen r q = .ok ps) :
    wellFormed ps = true ∧ inBounds ps r.length q.length = true :=
  Biogo.Proofs.TraceWF.swAlign_wf S gapOpen r q ps h

/-- `FittedAffine`: one well-formed path within bounds which, after the repair of K2b, starts
    at query position 0 and ends at the end of the query (C08: "consumes the whole query"). -/
theorem trace_wf_fittedAffine (S : Matrix) (gapOpen : Int) (r q : List Nat) (ps : List Pair)
    (h : fitAlign S gapOpen r q = .ok ps) :
    wellFormed ps = true ∧ inBounds ps r.length q.length = true ∧
      (firstStart ps).2 = 0 ∧ (lastEnd ps).2 = q.length :=
  Biogo.Proofs.TraceWF.fitAlign_wf S gapOpen r q ps h

/-- non-vacuity: the aligners do return pairs -/
example : nwAlign (sc [[0, -1, -1], [-1, 1, -1], [-1, -1, 1]]) (-2) [1, 2, 1] [1, 1] =
    .ok [⟨0, 1, 0, 1, 1⟩, ⟨1, 2, 1, 1, -3⟩, ⟨2, 3, 1, 2, 1⟩] := by decide +kernel
example : swAlign (sc [[0, -1, -1], [-1, 1, -1], [-1, -1, 1]]) (-2) [1, 2, 1] [2, 1] =
    .ok [⟨1, 3, 0, 2, 2⟩] := by decide +kernel
example : fitAlign (sc [[0, -1, -1], [-1, 1, -1], [-1, -1, 1]]) (-2) [1, 2, 1] [2, 1] =
    .ok [⟨1, 3, 0, 2, 2⟩] := by decide +kernel

/-- "each pair's reported score equals the score recomputed from the letters, matrix and gap
    parameters" — **`NWAffine`, the full statement** (after the repair of K5: every `case` of
    the traceback switch is guarded by the layer it is a legal predecessor of).  For all
    matrices, gap-open values and non-empty sequences: every block carries the sum of its
    letter pairs and every gap pair `gapOpen` plus its per-letter gap scores, the leading gap
    block included. -/
theorem pair_scores_faithful (S : Matrix) (gapOpen : Int) (r q : List Nat) (hr : r ≠ [])
    (hq : q ≠ []) (ps : List Pair) (h : nwAlign S gapOpen r q = .ok ps) :
    faithful S gapOpen r q ps = true :=
  Biogo.Proofs.NWFaith.nwAlign_faithful S gapOpen r q hr hq ps h

/-- non-vacuity: a traceback with a gap; and the K5 witness, now faithful -/
example : nwAlign (sc [[0, -1, -1], [-1, 1, -1], [-1, -1, 1]]) (-2) [1, 2, 1] [1, 1] =
      .ok [⟨0, 1, 0, 1, 1⟩, ⟨1, 2, 1, 1, -3⟩, ⟨2, 3, 1, 2, 1⟩] := by decide +kernel

/-- "each pair's reported score equals the score recomputed from the letters, matrix and gap
    parameters" — **`SWAffine`**, for all matrices with non-positive gap scores (the domain of
    C08/C09), all gap-open values and all sequences.  The local traceback stops on a value 0;
    with gap scores ≤ 0 a gap run that has not been charged its `gapOpen` yet never stands on a
    0 (`Proofs/SWFaith`), so the first pair is a block or a complete gap. -/
theorem pair_scores_faithful_swAffine (S : Matrix) (gapOpen : Int) (hg : ∀ x, S x 0 ≤ 0 ∧ S 0 x ≤ 0)
    (r q : List Nat) (ps : List Pair) (h : swAlign S gapOpen r q = .ok ps) :
    faithful S gapOpen r q ps = true :=
  Biogo.Proofs.SWFaith.swAlign_faithful S gapOpen hg r q ps h

/-- non-vacuity: a local alignment with a gap -/
example : swAlign (sc [[0, -1, -1], [-1, 2, -1], [-1, -1, 2]]) (-1) [1, 1, 2, 1, 1] [1, 1, 1, 1] =
    .ok [⟨0, 2, 0, 2, 4⟩, ⟨2, 3, 2, 2, -2⟩, ⟨3, 5, 2, 4, 4⟩] := by decide +kernel

/-- The hypothesis on the gap scores is needed: with a positive gap score a gap-layer value
    can extend a clipped 0, the traceback stops there and the gap pair is reported without its
    `gapOpen` (gap against a query letter scores +1, gap-open −1, `r = cac`, `q = cc`: the
    gap pair against query `[0,1)` is reported with 1, recomputed 0). -/
theorem pair_scores_swAffine_needs_nonpositive_gaps :
    ∃ (M : List (List Int)) (gapOpen : Int) (r q : List Nat) (ps : List Pair),
      swAlign (sc M) gapOpen r q = .ok ps ∧ faithful (sc M) gapOpen r q ps = false :=
  ⟨[[0, 1, 1], [-1, 2, -5], [-1, -5, 2]], -1, [2, 1, 2], [2, 2], [⟨2, 2, 0, 1, 1⟩, ⟨2, 3, 1, 2, 2⟩],
    by decide +kernel, by decide +kernel⟩

/-- "each pair's reported score equals the score recomputed from the letters, matrix and gap
    parameters" — **`FittedAffine`**, for all matrices, gap-open values and non-empty
    sequences, the leading query gap (fix K2b) and a trailing gap (the traceback may start in a
    gap layer since the repair of K3) included.  The loop can only stop inside a block or in a
    gap run that has just been charged its `gapOpen`: row 0 holds values only in the `left`
    layer, the free-prefix column 0 only in the `up` layer (`Proofs/FitFaith`). -/
theorem pair_scores_faithful_fittedAffine (S : Matrix) (gapOpen : Int) (r q : List Nat) (hr : r ≠ [])
    (hq : q ≠ []) (ps : List Pair) (h : fitAlign S gapOpen r q = .ok ps) :
    faithful S gapOpen r q ps = true :=
  Biogo.Proofs.FitFaith.fitAlign_faithful S gapOpen r q hr hq ps h

/-- non-vacuity: a fitted alignment with a reference gap, and one with a leading query gap -/
example : fitAlign (sc [[0, -1, -1], [-1, 2, -1], [-1, -1, 2]]) (-1) [2, 1, 1, 2, 1, 1, 2] [1, 1, 1, 1] =
    .ok [⟨1, 3, 0, 2, 4⟩, ⟨3, 4, 2, 2, -2⟩, ⟨4, 6, 2, 4, 4⟩] := by decide +kernel
example : fitAlign (sc [[0, -1, -1], [-1, 2, -1], [-1, -1, 2]]) (-1) [1, 1] [2, 2, 1, 2, 1] =
    .ok [⟨0, 0, 0, 2, -3⟩, ⟨0, 1, 2, 3, 2⟩, ⟨1, 1, 3, 4, -2⟩, ⟨1, 2, 4, 5, 2⟩] := by decide +kernel

/-- The statement that held before the repair, kept for either switch: whenever the traceback
    (layer-aware, `aware = true`, or the layer-blind one it replaced, `aware = false`) only
    takes `case`s that belong to its current layer (the ghost flag of the model stays `false`),
    the pair scores are the recomputed ones — for the fill of the code (`cross = true`) and for
    the fill before the repair of K1 (`cross = false`).  (It was `_partial` while the code had
    the layer-blind switch; `pair_scores_faithful` is now the full statement.) -/
theorem pair_scores_faithful_partial (aware cross : Bool) (S : Matrix) (gapOpen : Int) (r q : List Nat)
    (hr : r ≠ []) (hq : q ≠ []) (ps : List Pair) (h : nwAlignT aware cross S gapOpen r q = .ok (ps, false)) :
    faithful S gapOpen r q ps = true :=
  Biogo.Proofs.NWFaith.nwAlignT_faithful aware cross S gapOpen r q hr hq ps h

/-- non-vacuity: a layer-blind traceback with a gap and no tie -/
example : legacyPairs .nw (sc [[0, -1, -1], [-1, 1, -1], [-1, -1, 1]]) (-2) [1, 2, 1] [1, 1] =
      .ok [⟨0, 1, 0, 1, 1⟩, ⟨1, 2, 1, 1, -3⟩, ⟨2, 3, 1, 2, 1⟩] ∧
    tieSwitched .nw (sc [[0, -1, -1], [-1, 1, -1], [-1, -1, 1]]) (-2) [1, 2, 1] [1, 1] = false := by
  decide +kernel

/-- all letter pairs −10, gap letters −1 -/
def tieM : List (List Int) :=
  [[0, -1, -1, -1, -1], [-1, -10, -10, -10, -10], [-1, -10, -10, -10, -10], [-1, -10, -10, -10, -10],
   [-1, -10, -10, -10, -10]]

/-- **Why the repair was needed** (K5, fixed): the layer-blind switch (`legacyPairs`, the
    traceback as it was before the repair, on the fill of the code) violates "each pair's
    reported score equals the score recomputed from the letters, matrix and gap parameters".
    With all letter pairs −10, gap letters −1, gap-open −1, `r = a`, `q = aa` its last pair (gap
    in the reference against query `[1,2)`) is reported with −1 (no gap-open) although it is a
    gap of its own; recomputed −2.  It compared the value of the `up` layer with the
    `left`-extension candidate and took it.  On the same input the repaired traceback
    (`nwAlign`) returns faithful pairs with the same total.  (Before the repair of K1 the
    witness was `aa` / `aaa`, still in `corpus/C09.txt`; with the `up ↔ left` transitions that
    input has another optimum.) -/
theorem legacy_pair_scores_not_faithful :
    ∃ (M : List (List Int)) (gapOpen : Int) (r q : List Nat) (ps ps' : List Pair),
      gapOpen ≤ 0 ∧ (∀ x, x < 5 → sc M x 0 ≤ 0 ∧ sc M 0 x ≤ 0) ∧
      legacyPairs .nw (sc M) gapOpen r q = .ok ps ∧ wellFormed ps = true ∧
      faithful (sc M) gapOpen r q ps = false ∧ tieSwitched .nw (sc M) gapOpen r q = true ∧
      nwAlign (sc M) gapOpen r q = .ok ps' ∧ faithful (sc M) gapOpen r q ps' = true ∧
      total ps' = total ps :=
  ⟨tieM, -1, [1], [1, 1],
    [⟨0, 0, 0, 1, -2⟩, ⟨0, 1, 1, 1, -2⟩, ⟨1, 1, 1, 2, -1⟩],
    [⟨0, 0, 0, 2, -3⟩, ⟨0, 1, 2, 2, -2⟩],
    by decide, by decide, by decide +kernel, by decide, by decide +kernel, by decide +kernel,
    by decide +kernel, by decide +kernel, by decide⟩

/-- **The repair of K5 changes nothing but the tie cases**: for all three affine aligners, every
    matrix, gap-open value and pair of sequences, if the traceback as it was before the repair
    (`legacyPairs`, layer-blind switch) returns `ps` without taking a `case` of another layer
    (`tieSwitched = false`), the repaired aligner returns exactly `ps`.  (The driver evaluates
    the same statement on the implementation's pairs: tags `legacy-same` / `legacy-tie`.) -/
theorem k5_repair_conservative (w : Which) (S : Matrix) (gapOpen : Int) (r q : List Nat) (ps : List Pair)
    (h : legacyPairs w S gapOpen r q = .ok ps) (ht : tieSwitched w S gapOpen r q = false) :
    (alignT true w S gapOpen r q).map (·.1) = .ok ps := by
  unfold legacyPairs at h
  unfold tieSwitched at ht
  cases hT : alignT false w S gapOpen r q with
  | error e => rw [hT] at h; cases h
  | ok res =>
    obtain ⟨ps', t⟩ := res
    rw [hT] at h ht
    simp only [Except.map] at h
    simp only [] at ht
    cases h
    subst ht
    rw [Biogo.Proofs.TraceLegacy.alignT_legacy_agree w S gapOpen r q _ hT]
    rfl

/-- `alignT true` is the model the driver runs (`nwAlign`, `swAlign`, `fitAlign`) -/
example (S : Matrix) (o : Int) (r q : List Nat) :
    (alignT true .nw S o r q).map (·.1) = nwAlign S o r q ∧
    (alignT true .sw S o r q).map (·.1) = swAlign S o r q ∧
    (alignT true .fit S o r q).map (·.1) = fitAlign S o r q := ⟨rfl, rfl, rfl⟩

end Biogo.Properties.C09_aff
