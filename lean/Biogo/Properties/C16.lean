/-
C16 — Piles are exactly the overlap-connected components of the added features.

Property theorems about the piler model `Biogo.Model.Piler` (the definitions the driver runs),
for every Add history: no bound on the number of pairs, locations or coordinates.
Hypotheses: features are well formed (`start ≤ end`) and distinct `*Pair` objects have distinct
ids (`Nodup`); both are satisfiable (examples below).
-/
import Biogo.Proofs.PilesCheck
import Biogo.Drive.C16

namespace Biogo.Properties.C16
open Biogo.Piler Biogo.Spec.Piles Biogo.Proofs.Piler

/-- "merge: query, absorb all matches taking min start / max end, delete them, insert the union"
    preserves `Disjoint ∧ NonAbutting ∧ SortedByStart` (`Sep`: every stored interval ends strictly
    before the next one starts) together with the description of every stored interval by its
    members (`IvOK`: hull, end points attained, union of members, members chained). -/
theorem merge_preserves_invariant {fs fs' : Feats} {loc : Nat} {t : List Iv} {i : Nat} {k : Key}
    (wf' : WF fs') (sub : ∀ x ∈ fs, x ∈ fs') (hik : (i, k) ∈ fs') (hloc : k.loc = loc)
    (ht : (∀ a ∈ t, IvOK fs loc a) ∧ Sep t) :
    (∀ a ∈ mergeLoc t { s := k.s, e := k.e, imgs := [i] }, IvOK fs' loc a) ∧
      Sep (mergeLoc t { s := k.s, e := k.e, imgs := [i] }) :=
  mergeLoc_ok wf' sub hik hloc ht

/-! ### feature ids stay distinct -/

theorem add_feats (p : Piler) (x : PairIn) :
    (p.add x).1.feats = p.feats ∨
    (p.add x).1.feats = p.feats ++ [(2 * x.id, x.a), (2 * x.id + 1, x.b)] := by
  simp only [Piler.add]
  split
  · exact Or.inl rfl
  · exact Or.inr rfl

theorem addAll_feats_nodup (p : Piler) (xs : List PairIn)
    (nd : (p.feats.map (·.1)).Nodup) (ndx : (xs.map (·.id)).Nodup)
    (fresh : ∀ y ∈ p.feats, ∀ x ∈ xs, y.1 / 2 ≠ x.id) :
    ((p.addAll xs).1.feats.map (·.1)).Nodup := by
  induction xs generalizing p with
  | nil => exact nd
  | cons x xs ih =>
    simp only [Piler.addAll]
    simp only [List.map_cons, List.nodup_cons, List.mem_map, not_exists, not_and] at ndx
    apply ih _ _ ndx.2
    · intro y hy z hz
      rcases add_feats p x with e | e
      · rw [e] at hy; exact fresh y hy z (List.mem_cons_of_mem _ hz)
      · rw [e] at hy
        rcases List.mem_append.mp hy with hy | hy
        · exact fresh y hy z (List.mem_cons_of_mem _ hz)
        · have hne : z.id ≠ x.id := ndx.1 z hz
          simp only [List.mem_cons, List.not_mem_nil, or_false] at hy
          rcases hy with rfl | rfl <;> simp only <;> omega
    · rcases add_feats p x with e | e
      · rw [e]; exact nd
      · rw [e]
        simp only [List.map_append, List.map_cons, List.map_nil]
        refine List.nodup_append.mpr ⟨nd, by simp, ?_⟩
        intro a ha b hb
        obtain ⟨y, hy, rfl⟩ := List.mem_map.mp ha
        have := fresh y hy x (List.mem_cons_self ..)
        simp only [List.mem_cons, List.not_mem_nil, or_false] at hb
        rcases hb with rfl | rfl <;> omega

theorem feats_nodup (xs : List PairIn) (ndx : (xs.map (·.id)).Nodup) :
    ((adds xs).feats.map (·.1)).Nodup :=
  addAll_feats_nodup Piler.new xs (by simp [Piler.new]) ndx (by intro y hy; cases hy)

/-! ### the component theorem -/

theorem mem_piles {p : Piler} {q : Pile} :
    q ∈ p.piles none ↔ ∃ l ∈ p.locs, ∃ a ∈ p.trees l, q = { loc := l, s := a.s, e := a.e, imgs := a.imgs } := by
  simp only [Piler.piles, List.mem_flatMap, List.mem_map]
  constructor
  · rintro ⟨l, hl, a, ha, rfl⟩; exact ⟨l, hl, a, ha, rfl⟩
  · rintro ⟨l, hl, a, ha, rfl⟩; exact ⟨l, hl, a, ha, rfl⟩

theorem piles_imgs (p : Piler) : (p.piles none).flatMap (·.imgs) = allImgs p := by
  simp only [Piler.piles, allImgs, List.flatMap_assoc, List.flatMap_map]

/-- from the invariant to the statement -/
theorem components_of_inv {p : Piler} (inv : Inv p) (nd : (p.feats.map (·.1)).Nodup) :
    IsComponents p.feats (p.piles none) := by
  have uniq := uniq_of_nodup nd
  have once : ((p.piles none).flatMap (·.imgs)).Perm (p.feats.map (·.1)) := by
    rw [piles_imgs]; exact inv.imgs
  have disj : (p.piles none).Pairwise fun a b => a.loc = b.loc → a.e < b.s ∨ b.e < a.s := by
    simp only [Piler.piles]
    refine List.pairwise_flatMap.mpr ⟨?_, ?_⟩
    · intro l _
      refine List.pairwise_map.mpr ?_
      exact (inv.trees l).2.imp (fun h _ => Or.inl h)
    · refine inv.nodup.imp ?_
      intro l l' hne x hx y hy e
      obtain ⟨a, _, rfl⟩ := List.mem_map.mp hx
      obtain ⟨b, _, rfl⟩ := List.mem_map.mp hy
      exact absurd e hne
  have inside : ∀ q ∈ p.piles none, ∀ i ∈ q.imgs, ∀ k, (i, k) ∈ p.feats →
      k.loc = q.loc ∧ q.s ≤ k.s ∧ k.e ≤ q.e := by
    intro q hq i hi k hk
    obtain ⟨l, _, a, ha, rfl⟩ := mem_piles.mp hq
    obtain ⟨k', h1, h2, h3⟩ := ((inv.trees l).1 a ha).inside i hi
    have := uniq i k k' hk h1
    subst this
    exact ⟨h2, h3⟩
  refine ⟨once, disj, inside, ?_, ?_, ?_⟩
  · intro q hq x h1 h2
    obtain ⟨l, _, a, ha, rfl⟩ := mem_piles.mp hq
    obtain ⟨i, k, c1, c2, _, c3⟩ := ((inv.trees l).1 a ha).cover x h1 h2
    exact ⟨i, k, c1, c2, c3⟩
  · intro q hq
    obtain ⟨l, _, a, ha, rfl⟩ := mem_piles.mp hq
    obtain ⟨i, k, c1, c2, _, c3, _⟩ := ((inv.trees l).1 a ha).lo
    obtain ⟨j, k', d1, d2, _, d3, _⟩ := ((inv.trees l).1 a ha).hi
    exact ⟨⟨i, k, c1, c2, c3⟩, ⟨j, k', d1, d2, d3⟩⟩
  · refine share_iff_of ?_ inside ?_ ?_
    · intro i k hik
      have : i ∈ p.feats.map (·.1) := List.mem_map.mpr ⟨(i, k), hik, rfl⟩
      obtain ⟨q, hq, hi⟩ := List.mem_flatMap.mp (once.mem_iff.mpr this)
      exact ⟨q, hq, hi⟩
    · intro a ha b hb
      rcases pairwise_trichotomy disj ha hb with e | e | e
      · exact Or.inl e
      · by_cases c : a.loc = b.loc
        · exact Or.inr (Or.inr (e c))
        · exact Or.inr (Or.inl c)
      · by_cases c : a.loc = b.loc
        · rcases e c.symm with e | e
          · exact Or.inr (Or.inr (Or.inr e))
          · exact Or.inr (Or.inr (Or.inl e))
        · exact Or.inr (Or.inl c)
    · intro q hq i hi j hj
      obtain ⟨l, _, a, ha, rfl⟩ := mem_piles.mp hq
      exact ((inv.trees l).1 a ha).linked i hi j hj

/-- **C16, main statement.**  For any history of Add calls (any order, any number of pairs and
    locations, duplicates included), the piles reported by `Piles(nil)` are pairwise disjoint
    per location, each pile's interval is the union of its members' intervals, two accepted
    features share a pile exactly when they are linked by a chain of overlapping or abutting
    features on the same location, and every accepted feature is in exactly one pile. -/
theorem piles_are_components (xs : List PairIn) (wf : WFIn xs) (nd : (xs.map (·.id)).Nodup) :
    IsComponents (adds xs).feats ((adds xs).piles none) :=
  components_of_inv (addAll_inv new_inv xs wf) (feats_nodup xs nd)

/-- non-vacuity and a concrete instance: `[2,4)`, `[4,6)` abut and `[9,9)` stands alone -/
example : ((adds [⟨0, ⟨0, 2, 4⟩, ⟨0, 9, 9⟩⟩, ⟨1, ⟨0, 4, 6⟩, ⟨1, 0, 3⟩⟩]).piles none) =
    [⟨0, 2, 6, [2, 0]⟩, ⟨0, 9, 9, [1]⟩, ⟨1, 0, 3, [3]⟩] := by decide

/-- "every added feature appears in exactly one pile": the images of all piles, concatenated,
    are a duplicate-free rearrangement of the accepted feature ids -/
theorem every_feature_once (xs : List PairIn) (wf : WFIn xs) (nd : (xs.map (·.id)).Nodup) :
    (((adds xs).piles none).flatMap (·.imgs)).Perm ((adds xs).feats.map (·.1)) ∧
    (((adds xs).piles none).flatMap (·.imgs)).Nodup := by
  have h := (piles_are_components xs wf nd).once
  exact ⟨h, h.nodup_iff.mpr (feats_nodup xs nd)⟩

/-- the executable statement the driver evaluates on the implementation's piles is sound -/
theorem checker_sound {fs : Feats} {ps : List Pile} (h : checkPiles fs ps = true) :
    IsComponents fs ps := checkPiles_sound h

/-- "filters select images without changing pile intervals" -/
theorem filter_keeps_intervals (p : Piler) (f : Nat → Bool) :
    p.piles (some f) = (p.piles none).map fun q => { q with imgs := q.imgs.filter fun i => f (i / 2) } := by
  simp only [Piler.piles, List.map_flatMap, List.map_map]
  rfl


/-- "all pair filters on the Piles call", for a filter that inspects the piles its pair's images
    lie in (`p.A.Loc` / `p.B.Loc`): the result is `Piles(nil)` with an image kept iff the filter,
    evaluated on the FINAL piles (`locate` = the pile of `Piles(nil)` listing the image), accepts
    its pair; intervals unchanged.  The same on the first and on every later call (`pilesLoc` is
    a function of the state). -/
theorem loc_filter_on_final_piles (p : Piler) (g : LocFilter) :
    p.pilesLoc g = (p.piles none).map fun q =>
      { q with imgs := q.imgs.filter (fun i => g (i / 2) (p.locate (2 * (i / 2))) (p.locate (2 * (i / 2) + 1))) } := by
  unfold Piler.pilesLoc
  rw [filter_keeps_intervals]
  rfl

/-! ### duplicates -/

/-- the same pair of (location, start, end) keys, in either orientation -/
def SamePair (y : PairIn) (a b : Key) : Prop := (y.a = a ∧ y.b = b) ∨ (y.a = b ∧ y.b = a)

theorem add_rejected_iff (p : Piler) (x : PairIn) :
    (p.add x).2 = false ↔ ((x.a, x.b) ∈ p.seen ∨ (x.b, x.a) ∈ p.seen) := by
  simp only [Piler.add]
  split
  · rename_i h
    simp only [Bool.or_eq_true, List.contains_iff_mem] at h
    simp [h]
  · rename_i h
    simp only [Bool.or_eq_true, List.contains_iff_mem] at h
    simp [h]

/-- a rejected Add changes nothing -/
theorem rejected_changes_nothing (p : Piler) (x : PairIn) (h : (p.add x).2 = false) :
    (p.add x).1 = p := by
  unfold Piler.add at h ⊢
  split at h
  · rename_i c; rw [if_pos c]
  · simp at h

theorem add_seen (p : Piler) (x : PairIn) :
    ((p.add x).2 = false ∧ (p.add x).1.seen = p.seen) ∨
    ((p.add x).2 = true ∧ (p.add x).1.seen = (x.a, x.b) :: p.seen) := by
  simp only [Piler.add]
  split
  · exact Or.inl ⟨rfl, rfl⟩
  · exact Or.inr ⟨rfl, rfl⟩

theorem seen_addAll (p : Piler) (xs : List PairIn) (a b : Key) :
    ((a, b) ∈ (p.addAll xs).1.seen ∨ (b, a) ∈ (p.addAll xs).1.seen) ↔
    (((a, b) ∈ p.seen ∨ (b, a) ∈ p.seen) ∨ ∃ y ∈ xs, SamePair y a b) := by
  induction xs generalizing p with
  | nil => simp [Piler.addAll]
  | cons x xs ih =>
    simp only [Piler.addAll, ih, List.mem_cons, exists_eq_or_imp]
    rcases add_seen p x with ⟨r, e⟩ | ⟨_, e⟩
    · rw [e]
      have hx := (add_rejected_iff p x).mp r
      constructor
      · rintro (h | h)
        · exact Or.inl h
        · exact Or.inr (Or.inr h)
      · rintro (h | h | h)
        · exact Or.inl h
        · left
          rcases h with ⟨rfl, rfl⟩ | ⟨rfl, rfl⟩
          · exact hx
          · exact hx.symm
        · exact Or.inr h
    · rw [e]
      simp only [List.mem_cons, Prod.mk.injEq, SamePair]
      grind

/-- **"Adding the same pair twice, in either orientation, is rejected"** — and nothing else is:
    after any history `pre`, `Add x` fails exactly when some earlier Add (accepted or not) had
    the same two keys in the same or the swapped order; a failed Add leaves the piler as it was
    (`rejected_changes_nothing`). -/
theorem duplicate_rejected (pre : List PairIn) (x : PairIn) :
    ((adds pre).add x).2 = false ↔ ∃ y ∈ pre, SamePair y x.a x.b := by
  rw [add_rejected_iff, adds, seen_addAll]
  simp [Piler.new]

example : ((adds [⟨0, ⟨0, 2, 4⟩, ⟨1, 7, 9⟩⟩]).add ⟨5, ⟨1, 7, 9⟩, ⟨0, 2, 4⟩⟩).2 = false := by decide

/-! ### mates -/

theorem feats_mono (p : Piler) (xs : List PairIn) : ∀ y ∈ p.feats, y ∈ (p.addAll xs).1.feats := by
  induction xs generalizing p with
  | nil => intro y hy; exact hy
  | cons x xs ih =>
    intro y hy
    simp only [Piler.addAll]
    apply ih
    rcases add_feats p x with e | e <;> rw [e]
    · exact hy
    · exact List.mem_append_left _ hy

theorem feats_origin (p : Piler) (xs : List PairIn) :
    ∀ y ∈ (p.addAll xs).1.feats, y ∈ p.feats ∨
      ∃ x ∈ xs, (y = (2 * x.id, x.a) ∨ y = (2 * x.id + 1, x.b)) ∧
        (2 * x.id, x.a) ∈ (p.addAll xs).1.feats ∧ (2 * x.id + 1, x.b) ∈ (p.addAll xs).1.feats := by
  induction xs generalizing p with
  | nil => intro y hy; exact Or.inl hy
  | cons x xs ih =>
    intro y hy
    simp only [Piler.addAll] at hy ⊢
    rcases ih _ y hy with h | ⟨z, hz, h⟩
    · rcases add_feats p x with e | e <;> rw [e] at h
      · exact Or.inl h
      · rcases List.mem_append.mp h with h | h
        · exact Or.inl h
        · right
          refine ⟨x, List.mem_cons_self .., ?_, ?_, ?_⟩
          · simpa using h
          · apply feats_mono; rw [e]; simp
          · apply feats_mono; rw [e]; simp
    · exact Or.inr ⟨z, List.mem_cons_of_mem _ hz, h⟩

/-- **"with its mate link intact"**: every feature in a pile belongs to an accepted pair whose
    other feature (id `2p` ↔ `2p+1`, the `Mate()`) is also an accepted feature, and both lie in
    a pile of the `Piles(nil)` result. -/
theorem mate_intact (xs : List PairIn) (wf : WFIn xs) (nd : (xs.map (·.id)).Nodup)
    (i : Nat) (k : Key) (h : (i, k) ∈ (adds xs).feats) :
    ∃ x ∈ xs, ((i = 2 * x.id ∧ k = x.a) ∨ (i = 2 * x.id + 1 ∧ k = x.b)) ∧
      (2 * x.id, x.a) ∈ (adds xs).feats ∧ (2 * x.id + 1, x.b) ∈ (adds xs).feats ∧
      (∃ q ∈ (adds xs).piles none, 2 * x.id ∈ q.imgs) ∧
      (∃ q ∈ (adds xs).piles none, 2 * x.id + 1 ∈ q.imgs) := by
  rcases feats_origin Piler.new xs (i, k) h with h | ⟨x, hx, h1, h2, h3⟩
  · simp [Piler.new] at h
  · have once := (piles_are_components xs wf nd).once
    have inPile : ∀ j kj, (j, kj) ∈ (adds xs).feats → ∃ q ∈ (adds xs).piles none, j ∈ q.imgs := by
      intro j kj hj
      have : j ∈ (adds xs).feats.map (·.1) := List.mem_map.mpr ⟨(j, kj), hj, rfl⟩
      obtain ⟨q, hq, hi⟩ := List.mem_flatMap.mp (once.mem_iff.mpr this)
      exact ⟨q, hq, hi⟩
    refine ⟨x, hx, ?_, h2, h3, inPile _ _ h2, inPile _ _ h3⟩
    rcases h1 with e | e
    · left; exact ⟨(Prod.mk.inj e).1, (Prod.mk.inj e).2⟩
    · right; exact ⟨(Prod.mk.inj e).1, (Prod.mk.inj e).2⟩


/-! ### insertion order -/

theorem nodup_of_flatMap {α β} {f : α → List β} {ps : List α} (h : (ps.flatMap f).Nodup) :
    ∀ p ∈ ps, (f p).Nodup := by
  induction ps with
  | nil => intro p hp; cases hp
  | cons r rest ih =>
    simp only [List.flatMap_cons] at h
    have h' := List.nodup_append.mp h
    intro p hp
    rcases List.mem_cons.mp hp with rfl | hp
    · exact h'.1
    · exact ih h'.2.1 p hp

theorem flatMap_unique {α β} {f : α → List β} {ps : List α} (h : (ps.flatMap f).Nodup) {p q : α}
    (hp : p ∈ ps) (hq : q ∈ ps) {i : β} (ip : i ∈ f p) (iq : i ∈ f q) : p = q := by
  induction ps with
  | nil => cases hp
  | cons r rest ih =>
    simp only [List.flatMap_cons] at h
    have h' := List.nodup_append.mp h
    rcases List.mem_cons.mp hp with ep | hp' <;> rcases List.mem_cons.mp hq with eq | hq'
    · rw [ep, eq]
    · rw [ep] at ip; exact absurd rfl (h'.2.2 i ip i (List.mem_flatMap.mpr ⟨q, hq', iq⟩))
    · rw [eq] at iq; exact absurd rfl (h'.2.2 i iq i (List.mem_flatMap.mpr ⟨p, hp', ip⟩))
    · exact ih h'.2.1 hp' hq'

/-- The statement determines the piles: two pile lists that both satisfy `IsComponents` for the
    same set of features have the same piles (location, interval, members). -/
theorem components_unique {fs fs' : Feats} {ps ps' : List Pile}
    (nd : (fs.map (·.1)).Nodup) (nd' : (fs'.map (·.1)).Nodup) (same : ∀ y, y ∈ fs ↔ y ∈ fs')
    (h : IsComponents fs ps) (h' : IsComponents fs' ps') :
    ∀ p ∈ ps, ∃ p' ∈ ps', p'.loc = p.loc ∧ p'.s = p.s ∧ p'.e = p.e ∧ p'.imgs.Perm p.imgs := by
  -- helper, used in both directions
  have transfer : ∀ {fs fs' : Feats} {ps ps' : List Pile}, (fs'.map (·.1)).Nodup →
      (∀ y, y ∈ fs → y ∈ fs') → IsComponents fs ps → IsComponents fs' ps' →
      ∀ p ∈ ps, ∀ p' ∈ ps', ∀ i, i ∈ p.imgs → i ∈ p'.imgs → ∀ j, j ∈ p.imgs → j ∈ p'.imgs := by
    intro fs fs' ps ps' nd' sub h h' p hp p' hp' i hi hi' j hj
    have memfs : ∀ a, a ∈ p.imgs → ∃ k, (a, k) ∈ fs := by
      intro a ha
      have : a ∈ ps.flatMap (·.imgs) := List.mem_flatMap.mpr ⟨p, hp, ha⟩
      obtain ⟨y, hy, rfl⟩ := List.mem_map.mp (h.once.mem_iff.mp this)
      exact ⟨y.2, hy⟩
    obtain ⟨ki, hki⟩ := memfs i hi
    obtain ⟨kj, hkj⟩ := memfs j hj
    have l : Linked fs i j := (h.share_iff i j ki kj hki hkj).mp ⟨p, hp, hi, hj⟩
    obtain ⟨p'', hp'', a1, a2⟩ := (h'.share_iff i j ki kj (sub _ hki) (sub _ hkj)).mpr (Linked.mono sub l)
    have ndf : (ps'.flatMap (·.imgs)).Nodup := h'.once.nodup_iff.mpr nd'
    have := flatMap_unique ndf hp'' hp' a1 hi'
    rw [← this]; exact a2
  intro p hp
  obtain ⟨⟨i, k, hi, hk, ks⟩, ⟨j, kj, hj, hkj, ke⟩⟩ := h.ends p hp
  have : i ∈ fs'.map (·.1) := List.mem_map.mpr ⟨(i, k), (same _).mp hk, rfl⟩
  obtain ⟨p', hp', hi'⟩ := List.mem_flatMap.mp (h'.once.mem_iff.mpr this)
  have fwd := transfer nd' (fun y hy => (same y).mp hy) h h' p hp p' hp' i hi hi'
  have bwd := transfer nd (fun y hy => (same y).mpr hy) h' h p' hp' p hp i hi' hi
  obtain ⟨⟨a, ka, ha, hka, kas⟩, ⟨b, kb, hb, hkb, kbe⟩⟩ := h'.ends p' hp'
  have i1 := h.inside p hp i hi k hk
  have i2 := h'.inside p' hp' i hi' k ((same _).mp hk)
  have i3 := h'.inside p' hp' j (fwd j hj) kj ((same _).mp hkj)
  have i4 := h.inside p hp a (bwd a ha) ka ((same _).mpr hka)
  have i5 := h.inside p hp b (bwd b hb) kb ((same _).mpr hkb)
  refine ⟨p', hp', by omega, by omega, by omega, ?_⟩
  have n1 := nodup_of_flatMap (h.once.nodup_iff.mpr nd) p hp
  have n2 := nodup_of_flatMap (h'.once.nodup_iff.mpr nd') p' hp'
  exact (List.perm_ext_iff_of_nodup n2 n1).mpr (fun a => ⟨bwd a, fwd a⟩)

/-- no two entries of the history carry the same pair of keys (in either orientation) -/
def NoDupPairs (xs : List PairIn) : Prop := xs.Pairwise fun x y => ¬ SamePair y x.a x.b

def featsOf (x : PairIn) : List (Nat × Key) := [(2 * x.id, x.a), (2 * x.id + 1, x.b)]

/-- without duplicates every Add is accepted -/
theorem feats_all_accepted (p : Piler) (xs : List PairIn) (nodup : NoDupPairs xs)
    (fresh : ∀ x ∈ xs, (x.a, x.b) ∉ p.seen ∧ (x.b, x.a) ∉ p.seen) :
    (p.addAll xs).1.feats = p.feats ++ xs.flatMap featsOf := by
  induction xs generalizing p with
  | nil => simp [Piler.addAll]
  | cons x xs ih =>
    have hx := fresh x (List.mem_cons_self ..)
    have hp := List.pairwise_cons.mp nodup
    have acc : (p.add x).2 = true := by
      cases h : (p.add x).2
      · have := (add_rejected_iff p x).mp h
        rcases this with c | c
        · exact absurd c hx.1
        · exact absurd c hx.2
      · rfl
    simp only [Piler.addAll]
    rcases add_seen p x with ⟨r, _⟩ | ⟨_, e⟩
    · rw [acc] at r; cases r
    · rw [ih _ hp.2]
      · rcases add_feats p x with e' | e'
        · -- accepted, so the features were appended
          exfalso
          have : (p.add x).1.seen = p.seen := by
            unfold Piler.add at e' ⊢
            split
            · rfl
            · rename_i c
              rw [if_neg c] at e'
              simp only at e'
              have := congrArg List.length e'
              simp at this
          rw [this] at e
          have := congrArg List.length e
          simp at this
        · rw [e']; simp [featsOf, List.append_assoc]
      · intro z hz
        have nz := hp.1 z hz
        have fz := fresh z (List.mem_cons_of_mem _ hz)
        rw [e]
        simp only [List.mem_cons, Prod.mk.injEq, not_or]
        simp only [SamePair] at nz
        refine ⟨⟨?_, fz.1⟩, ⟨?_, fz.2⟩⟩
        · rintro ⟨h1, h2⟩; exact nz (Or.inl ⟨h1, h2⟩)
        · rintro ⟨h1, h2⟩; exact nz (Or.inr ⟨h2, h1⟩)

theorem feats_noDup (xs : List PairIn) (nodup : NoDupPairs xs) :
    (adds xs).feats = xs.flatMap featsOf := by
  have := feats_all_accepted Piler.new xs nodup (by intro x _; simp [Piler.new])
  simpa [adds, Piler.new] using this

/-- **Insertion order is irrelevant.**  Two histories that add the same set of pairs (no pair
    twice) in different orders report the same piles: for every pile of one there is a pile of
    the other on the same location with the same interval and the same members. -/
theorem insertion_order_irrelevant (xs ys : List PairIn) (perm : xs.Perm ys) (wf : WFIn xs)
    (nd : (xs.map (·.id)).Nodup) (nodup : NoDupPairs xs) :
    ∀ p ∈ (adds xs).piles none, ∃ p' ∈ (adds ys).piles none,
      p'.loc = p.loc ∧ p'.s = p.s ∧ p'.e = p.e ∧ p'.imgs.Perm p.imgs := by
  have wf' : WFIn ys := fun y hy => wf y (perm.mem_iff.mpr hy)
  have nd' : (ys.map (·.id)).Nodup := (perm.map _).nodup_iff.mp nd
  have nodup' : NoDupPairs ys := by
    refine (List.Perm.pairwise_iff ?_ perm).mp nodup
    intro x y h c
    apply h
    simp only [SamePair] at c ⊢
    rcases c with ⟨c1, c2⟩ | ⟨c1, c2⟩
    · exact Or.inl ⟨c1.symm, c2.symm⟩
    · exact Or.inr ⟨c2.symm, c1.symm⟩
  refine components_unique (feats_nodup xs nd) (feats_nodup ys nd') ?_
    (piles_are_components xs wf nd) (piles_are_components ys wf' nd')
  intro y
  rw [feats_noDup xs nodup, feats_noDup ys nodup']
  simp only [List.mem_flatMap]
  constructor
  · rintro ⟨x, hx, h⟩; exact ⟨x, perm.mem_iff.mp hx, h⟩
  · rintro ⟨x, hx, h⟩; exact ⟨x, perm.mem_iff.mpr hx, h⟩

example : NoDupPairs [⟨0, ⟨0, 2, 4⟩, ⟨0, 9, 9⟩⟩, ⟨1, ⟨0, 4, 6⟩, ⟨1, 0, 3⟩⟩] ∧
    WFIn [⟨0, ⟨0, 2, 4⟩, ⟨0, 9, 9⟩⟩, ⟨1, ⟨0, 4, 6⟩, ⟨1, 0, 3⟩⟩] := by
  refine ⟨?_, ?_⟩
  · simp [NoDupPairs, SamePair]
  · intro x hx
    simp only [List.mem_cons, List.not_mem_nil, or_false] at hx
    rcases hx with rfl | rfl <;> simp


/-! ### insertion order with duplicates: the pile intervals are still the same -/

/-- chain of touching keys drawn from a set of keys -/
inductive LinkedK (K : Key → Prop) : Key → Key → Prop
  | refl {a} : K a → LinkedK K a a
  | tail {a b c} : LinkedK K a b → K c → touches b c = true → LinkedK K a c

def keysOf (fs : Feats) : Key → Prop := fun k => ∃ i, (i, k) ∈ fs

theorem linkedK_of_linked {fs : Feats} (uniq : Uniq fs) {i j : Nat} (h : Linked fs i j) :
    ∀ ki kj, (i, ki) ∈ fs → (j, kj) ∈ fs → LinkedK (keysOf fs) ki kj := by
  induction h with
  | refl hk =>
    intro ki kj h1 h2
    have := uniq _ ki kj h1 h2
    subst this
    exact .refl ⟨_, h1⟩
  | tail _ t ih =>
    intro ki kl h1 h2
    obtain ⟨kj, kl', hj, hl, tt⟩ := t
    have := uniq _ kl kl' h2 hl
    subst this
    exact .tail (ih ki kj h1 hj) ⟨_, h2⟩ tt

theorem LinkedK.right_mem {K : Key → Prop} {a b : Key} (h : LinkedK K a b) : K b := by
  cases h with
  | refl kb => exact kb
  | tail _ kb _ => exact kb

theorem linked_of_linkedK {fs : Feats} (wf : WF fs) {a b : Key} (h : LinkedK (keysOf fs) a b) :
    ∀ i j, (i, a) ∈ fs → (j, b) ∈ fs → Linked fs i j := by
  induction h with
  | refl ka =>
    intro i j hi hj
    have w := wf _ hi
    have t : Touch fs i j := ⟨_, _, hi, hj, touches_iff.mpr ⟨rfl, w, w⟩⟩
    exact Linked.of_touch t
  | tail hab kc t ih =>
    intro i l hi hl
    obtain ⟨j, hj⟩ := hab.right_mem
    exact Linked.tail (ih i j hi hj) ⟨_, _, hj, hl, t⟩

theorem LinkedK.mono {K K' : Key → Prop} (sub : ∀ k, K k → K' k) {a b : Key} (h : LinkedK K a b) :
    LinkedK K' a b := by
  induction h with
  | refl ka => exact .refl (sub _ ka)
  | tail _ kc t ih => exact .tail ih (sub _ kc) t

/-- Two pile lists satisfying the statement for feature tables with the same *keys* (ids and
    multiplicities may differ) have the same pile intervals. -/
theorem intervals_unique {fs fs' : Feats} {ps ps' : List Pile}
    (nd : (fs.map (·.1)).Nodup) (nd' : (fs'.map (·.1)).Nodup) (wf : WF fs) (wf' : WF fs')
    (same : ∀ k, keysOf fs k ↔ keysOf fs' k)
    (h : IsComponents fs ps) (h' : IsComponents fs' ps') :
    ∀ p ∈ ps, ∃ p' ∈ ps', p'.loc = p.loc ∧ p'.s = p.s ∧ p'.e = p.e := by
  have uniq := uniq_of_nodup nd
  have uniq' := uniq_of_nodup nd'
  -- a member key of `p` that also is the key of a member of `p'` pulls every member key across
  have pull : ∀ {fs fs' : Feats} {ps ps' : List Pile}, Uniq fs → WF fs' →
      (∀ k, keysOf fs k → keysOf fs' k) → IsComponents fs ps → IsComponents fs' ps' →
      ∀ p ∈ ps, ∀ p' ∈ ps', ∀ i i' k, i ∈ p.imgs → (i, k) ∈ fs → i' ∈ p'.imgs → (i', k) ∈ fs' →
      ∀ m km, m ∈ p.imgs → (m, km) ∈ fs → ∃ m', m' ∈ p'.imgs ∧ (m', km) ∈ fs' := by
    intro fs fs' ps ps' uniq wf' sub h h' p hp p' hp' i i' k hi hk hi' hk' m km hm hkm
    have l : Linked fs i m := (h.share_iff i m k km hk hkm).mp ⟨p, hp, hi, hm⟩
    have lk := (linkedK_of_linked uniq l k km hk hkm).mono sub
    obtain ⟨m', hm'⟩ := sub km ⟨m, hkm⟩
    have l' := linked_of_linkedK wf' lk i' m' hk' hm'
    obtain ⟨q, hq, q1, q2⟩ := (h'.share_iff i' m' k km hk' hm').mpr l'
    have hq' : q = p' := by
      -- both q and p' contain i'; piles of ps' are pairwise separated or on different locations
      rcases Biogo.Proofs.Piler.pairwise_trichotomy h'.disjoint hq hp' with e | e | e
      · exact e
      · have a1 := h'.inside q hq i' q1 k hk'
        have a2 := h'.inside p' hp' i' hi' k hk'
        have w := wf' _ hk'
        simp only at w
        have := e (by rw [← a1.1, ← a2.1])
        omega
      · have a1 := h'.inside q hq i' q1 k hk'
        have a2 := h'.inside p' hp' i' hi' k hk'
        have w := wf' _ hk'
        simp only at w
        have := e (by rw [← a1.1, ← a2.1])
        omega
    exact ⟨m', hq' ▸ q2, hm'⟩
  intro p hp
  obtain ⟨⟨i, k, hi, hk, ks⟩, ⟨j, kj, hj, hkj, ke⟩⟩ := h.ends p hp
  obtain ⟨i', hk'⟩ := (same k).mp ⟨i, hk⟩
  have : i' ∈ fs'.map (·.1) := List.mem_map.mpr ⟨(i', k), hk', rfl⟩
  obtain ⟨p', hp', hi'⟩ := List.mem_flatMap.mp (h'.once.mem_iff.mpr this)
  have fwd := pull uniq wf' (fun k hk => (same k).mp hk) h h' p hp p' hp' i i' k hi hk hi' hk'
  have bwd := pull uniq' wf (fun k hk => (same k).mpr hk) h' h p' hp' p hp i' i k hi' hk' hi hk
  obtain ⟨⟨a, ka, ha, hka, kas⟩, ⟨b, kb, hb, hkb, kbe⟩⟩ := h'.ends p' hp'
  have i1 := h.inside p hp i hi k hk
  have i2 := h'.inside p' hp' i' hi' k hk'
  obtain ⟨j', hj', hkj'⟩ := fwd j kj hj hkj
  have i3 := h'.inside p' hp' j' hj' kj hkj'
  obtain ⟨a', ha', hka'⟩ := bwd a ka ha hka
  have i4 := h.inside p hp a' ha' ka hka'
  obtain ⟨b', hb', hkb'⟩ := bwd b kb hb hkb
  have i5 := h.inside p hp b' hb' kb hkb'
  exact ⟨p', hp', by omega, by omega, by omega⟩

/-- every key of the history is the key of an accepted feature (the first pair that carries
    it is accepted), and accepted features carry keys of the history -/
theorem seen_in_feats (p : Piler) (xs : List PairIn)
    (hinv : ∀ a b, (a, b) ∈ p.seen → keysOf p.feats a ∧ keysOf p.feats b) :
    (∀ a b, (a, b) ∈ (p.addAll xs).1.seen → keysOf (p.addAll xs).1.feats a ∧ keysOf (p.addAll xs).1.feats b) ∧
    (∀ x ∈ xs, keysOf (p.addAll xs).1.feats x.a ∧ keysOf (p.addAll xs).1.feats x.b) := by
  induction xs generalizing p with
  | nil => exact ⟨hinv, fun x hx => by cases hx⟩
  | cons x xs ih =>
    simp only [Piler.addAll]
    have mono : ∀ k, keysOf p.feats k → keysOf (p.add x).1.feats k := by
      rintro k ⟨i, hi⟩
      rcases add_feats p x with e | e <;> rw [e]
      · exact ⟨i, hi⟩
      · exact ⟨i, List.mem_append_left _ hi⟩
    have hinv' : ∀ a b, (a, b) ∈ (p.add x).1.seen →
        keysOf (p.add x).1.feats a ∧ keysOf (p.add x).1.feats b := by
      intro a b hab
      rcases add_seen p x with ⟨_, e⟩ | ⟨acc, e⟩
      · rw [e] at hab
        exact ⟨mono _ (hinv a b hab).1, mono _ (hinv a b hab).2⟩
      · rw [e] at hab
        rcases List.mem_cons.mp hab with e1 | h1
        · have ea : a = x.a := (Prod.mk.inj e1).1
          have eb : b = x.b := (Prod.mk.inj e1).2
          subst ea; subst eb
          rcases add_feats p x with e' | e'
          · -- accepted pairs append their features
            exfalso
            have hs : (p.add x).1.seen = p.seen := by
              unfold Piler.add at e' ⊢
              split
              · rfl
              · rename_i c
                rw [if_neg c] at e'
                have := congrArg List.length e'
                simp at this
            rw [hs] at e
            have := congrArg List.length e
            simp at this
          · rw [e']
            exact ⟨⟨2 * x.id, by simp⟩, ⟨2 * x.id + 1, by simp⟩⟩
        · exact ⟨mono _ (hinv a b h1).1, mono _ (hinv a b h1).2⟩
    obtain ⟨r1, r2⟩ := ih (p.add x).1 hinv'
    refine ⟨r1, ?_⟩
    intro y hy
    rcases List.mem_cons.mp hy with rfl | hy
    · -- y itself: accepted, or rejected because the pair is in `seen`
      have monoAll : ∀ k, keysOf (p.add y).1.feats k → keysOf ((p.add y).1.addAll xs).1.feats k := by
        rintro k ⟨i, hi⟩; exact ⟨i, feats_mono _ xs _ hi⟩
      rcases add_seen p y with ⟨rej, _⟩ | ⟨_, e⟩
      · rcases (add_rejected_iff p y).mp rej with c | c
        · exact ⟨monoAll _ (mono _ (hinv _ _ c).1), monoAll _ (mono _ (hinv _ _ c).2)⟩
        · exact ⟨monoAll _ (mono _ (hinv _ _ c).2), monoAll _ (mono _ (hinv _ _ c).1)⟩
      · have := hinv' y.a y.b (by rw [e]; exact List.mem_cons_self ..)
        exact ⟨monoAll _ this.1, monoAll _ this.2⟩
    · exact r2 y hy

theorem keys_of_history (xs : List PairIn) (k : Key) :
    keysOf (adds xs).feats k ↔ ∃ x ∈ xs, k = x.a ∨ k = x.b := by
  constructor
  · rintro ⟨i, hi⟩
    rcases feats_origin Piler.new xs (i, k) hi with h | ⟨x, hx, h, _⟩
    · simp [Piler.new] at h
    · refine ⟨x, hx, ?_⟩
      rcases h with e | e
      · exact Or.inl (Prod.mk.inj e).2
      · exact Or.inr (Prod.mk.inj e).2
  · rintro ⟨x, hx, rfl | rfl⟩
    · exact ((seen_in_feats Piler.new xs (by simp [Piler.new])).2 x hx).1
    · exact ((seen_in_feats Piler.new xs (by simp [Piler.new])).2 x hx).2

/-- **Insertion order is irrelevant for the pile intervals even with duplicate pairs**: any two
    histories that are permutations of each other (duplicates, in either orientation, included)
    report the same pile intervals on every location. -/
theorem insertion_order_irrelevant_intervals (xs ys : List PairIn) (perm : xs.Perm ys) (wf : WFIn xs)
    (nd : (xs.map (·.id)).Nodup) :
    ∀ p ∈ (adds xs).piles none, ∃ p' ∈ (adds ys).piles none,
      p'.loc = p.loc ∧ p'.s = p.s ∧ p'.e = p.e := by
  have wf' : WFIn ys := fun y hy => wf y (perm.mem_iff.mpr hy)
  have nd' : (ys.map (·.id)).Nodup := (perm.map _).nodup_iff.mp nd
  refine intervals_unique (feats_nodup xs nd) (feats_nodup ys nd')
    (addAll_inv new_inv xs wf).wf (addAll_inv new_inv ys wf').wf ?_
    (piles_are_components xs wf nd) (piles_are_components ys wf' nd')
  intro k
  rw [keys_of_history, keys_of_history]
  constructor
  · rintro ⟨x, hx, h⟩; exact ⟨x, perm.mem_iff.mp hx, h⟩
  · rintro ⟨x, hx, h⟩; exact ⟨x, perm.mem_iff.mpr hx, h⟩

/-! ### the driver's expectations are the model's results -/

open Biogo.Drive.C16 in
/-- `expectAdds` / `specFeats` (what the driver demands of the implementation's Add results and
    uses as the accepted features) are exactly the model's Add results and feature table. -/
theorem addAll_expect (p : Piler) (earlier : List (Key × Key)) (xs : List PairIn)
    (hinv : ∀ a b, ((a, b) ∈ p.seen ∨ (b, a) ∈ p.seen) ↔ ((a, b) ∈ earlier ∨ (b, a) ∈ earlier)) :
    (p.addAll xs).2 = expectAdds xs earlier ∧
    (p.addAll xs).1.feats = p.feats ++ specFeats xs (expectAdds xs earlier) := by
  induction xs generalizing p earlier with
  | nil => simp [Piler.addAll, expectAdds, specFeats]
  | cons x xs ih =>
    simp only [Piler.addAll, expectAdds]
    have key : ((earlier.contains (x.a, x.b) || earlier.contains (x.b, x.a)) = true) ↔
        ((x.a, x.b) ∈ p.seen ∨ (x.b, x.a) ∈ p.seen) := by
      rw [hinv, Bool.or_eq_true, List.contains_iff_mem, List.contains_iff_mem]
    have hdup : (p.add x).2 = !(earlier.contains (x.a, x.b) || earlier.contains (x.b, x.a)) := by
      cases h : (p.add x).2
      · have := key.mpr ((add_rejected_iff p x).mp h)
        rw [this]; rfl
      · cases hd : (earlier.contains (x.a, x.b) || earlier.contains (x.b, x.a))
        · rfl
        · have := (add_rejected_iff p x).mpr (key.mp hd)
          rw [this] at h; cases h
    have hinv' : ∀ a b, ((a, b) ∈ (p.add x).1.seen ∨ (b, a) ∈ (p.add x).1.seen) ↔
        ((a, b) ∈ (x.a, x.b) :: earlier ∨ (b, a) ∈ (x.a, x.b) :: earlier) := by
      intro a b
      rcases add_seen p x with ⟨r, e⟩ | ⟨_, e⟩
      · rw [e, hinv]
        have hx := (hinv _ _).mp ((add_rejected_iff p x).mp r)
        simp only [List.mem_cons, Prod.mk.injEq]
        grind
      · rw [e]
        simp only [List.mem_cons, Prod.mk.injEq]
        have := hinv a b
        grind
    obtain ⟨r1, r2⟩ := ih (p.add x).1 ((x.a, x.b) :: earlier) hinv'
    refine ⟨by rw [r1, hdup], ?_⟩
    rw [r2]
    simp only [specFeats, List.zip_cons_cons, List.flatMap_cons, ← hdup]
    rcases add_feats p x with e | e
    · have hrej : (p.add x).2 = false := by
        cases h : (p.add x).2
        · rfl
        · exfalso
          rcases add_seen p x with ⟨r, _⟩ | ⟨_, _⟩
          · rw [h] at r; cases r
          · unfold Piler.add at e h
            split at h
            · cases h
            · rename_i c
              rw [if_neg c] at e
              have := congrArg List.length e
              simp at this
      rw [e, hrej]; simp
    · have hacc : (p.add x).2 = true := by
        cases h : (p.add x).2
        · have := rejected_changes_nothing p x h
          rw [this] at e
          have := congrArg List.length e
          simp at this
        · rfl
      rw [e, hacc]; simp [List.append_assoc]

open Biogo.Drive.C16 in
theorem adds_expect (xs : List PairIn) :
    (Piler.new.addAll xs).2 = expectAdds xs [] ∧ (adds xs).feats = specFeats xs (expectAdds xs []) := by
  have := addAll_expect Piler.new [] xs (by simp [Piler.new])
  simpa [adds, Piler.new] using this

end Biogo.Properties.C16
