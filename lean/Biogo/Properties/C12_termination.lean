/-
C12, termination — every schedule of the concurrent sorter model terminates, for every finite
caller program (well-formed or not), with or without an injected fault, in both modes: a
measure on states (`Biogo.MorassConc.mu`, `Proofs/MorassTermination.lean`) is strictly decreased
by every atomic block of every actor.  Together with `no_deadlock` (Properties/C12.lean): every
maximal run ends with the caller having returned from the last call of its program.
-/
import Biogo.Model.MorassConc
import Biogo.Proofs.MorassConc
import Biogo.Proofs.MorassTermination
import Biogo.Properties.C12

namespace Biogo.Properties.C12_termination
open Biogo.Morass Biogo.MorassConc Biogo.Interleave

variable {conc : Bool} {c : Nat} {ac acl : Bool} {prog : List Op} {flt : Fault}

/-- **The measure.**  Every atomic block of the caller or of a `write()` activation strictly
    decreases `mu` (cost of the calls still to make + blocks every activation still has to run +
    elements waiting in `writable`, in a writer's hands or in the caller's chunk) — in every
    state, reachable or not. -/
theorem step_decreases {s t : CState} {i : Nat} (h : MorassConc.step s i = some t) : mu t < mu s :=
  mu_step h

/-- a strict schedule of length `n` lowers the measure by at least `n` -/
theorem schedule_bounded (S : Sys CState Nat) (hS : S.step = MorassConc.step) :
    ∀ (sched : List Nat) (s t : CState), runFrom S s sched = some t → sched.length + mu t ≤ mu s := by
  intro sched
  induction sched with
  | nil => intro s t h; simp only [runFrom, Option.some.injEq] at h; subst h; simp
  | cons i is ih =>
    intro s t h
    simp only [runFrom] at h
    cases hst : S.step s i with
    | none => simp [hst] at h
    | some s' =>
      simp only [hst] at h
      have h1 := ih s' t h
      have h2 : mu s' < mu s := mu_step (by rw [← hS]; exact hst)
      simp only [List.length_cons]; omega

theorem mu_init (conc : Bool) (c : Nat) (ac acl : Bool) (prog : List Op) (flt : Fault) :
    mu (initState conc c ac acl prog flt) = progCost prog := by
  simp [mu, initState, callerPot, bufElems, chunkElems]

theorem progCost_le (prog : List Op) : progCost prog ≤ 10 * prog.length := by
  induction prog with
  | nil => simp [progCost]
  | cons op t ih =>
    rw [progCost_cons, List.length_cons]
    cases op <;> simp only [opCost] <;> omega

/-- **Every schedule terminates.**  For every caller program, chunk size, mode, AutoClear /
    AutoClean setting and fault: a schedule that the system can follow (every scheduled actor
    enabled when its turn comes) has at most `10 · |program|` entries — whatever the
    interleaving, the caller and the chunk writers together run at most that many atomic
    blocks.  There is no infinite run, no livelock. -/
theorem every_schedule_terminates (conc : Bool) (c : Nat) (ac acl : Bool) (prog : List Op) (flt : Fault)
    (sched : List Nat) (t : CState) (h : run (sys conc c ac acl prog flt) sched = some t) :
    sched.length ≤ 10 * prog.length := by
  have := schedule_bounded (sys conc c ac acl prog flt) rfl sched _ t h
  have e : mu (sys conc c ac acl prog flt).init = progCost prog := mu_init conc c ac acl prog flt
  have := progCost_le prog
  omega

/-- there is no infinite run (from any state) -/
theorem no_infinite_run (f : Nat → CState) (g : Nat → Nat)
    (h : ∀ n, MorassConc.step (f n) (g n) = some (f (n + 1))) : False := by
  have key : ∀ n, mu (f n) + n ≤ mu (f 0) := by
    intro n
    induction n with
    | zero => simp
    | succ n ih => have := mu_step (h n); omega
  have := key (mu (f 0) + 1)
  omega

/-- **Every maximal run ends with the caller's program completed**: a state reached by some
    schedule in which no actor can move is one in which the caller has returned from the last
    call of its program (`no_deadlock`), and such a state is reached after at most
    `10 · |program|` blocks whatever the schedule (`every_schedule_terminates`). -/
theorem maximal_run_finished {s : CState} (hr : Reach (sys conc c ac acl prog flt) s)
    (hstuck : ∀ i, MorassConc.step s i = none) : finished s = true := by
  cases hf : finished s with
  | true => rfl
  | false =>
    obtain ⟨i, hi⟩ := Biogo.Properties.C12.no_deadlock hr hf
    rw [hstuck i] at hi; cases hi

/-- non-vacuity: the bound is met within a factor — the 16-block schedule of `finalise_waits`'
    example (3 calls) is admissible -/
example : (run (sys true 1 false false [.push ⟨2, 0⟩, .push ⟨1, 0⟩, .finalise] [])
    [0, 0, 0, 0, 1, 1, 1, 1, 1, 0, 0, 0, 0, 0, 0, 0]).isSome = true := by decide

end Biogo.Properties.C12_termination
