/-
C15 — **source-shape facts** (advisory; not obligations of the property).

Fingerprints (sha256 of the printed AST) of the functions of `align/pals/dp` and
`align/pals/filter/merge.go`, `trapezoid.go` that the models `Biogo.PalsKernel`, `Biogo.PalsMerge`
and the acceptance / suppression logic transcribe.  A fingerprint changes with *any* edit of the
function, also one that changes nothing observable (a renamed local, an extracted helper, a
hoisted bound), and nothing in the models or the property theorems depends on it: the models are
tied to the code hit by hit and trapezoid by trapezoid by the correspondence.  They were
obligations until a round of behaviour-preserving rewrites by independent engineers made them
fail on code for which the property holds; they are now `advisory_targets`: when one no longer
checks, `check` widens the generation, runs the deep search and records the change in the
evidence, and reports a violation only for a failing input or a model/implementation disagreement.
-/
import Biogo.Generated.PalsConsts
import Biogo.Generated.PalsMergeFacts

namespace Biogo.Properties.C15_shape
open Biogo.Generated.Pals

/-- the functions modelled here (`alignRecursion`'s acceptance test, `AlignTraps`' suppression)
    are the ones the model was written against; a change to either function makes the check widen the
    generation and search for a failing input -/
theorem decision_logic_fingerprints :
    fpAlignRecursion = "d76e96b076003751" ∧ fpAlignTraps = "12866ecdea35edb5" := by decide

/-- the functions the kernel model transcribes are the ones it was written against (since the
    seventh repair also the two `Less` methods of `dp/sort.go`: the model sorts by both coordinates) -/
theorem kernel_source_facts :
    fpTraceForward = "3242f214c997c8ca" ∧ fpTraceReverse = "28298aacb4d36e37" ∧
    fpAlignRecursion = "d76e96b076003751" ∧ fpAlignTraps = "12866ecdea35edb5" ∧
    fpStartsLess = "b7d2e4dbaeec5a67" ∧ fpEndsLess = "a5365f6edcfa5bf9" := by decide

/-- the functions of `merge.go` and `trapezoid.go` that the merger model transcribes -/
theorem merge_fingerprints :
    Biogo.Generated.PalsMerge.fpNewMerger = "392443e40c06fbbe" ∧
    Biogo.Generated.PalsMerge.fpMergeFilterHit = "f9561280355fe664" ∧
    Biogo.Generated.PalsMerge.fpClipVertical = "5861ce210623e268" ∧
    Biogo.Generated.PalsMerge.fpClipTrapezoids = "47091a1af8bc4977" ∧
    Biogo.Generated.PalsMerge.fpFinaliseMerge = "bba445c04632a297" ∧
    Biogo.Generated.PalsMerge.fpPrependFrontTo = "73d0994c671efa3a" ∧
    Biogo.Generated.PalsMerge.fpJoin = "9849eba41fd84ef7" ∧
    Biogo.Generated.PalsMerge.fpDecapitate = "5eb00fe0a5bab0ec" ∧
    Biogo.Generated.PalsMerge.fpClip = "e36f3e570daea767" ∧
    Biogo.Generated.PalsMerge.fpTrapLess = "1a7ae4edcf19e1d1" := by decide

end Biogo.Properties.C15_shape
