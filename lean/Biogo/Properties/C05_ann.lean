/-
C05 / C07 — `Clone` is deep, the row annotations (`SubAnnotations`) included.

Model/Containers.lean holds the row annotations of a column-stored alignment as a value.  In
the code they are a slice (`[]seq.Annotation`) that `Row(i).RevComp()`, `Row(i).Reverse()`,
`Delete`, `Add` write or re-slice in place.  Model/ContAnn.lean models that storage on a heap
(`AnnStore`, `applyAnn`); the driver executes it (`runHistoryA false`) and observes name, offset
and strand of every row by reading the heap.  The theorems here state that with `Clone` as fixed
(F6) the heap storage is observed exactly as the value model — so every theorem about the value
model (`clone_deep_all`, `untouched_object_unchanged_all`, `row_revcomp_spec_alignment`,
`delete_exact_aln`, …) is a theorem about the storage on the heap — and that with `Clone` as it
was before the fix it is not (refutation witnesses = the two recorded witnesses of F6).
-/
import Biogo.Model.ContAnn
import Biogo.Proofs.ContAnn
import Biogo.Proofs.ContSepWorld

namespace Biogo.Properties.C05_ann
open Biogo.Containers Biogo.Go

/-- **the function the drivers execute reports the observations of the value model.**
    `runHistoryA false` runs the value model and the heap storage of `SubAnnotations` in
    lockstep (`Clone` = `append([]seq.Annotation(nil), s.SubAnnotations...)`) and reads every
    row's name, offset and strand from the annotation heap; its output equals that of
    `runHistory`, for every initial world and every history. -/
theorem annotation_store_refines_values (cx : Ctx) (w : World) (ops : List Op) :
    runHistoryA false cx w ops = runHistory cx w ops :=
  runHistoryA_eq cx w ops

/-- the simulation behind it, for every state of every history: the annotation slice of every
    alignment lies (with its capacity) in an allocated array of the annotation heap and reads
    exactly the row annotations the value model holds; the slices of different alignments lie in
    different arrays (no two alignments share `SubAnnotations`). -/
theorem annotations_separated (cx : Ctx) (w : World) (ops : List Op) :
    let ws := runOpsA false cx (w, initAnn w) ops
    ws.1 = runOps cx w ops ∧ ws.2.subs.length = ws.1.objs.length ∧
    (∀ (k : Nat) (a : Aln) (s : Slice), ws.1.objs[k]? = some (.aln a) → ws.2.subs[k]? = some s →
      CapValidG ws.2.anns s ∧ ws.2.anns.read s = a.subs) ∧
    (∀ (i j : Nat) (ai aj : Aln) (si sj : Slice), i ≠ j → ws.1.objs[i]? = some (.aln ai) →
      ws.1.objs[j]? = some (.aln aj) → ws.2.subs[i]? = some si → ws.2.subs[j]? = some sj → si.arr ≠ sj.arr) := by
  intro ws
  obtain ⟨e, hs⟩ := runOpsA_sim cx ops w (initAnn w) (initAnn_sim w)
  have hL : ∀ (k : Nat) (a : Aln), ws.1.objs[k]? = some (.aln a) →
      ((runOps cx w ops).objs.map Obj.subs?)[k]? = some (some a.subs) := by
    intro k a hk
    rw [List.getElem?_map, ← e, hk]; rfl
  refine ⟨e, by rw [hs.len, List.length_map, e], ?_, ?_⟩
  · intro k a s hk hsk
    exact hs.read k a.subs s (hL k a hk) hsk
  · intro i j ai aj si sj hij hi hj hsi hsj
    exact hs.disj i j ai.subs aj.subs si sj hij (hL i ai hi) (hL j aj hj) hsi hsj

/-- **clone_deep, the annotations on the heap.**  In a well-formed world whose annotation
    storage represents it, let object `k` be cloned and then any operations of the histories be
    applied, none of them to the original.  Then the observation of the original *read from the
    annotation heap* — names, offsets, strands of its rows as well as all letters — is what it
    was before the `Clone`; likewise for the copy when no operation is applied to it. -/
theorem clone_deep_annotations (cx : Ctx) (w : World) (hw : WorldWF w) (st : AnnStore)
    (hs : AnnSim (w.objs.map Obj.subs?) st) (k : Nat) (o : Obj) (hk : w.objs[k]? = some o)
    (hclonable : ∀ m, o ≠ .set m) (ops : List Op) :
    let ws := runOpsA false cx (w, st) (.clone k :: ops)
    ((∀ op ∈ ops, op.written ≠ some k) → (viewA cx ws.1 ws.2)[k]? = some (viewObj cx w.cells o)) ∧
    ((∀ op ∈ ops, op.written ≠ some w.objs.length) →
      (viewA cx ws.1 ws.2)[w.objs.length]? = some (viewObj cx w.cells o)) := by
  intro ws
  obtain ⟨e, hs'⟩ := runOpsA_sim cx (.clone k :: ops) w st hs
  have hv : viewA cx ws.1 ws.2 = (runOps cx w (.clone k :: ops)).view cx := by
    have := viewA_eq_view cx ws.1 ws.2 (by rw [e]; exact hs')
    rw [this, e]
  obtain ⟨c, hc, hobs⟩ := clone_view_equal cx w hw k o hk hclonable
  obtain ⟨hw1, hoth1⟩ := step_all cx w hw (.clone k)
  obtain ⟨hk1, hko⟩ := hoth1 k o (by simp [Op.written]) hk
  have hrun : runOps cx w (.clone k :: ops) = runOps cx (apply cx w (.clone k)).1 ops := rfl
  refine ⟨?_, ?_⟩
  · intro hnot
    obtain ⟨r1, r2⟩ := untouched_all cx ops _ hw1 k o hk1 hnot
    rw [hv, hrun]
    simp only [World.view, List.getElem?_map, r1, Option.map_some]
    rw [r2, hko]
  · intro hnot
    obtain ⟨r1, r2⟩ := untouched_all cx ops _ hw1 w.objs.length c hc hnot
    rw [hv, hrun]
    simp only [World.view, List.getElem?_map, r1, Option.map_some]
    rw [r2, hobs]

/-- the hypothesis of `clone_deep_annotations` holds of the storage the constructors allocate -/
theorem initial_annotation_store (w : World) : AnnSim (w.objs.map Obj.subs?) (initAnn w) :=
  initAnn_sim w

/-! ### refutation for `Clone` as it was before fix F6 (`c := *s` shares `SubAnnotations`) -/

def cxId : Ctx := { comp := fun l => l, gap := 45, amb := 110,
                    alpha := ⟨[], 0, fun _ => false, fun _ => -1, 45, 110, false⟩, grow := growExact }

/-- three rows `r0 r1 r2` (strands `+ + -`) of two columns -/
def w3 : World := initWorld cxId "aln" 1
  [⟨false, 0, 1, 0, [⟨65, 0⟩, ⟨67, 0⟩]⟩, ⟨false, 0, 1, 1, [⟨71, 0⟩, ⟨71, 0⟩]⟩, ⟨false, 0, -1, 2, [⟨84, 0⟩, ⟨84, 0⟩]⟩]

/-- names and strands of the rows of every object in the last snapshot -/
def lastRows (snaps : List (String × List ObjV)) : List (List (Nat × Int)) :=
  match snaps.getLast? with
  | some s => s.2.map fun o => o.rows.map fun r => (r.name, r.strand)
  | none => []

/-- **Refutation witness for the tree before fix F6** (`pinned = true`: `Clone` copies the slice
    header of `SubAnnotations` only).  (i) `clone.Delete(0)` turns the *original's* row names
    `r0, r1, r2` into `r1, r2, r2` (the in-place `copy` of `Delete` runs in the shared array);
    (ii) `clone.Row(0).RevComp()` negates the strand of the *original's* row 0.  With `Clone`
    as fixed neither happens; so `annotation_store_refines_values` is false of the old `Clone`. -/
theorem pinned_clone_shares_annotations :
    lastRows (runHistoryA true cxId w3 [.clone 0, .delete 1 0]) = [[(1, 1), (2, -1), (2, -1)], [(1, 1), (2, -1)]] ∧
    lastRows (runHistoryA false cxId w3 [.clone 0, .delete 1 0]) = [[(0, 1), (1, 1), (2, -1)], [(1, 1), (2, -1)]] ∧
    lastRows (runHistoryA true cxId w3 [.clone 0, .rowRevComp 1 0]) = [[(0, -1), (1, 1), (2, -1)], [(0, -1), (1, 1), (2, -1)]] ∧
    lastRows (runHistoryA false cxId w3 [.clone 0, .rowRevComp 1 0]) = [[(0, 1), (1, 1), (2, -1)], [(0, -1), (1, 1), (2, -1)]] ∧
    runHistoryA true cxId w3 [.clone 0, .delete 1 0] ≠ runHistory cxId w3 [.clone 0, .delete 1 0] := by
  decide

end Biogo.Properties.C05_ann
