/-
C15 — the contract of the banded x-drop kernel (`dp.traceForward` / `dp.traceReverse`), and what
it implies for every hit `alignRecursion` reports.

The kernel is still not modelled: `Biogo.Spec.PalsKernel` states, as Lean predicates, what
`alignRecursion` may assume of the two trace functions (`FwdOK`, `RevOK`) and what a reported hit
must then satisfy (`HitOK`).  Proved here: the hit assembled from two traces under contract is
under contract; a hit under contract passes the executable conditions `consistent` that the
driver evaluates on every hit of every run (so a `fail` of that check refutes the contract); its
score is bounded by the proved oracle (the first-wave validation `Score ≤ palsGlobal`), and the
reported `Error` lies between `indel/blen` and `(blen + indel)/(RMatchCost·blen)`.
-/
import Biogo.Proofs.PalsKernel
import Biogo.Properties.C15

namespace Biogo.Properties.C15_kernel
open Biogo.Spec.Alignment Biogo.PalsOracle Biogo.Spec.PalsKernel Biogo.Proofs.PalsKernel
open Biogo.Generated.Pals Biogo.Properties.C15

/-- **`hit_of_traces_under_contract`** — `alignRecursion` takes the end of the hit from
    `traceForward` and start, score and diagonals from `traceReverse` (called at the forward end);
    if both calls keep their contract, the hit does. -/
theorem hit_of_traces_under_contract (target query : List Nat) (mid low high : Int) (f : Fwd) (r : Rev)
    (hf : FwdOK palsMatrix DiffCost MaxIGap target query mid low high f)
    (hr : RevOK palsMatrix target query f.bepos f.aepos r) : HitOK palsMatrix target query (assemble f r) :=
  assemble_ok palsMatrix DiffCost MaxIGap target query mid low high f r hf hr

/-- **`hit_under_contract_consistent`** — a reported hit under contract (non-empty query region)
    passes the per-hit conditions the driver evaluates: `0 ≤ Score ≤ SameCost·min(alen, blen) −
    DiffCost·indel`; `SameCost·(alen + blen) − 2·Score = 7g + 8x` for some number `g ≥ indel`,
    `g ≡ indel (mod 2)`, of gap letters and `x ≥ 0` of mismatches; both ends of the hit lie on
    diagonals within `[LowDiagonal, HighDiagonal]`. -/
theorem hit_under_contract_consistent (target query : List Nat) (k : KHit)
    (ok : HitOK palsMatrix target query k) (hb : k.h.bbpos < k.h.bepos) :
    consistent SameCost DiffCost k = true :=
  consistent_of_hitOK target query k ok hb

/-- **`hit_under_contract_below_oracle`** — the score of a hit under contract does not exceed
    the optimal global alignment score of its two regions (the oracle of `palsGlobal_opt`): the
    per-run validation of the first wave is a consequence of the contract. -/
theorem hit_under_contract_below_oracle (target query : List Nat) (k : KHit)
    (ok : HitOK palsMatrix target query k) (hb : k.h.bbpos < k.h.bepos) :
    k.h.score ≤ palsGlobal (slice target k.h.abpos k.h.aepos) (slice query k.h.bbpos k.h.bepos) := by
  obtain ⟨aln, hg, hs⟩ := ok.path hb
  rw [← hs]
  exact (palsGlobal_opt _ _).1 aln hg

/-- **`consistent_bounds_error`** — for a hit that passes the conditions, the numerator of the
    reported error `Error = errNum / (RMatchCost·blen)` satisfies
    `RMatchCost·indel ≤ errNum ≤ blen + indel`: the reported error is at least `indel/blen` and,
    the score being non-negative, at most `(blen + indel)/(RMatchCost·blen)`. -/
theorem consistent_bounds_error (k : KHit) (h : consistent SameCost DiffCost k = true) :
    RMatchCost * k.h.indel ≤ k.h.errNum ∧ k.h.errNum ≤ k.h.blen + k.h.indel := by
  unfold consistent at h
  simp only [Bool.and_eq_true, decide_eq_true_eq] at h
  obtain ⟨⟨⟨⟨⟨⟨h0, h1⟩, _⟩, _⟩, _⟩, _⟩, _⟩ := h
  simp only [Hit.errNum, SameCost, DiffCost, RMatchCost] at *
  omega

/-! ### non-vacuity -/

/-- `acgtacgt` against `acgaacgt`: one mismatch, score `7 − 3 = 4` -/
example : HitOK palsMatrix [97, 99, 103, 116, 97, 99, 103, 116] [97, 99, 103, 97, 97, 99, 103, 116]
    ⟨⟨0, 0, 8, 8, 4⟩, 0, 0⟩ where
  aRegion := by decide
  bRegion := by decide
  nonneg := by decide
  path := fun _ => ⟨[.m 97 97, .m 99 99, .m 103 103, .m 116 97, .m 97 97, .m 99 99, .m 103 103, .m 116 116],
    by unfold IsGlobal; decide, by decide⟩
  diagStart := by decide
  diagEnd := by decide

example : consistent SameCost DiffCost ⟨⟨0, 0, 8, 8, 4⟩, 0, 0⟩ = true := by decide
-- a score one too low (or too high) is not the score of any alignment of regions of these lengths
example : consistent SameCost DiffCost ⟨⟨0, 0, 8, 8, 3⟩, 0, 0⟩ = false := by decide
example : consistent SameCost DiffCost ⟨⟨0, 0, 8, 8, 5⟩, 0, 0⟩ = false := by decide

end Biogo.Properties.C15_kernel
