/-
C15 — the contract of the banded x-drop kernel (`dp.traceForward` / `dp.traceReverse`), and what
it implies for every hit `alignRecursion` reports.

`Biogo.Spec.PalsKernel` states, as Lean predicates, what `alignRecursion` may assume of the two
trace functions (`FwdOK`, `RevOK`) and what a reported hit must then satisfy (`HitOK`); the
executable model of the kernel (`Biogo.PalsKernel`, compared hit by hit with the implementation)
is proved to keep that contract (`kernel_model_*`, section at the end).  Proved here: the hit assembled from two traces under contract is
under contract; a hit under contract passes the executable conditions `consistent` that the
driver evaluates on every hit of every run (so a `fail` of that check refutes the contract); its
score is bounded by the proved oracle (the first-wave validation `Score ≤ palsGlobal`), and the
reported `Error` lies between `indel/blen` and `(blen + indel)/(RMatchCost·blen)`.
-/
import Biogo.Proofs.PalsKernel
import Biogo.Proofs.PalsKernelSound
import Biogo.Properties.C15
import Biogo.Proofs.PalsSuppress

namespace Biogo.Properties.C15_kernel
open Biogo.Spec.Alignment Biogo.PalsOracle Biogo.Spec.PalsKernel Biogo.Proofs.PalsKernel
open Biogo.Generated.Pals Biogo.Properties.C15

/-- **`hit_of_traces_under_contract`** — `alignRecursion` takes the end of the hit from
    `traceForward` and start, score and diagonals from `traceReverse` (called at the forward end);
    if both calls keep their contract, the hit does. -/
theorem hit_of_traces_under_contract (target query : List Nat) (mid low high : Int) (f : Fwd) (r : Rev)
    (hf : FwdOK palsMatrix DiffCost MaxIGap target query mid low high f)
    (hr : RevOK palsMatrix target query f.bepos f.aepos r) : HitOK palsMatrix target query (assemble f r) :=
  assemble_ok palsMatrix DiffCost MaxIGap target query mid low high f r hf hr

/-- **`hit_under_contract_consistent`** — a reported hit under contract (non-empty query region)
    passes the per-hit conditions the driver evaluates: `0 ≤ Score ≤ SameCost·min(alen, blen) −
    DiffCost·indel`; `SameCost·(alen + blen) − 2·Score = 7g + 8x` for some number `g ≥ indel`,
    `g ≡ indel (mod 2)`, of gap letters and `x ≥ 0` of mismatches; both ends of the hit lie on
    diagonals within `[LowDiagonal, HighDiagonal]`. -/
theorem hit_under_contract_consistent (target query : List Nat) (k : KHit)
    (ok : HitOK palsMatrix target query k) (hb : k.h.bbpos < k.h.bepos) :
    consistent SameCost DiffCost k = true :=
  consistent_of_hitOK target query k ok hb

/-- **`hit_under_contract_below_oracle`** — the score of a hit under contract does not exceed
    the optimal global alignment score of its two regions (the oracle of `palsGlobal_opt`): the
    per-run validation of the first wave is a consequence of the contract. -/
theorem hit_under_contract_below_oracle (target query : List Nat) (k : KHit)
    (ok : HitOK palsMatrix target query k) (hb : k.h.bbpos < k.h.bepos) :
    k.h.score ≤ palsGlobal (slice target k.h.abpos k.h.aepos) (slice query k.h.bbpos k.h.bepos) := by
  obtain ⟨aln, hg, hs⟩ := ok.path hb
  rw [← hs]
  exact (palsGlobal_opt _ _).1 aln hg

/-- **`consistent_bounds_error`** — for a hit that passes the conditions, the numerator of the
    reported error `Error = errNum / (RMatchCost·blen)` satisfies
    `RMatchCost·indel ≤ errNum ≤ blen + indel`: the reported error is at least `indel/blen` and,
    the score being non-negative, at most `(blen + indel)/(RMatchCost·blen)`. -/
theorem consistent_bounds_error (k : KHit) (h : consistent SameCost DiffCost k = true) :
    RMatchCost * k.h.indel ≤ k.h.errNum ∧ k.h.errNum ≤ k.h.blen + k.h.indel := by
  unfold consistent at h
  simp only [Bool.and_eq_true, decide_eq_true_eq] at h
  obtain ⟨⟨⟨⟨⟨⟨h0, h1⟩, _⟩, _⟩, _⟩, _⟩, _⟩ := h
  simp only [Hit.errNum, SameCost, DiffCost, RMatchCost] at *
  omega

/-! ### non-vacuity -/

/-- `acgtacgt` against `acgaacgt`: one mismatch, score `7 − 3 = 4` -/
example : HitOK palsMatrix [97, 99, 103, 116, 97, 99, 103, 116] [97, 99, 103, 97, 97, 99, 103, 116]
    ⟨⟨0, 0, 8, 8, 4⟩, 0, 0⟩ where
  aRegion := by decide
  bRegion := by decide
  nonneg := by decide
  path := fun _ => ⟨[.m 97 97, .m 99 99, .m 103 103, .m 116 97, .m 97 97, .m 99 99, .m 103 103, .m 116 116],
    by unfold IsGlobal; decide, by decide⟩
  diagStart := by decide
  diagEnd := by decide

example : consistent SameCost DiffCost ⟨⟨0, 0, 8, 8, 4⟩, 0, 0⟩ = true := by decide
-- a score one too low (or too high) is not the score of any alignment of regions of these lengths
example : consistent SameCost DiffCost ⟨⟨0, 0, 8, 8, 3⟩, 0, 0⟩ = false := by decide
example : consistent SameCost DiffCost ⟨⟨0, 0, 8, 8, 5⟩, 0, 0⟩ = false := by decide

/-! ### the kernel model keeps the contract

`Biogo.PalsKernel` (`traceCore`, `traceForward`, `traceReverse`, `alignRecursion`, `AlignTraps`' loop)
is the model the driver runs on the trapezoids the implementation's aligner was given and compares
hit by hit with `dp.AlignTraps`.  The theorems below are about that model, with the cost record
`palsCosts` the driver uses. -/


open Biogo.Proofs.PalsKernelSound in
theorem palsCosts_ok : CostsOK palsCosts ∧ palsCosts.matchCost - palsCosts.diffCost = 1 ∧ palsCosts.diffCost = 3 := by
  refine ⟨⟨by decide, by decide, by decide⟩, by decide, by decide⟩

open Biogo.Proofs.PalsKernelSound in
/-- **`kernel_model_trace_sound`** — the cell the trace program reports is a cell of the table with
    a non-negative score which, unless nothing was found, is the score of a path of kernel moves
    (diagonal step with or without match, step down, step right) from the zero basis
    `(mid, [low, high])`; the reported cell and the basis lie within the recorded diagonal range.
    For every view, every `mid`, every basis, every x-drop schedule with non-negative allowances. -/
theorem kernel_model_trace_sound (c : Biogo.PalsKernel.Costs) (v : Biogo.PalsKernel.View) (mid low high : Int)
    (h : low ≤ high) (hh : high ≤ v.tlen) (hq : mid ≤ v.qlen) (hg : 0 ≤ c.maxIGap) (hx : ∀ i, 0 ≤ v.xf i) :
    let o := Biogo.PalsKernel.traceCore c v mid low high
    (mid ≤ o.maxI ∧ o.maxI ≤ v.qlen ∧ low ≤ o.maxJ ∧ o.maxJ ≤ v.tlen ∧ 0 ≤ o.maxScore) ∧
    ((o.maxI = mid ∧ o.maxScore = 0 ∧ (v.bestAtExtended = false → o.maxJ = low)) ∨
      Reach c v mid low high o.maxI o.maxJ o.maxScore) ∧
    (o.maxLeft ≤ o.maxI - o.maxJ ∧ o.maxI - o.maxJ ≤ o.maxRight) ∧
    (∀ j0, low ≤ j0 → j0 ≤ high → o.maxLeft ≤ mid - j0 ∧ mid - j0 ≤ o.maxRight) :=
  traceCore_sound c v mid low high h hh hq hg hx

open Biogo.Proofs.PalsKernelSound in
/-- **`kernel_model_forward_keeps_contract`** — `traceForward` of the model, seeded on a row of the
    query, satisfies `FwdOK` (scoring `kS`). -/
theorem kernel_model_forward_keeps_contract (s : Biogo.PalsKernel.Seqs) (mid low high : Int)
    (hm : 0 ≤ mid ∧ mid ≤ s.qlen) :
    let o := Biogo.PalsKernel.traceForward palsCosts s mid low high
    FwdOK (kS palsCosts) palsCosts.diffCost palsCosts.maxIGap s.target.toList s.query.toList mid low high
      ⟨o.maxJ, o.maxI, o.maxScore⟩ :=
  traceForward_ok palsCosts s mid low high hm.1 hm.2 palsCosts_ok.1.gap palsCosts_ok.1.block

open Biogo.Proofs.PalsKernelSound in
/-- **`kernel_model_reverse_keeps_contract`** — `traceReverse` of the model, called at a cell
    `(top, a)` of the table, satisfies `RevOK` (scoring: `+1` for two equal valid letters, `−3`
    otherwise — `kS`): in particular its score is that of a global alignment of
    `target[Abpos, a)` with `query[Bbpos, top)` whenever `Bbpos < top`. -/
theorem kernel_model_reverse_keeps_contract (s : Biogo.PalsKernel.Seqs) (top a bottom xfactor : Int)
    (ha : 0 ≤ a ∧ a ≤ s.tlen) (ht : 0 ≤ top ∧ top ≤ s.qlen) (hx : 0 ≤ xfactor) :
    let r := Biogo.PalsKernel.traceReverse palsCosts s top a a bottom xfactor
    RevOK (kS palsCosts) s.target.toList s.query.toList top a ⟨r.maxJ, r.maxI, r.maxScore, r.maxLeft, r.maxRight⟩ :=
  traceReverse_ok palsCosts s top a bottom xfactor ha ht palsCosts_ok.1.gap palsCosts_ok.1.block hx

open Biogo.Proofs.PalsKernelSound in
/-- **`kernel_model_hits_under_contract`** — for sequences of valid letters (a, c, g, t in either
    case) and trapezoids within the query rows, every hit the kernel model emits — whatever the
    trapezoids' diagonals, the word size, the thresholds — satisfies `HitOK` under the PALS
    matrix: both regions inside the sequences, a non-negative score that is the score of some
    global alignment of the two regions, both ends on diagonals within
    `[LowDiagonal, HighDiagonal]`. -/
theorem kernel_model_hits_under_contract (s : Biogo.PalsKernel.Seqs)
    (hvt : ∀ x ∈ s.target.toList, Biogo.PalsKernel.validLetter x = true)
    (hvq : ∀ x ∈ s.query.toList, Biogo.PalsKernel.validLetter x = true)
    (traps : List Biogo.PalsMerge.Trap) (k minLen num den : Int) (hml : 0 ≤ minLen)
    (htr : TrapsIn s.qlen traps.toArray) :
    ∀ kh ∈ Biogo.PalsKernel.emitted palsCosts s traps k minLen num den,
      HitOK palsMatrix s.target.toList s.query.toList ⟨kh.h, kh.lowDiagonal, kh.highDiagonal⟩ :=
  emitted_hitOK palsCosts palsCosts_ok.1 palsCosts_ok.2.1 palsCosts_ok.2.2 s hvt hvq traps k minLen num den hml htr

open Biogo.Proofs.PalsKernelSound in
/-- and therefore passes the driver's per-hit conditions and respects the oracle -/
theorem kernel_model_hits_consistent (s : Biogo.PalsKernel.Seqs)
    (hvt : ∀ x ∈ s.target.toList, Biogo.PalsKernel.validLetter x = true)
    (hvq : ∀ x ∈ s.query.toList, Biogo.PalsKernel.validLetter x = true)
    (traps : List Biogo.PalsMerge.Trap) (k minLen num den : Int) (hml : 0 ≤ minLen)
    (htr : TrapsIn s.qlen traps.toArray) :
    ∀ kh ∈ Biogo.PalsKernel.emitted palsCosts s traps k minLen num den, kh.h.bbpos < kh.h.bepos →
      consistent SameCost DiffCost ⟨kh.h, kh.lowDiagonal, kh.highDiagonal⟩ = true ∧
      kh.h.score ≤ palsGlobal (slice s.target.toList kh.h.abpos kh.h.aepos) (slice s.query.toList kh.h.bbpos kh.h.bepos) := by
  intro kh hk hb
  have ok := kernel_model_hits_under_contract s hvt hvq traps k minLen num den hml htr kh hk
  exact ⟨hit_under_contract_consistent _ _ _ ok hb, hit_under_contract_below_oracle _ _ _ ok hb⟩

open Biogo.Proofs.PalsKernelSound in
/-- **`kernel_model_split_hits_under_contract`** — the same for the recursion that also splits a
    trapezoid by diagonals (`emittedWith true`: after an alignment it recurses into the diagonals to
    the left and right of the alignment's band as well — the candidate repair of finding K6, which
    the driver's K6 recogniser runs): every hit it emits is under contract, passes `consistent` and
    respects the oracle.  So the recogniser never credits the repaired recursion with a hit that is
    not a real alignment. -/
theorem kernel_model_split_hits_under_contract (split : Bool) (s : Biogo.PalsKernel.Seqs)
    (hvt : ∀ x ∈ s.target.toList, Biogo.PalsKernel.validLetter x = true)
    (hvq : ∀ x ∈ s.query.toList, Biogo.PalsKernel.validLetter x = true)
    (traps : List Biogo.PalsMerge.Trap) (k minLen num den : Int) (hml : 0 ≤ minLen)
    (htr : TrapsIn s.qlen traps.toArray) :
    ∀ kh ∈ Biogo.PalsKernel.emittedWith split palsCosts s traps k minLen num den,
      HitOK palsMatrix s.target.toList s.query.toList ⟨kh.h, kh.lowDiagonal, kh.highDiagonal⟩ ∧
      (kh.h.bbpos < kh.h.bepos →
        consistent SameCost DiffCost ⟨kh.h, kh.lowDiagonal, kh.highDiagonal⟩ = true ∧
        kh.h.score ≤ palsGlobal (slice s.target.toList kh.h.abpos kh.h.aepos) (slice s.query.toList kh.h.bbpos kh.h.bepos)) := by
  intro kh hk
  have ok : HitOK palsMatrix s.target.toList s.query.toList ⟨kh.h, kh.lowDiagonal, kh.highDiagonal⟩ :=
    emittedWith_hitOK split palsCosts palsCosts_ok.1 palsCosts_ok.2.1 palsCosts_ok.2.2 s hvt hvq traps k minLen num den hml htr kh hk
  exact ⟨ok, fun hb => ⟨hit_under_contract_consistent _ _ _ ok hb, hit_under_contract_below_oracle _ _ _ ok hb⟩⟩

/-! ### the whole of `AlignTraps`: kernel, acceptance test and suppression together -/

theorem startLe_trans (a b c : Biogo.PalsOracle.Hit) (h1 : Biogo.PalsKernel.startLe a b = true)
    (h2 : Biogo.PalsKernel.startLe b c = true) : Biogo.PalsKernel.startLe a c = true := by
  unfold Biogo.PalsKernel.startLe at *
  split at h1 <;> split at h2 <;> split <;> simp only [decide_eq_true_eq] at * <;> omega

theorem startLe_total (a b : Biogo.PalsOracle.Hit) :
    (Biogo.PalsKernel.startLe a b || Biogo.PalsKernel.startLe b a) = true := by
  unfold Biogo.PalsKernel.startLe
  split <;> split <;> simp only [Bool.or_eq_true, decide_eq_true_eq] <;> omega

theorem endLe_trans (a b c : Biogo.PalsOracle.Hit) (h1 : Biogo.PalsKernel.endLe a b = true)
    (h2 : Biogo.PalsKernel.endLe b c = true) : Biogo.PalsKernel.endLe a c = true := by
  unfold Biogo.PalsKernel.endLe at *
  split at h1 <;> split at h2 <;> split <;> simp only [decide_eq_true_eq] at * <;> omega

theorem endLe_total (a b : Biogo.PalsOracle.Hit) :
    (Biogo.PalsKernel.endLe a b || Biogo.PalsKernel.endLe b a) = true := by
  unfold Biogo.PalsKernel.endLe
  split <;> split <;> simp only [Bool.or_eq_true, decide_eq_true_eq] <;> omega

/-- **`suppression_leaves_one_per_point`** — the suppression of `AlignTraps` after the seventh
    repair, for *any* two sorts that return a permutation ordered by `(Abpos, Bbpos)`, resp.
    `(Aepos, Bepos)` (whatever they do with equal keys — `sort.Sort` is not stable): no two returned
    hits begin at the same point and no two end at the same point.  With `Less` on `Abpos` / `Aepos`
    alone (the code before the repair) this fails: a hit with the same `Abpos` and another `Bbpos`
    may sort between two hits with the same start (seventh defect, `corpus/C15.txt`). -/
theorem suppression_leaves_one_per_point (sortStart sortEnd : List Biogo.PalsOracle.Hit → List Biogo.PalsOracle.Hit)
    (p2 : ∀ l, (sortEnd l).Perm l)
    (s1 : ∀ l, (sortStart l).Pairwise (fun a b => keyLe (a.abpos, a.bbpos) (b.abpos, b.bbpos)))
    (s2 : ∀ l, (sortEnd l).Pairwise (fun a b => keyLe (a.aepos, a.bepos) (b.aepos, b.bepos)))
    (segs : List Biogo.PalsOracle.Hit) :
    (suppress sortStart sortEnd segs).Pairwise
      (fun a b => (a.abpos, a.bbpos) ≠ (b.abpos, b.bbpos) ∧ (a.aepos, a.bepos) ≠ (b.aepos, b.bepos)) :=
  suppress_distinct sortStart sortEnd p2 s1 s2 segs

/-- the seventh defect in the suppression model: the emission order `1, 2, 1` of the witness in
    `corpus/C15.txt` is sorted by `Abpos` and by `Aepos` (both constant), so sorts that compare one
    coordinate only may leave it as it is, and the hit `300..500 × 200..400` is returned twice;
    a sort on both coordinates makes the copies neighbours -/
example : suppress id id [⟨300, 200, 500, 400, 200⟩, ⟨300, 650, 500, 850, 200⟩, ⟨300, 200, 500, 400, 200⟩] =
    [⟨300, 200, 500, 400, 200⟩, ⟨300, 650, 500, 850, 200⟩, ⟨300, 200, 500, 400, 200⟩] := by decide

-- ordered by both coordinates the two copies are neighbours and one is removed
example : suppress id id [⟨300, 200, 500, 400, 200⟩, ⟨300, 200, 500, 400, 200⟩, ⟨300, 650, 500, 850, 200⟩] =
    [⟨300, 200, 500, 400, 200⟩, ⟨300, 650, 500, 850, 200⟩] := by decide

open Biogo.Proofs.PalsKernelSound in
/-- **`alignTraps_sound`** — one statement about the whole of `AlignTraps` (the model the driver
    runs and compares hit by hit with `dp.AlignTraps`: kernel on every trapezoid, acceptance test,
    coverage marks, the two suppression passes), for sequences of valid letters, trapezoids within
    the query rows, a positive minimum length.  Every **reported** hit
    * is one of the hits the kernel emitted, unchanged;
    * lies inside both sequences and its score is that of some global alignment of its two
      regions (`HitOK`), so it passes the per-hit conditions the driver evaluates (`consistent`)
      and `Score ≤ palsGlobal(regions)`;
    * meets the thresholds: both lengths `≥ minLen`, `errNum·den ≤ num·RMatchCost·blen`
      (`Error ≤ 1 − minId`);
    and **no two reported hits begin at the same point, and no two end at the same point**. -/
theorem alignTraps_sound (s : Biogo.PalsKernel.Seqs)
    (hvt : ∀ x ∈ s.target.toList, Biogo.PalsKernel.validLetter x = true)
    (hvq : ∀ x ∈ s.query.toList, Biogo.PalsKernel.validLetter x = true)
    (traps : List Biogo.PalsMerge.Trap) (k minLen num den : Int) (hml : 0 < minLen)
    (htr : TrapsIn s.qlen traps.toArray) :
    (∀ h ∈ Biogo.PalsKernel.alignTraps palsCosts s traps k minLen num den,
      ∃ kh ∈ Biogo.PalsKernel.emitted palsCosts s traps k minLen num den, kh.h = h ∧
        HitOK palsMatrix s.target.toList s.query.toList ⟨h, kh.lowDiagonal, kh.highDiagonal⟩ ∧
        consistent SameCost DiffCost ⟨h, kh.lowDiagonal, kh.highDiagonal⟩ = true ∧
        h.score ≤ palsGlobal (slice s.target.toList h.abpos h.aepos) (slice s.query.toList h.bbpos h.bepos) ∧
        h.alen ≥ minLen ∧ h.blen ≥ minLen ∧ h.errNum * den ≤ num * (RMatchCost * h.blen)) ∧
    (Biogo.PalsKernel.alignTraps palsCosts s traps k minLen num den).Pairwise
      (fun a b => (a.abpos, a.bbpos) ≠ (b.abpos, b.bbpos) ∧ (a.aepos, a.bepos) ≠ (b.aepos, b.bepos)) := by
  constructor
  · intro h hh
    unfold Biogo.PalsKernel.alignTraps Biogo.PalsKernel.suppressed at hh
    have hin := (suppression_returns_emitted_hits _ _
      (fun l x => List.mem_mergeSort) (fun l x => List.mem_mergeSort) _ h hh).1
    obtain ⟨kh, hk, rfl⟩ := List.mem_map.mp hin
    have ok := kernel_model_hits_under_contract s hvt hvq traps k minLen num den (Int.le_of_lt hml) htr kh hk
    have acc := (emitted_accepted palsCosts palsCosts_ok.1 s traps k minLen num den (Int.le_of_lt hml) htr kh hk).1
    have thr := accepted_hit_meets_thresholds minLen num den kh.h acc
    have hb : kh.h.bbpos < kh.h.bepos := by
      have := thr.2.1
      simp only [Biogo.PalsOracle.Hit.blen] at this
      omega
    exact ⟨kh, hk, rfl, ok, hit_under_contract_consistent _ _ _ ok hb, hit_under_contract_below_oracle _ _ _ ok hb, thr⟩
  · unfold Biogo.PalsKernel.alignTraps Biogo.PalsKernel.suppressed
    apply suppression_leaves_one_per_point
    · intro l; exact List.mergeSort_perm l _
    · intro l
      apply List.Pairwise.imp _ (List.pairwise_mergeSort startLe_trans startLe_total l)
      intro a b hab
      unfold Biogo.PalsKernel.startLe at hab
      unfold keyLe
      split at hab <;> simp only [decide_eq_true_eq] at hab <;> simp only [] <;> omega
    · intro l
      apply List.Pairwise.imp _ (List.pairwise_mergeSort endLe_trans endLe_total l)
      intro a b hab
      unfold Biogo.PalsKernel.endLe at hab
      unfold keyLe
      split at hab <;> simp only [decide_eq_true_eq] at hab <;> simp only [] <;> omega

/-! non-vacuity: a 16-letter target repeated inside a 20-letter query, one trapezoid around the
diagonal `q − t = 2`; the model emits one hit, the hypotheses of `kernel_model_hits_under_contract`
hold and so does its conclusion -/

def exTarget : Array Nat := #[97, 99, 103, 116, 116, 103, 99, 97, 97, 99, 103, 116, 99, 99, 103, 97]
def exQuery : Array Nat := #[116, 116, 97, 99, 103, 116, 116, 103, 99, 97, 97, 99, 103, 116, 99, 99, 103, 97, 103, 103]

example : Biogo.PalsKernel.emitted palsCosts ⟨exTarget, exQuery⟩ [⟨20, 0, 1, 3⟩] 4 10 100 1000 =
    [⟨⟨0, 2, 16, 18, 16⟩, -9, 2, 0⟩] := by decide +kernel

open Biogo.Proofs.PalsKernelSound in
example : HitOK palsMatrix exTarget.toList exQuery.toList ⟨⟨0, 2, 16, 18, 16⟩, -9, 2⟩ := by
  have h := kernel_model_hits_under_contract ⟨exTarget, exQuery⟩ (by decide) (by decide) [⟨20, 0, 1, 3⟩] 4 10 100 1000
    (by decide) (by intro t ht; simp at ht; subst ht; decide)
    ⟨⟨0, 2, 16, 18, 16⟩, -9, 2, 0⟩ (by decide +kernel)
  exact h

/-! ### finding K6 in the model, and non-vacuity of `alignTraps_sound` -/

/-- a 16-letter segment twice in the target (at 0 and at 24), once in the query: two alignments over
    the same query rows on the diagonals 0 and 24 -/
def k6Target : Array Nat := exTarget ++ #[116, 116, 116, 116, 103, 103, 103, 103] ++ exTarget
def k6Query : Array Nat := exTarget

/-- **`k6_in_the_model`** — finding K6 on 40 letters: one trapezoid over all query rows and both
    diagonals (`q − t ∈ [−26, 2]`).  The recursion of the source (`emittedWith false`, what the
    correspondence compares with `dp.AlignTraps`) aligns through the middle row once, finds the
    copy at 24 and has no rows left; the recursion that also splits by diagonals (`emittedWith true`,
    the candidate repair the K6 recogniser runs) finds the copy at 0 as well.  Both hits are real
    (`kernel_model_split_hits_under_contract`). -/
theorem k6_in_the_model :
    Biogo.PalsKernel.emittedWith false palsCosts ⟨k6Target, k6Query⟩ [⟨16, 0, -26, 2⟩] 4 10 100 1000 =
      [⟨⟨24, 0, 40, 16, 16⟩, 17, 27, 0⟩] ∧
    Biogo.PalsKernel.emittedWith true palsCosts ⟨k6Target, k6Query⟩ [⟨16, 0, -26, 2⟩] 4 10 100 1000 =
      [⟨⟨24, 0, 40, 16, 16⟩, 17, 27, 0⟩, ⟨⟨0, 0, 16, 16, 16⟩, -7, 3, 0⟩] := by
  constructor <;> decide +kernel

open Biogo.Proofs.PalsKernelSound in
/-- the hypotheses of `alignTraps_sound` hold on the example of `kernel_model_hits_under_contract`
    (and on the K6 pair); its conclusion is the statement about `AlignTraps` as a whole -/
example := alignTraps_sound ⟨exTarget, exQuery⟩ (by decide) (by decide) [⟨20, 0, 1, 3⟩] 4 10 100 1000
  (by decide) (by intro t ht; simp at ht; subst ht; decide)

end Biogo.Properties.C15_kernel
