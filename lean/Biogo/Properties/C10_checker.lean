/-
C10 — the plain-scan reference the driver compares the implementation's index with
(`Spec.KmerGroup.byWord` / `byText`: sort the windows by (key, position), group runs of equal keys)
is the declarative `occurrences` / `frequency` of the theorems of `Properties/C10.lean`.
Property theorems at the end.
-/
import Biogo.Spec.Kmer
import Biogo.Spec.KmerGroup
import Biogo.Proofs.Kmer
import Biogo.Properties.C10

namespace Biogo.Properties.C10_checker
open Biogo.Spec.Kmer Biogo.Spec.KmerGroup

/-! ### sort-and-group, for any strictly ordered key type -/

structure StrictOrder {κ : Type} (lt : κ → κ → Bool) : Prop where
  irrefl : ∀ a, lt a a = false
  trans : ∀ a b c, lt a b = true → lt b c = true → lt a c = true
  tri : ∀ a b, lt a b = true ∨ a = b ∨ lt b a = true

/-- the values filed under key `k`, in list order -/
def vals {κ : Type} [BEq κ] (L : List (κ × Nat)) (k : κ) : List Nat := (L.filter (·.1 == k)).map (·.2)

section
variable {κ : Type} [BEq κ] [LawfulBEq κ] {lt : κ → κ → Bool}

omit [LawfulBEq κ] in
theorem vals_cons (k : κ) (v : Nat) (xs : List (κ × Nat)) (k0 : κ) :
    vals ((k, v) :: xs) k0 = if k == k0 then v :: vals xs k0 else vals xs k0 := by
  unfold vals; rw [List.filter_cons]; split <;> simp

theorem vals_ne_nil {xs : List (κ × Nat)} {k0 : κ} (h : vals xs k0 ≠ []) : ∃ x ∈ xs, x.1 = k0 := by
  unfold vals at h
  cases hf : xs.filter (·.1 == k0) with
  | nil => simp [hf] at h
  | cons y ys =>
    have : y ∈ xs.filter (·.1 == k0) := by rw [hf]; exact List.mem_cons_self
    rw [List.mem_filter] at this
    exact ⟨y, this.1, by simpa using this.2⟩

theorem vals_eq_nil {xs : List (κ × Nat)} {k0 : κ} (h : ∀ x ∈ xs, x.1 ≠ k0) : vals xs k0 = [] := by
  unfold vals
  rw [List.map_eq_nil_iff, List.filter_eq_nil_iff]
  intro x hx; simpa using h x hx

/-- grouping a list sorted by (key, value): keys strictly increase and the group of a key holds
    exactly the values filed under it, in list order; keys without a value have no group -/
theorem groupSorted_spec (so : StrictOrder lt) : ∀ (L : List (κ × Nat)),
    L.Pairwise (fun a b => lexLe lt a b = true) →
    (groupSorted L).Pairwise (fun a b => lt a.1 b.1 = true) ∧
    ∀ k0 vs, (k0, vs) ∈ groupSorted L ↔ vs ≠ [] ∧ vs = vals L k0
  | [], _ => by
    refine ⟨by simp [groupSorted], fun k0 vs => ?_⟩
    simp only [groupSorted, List.not_mem_nil, vals, List.filter_nil, List.map_nil, false_iff]
    rintro ⟨h1, h2⟩; exact h1 h2
  | (k, v) :: xs, h => by
    rw [List.pairwise_cons] at h
    obtain ⟨hk, hxs⟩ := h
    obtain ⟨ihB, ihA⟩ := groupSorted_spec so xs hxs
    have hkey : ∀ x ∈ xs, lt k x.1 = true ∨ k = x.1 := by
      intro x hx
      have := hk x hx
      simp only [lexLe, Bool.or_eq_true, Bool.and_eq_true, beq_iff_eq] at this
      rcases this with h | ⟨h, _⟩
      · exact Or.inl h
      · exact Or.inr h
    rw [groupSorted]
    cases hG : groupSorted xs with
    | nil =>
      have hnone : ∀ k0, vals xs k0 = [] := by
        intro k0
        apply Classical.byContradiction
        intro hne
        have := (ihA k0 (vals xs k0)).mpr ⟨hne, rfl⟩
        rw [hG] at this; cases this
      refine ⟨by simp, fun k0 vs => ?_⟩
      simp only [List.mem_singleton, Prod.mk.injEq, vals_cons, hnone]
      by_cases hkk : k = k0
      · subst hkk; simp only [true_and, beq_self_eq_true, if_true]
        constructor
        · intro h1; exact ⟨by simp [h1], h1⟩
        · intro h1; exact h1.2
      · have : (k == k0) = false := by simpa using hkk
        simp only [this, Bool.false_eq_true, if_false]
        constructor
        · rintro ⟨h1, _⟩; exact absurd h1.symm hkk
        · rintro ⟨h1, h2⟩; exact absurd h2 h1
    | cons g rest =>
      obtain ⟨k', vs'⟩ := g
      rw [hG] at ihA ihB
      rw [List.pairwise_cons] at ihB
      have hhead : vs' ≠ [] ∧ vs' = vals xs k' := (ihA k' vs').mp List.mem_cons_self
      obtain ⟨x', hx', hx'k⟩ := vals_ne_nil (hhead.2 ▸ hhead.1)
      simp only []
      by_cases hkk : k = k'
      · subst hkk
        simp only [beq_self_eq_true, if_true]
        refine ⟨?_, fun k0 vs => ?_⟩
        · rw [List.pairwise_cons]; exact ihB
        · rw [vals_cons, List.mem_cons]
          by_cases hk0 : k = k0
          · subst hk0
            simp only [beq_self_eq_true, if_true, Prod.mk.injEq, true_and]
            constructor
            · rintro (h1 | h1)
              · rw [h1, hhead.2]; exact ⟨by simp, rfl⟩
              · have := ihB.1 _ h1
                rw [so.irrefl] at this; cases this
            · rintro ⟨_, h2⟩
              left; rw [h2, ← hhead.2]
          · have hb : (k == k0) = false := by simpa using hk0
            simp only [hb, Bool.false_eq_true, if_false, Prod.mk.injEq]
            constructor
            · rintro (⟨h1, _⟩ | h1)
              · exact absurd h1.symm hk0
              · exact (ihA k0 vs).mp (List.mem_cons_of_mem _ h1)
            · intro h1
              have := (ihA k0 vs).mpr h1
              rw [List.mem_cons, Prod.mk.injEq] at this
              rcases this with ⟨h2, _⟩ | h2
              · exact absurd h2.symm hk0
              · exact Or.inr h2
      · have hb : (k == k') = false := by simpa using hkk
        simp only [hb, Bool.false_eq_true, if_false]
        -- `k` is below every key of `xs`
        have hltk' : lt k k' = true := by
          rcases hkey x' hx' with h1 | h1
          · rw [hx'k] at h1; exact h1
          · rw [hx'k] at h1; exact absurd h1 hkk
        have habsent : vals xs k = [] := by
          apply Classical.byContradiction
          intro hne
          have := (ihA k (vals xs k)).mpr ⟨hne, rfl⟩
          rw [List.mem_cons, Prod.mk.injEq] at this
          rcases this with ⟨h2, _⟩ | h2
          · exact hkk h2
          · have h3 := ihB.1 _ h2
            have := so.trans _ _ _ hltk' h3
            rw [so.irrefl] at this; cases this
        refine ⟨?_, fun k0 vs => ?_⟩
        · rw [List.pairwise_cons]
          refine ⟨?_, List.pairwise_cons.mpr ihB⟩
          intro g hg
          obtain ⟨k0, vs0⟩ := g
          have h1 := (ihA k0 vs0).mp hg
          obtain ⟨x, hx, hxk⟩ := vals_ne_nil (h1.2 ▸ h1.1)
          rcases hkey x hx with h2 | h2
          · rw [hxk] at h2; exact h2
          · rw [hxk] at h2; subst h2
            rw [habsent] at h1; exact absurd h1.2 h1.1
        · rw [vals_cons, List.mem_cons]
          by_cases hk0 : k = k0
          · subst hk0
            simp only [beq_self_eq_true, if_true, Prod.mk.injEq, true_and, habsent]
            constructor
            · rintro (h1 | h1)
              · exact ⟨by simp [h1], h1⟩
              · have := (ihA k vs).mp h1
                rw [habsent] at this; exact absurd this.2 this.1
            · rintro ⟨_, h2⟩; exact Or.inl h2
          · have hb0 : (k == k0) = false := by simpa using hk0
            simp only [hb0, Bool.false_eq_true, if_false, Prod.mk.injEq]
            constructor
            · rintro (⟨h1, _⟩ | h1)
              · exact absurd h1.symm hk0
              · exact (ihA k0 vs).mp h1
            · intro h1; exact Or.inr ((ihA k0 vs).mpr h1)

theorem lexLe_trans (so : StrictOrder lt) (a b c : κ × Nat) (h1 : lexLe lt a b = true)
    (h2 : lexLe lt b c = true) : lexLe lt a c = true := by
  simp only [lexLe, Bool.or_eq_true, Bool.and_eq_true, beq_iff_eq, decide_eq_true_eq] at *
  rcases h1 with h1 | ⟨h1, h1'⟩ <;> rcases h2 with h2 | ⟨h2, h2'⟩
  · exact Or.inl (so.trans _ _ _ h1 h2)
  · rw [← h2]; exact Or.inl h1
  · rw [h1]; exact Or.inl h2
  · exact Or.inr ⟨h1.trans h2, by omega⟩

theorem lexLe_total (so : StrictOrder lt) (a b : κ × Nat) : (lexLe lt a b || lexLe lt b a) = true := by
  simp only [lexLe, Bool.or_eq_true, Bool.and_eq_true, beq_iff_eq, decide_eq_true_eq]
  rcases so.tri a.1 b.1 with h | h | h
  · exact Or.inl (Or.inl h)
  · by_cases h2 : a.2 ≤ b.2
    · exact Or.inl (Or.inr ⟨h, h2⟩)
    · exact Or.inr (Or.inr ⟨h.symm, by omega⟩)
  · exact Or.inr (Or.inl h)

/-- in a list sorted by (key, value) the values of one key are increasing -/
theorem vals_sorted (so : StrictOrder lt) {L : List (κ × Nat)} (h : L.Pairwise (fun a b => lexLe lt a b = true))
    (k0 : κ) : (vals L k0).Pairwise (fun a b => decide (a ≤ b) = true) := by
  unfold vals
  rw [List.pairwise_map, List.pairwise_filter]
  refine h.imp ?_
  intro a b hab ha hb
  rw [beq_iff_eq] at ha hb
  simp only [lexLe, Bool.or_eq_true, Bool.and_eq_true, beq_iff_eq, decide_eq_true_eq] at hab
  rcases hab with h1 | ⟨_, h1⟩
  · rw [ha, hb, so.irrefl] at h1; cases h1
  · simpa using h1

/-- **sort and group**: keys strictly increase, every key with a value has exactly one group, and
    the group holds the values filed under the key in increasing order -/
theorem groupBy_spec (so : StrictOrder lt) (keyed : List (κ × Nat)) :
    (groupBy lt keyed).Pairwise (fun a b => lt a.1 b.1 = true) ∧
    ∀ k0 vs, (k0, vs) ∈ groupBy lt keyed ↔
      vs ≠ [] ∧ vs = (vals keyed k0).mergeSort (fun a b => decide (a ≤ b)) := by
  have hs : (keyed.mergeSort (lexLe lt)).Pairwise (fun a b => lexLe lt a b = true) :=
    List.pairwise_mergeSort (lexLe_trans so) (lexLe_total so) keyed
  obtain ⟨hB, hA⟩ := groupSorted_spec so _ hs
  refine ⟨hB, fun k0 vs => ?_⟩
  have heq : vals (keyed.mergeSort (lexLe lt)) k0 = (vals keyed k0).mergeSort (fun a b => decide (a ≤ b)) := by
    apply List.Perm.eq_of_pairwise (le := fun a b => decide (a ≤ b) = true)
    · intro a b _ _ h1 h2
      simp only [decide_eq_true_eq] at h1 h2; omega
    · exact vals_sorted so hs k0
    · exact List.pairwise_mergeSort (by intro a b c h1 h2; simp only [decide_eq_true_eq] at *; omega)
        (by intro a b; simp only [Bool.or_eq_true, decide_eq_true_eq]; omega) _
    · unfold vals
      exact (((List.mergeSort_perm keyed (lexLe lt)).filter _).map _).trans (List.mergeSort_perm _ _).symm
  unfold groupBy
  rw [hA, heq]

/-- … and when the values come in increasing order already (positions of a scan), the group is
    the plain sub-list -/
theorem groupBy_spec_sorted (so : StrictOrder lt) (keyed : List (κ × Nat))
    (hv : keyed.Pairwise (fun a b => a.2 ≤ b.2)) :
    (groupBy lt keyed).Pairwise (fun a b => lt a.1 b.1 = true) ∧
    ∀ k0 vs, (k0, vs) ∈ groupBy lt keyed ↔ vs ≠ [] ∧ vs = vals keyed k0 := by
  obtain ⟨hB, hA⟩ := groupBy_spec so keyed
  refine ⟨hB, fun k0 vs => ?_⟩
  rw [hA, List.mergeSort_of_pairwise]
  unfold vals
  rw [List.pairwise_map]
  exact (hv.filter _).imp (by intro a b h; simpa using h)

theorem mem_of_lookup {ν : Type} : ∀ (G : List (κ × ν)) (k0 : κ) (v : ν), G.lookup k0 = some v → (k0, v) ∈ G
  | [], _, _, h => by simp [List.lookup] at h
  | (k, u) :: G, k0, v, h => by
    rw [List.lookup_cons] at h
    split at h
    · rename_i hk
      rw [beq_iff_eq] at hk
      cases h; subst hk; exact List.mem_cons_self
    · exact List.mem_cons_of_mem _ (mem_of_lookup G k0 v h)

theorem lookup_none {ν : Type} : ∀ (G : List (κ × ν)) (k0 : κ), G.lookup k0 = none → ∀ v, (k0, v) ∉ G
  | [], _, _, _ => by simp
  | (k, u) :: G, k0, h, v => by
    rw [List.lookup_cons] at h
    split at h
    · cases h
    · rename_i hk
      rw [List.mem_cons, Prod.mk.injEq]
      rintro (⟨h1, _⟩ | h1)
      · subst h1; simp at hk
      · exact lookup_none G k0 h v h1

/-- a table whose groups are characterised by `f` answers look-ups with `f` -/
theorem lookup_of_spec {G : List (κ × List Nat)} {f : κ → List Nat}
    (h : ∀ k0 vs, (k0, vs) ∈ G ↔ vs ≠ [] ∧ vs = f k0) (k0 : κ) : (G.lookup k0).getD [] = f k0 := by
  cases hl : G.lookup k0 with
  | none =>
    simp only [Option.getD_none]
    apply Classical.byContradiction
    intro hne
    exact lookup_none G k0 hl (f k0) ((h k0 (f k0)).mpr ⟨fun h' => hne h'.symm, rfl⟩)
  | some vs =>
    simp only [Option.getD_some]
    exact ((h k0 vs).mp (mem_of_lookup G k0 vs hl)).2

end

/-! ### the two key orders -/

theorem natLt_strict : StrictOrder (fun (a b : Nat) => decide (a < b)) where
  irrefl := by intro a; simp
  trans := by intro a b c h1 h2; simp only [decide_eq_true_eq] at *; omega
  tri := by intro a b; simp only [decide_eq_true_eq]; omega

theorem ltBytes_irrefl : ∀ a, ltBytes a a = false
  | [] => rfl
  | x :: xs => by simp [ltBytes, ltBytes_irrefl xs, UInt8.lt_irrefl]

theorem ltBytes_trans : ∀ a b c, ltBytes a b = true → ltBytes b c = true → ltBytes a c = true
  | [], [], _, h, _ => by simp [ltBytes] at h
  | [], _ :: _, [], _, h => by simp [ltBytes] at h
  | [], _ :: _, _ :: _, _, _ => rfl
  | _ :: _, [], _, h, _ => by simp [ltBytes] at h
  | _ :: _, _ :: _, [], _, h => by simp [ltBytes] at h
  | x :: xs, y :: ys, z :: zs, h1, h2 => by
    simp only [ltBytes, Bool.or_eq_true, decide_eq_true_eq, Bool.and_eq_true, beq_iff_eq] at *
    rcases h1 with h1 | ⟨h1, h1'⟩ <;> rcases h2 with h2 | ⟨h2, h2'⟩
    · exact Or.inl (UInt8.lt_trans h1 h2)
    · subst h2; exact Or.inl h1
    · subst h1; exact Or.inl h2
    · exact Or.inr ⟨h1.trans h2, ltBytes_trans xs ys zs h1' h2'⟩

theorem ltBytes_tri : ∀ a b, ltBytes a b = true ∨ a = b ∨ ltBytes b a = true
  | [], [] => Or.inr (Or.inl rfl)
  | [], _ :: _ => Or.inl rfl
  | _ :: _, [] => Or.inr (Or.inr rfl)
  | x :: xs, y :: ys => by
    simp only [ltBytes, Bool.or_eq_true, decide_eq_true_eq, Bool.and_eq_true, beq_iff_eq, List.cons.injEq]
    by_cases h1 : x < y
    · exact Or.inl (Or.inl h1)
    · by_cases h2 : y < x
      · exact Or.inr (Or.inr (Or.inl h2))
      · have hxy : x = y := by
          apply UInt8.toNat_inj.mp
          rw [UInt8.lt_iff_toNat_lt] at h1 h2
          omega
        rcases ltBytes_tri xs ys with h | h | h
        · exact Or.inl (Or.inr ⟨hxy, h⟩)
        · exact Or.inr (Or.inl ⟨hxy, h⟩)
        · exact Or.inr (Or.inr (Or.inr ⟨hxy.symm, h⟩))

theorem ltBytes_strict : StrictOrder ltBytes := ⟨ltBytes_irrefl, ltBytes_trans, ltBytes_tri⟩

/-! ### property theorems -/

theorem allWindows_sorted (lk : Lookup) (k : Nat) (s : List UInt8) :
    (allWindows lk k s).Pairwise (fun a b => a.1 < b.1) := Biogo.Proofs.Kmer.wordsFrom_pairwise lk k s 0

theorem vals_byWord (ws : List (Nat × Nat)) (w : Nat) :
    vals (ws.map fun c => (c.2, c.1)) w = (ws.filter (fun c => c.2 == w)).map (·.1) := by
  unfold vals
  rw [List.filter_map, List.map_map]
  rfl

/-- **`byWord` is `occurrences`** — what the driver compares `KmerIndex()` with: the groups come by
    strictly increasing word, a word has a group exactly when it occurs, and the group of `w` is the
    list `occurrences lk k s w` of `positions_spec`. -/
theorem byWord_spec (lk : Lookup) (k : Nat) (s : List UInt8) :
    (byWord (allWindows lk k s)).Pairwise (fun a b => a.1 < b.1) ∧
    ∀ w ps, (w, ps) ∈ byWord (allWindows lk k s) ↔ ps ≠ [] ∧ ps = occurrences lk k s w := by
  have hv : ((allWindows lk k s).map fun c => (c.2, c.1)).Pairwise (fun a b => a.2 ≤ b.2) := by
    rw [List.pairwise_map]
    exact (allWindows_sorted lk k s).imp (by intro a b h; exact Nat.le_of_lt h)
  obtain ⟨hB, hA⟩ := groupBy_spec_sorted natLt_strict _ hv
  refine ⟨hB.imp (by intro a b h; simpa using h), fun w ps => ?_⟩
  unfold byWord
  rw [hA, vals_byWord]
  rfl

/-- what the driver demands of `KmerPositions(w)` for a word in range: the entry of `w` in the
    grouped scan, nothing for an absent word — is `occurrences lk k s w` -/
theorem byWord_lookup (lk : Lookup) (k : Nat) (s : List UInt8) (w : Nat) :
    ((byWord (allWindows lk k s)).lookup w).getD [] = occurrences lk k s w :=
  lookup_of_spec (byWord_spec lk k s).2 w

theorem frequency_eq_length (lk : Lookup) (k : Nat) (s : List UInt8) (w : Nat) :
    frequency lk k s w = (occurrences lk k s w).length := by
  unfold frequency occurrences
  rw [List.length_map, List.countP_eq_length_filter]

/-- what the driver compares `KmerFrequencies()` with — the group sizes — is the list of the
    non-zero `frequency` values of `freq_spec`, by strictly increasing word -/
theorem byWord_freq (lk : Lookup) (k : Nat) (s : List UInt8) :
    ((byWord (allWindows lk k s)).map fun kv => (kv.1, kv.2.length)).Pairwise (fun a b => a.1 < b.1) ∧
    ∀ w n, (w, n) ∈ ((byWord (allWindows lk k s)).map fun kv => (kv.1, kv.2.length)) ↔
      n ≠ 0 ∧ n = frequency lk k s w := by
  obtain ⟨hB, hA⟩ := byWord_spec lk k s
  refine ⟨by rw [List.pairwise_map]; exact hB, fun w n => ?_⟩
  rw [frequency_eq_length]
  simp only [List.mem_map, Prod.mk.injEq]
  constructor
  · rintro ⟨⟨w', ps⟩, hm, rfl, rfl⟩
    obtain ⟨h1, h2⟩ := (hA _ _).mp hm
    simp only [] at *
    exact ⟨by rw [Ne, List.length_eq_zero_iff]; exact h1, by rw [h2]⟩
  · rintro ⟨h1, h2⟩
    refine ⟨(w, occurrences lk k s w), (hA _ _).mpr ⟨?_, rfl⟩, rfl, h2.symm⟩
    intro h; rw [h] at h2; exact h1 h2

/-- every word of the scan is below `4^k` -/
theorem window_word_lt {lk : Lookup} (hlk : Biogo.Proofs.Kmer.FourLetter lk) (k : Nat) (s : List UInt8)
    (c : Nat × Nat) (h : c ∈ allWindows lk k s) : c.2 < 4 ^ k := by
  unfold allWindows at h
  rw [Biogo.Proofs.Kmer.mem_wordsFrom_iff] at h
  obtain ⟨_, _, hw⟩ := h
  unfold wordOf at hw
  dsimp only at hw
  split at hw
  · rename_i hlen
    cases hd : digits lk (List.take k (List.drop (c.1 - 0) s)) with
    | none => rw [hd] at hw; cases hw
    | some ds =>
      rw [hd] at hw
      simp only [Option.map_some, Option.some.injEq] at hw
      rw [← hw]
      have := Biogo.Proofs.Kmer.encode_lt ds (Biogo.Proofs.Kmer.digits_lt hlk hd)
      rw [Biogo.Proofs.Kmer.digits_length hd, hlen] at this
      exact this
  · cases hw

/-- two tables with strictly increasing keys and the same entries are the same list -/
theorem eq_of_sorted_of_mem_iff {ν : Type} {A B : List (Nat × ν)}
    (hA : A.Pairwise (fun a b => a.1 < b.1)) (hB : B.Pairwise (fun a b => a.1 < b.1))
    (h : ∀ x, x ∈ A ↔ x ∈ B) : A = B := by
  induction A generalizing B with
  | nil =>
    cases B with
    | nil => rfl
    | cons b B => exact absurd ((h b).mpr List.mem_cons_self) (by simp)
  | cons a A ih =>
    cases B with
    | nil => exact absurd ((h a).mp List.mem_cons_self) (by simp)
    | cons b B =>
      rw [List.pairwise_cons] at hA hB
      have hab : a = b := by
        have h1 := (h a).mp List.mem_cons_self
        have h2 := (h b).mpr List.mem_cons_self
        rw [List.mem_cons] at h1 h2
        rcases h1 with h1 | h1
        · exact h1
        · rcases h2 with h2 | h2
          · exact h2.symm
          · have := hA.1 b h2; have := hB.1 a h1; omega
      subst hab
      congr 1
      apply ih hA.2 hB.2
      intro x
      constructor
      · intro hx
        have := (h x).mp (List.mem_cons_of_mem _ hx)
        rw [List.mem_cons] at this
        rcases this with rfl | h1
        · have := hA.1 x hx; omega
        · exact h1
      · intro hx
        have := (h x).mpr (List.mem_cons_of_mem _ hx)
        rw [List.mem_cons] at this
        rcases this with rfl | h1
        · have := hB.1 x hx; omega
        · exact h1

/-- explicit form for a four-letter alphabet: the grouped scan is the table
    `w ↦ occurrences lk k s w` over `w = 0 … 4^k - 1` with the empty entries left out — and its
    sizes are literally the list `freq_spec` states for `KmerFrequencies()`. -/
theorem byWord_eq {lk : Lookup} (hlk : Biogo.Proofs.Kmer.FourLetter lk) (k : Nat) (s : List UInt8) :
    byWord (allWindows lk k s) = (List.range (4 ^ k + 1)).filterMap (fun w =>
      if occurrences lk k s w ≠ [] then some (w, occurrences lk k s w) else none) ∧
    ((byWord (allWindows lk k s)).map fun kv => (kv.1, kv.2.length)) = (List.range (4 ^ k + 1)).filterMap (fun w =>
      if frequency lk k s w > 0 then some (w, frequency lk k s w) else none) := by
  obtain ⟨hB, hA⟩ := byWord_spec lk k s
  have hocc : ∀ w, occurrences lk k s w ≠ [] → w < 4 ^ k + 1 := by
    intro w hw
    unfold occurrences at hw
    rw [Ne, List.map_eq_nil_iff] at hw
    cases hf : (allWindows lk k s).filter (fun c => c.2 == w) with
    | nil => exact absurd hf hw
    | cons c cs =>
      have : c ∈ (allWindows lk k s).filter (fun c => c.2 == w) := by rw [hf]; exact List.mem_cons_self
      rw [List.mem_filter, beq_iff_eq] at this
      have := window_word_lt hlk k s c this.1
      omega
  have h1 : byWord (allWindows lk k s) = (List.range (4 ^ k + 1)).filterMap (fun w =>
      if occurrences lk k s w ≠ [] then some (w, occurrences lk k s w) else none) := by
    apply eq_of_sorted_of_mem_iff hB
    · rw [List.pairwise_filterMap]
      refine (List.pairwise_lt_range).imp ?_
      intro a b hab x hx y hy
      split at hx
      · split at hy
        · cases hx; cases hy; exact hab
        · cases hy
      · cases hx
    · rintro ⟨w, ps⟩
      rw [hA, List.mem_filterMap]
      constructor
      · rintro ⟨h1, h2⟩
        refine ⟨w, List.mem_range.mpr (hocc w (h2 ▸ h1)), ?_⟩
        rw [if_pos (h2 ▸ h1), h2]
      · rintro ⟨w', _, h2⟩
        split at h2
        · rename_i h3
          cases h2; exact ⟨h3, rfl⟩
        · cases h2
  refine ⟨h1, ?_⟩
  rw [h1, List.map_filterMap]
  congr 1
  funext w
  rw [frequency_eq_length]
  by_cases h : occurrences lk k s w = []
  · simp [h]
  · have : (occurrences lk k s w).length > 0 := List.length_pos_iff.mpr h
    simp [h, this]

theorem vals_byText (sa : Array UInt8) (k : Nat) (ws : List (Nat × Nat)) (txt : List UInt8) :
    vals (ws.map fun c => (textAt sa k c.1, c.1)) txt
      = (ws.filter (fun c => textAt sa k c.1 == txt)).map (·.1) := by
  unfold vals
  rw [List.filter_map, List.map_map]
  rfl

/-- positions of the valid windows whose `k` letters, lower-cased, read `txt` — the string view
    of `occurrences` -/
def textOccurrences (lk : Lookup) (k : Nat) (s : List UInt8) (txt : List UInt8) : List Nat :=
  ((allWindows lk k s).filter (fun c => textAt s.toArray k c.1 == txt)).map (·.1)

/-- **`byText`**, what the driver compares `StringKmerIndex()` with: groups by strictly increasing
    text (byte-wise), one for every text that occurs, holding the positions of the valid windows
    that read that text -/
theorem byText_spec (lk : Lookup) (k : Nat) (s : List UInt8) :
    (byText s.toArray k (allWindows lk k s)).Pairwise (fun a b => ltBytes a.1 b.1 = true) ∧
    ∀ txt ps, (txt, ps) ∈ byText s.toArray k (allWindows lk k s) ↔
      ps ≠ [] ∧ ps = textOccurrences lk k s txt := by
  have hv : ((allWindows lk k s).map fun c => (textAt s.toArray k c.1, c.1)).Pairwise (fun a b => a.2 ≤ b.2) := by
    rw [List.pairwise_map]
    exact (allWindows_sorted lk k s).imp (by intro a b h; exact Nat.le_of_lt h)
  obtain ⟨hB, hA⟩ := groupBy_spec_sorted ltBytes_strict _ hv
  refine ⟨hB, fun txt ps => ?_⟩
  unfold byText
  rw [hA, vals_byText]
  rfl

/-- what the driver demands of `KmerPositionsString(text)` for a valid text -/
theorem byText_lookup (lk : Lookup) (k : Nat) (s : List UInt8) (txt : List UInt8) :
    ((byText s.toArray k (allWindows lk k s)).lookup txt).getD [] = textOccurrences lk k s txt :=
  lookup_of_spec (byText_spec lk k s).2 txt

/-- what the driver demands of `ComplementOf(w)` (ops `km`): the numeral of the reverse-complemented
    digit string of `w` — `complement_spec` read at the digits of `w` -/
theorem km_complement (k : Nat) (hk2 : 2 ≤ k) (hk : 2 * k ≤ Biogo.Kmer.wordBits) (w : Nat) (hw : w < 4 ^ k) :
    Biogo.Kmer.complementOf k w = encode (revComp (toDigits k w)) := by
  have := Biogo.Properties.C10.complement_spec k hk2 hk (toDigits k w)
    (Biogo.Proofs.KmerWord.toDigits_length k w) (Biogo.Proofs.KmerWord.toDigits_lt k w)
  rw [Biogo.Proofs.KmerWord.encode_toDigits, Nat.mod_eq_of_lt hw] at this
  exact this

-- non-vacuity: "acgtnaacgtt" at k = 4: acgt (27) at 0 and 6, nothing for aaaa (0)
example :
    let lk : Lookup := fun b => if b = 97 then some 0 else if b = 99 then some 1 else if b = 103 then some 2
      else if b = 116 then some 3 else none
    ((byWord (allWindows lk 4 [97, 99, 103, 116, 110, 97, 97, 99, 103, 116, 116])).lookup 27).getD [] = [0, 6] ∧
    ((byWord (allWindows lk 4 [97, 99, 103, 116, 110, 97, 97, 99, 103, 116, 116])).lookup 0).getD [] = [] := by
  intro lk
  rw [byWord_lookup, byWord_lookup]
  decide

end Biogo.Properties.C10_checker
