/-
C13, third wave — "After CleanUp … the sorter's temporary directory no longer exists", when the
caller abandons the sort with `CleanUp` while chunk writers are still in flight.

`Model/MorassAbandon.lean`: the system `sysA` = `sys` plus (1) the caller's final `CleanUp`
(`os.RemoveAll(m.dir)`, made as soon as the caller has returned from its last call — the end of
its program, or the call that returned the error after which it gives up — without waiting for
the `write()` activations), and (2) `ioutil.TempFile` failing in a directory that no longer
exists (the failure is recorded with `setErr`, the activation returns its buffer and ends).
-/
import Biogo.Model.MorassConc
import Biogo.Model.MorassAbandon
import Biogo.Proofs.MorassConc
import Biogo.Proofs.MorassCycle
import Biogo.Proofs.MorassHistory
import Biogo.Proofs.MorassTermination

namespace Biogo.Properties.C13_abandon
open Biogo.Morass Biogo.MorassConc Biogo.Interleave

/-- what a block of `write()` (with `TempFile` failing in a removed directory) does to the part of
    the state the statement is about: the caller's control state is untouched, the directory is
    neither created nor removed, and once it is gone no file appears in it -/
theorem wstepD_dir {s s' : CState} {w w' : Writer} (h : wstepD s w = some (w', s')) :
    s'.prog = s.prog ∧ s'.pc = s.pc ∧ s'.dirExists = s.dirExists ∧ (s.dirExists = false → s'.onDisk = s.onDisk) := by
  unfold wstepD at h
  split at h
  · rename_i hc
    cases hr : s.writable.recv with
    | none => simp [hr] at h
    | some p =>
      obtain ⟨r, ch⟩ := p
      simp only [hr, Option.some.injEq, Prod.mk.injEq] at h
      obtain ⟨_, rfl⟩ := h
      exact ⟨rfl, rfl, rfl, fun _ => rfl⟩
  · rename_i hc
    obtain ⟨_, _, hp⟩ := wstep_wop h
    obtain ⟨_, _, hpc⟩ := wstep_mu h
    refine ⟨hp, hpc, (wstep_dir h).1, ?_⟩
    intro hd
    -- not the block that creates the file: that one is `wstepD`'s own when the directory is gone
    unfold wstep at h
    cases hwpc : w.pc <;> simp only [hwpc] at h
    · exact absurd ⟨hwpc, hd⟩ hc
    · simp only [Option.some.injEq, Prod.mk.injEq] at h; obtain ⟨_, rfl⟩ := h; rfl
    · cases htodo : w.todo with
      | nil => simp only [htodo, Option.some.injEq, Prod.mk.injEq] at h; obtain ⟨_, rfl⟩ := h; rfl
      | cons e t =>
        simp only [htodo] at h
        cases ht : tick s.flt .encode with
        | mk bad flt =>
          simp only [ht] at h
          cases bad <;> simp only [Bool.false_eq_true, if_false, if_true, Option.some.injEq, Prod.mk.injEq] at h <;>
            obtain ⟨_, rfl⟩ := h <;> rfl
    · cases ht : tick s.flt .sync with
      | mk bad flt =>
        simp only [ht, Option.some.injEq, Prod.mk.injEq] at h
        obtain ⟨_, rfl⟩ := h; rfl
    · split at h
      · simp only [Option.some.injEq, Prod.mk.injEq] at h; obtain ⟨_, rfl⟩ := h; rfl
      · simp at h
    · simp at h

/-- the invariant: once the caller has made its `CleanUp` it has returned from every call, the
    directory does not exist and nothing is in it -/
def Abandoned (a : AState) : Prop :=
  a.cleaned = true → finished a.s = true ∧ a.s.dirExists = false ∧ a.s.onDisk = 0

theorem Abandoned_step {a b : AState} {i : Nat} (h : Abandoned a) (hst : stepA a i = some b) : Abandoned b := by
  cases i with
  | zero =>
    simp only [stepA] at hst
    split at hst
    · rename_i hfin
      split at hst
      · simp only [Option.some.injEq] at hst; subst hst
        intro _
        exact ⟨hfin, rfl, rfl⟩
      · cases hst
    · rename_i hnf
      cases hc : cstepD a.s with
      | none => simp [hc] at hst
      | some s' =>
        simp only [hc, Option.map_some, Option.some.injEq] at hst; subst hst
        intro hcl
        exact absurd (h hcl).1 hnf
  | succ k =>
    simp only [stepA] at hst
    cases hk : a.s.writers[k]? with
    | none => simp [hk] at hst
    | some w =>
      simp only [hk] at hst
      cases hw : wstepD a.s w with
      | none => simp [hw] at hst
      | some p =>
        obtain ⟨w', s'⟩ := p
        simp only [hw, Option.some.injEq] at hst; subst hst
        intro hcl
        obtain ⟨hfin, hdir, hdisk⟩ := h hcl
        obtain ⟨e1, e2, e3, e4⟩ := wstepD_dir hw
        refine ⟨?_, ?_, ?_⟩
        · simp only [finished] at hfin ⊢
          show (s'.prog.isEmpty && s'.pc == CPc.idle) = true
          rw [e1, e2]; exact hfin
        · show s'.dirExists = false; rw [e3]; exact hdir
        · show s'.onDisk = 0; rw [e4 hdir]; exact hdisk

/-- **An abandoned sorter leaves nothing behind.**  Either mode, every chunk size, every program
    (in particular: some pushes and no `Finalise`), every list of faults, every schedule: once the
    caller has made its final `CleanUp` — while any number of `write()` activations are anywhere
    in their code, before or after creating their temporary file — the temporary directory does
    not exist and holds no file, in that state and in every later one (so also when every writer
    has ended).  A writer that creates its file before `CleanUp` loses it to `RemoveAll`; one that
    comes after fails in `TempFile` and records the error. -/
theorem abandon_leaves_nothing (conc : Bool) (c : Nat) (ac acl reuse : Bool) (prog : List Op) (flt : Fault)
    {a : AState} (hr : Reach (sysA conc c ac acl prog flt reuse true) a) (hcl : a.cleaned = true) :
    a.s.dirExists = false ∧ a.s.onDisk = 0 := by
  have : Abandoned a :=
    inv_of_reach _ Abandoned (fun h => by simp [sysA] at h) (fun _ _ _ hs hst => Abandoned_step hs hst) a hr
  exact (this hcl).2

/-- `sysA` is `sys` as long as the temporary directory exists: the blocks of the writers and of the
    caller (its final `CleanUp` apart) are those of the system the other theorems are about -/
theorem sysA_agrees_while_dir_exists (a : AState) (hd : a.s.dirExists = true) :
    (∀ k, stepA a (k + 1) = (MorassConc.step a.s (k + 1)).map (fun s' => { a with s := s' }))
    ∧ (finished a.s = false → stepA a 0 = (MorassConc.step a.s 0).map (fun s' => { a with s := s' })) := by
  have hw : ∀ w, wstepD a.s w = wstep a.s w := by
    intro w; unfold wstepD; simp [hd]
  refine ⟨?_, ?_⟩
  · intro k
    simp only [stepA, MorassConc.step]
    cases hk : a.s.writers[k]? with
    | none => rfl
    | some w =>
      simp only [hw]
      cases wstep a.s w with
      | none => rfl
      | some p => rfl
  · intro hnf
    simp only [stepA, hnf, Bool.false_eq_true, if_false, MorassConc.step]
    congr 1
    unfold cstepD
    split
    · rename_i hpc
      simp only [hw, cstep, hpc]
      rfl
    · rfl

/-- chunk 1, concurrent mode, push 2 1 and abandon -/
abbrev exS : Sys AState Nat := sysA true 1 false false [.push ⟨2, 0⟩, .push ⟨1, 0⟩] [] false true

/-- non-vacuity, and the shape of the seeded change C13-m6: chunk 1, concurrent mode, push 2 1 and
    abandon.  The second `Push` hands `[2]` to writer 1; the schedule holds writer 1 before
    `write.recv` (before it creates its temporary file) while the caller finishes the `Push` and
    calls `CleanUp`; then writer 1 runs: its `TempFile` fails in the removed directory, the error is
    recorded, it ends.  One writer was in flight at `CleanUp`; at the end the directory does not
    exist.  (With `os.MkdirAll(m.dir)` before `TempFile` the code re-creates the directory.) -/
example :
    (runFrom exS exS.init [0, 0, 0, 0, 0, 1, 1]).map
        (fun a => a.cleaned && a.inflight == 1 && !a.s.dirExists && a.s.onDisk == 0 && a.s.m.err == some .ioerr
                  && a.s.writers.map (·.pc) == [.done])
      = some true := by
  decide

/-- the other ordering: the writer creates its file first (one run file on disk), `CleanUp` removes
    the directory with it, the writer goes on encoding into the unlinked file and ends -/
example :
    (runFrom exS exS.init [0, 0, 0, 1]).map (fun a => a.s.onDisk) = some 1
    ∧ (runFrom exS exS.init [0, 0, 0, 1, 0, 0, 1, 1, 1, 1]).map
        (fun a => a.cleaned && a.inflight == 1 && !a.s.dirExists && a.s.onDisk == 0 && a.s.m.err == none
                  && a.s.writers.map (·.pc) == [.done])
      = some true := by
  decide

end Biogo.Properties.C13_abandon
