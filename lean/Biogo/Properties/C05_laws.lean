/-
C05 — checker soundness.  The C05 driver answers `fail` exactly when `checkC05` (Drive/C05.lean:
the executable laws of Spec/ContLaws.lean evaluated on the implementation's observations)
returns a complaint.  `c05_verdict_sound` says what the absence of a complaint means in
declarative terms, so the executable laws leave the trusted base.
-/
import Biogo.Drive.C05
import Biogo.Proofs.ContLawsSound

namespace Biogo.Properties.C05_laws
open Biogo.Containers Biogo.Containers.Laws Biogo.Drive.C05

/-- every letter the object shows is one the alphabet pairs (the quantifier of C05) -/
def AllPaired (pairs : UInt8 → Bool) (o : ObjV) : Prop := ∀ r ∈ o.rows, ∀ c ∈ r.cells, pairs c.L = true

theorem allPaired_iff (pairs : UInt8 → Bool) (o : ObjV) : allPaired pairs o = true ↔ AllPaired pairs o := by
  simp only [allPaired, List.all_eq_true, AllPaired]

/-- what one step `before --op--> after` of a C05 history must satisfy, declaratively; `prevOp`
    is the operation of the step before and `prev2` the observation before that step (the
    involution statements speak about an operation applied twice in a row) -/
def StepSpec (hist : History) (op : Op) (prevOp : Option Op) (prev2 : Option (List ObjV)) (before after : Snap) : Prop :=
  after.1 = "ok" ∧
  match op with
  | .revComp k =>
    FrameSpec before.2 after.2 (some k) ∧ after.2.length = before.2.length ∧
    ∃ b a, before.2[k]? = some b ∧ after.2[k]? = some a ∧
      (AllPaired hist.pairs b →
        RevCompSpec hist.cx.comp b a ∧
        (prevOp = some op → ∀ b0, prev2.bind (·[k]?) = some b0 → SameLettersCoords b0 a))
  | .reverse k =>
    FrameSpec before.2 after.2 (some k) ∧ after.2.length = before.2.length ∧
    (prevOp = some op → ∀ b0 a, prev2.bind (·[k]?) = some b0 → after.2[k]? = some a → SameLetters b0 a)
  | .clone k =>
    FrameSpec before.2 after.2 none ∧ after.2.length = before.2.length + 1 ∧
    ∃ b, before.2[k]? = some b ∧ after.2[before.2.length]? = some b
  | .set k r pos c =>
    FrameSpec before.2 after.2 (some k) ∧
    ∃ b a, before.2[k]? = some b ∧ after.2[k]? = some a ∧ SetSpec b a r pos c
  | .rowRevComp k r =>
    FrameSpec before.2 after.2 (some k) ∧
    ∃ b a, before.2[k]? = some b ∧ after.2[k]? = some a ∧
      (AllPaired hist.pairs b →
        RowRevCompSpec hist.cx.comp b a r ∧
        (prevOp = some op → ∀ b0, prev2.bind (·[k]?) = some b0 → SameLettersCoords b0 a))
  | .rowReverse k _ =>
    FrameSpec before.2 after.2 (some k) ∧
    (prevOp = some op → ∀ b0 a, prev2.bind (·[k]?) = some b0 → after.2[k]? = some a → SameLetters b0 a)
  | _ => False

theorem stepLaw_sound (hist : History) (op : Op) (prevOp : Option Op) (prev2 : Option (List ObjV))
    (before after : Snap) (h : stepLaw hist op prevOp prev2 before after = none) :
    StepSpec hist op prevOp prev2 before after := by
  unfold stepLaw at h
  simp only [and_none, check_none, beq_iff_eq] at h
  obtain ⟨hok, h⟩ := h
  refine ⟨hok, ?_⟩
  cases op with
  | revComp k =>
    simp only [and_none, check_none, beq_iff_eq] at h
    obtain ⟨h1, h2, h3⟩ := h
    refine ⟨lawFrame_sound _ _ _ h1, h2, ?_⟩
    cases hb : before.2[k]? with
    | none => rw [hb] at h3; simp at h3
    | some b =>
      cases ha : after.2[k]? with
      | none => rw [hb, ha] at h3; simp at h3
      | some a =>
        rw [hb, ha] at h3
        refine ⟨b, a, rfl, rfl, ?_⟩
        intro hp
        have hp' : allPaired hist.pairs b = true := (allPaired_iff _ _).mpr hp
        dsimp only at h3
        simp only [hp', Bool.not_true, Bool.false_eq_true, if_false, and_none] at h3
        refine ⟨lawRevComp_sound _ _ _ h3.1, ?_⟩
        intro htw b0 hb0
        have h4 := h3.2
        have : (prevOp == some (Op.revComp k)) = true := by rw [htw]; exact beq_self_eq_true _
        rw [this, hb0] at h4
        simp only [check_none] at h4
        exact sameLettersCoords_sound _ _ h4
  | reverse k =>
    simp only [and_none, check_none, beq_iff_eq] at h
    obtain ⟨h1, h2, h3⟩ := h
    refine ⟨lawFrame_sound _ _ _ h1, h2, ?_⟩
    intro htw b0 a hb0 ha
    have : (prevOp == some (Op.reverse k)) = true := by rw [htw]; exact beq_self_eq_true _
    rw [this, hb0, ha] at h3
    simp only [check_none] at h3
    exact sameLetters_sound _ _ h3
  | clone k =>
    simp only [and_none, check_none, beq_iff_eq, Bool.and_eq_true] at h
    obtain ⟨h1, h2, h3, h4⟩ := h
    refine ⟨lawFrame_sound _ _ _ h1, h2, ?_⟩
    cases hb : before.2[k]? with
    | none => rw [hb] at h4; simp at h4
    | some b => exact ⟨b, rfl, by rw [h3, hb]⟩
  | set k r pos c =>
    simp only [and_none] at h
    obtain ⟨h1, h2⟩ := h
    refine ⟨lawFrame_sound _ _ _ h1, ?_⟩
    cases hb : before.2[k]? with
    | none => rw [hb] at h2; simp at h2
    | some b =>
      cases ha : after.2[k]? with
      | none => rw [hb, ha] at h2; simp at h2
      | some a => rw [hb, ha] at h2; exact ⟨b, a, rfl, rfl, lawSet_sound _ _ _ _ _ h2⟩
  | rowRevComp k r =>
    simp only [and_none] at h
    obtain ⟨h1, h3⟩ := h
    refine ⟨lawFrame_sound _ _ _ h1, ?_⟩
    cases hb : before.2[k]? with
    | none => rw [hb] at h3; simp at h3
    | some b =>
      cases ha : after.2[k]? with
      | none => rw [hb, ha] at h3; simp at h3
      | some a =>
        rw [hb, ha] at h3
        refine ⟨b, a, rfl, rfl, ?_⟩
        intro hp
        have hp' : allPaired hist.pairs b = true := (allPaired_iff _ _).mpr hp
        dsimp only at h3
        simp only [hp', Bool.not_true, Bool.false_eq_true, if_false, and_none] at h3
        refine ⟨lawRowRevComp_sound _ _ _ _ h3.1, ?_⟩
        intro htw b0 hb0
        have h4 := h3.2
        have : (prevOp == some (Op.rowRevComp k r)) = true := by rw [htw]; exact beq_self_eq_true _
        rw [this, hb0] at h4
        simp only [check_none] at h4
        exact sameLettersCoords_sound _ _ h4
  | rowReverse k r =>
    simp only [and_none] at h
    obtain ⟨h1, h3⟩ := h
    refine ⟨lawFrame_sound _ _ _ h1, ?_⟩
    intro htw b0 a hb0 ha
    have : (prevOp == some (Op.rowReverse k r)) = true := by rw [htw]; exact beq_self_eq_true _
    rw [this, hb0, ha] at h3
    simp only [check_none] at h3
    exact sameLetters_sound _ _ h3
  | mkbuf _ _ => simp at h
  | mutbuf _ _ _ => simp at h
  | appendCols _ _ => simp at h
  | appendEach _ _ => simp at h
  | add _ _ => simp at h
  | delete _ _ => simp at h
  | flush _ _ _ => simp at h
  | subseq _ _ _ => simp at h
  | truncate _ _ _ => simp at h

/-- the operation of the step before step `t`, and the observation before that step -/
def prevOpAt (prevOp : Option Op) (ops : List Op) (t : Nat) : Option Op := if t = 0 then prevOp else ops[t - 1]?
def prev2At (prev2 : Option (List ObjV)) (snaps : List Snap) (t : Nat) : Option (List ObjV) :=
  if t = 0 then prev2 else (snaps[t - 1]?).map (·.2)

theorem checkSteps_sound (hist : History) : ∀ (ops : List Op) (prevOp : Option Op) (prev2 : Option (List ObjV))
    (snaps : List Snap), checkSteps hist ops prevOp prev2 snaps = none →
    snaps.length = ops.length + 1 ∧
    ∀ (t : Nat) (op : Op) (before after : Snap), ops[t]? = some op → snaps[t]? = some before →
      snaps[t + 1]? = some after →
      StepSpec hist op (prevOpAt prevOp ops t) (prev2At prev2 snaps t) before after := by
  intro ops
  induction ops with
  | nil =>
    intro prevOp prev2 snaps h
    match snaps, h with
    | [_], _ => exact ⟨rfl, fun t op _ _ ht => by simp at ht⟩
    | [], h => simp [checkSteps] at h
    | _ :: _ :: _, h => simp [checkSteps] at h
  | cons op ops ih =>
    intro prevOp prev2 snaps h
    match snaps, h with
    | [], h => simp [checkSteps] at h
    | [_], h => simp [checkSteps] at h
    | before :: after :: rest, h =>
      simp only [checkSteps, and_none] at h
      obtain ⟨h1, h3⟩ := h
      obtain ⟨hl, hrest⟩ := ih (some op) (some before.2) (after :: rest) h3
      refine ⟨by simp only [List.length_cons] at hl ⊢; omega, ?_⟩
      intro t op' b' a' hop hb ha
      cases t with
      | zero =>
        simp only [List.getElem?_cons_zero, Option.some.injEq] at hop hb
        simp only [Nat.zero_add, List.getElem?_cons_succ, List.getElem?_cons_zero, Option.some.injEq] at ha
        subst hop; subst hb; subst ha
        exact stepLaw_sound hist _ _ _ _ _ h1
      | succ t =>
        simp only [List.getElem?_cons_succ] at hop hb ha
        have := hrest t op' b' a' hop hb ha
        have e1 : prevOpAt prevOp (op :: ops) (t + 1) = prevOpAt (some op) ops t := by
          unfold prevOpAt
          cases t with
          | zero => simp
          | succ t => simp
        have e2 : prev2At prev2 (before :: after :: rest) (t + 1) = prev2At (some before.2) (after :: rest) t := by
          unfold prev2At
          cases t with
          | zero => simp
          | succ t => simp
        rw [e1, e2]; exact this

/-- **checker soundness (C05).**  If the driver's check of the implementation's observations
    raises no complaint, then there is one snapshot per operation, every operation reported
    success, and every step satisfies the declarative statement of its operation: `revcomp_spec`
    and `multi_revcomp_mirror` (`RevCompSpec`, `RowRevCompSpec`), the involutions when an
    operation is applied twice in a row, the effect of `Set`, `Clone` observed equal to the
    original, and — for every operation — `clone_deep` as a frame statement (`FrameSpec`: every
    other object is observed exactly as before). -/
theorem c05_verdict_sound (hist : History) (impl : List Snap) (h : checkC05 hist impl = none) :
    impl.length = hist.ops.length + 1 ∧
    ∀ (t : Nat) (op : Op) (before after : Snap), hist.ops[t]? = some op → impl[t]? = some before →
      impl[t + 1]? = some after →
      StepSpec hist op (prevOpAt none hist.ops t) (prev2At none impl t) before after :=
  checkSteps_sound hist hist.ops none none impl h

/-- **the verdict**: `ok` or `diff` for a case line means the input and the observation parsed
    and `checkC05` raised no complaint about the implementation's observations -/
theorem verdict_means_checked (inp obs : String)
    (h : (handleLine inp obs).status = "ok" ∨ (handleLine inp obs).status = "diff") :
    ∃ hist impl, parseHistory Biogo.Generated.builtins (Biogo.Wire.tokens inp) = some hist ∧
      parseSnapshots obs = some impl ∧ checkC05 hist impl = none := by
  unfold handleLine at h
  split at h
  · simp [Biogo.Wire.bad] at h
  · rename_i hist hh
    dsimp only at h
    split at h
    · simp at h
    · split at h
      · simp [Biogo.Wire.fail] at h
      · split at h
        · simp [Biogo.Wire.bad] at h
        · rename_i impl hi
          split at h
          · simp [Biogo.Wire.fail] at h
          · rename_i hc
            exact ⟨hist, impl, hh, hi, hc⟩

end Biogo.Properties.C05_laws
