/-
C04 (part bufio) — placeholder while the proofs are written.
-/
import Biogo.Go.Bufio
import Biogo.Spec.Bufio

namespace Biogo.Properties.C04_bufio
open Biogo.Go.Bufio

/-- a 16-byte buffer, a 17-byte CRLF line: the CR is put back and the line comes in two fragments -/
theorem example_cr_boundary :
    (readLine (newReaderSize { rest := List.replicate 15 120 ++ [13, 10, 121] } 16)).1 = ⟨List.replicate 15 120, true, none⟩ := by
  decide

end Biogo.Properties.C04_bufio
