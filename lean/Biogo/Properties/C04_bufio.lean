/-
C04 (part bufio) — "physical lines far longer than any internal buffer": the line-level views
the four reader models consume are the image of a byte-level model of `bufio.Reader`.
Property theorems only.

`Biogo.Go.Bufio` transcribes `fill`, `ReadSlice`, `ReadLine`, `collectFragments`/`ReadBytes` of
Go's bufio.go over a buffer of `size` bytes and an underlying `io.Reader` (`Src`) that delivers a
fixed byte string in chunks chosen by an arbitrary policy `pol` (short reads), and reports its
final error `fin` (`io.EOF` for a file) together with the last bytes (`withData`) or after them.
`b.stream` is what has not yet been handed to the caller: the buffered bytes, then the bytes
still in the underlying reader.

`Inv b` is what holds of a reader between two calls (in particular of a new one, `inv_new`):
the buffer has at least two bytes (`bufio` makes it at least 16), `r + len(data) ≤ size`, the
underlying reader makes progress (never an empty read with a nil error — the `io.Reader`
contract) and its final error is not `ErrBufferFull`, a pending error means the source is
exhausted.  Every theorem holds for every such reader: **every buffer size, every line length,
every chunking of the underlying reads, either timing of the final error.**
-/
import Biogo.Proofs.BufioImage

namespace Biogo.Properties.C04_bufio
open Biogo.Go.Bufio
open Biogo.Spec.Bufio (sliceOf lineOf lineInput endsPendingAux readBytesCalls)

/-- a reader as `bufio.NewReaderSize(rd, size)` makes it satisfies the invariant -/
theorem inv_new (src : Src) (size : Nat) (hp : Progressing src.pol) (hf : src.fin ≠ .bufferFull) :
    Inv (newReaderSize src size) := inv_newReaderSize src size hp hf

/-- **`ReadSlice` depends on the undelivered stream only** — not on how it is split between the
    buffer and the underlying reader, nor on the chunking: it returns `sliceOf` of the stream
    (up to and including the first delimiter within `size` bytes; else the whole rest with the
    final error if that is shorter than the buffer, or fills it exactly and the error came with
    the data; else the next `size` bytes with `ErrBufferFull`), leaves the rest as the stream,
    and re-establishes the invariant. -/
theorem readSlice_of_stream (delim : UInt8) (b : Reader) (h : Inv b) :
    (readSlice delim b).1 = (sliceOf b.size delim b.src.fin b.src.withData b.stream).1 ∧
    (readSlice delim b).2.1 = (sliceOf b.size delim b.src.fin b.src.withData b.stream).2.1 ∧
    (readSlice delim b).2.2.stream = (sliceOf b.size delim b.src.fin b.src.withData b.stream).2.2 ∧
    Inv (readSlice delim b).2.2 ∧ SameCfg b (readSlice delim b).2.2 :=
  let r := readSlice_spec delim b h
  ⟨r.line_eq, r.err_eq, r.stream_eq, r.inv, r.cfg⟩

/-- **`ReadLine` depends on the undelivered stream only**: it returns `lineOf` of the stream
    (`isPrefix` fragmentation, CR stripped only directly before the LF of a complete line, a CR
    that is the last byte of a full buffer put back for the next call). -/
theorem readLine_of_stream (b : Reader) (h : Inv b) :
    (readLine b).1 = (lineOf b.size b.src.fin b.src.withData b.stream).1 ∧
    (readLine b).2.stream = (lineOf b.size b.src.fin b.src.withData b.stream).2 ∧
    Inv (readLine b).2 ∧ SameCfg b (readLine b).2 :=
  let r := readLine_spec b h
  ⟨r.line_eq, r.stream_eq, r.inv, r.cfg⟩

/-- **chunking does not matter**: two readers with the same buffer size over the same remaining
    bytes, whatever their underlying readers' policies and however much each has buffered,
    return the same from `ReadLine` and are again such a pair. -/
theorem readLine_chunking_independent (b₁ b₂ : Reader) (h₁ : Inv b₁) (h₂ : Inv b₂) (hs : b₁.size = b₂.size)
    (hf : b₁.src.fin = b₂.src.fin) (hw : b₁.src.withData = b₂.src.withData) (hst : b₁.stream = b₂.stream) :
    (readLine b₁).1 = (readLine b₂).1 ∧ (readLine b₁).2.stream = (readLine b₂).2.stream := by
  have r₁ := readLine_spec b₁ h₁
  have r₂ := readLine_spec b₂ h₂
  rw [hs, hf, hw, hst] at r₁
  exact ⟨r₁.line_eq.trans r₂.line_eq.symm, r₁.stream_eq.trans r₂.stream_eq.symm⟩

/-- **The fragments of one terminated physical line join to the line.**  The loop
    `for { buff, isPrefix, err = ReadLine(); line = append(line, buff...); if isPrefix { continue }; … }`
    of `fasta.Reader.Read` / `fastq.Reader.Read`, started where a line `l` (no LF inside, any
    length) followed by LF begins, ends with `line` = `l` without one CR directly before the
    LF, no error, and the stream positioned after the LF. -/
theorem readLine_fragments_join (l post : Bytes) (hl : (10 : UInt8) ∉ l) (b : Reader) (h : Inv b)
    (hst : b.stream = l ++ 10 :: post) :
    ∃ b', nextLine b = (chompCR l, none, b') ∧ b'.stream = post ∧ Inv b' ∧ SameCfg b b' := by
  obtain ⟨b', h1, h2, h3, h4⟩ := collectLine_terminated _ l rfl hl b [] post (b.stream.length + 1) h hst
    (by rw [hst]; simp only [List.length_append, List.length_cons]; omega)
  exact ⟨b', by simpa [nextLine] using h1, h2, h3, h4⟩

/-- **… and so do those of an unterminated last line**, byte for byte (a final CR is kept).
    The loop ends with the complete line, or with the final error while the fragments are
    pending: exactly when nothing is left, or the error comes after the data and the line ends
    on a buffer boundary (`endsPendingAux`: a multiple of `size`, up to the CR adjustment). -/
theorem readLine_fragments_last (l : Bytes) (hl : (10 : UInt8) ∉ l) (b : Reader) (h : Inv b) (hst : b.stream = l) :
    ∃ b', nextLine b =
        (l, (if l = [] ∨ (b.src.withData = false ∧ endsPendingAux b.size (l.length + 1) l = true)
              then some b.src.fin else none), b') ∧
      b'.stream = [] ∧ Inv b' ∧ SameCfg b b' := by
  obtain ⟨b', h1, h2, h3, h4⟩ := collectLine_last _ l rfl hl b [] (b.stream.length + 1) (l.length + 1) h hst
    (by rw [hst]; omega) (by omega)
  exact ⟨b', by simpa [nextLine] using h1, h2, h3, h4⟩

/-- **`ReadBytes('\n')` returns exactly the line with its terminator**, whatever its length … -/
theorem readBytes_line (l post : Bytes) (hl : (10 : UInt8) ∉ l) (b : Reader) (h : Inv b)
    (hst : b.stream = l ++ 10 :: post) :
    ∃ b', readBytes 10 b = (l ++ [10], none, b') ∧ b'.stream = post ∧ Inv b' ∧ SameCfg b b' :=
  readBytes_terminated l post hl b h hst

/-- **… or the unterminated rest together with the final error** (`io.EOF`). -/
theorem readBytes_rest (l : Bytes) (hl : (10 : UInt8) ∉ l) (b : Reader) (h : Inv b) (hst : b.stream = l) :
    ∃ b', readBytes 10 b = (l, some b.src.fin, b') ∧ b'.stream = [] ∧ Inv b' ∧ SameCfg b b' :=
  readBytes_last l hl b h hst

/-- **The line-level view of the FASTA/FASTQ models is the image of the byte-level model.**
    A `ReadLine` loop over `bufio.NewReaderSize(rd, size)`, `rd` delivering `bs` in any chunks:
    the lines it collects, the fragments pending when the final error arrives, and that error
    are `lineInput (max size 16) withData bs` … -/
theorem readLine_loop_image (bs : Bytes) (pol : Nat → Nat → Nat) (wd : Bool) (fin : Err) (size : Nat)
    (hp : Progressing pol) (hf : fin ≠ .bufferFull) :
    allLines (newReaderSize { rest := bs, pol := pol, withData := wd, fin := fin } size) =
      ((lineInput (max size 16) wd bs).1, (lineInput (max size 16) wd bs).2, some fin) := by
  have := allLines_image _ (inv_newReaderSize { rest := bs, pol := pol, withData := wd, fin := fin } size hp hf)
  simpa [newReaderSize, Reader.stream, minReadBufferSize] using this

/-- … which for `bufio.NewReader(rd)` (4096 bytes) is `Biogo.Go.Bytes.readLineInput`, the input of
    `Biogo.Fastq.readAll`; the `eofWithData` parameter of the FASTQ model is `withData`. -/
theorem readLine_loop_image_default (bs : Bytes) (pol : Nat → Nat → Nat) (wd : Bool) (hp : Progressing pol) :
    allLines (newReader { rest := bs, pol := pol, withData := wd }) =
      ((Biogo.Go.Bytes.readLineInput wd bs).1, (Biogo.Go.Bytes.readLineInput wd bs).2, some .eof) := by
  have := readLine_loop_image bs pol wd .eof defaultBufSize hp (by decide)
  rw [show max defaultBufSize 16 = 4096 from rfl, lineInput_default] at this
  exact this

/-- the FASTA reader (after fix `02b768f`) processes fragments pending at `io.EOF` as a line:
    what it sees is `Biogo.Go.Bytes.splitLines`, the input of `Biogo.Fasta.readAll` -/
theorem readLine_loop_image_fasta (bs : Bytes) (pol : Nat → Nat → Nat) (wd : Bool) (hp : Progressing pol) :
    let r := allLines (newReader { rest := bs, pol := pol, withData := wd })
    r.1 ++ (if r.2.1 = [] then [] else [r.2.1]) = Biogo.Go.Bytes.splitLines bs := by
  simp only [readLine_loop_image_default bs pol wd hp, ← lineInput_default]
  exact lineInput_all_lines 4096 (by decide) wd bs

/-- **The line-level view of the BED/GFF models is the image of the byte-level model.**  A
    `ReadBytes('\n')` loop returns every element of `Biogo.BytesFeat.lines bs`, with the final
    error exactly on an unterminated last line, or with no data after the end … -/
theorem readBytes_loop_image (bs : Bytes) (pol : Nat → Nat → Nat) (wd : Bool) (fin : Err) (size : Nat)
    (hp : Progressing pol) (hf : fin ≠ .bufferFull) :
    allReadBytes (newReaderSize { rest := bs, pol := pol, withData := wd, fin := fin } size) = readBytesCalls fin bs := by
  have := allReadBytes_image _ (inv_newReaderSize { rest := bs, pol := pol, withData := wd, fin := fin } size hp hf)
  simpa [newReaderSize, Reader.stream] using this

/-- … so the data of the calls `bed.Reader.Read` / `gff.Reader.Read` / `metaSeq` go on to process
    (`err == nil`, or `io.EOF` with `len(line) > 0` — fix F4) are `lines bs`, the input of
    `Biogo.Bed.readAll` and `Biogo.Gff.readAll`. -/
theorem readBytes_loop_image_processed (bs : Bytes) (pol : Nat → Nat → Nat) (wd : Bool) (size : Nat)
    (hp : Progressing pol) :
    ((allReadBytes (newReaderSize { rest := bs, pol := pol, withData := wd } size)).filter
        (fun c => c.2.isNone || !c.1.isEmpty)).map (·.1) = Biogo.BytesFeat.lines bs := by
  rw [readBytes_loop_image bs pol wd .eof size hp (by decide)]
  exact readBytesCalls_processed .eof _ bs rfl

/-- **None of bufio's "should be unreachable" panics is reached**, and no loop of the model
    stops for lack of fuel (those branches set `panicked`). -/
theorem never_panics (b : Reader) (h : Inv b) (delim : UInt8) :
    (readSlice delim b).2.2.panicked = false ∧ (readLine b).2.panicked = false ∧
    (readBytes 10 b).2.2.panicked = false ∧ (nextLine b).2.2.panicked = false := by
  refine ⟨(readSlice_spec delim b h).inv.noPanic, (readLine_spec b h).inv.noPanic, ?_, ?_⟩
  · rcases first_lf b.stream with hno | ⟨l, post, hbs, hl⟩
    · obtain ⟨b', h1, _, h3, _⟩ := readBytes_last _ hno b h rfl
      rw [h1]; exact h3.noPanic
    · obtain ⟨b', h1, _, h3, _⟩ := readBytes_terminated l post hl b h hbs
      rw [h1]; exact h3.noPanic
  · rcases first_lf b.stream with hno | ⟨l, post, hbs, hl⟩
    · obtain ⟨b', h1, _, h3, _⟩ := readLine_fragments_last _ hno b h rfl
      rw [h1]; exact h3.noPanic
    · obtain ⟨b', h1, _, h3, _⟩ := readLine_fragments_join l post hl b h hbs
      rw [h1]; exact h3.noPanic

/-! ### non-vacuity: a 16-byte buffer (the smallest `bufio` makes) -/

/-- one byte per read, a 17-byte CRLF line `x…x\r\n` (the CR is the 16th byte) then `y`: the CR
    is put back, the line arrives as a 15-byte `isPrefix` fragment and an empty final one -/
example :
    let b := newReaderSize { rest := List.replicate 15 120 ++ [13, 10, 121], pol := fun _ _ => 1 } 16
    (readLine b).1 = ⟨List.replicate 15 120, true, none⟩ ∧
    (readLine (readLine b).2).1 = ⟨[], false, none⟩ ∧
    (readLine (readLine (readLine b).2).2).1 = ⟨[121], false, none⟩ ∧
    (readLine (readLine (readLine (readLine b).2).2).2).1 = ⟨[], false, some .eof⟩ := by decide

/-- an unterminated 16-byte last line: fragments pending at `io.EOF` when the error comes after
    the data, a complete line when it comes with them -/
example : allLines (newReaderSize { rest := List.replicate 16 120 } 16) = ([], List.replicate 16 120, some .eof) ∧
    allLines (newReaderSize { rest := List.replicate 16 120, withData := true } 16) = ([List.replicate 16 120], [], some .eof) := by
  decide

example : Progressing (fun _ _ => 1) := fun _ _ _ => Nat.le_refl 1

/-- `ReadBytes` over a 40-byte line with a 16-byte buffer and half reads -/
example : (readBytes 10 (newReaderSize { rest := List.replicate 40 120 ++ [10, 121], pol := fun _ n => (n + 1) / 2 } 16)).1
    = List.replicate 40 120 ++ [10] := by decide

end Biogo.Properties.C04_bufio
