/-
C02 — what the driver demands of a BED / GFF round trip (`Drive.C02.wantBed`, `wantGff`,
`wantRegion`, `wantSeq`, `wantCoords`) is exactly the conclusion of `bed_narrow_read` /
`bed_roundtrip`, `gff_roundtrip`, `region_roundtrip`, `inline_seq_roundtrip`,
`gff_text_is_one_based`, rendered in the harness's notation.
-/
import Biogo.Drive.C02
import Biogo.Properties.C02

namespace Biogo.Properties.C02_checker
open Biogo.Drive.C02 Biogo.Drive.FeatCommon Biogo.FeatIO Biogo.BytesFeat
open Biogo.Gff (FloatLaw gffWF_unpack readAll_feature norm_parsed)

theorem intercalate_two (a b : String) : " ".intercalate [a, b] = a ++ " " ++ b := rfl

/-- **BED**: the demanded history is the rendering of `[.record (firstCols r b), .eof]`, the
    right-hand side of `bed_narrow_read` (and of `bed_roundtrip` for `r = b.width`) -/
theorem wantBed_is_roundtrip (r : Nat) (b : Bed.Rec) :
    wantBed r b = bedCalls [.record (Bed.firstCols r b), .eof] := by
  unfold wantBed bedCalls
  simp only [List.map_cons, List.map_nil, bedCall, intercalate_two]
  rw [String.append_assoc, String.append_assoc]
  rfl

/-- well-formedness of the first `n` columns includes that of the first `w ≤ n` -/
theorem bedWF_mono (n w : Nat) (b : Bed.Rec) (hwn : w ≤ n) (h : bedWF n b = true) : bedWF w b = true := by
  unfold bedWF at h ⊢
  simp only [Bool.and_eq_true, Bool.or_eq_true, decide_eq_true_eq] at h ⊢
  obtain ⟨⟨⟨⟨h1, h2⟩, h3⟩, h4⟩, h5⟩ := h
  refine ⟨⟨⟨⟨h1, ?_⟩, ?_⟩, ?_⟩, ?_⟩
  · rcases h2 with h | h
    · exact Or.inl (by omega)
    · exact Or.inr h
  · rcases h3 with h | h
    · exact Or.inl (by omega)
    · exact Or.inr h
  · rcases h4 with h | h
    · exact Or.inl (by omega)
    · exact Or.inr h
  · rcases h5 with h | h
    · exact Or.inl (by omega)
    · exact Or.inr h

/-- … hence, by `bed_narrow_read`: within the driver's scope (`bedWF n b`, `r ≤ w ≤ n`; the column
    counts the harness uses are valid ones) the demanded history is the rendering of the model's
    read-back at `r` columns of the model's output at `w` columns, and the count the model's writer
    reports is the number of bytes it emitted -/
theorem wantBed_is_model (b : Bed.Rec) (n w r : Nat) (hw : Bed.validWidth w = true) (hr : Bed.validWidth r = true)
    (hrw : r ≤ w) (hwn : w ≤ n) (hnb : n ≤ b.width) (hwf : bedWF n b = true) :
    ∃ text c, Bed.write w b = .ok (text, c) ∧ c = text.length ∧
      wantBed r b = bedCalls (Bed.readAll r text) := by
  obtain ⟨text, c, h1, h2⟩ := Biogo.Properties.C02.bed_narrow_read b w r hw hr hrw (by omega)
    (bedWF_mono n w b hwn hwf)
  exact ⟨text, c, h1, Biogo.Properties.C02.bed_write_count b w text c h1, by rw [h2, wantBed_is_roundtrip]⟩

/-- the rendering of a feature does not see the nil / empty attribute list distinction -/
theorem gffFeature_norm (f g : Gff.Feature) (h : norm g = norm f) : gffFeature g = gffFeature f := by
  have h' := h
  unfold norm normAttrs at h'
  simp only [Gff.Feature.mk.injEq, Option.some.injEq] at h'
  obtain ⟨e1, e2, e3, e4, e5, e6, e7, e8, e9, e10⟩ := h'
  unfold gffFeature attrsStr Gff.Feature.len
  rw [e1, e2, e3, e4, e5, e6, e7, e8, e9, e10]

theorem metaStr_eq (hdr : Bool) : metaStr hdr = gffMeta { version := if hdr then 2 else 0 } := by
  cases hdr <;> decide

/-- **GFF features**: for a well-formed feature (and the float law on its score) the demanded
    string is the rendering of what the model's reader returns on what the model's writer wrote —
    one feature equal to the original up to nil/empty attributes, then `io.EOF`, with the metadata
    of the conclusion of `gff_roundtrip` (version 2 with the header line, 0 without; the other
    metadata fields at their defaults) -/
theorem wantGff_is_roundtrip (o : Gff.Oracles) (f : Gff.Feature) (hdr : Bool) (hwf : gffWF f = true)
    (hfl : FloatLaw o f.score) :
    ∃ text n, Gff.writeFeature o f = .ok (text, n) ∧ n = text.length ∧
      wantGff hdr f = gffCalls (Gff.readAll o ((if hdr then Gff.headerText else []) ++ text)) := by
  obtain ⟨text, n, h1, h2, _⟩ := Biogo.Properties.C02.gff_roundtrip o f hdr hwf hfl
  refine ⟨text, n, h1, h2, ?_⟩
  have ht : text = Gff.featureText o f ++ [10] := by
    obtain ⟨_, _, _, _, _, hlt, _⟩ := gffWF_unpack hwf
    simp [Gff.writeFeature, Int.not_le.mpr hlt] at h1
    exact h1.1.symm
  rw [ht, readAll_feature o f hdr hwf hfl]
  unfold wantGff gffCalls
  simp only [List.map_cons, List.map_nil, gffCall, gffItem, intercalate_two]
  rw [gffFeature_norm f _ (norm_parsed f), metaStr_eq]
  simp only [String.append_assoc]
  rfl

/-- **1-based inclusive text**: the two columns the driver demands are the two columns
    `gff_text_is_one_based` states for a non-negative start -/
theorem wantCoords_is_one_based (f : Gff.Feature) (hs : 0 ≤ f.start) :
    wantCoords f = (formatInt (f.start + 1), formatInt f.stop) := by
  unfold wantCoords
  rw [if_pos hs]

/-- **sequence-region lines**: the record part of the demanded string is the rendering of the
    right-hand side of `region_roundtrip`; the metadata part demands, beyond that theorem, that the
    reader's metadata is untouched (version from the header only) -/
theorem wantRegion_is_roundtrip (hdr : Bool) (name : Bytes) (s e : Int) :
    wantRegion hdr name s e =
      " ".intercalate (([.item (.region name (-1) s e), .eof] : List Gff.Call).map gffCall) ++ " " ++
        gffMeta { version := if hdr then 2 else 0 } := by
  unfold wantRegion
  simp only [List.map_cons, List.map_nil, gffCall, intercalate_two]
  rw [metaStr_eq]
  simp only [String.append_assoc]
  rfl

/-- **inline sequences**: likewise for `inline_seq_roundtrip` -/
theorem wantSeq_is_roundtrip (hdr : Bool) (id : Bytes) (mol : Nat) (letters : Bytes) :
    wantSeq hdr id mol letters =
      " ".intercalate (([.item (.sequence id mol letters), .eof] : List Gff.Call).map gffCall) ++ " " ++
        gffMeta { version := if hdr then 2 else 0 } := by
  unfold wantSeq
  simp only [List.map_cons, List.map_nil, gffCall, intercalate_two]
  rw [metaStr_eq]
  simp only [String.append_assoc]
  rfl

/-! ### files of several records (ops `bedf`, `gfff`; fourth wave)
The harness keeps every record the reader returned and renders them after `io.EOF`; the demand is
the per-record demand mapped over the records.  (That the reader model returns exactly these calls
on the concatenated text is run by the driver on every case — `Bed.readAll` / `Gff.readAll` on the
whole text — and proved for one record: `wantBed_is_model`, `wantGff_is_roundtrip`; the induction
over the records is not done.) -/

theorem intercalate_three (a b c : String) : " ".intercalate [a, b, c] = a ++ " " ++ b ++ " " ++ c := rfl

/-- for a file of one record the demand is the single-record demand `wantBed` -/
theorem wantBedFile_single (r : Nat) (b : Bed.Rec) : wantBedFile r [b] = wantBed r b := by
  unfold wantBedFile wantBed
  simp only [List.map_cons, List.map_nil, List.cons_append, List.nil_append, intercalate_two, String.append_assoc]
  rfl

/-- for a file of one feature the demand is the single-feature demand `wantGff` -/
theorem wantGffFile_single (hdr : Bool) (f : Gff.Feature) : wantGffFile hdr [f] = wantGff hdr f := by
  unfold wantGffFile wantGff
  simp only [List.map_cons, List.map_nil, List.cons_append, List.nil_append, intercalate_three, String.append_assoc]
  rfl

/-- **files of several BED records** (op `bedf`): the demanded history is the rendering of "every
    record, as its first `r` columns (`bed_narrow_read` per record), in order, then `io.EOF`" -/
theorem wantBedFile_is_records_then_eof (r : Nat) (bs : List Bed.Rec) :
    wantBedFile r bs = bedCalls (bs.map (fun b => Bed.Call.record (Bed.firstCols r b)) ++ [.eof]) := by
  unfold wantBedFile bedCalls
  congr 1
  simp only [List.map_append, List.map_map, List.map_cons, List.map_nil]
  rfl

/-- **files of several GFF features** (op `gfff`): every feature in order, then `io.EOF`, then the
    reader's metadata -/
theorem wantGffFile_is_features_then_eof (hdr : Bool) (fs : List Gff.Feature) :
    wantGffFile hdr fs =
      " ".intercalate ((fs.map (fun f => Gff.Call.item (.feature f)) ++ [Gff.Call.eof]).map gffCall ++ [metaStr hdr]) := by
  unfold wantGffFile
  congr 1
  simp only [List.map_append, List.map_map, List.map_cons, List.map_nil, List.append_assoc, List.cons_append, List.nil_append]
  rfl

end Biogo.Properties.C02_checker
