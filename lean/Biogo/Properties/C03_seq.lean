/-
C03 (part seq) — the FASTA and FASTQ readers are total.  Property theorems only.

`readAll cfg bs` is the history of the calls of `Read` on a fresh reader over the bytes `bs`,
made with a budget of (number of input lines + 1) calls: `.ret ⟨s, e⟩` for a call that
returned the pair `(s, e)`, `.panic p` for a call that panicked (every slice expression and
nil dereference of the code is explicit in the model), `.unfinished` if the budget ran out
before `io.EOF`.  Termination of every single call is by structural recursion on the
remaining lines (accepted by Lean's termination checker).
-/
import Biogo.Proofs.Fasta

namespace Biogo.Properties.C03_seq
open Biogo.Go.Bytes

section fasta
open Biogo.Fasta

/-- **never panics** (FASTA): for every byte string, no call of `Read` panics. -/
theorem fasta_never_panics (bs : Bytes) : ∀ p, Call.panic p ∉ readAll {} bs := by
  have := readAllAux_total ((splitLines bs).length + 1) {} (splitLines bs) (by simp [Fasta.measure])
  exact this.1

/-- **progress** (FASTA): the call sequence reaches `io.EOF` within one call per input line
    plus one — the budget is never exhausted, the history has at most `lineCount bs + 1`
    entries and its last entry is a call that returned `io.EOF`. -/
theorem fasta_progress (bs : Bytes) :
    Call.unfinished ∉ readAll {} bs ∧ (readAll {} bs).length ≤ lineCount bs + 1 ∧
    ∃ r, (readAll {} bs).getLast? = some (Call.ret r) ∧ r.e = some .eof := by
  have := readAllAux_total ((splitLines bs).length + 1) {} (splitLines bs) (by simp [Fasta.measure])
  refine ⟨this.2.1, ?_, this.2.2.2.1⟩
  have h := this.2.2.1
  simpa [Fasta.measure, lineCount, readAll] using h

/-- **never neither** (FASTA): every call returns a non-nil sequence or a non-nil error. -/
theorem fasta_record_or_error (bs : Bytes) :
    ∀ r, Call.ret r ∈ readAll {} bs → r.s.isSome ∨ r.e.isSome := by
  have := readAllAux_total ((splitLines bs).length + 1) {} (splitLines bs) (by simp [Fasta.measure])
  exact this.2.2.2.2

/-- **rejects data before a header** (FASTA): if the first non-blank line does not start with
    `>`, the first call returns the error "badly formed line" and no sequence. -/
theorem fasta_rejects_data_before_header (blanks : List Bytes) (raw : Bytes) (rest : List Bytes)
    (hb : ∀ l ∈ blanks, trimSpace l = []) (hne : trimSpace raw ≠ [])
    (hp : hasPrefix (trimSpace raw) [62] = false) :
    read {} {} (blanks ++ raw :: rest) = .ok (⟨none, some (.badLine (trimSpace raw))⟩, {}, rest) := by
  induction blanks with
  | nil =>
    have h0 : ((trimSpace raw).length == 0) = false := by
      cases h : trimSpace raw with
      | nil => exact absurd h hne
      | cons a t => simp
    simp only [List.nil_append]
    unfold Fasta.read
    simp only [h0, hp]
    simp [hasPrefix, deferred, pure, Except.pure]
  | cons b bs ih =>
    rw [List.cons_append, read_blank _ b _ (hb b (by simp))]
    exact ih (fun l hl => hb l (by simp [hl]))

-- non-vacuity of `fasta_rejects_data_before_header`, and a run on bytes that are no FASTA file
example : readAll {} [32, 10, 97, 99, 13, 10, 62, 120] =
    [.ret ⟨none, some (.badLine [97, 99])⟩, .ret ⟨some ⟨[120], [], []⟩, none⟩, .ret ⟨none, some .eof⟩] := by
  decide

end fasta

end Biogo.Properties.C03_seq
