/-
C03 (part seq) — the FASTA and FASTQ readers are total.  Property theorems only.

`readAll cfg bs` is the history of the calls of `Read` on a fresh reader over the bytes `bs`,
made with a budget of (number of input lines + 1) calls: `.ret ⟨s, e⟩` for a call that
returned the pair `(s, e)`, `.panic p` for a call that panicked (every slice expression and
nil dereference of the code is explicit in the model), `.unfinished` if the budget ran out
before `io.EOF`.  Termination of every single call is by structural recursion on the
remaining lines (accepted by Lean's termination checker).
-/
import Biogo.Proofs.Fasta
import Biogo.Proofs.Fastq
import Biogo.Generated.Seqio

namespace Biogo.Properties.C03_seq
open Biogo.Go.Bytes


section fasta
open Biogo.Fasta

/-- **never panics** (FASTA): for every byte string, no call of `Read` panics. -/
theorem fasta_never_panics (bs : Bytes) : ∀ p, Call.panic p ∉ readAll {} bs := by
  have := readAllAux_total ((splitLines bs).length + 1) {} (splitLines bs) (by simp [Fasta.measure])
  exact this.1

/-- **progress** (FASTA): the call sequence reaches `io.EOF` within one call per input line
    plus one — the budget is never exhausted, the history has at most `lineCount bs + 1`
    entries and its last entry is a call that returned `io.EOF`. -/
theorem fasta_progress (bs : Bytes) :
    Call.unfinished ∉ readAll {} bs ∧ (readAll {} bs).length ≤ lineCount bs + 1 ∧
    ∃ r, (readAll {} bs).getLast? = some (Call.ret r) ∧ r.e = some .eof := by
  have := readAllAux_total ((splitLines bs).length + 1) {} (splitLines bs) (by simp [Fasta.measure])
  refine ⟨this.2.1, ?_, this.2.2.2.1⟩
  have h := this.2.2.1
  simpa [Fasta.measure, lineCount, readAll] using h

/-- **never neither** (FASTA): every call returns a non-nil sequence or a non-nil error. -/
theorem fasta_record_or_error (bs : Bytes) :
    ∀ r, Call.ret r ∈ readAll {} bs → r.s.isSome ∨ r.e.isSome := by
  have := readAllAux_total ((splitLines bs).length + 1) {} (splitLines bs) (by simp [Fasta.measure])
  exact this.2.2.2.2

/-- **never panics, every user-set `IDPrefix` / `SeqPrefix`** (FASTA; the exported fields of the
    reader — e.g. the `##DNA ` / `##` that `gff.Writer` writes): for every byte string and every
    pair of prefixes no call panics, the budget is never exhausted, the history has at most
    `lineCount bs + 1` entries, ends with `io.EOF`, and every call returns a sequence or an error.
    Before fix `501e905` an `IDPrefix` containing a blank made every header line panic. -/
theorem fasta_total_any_prefixes (cfg : Cfg) (bs : Bytes) :
    (∀ p, Call.panic p ∉ readAll cfg bs) ∧ Call.unfinished ∉ readAll cfg bs ∧
    (readAll cfg bs).length ≤ lineCount bs + 1 ∧
    (∃ r, (readAll cfg bs).getLast? = some (Call.ret r) ∧ r.e = some .eof) ∧
    (∀ r, Call.ret r ∈ readAll cfg bs → r.s.isSome ∨ r.e.isSome) := by
  have := readAllAux_total_cfg cfg ((splitLines bs).length + 1) {} (splitLines bs) (by simp [Fasta.measure])
  refine ⟨this.1, this.2.1, ?_, this.2.2.2.1, this.2.2.2.2⟩
  have h := this.2.2.1
  simpa [Fasta.measure, lineCount, readAll] using h

-- the witness of the defect: `IDPrefix = "##DNA "`, input `##DNA x / ##acgt` is read as the record
example : readAll { idPrefix := [35, 35, 68, 78, 65, 32], seqPrefix := [35, 35] }
    [35, 35, 68, 78, 65, 32, 120, 10, 35, 35, 97, 99, 103, 116, 10]
    = [.ret ⟨some ⟨[120], [], [97, 99, 103, 116]⟩, none⟩, .ret ⟨none, some .eof⟩] := by decide

/-- **rejects data before a header** (FASTA): if the first non-blank line does not start with
    `>`, the first call returns the error "badly formed line" and no sequence. -/
theorem fasta_rejects_data_before_header (blanks : List Bytes) (raw : Bytes) (rest : List Bytes)
    (hb : ∀ l ∈ blanks, trimSpace l = []) (hne : trimSpace raw ≠ [])
    (hp : hasPrefix (trimSpace raw) [62] = false) :
    read {} {} (blanks ++ raw :: rest) = .ok (⟨none, some (.badLine (trimSpace raw))⟩, {}, rest) := by
  induction blanks with
  | nil =>
    have h0 : ((trimSpace raw).length == 0) = false := by
      cases h : trimSpace raw with
      | nil => exact absurd h hne
      | cons a t => simp
    simp only [List.nil_append]
    unfold Fasta.read
    simp only [h0, hp]
    simp [hasPrefix, deferred, pure, Except.pure]
  | cons b bs ih =>
    rw [List.cons_append, read_blank _ b _ (hb b (by simp))]
    exact ih (fun l hl => hb l (by simp [hl]))

-- non-vacuity of `fasta_rejects_data_before_header`, and a run on bytes that are no FASTA file
example : readAll {} [32, 10, 97, 99, 13, 10, 62, 120] =
    [.ret ⟨none, some (.badLine [97, 99])⟩, .ret ⟨some ⟨[120], [], []⟩, none⟩, .ret ⟨none, some .eof⟩] := by
  decide

end fasta

section fastq
open Biogo.Fastq

/-- the budget of `readAll` covers the lines handed to the first call -/
private theorem budget (e : Bool) (bs : Bytes) : (readLineInput e bs).1.length < lineCount bs + 1 :=
  Nat.lt_succ_of_le (readLineInput_length e bs)

/-- **never panics** (FASTQ): for every byte string, every template (`linear.Seq`, or
    `linear.QSeq` with any encoding), every pair of conversion tables and either behaviour of
    the `io.Reader` at the end of the input, no call of `Read` panics. -/
theorem fastq_never_panics (cfg : Cfg) (eofWithData : Bool) (bs : Bytes) :
    ∀ p, Call.panic p ∉ readAll cfg eofWithData bs :=
  (readAllAux_total cfg _ _ _ (budget eofWithData bs)).1

/-- **progress** (FASTQ): `io.EOF` is reached within one call per input line plus one. -/
theorem fastq_progress (cfg : Cfg) (eofWithData : Bool) (bs : Bytes) :
    Call.unfinished ∉ readAll cfg eofWithData bs ∧ (readAll cfg eofWithData bs).length ≤ lineCount bs + 1 ∧
    ∃ r, (readAll cfg eofWithData bs).getLast? = some (Call.ret r) ∧ r.e = some .eof := by
  have := readAllAux_total cfg (lineCount bs + 1) (readLineInput eofWithData bs).1 (readLineInput eofWithData bs).2
    (budget eofWithData bs)
  refine ⟨this.2.1, ?_, this.2.2.2.1⟩
  have h := this.2.2.1
  have hl := readLineInput_length eofWithData bs
  show (readAllAux cfg (lineCount bs + 1) (readLineInput eofWithData bs).1 (readLineInput eofWithData bs).2).length ≤ _
  omega

/-- **never neither** (FASTQ): every call returns a non-nil sequence or a non-nil error. -/
theorem fastq_record_or_error (cfg : Cfg) (eofWithData : Bool) (bs : Bytes) :
    ∀ r, Call.ret r ∈ readAll cfg eofWithData bs → r.s.isSome ∨ r.e.isSome :=
  (readAllAux_total cfg _ _ _ (budget eofWithData bs)).2.2.2.2

/-- **rejects sequence/quality length mismatch** (FASTQ).  A record `@header / letters / + /
    quality` — with blank lines anywhere between its lines, `+` alone or followed by the same
    header — whose quality line, blanks removed, has another length than the sequence line
    is answered by the error "sequence/quality length mismatch" and no sequence. -/
theorem fastq_rejects_length_mismatch (cfg : Cfg) (pend : Bytes) (b0 b1 b2 b3 : List Bytes) (h s p q : Bytes)
    (rest : List Bytes)
    (hb0 : ∀ l ∈ b0, trimSpace l = []) (hb1 : ∀ l ∈ b1, trimSpace l = [])
    (hb2 : ∀ l ∈ b2, trimSpace l = []) (hb3 : ∀ l ∈ b3, trimSpace l = [])
    (hh : maybeID1 (trimSpace h) = true)
    (hs : trimSpace s ≠ []) (hs2 : maybeID2 (trimSpace s) = false)
    (hletters : (trimSpace s).filter (fun b => !isSpace b) ≠ [])
    (hp : maybeID2 (trimSpace p) = true)
    (hsame : (trimSpace p).length = 1 ∨ (trimSpace h).drop 1 = (trimSpace p).drop 1)
    (hq : trimSpace q ≠ [])
    (hlen : (removeSpaces (trimSpace q)).length ≠ ((trimSpace s).filter (fun b => !isSpace b)).length) :
    read cfg (b0 ++ h :: (b1 ++ s :: (b2 ++ p :: (b3 ++ q :: rest)))) pend
      = .ok (⟨none, some .lengthMismatch⟩, rest, pend) := by
  unfold Fastq.read
  rw [loop_skip_blanks cfg pend b0 _ {} rfl (by intro h; cases h) hb0]
  obtain ⟨t, ht⟩ := loop_any_header cfg pend h (b1 ++ s :: (b2 ++ p :: (b3 ++ q :: rest))) hh
  rw [ht, loop_skip_blanks cfg pend b1 _ (sL t _) rfl (by intro h; cases h) hb1,
    loop_any_letters cfg pend s _ t _ hs hs2,
    loop_skip_blanks cfg pend b2 _ (sI t _ _) rfl (by intro h; cases h) hb2,
    loop_any_plus cfg pend p _ t _ _ (maybeID_ne_nil (.inl hh)) hp hsame,
    loop_skip_blanks cfg pend b3 _ (sQ t _ _) rfl (fun _ => hletters) hb3]
  exact loop_rejects_len cfg pend q rest t _ _ hq hlen

/-- the same when the input ends before a quality line: what is left (`pend`, usually nothing)
    is taken as the quality line -/
theorem fastq_rejects_length_mismatch_at_eof (cfg : Cfg) (pend : Bytes) (b0 b1 b2 b3 : List Bytes) (h s p : Bytes)
    (hb0 : ∀ l ∈ b0, trimSpace l = []) (hb1 : ∀ l ∈ b1, trimSpace l = [])
    (hb2 : ∀ l ∈ b2, trimSpace l = []) (hb3 : ∀ l ∈ b3, trimSpace l = [])
    (hh : maybeID1 (trimSpace h) = true)
    (hs : trimSpace s ≠ []) (hs2 : maybeID2 (trimSpace s) = false)
    (hletters : (trimSpace s).filter (fun b => !isSpace b) ≠ [])
    (hp : maybeID2 (trimSpace p) = true)
    (hsame : (trimSpace p).length = 1 ∨ (trimSpace h).drop 1 = (trimSpace p).drop 1)
    (hlen : (removeSpaces pend).length ≠ ((trimSpace s).filter (fun b => !isSpace b)).length) :
    read cfg (b0 ++ h :: (b1 ++ s :: (b2 ++ p :: b3))) pend
      = .ok (⟨none, some .lengthMismatch⟩, [], []) := by
  unfold Fastq.read
  rw [loop_skip_blanks cfg pend b0 _ {} rfl (by intro h; cases h) hb0]
  obtain ⟨t, ht⟩ := loop_any_header cfg pend h (b1 ++ s :: (b2 ++ p :: b3)) hh
  have e3 : b3 = b3 ++ [] := by simp
  rw [ht, loop_skip_blanks cfg pend b1 _ (sL t _) rfl (by intro h; cases h) hb1,
    loop_any_letters cfg pend s _ t _ hs hs2,
    loop_skip_blanks cfg pend b2 _ (sI t _ _) rfl (by intro h; cases h) hb2,
    loop_any_plus cfg pend p _ t _ _ (maybeID_ne_nil (.inl hh)) hp hsame, e3,
    loop_skip_blanks cfg pend b3 _ (sQ t _ _) rfl (fun _ => hletters) hb3]
  exact loop_rejects_len_eof cfg pend t _ _ hlen

/-- **rejects a `+` line that repeats another header** (FASTQ) -/
theorem fastq_rejects_quality_header_mismatch (cfg : Cfg) (pend : Bytes) (b0 b1 b2 : List Bytes) (h s p : Bytes)
    (rest : List Bytes)
    (hb0 : ∀ l ∈ b0, trimSpace l = []) (hb1 : ∀ l ∈ b1, trimSpace l = []) (hb2 : ∀ l ∈ b2, trimSpace l = [])
    (hh : maybeID1 (trimSpace h) = true)
    (hs : trimSpace s ≠ []) (hs2 : maybeID2 (trimSpace s) = false)
    (hp : maybeID2 (trimSpace p) = true) (hp1 : (trimSpace p).length ≠ 1)
    (hdiff : (trimSpace h).drop 1 ≠ (trimSpace p).drop 1) :
    read cfg (b0 ++ h :: (b1 ++ s :: (b2 ++ p :: rest))) pend
      = .ok (⟨none, some .qualHeader⟩, rest, pend) := by
  unfold Fastq.read
  rw [loop_skip_blanks cfg pend b0 _ {} rfl (by intro h; cases h) hb0]
  obtain ⟨t, ht⟩ := loop_any_header cfg pend h (b1 ++ s :: (b2 ++ p :: rest)) hh
  rw [ht, loop_skip_blanks cfg pend b1 _ (sL t _) rfl (by intro h; cases h) hb1,
    loop_any_letters cfg pend s _ t _ hs hs2,
    loop_skip_blanks cfg pend b2 _ (sI t _ _) rfl (by intro h; cases h) hb2]
  exact loop_rejects_qhdr cfg pend p rest t _ _ (maybeID_ne_nil (.inl hh)) hp hp1 hdiff

-- non-vacuity: `@a / ac / + / I` is such a record, and the rejection is what the model computes
example : readAll ⟨.qseq .sanger, ⟨id, id⟩⟩ false [64, 97, 10, 97, 99, 10, 43, 10, 73, 10] =
    [.ret ⟨none, some .lengthMismatch⟩, .ret ⟨none, some .eof⟩] := by decide
example : readAll ⟨.seq, ⟨id, id⟩⟩ false [64, 97, 10, 97, 99, 10, 43, 98, 10, 73, 73, 10] =
    [.ret ⟨none, some .qualHeader⟩, .ret ⟨none, some .eof⟩] := by decide

end fastq

end Biogo.Properties.C03_seq
