/-
C03 (part seq) — the FASTA and FASTQ readers are total.  Property theorems only.
-/
import Biogo.Model.Fasta
import Biogo.Model.Fastq

namespace Biogo.Properties.C03_seq
open Biogo.Go.Bytes

/-- placeholder while the pipeline is brought up -/
theorem empty_input_is_eof : Biogo.Fasta.readAll {} [] = [.ret ⟨none, some .eof⟩] := by decide

end Biogo.Properties.C03_seq
