/-
C14 — the executable statement the driver evaluates on the implementation's hits
(`Spec.Filter.uncovered`: all ε-matches by prefix mismatch counts along every diagonal, hits
bucketed by diagonal) is sound and complete for the declarative statement of `filter_complete`
(`EpsMatch`, `required`, `Covered`).  Property theorems at the end.
-/
import Biogo.Spec.Filter
import Biogo.Model.Filter

namespace Biogo.Properties.C14_checker
open Biogo.Spec.Filter
open Biogo.Spec.Kmer (Lookup)

/-! ### mismatch counts are additive along a diagonal -/

theorem flagsFrom_add (lk : Lookup) (t q : List UInt8) (i n : Nat) : ∀ a b,
    flagsFrom lk t q a b (i + n) = flagsFrom lk t q a b i ++ flagsFrom lk t q (a + i) (b + i) n := by
  induction i with
  | zero => intro a b; simp [flagsFrom]
  | succ i ih =>
    intro a b
    have : i + 1 + n = (i + n) + 1 := by omega
    rw [this]
    simp only [flagsFrom, List.cons_append]
    rw [ih (a + 1) (b + 1)]
    have h1 : a + 1 + i = a + (i + 1) := by omega
    have h2 : b + 1 + i = b + (i + 1) := by omega
    rw [h1, h2]

theorem mismatches_add (lk : Lookup) (t q : List UInt8) (a b i n : Nat) :
    mismatches lk t q a b (i + n) = mismatches lk t q a b i + mismatches lk t q (a + i) (b + i) n := by
  unfold mismatches
  rw [flagsFrom_add, List.countP_append]

theorem mismatches_succ (lk : Lookup) (t q : List UInt8) (a b i : Nat) :
    mismatches lk t q a b (i + 1) =
      mismatches lk t q a b i + (if mismatchAt lk t q (a + i) (b + i) then 1 else 0) := by
  rw [mismatches_add]
  congr 1
  unfold mismatches
  simp only [flagsFrom]
  cases mismatchAt lk t q (a + i) (b + i) <;> simp

/-! ### the coded letters -/

theorem codes_size (lk : Lookup) (s : List UInt8) : (codes lk s).size = s.length := by
  simp [codes]

theorem codes_get (lk : Lookup) (s : List UInt8) (i : Nat) (h : i < s.length) :
    (codes lk s)[i]! = code lk s[i] := by
  simp [codes, h]

theorem mismC_code (lk : Lookup) (x y : UInt8) :
    mismC (code lk x) (code lk y) =
      (match lk x, lk y with
       | some dx, some dy => dx != dy
       | _, _ => true) := by
  unfold mismC code
  cases lk x <;> cases lk y <;> simp

theorem mismC_codes (lk : Lookup) (t q : List UInt8) (a b : Nat) (ha : a < t.length) (hb : b < q.length) :
    mismC (codes lk t)[a]! (codes lk q)[b]! = mismatchAt lk t q a b := by
  rw [codes_get lk t a ha, codes_get lk q b hb, mismC_code]
  unfold mismatchAt
  simp only [List.getElem?_eq_getElem ha, List.getElem?_eq_getElem hb]
  cases lk t[a] <;> cases lk q[b] <;> rfl

/-! ### the prefix counts -/

/-- the loop extends the list of prefix counts `M 0 … M i` to `M 0 … M (i + len)` -/
theorem prefixLoop_spec (lk : Lookup) (t q : List UInt8) (a0 b0 : Nat) : ∀ (len i : Nat) (acc : Array Nat),
    a0 + i + len ≤ t.length → b0 + i + len ≤ q.length →
    acc.toList = (List.range (i + 1)).map (mismatches lk t q a0 b0) →
    (prefixLoop (codes lk t) (codes lk q) len (a0 + i) (b0 + i) (mismatches lk t q a0 b0 i) acc).toList
      = (List.range (i + len + 1)).map (mismatches lk t q a0 b0) := by
  intro len
  induction len with
  | zero => intro i acc _ _ h; simpa [prefixLoop] using h
  | succ len ih =>
    intro i acc ht hq hacc
    simp only [prefixLoop]
    rw [mismC_codes lk t q (a0 + i) (b0 + i) (by omega) (by omega)]
    have hM : (if mismatchAt lk t q (a0 + i) (b0 + i) = true then mismatches lk t q a0 b0 i + 1
        else mismatches lk t q a0 b0 i) = mismatches lk t q a0 b0 (i + 1) := by
      rw [mismatches_succ]; split <;> simp
    rw [hM]
    have h1 : a0 + i + 1 = a0 + (i + 1) := by omega
    have h2 : b0 + i + 1 = b0 + (i + 1) := by omega
    have h3 : i + (len + 1) + 1 = (i + 1) + len + 1 := by omega
    rw [h1, h2, h3]
    apply ih (i + 1) _ (by omega) (by omega)
    rw [Array.toList_push, hacc, List.range_succ (n := i + 1), List.map_append]
    rfl

theorem prefix_get (lk : Lookup) (t q : List UInt8) (a0 b0 len : Nat)
    (ht : a0 + len ≤ t.length) (hq : b0 + len ≤ q.length) (j : Nat) (hj : j ≤ len) :
    (prefixLoop (codes lk t) (codes lk q) len a0 b0 0 #[0])[j]! = mismatches lk t q a0 b0 j := by
  have h := prefixLoop_spec lk t q a0 b0 len 0 #[0] (by omega) (by omega)
    (by simp [mismatches, flagsFrom])
  simp only [Nat.add_zero, Nat.zero_add] at h
  have h0 : mismatches lk t q a0 b0 0 = 0 := by simp [mismatches, flagsFrom]
  rw [h0] at h
  generalize prefixLoop (codes lk t) (codes lk q) len a0 b0 0 #[0] = pm at h
  have hs : pm.size = len + 1 := by
    have := congrArg List.length h
    simpa using this
  rw [getElem!_pos pm j (by omega)]
  have : pm[j]'(by omega) = pm.toList[j]'(by simp; omega) := by simp
  rw [this]
  simp [h]

/-! ### the window scan -/

theorem windowsLoop_spec (pm : Array Nat) (n e : Nat) : ∀ (m i : Nat) (acc : List Nat),
    windowsLoop pm n e m i acc
      = acc.reverse ++ (List.range' i m).filter (fun j => decide (pm[j + n]! - pm[j]! ≤ e)) := by
  intro m
  induction m with
  | zero => intro i acc; simp [windowsLoop]
  | succ m ih =>
    intro i acc
    simp only [windowsLoop]
    rw [ih, List.range'_succ, List.filter_cons]
    by_cases h : pm[i + n]! - pm[i]! ≤ e <;> simp [h]

/-- the matches found on the diagonal through `(a0, b0)` are exactly the ε-matches on it -/
theorem mem_matchesOnDiagonal (lk : Lookup) (t q : List UInt8) (n e a0 b0 : Nat)
    (ha0 : a0 ≤ t.length) (hb0 : b0 ≤ q.length) (a b : Nat) :
    (a, b) ∈ matchesOnDiagonal (codes lk t) (codes lk q) n e a0 b0 ↔
      ∃ i, a = a0 + i ∧ b = b0 + i ∧ EpsMatch lk t q n e a b := by
  unfold matchesOnDiagonal
  simp only [codes_size]
  split
  · rename_i hlen
    simp only [List.not_mem_nil, false_iff]
    rintro ⟨i, rfl, rfl, h1, h2, _⟩
    omega
  · rename_i hlen
    rw [windowsLoop_spec]
    simp only [List.reverse_nil, List.nil_append, List.mem_map, List.mem_filter, List.mem_range',
      Prod.mk.injEq, decide_eq_true_eq]
    constructor
    · rintro ⟨i, ⟨⟨k, hk, hik⟩, hwin⟩, rfl, rfl⟩
      refine ⟨i, rfl, rfl, by omega, by omega, ?_⟩
      rw [prefix_get lk t q a0 b0 _ (by omega) (by omega) (i + n) (by omega),
        prefix_get lk t q a0 b0 _ (by omega) (by omega) i (by omega), mismatches_add] at hwin
      omega
    · rintro ⟨i, rfl, rfl, h1, h2, h3⟩
      refine ⟨i, ⟨⟨i, by omega, by omega⟩, ?_⟩, rfl, rfl⟩
      rw [prefix_get lk t q a0 b0 _ (by omega) (by omega) (i + n) (by omega),
        prefix_get lk t q a0 b0 _ (by omega) (by omega) i (by omega), mismatches_add]
      omega

/-! ### the diagonals -/

theorem diagonalStarts_bounds (tlen qlen : Nat) (s : Nat × Nat) (h : s ∈ diagonalStarts tlen qlen) :
    s.1 ≤ tlen ∧ s.2 ≤ qlen := by
  unfold diagonalStarts at h
  rw [List.mem_append] at h
  rcases h with h | h
  · simp only [List.mem_map, List.mem_reverse, List.mem_range] at h
    obtain ⟨x, hx, rfl⟩ := h
    exact ⟨by simp; omega, by simp⟩
  · simp only [List.mem_map] at h
    obtain ⟨x, hx, rfl⟩ := h
    have := List.mem_range.mp (List.mem_of_mem_tail hx)
    exact ⟨by simp, by simp; omega⟩

/-- every cell that can start a window of `n ≥ 1` columns lies on one of the diagonals -/
theorem diagonalStarts_complete (tlen qlen a b : Nat) (ha : a < tlen) (hb : b < qlen) :
    ∃ s ∈ diagonalStarts tlen qlen, ∃ i, a = s.1 + i ∧ b = s.2 + i := by
  unfold diagonalStarts
  by_cases h : b ≤ a
  · refine ⟨(a - b, 0), ?_, b, by simp; omega, by simp⟩
    rw [List.mem_append]; left
    simp only [List.mem_map, List.mem_reverse, List.mem_range]
    exact ⟨a - b, by omega, rfl⟩
  · refine ⟨(0, b - a), ?_, a, by simp, by simp; omega⟩
    rw [List.mem_append]; right
    simp only [List.mem_map]
    refine ⟨b - a, ?_, rfl⟩
    have : b - a = (b - a - 1) + 1 := by omega
    rw [this, List.range_eq_range', List.tail_range']
    simp only [List.mem_range'_1]
    omega

/-! ### hits bucketed by diagonal -/

def bucketStep (m : Std.HashMap Int (List Hit)) (h : Hit) : Std.HashMap Int (List Hit) :=
  m.insert h.diagonal (h :: m.getD h.diagonal [])

theorem mem_buckets (hits : List Hit) : ∀ (m : Std.HashMap Int (List Hit)) (d : Int) (h : Hit),
    h ∈ (hits.foldl bucketStep m).getD d [] ↔ h ∈ m.getD d [] ∨ (h ∈ hits ∧ h.diagonal = d) := by
  induction hits with
  | nil => intro m d h; simp
  | cons x xs ih =>
    intro m d h
    rw [List.foldl_cons, ih]
    unfold bucketStep
    rw [Std.HashMap.getD_insert]
    by_cases hx : x.diagonal = d
    · subst hx
      simp only [beq_self_eq_true, if_true, List.mem_cons]
      constructor
      · rintro ((rfl | h1) | ⟨h1, h2⟩)
        · exact Or.inr ⟨Or.inl rfl, rfl⟩
        · exact Or.inl h1
        · exact Or.inr ⟨Or.inr h1, h2⟩
      · rintro (h1 | ⟨rfl | h1, h2⟩)
        · exact Or.inl (Or.inr h1)
        · exact Or.inl (Or.inl rfl)
        · exact Or.inr ⟨h1, h2⟩
    · have : (x.diagonal == d) = false := by simpa using hx
      simp only [this, List.mem_cons]
      constructor
      · rintro (h1 | ⟨h1, h2⟩)
        · exact Or.inl h1
        · exact Or.inr ⟨Or.inr h1, h2⟩
      · rintro (h1 | ⟨rfl | h1, h2⟩)
        · exact Or.inl h1
        · exact absurd h2 hx
        · exact Or.inr ⟨h1, h2⟩

/-- looking only into the buckets `d … d + tubeWidth - 1` loses no covering hit of a match on
    diagonal `d` -/
theorem any_buckets (hits : List Hit) (tubeWidth n a b : Nat) (d : Int) (hd : d = (a : Int) - b) :
    (((List.range tubeWidth).flatMap fun (j : Nat) =>
        (hits.foldl bucketStep ({} : Std.HashMap Int (List Hit))).getD (d + j) []).any
      fun h => covers tubeWidth n h a b) = true ↔ Covered hits tubeWidth n a b := by
  unfold Covered
  simp only [List.any_eq_true, List.mem_flatMap, List.mem_range, mem_buckets,
    Std.HashMap.getD_empty, List.not_mem_nil, false_or]
  constructor
  · rintro ⟨h, ⟨_, _, hh, _⟩, hc⟩
    exact ⟨h, hh, hc⟩
  · rintro ⟨h, hh, hc⟩
    refine ⟨h, ⟨(h.diagonal - d).toNat, ?_, hh, ?_⟩, hc⟩
    · simp only [covers, Bool.and_eq_true, decide_eq_true_eq] at hc
      omega
    · simp only [covers, Bool.and_eq_true, decide_eq_true_eq] at hc
      omega

/-! ### the scan over all diagonals (for an arbitrary requirement `req`) -/

/-- the uncovered required matches the checker finds on the diagonal through `s` -/
def uncOn (lk : Lookup) (t q : List UInt8) (n e tubeWidth : Nat) (req : Nat → Nat → Bool) (hits : List Hit)
    (s : Nat × Nat) : List (Nat × Nat) :=
  let ms := (matchesOnDiagonal (codes lk t) (codes lk q) n e s.1 s.2).filter fun m => req m.1 m.2
  let d : Int := (s.1 : Int) - s.2
  let hs := (List.range tubeWidth).flatMap fun (j : Nat) =>
    (hits.foldl bucketStep ({} : Std.HashMap Int (List Hit))).getD (d + j) []
  ms.filter fun m => !(hs.any fun h => covers tubeWidth n h m.1 m.2)

theorem foldl_unc {α : Type} (f : Nat × List (List (Nat × Nat)) → α → Nat × List (List (Nat × Nat)))
    (u : α → List (Nat × Nat))
    (hf : ∀ acc s, (f acc s).2 = if (u s).isEmpty then acc.2 else u s :: acc.2) (x : Nat × Nat) :
    ∀ (l : List α) (acc : Nat × List (List (Nat × Nat))),
      x ∈ (l.foldl f acc).2.reverse.flatten ↔ x ∈ acc.2.reverse.flatten ∨ ∃ s ∈ l, x ∈ u s := by
  intro l
  induction l with
  | nil => intro acc; simp
  | cons y ys ih =>
    intro acc
    rw [List.foldl_cons, ih, hf]
    by_cases hy : u y = []
    · simp [hy]
    · have : (u y).isEmpty = false := by simpa using hy
      simp only [this, List.mem_cons, exists_eq_or_imp]
      simp only [Bool.false_eq_true, if_false, List.reverse_cons, List.flatten_append,
        List.flatten_cons, List.flatten_nil, List.append_nil, List.mem_append, or_assoc]

/-- what the checker lists is exactly what it finds uncovered on some diagonal -/
theorem mem_uncoveredBy_iff (lk : Lookup) (t q : List UInt8) (n e tubeWidth : Nat) (req : Nat → Nat → Bool)
    (hits : List Hit) (x : Nat × Nat) :
    x ∈ (uncoveredBy lk t q n e tubeWidth req hits).2 ↔
      ∃ s ∈ diagonalStarts t.length q.length, x ∈ uncOn lk t q n e tubeWidth req hits s := by
  unfold uncoveredBy
  simp only [codes_size]
  rw [foldl_unc _ (uncOn lk t q n e tubeWidth req hits)]
  · simp
  · intro acc s
    simp only [uncOn]
    split
    · rename_i hms
      rw [List.isEmpty_iff] at hms
      simp only [hms, List.filter_nil, List.isEmpty_nil, if_true]
    · rfl

/-- membership in the per-diagonal list, declaratively -/
theorem mem_uncOn (lk : Lookup) (t q : List UInt8) (n e tubeWidth : Nat) (req : Nat → Nat → Bool)
    (hits : List Hit) (s : Nat × Nat) (hs : s ∈ diagonalStarts t.length q.length) (a b : Nat) :
    (a, b) ∈ uncOn lk t q n e tubeWidth req hits s ↔
      (∃ i, a = s.1 + i ∧ b = s.2 + i) ∧ EpsMatch lk t q n e a b ∧ req a b = true ∧
        ¬ Covered hits tubeWidth n a b := by
  have hb := diagonalStarts_bounds _ _ s hs
  unfold uncOn
  simp only [List.mem_filter, mem_matchesOnDiagonal lk t q n e s.1 s.2 hb.1 hb.2 a b,
    Bool.not_eq_true']
  constructor
  · rintro ⟨⟨⟨i, hai, hbi, hm⟩, hr⟩, hc⟩
    refine ⟨⟨i, hai, hbi⟩, hm, hr, fun hcov => ?_⟩
    rw [(any_buckets hits tubeWidth n a b _ (by omega)).mpr hcov] at hc
    cases hc
  · rintro ⟨⟨i, hai, hbi⟩, hm, hr, hc⟩
    refine ⟨⟨⟨i, hai, hbi, hm⟩, hr⟩, ?_⟩
    cases hany : (List.any _ _) with
    | false => rfl
    | true => exact absurd ((any_buckets hits tubeWidth n a b _ (by omega)).mp hany) hc

/-! ### the count of required matches (the `nt` / `no-match` tag) -/

/-- the required matches the checker finds on the diagonal through `s` -/
def reqOn (lk : Lookup) (t q : List UInt8) (n e : Nat) (req : Nat → Nat → Bool) (s : Nat × Nat) : List (Nat × Nat) :=
  (matchesOnDiagonal (codes lk t) (codes lk q) n e s.1 s.2).filter fun m => req m.1 m.2

theorem foldl_cnt {α : Type} (f : Nat × List (List (Nat × Nat)) → α → Nat × List (List (Nat × Nat)))
    (c : α → Nat) (hf : ∀ acc s, (f acc s).1 = acc.1 + c s) :
    ∀ (l : List α) (acc : Nat × List (List (Nat × Nat))),
      (l.foldl f acc).1 = acc.1 + (l.map c).sum := by
  intro l
  induction l with
  | nil => intro acc; simp
  | cons y ys ih =>
    intro acc
    rw [List.foldl_cons, ih, hf, List.map_cons, List.sum_cons]
    omega

theorem uncoveredBy_fst (lk : Lookup) (t q : List UInt8) (n e tubeWidth : Nat) (req : Nat → Nat → Bool)
    (hits : List Hit) :
    (uncoveredBy lk t q n e tubeWidth req hits).1 =
      ((diagonalStarts t.length q.length).map fun s => (reqOn lk t q n e req s).length).sum := by
  unfold uncoveredBy
  simp only [codes_size]
  rw [foldl_cnt _ (fun s => (reqOn lk t q n e req s).length)]
  · simp
  · intro acc s
    simp only [reqOn]
    split
    · rename_i hms
      rw [List.isEmpty_iff] at hms
      simp [hms]
    · rfl

/-- the count the checker reports is 0 exactly when the pair has no required ε-match (any `req`) -/
theorem nreqBy_zero_iff (lk : Lookup) (t q : List UInt8) (n e tubeWidth : Nat) (req : Nat → Nat → Bool)
    (hits : List Hit) (hn : 1 ≤ n) :
    (uncoveredBy lk t q n e tubeWidth req hits).1 = 0 ↔
      ∀ a b, EpsMatch lk t q n e a b → req a b = false := by
  rw [uncoveredBy_fst, List.sum_eq_zero_iff_forall_eq_nat]
  simp only [List.mem_map, forall_exists_index, and_imp, forall_apply_eq_imp_iff₂,
    List.length_eq_zero_iff]
  constructor
  · intro h a b hm
    obtain ⟨s, hs, i, hai, hbi⟩ := diagonalStarts_complete t.length q.length a b
      (by have := hm.1; omega) (by have := hm.2.1; omega)
    have hb := diagonalStarts_bounds _ _ s hs
    have hmem : (a, b) ∈ matchesOnDiagonal (codes lk t) (codes lk q) n e s.1 s.2 :=
      (mem_matchesOnDiagonal lk t q n e s.1 s.2 hb.1 hb.2 a b).mpr ⟨i, hai, hbi, hm⟩
    have := h s hs
    unfold reqOn at this
    rw [List.filter_eq_nil_iff] at this
    have := this (a, b) hmem
    simpa using this
  · intro h s hs
    have hb := diagonalStarts_bounds _ _ s hs
    unfold reqOn
    rw [List.filter_eq_nil_iff]
    rintro ⟨a, b⟩ hab
    obtain ⟨i, hai, hbi, hm⟩ := (mem_matchesOnDiagonal lk t q n e s.1 s.2 hb.1 hb.2 a b).mp hab
    simp [h a b hm]

/-- soundness and completeness of the scan for an arbitrary requirement -/
theorem checkerBy_iff (lk : Lookup) (t q : List UInt8) (n e tubeWidth : Nat) (req : Nat → Nat → Bool)
    (hits : List Hit) (hn : 1 ≤ n) :
    (uncoveredBy lk t q n e tubeWidth req hits).2 = [] ↔
      ∀ a b, EpsMatch lk t q n e a b → req a b = true → Covered hits tubeWidth n a b := by
  constructor
  · intro h a b hm hr
    obtain ⟨s, hs, i, hai, hbi⟩ := diagonalStarts_complete t.length q.length a b
      (by have := hm.1; omega) (by have := hm.2.1; omega)
    apply Classical.byContradiction
    intro hc
    have : (a, b) ∈ (uncoveredBy lk t q n e tubeWidth req hits).2 :=
      (mem_uncoveredBy_iff ..).mpr ⟨s, hs, (mem_uncOn lk t q n e tubeWidth req hits s hs a b).mpr
        ⟨⟨i, hai, hbi⟩, hm, hr, hc⟩⟩
    rw [h] at this
    cases this
  · intro h
    rw [List.eq_nil_iff_forall_not_mem]
    rintro ⟨a, b⟩ hab
    obtain ⟨s, hs, hx⟩ := (mem_uncoveredBy_iff ..).mp hab
    obtain ⟨_, hm, hr, hc⟩ := (mem_uncOn lk t q n e tubeWidth req hits s hs a b).mp hx
    exact hc (h a b hm hr)

theorem mem_uncoveredBy (lk : Lookup) (t q : List UInt8) (n e tubeWidth : Nat) (req : Nat → Nat → Bool)
    (hits : List Hit) (a b : Nat) (h : (a, b) ∈ (uncoveredBy lk t q n e tubeWidth req hits).2) :
    EpsMatch lk t q n e a b ∧ req a b = true ∧ ¬ Covered hits tubeWidth n a b := by
  obtain ⟨s, hs, hx⟩ := (mem_uncoveredBy_iff ..).mp h
  exact ((mem_uncOn lk t q n e tubeWidth req hits s hs a b).mp hx).2

/-! ### property theorems -/

/-- **the count behind the `nt` tag**: the number the checker reports is 0 exactly when the pair
    has no required ε-match at all (for `n ≥ 1`), so a case tagged `no-match` demands nothing and a
    case tagged `nt` demands something -/
theorem nreq_zero_iff (lk : Lookup) (t q : List UInt8) (n e tubeWidth : Nat) (selfAlign : Bool)
    (hits : List Hit) (hn : 1 ≤ n) :
    (uncovered lk t q n e tubeWidth selfAlign hits).1 = 0 ↔
      ∀ a b, EpsMatch lk t q n e a b → required selfAlign a b = false :=
  nreqBy_zero_iff lk t q n e tubeWidth (required selfAlign) hits hn

/-- **soundness and completeness of the C14 checker**: for window length `n ≥ 1` (implied by a
    positive q-gram threshold with `k ≥ 1`) the list of uncovered matches the driver computes from
    the implementation's hits is empty exactly when every required ε-match (every match; in
    self-comparison every match strictly above the main diagonal) is `Covered` by a hit — the
    conclusion of `filter_complete`, with the implementation's hits in place of the model's. -/
theorem checker_iff (lk : Lookup) (t q : List UInt8) (n e tubeWidth : Nat) (selfAlign : Bool)
    (hits : List Hit) (hn : 1 ≤ n) :
    (uncovered lk t q n e tubeWidth selfAlign hits).2 = [] ↔
      ∀ a b, EpsMatch lk t q n e a b → required selfAlign a b = true → Covered hits tubeWidth n a b :=
  checkerBy_iff lk t q n e tubeWidth (required selfAlign) hits hn

/-- soundness alone, in the form the driver uses it: an empty list of uncovered matches (verdict
    `ok`/`diff`) means the implementation's hits satisfy the conclusion of `filter_complete` -/
theorem checker_sound (lk : Lookup) (t q : List UInt8) (n e tubeWidth : Nat) (selfAlign : Bool)
    (hits : List Hit) (hn : 1 ≤ n) (h : (uncovered lk t q n e tubeWidth selfAlign hits).2 = []) :
    ∀ a b, EpsMatch lk t q n e a b → required selfAlign a b = true → Covered hits tubeWidth n a b :=
  (checker_iff lk t q n e tubeWidth selfAlign hits hn).mp h

/-- what the checker reports is exact: a pair is listed iff it is a required ε-match that no hit
    covers (so a `fail` verdict names a genuine counterexample, and `isK4` is asked about genuine
    ones only) -/
theorem mem_uncovered (lk : Lookup) (t q : List UInt8) (n e tubeWidth : Nat) (selfAlign : Bool)
    (hits : List Hit) (a b : Nat) (h : (a, b) ∈ (uncovered lk t q n e tubeWidth selfAlign hits).2) :
    EpsMatch lk t q n e a b ∧ required selfAlign a b = true ∧ ¬ Covered hits tubeWidth n a b :=
  mem_uncoveredBy lk t q n e tubeWidth (required selfAlign) hits a b h

/-- the hypothesis `1 ≤ n` of `checker_iff` holds wherever the driver evaluates the statement (and
    wherever `filter_complete` speaks): a positive q-gram threshold `n + 1 - k(e+1)` with a word
    size `k ≥ 1` forces `n ≥ 1`.  So in the driver's scope: no uncovered match listed iff the
    conclusion of `filter_complete` holds of the implementation's hits. -/
theorem checker_iff_in_scope (lk : Lookup) (t q : List UInt8) (k n e tubeWidth : Nat) (selfAlign : Bool)
    (hits : List Hit) (hk : 1 ≤ k) (hthr : 0 < Biogo.Filter.minWordsPerFilterHit n k e) :
    (uncovered lk t q n e tubeWidth selfAlign hits).2 = [] ↔
      ∀ a b, EpsMatch lk t q n e a b → required selfAlign a b = true → Covered hits tubeWidth n a b := by
  apply checker_iff
  unfold Biogo.Filter.minWordsPerFilterHit at hthr
  have h1 : (k : Int) * ((e : Int) + 1) ≥ 1 := by
    have : ((k * (e + 1) : Nat) : Int) = (k : Int) * ((e : Int) + 1) := by simp
    have h2 : 1 ≤ k * (e + 1) := Nat.mul_pos hk (by omega)
    omega
  omega

/-! ### either strand: the checker the driver runs (`uncoveredC`, requirement `requiredC`) -/

/-- on the forward strand the driver's checker is the checker of `checker_iff` -/
theorem uncoveredC_forward (lk : Lookup) (t q : List UInt8) (n e tubeWidth : Nat) (selfAlign : Bool)
    (hits : List Hit) :
    uncoveredC lk t q n e tubeWidth selfAlign false hits = uncovered lk t q n e tubeWidth selfAlign hits := rfl

/-- **`checker_iff` for either strand** — the executable statement the driver evaluates
    (`uncoveredC`, with the `complement` flag of the case) lists nothing exactly when every ε-match
    that is required on that strand (`requiredC`: forward `a < b`, complement strand of a self
    comparison `Tlen ≤ a + b`, everything otherwise) is `Covered` — the conclusion of
    `filter_complete` / `filter_complete_complement` with the implementation's hits. -/
theorem checker_iff_strand (lk : Lookup) (t q : List UInt8) (n e tubeWidth : Nat) (selfAlign complement : Bool)
    (hits : List Hit) (hn : 1 ≤ n) :
    (uncoveredC lk t q n e tubeWidth selfAlign complement hits).2 = [] ↔
      ∀ a b, EpsMatch lk t q n e a b → requiredC selfAlign complement t.length a b = true →
        Covered hits tubeWidth n a b :=
  checkerBy_iff lk t q n e tubeWidth (requiredC selfAlign complement t.length) hits hn

/-- every pair the driver's checker lists is an ε-match required on that strand that no hit covers -/
theorem mem_uncoveredC (lk : Lookup) (t q : List UInt8) (n e tubeWidth : Nat) (selfAlign complement : Bool)
    (hits : List Hit) (a b : Nat) (h : (a, b) ∈ (uncoveredC lk t q n e tubeWidth selfAlign complement hits).2) :
    EpsMatch lk t q n e a b ∧ requiredC selfAlign complement t.length a b = true ∧ ¬ Covered hits tubeWidth n a b :=
  mem_uncoveredBy lk t q n e tubeWidth (requiredC selfAlign complement t.length) hits a b h

/-- the count behind the `nt` tag, either strand -/
theorem nreqC_zero_iff (lk : Lookup) (t q : List UInt8) (n e tubeWidth : Nat) (selfAlign complement : Bool)
    (hits : List Hit) (hn : 1 ≤ n) :
    (uncoveredC lk t q n e tubeWidth selfAlign complement hits).1 = 0 ↔
      ∀ a b, EpsMatch lk t q n e a b → requiredC selfAlign complement t.length a b = false :=
  nreqBy_zero_iff lk t q n e tubeWidth (requiredC selfAlign complement t.length) hits hn

/-- **the complement requirement finds every inverted repeat with disjoint arms exactly once**: in
    a self comparison of a sequence of length `L` the window pair `(a, b)` of the complement strand
    and its mirror image `(L-b-n, L-a-n)` are the same pair of regions (`n ≥ 1`); if the regions are disjoint
    (`a + n ≤ L - b - n` or `L - b ≤ a`) exactly one of the two images is required. -/
theorem requiredC_mirror (L n a b : Nat) (hn : 1 ≤ n) (ha : a + n ≤ L) (hb : b + n ≤ L)
    (hdisj : a + n ≤ L - b - n ∨ L - b ≤ a) :
    (requiredC true true L a b = true ∧ requiredC true true L (L - b - n) (L - a - n) = false) ∨
    (requiredC true true L a b = false ∧ requiredC true true L (L - b - n) (L - a - n) = true) := by
  unfold requiredC
  simp only [Bool.not_true, Bool.false_or, if_true, decide_eq_true_eq, decide_eq_false_iff_not]
  omega

/-- lower-case DNA lookup -/
def dna : Lookup := fun b =>
  if b = 97 then some 0 else if b = 99 then some 1 else if b = 103 then some 2 else if b = 116 then some 3 else none

-- non-vacuity: "acgtacgtac" vs "acgtaagtac", n = 10, e = 1 has the required match (0, 0): with no
-- hit the checker must list something; with the hit [0, 10) on diagonal 2 (band 0 … 2) nothing
example : (uncovered dna [97, 99, 103, 116, 97, 99, 103, 116, 97, 99] [97, 99, 103, 116, 97, 97, 103, 116, 97, 99]
    10 1 3 false []).2 ≠ [] := by
  intro h
  obtain ⟨x, hx, _⟩ := (checker_iff _ _ _ _ _ _ _ _ (by decide)).mp h 0 0 (by decide) (by decide)
  cases hx

example : (uncovered dna [97, 99, 103, 116, 97, 99, 103, 116, 97, 99] [97, 99, 103, 116, 97, 97, 103, 116, 97, 99]
    10 1 3 false [{ from_ := 0, to := 10, diagonal := 2 }]).2 = [] := by
  apply (checker_iff _ _ _ _ _ _ _ _ (by decide)).mpr
  intro a b hm _
  have ha : a = 0 := by have := hm.1; simp at this; omega
  have hb : b = 0 := by have := hm.2.1; simp at this; omega
  subst ha hb
  exact ⟨_, List.mem_singleton.mpr rfl, by decide⟩

end Biogo.Properties.C14_checker
