/-
C04 (part bufio, continued) — the four reader models run on what the byte-level `bufio.Reader`
model delivers, for any chunking of the underlying reads, are the line-level models of C01–C04;
so the layout theorems of C04 hold with physical lines of any length relative to bufio's
buffer **as a consequence of the refinement theorems** of `Properties/C04_bufio`, not of a
trusted abstraction.  Property theorems only.

`…OverBufio` composes the reader model with the byte-level model: the lines come from the
`ReadLine`/`append`/`isPrefix` loop (`allLines`), resp. from the `ReadBytes('\n')` loop
(`allReadBytes`), over `bufio.NewReader(rd)`.  (The Go readers pull the lines one at a time while
they process them; pulling has no effect but to advance the stream, so the composition drains
them first.)
-/
import Biogo.Properties.C04_bufio
import Biogo.Properties.C04_seq
import Biogo.Properties.C04_feat
import Biogo.Proofs.SeqLazy

namespace Biogo.Properties.C04_bufio
open Biogo.Go.Bufio

/-- an underlying `io.Reader` over `bs` ending in `io.EOF` -/
abbrev fileSrc (bs : Bytes) (pol : Nat → Nat → Nat) (withData : Bool) : Src :=
  { rest := bs, pol := pol, withData := withData }

/-- the FASTA reader model over the byte-level model: fragments pending at `io.EOF` are
    processed as a line (fix `02b768f`) -/
def fastaOverBufio (cfg : Biogo.Fasta.Cfg) (src : Src) : List Biogo.Fasta.Call :=
  let r := allLines (newReader src)
  let lines := r.1 ++ (if r.2.1 = [] then [] else [r.2.1])
  Biogo.Fasta.readAllAux cfg (lines.length + 1) {} lines

/-- the FASTQ reader model over the byte-level model: complete lines, and the fragments pending
    at `io.EOF` (used as the quality line in state `quality`, dropped otherwise) -/
def fastqOverBufio (cfg : Biogo.Fastq.Cfg) (src : Src) : List Biogo.Fastq.Call :=
  let r := allLines (newReader src)
  Biogo.Fastq.readAllAux cfg (Biogo.Go.Bytes.lineCount src.rest + 1) r.1 r.2.1

/-- the lines `bed.Reader.Read` / `gff.Reader.Read` / `metaSeq` process: the data of the
    `ReadBytes('\n')` calls without error, or with `io.EOF` and `len(line) > 0` (fix F4) -/
def processedLines (src : Src) : List Bytes :=
  ((allReadBytes (newReader src)).filter (fun c => c.2.isNone || !c.1.isEmpty)).map (·.1)

def bedOverBufio (n : Nat) (src : Src) : List Biogo.Bed.Call :=
  Biogo.Bed.readLines n ((processedLines src).map Biogo.BytesFeat.trimSpace) 0

def gffOverBufio (o : Biogo.Gff.Oracles) (src : Src) : List Biogo.Gff.Call × Biogo.Gff.St :=
  let ls := (processedLines src).map Biogo.BytesFeat.trimSpace
  Biogo.Gff.readCalls o (ls.length + 1) ls {}

/-- **the FASTA model is the image of its byte-level composition**, for every chunking and
    either timing of `io.EOF` -/
theorem fasta_over_bufio (cfg : Biogo.Fasta.Cfg) (bs : Bytes) (pol : Nat → Nat → Nat) (wd : Bool)
    (hp : Progressing pol) : fastaOverBufio cfg (fileSrc bs pol wd) = Biogo.Fasta.readAll cfg bs := by
  have h := readLine_loop_image_fasta bs pol wd hp
  simp only at h
  simp only [fastaOverBufio, fileSrc, h, Biogo.Fasta.readAll]

/-- **the FASTQ model is the image of its byte-level composition**; the model's `eofWithData`
    is the underlying reader's `withData` -/
theorem fastq_over_bufio (cfg : Biogo.Fastq.Cfg) (bs : Bytes) (pol : Nat → Nat → Nat) (wd : Bool)
    (hp : Progressing pol) : fastqOverBufio cfg (fileSrc bs pol wd) = Biogo.Fastq.readAll cfg wd bs := by
  simp only [fastqOverBufio, fileSrc, readLine_loop_image_default bs pol wd hp, Biogo.Fastq.readAll]

theorem processedLines_eq (bs : Bytes) (pol : Nat → Nat → Nat) (wd : Bool) (hp : Progressing pol) :
    processedLines (fileSrc bs pol wd) = Biogo.BytesFeat.lines bs :=
  readBytes_loop_image_processed bs pol wd defaultBufSize hp

/-- **the BED model is the image of its byte-level composition** -/
theorem bed_over_bufio (n : Nat) (bs : Bytes) (pol : Nat → Nat → Nat) (wd : Bool) (hp : Progressing pol) :
    bedOverBufio n (fileSrc bs pol wd) = Biogo.Bed.readAll n bs := by
  simp only [bedOverBufio, processedLines_eq bs pol wd hp, Biogo.Bed.readAll, Biogo.Bed.trimmedLines]

/-- **the GFF model (inline sequences included) is the image of its byte-level composition** -/
theorem gff_over_bufio (o : Biogo.Gff.Oracles) (bs : Bytes) (pol : Nat → Nat → Nat) (wd : Bool) (hp : Progressing pol) :
    gffOverBufio o (fileSrc bs pol wd) = Biogo.Gff.readAll o bs := by
  simp only [gffOverBufio, processedLines_eq bs pol wd hp, Biogo.Gff.readAll, Biogo.Gff.trimmedLines]

/-! ### the loops of `Read` run lazily

`…OverBufio` drains the lines first.  The Go loops pull one line at a time while they work; that
shape is `Biogo.Go.Bufio.runLazy body atErr` (one `nextLine` — the `ReadLine`/`append`/`isPrefix`
part — per iteration, `body` on a complete line, `atErr` when `ReadLine` returns an error).
`runLazy_drained` proves for **every** `body`/`atErr` that the lazy run equals the run over the
drained view `lineInput` and leaves a reader whose remaining input is what the drained run has
left; instantiated with the bodies of the two readers (`lazyBody`, `lazyAtErr`: the code after
`if isPrefix { continue }`, resp. inside `if err != nil`) it gives: -/

/-- **FASTQ, one call**: `fastq.Reader.Read` run lazily over any reader between calls is the model's
    `read` on the line-level view of the remaining input; the reader it leaves views the rest. -/
theorem fastq_read_lazy (cfg : Biogo.Fastq.Cfg) (b : Reader) (hinv : Inv b) (hfin : b.src.fin = .eof) :
    ∃ ret rest p b',
      Biogo.Fastq.read cfg (Biogo.Spec.Bufio.lineInput b.size b.src.withData b.stream).1
        (Biogo.Spec.Bufio.lineInput b.size b.src.withData b.stream).2 = .ok (ret, rest, p) ∧
      Biogo.Fastq.readLazy cfg b = some (.ok ret, b') ∧ Inv b' ∧ SameCfg b b' ∧
      Biogo.Spec.Bufio.lineInput b'.size b'.src.withData b'.stream = (rest, p) :=
  Biogo.Fastq.readLazy_spec cfg b hinv hfin

/-- **FASTQ, the whole history**: every call run lazily over `bufio.NewReader(rd)`, any chunking —
    the history is `Biogo.Fastq.readAll`. -/
theorem fastq_lazy_image (cfg : Biogo.Fastq.Cfg) (bs : Bytes) (pol : Nat → Nat → Nat) (wd : Bool)
    (hp : Progressing pol) :
    Biogo.Fastq.readAllLazy cfg (Biogo.Go.Bytes.lineCount bs + 1) (newReader (fileSrc bs pol wd))
      = Biogo.Fastq.readAll cfg wd bs := by
  have hinv : Inv (newReader (fileSrc bs pol wd)) := inv_newReaderSize _ _ hp (by show Err.eof ≠ Err.bufferFull; decide)
  rw [Biogo.Fastq.readAllLazy_eq cfg _ _ hinv rfl]
  have : Biogo.Spec.Bufio.lineInput (newReader (fileSrc bs pol wd)).size (newReader (fileSrc bs pol wd)).src.withData
      (newReader (fileSrc bs pol wd)).stream = Biogo.Go.Bytes.readLineInput wd bs := by
    rw [← lineInput_default]; rfl
  rw [this]
  rfl

/-- **FASTA, one call** (any user-set prefixes, any persistent state `st`) -/
theorem fasta_read_lazy (cfg : Biogo.Fasta.Cfg) (st : Biogo.Fasta.St) (b : Reader) (hinv : Inv b)
    (hfin : b.src.fin = .eof) :
    ∃ ret st' rest b',
      Biogo.Fasta.read cfg st ((Biogo.Spec.Bufio.lineInput b.size b.src.withData b.stream).1 ++
        Biogo.Fasta.optLine (Biogo.Spec.Bufio.lineInput b.size b.src.withData b.stream).2) = .ok (ret, st', rest) ∧
      Biogo.Fasta.readLazy cfg st b = some (.ok (ret, st'), b') ∧ Inv b' ∧ SameCfg b b' ∧
      rest = (Biogo.Spec.Bufio.lineInput b'.size b'.src.withData b'.stream).1 ++
        Biogo.Fasta.optLine (Biogo.Spec.Bufio.lineInput b'.size b'.src.withData b'.stream).2 :=
  Biogo.Fasta.readLazy_spec cfg st b hinv hfin

/-- **FASTA, the whole history**, lazily over `bufio.NewReader(rd)`, any chunking, any prefixes —
    the history is `Biogo.Fasta.readAll`. -/
theorem fasta_lazy_image (cfg : Biogo.Fasta.Cfg) (bs : Bytes) (pol : Nat → Nat → Nat) (wd : Bool)
    (hp : Progressing pol) :
    Biogo.Fasta.readAllLazy cfg ((Biogo.Go.Bytes.splitLines bs).length + 1) {} (newReader (fileSrc bs pol wd))
      = Biogo.Fasta.readAll cfg bs := by
  have hinv : Inv (newReader (fileSrc bs pol wd)) := inv_newReaderSize _ _ hp (by show Err.eof ≠ Err.bufferFull; decide)
  rw [Biogo.Fasta.readAllLazy_eq cfg _ _ _ hinv rfl]
  have : (Biogo.Spec.Bufio.lineInput (newReader (fileSrc bs pol wd)).size (newReader (fileSrc bs pol wd)).src.withData
      (newReader (fileSrc bs pol wd)).stream).1 ++ Biogo.Fasta.optLine (Biogo.Spec.Bufio.lineInput
        (newReader (fileSrc bs pol wd)).size (newReader (fileSrc bs pol wd)).src.withData
        (newReader (fileSrc bs pol wd)).stream).2 = Biogo.Go.Bytes.splitLines bs :=
    lineInput_all_lines 4096 (by decide) wd bs
  rw [this]
  rfl

/-! ### C04 at the byte level -/

open Biogo.Spec.Seqio in
/-- **FASTA, lines of any length through a 4096-byte buffer.**  Two byte strings holding the same
    well-formed records in any layout (`FastaRenders`: one physical line of any length, any wrap
    width, blank lines, trailing blanks, CRLF, final newline or not), read through
    `bufio.NewReader` over underlying readers with any chunking and either timing of `io.EOF`,
    give the same call history: these records, then `io.EOF`. -/
theorem fasta_long_lines (recs : List Biogo.Fasta.Rec) (bs₁ bs₂ : Bytes)
    (pol₁ pol₂ : Nat → Nat → Nat) (wd₁ wd₂ : Bool) (hp₁ : Progressing pol₁) (hp₂ : Progressing pol₂)
    (hwf : ∀ r ∈ recs, wfFasta r = true) (h₁ : FastaRenders recs bs₁) (h₂ : FastaRenders recs bs₂) :
    fastaOverBufio {} (fileSrc bs₁ pol₁ wd₁) = fastaOverBufio {} (fileSrc bs₂ pol₂ wd₂) ∧
    fastaOverBufio {} (fileSrc bs₁ pol₁ wd₁)
      = recs.map (fun r => Biogo.Fasta.Call.ret ⟨some r, none⟩) ++ [Biogo.Fasta.Call.ret ⟨none, some .eof⟩] := by
  rw [fasta_over_bufio _ _ _ _ hp₁, fasta_over_bufio _ _ _ _ hp₂]
  exact C04_seq.fasta_layout_independent recs bs₁ bs₂ hwf h₁ h₂

open Biogo.Spec.Seqio Biogo.Fastq in
/-- **FASTQ, lines of any length through a 4096-byte buffer** (`linear.QSeq`, every Phred-offset
    encoding). -/
theorem fastq_long_lines (tabs : QTables) (enc : Encoding) (recs : List QRec) (bs₁ bs₂ : Bytes)
    (pol₁ pol₂ : Nat → Nat → Nat) (wd₁ wd₂ : Bool) (hp₁ : Progressing pol₁) (hp₂ : Progressing pol₂)
    (hwf : ∀ r ∈ recs, wfFastq enc r = true)
    (h₁ : FastqRenders (qlineOf tabs enc) recs bs₁) (h₂ : FastqRenders (qlineOf tabs enc) recs bs₂) :
    fastqOverBufio ⟨.qseq enc, tabs⟩ (fileSrc bs₁ pol₁ wd₁) = fastqOverBufio ⟨.qseq enc, tabs⟩ (fileSrc bs₂ pol₂ wd₂) ∧
    fastqOverBufio ⟨.qseq enc, tabs⟩ (fileSrc bs₁ pol₁ wd₁)
      = recs.map (fun r => Call.ret ⟨some r, none⟩) ++ [Call.ret ⟨none, some .eof⟩] := by
  rw [fastq_over_bufio _ _ _ _ hp₁, fastq_over_bufio _ _ _ _ hp₂]
  exact C04_seq.fastq_layout_independent tabs enc wd₁ wd₂ recs bs₁ bs₂ hwf h₁ h₂

open Biogo.BytesFeat in
/-- **BED and GFF, every byte string, lines of any length**: CRLF terminators and a missing final
    newline change nothing at the byte level either. -/
theorem feat_long_lines (n : Nat) (o : Biogo.Gff.Oracles) (x : List UInt8) (hx : x ≠ []) (hlast : x.getLast hx ≠ 10)
    (pol₁ pol₂ : Nat → Nat → Nat) (wd₁ wd₂ : Bool) (hp₁ : Progressing pol₁) (hp₂ : Progressing pol₂) :
    bedOverBufio n (fileSrc (crlf x) pol₁ wd₁) = bedOverBufio n (fileSrc (x ++ [10]) pol₂ wd₂) ∧
    gffOverBufio o (fileSrc (crlf x) pol₁ wd₁) = gffOverBufio o (fileSrc (x ++ [10]) pol₂ wd₂) := by
  rw [bed_over_bufio _ _ _ _ hp₁, bed_over_bufio _ _ _ _ hp₂, gff_over_bufio _ _ _ _ hp₁, gff_over_bufio _ _ _ _ hp₂]
  exact ⟨C04_feat.bed_read_crlf_no_final_newline n x hx hlast, C04_feat.gff_read_crlf_no_final_newline o x hx hlast⟩

set_option maxRecDepth 200000 in
/-- non-vacuity: a one-record FASTA file whose sequence line is 5000 letters long (longer than
    the buffer), read one byte at a time, is read as the record -/
example : fastaOverBufio {} (fileSrc ([62, 120, 10] ++ List.replicate 5000 97 ++ [13, 10]) (fun _ _ => 1) false)
    = [.ret ⟨some ⟨[120], [], List.replicate 5000 97⟩, none⟩, .ret ⟨none, some .eof⟩] := by
  rw [fasta_over_bufio _ _ _ _ (fun _ _ _ => Nat.le_refl 1)]
  decide +kernel

end Biogo.Properties.C04_bufio
