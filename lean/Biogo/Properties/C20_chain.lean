/-
C20, third wave — the location chain changes between two queries.

`UTR5` / `UTR3` (and the shorthands `UTR5start` …) ask `feat.BaseOrientationOf(t)` on every call, and
`BasePositionOf` / `PositionWithin` / `OrientationWithin` walk the chain on every call: nothing is
remembered.  So when a caller gives the gene, a contig or the transcript itself another orientation
(or another start) between two queries, the second query answers for the chain *as it is now*.
The histories of the driver (`tx`: `O<k>=<o>`, `M<k>=<s>`; `ch`: the same between queries) carry the
current chain (`Gene.TcState`, `Feat.chainApply`), and the theorems below say what the model — the
definitions the driver runs — answers after such a change.  (Seeded change C20-m5 memoises the base
orientation in the transcript and refreshes it only when `t.Loc` / `t.Orient` change: it falsifies
`utr_layout_follows_current_orientation` after a flip above the transcript.)

Property theorems only; helpers are in `Biogo/Proofs/FeatChain.lean`.
-/
import Biogo.Properties.C20
import Biogo.Proofs.FeatChain

namespace Biogo.Properties.C20_chain
open Biogo.Gene Biogo.Feat Biogo.Spec.Gene Biogo.Proofs.Feat Biogo.Proofs.FeatChain Biogo.Properties.C20

deriving instance DecidableEq for Except

/-! ## The UTR/CDS layout is a function of the current chain -/

/-- **The layout keeps no memory of earlier orientations.**  Take any two histories — any initial
    chains, any sequences of `SetExons` / `Add` / re-sliced `Add` operations and of assignments to the
    orientation or start of the transcript or of any feature above it, at any nesting level, to any
    value.  If the chains they end with are the same (and the transcript is as long), `UTR5`, `CDS`
    and `UTR3` answer the same in both: what the chain *was* when an earlier query was made does not
    matter. -/
theorem utr_layout_depends_on_current_orientation (cdsStart cdsEnd : Int)
    (id id' : Nat) (n0 n0' : Node) (l0 l0' : Chain) (ops ops' : List TcOp) :
    let st := tcRun (tcInit id n0 l0) ops
    let st' := tcRun (tcInit id' n0' l0') ops'
    st.node :: st.loc = st'.node :: st'.loc →
    endOf (read st.h st.t.exons) = endOf (read st'.h st'.t.exons) →
    layout st cdsStart cdsEnd = layout st' cdsStart cdsEnd := by
  intro st st' hc hl
  simp only [List.cons.injEq] at hc
  simp only [layout, TcState.coding, hc.1, hc.2, hl]

/-- a change of the chain is not an update of the exon set: heap and exon slice are untouched, it is
    never rejected (what the driver demands after `O` / `M`: the exons shown are still the previous
    ones), and the chain afterwards is the assignment applied to the chain before -/
theorem chain_change_keeps_exons (st : TcState) (op : ChainOp) :
    (tcApply st (.chain op)).1.node :: (tcApply st (.chain op)).1.loc = chainApply (st.node :: st.loc) op ∧
    read (tcApply st (.chain op)).1.h (tcApply st (.chain op)).1.t.exons = read st.h st.t.exons ∧
    (tcApply st (.chain op)).2 = none := by
  obtain ⟨h1, h2, h3, h4⟩ := tcApply_chain st op
  exact ⟨h1, by rw [h2, h3], h4⟩

/-- **"the 5'UTR, CDS and 3'UTR tile it in the order dictated by its orientation" — the orientation
    it has now.**  In every state — in particular the state after any history of exon updates and
    orientation changes — in which the transcript is oriented (chain within the depth limit,
    orientations among forward / reverse / not oriented): with `o` the product of the orientations
    along the orientable run of the *current* chain, `o` is `1` or `-1`; for `o = 1` the three
    queries answer `UTR5 = [0, CDSstart)`, `CDS`, `UTR3 = [CDSend, Len)`, for `o = -1`
    `UTR5 = [CDSend, Len)`, `CDS`, `UTR3 = [0, CDSstart)`; and the three abut from 0 to `Len` in the
    order 5'–CDS–3' resp. 3'–CDS–5'. -/
theorem utr_layout_follows_current_orientation (st : TcState) (cdsStart cdsEnd : Int)
    (ht : st.node.oriented = true) (hlen : (st.node :: st.loc).length ≤ limit)
    (hv : ValidOrients (st.node :: st.loc)) :
    let o := orientProduct (st.node :: st.loc)
    let len := endOf (read st.h st.t.exons)
    (o = 1 ∨ o = -1) ∧
    layout st cdsStart cdsEnd =
      (if o = 1 then (.ok (0, cdsStart), (cdsStart, cdsEnd - cdsStart), .ok (cdsEnd, len - cdsEnd))
       else (.ok (cdsEnd, len - cdsEnd), (cdsStart, cdsEnd - cdsStart), .ok (0, cdsStart))) ∧
    ∃ u5 u3, utr5 (st.coding cdsStart cdsEnd) = .ok u5 ∧ utr3 (st.coding cdsStart cdsEnd) = .ok u3 ∧
      abuts 0 len (utrOrder o (pieceOf u5) (pieceOf (cds (st.coding cdsStart cdsEnd))) (pieceOf u3)) = true := by
  intro o len
  have ho : o = 1 ∨ o = -1 := orientProduct_pm_one _ hv
  have hbo : baseOrientationOf ((st.coding cdsStart cdsEnd).node :: (st.coding cdsStart cdsEnd).loc)
      = .ok (o, runRef st.node st.loc) := utr_orientation (st.coding cdsStart cdsEnd) ht hlen
  obtain ⟨u5, u3, h5, h3, hab, _, _⟩ := utr_cds_tile (st.coding cdsStart cdsEnd) o _ hbo ho
  refine ⟨ho, ?_, u5, u3, h5, h3, hab⟩
  rcases ho with h1 | h1
  · simp only [layout, utr5, utr3, cds, hbo, h1, if_true]
    rfl
  · simp only [layout, utr5, utr3, cds, hbo, h1]
    rfl

/-- **Flipping a feature of the orientable run, at any nesting level, swaps the two UTRs.**  Let the
    current chain be `pre ++ x :: rest` with every feature of `pre` and `x` itself oriented (`pre = []`:
    `x` is the transcript, `t.Orient`; otherwise `x` is a location above it — the gene, a contig …).
    After `x.Orient = -x.Orient`, whatever was queried before, `UTR5` answers what `UTR3` answered
    before and vice versa (both are defined), and the exon set is untouched. -/
theorem orientation_flip_swaps_utrs (st : TcState) (cdsStart cdsEnd : Int)
    (pre : List Node) (x : Node) (rest : Chain) (hc : st.node :: st.loc = pre ++ x :: rest)
    (hpre : ∀ y ∈ pre, y.oriented = true) (hx : x.oriented = true)
    (hlen : (st.node :: st.loc).length ≤ limit) (hv : ValidOrients (st.node :: st.loc)) :
    let st' := (tcApply st (.chain (.orient pre.length (-x.ori)))).1
    orientProduct (st'.node :: st'.loc) = -orientProduct (st.node :: st.loc) ∧
    (∃ u5 u3, utr5 (st.coding cdsStart cdsEnd) = .ok u5 ∧ utr3 (st.coding cdsStart cdsEnd) = .ok u3 ∧
      utr5 (st'.coding cdsStart cdsEnd) = .ok u3 ∧ utr3 (st'.coding cdsStart cdsEnd) = .ok u5) ∧
    read st'.h st'.t.exons = read st.h st.t.exons := by
  intro st'
  obtain ⟨hch, hread, _⟩ := chain_change_keeps_exons st (.orient pre.length (-x.ori))
  have hc' : st'.node :: st'.loc = pre ++ x.setOrient (-x.ori) :: rest := by
    show (tcApply st (.chain (.orient pre.length (-x.ori)))).1.node :: _ = _
    rw [hch, hc]
    exact modifyAt_split _ pre x rest
  obtain ⟨hx1, hx2⟩ := setOrient_neg x hx
  -- the head of both chains is oriented
  have ht : st.node.oriented = true := by
    cases pre with
    | nil => simp only [List.nil_append, List.cons.injEq] at hc; rw [hc.1]; exact hx
    | cons a pre' =>
      simp only [List.cons_append, List.cons.injEq] at hc; rw [hc.1]; exact hpre a (List.mem_cons_self ..)
  have ht' : st'.node.oriented = true := by
    cases pre with
    | nil => simp only [List.nil_append, List.cons.injEq] at hc'; rw [hc'.1]; exact hx1
    | cons a pre' =>
      simp only [List.cons_append, List.cons.injEq] at hc'; rw [hc'.1]; exact hpre a (List.mem_cons_self ..)
  have hprod : orientProduct (st'.node :: st'.loc) = -orientProduct (st.node :: st.loc) := by
    rw [hc', hc]; exact orientProduct_flip pre x rest hpre hx
  have hlen' : (st'.node :: st'.loc).length ≤ limit := by
    rw [hc']; rw [hc] at hlen
    simpa [List.length_append] using hlen
  have hbo : baseOrientationOf ((st.coding cdsStart cdsEnd).node :: (st.coding cdsStart cdsEnd).loc)
      = .ok (orientProduct (st.node :: st.loc), runRef st.node st.loc) :=
    utr_orientation (st.coding cdsStart cdsEnd) ht hlen
  have hbo' : baseOrientationOf ((st'.coding cdsStart cdsEnd).node :: (st'.coding cdsStart cdsEnd).loc)
      = .ok (-orientProduct (st.node :: st.loc), runRef st'.node st'.loc) := by
    rw [← hprod]; exact utr_orientation (st'.coding cdsStart cdsEnd) ht' hlen'
  have hl : (st'.coding cdsStart cdsEnd).len = (st.coding cdsStart cdsEnd).len := by
    show endOf (read st'.h st'.t.exons) = endOf (read st.h st.t.exons)
    rw [show read st'.h st'.t.exons = read st.h st.t.exons from hread]
  refine ⟨hprod, ?_, hread⟩
  rcases orientProduct_pm_one _ hv with h1 | h1
  · refine ⟨(0, cdsStart), (cdsEnd, (st.coding cdsStart cdsEnd).len - cdsEnd), ?_, ?_, ?_, ?_⟩
    · simp only [utr5, hbo, h1, if_true]; rfl
    · simp only [utr3, hbo, h1, if_true]; rfl
    · simp only [utr5, hbo', h1, hl]; rfl
    · simp only [utr3, hbo', h1]; rfl
  · refine ⟨(cdsEnd, (st.coding cdsStart cdsEnd).len - cdsEnd), (0, cdsStart), ?_, ?_, ?_, ?_⟩
    · simp only [utr5, hbo, h1]; rfl
    · simp only [utr3, hbo, h1]; rfl
    · simp only [utr5, hbo', h1]; rfl
    · simp only [utr3, hbo', h1, hl]; rfl

/-- the reference of the base orientation does not move when a feature of the run is flipped, and
    `BaseOrientationOf` itself is negated — the orientation composes multiplicatively in the chain as
    it is now -/
theorem baseOrientation_follows_flip (pre : List Node) (x : Node) (rest : Chain) (f : Node) (tl : Chain)
    (hc : pre ++ x :: rest = f :: tl) (hpre : ∀ y ∈ pre, y.oriented = true) (hx : x.oriented = true)
    (hlen : (f :: tl).length ≤ limit) :
    ∃ o r, baseOrientationOf (pre ++ x :: rest) = .ok (o, r) ∧
      baseOrientationOf (chainApply (pre ++ x :: rest) (.orient pre.length (-x.ori))) = .ok (-o, r) := by
  have happ : chainApply (pre ++ x :: rest) (.orient pre.length (-x.ori)) = pre ++ x.setOrient (-x.ori) :: rest :=
    modifyAt_split _ pre x rest
  obtain ⟨hx1, _⟩ := setOrient_neg x hx
  cases hc' : pre ++ x.setOrient (-x.ori) :: rest with
  | nil => cases pre <;> simp at hc'
  | cons f' tl' =>
    have hf : f.oriented = true := by
      cases pre with
      | nil => simp only [List.nil_append, List.cons.injEq] at hc; rw [← hc.1]; exact hx
      | cons a pre' =>
        simp only [List.cons_append, List.cons.injEq] at hc; rw [← hc.1]; exact hpre a (List.mem_cons_self ..)
    have hf' : f'.oriented = true := by
      cases pre with
      | nil => simp only [List.nil_append, List.cons.injEq] at hc'; rw [← hc'.1]; exact hx1
      | cons a pre' =>
        simp only [List.cons_append, List.cons.injEq] at hc'; rw [← hc'.1]; exact hpre a (List.mem_cons_self ..)
    have hlen' : (f' :: tl').length ≤ limit := by
      rw [← hc']; rw [← hc] at hlen
      simpa [List.length_append] using hlen
    refine ⟨orientProduct (f :: tl), runRef f tl, ?_, ?_⟩
    · rw [hc, baseOrientationOf_eq f tl hlen]
      simp [baseOrientSpec, hf]
    · rw [happ, hc', baseOrientationOf_eq f' tl' hlen']
      simp only [baseOrientSpec, hf', if_true, Option.getD_some]
      rw [← hc', orientProduct_flip pre x rest hpre hx, hc, runRef_flip pre x rest f tl f' tl' hx hc hc']

-- non-vacuity, decided: a forward transcript (CDS [5, 40) of 109 bases) on a forward gene on a
-- forward contig on a chromosome.  Queried, then the *gene* is flipped: the two UTRs swap; then the
-- contig is flipped as well: they swap back; then the gene becomes not oriented: the run ends below
-- it and the transcript's own orientation decides.  A second history that starts with the gene
-- reversed and never changes anything ends with the same chain as the first after its first flip,
-- and has the same layout.
example :
    let t : Node := ⟨1, 20, some 1⟩
    let chain : Chain := [⟨10, 100, some 1⟩, ⟨11, 5, some 1⟩, ⟨12, 0, none⟩]
    let exons : List Exon := [⟨1, 0, 15, 1⟩, ⟨1, 15, 50, 2⟩, ⟨1, 94, 15, 3⟩]
    let s0 := tcRun (tcInit 1 t chain) [.tx (.set exons)]
    let s1 := tcRun s0 [.chain (.orient 1 (-1))]
    let s2 := tcRun s1 [.chain (.orient 2 (-1))]
    let s3 := tcRun s2 [.chain (.orient 1 0)]
    layout s0 5 40 = (.ok (0, 5), (5, 35), .ok (40, 69)) ∧
    layout s1 5 40 = (.ok (40, 69), (5, 35), .ok (0, 5)) ∧
    layout s2 5 40 = (.ok (0, 5), (5, 35), .ok (40, 69)) ∧
    layout s3 5 40 = (.ok (0, 5), (5, 35), .ok (40, 69)) := by
  decide

example :
    let t : Node := ⟨1, 20, some 1⟩
    let chain : Chain := [⟨10, 100, some 1⟩, ⟨11, 5, some 1⟩, ⟨12, 0, none⟩]
    let exons : List Exon := [⟨1, 0, 15, 1⟩, ⟨1, 15, 50, 2⟩, ⟨1, 94, 15, 3⟩]
    let s1 := tcRun (tcInit 1 t chain) [.tx (.set exons), .chain (.orient 1 (-1))]
    let s2 := tcRun s1 [.chain (.orient 2 (-1))]
    let s1' := tcRun (tcInit 1 t [⟨10, 100, some (-1)⟩, ⟨11, 5, some 1⟩, ⟨12, 0, none⟩]) [.tx (.set exons)]
    orientProduct (s1.node :: s1.loc) = -1 ∧ orientProduct (s2.node :: s2.loc) = 1 ∧
    s1.node :: s1.loc = s1'.node :: s1'.loc ∧ layout s1' 5 40 = layout s1 5 40 ∧
    read s1.h s1.t.exons = exons := by
  decide

/-- Refutation witness for seeded change C20-m5 (`decide`): with the base orientation memoised in the
    transcript and refreshed only when `t.Loc` / `t.Orient` change (`utr5Memo`), the forward
    transcript on a forward gene answers `UTR5 = [0, 5)`; the gene is flipped — `t.Loc` is the same
    gene, `t.Orient` the same — and the second query still answers `[0, 5)`, while the chain as it is
    now dictates `[40, 109)` (`utr5`, the model the driver runs): the statement of
    `utr_layout_follows_current_orientation` is false of the memoised variant. -/
theorem memoised_orientation_goes_stale :
    let t : Node := ⟨1, 20, some 1⟩
    let s0 := tcRun (tcInit 1 t [⟨10, 100, some 1⟩, ⟨12, 0, none⟩]) [.tx (.set [⟨1, 0, 15, 1⟩, ⟨1, 15, 50, 2⟩, ⟨1, 94, 15, 3⟩])]
    let q0 := utr5Memo OriMemo.empty (s0.coding 5 40)
    let s1 := tcRun s0 [.chain (.orient 1 (-1))]
    let q1 := utr5Memo q0.1 (s1.coding 5 40)
    q0.2 = .ok (0, 5) ∧ utr5 (s0.coding 5 40) = .ok (0, 5) ∧
    q1.2 = .ok (0, 5) ∧ utr5 (s1.coding 5 40) = .ok (40, 69) ∧
    orientProduct (s1.node :: s1.loc) = -1 := by
  decide

/-! ## Positions follow a feature that is moved between two queries -/

/-- **`BasePositionOf` follows a move.**  When the `k`-th feature `x` of the chain (the feature itself,
    its location, the gene, …) is given the start `s` between two queries, the base position of every
    `p` shifts by exactly `s - x.Start()` and the reference stays the same feature: nested positions
    compose additively in the chain as it is now. -/
theorem basePosition_follows_move (pre : List Node) (x : Node) (rest : Chain) (s p : Int)
    (hlen : (pre ++ x :: rest).length ≤ limit) :
    ∃ q r, basePositionOf (pre ++ x :: rest) p = .ok (q, r) ∧
      basePositionOf (chainApply (pre ++ x :: rest) (.move pre.length s)) p = .ok (q + (s - x.start), r) := by
  have happ : chainApply (pre ++ x :: rest) (.move pre.length s) = pre ++ x.setStart s :: rest :=
    modifyAt_split _ pre x rest
  obtain ⟨f, tl, hc⟩ : ∃ f tl, pre ++ x :: rest = f :: tl := by
    cases pre with
    | nil => exact ⟨_, _, rfl⟩
    | cons a pre' => exact ⟨_, _, rfl⟩
  obtain ⟨f', tl', hc'⟩ : ∃ f' tl', pre ++ x.setStart s :: rest = f' :: tl' := by
    cases pre with
    | nil => exact ⟨_, _, rfl⟩
    | cons a pre' => exact ⟨_, _, rfl⟩
  have hl : (f :: tl).length ≤ limit := by rw [← hc]; exact hlen
  have hl' : (f' :: tl').length ≤ limit := by
    rw [← hc']; simpa [List.length_append] using hlen
  refine ⟨p + startSum (f :: tl), lastId f tl, by rw [hc]; exact basePositionOf_eq f tl p hl, ?_⟩
  rw [happ, hc', basePositionOf_eq f' tl' p hl', ← hc', startSum_setStart, hc,
    lastId_replace pre x (x.setStart s) rest f tl f' tl' rfl hc hc']
  congr 2; omega

/-- **`PositionWithin` follows a move below the reference.**  `m` encloses the moved feature `x`
    (`x` is the feature itself or lies between it and `m`): after the move the position within `m`
    is the sum of the starts as they are now — shifted by `s - x.Start()`. -/
theorem positionWithin_follows_move (pre : List Node) (x : Node) (mid : List Node) (m : Node) (rest : Chain)
    (s p : Int) (hne : ∀ y ∈ pre ++ x :: mid, y.id ≠ m.id) (hlen : (pre ++ x :: mid).length < limit) :
    positionWithin (pre ++ x :: mid ++ m :: rest) (some m.id) p = .ok (p + startSum (pre ++ x :: mid), true) ∧
    positionWithin (chainApply (pre ++ x :: mid ++ m :: rest) (.move pre.length s)) (some m.id) p
      = .ok (p + startSum (pre ++ x :: mid) + (s - x.start), true) := by
  constructor
  · have := positionWithin_eq (pre ++ x :: mid) m rest p hne hlen
    simpa [List.append_assoc] using this
  · have happ : chainApply (pre ++ x :: mid ++ m :: rest) (.move pre.length s)
        = (pre ++ x.setStart s :: mid) ++ m :: rest := by
      have := modifyAt_split (·.setStart s) pre x (mid ++ m :: rest)
      simp only [List.append_assoc, List.cons_append] at this ⊢
      exact this
    rw [happ]
    have hne' : ∀ y ∈ pre ++ x.setStart s :: mid, y.id ≠ m.id := by
      intro y hy
      simp only [List.mem_append, List.mem_cons] at hy
      rcases hy with hy | hy | hy
      · exact hne y (by simp [hy])
      · rw [hy]; exact hne x (by simp)
      · exact hne y (by simp [hy])
    have hlen' : (pre ++ x.setStart s :: mid).length < limit := by
      simpa [List.length_append] using hlen
    rw [positionWithin_eq (pre ++ x.setStart s :: mid) m rest p hne' hlen', startSum_setStart]
    congr 2; omega

/-- **… and ignores a move at or above the reference**: whatever is assigned to `m` itself (its start,
    its orientation) or to anything above it, the position of the feature within `m` is what it was. -/
theorem positionWithin_ignores_move_above (pre : List Node) (m m' : Node) (rest rest' : Chain) (p : Int)
    (hid : m'.id = m.id) (hne : ∀ y ∈ pre, y.id ≠ m.id) (hlen : pre.length < limit) :
    positionWithin (pre ++ m' :: rest') (some m.id) p = positionWithin (pre ++ m :: rest) (some m.id) p := by
  rw [positionWithin_eq pre m rest p hne hlen, ← hid,
    positionWithin_eq pre m' rest' p (by rw [hid]; exact hne) hlen]

-- non-vacuity: exon (start 20) in transcript (100) in gene (1000) on a chromosome; the gene is moved
-- to 1500 between two queries: the base position follows, the position within the transcript does not
example :
    let c : Chain := [⟨1, 20, some 1⟩, ⟨2, 100, some (-1)⟩, ⟨3, 1000, some 1⟩, ⟨4, 0, none⟩]
    let c' := chainApply c (.move 2 1500)
    basePositionOf c 5 = .ok (1125, 4) ∧ basePositionOf c' 5 = .ok (1625, 4) ∧
    positionWithin c (some 4) 5 = .ok (1125, true) ∧ positionWithin c' (some 4) 5 = .ok (1625, true) ∧
    positionWithin c (some 2) 5 = .ok (25, true) ∧ positionWithin c' (some 2) 5 = .ok (25, true) := by
  refine ⟨rfl, rfl, rfl, rfl, rfl, rfl⟩

end Biogo.Properties.C20_chain
