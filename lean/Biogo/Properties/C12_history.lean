/-
C12, whole histories — the concurrent-mode sorter under every schedule, for every well-formed
history of use cycles on one sorter (push*, Finalise, pull*, Clear — `Clear` in concurrent mode
as the code does it: close/remove every run file, reset the error slot, take a buffer from
`pool` if one is there).  Same labelled transition system as `Properties/C12.lean`
(`Biogo.MorassConc.sys`, the system the driver runs); the caller's program is `histOps h`.
-/
import Biogo.Model.MorassConc
import Biogo.Spec.Morass
import Biogo.Proofs.MorassConc
import Biogo.Proofs.MorassCycle
import Biogo.Proofs.MorassHistory
import Biogo.Proofs.MorassReject
import Biogo.Properties.C11

namespace Biogo.Properties.C12_history
open Biogo.Morass Biogo.MorassConc Biogo.Interleave

/-- the empty program: nothing ever happens -/
theorem reach_empty {conc : Bool} {c : Nat} {ac acl : Bool} {flt : Fault} {s : CState}
    (hr : Reach (sys conc c ac acl [] flt) s) : s.outs = [] := by
  have : s.outs = [] ∧ s.prog = [] ∧ s.pc = .idle ∧ s.writers = [] := by
    refine inv_of_reach _ (fun s => s.outs = [] ∧ s.prog = [] ∧ s.pc = .idle ∧ s.writers = [])
      ⟨rfl, rfl, rfl, rfl⟩ ?_ s hr
    intro a i b ⟨_, h2, h3, h4⟩ hst
    exfalso
    cases i with
    | zero =>
      have hst : cstep a = some b := hst
      simp [cstep, h3, h2] at hst
    | succ k =>
      have hst : MorassConc.step a (k + 1) = some b := hst
      simp [MorassConc.step, h4] at hst
  exact this.1

/-- **Every cycle's pulls are the sorted multiset of that cycle's pushes, whatever the
    interleaving — for whole histories.**  For every chunk size ≥ 1, background writing on or
    off, AutoClear/AutoClean on or off, every well-formed history `h` of use cycles on one
    sorter (a cycle may stay in memory or spill, be drained partially, exactly, or beyond
    io.EOF; every cycle but the last ends with `Clear` or is closed by AutoClear) and every
    schedule of the caller against the background chunk writers (`Reach`): in every state in
    which the caller has returned from its last call, the outputs of all its calls satisfy
    `HistorySpec` — cycle by cycle there is a non-decreasing permutation `ys` of the values
    pushed in that cycle such that every `Push`, `Finalise` and `Clear` succeeded, the j-th
    `Pull` delivered `ys[j]`, then `io.EOF`; `Len`/`Pos` as the property states.  Writers spawned
    by an earlier cycle never leak a value into a later one.

    (AutoClean: the model records the removal of the temporary directory when a `Pull` reports
    io.EOF but does not make a *later* temporary-file creation fail in the removed directory, as
    the operating system does; the correspondence therefore generates AutoClean only for
    histories in which no cycle but the last is drained, and for `acl = true` the theorem is
    tied to the code on those.) -/
theorem conc_history_sorted_multiset (c : Nat) (hc : 1 ≤ c) (conc ac acl : Bool) (h : List Cycle)
    (hwf : wellFormed ac h = true) {s : CState}
    (hr : Reach (sys conc c ac acl (histOps h) []) s) (hfin : finished s = true) :
    HistorySpec ac h s.outs.reverse := by
  cases h with
  | nil =>
    have : s.outs = [] := reach_empty (by simpa [histOps] using hr)
    simp [HistorySpec, this]
  | cons cy todo =>
    rcases finished_of_HInv c ac (reach_HInv c ac hc hwf hr) hfin with hrep | hspec
    · obtain ⟨o, ho, hio⟩ := hrep
      exact absurd hio ((reach_NoFault hr).2.2 o ho)
    · exact hspec

/-- reading of `conc_history_sorted_multiset` at the level the driver compares: result kinds,
    pulled keys, `Len`, `Pos` of every call of the history are a function of the history alone
    (the j-th pull of a cycle delivers the j-th smallest key pushed in that cycle), hence the
    same for every schedule and the same as in the sequential mode -/
theorem conc_history_schedule_independent (c : Nat) (hc : 1 ≤ c) (ac acl : Bool) (h : List Cycle)
    (hwf : wellFormed ac h = true) {conc₁ conc₂ : Bool} {s₁ s₂ : CState}
    (hr₁ : Reach (sys conc₁ c ac acl (histOps h) []) s₁) (hfin₁ : finished s₁ = true)
    (hr₂ : Reach (sys conc₂ c ac acl (histOps h) []) s₂) (hfin₂ : finished s₂ = true) :
    s₁.outs.reverse.map Out.keyed = s₂.outs.reverse.map Out.keyed := by
  have keyed := @Biogo.Properties.C11.historySpec_keyed ac
  rw [keyed h _ (conc_history_sorted_multiset c hc conc₁ ac acl h hwf hr₁ hfin₁),
      keyed h _ (conc_history_sorted_multiset c hc conc₂ ac acl h hwf hr₂ hfin₂)]

/-- **A rejected Push is a no-op of the history, whatever the interleaving** (no fault; with a
    fault: `C13_history.history_rejected_push_noop`).  A program whose accepted calls are the
    well-formed history `h`, with `Push` calls of values of another type inserted anywhere — when
    the chunk is exactly full, right before `Finalise`, between the pulls: no rejected call spawns
    a writer or hands a chunk over (`reach_erase`: after erasing the rejected calls and their
    outputs every reachable state is one of the program without them), and when the caller has
    returned from its last call the outputs of the accepted calls satisfy `HistorySpec ac h`. -/
theorem conc_history_rejected_push_noop (c : Nat) (hc : 1 ≤ c) (conc ac acl : Bool) (h : List Cycle)
    (hwf : wellFormed ac h = true) (ops : List Op) (hops : dropRejects ops = histOps h)
    {s : CState} (hr : Reach (sys conc c ac acl ops []) s) (hfin : finished s = true) :
    HistorySpec ac h (dropRejOuts s.outs.reverse) := by
  have hr' := reach_erase hr
  rw [hops] at hr'
  have hspec := conc_history_sorted_multiset c hc conc ac acl h hwf hr' (finished_erase hfin)
  have e : (erase s).outs.reverse = dropRejOuts s.outs.reverse := by
    show (dropRejOuts s.outs).reverse = _
    simp [dropRejOuts, List.filter_reverse]
  rw [← e]; exact hspec

/-- non-vacuity: a two-cycle history (chunk 1; cycle 1 pushes 2 1, pulls one value, clears;
    cycle 2 pushes 4 3 and drains) under a schedule that interleaves the background writer of
    each cycle with the caller reaches a finished state; the second cycle delivers 3 4, not the
    2 left over from the first -/
example : ∃ s, Reach (sys true 1 false false
      (histOps [⟨[⟨2, 0⟩, ⟨1, 0⟩], 1, true⟩, ⟨[⟨4, 0⟩, ⟨3, 0⟩], 3, false⟩]) []) s
    ∧ finished s = true ∧ s.writers.length = 2
    ∧ s.outs.reverse.filterMap (·.val) = [⟨1, 0⟩, ⟨3, 0⟩, ⟨4, 0⟩] := by
  let S := sys true 1 false false (histOps [⟨[⟨2, 0⟩, ⟨1, 0⟩], 1, true⟩, ⟨[⟨4, 0⟩, ⟨3, 0⟩], 3, false⟩]) []
  let sched := [0, 0, 0, 1, 0, 1, 0, 1, 0, 1, 0, 1, 0, 0, 0, 0, 0, 0, 0, 0, 0, 0, 0, 2, 0, 2, 0, 2, 0, 2, 0, 2, 0, 0, 0, 0, 0, 0, 0]
  have h : (runFrom S S.init sched).isSome = true := by decide
  obtain ⟨s, hs⟩ := Option.isSome_iff_exists.mp h
  refine ⟨s, reach_run S _ s hs, ?_, ?_, ?_⟩
  · have : (runFrom S S.init sched).map finished = some true := by decide
    rw [hs] at this; simpa using this
  · have : (runFrom S S.init sched).map (·.writers.length) = some 2 := by decide
    rw [hs] at this; simpa using this
  · have : (runFrom S S.init sched).map (fun s => s.outs.reverse.filterMap (·.val)) = some [⟨1, 0⟩, ⟨3, 0⟩, ⟨4, 0⟩] := by decide
    rw [hs] at this; simpa using this

end Biogo.Properties.C12_history
