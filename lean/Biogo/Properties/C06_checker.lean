/-
C06 — what the driver demands of the implementation's observation (`Drive.C06.specTruncate`,
`specStitch`, `specCompose`, `specJoin`, `untouched`, `specTrim`) is exactly the declarative
statement of C06: the result shows, position by position, the letters of the source at the
named positions; the source is untouched; the Trim window is maximal over all windows.
(`isMaxWindow_iff` in `Properties/C06.lean` is the Trim core; this file covers the rest.)
-/
import Biogo.Drive.C06
import Biogo.Properties.C06

set_option linter.unusedSectionVars false
set_option linter.unusedSimpArgs false

namespace Biogo.Properties.C06_checker
open Biogo.Sequtils Biogo.Drive.C06

/-! ### "the letters at those positions", with no position lost -/

/-- inside the sequence, `truncateSpec` is the list of letters at `start … end-1`
    (resp. `start … End-1, Start … end-1`), one for every position -/
theorem truncateSpec_positions {α : Type} (xs : List α) (offset start stop : Int) (circ : Bool)
    (hin : truncateInside offset (offset + xs.length) circ start stop = true) :
    (truncateSpec xs offset start stop).map some =
      (truncatePositions offset (offset + xs.length) start stop).map (letterAt xs offset) := by
  unfold truncateSpec
  exact lettersAt_map_some xs offset _
    (Biogo.Properties.C06.truncatePositions_inside offset _ start stop circ hin)

/-- `stitchSpec` is the list of letters at the covered positions of `[Start, End)`, ascending,
    one for every such position -/
theorem stitchSpec_positions {α : Type} (xs : List α) (offset : Int) (fs : List Feat) :
    (stitchSpec xs offset fs).map some =
      (stitchPositions offset (offset + xs.length) fs).map (letterAt xs offset) ∧
    (∀ p, p ∈ stitchPositions offset (offset + xs.length) fs ↔
      (offset ≤ p ∧ p < offset + xs.length) ∧ ∃ f ∈ fs, f.s ≤ p ∧ p < f.e) ∧
    (stitchPositions offset (offset + xs.length) fs).Pairwise (· < ·) := by
  have hmem : ∀ p, p ∈ stitchPositions offset (offset + xs.length) fs ↔
      (offset ≤ p ∧ p < offset + xs.length) ∧ ∃ f ∈ fs, f.s ≤ p ∧ p < f.e := by
    intro p
    unfold stitchPositions covered
    rw [List.mem_filter, mem_intRange, List.any_eq_true]
    simp only [Bool.and_eq_true, decide_eq_true_eq]
  refine ⟨?_, hmem, ?_⟩
  · unfold stitchSpec
    exact lettersAt_map_some xs offset _ (fun p hp => ((hmem p).mp hp).1)
  · unfold stitchPositions
    apply List.Pairwise.filter
    unfold intRange
    rw [List.pairwise_map]
    exact (List.pairwise_lt_range).imp (by intro a b h; omega)

/-! ### the source is untouched -/

theorem untouched_iff (o : ImplOk) (xs : List El) (offset conf : Int) :
    untouched o xs offset conf = none ↔
      o.srcAfter = xs ∧ o.srcStart = offset ∧ o.srcConf = conf ∧ o.srcAfter2 = xs ∧ o.pads = true := by
  unfold untouched
  by_cases h1 : o.srcAfter = xs <;> by_cases h2 : o.srcStart = offset <;> by_cases h3 : o.srcConf = conf <;>
    by_cases h4 : o.srcAfter2 = xs <;> cases h5 : o.pads <;> simp [h1, h2, h3, h4]

/-! ### Truncate -/

/-- the driver's scope for "inside": the range is inside the sequence (`truncateInside`, wrapping
    allowed iff circular) -/
def tInside (xs : List El) (offset conf start stop : Int) : Bool :=
  truncateInside offset (offset + xs.length) (conf == confCircular) start stop

/-- an undefined conformation (neither linear nor circular) with a wrapping range that a circular
    sequence would accept: the property does not say which outcome is right -/
def tFree (xs : List El) (offset conf start stop : Int) : Bool :=
  decide (conf ≠ confLinear) && decide (conf ≠ confCircular) && decide (start > stop) &&
    truncateInside offset (offset + xs.length) true start stop

/-- **Truncate, checker = statement**: no violation is reported exactly when — the call answered:
    the range is inside (or free), the letters are `truncateSpec`, the result starts at `start` and
    is linear, and with `dst ≠ src` the source is untouched; the call returned an error value: the
    range is outside (or free) and with `dst ≠ src` the source letters are unchanged; a panic or an
    unreadable observation is always a violation. -/
theorem truncate_checker_iff (xs : List El) (offset conf : Int) (same : Bool) (start stop : Int) (i : Impl) :
    specTruncate xs offset conf same start stop i = none ↔
      match i with
      | .panic => False
      | .junk => False
      | .err _ a _ _ _ =>
        (tInside xs offset conf start stop = false ∨ tFree xs offset conf start stop = true) ∧
        (same = false → a = xs)
      | .ok o =>
        (tInside xs offset conf start stop = true ∨ tFree xs offset conf start stop = true) ∧
        o.data = truncateSpec xs offset start stop ∧ o.start = start ∧ o.conf = confLinear ∧
        (same = false → o.srcAfter = xs ∧ o.srcStart = offset ∧ o.srcConf = conf ∧ o.srcAfter2 = xs ∧ o.pads = true) := by
  unfold specTruncate tInside tFree
  simp only []
  generalize (decide (conf ≠ confLinear) && decide (conf ≠ confCircular) && decide (start > stop) &&
        truncateInside offset (offset + xs.length) true start stop) = F
  generalize truncateInside offset (offset + xs.length) (conf == confCircular) start stop = I
  cases i with
  | panic => simp
  | junk => simp
  | err c a s1 s2 p =>
    simp only []
    cases I <;> cases F <;> cases same <;> by_cases ha : a = xs <;> simp [ha]
  | ok o =>
    simp only []
    cases I <;> cases F <;>
      by_cases h1 : o.data = truncateSpec xs offset start stop <;> by_cases h2 : o.start = start <;>
      by_cases h3 : o.conf = confLinear <;> cases same <;> simp [h1, h2, h3, untouched_iff]

/-- **Truncate, checker ⇒ statement** (the form with positions): when no violation is reported for
    an answered call on a range inside the sequence, the result shows — position by position, none
    lost — the letter of the source at `start … end-1` (resp. `start … End-1, Start … end-1`), starts
    at `start` and is linear; this is the conclusion of `truncate_spec` for the implementation. -/
theorem truncate_checker_sound (xs : List El) (offset conf : Int) (same : Bool) (start stop : Int) (o : ImplOk)
    (h : specTruncate xs offset conf same start stop (.ok o) = none)
    (hin : tInside xs offset conf start stop = true) :
    o.data.map some = (truncatePositions offset (offset + xs.length) start stop).map (letterAt xs offset) ∧
    o.start = start ∧ o.conf = confLinear := by
  have := (truncate_checker_iff xs offset conf same start stop (.ok o)).mp h
  simp only [] at this
  obtain ⟨_, h1, h2, h3, _⟩ := this
  rw [h1]
  exact ⟨truncateSpec_positions xs offset start stop _ hin, h2, h3⟩

/-! ### Stitch and Compose -/

theorem wellFormed_iff (fs : List Feat) : wellFormed fs = true ↔ ∀ f ∈ fs, f.s ≤ f.e := by
  simp [wellFormed]

/-- **Stitch, checker = statement**: for well-formed features no violation is reported exactly
    when the call answered with the letters `stitchSpec` (by `stitchSpec_positions`: the letters at
    the positions of `[Start, End)` covered by a feature, ascending, none lost) and, with
    `dst ≠ src`, the source is untouched.  An error value or a panic is a violation. -/
theorem stitch_checker_iff (xs : List El) (offset conf : Int) (same : Bool) (fs : List Feat) (i : Impl)
    (hwf : ∀ f ∈ fs, f.s ≤ f.e) :
    specStitch xs offset conf same fs i = none ↔
      ∃ o, i = .ok o ∧ o.data = stitchSpec xs offset fs ∧
        (same = false → o.srcAfter = xs ∧ o.srcStart = offset ∧ o.srcConf = conf ∧ o.srcAfter2 = xs ∧ o.pads = true) := by
  unfold specStitch
  rw [(wellFormed_iff fs).mpr hwf]
  simp only [Bool.not_true, Bool.false_eq_true, if_false]
  cases i with
  | panic => simp
  | junk => simp
  | err c a s1 s2 p => simp
  | ok o =>
    simp only [Impl.ok.injEq, exists_eq_left']
    by_cases h1 : o.data = stitchSpec xs offset fs <;> cases same <;> simp [h1, untouched_iff]

/-- **Compose, checker = statement**: for well-formed features (and no reverse-oriented feature
    when the source cannot reverse) no violation is reported exactly when the call answered with
    `composeSpec rc` — the concatenation, in feature order, of each feature's clipped segment, the
    reverse-oriented ones reversed and mapped through `rc` (`segment_positions`: each segment is the
    letters at the feature's positions inside the sequence) — and, with `dst ≠ src`, the source is
    untouched. -/
theorem compose_checker_iff (rc : El → El) (reverser : Bool) (xs : List El) (offset conf : Int) (same : Bool)
    (fs : List Feat) (i : Impl) (hwf : ∀ f ∈ fs, f.s ≤ f.e)
    (hrev : reverser = true ∨ ∀ f ∈ fs, f.o ≠ orientReverse) :
    specCompose rc reverser xs offset conf same fs i = none ↔
      ∃ o, i = .ok o ∧ o.data = composeSpec rc xs offset fs ∧
        (same = false → o.srcAfter = xs ∧ o.srcStart = offset ∧ o.srcConf = conf ∧ o.srcAfter2 = xs ∧ o.pads = true) := by
  unfold specCompose
  have hg : (!wellFormed fs || (!reverser && fs.any (·.o = orientReverse))) = false := by
    rw [(wellFormed_iff fs).mpr hwf]
    rcases hrev with h | h
    · simp [h]
    · have : fs.any (fun x => decide (x.o = orientReverse)) = false := by
        rw [List.any_eq_false]; intro f hf; simpa using h f hf
      simp [this]
  rw [hg]
  simp only [Bool.false_eq_true, if_false]
  cases i with
  | panic => simp
  | junk => simp
  | err c a s1 s2 p => simp
  | ok o =>
    simp only [Impl.ok.injEq, exists_eq_left']
    by_cases h1 : o.data = composeSpec rc xs offset fs <;> cases same <;> simp [h1, untouched_iff]

/-! ### Join -/

/-- **Join, checker = statement**: an answered call at `seq.Start` / `seq.End` passes exactly when
    the letters are the concatenation in the requested order and the source object is untouched
    (its position is only demanded to be unchanged when it is not the destination); an error value
    passes only when an operand is circular and the source letters are unchanged. -/
theorem join_checker_iff (dxs sxs : List El) (dconf sconf soff wh : Int) (same : Bool) (i : Impl)
    (hwh : wh = whereStart ∨ wh = whereEnd) :
    specJoin dxs sxs dconf sconf soff wh same i = none ↔
      match i with
      | .panic => False
      | .junk => False
      | .err _ a _ _ _ => ¬ (dconf ≤ confLinear ∧ sconf ≤ confLinear) ∧ a = sxs
      | .ok o =>
        o.data = (if wh = whereEnd then dxs ++ sxs else sxs ++ dxs) ∧ o.srcAfter = sxs ∧
        (same = false → o.srcStart = soff ∧ o.srcConf = sconf) ∧ o.srcAfter2 = sxs ∧ o.pads = true := by
  unfold specJoin
  cases i with
  | panic => simp
  | junk => simp
  | err c a s1 s2 p =>
    simp only []
    by_cases h1 : dconf ≤ confLinear <;> by_cases h2 : sconf ≤ confLinear <;> by_cases h3 : a = sxs <;>
      simp [h1, h2, h3]
  | ok o =>
    simp only []
    have hw : ¬ (wh ≠ whereStart ∧ wh ≠ whereEnd) := by
      rcases hwh with h | h <;> simp [h]
    have hw' : (decide (wh ≠ whereStart) && decide (wh ≠ whereEnd)) = false := by
      rcases hwh with h | h <;> simp [h]
    rw [hw']
    simp only [Bool.false_eq_true, if_false]
    unfold joinSpec
    by_cases h1 : o.data = (if wh = whereEnd then dxs ++ sxs else sxs ++ dxs) <;>
      by_cases h2 : o.srcAfter = sxs <;> by_cases h3 : o.srcStart = soff <;> by_cases h4 : o.srcConf = sconf <;>
      by_cases h5 : o.srcAfter2 = sxs <;> cases h6 : o.pads <;> cases same <;> simp [h1, h2, h3, h4, h5]

/-! ### Trim -/

/-- **Trim, checker = statement**: the driver passes the window `(a, b)` the implementation returned
    exactly when `a ≤ b`, a non-empty window lies inside the feature `[s0, s0 + n)`, and no window
    of the feature has a larger sum of `limit − E(k)` (the empty window, sum 0, included). -/
theorem trim_checker_iff (vs : List Int) (s0 a b : Int) :
    specTrim vs s0 a b = none ↔
      a ≤ b ∧ (a < b → s0 ≤ a ∧ b ≤ s0 + vs.length) ∧
      ∀ i j, s0 ≤ i → i ≤ j → j ≤ s0 + vs.length → windowSum vs s0 i j ≤ windowSum vs s0 a b := by
  unfold specTrim
  rw [← Biogo.Properties.C06.isMaxWindow_iff]
  by_cases h1 : a > b
  · simp [h1]; omega
  · by_cases h2 : a < b
    · cases h3 : isWindow s0 vs.length a b <;> cases h4 : isMaxWindow vs s0 a b <;>
        simp [isWindow] at h3 <;> simp [h1, h2, h3, h4, isWindow] <;> omega
    · cases h4 : isMaxWindow vs s0 a b <;> simp [h1, h2, h4] <;> omega

end Biogo.Properties.C06_checker
