/-
C02 — BED and GFF features survive write-then-read with coordinate conventions.
Property theorems only.
-/
import Biogo.Spec.FeatIO

namespace Biogo.Properties.C02
open Biogo.BytesFeat Biogo.Gff

/-- `feat.OneToZero (feat.ZeroToOne p) = p` for every position (no panic: the 1-based value is never 0) -/
theorem oneToZero_zeroToOne (p : Int) : oneToZero (zeroToOne p) = some p := by
  unfold oneToZero zeroToOne
  by_cases h : p ≥ 0
  · have h1 : ¬ (p + 1 = 0) := by omega
    have h2 : p + 1 > 0 := by omega
    simp [h, h1, h2]
  · have h1 : ¬ (p = 0) := by omega
    have h2 : ¬ (p > 0) := by omega
    simp [h, h1, h2]

/-- `feat.ZeroToOne (feat.OneToZero p) = p` for every 1-based position `p ≠ 0` -/
theorem zeroToOne_oneToZero (p : Int) (hp : p ≠ 0) :
    (oneToZero p).map zeroToOne = some p := by
  unfold oneToZero zeroToOne
  by_cases h : p > 0
  · simp [hp, h]
    omega
  · have h2 : ¬ (p ≥ 0) := by omega
    simp [hp, h, h2]

/-- 0 is the only position `OneToZero` refuses -/
theorem oneToZero_none_iff (p : Int) : oneToZero p = none ↔ p = 0 := by
  unfold oneToZero
  by_cases h : p = 0
  · simp [h]
  · by_cases h2 : p > 0 <;> simp [h, h2]

end Biogo.Properties.C02
