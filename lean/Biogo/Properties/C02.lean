/-
C02 — BED and GFF features survive write-then-read with coordinate conventions.
Property theorems only.
-/
import Biogo.Spec.FeatIO
import Biogo.Proofs.FeatBedRound
import Biogo.Proofs.FeatGffRound
import Biogo.Proofs.FeatSeqRound
import Biogo.Proofs.FastaPrefix

namespace Biogo.Properties.C02
open Biogo.BytesFeat Biogo.Gff Biogo.FeatIO

/-! ## BED -/

/-- `strconv.ParseInt(strconv.FormatInt(n, 10), 0, 64) = n` for every int64 (§3.2 of the design) -/
theorem parseInt_formatInt (i : Int) (h : inInt64 i = true) : parseInt (formatInt i) 64 = .ok i :=
  Biogo.BytesFeat.parseInt_formatInt i h

/-- C02, second sentence: a BED record of any of the five Go types (`b.width` columns), written
    by a Writer of a narrower (or equal) column count `m`, reads back through a Reader of that
    column count as exactly its first `m` columns, followed by `io.EOF`; the writer reports the
    number of bytes it emitted.  Only the `m` written columns need to be well formed. -/
theorem bed_narrow (b : Bed.Rec) (m : Nat) (hm : Bed.validWidth m = true) (hmw : m ≤ b.width)
    (hwf : bedWF m b = true) :
    ∃ text n, Bed.write m b = .ok (text, n) ∧ n = text.length ∧
      Bed.readAll m text = [.record (Bed.firstCols m b), .eof] := by
  refine ⟨Bed.format m b ++ [10], (Bed.format m b).length + 1, ?_, by simp, ?_⟩
  · simp [Bed.write, Nat.not_lt.mpr hmw]
  · exact Bed.readAll_format b m m hm hm (Nat.le_refl _) hwf

/-- C02, first sentence for BED: a BED3/4/5/6/12 record with well-formed fields written at its
    own column count reads back equal to the original in every field.  (`firstCols b.width b = b`
    says that `b` is a value of the Go type with `b.width` columns: the columns that type does
    not have hold their defaults.) -/
theorem bed_roundtrip (b : Bed.Rec) (hm : Bed.validWidth b.width = true)
    (hnorm : Bed.firstCols b.width b = b) (hwf : bedWF b.width b = true) :
    ∃ text n, Bed.write b.width b = .ok (text, n) ∧ n = text.length ∧
      Bed.readAll b.width text = [.record b, .eof] := by
  obtain ⟨text, n, h1, h2, h3⟩ := bed_narrow b b.width hm (Nat.le_refl _) hwf
  exact ⟨text, n, h1, h2, by rw [h3, hnorm]⟩

/-- the stronger form in the design: a line written at `n` columns read by a reader of any
    column count `m ≤ n` gives the first `m` columns (`SplitN(line, m+1)` leaves the rest of the
    line in an ignored last piece) -/
theorem bed_narrow_read (b : Bed.Rec) (n m : Nat) (hn : Bed.validWidth n = true) (hm : Bed.validWidth m = true)
    (hmn : m ≤ n) (hnw : n ≤ b.width) (hwf : bedWF n b = true) :
    ∃ text c, Bed.write n b = .ok (text, c) ∧
      Bed.readAll m text = [.record (Bed.firstCols m b), .eof] := by
  refine ⟨Bed.format n b ++ [10], (Bed.format n b).length + 1, ?_, ?_⟩
  · simp [Bed.write, Nat.not_lt.mpr hnw]
  · exact Bed.readAll_format b n m hn hm hmn hwf

/-- "reported byte counts equal bytes emitted", BED writer (every outcome) -/
theorem bed_write_count (b : Bed.Rec) (m : Nat) (text : Bytes) (n : Nat)
    (h : Bed.write m b = .ok (text, n)) : n = text.length := by
  unfold Bed.write at h
  split at h
  · cases h
  · cases h; simp

/-- a writer wider than the record's type is refused (`ErrBadBedType`) -/
theorem bed_write_wider_refused (b : Bed.Rec) (m : Nat) (h : b.width < m) : Bed.write m b = .error .badType := by
  simp [Bed.write, h]

/-! non-vacuity: a BED12 record with two blocks, negative and extreme coordinates, opaque colour -/
def bedExample : Bed.Rec :=
  { width := 12, chrom := ofString "chr1", start := -5, stop := 9223372036854775807, name := ofString "a b#;",
    score := -9223372036854775808, strand := -1, thickStart := 0, thickEnd := 7, rgb := { r := 255, g := 0, b := 9, a := 255 },
    blockCount := 2, blockSizes := [3, -4], blockStarts := [0, 6] }

example : bedWF 12 bedExample = true ∧ Bed.firstCols 12 bedExample = bedExample ∧
    Bed.validWidth bedExample.width = true := by decide +kernel

/-! ## GFF coordinates -/

/-- `feat.OneToZero (feat.ZeroToOne p) = p` for every position (no panic: the 1-based value is never 0) -/
theorem oneToZero_zeroToOne (p : Int) : oneToZero (zeroToOne p) = some p := by
  unfold oneToZero zeroToOne
  by_cases h : p ≥ 0
  · have h1 : ¬ (p + 1 = 0) := by omega
    have h2 : p + 1 > 0 := by omega
    simp [h, h1, h2]
  · have h1 : ¬ (p = 0) := by omega
    have h2 : ¬ (p > 0) := by omega
    simp [h, h1, h2]

/-- `feat.ZeroToOne (feat.OneToZero p) = p` for every 1-based position `p ≠ 0` -/
theorem zeroToOne_oneToZero (p : Int) (hp : p ≠ 0) :
    (oneToZero p).map zeroToOne = some p := by
  unfold oneToZero zeroToOne
  by_cases h : p > 0
  · simp [hp, h]
    omega
  · have h2 : ¬ (p ≥ 0) := by omega
    simp [hp, h, h2]

/-- 0 is the only position `OneToZero` refuses -/
theorem oneToZero_none_iff (p : Int) : oneToZero p = none ↔ p = 0 := by
  unfold oneToZero
  by_cases h : p = 0
  · simp [h]
  · by_cases h2 : p > 0 <;> simp [h, h2]

/-! ## GFF features -/

/-- C02, first sentence for GFF: a GFF2 feature with well-formed fields (`gffWF`: non-empty,
    tab- and newline-free, trimmed text fields not starting with `#`; int64 coordinates with
    start < end — positive length; strand ∈ {−1,0,1}; frame ∈ {−1..2}; nil / finite / infinite
    score; tags over `[A-Za-z_]+`; `;`-free trimmed values, possibly empty; comments) written by
    `Writer.Write`, with or without the `##gff-version 2` header, and parsed by `Reader.Read`
    yields one feature equal to the original in every field (nil and empty attribute lists
    identified: the text cannot tell them apart), then `io.EOF`; the reported count is the number
    of bytes emitted.  `FloatLaw` is the single assumed law about `%v` / `ParseFloat`. -/
theorem gff_roundtrip (o : Oracles) (f : Feature) (hdr : Bool) (hwf : gffWF f = true) (hfl : FloatLaw o f.score) :
    ∃ text n, writeFeature o f = .ok (text, n) ∧ n = text.length ∧
      ∃ g, (readAll o ((if hdr then headerText else []) ++ text)).1 = [.item (.feature g), .eof] ∧
        norm g = norm f ∧
        (readAll o ((if hdr then headerText else []) ++ text)).2.md.version = (if hdr then 2 else 0) := by
  obtain ⟨_, _, _, _, _, hlt, _⟩ := gffWF_unpack hwf
  refine ⟨featureText o f ++ [10], (featureText o f).length + 1, ?_, by simp, parsed f, ?_, norm_parsed f, ?_⟩
  · simp [writeFeature, Int.not_le.mpr hlt]
  · rw [readAll_feature o f hdr hwf hfl]
  · rw [readAll_feature o f hdr hwf hfl]

/-- C02, "GFF text carries 1-based inclusive coordinates while the parsed feature exposes the same
    interval zero-based half-open, so Start, End and Len are preserved" -/
theorem gff_coords (o : Oracles) (f : Feature) (hdr : Bool) (hwf : gffWF f = true) (hfl : FloatLaw o f.score) :
    ∃ g, (readAll o ((if hdr then headerText else []) ++ (featureText o f ++ [10]))).1 = [.item (.feature g), .eof] ∧
      g.start = f.start ∧ g.stop = f.stop ∧ g.len = f.len := by
  refine ⟨parsed f, by rw [readAll_feature o f hdr hwf hfl], ?_⟩
  have : (parsed f).start = f.start ∧ (parsed f).stop = f.stop := by
    unfold parsed
    split
    · split <;> simp
    · simp
  exact ⟨this.1, this.2, by simp [Feature.len, this.1, this.2]⟩

/-- the text is 1-based inclusive: for a non-negative zero-based start, the start column of the
    written line is `Start + 1` and the end column is `End` -/
theorem gff_text_is_one_based (o : Oracles) (f : Feature) (hwf : gffWF f = true) (hfl : FloatLaw o f.score)
    (hs : 0 ≤ f.start) :
    (splitN 9 10 (trimSpace (featureText o f ++ [10])))[3]? = some (formatInt (f.start + 1)) ∧
    (splitN 9 10 (trimSpace (featureText o f ++ [10])))[4]? = some (formatInt f.stop) := by
  rw [trimSpace_append_nl, trimSpace_featureText o f hwf, splitN_effFields o f hwf hfl]
  obtain ⟨extra, he, _⟩ := effFields_shape o f
  have hz : zeroToOne f.start = f.start + 1 := by unfold zeroToOne; simp [hs]
  rw [he]
  simp [fields8, hz]

/-- "reported byte counts equal bytes emitted", GFF feature writer (every outcome) -/
theorem gff_write_count (o : Oracles) (f : Feature) (text : Bytes) (n : Nat)
    (h : writeFeature o f = .ok (text, n)) : n = text.length := by
  unfold writeFeature at h
  split at h
  · cases h
  · cases h; simp

/-! ## sequence-region lines and inline sequences -/

/-- C02 "sequence-region lines … round-trip likewise": a region (name without white space,
    int64 start < end) written as `##sequence-region name start+1 end` — by `Write(*Region)`,
    `WriteMetaData(*Feature)` or `Write` of any other feature — reads back as a region with the
    same name, Start and End (molecule type: the reader's current `##Type`, undefined here);
    reported count = bytes emitted. -/
theorem region_roundtrip (o : Oracles) (name : Bytes) (s e : Int) (hdr : Bool) (hn : nameOK name = true)
    (hs : inInt64 s = true) (he : inInt64 e = true) (hlt : s < e) :
    ∃ text n, writeRegion name s e = .ok (text, n) ∧ n = text.length ∧
      (readAll o ((if hdr then headerText else []) ++ text)).1 = [.item (.region name (-1) s e), .eof] :=
  ⟨_, _, writeRegion_eq name s e hlt, rfl, readAll_region o name s e hdr hn hs he hlt⟩

/-- C02 "the name and letters of inline GFF sequences round-trip likewise": a sequence of
    molecule type DNA/RNA/Protein (m = 0,1,2) with a white-space-free name, a trimmed single-line
    description (dropped by the reader), non-empty ASCII letters without white space, written at any
    line width ≥ 1 — provided no line of letters is itself the end marker `end-<Mol>` — reads back
    with the same name and letters; reported count = bytes emitted.  (`width = 0` is a division by
    zero in the FASTA writer and is outside the model: `i % 0 = i` in Lean.) -/
theorem inline_seq_roundtrip (o : Oracles) (width m : Nat) (hm : m ≤ 2) (id desc letters : Bytes) (hdr : Bool)
    (hid : nameOK id = true) (hd : descOK desc = true) (hl : lettersOK letters = true)
    (hend : noEndMarker width m letters = true) :
    ∃ text n, writeSeq width m id desc letters = .ok (text, n) ∧ n = text.length ∧
      (readAll o ((if hdr then headerText else []) ++ text)).1 = [.item (.sequence id m letters), .eof] := by
  obtain ⟨t, hw, hr⟩ := readAll_seq o width m hm id desc letters hdr hid hd hl hend
  exact ⟨t, t.length, hw, rfl, hr⟩

/-- **The inline-sequence writer is the FASTA writer with user-set prefixes.**  `gff.Writer.Write`
    hands a sequence to a `fasta.Writer` whose `IDPrefix` is `"##<Mol> "` and `SeqPrefix` `"##"`
    (`seqCfg m`) and appends `##end-<Mol>`: the text and count of the GFF model's `writeSeq` are
    the output and count of the FASTA writer model of C01 (`Biogo.Fasta.write`) with these
    prefixes, plus the marker — for every width ≥ 1, molecule type and non-empty sequence. -/
theorem inline_seq_writer_is_fasta (width m : Nat) (hw : width ≠ 0) (hm : m ≤ 2) (id desc letters : Bytes)
    (hl : letters ≠ []) :
    ∃ sink' n, Biogo.Fasta.write { cfg := seqCfg m, width := width } {} ⟨id, desc, letters⟩ = .ok (sink', n) ∧
      writeSeq width m id desc letters = .ok (sink'.bytes ++ endLine m, n + (endLine m).length) :=
  writeSeq_via_fasta width m hw hm id desc letters hl

/-- `inline_seq_roundtrip` stated through the FASTA writer model: what `Biogo.Fasta.write` emits
    with the GFF prefixes, followed by the end marker, is read back by the GFF reader as the
    sequence (name and letters), then `io.EOF`; the two counts add up to the bytes emitted. -/
theorem inline_seq_roundtrip_via_fasta (o : Oracles) (width m : Nat) (hw : width ≠ 0) (hm : m ≤ 2)
    (id desc letters : Bytes) (hdr : Bool) (hne : letters ≠ [])
    (hid : nameOK id = true) (hd : descOK desc = true) (hl : lettersOK letters = true)
    (hend : noEndMarker width m letters = true) :
    ∃ sink' n, Biogo.Fasta.write { cfg := seqCfg m, width := width } {} ⟨id, desc, letters⟩ = .ok (sink', n) ∧
      n + (endLine m).length = (sink'.bytes ++ endLine m).length ∧
      (readAll o ((if hdr then headerText else []) ++ (sink'.bytes ++ endLine m))).1
        = [.item (.sequence id m letters), .eof] := by
  obtain ⟨sink', n, h1, h2⟩ := writeSeq_via_fasta width m hw hm id desc letters hne
  obtain ⟨text, n', h3, h4, h5⟩ := inline_seq_roundtrip o width m hm id desc letters hdr hid hd hl hend
  rw [h2] at h3
  simp only [Except.ok.injEq, Prod.mk.injEq] at h3
  obtain ⟨rfl, rfl⟩ := h3
  exact ⟨sink', n, h1, h4, h5⟩

/-- "reported byte counts equal bytes emitted", region and inline-sequence writers (every outcome) -/
theorem region_write_count (name : Bytes) (s e : Int) (text : Bytes) (n : Nat)
    (h : writeRegion name s e = .ok (text, n)) : n = text.length := by
  unfold writeRegion at h
  split at h
  · cases h
  · cases h; rfl

theorem inline_seq_write_count (width m : Nat) (id desc letters text : Bytes) (n : Nat)
    (h : writeSeq width m id desc letters = .ok (text, n)) : n = text.length := by
  unfold writeSeq at h
  split at h
  · cases h
  · split at h
    · cases h
    · cases h; rfl

example : nameOK (ofString "chrX") = true ∧ descOK (ofString "a description") = true ∧
    lettersOK (ofString "acgtacgtac") = true ∧ noEndMarker 3 0 (ofString "acgtacgtac") = true := by decide +kernel

/-! non-vacuity: a feature with a negative start, an infinite score (formatted `+Inf`), three
    attributes (one with an empty value, one quoted with spaces) and a comment -/
def gffExample : Feature :=
  { seqName := ofString "chr 1", source := ofString "src#", feature := ofString "gene", start := -3, stop := 9223372036854775807,
    score := some 0x7FF0000000000000, strand := 1, frame := 2,
    attrs := some [⟨ofString "ID", ofString "x"⟩, ⟨ofString "Flag", []⟩, ⟨ofString "Note_a", ofString "\"two words\""⟩],
    comments := ofString "a comment" }

def exampleOracles : Oracles :=
  { parseFloat := fun t => if t == ofString "+Inf" then some 0x7FF0000000000000 else none,
    formatFloat := fun _ => ofString "+Inf", parseDate := fun _ => false }

example : gffWF gffExample = true := by decide +kernel
example : FloatLaw exampleOracles gffExample.score := by
  simp only [FloatLaw, gffExample]; exact ⟨by decide +kernel, by decide +kernel⟩

end Biogo.Properties.C02
