/-
C08, part `lin` — NW, SW and Fitted return optimal-scoring alignments.
Property theorems only; the proofs are in `Biogo/Proofs/AlignLin*.lean`.

`S : Matrix` is the scoring function the model builds from the flattened matrix
(`matOf la n a b = la[a*n+b]`, row/column 0 = gap letter); `r`, `q` are the alphabet indices
of the two sequences.  `nwScore`, `swScore`, `fitScoreAt` are the table values of the
executable model the driver runs (`Biogo.AlignLin`): the bottom-right cell of NW's table, SW's
`maxS`, the last-column cell of row `e` of Fitted's table.
-/
import Biogo.Proofs.AlignLinOpt

namespace Biogo.Properties.C08_lin
open Biogo.AlignLin Biogo.Spec.AlignPairs Biogo.Spec.Alignment Biogo.Proofs.AlignLin

/-- "the total score of the alignment returned by the Needleman-Wunsch aligners equals the
    maximum over all global alignments" — the value of the table the model fills row by row is an
    upper bound for every global alignment and is attained by one.  Holds for every matrix
    (the hypothesis "non-positive gap scores" is not needed). -/
theorem nw_opt (S : Matrix) (r q : List Nat) :
    (∀ a, IsGlobal a r q → scoreLin S a ≤ nwScore S r q) ∧
    ∃ a, IsGlobal a r q ∧ scoreLin S a = nwScore S r q :=
  Biogo.Proofs.AlignLin.nw_opt S r q

/-- "that of the Smith-Waterman aligners equals the maximum over all local alignments (zero if
    none is positive)" — `maxS` bounds every local alignment (the empty one scores 0) and is
    attained; this includes that the end-cell filter `score == diagScore` of the code loses
    nothing when gap scores are ≤ 0. -/
theorem sw_opt (S : Matrix) (hg : ∀ x, S x 0 ≤ 0 ∧ S 0 x ≤ 0) (r q : List Nat) :
    (∀ a, IsLocal a r q → scoreLin S a ≤ swScore S r q) ∧
    ∃ a, IsLocal a r q ∧ scoreLin S a = swScore S r q :=
  Biogo.Proofs.AlignLin.sw_opt S hg r q

/-- the empty alignment is local, so SW's value is never negative -/
theorem sw_nonneg (S : Matrix) (hg : ∀ x, S x 0 ≤ 0 ∧ S 0 x ≤ 0) (r q : List Nat) : 0 ≤ swScore S r q :=
  (swFill_bound S hg r q).1

/-- "optimal among all such alignments that end at the same reference position" — for every end
    position `e`, the last-column cell of row `e` of Fitted's table is the maximum score over the
    alignments of the whole query with a reference segment ending at `e`. -/
theorem fitted_table_opt (S : Matrix) (hg : ∀ x, S x 0 ≤ 0 ∧ S 0 x ≤ 0) (r q : List Nat)
    (e : Nat) (he : e ≤ r.length) :
    (∀ a, IsFitted a r q e → scoreLin S a ≤ fitScoreAt S r q e) ∧
    ∃ a, IsFitted a r q e ∧ scoreLin S a = fitScoreAt S r q e :=
  fit_opt S hg r q e he

-- non-vacuity: a scoring function with non-positive gap scores, and concrete values
example : ∃ S : Matrix, ∀ x, S x 0 ≤ 0 ∧ S 0 x ≤ 0 := ⟨fun _ _ => 0, by simp⟩
example : nwScore (fun a b => if a = 0 ∨ b = 0 then -1 else if a = b then 2 else -1) [1, 2, 1] [1, 1] = 3 := by decide
example : swScore (fun a b => if a = 0 ∨ b = 0 then -1 else if a = b then 2 else -1) [2, 1, 1] [1, 1, 2] = 4 := by decide

end Biogo.Properties.C08_lin
