/-
C08, part `lin` — NW, SW and Fitted return optimal-scoring alignments.
Property theorems only; the proofs are in `Biogo/Proofs/AlignLin*.lean` and
`Biogo/Proofs/AlignPairs.lean`.

The theorems are about `Biogo.AlignLin.align`, the executable model the driver runs
(`Biogo/Model/AlignLin.lean`: argument checks, row-major fill of the flat table, traceback).
For a call `c`, `callS c` is the scoring function built from the flattened matrix
(`la[a*n+b]`, row/column 0 = gap letter) and `callR c`, `callQ c` are the alphabet indices of
the two sequences.  `decode r q ps` is the alignment (`Spec.Alignment.Aln`) described by the
returned feature pairs `ps`, `total ps` the sum of their scores.
-/
import Biogo.Proofs.AlignLinTotal
import Biogo.Proofs.AlignLinEntries
import Biogo.Proofs.AlignPairs

namespace Biogo.Properties.C08_lin
open Biogo.AlignLin Biogo.Spec.AlignPairs Biogo.Spec.Alignment Biogo.Proofs.AlignLin Biogo.Proofs.AlignPairs

/- `GapsNonPos S r q` (hypothesis "non-positive gap scores"): `S x 0 ≤ 0` for every reference
   letter `x ∈ r` and `S 0 y ≤ 0` for every query letter `y ∈ q`. -/

/-- "the total score … equals the maximum over all global alignments" — table level: the
    bottom-right cell of the table the model fills row by row bounds every global alignment and
    is attained by one.  Holds for every matrix (non-positive gap scores are not needed). -/
theorem nw_opt (S : Matrix) (r q : List Nat) :
    (∀ a, IsGlobal a r q → scoreLin S a ≤ nwScore S r q) ∧
    ∃ a, IsGlobal a r q ∧ scoreLin S a = nwScore S r q :=
  Biogo.Proofs.AlignLin.nw_opt S r q

/-- "… of the Smith-Waterman aligners equals the maximum over all local alignments (zero if none
    is positive)" — table level: `maxS` bounds every local alignment (the empty one scores 0) and
    is attained; this includes that the code's end-cell filter `score == diagScore` loses nothing
    when gap scores are ≤ 0. -/
theorem sw_opt (S : Matrix) (r q : List Nat) (hg : GapsNonPos S r q) :
    (∀ a, IsLocal a r q → scoreLin S a ≤ swScore S r q) ∧
    ∃ a, IsLocal a r q ∧ scoreLin S a = swScore S r q :=
  Biogo.Proofs.AlignLin.sw_opt S r q hg

/-- "(zero if none is positive)": SW's value is never negative -/
theorem sw_nonneg (S : Matrix) (r q : List Nat) (hg : GapsNonPos S r q) : 0 ≤ swScore S r q :=
  (swFill_bound S r q hg).1

/-- "optimal among all such alignments that end at the same reference position" — table level:
    for every end position `e`, the last-column cell of row `e` of Fitted's table is the maximum
    over the alignments of the whole query with a reference segment ending at `e`. -/
theorem fitted_table_opt (S : Matrix) (r q : List Nat) (hg : ∀ x ∈ r, S x 0 ≤ 0)
    (e : Nat) (he : e ≤ r.length) :
    (∀ a, IsFitted a r q e → scoreLin S a ≤ fitScoreAt S r q e) ∧
    ∃ a, IsFitted a r q e ∧ scoreLin S a = fitScoreAt S r q e :=
  fit_opt S r q hg e he

theorem wellFormed_of_span {ps : List Pair} {i j e1 e2 : Nat} (k : Class) (n m : Nat)
    (h : span ps = some (i, j, e1, e2)) :
    wellFormed k n m ps =
      match k with
      | .global => decide (i = 0) && decide (j = 0) && decide (e1 = n) && decide (e2 = m)
      | .loc => decide (e1 ≤ n) && decide (e2 ≤ m)
      | .fitted => decide (e1 ≤ n) && decide (e2 ≤ m) := by
  simp only [wellFormed, h]
  cases k <;> rfl

/-- `trace_faithful_nw`: whenever the model's NW returns pairs, they describe a global alignment
    of the two sequences whose recomputed score is the sum of the pair scores, and that sum is
    the table value. -/
theorem trace_faithful_nw (c : Call) (ps : List Pair) (h : align .nw c = .ok ps) :
    IsGlobal (decode (callR c) (callQ c) ps) (callR c) (callQ c) ∧
    scoreLin (callS c) (decode (callR c) (callQ c) ps) = total ps ∧
    total ps = nwScore (callS c) (callR c) (callQ c) := by
  obtain ⟨_, hc⟩ := align_ok_inv .nw c ps h
  obtain ⟨ps', h1, hspan, hsc, htot⟩ := nwCore_spec (callS c) (callR c) (callQ c)
  simp only [core] at hc
  rw [hc] at h1; cases h1
  have hwf : wellFormed .global (callR c).length (callQ c).length ps = true := by
    rw [wellFormed_of_span _ _ _ hspan]; simp
  exact ⟨wellFormed_global_sound _ _ _ hwf, (pairScores_total _ _ _ _ hsc).symm, htot⟩

/-- **NW returns an optimal alignment** (C08, first sentence): the pairs the model returns
    describe a global alignment whose score is their total, and no global alignment of the two
    sequences scores more. -/
theorem nw_returns_optimal (c : Call) (ps : List Pair) (h : align .nw c = .ok ps) :
    IsGlobal (decode (callR c) (callQ c) ps) (callR c) (callQ c) ∧
    scoreLin (callS c) (decode (callR c) (callQ c) ps) = total ps ∧
    ∀ a, IsGlobal a (callR c) (callQ c) → scoreLin (callS c) a ≤ total ps := by
  obtain ⟨h1, h2, h3⟩ := trace_faithful_nw c ps h
  exact ⟨h1, h2, fun a ha => by rw [h3]; exact (nw_opt _ _ _).1 a ha⟩

/-- `trace_faithful_sw`: the model's SW returns pairs describing a local alignment whose
    recomputed score is their total, which is `maxS`. -/
theorem trace_faithful_sw (c : Call) (ps : List Pair) (h : align .sw c = .ok ps) :
    IsLocal (decode (callR c) (callQ c) ps) (callR c) (callQ c) ∧
    scoreLin (callS c) (decode (callR c) (callQ c) ps) = total ps ∧
    total ps = swScore (callS c) (callR c) (callQ c) := by
  obtain ⟨_, hc⟩ := align_ok_inv .sw c ps h
  obtain ⟨ps', i, j, h1, hspan, hbi, hbj, hsc, htot⟩ := swCore_spec (callS c) (callR c) (callQ c)
  simp only [core] at hc
  rw [hc] at h1; cases h1
  have hwf : wellFormed .loc (callR c).length (callQ c).length ps = true := by
    rw [wellFormed_of_span _ _ _ hspan]; simp [hbi, hbj]
  exact ⟨wellFormed_local_sound _ _ _ hwf, (pairScores_total _ _ _ _ hsc).symm, htot⟩

/-- **SW returns an optimal local alignment** (C08, second sentence; gap scores ≤ 0): the
    returned pairs describe a local alignment whose score is their total, no local alignment
    scores more, and the total is ≥ 0 ("zero if none is positive"). -/
theorem sw_returns_optimal (c : Call) (hg : GapsNonPos (callS c) (callR c) (callQ c))
    (ps : List Pair) (h : align .sw c = .ok ps) :
    IsLocal (decode (callR c) (callQ c) ps) (callR c) (callQ c) ∧
    scoreLin (callS c) (decode (callR c) (callQ c) ps) = total ps ∧
    (∀ a, IsLocal a (callR c) (callQ c) → scoreLin (callS c) a ≤ total ps) ∧ 0 ≤ total ps := by
  obtain ⟨h1, h2, h3⟩ := trace_faithful_sw c ps h
  exact ⟨h1, h2, fun a ha => by rw [h3]; exact (sw_opt _ _ _ hg).1 a ha, by rw [h3]; exact sw_nonneg _ _ _ hg⟩

/-- `trace_faithful_fit`: the model's Fitted (with the repair of K2b) returns pairs that consume
    the whole query and describe an alignment of the query with a reference segment ending at
    `endRef ps`, whose recomputed score is their total, the table value of that end row. -/
theorem trace_faithful_fit (c : Call) (ps : List Pair) (h : align .fit c = .ok ps) :
    consumesQuery (callQ c).length ps = true ∧ endRef ps ≤ (callR c).length ∧
    IsFitted (decode (callR c) (callQ c) ps) (callR c) (callQ c) (endRef ps) ∧
    scoreLin (callS c) (decode (callR c) (callQ c) ps) = total ps ∧
    total ps = fitScoreAt (callS c) (callR c) (callQ c) (endRef ps) := by
  obtain ⟨_, hc⟩ := align_ok_inv .fit c ps h
  obtain ⟨ps', i, h1, hspan, hsc, htot⟩ := fitCore_spec (callS c) (callR c) (callQ c)
  simp only [core] at hc
  rw [hc] at h1; cases h1
  have he := fitEnd_le (callS c) (callR c) (callQ c)
  have hwf : wellFormed .fitted (callR c).length (callQ c).length ps = true := by
    rw [wellFormed_of_span _ _ _ hspan]; simp [he]
  have hcq : consumesQuery (callQ c).length ps = true := by simp [consumesQuery, hspan]
  have hend : endRef ps = fitEnd (callS c) (callR c) (callQ c) := by simp [endRef, hspan]
  refine ⟨hcq, by rw [hend]; exact he, wellFormed_fitted_sound _ _ _ hwf hcq,
    (pairScores_total _ _ _ _ hsc).symm, by rw [hend]; exact htot⟩

/-- **`fitted_opt_at_end`** (C08, third sentence; gap scores ≤ 0): the alignment Fitted returns
    consumes the whole query and is optimal among all alignments of the whole query that end at
    the same reference position. -/
theorem fitted_opt_at_end (c : Call) (hg : ∀ x ∈ callR c, callS c x 0 ≤ 0)
    (ps : List Pair) (h : align .fit c = .ok ps) :
    consumesQuery (callQ c).length ps = true ∧
    IsFitted (decode (callR c) (callQ c) ps) (callR c) (callQ c) (endRef ps) ∧
    scoreLin (callS c) (decode (callR c) (callQ c) ps) = total ps ∧
    ∀ a, IsFitted a (callR c) (callQ c) (endRef ps) → scoreLin (callS c) a ≤ total ps := by
  obtain ⟨h1, he, h2, h3, h4⟩ := trace_faithful_fit c ps h
  exact ⟨h1, h2, h3, fun a ha => by rw [h4]; exact (fitted_table_opt _ _ _ hg _ he).1 a ha⟩

/-! ### Matrices larger than the alphabet

"any square integer scoring matrix": `Align` accepts every square matrix with at least as many
rows as the alphabet has letters (`let < alpha.Len()` is the only size error), so e.g. a 6×6 matrix
may be used with the 5-letter `alphabet.DNAgapped`.  The theorems above carry no hypothesis on the
matrix size: `callS c` is the flattened matrix read with the row stride `let = len(a)`
(`la[x*let+y]`), whatever the alphabet's size, so they hold for such *oversized* matrices as they
stand.  This section says so explicitly, in terms of the matrix the caller wrote:
`entry m x y` is `m[x][y]`; `IndexInAlphabet c` says that `alpha.LetterIndex()` maps into
`[0, alpha.Len())`; `GapEntriesNonPos c` is "non-positive gap scores" for the letters of the
alphabet (the rows and columns beyond the alphabet are no letter's gap scores); `SameBlock c c'`
says that two calls differ only in their matrices, which agree on the alphabet-sized upper-left
block.  (Definitions and helper lemmas in `Proofs/AlignLinEntries.lean`.) -/

/-- The scoring function of the model is the matrix entry the caller wrote: for a square matrix
    of any size, `la[x*let+y] = a[x][y]` for every column `y < let`.  (This is where the row
    stride matters: with the stride `alpha.Len()`, or with only the alphabet-sized block copied
    into `la`, the equation fails for every oversized matrix.) -/
theorem scoring_reads_matrix_entries (c : Call) (hsq : ∀ row ∈ c.mat, row.length = c.mat.length)
    (x y : Nat) (hy : y < c.mat.length) : callS c x y = entry c.mat x y :=
  callS_entry c hsq x y hy

/-- **NW, matrix of any accepted size** (C08, first sentence, "any square integer scoring matrix"):
    whenever NW returns pairs the matrix has at least `alpha.Len()` rows — possibly more — and
    the pairs describe a global alignment whose score *under the entries of that matrix* is their
    total, and no global alignment scores more under those entries. -/
theorem nw_returns_optimal_any_size (c : Call) (hi : IndexInAlphabet c)
    (ps : List Pair) (h : align .nw c = .ok ps) :
    c.alphaLen ≤ c.mat.length ∧
    IsGlobal (decode (callR c) (callQ c) ps) (callR c) (callQ c) ∧
    scoreLin (entry c.mat) (decode (callR c) (callQ c) ps) = total ps ∧
    ∀ a, IsGlobal a (callR c) (callQ c) → scoreLin (entry c.mat) a ≤ total ps := by
  obtain ⟨hsz, hsq⟩ := accepted_matrix h
  obtain ⟨h1, h2, h3⟩ := nw_returns_optimal c ps h
  have hglob : ∀ a, IsGlobal a (callR c) (callQ c) → scoreLin (callS c) a = scoreLin (entry c.mat) a :=
    fun a ha => score_by_entries c hi hsz hsq a (by rw [ha.1]; exact fun _ h => h) (by rw [ha.2]; exact fun _ h => h)
  exact ⟨hsz, h1, by rw [← hglob _ h1]; exact h2, fun a ha => by rw [← hglob a ha]; exact h3 a ha⟩

/-- **SW, matrix of any accepted size** (C08, second sentence): as `sw_returns_optimal`, with
    scores and the gap-score hypothesis read from the entries of the (possibly oversized) matrix. -/
theorem sw_returns_optimal_any_size (c : Call) (hi : IndexInAlphabet c) (hg : GapEntriesNonPos c)
    (ps : List Pair) (h : align .sw c = .ok ps) :
    c.alphaLen ≤ c.mat.length ∧
    IsLocal (decode (callR c) (callQ c) ps) (callR c) (callQ c) ∧
    scoreLin (entry c.mat) (decode (callR c) (callQ c) ps) = total ps ∧
    (∀ a, IsLocal a (callR c) (callQ c) → scoreLin (entry c.mat) a ≤ total ps) ∧ 0 ≤ total ps := by
  obtain ⟨hsz, hsq⟩ := accepted_matrix h
  obtain ⟨h1, h2, h3, h4⟩ := sw_returns_optimal c (gapsNonPos_of_entries c hi hsz hsq hg) ps h
  have hloc : ∀ a, IsLocal a (callR c) (callQ c) → scoreLin (callS c) a = scoreLin (entry c.mat) a :=
    fun a ha => score_by_entries c hi hsz hsq a (isLocal_mem ha).1 (isLocal_mem ha).2
  exact ⟨hsz, h1, by rw [← hloc _ h1]; exact h2, fun a ha => by rw [← hloc a ha]; exact h3 a ha, h4⟩

/-- **Fitted, matrix of any accepted size** (C08, third sentence): as `fitted_opt_at_end`, with
    scores and the (reference-side) gap-score hypothesis read from the entries of the matrix. -/
theorem fitted_opt_at_end_any_size (c : Call) (hi : IndexInAlphabet c)
    (hg : ∀ x, x < c.alphaLen → entry c.mat x 0 ≤ 0)
    (ps : List Pair) (h : align .fit c = .ok ps) :
    c.alphaLen ≤ c.mat.length ∧
    consumesQuery (callQ c).length ps = true ∧
    IsFitted (decode (callR c) (callQ c) ps) (callR c) (callQ c) (endRef ps) ∧
    scoreLin (entry c.mat) (decode (callR c) (callQ c) ps) = total ps ∧
    ∀ a, IsFitted a (callR c) (callQ c) (endRef ps) → scoreLin (entry c.mat) a ≤ total ps := by
  obtain ⟨hsz, hsq⟩ := accepted_matrix h
  have hpos := index_pos hi
  have hg' : ∀ x ∈ callR c, callS c x 0 ≤ 0 := fun x hx => by
    rw [callS_entry c hsq x 0 (by omega)]; exact hg x (callR_lt c hi x hx)
  obtain ⟨h1, h2, h3, h4⟩ := fitted_opt_at_end c hg' ps h
  have hfit : ∀ a, IsFitted a (callR c) (callQ c) (endRef ps) →
      scoreLin (callS c) a = scoreLin (entry c.mat) a :=
    fun a ha => score_by_entries c hi hsz hsq a (isFitted_mem ha).1 (isFitted_mem ha).2
  exact ⟨hsz, h1, h2, by rw [← hfit _ h2]; exact h3, fun a ha => by rw [← hfit a ha]; exact h4 a ha⟩

/-- The rows and columns beyond the alphabet do not influence NW's score: two calls on the same
    sequences whose (square, possibly differently sized) matrices agree on the block the alphabet
    addresses return alignments with the same total. -/
theorem nw_total_ignores_extra_rows (c c' : Call) (hi : IndexInAlphabet c) (hb : SameBlock c c')
    (ps ps' : List Pair) (h : align .nw c = .ok ps) (h' : align .nw c' = .ok ps') :
    total ps = total ps' := by
  obtain ⟨hidx, hlen, hr, hq, hblock⟩ := hb
  have hi' : IndexInAlphabet c' := fun l => by rw [hidx, hlen]; exact hi l
  have hR : callR c' = callR c := by simp only [callR, hidx, hr]
  have hQ : callQ c' = callQ c := by simp only [callQ, hidx, hq]
  obtain ⟨_, g1, s1, o1⟩ := nw_returns_optimal_any_size c hi ps h
  obtain ⟨_, g2, s2, o2⟩ := nw_returns_optimal_any_size c' hi' ps' h'
  rw [hR, hQ] at g2 s2 o2
  have hcong : ∀ a, IsGlobal a (callR c) (callQ c) →
      scoreLin (entry c'.mat) a = scoreLin (entry c.mat) a := fun a ha =>
    scoreLin_congr _ _ c.alphaLen (index_pos hi) hblock a
      (by rw [ha.1]; exact callR_lt c hi) (by rw [ha.2]; exact callQ_lt c hi)
  have le1 : total ps ≤ total ps' := by
    have := o2 _ g1; rw [hcong _ g1, s1] at this; exact this
  have le2 : total ps' ≤ total ps := by
    have := o1 _ g2; rw [← hcong _ g2, s2] at this; exact this
  omega

/-- … nor SW's (gap scores of the alphabet's letters ≤ 0). -/
theorem sw_total_ignores_extra_rows (c c' : Call) (hi : IndexInAlphabet c) (hg : GapEntriesNonPos c)
    (hb : SameBlock c c')
    (ps ps' : List Pair) (h : align .sw c = .ok ps) (h' : align .sw c' = .ok ps') :
    total ps = total ps' := by
  obtain ⟨hidx, hlen, hr, hq, hblock⟩ := hb
  have hi' : IndexInAlphabet c' := fun l => by rw [hidx, hlen]; exact hi l
  have hpos := index_pos hi
  have hg' : GapEntriesNonPos c' := fun x hx => by
    rw [hlen] at hx
    rw [hblock x 0 hx hpos, hblock 0 x hpos hx]; exact hg x hx
  have hR : callR c' = callR c := by simp only [callR, hidx, hr]
  have hQ : callQ c' = callQ c := by simp only [callQ, hidx, hq]
  obtain ⟨_, g1, s1, o1, _⟩ := sw_returns_optimal_any_size c hi hg ps h
  obtain ⟨_, g2, s2, o2, _⟩ := sw_returns_optimal_any_size c' hi' hg' ps' h'
  rw [hR, hQ] at g2 s2 o2
  have hcong : ∀ a, IsLocal a (callR c) (callQ c) →
      scoreLin (entry c'.mat) a = scoreLin (entry c.mat) a := fun a ha =>
    scoreLin_congr _ _ c.alphaLen hpos hblock a
      (fun x hx => callR_lt c hi x ((isLocal_mem ha).1 x hx))
      (fun y hy => callQ_lt c hi y ((isLocal_mem ha).2 y hy))
  have le1 : total ps ≤ total ps' := by
    have := o2 _ g1; rw [hcong _ g1, s1] at this; exact this
  have le2 : total ps' ≤ total ps := by
    have := o1 _ g2; rw [← hcong _ g2, s2] at this; exact this
  omega

/-! ### non-vacuity -/

/-- a legal call: alphabet `-ab`, match 2, mismatch −1, gap −1 -/
def exCall (r q : List UInt8) : Call :=
  { refAlpha := some 0, qryAlpha := some 0, gapIndex := 0, refQ := false, qryQ := false, alphaLen := 3,
    index := fun l => if l = 45 then 0 else if l = 97 then 1 else if l = 98 then 2 else -1,
    mat := [[0, -1, -1], [-1, 2, -1], [-1, -1, 2]], r := r, q := q }

example : GapsNonPos (callS (exCall [98, 97, 97] [97, 97, 98])) (callR (exCall [98, 97, 97] [97, 97, 98]))
    (callQ (exCall [98, 97, 97] [97, 97, 98])) := by unfold GapsNonPos; decide
example : align .nw (exCall [97, 98, 97] [97, 97]) = .ok [⟨0, 1, 0, 1, 2⟩, ⟨1, 2, 1, 1, -1⟩, ⟨2, 3, 1, 2, 2⟩] := by decide
example : align .sw (exCall [98, 97, 97] [97, 97, 98]) = .ok [⟨1, 3, 0, 2, 4⟩] := by decide
example : align .fit (exCall [98, 97, 98, 98] [97, 98]) = .ok [⟨1, 3, 0, 2, 4⟩] := by decide
example : nwScore (callS (exCall [] [])) [1, 2, 1] [1, 1] = 3 := by decide

/-! non-vacuity for oversized matrices -/

/-- the call `exCall r q` with its 3×3 matrix embedded in a 5×5 one (alphabet `-ab`, 3 letters):
    the two extra rows and columns hold values no correct lookup reads -/
def exCallOver (r q : List UInt8) : Call :=
  { exCall r q with
    mat := [[0, -1, -1, 1003, 1004], [-1, 2, -1, 1040, 1041], [-1, -1, 2, 1077, 1078],
            [1111, 1112, 1113, 1114, 1115], [1148, 1149, 1150, 1151, 1152]] }

theorem exCall_index (r q : List UInt8) : IndexInAlphabet (exCall r q) := by
  intro l
  simp only [exCall]
  split
  · decide
  · split
    · decide
    · split <;> decide

example (r q : List UInt8) : IndexInAlphabet (exCallOver r q) := exCall_index r q
example (r q : List UInt8) : GapEntriesNonPos (exCallOver r q) := by
  intro x hx
  have : x = 0 ∨ x = 1 ∨ x = 2 := by simp only [exCallOver, exCall] at hx; omega
  rcases this with rfl | rfl | rfl <;> (simp only [exCallOver, exCall]; decide)
example (r q : List UInt8) : SameBlock (exCall r q) (exCallOver r q) := by
  refine ⟨rfl, rfl, rfl, rfl, fun x y hx hy => ?_⟩
  have hx' : x = 0 ∨ x = 1 ∨ x = 2 := by simp only [exCall] at hx; omega
  have hy' : y = 0 ∨ y = 1 ∨ y = 2 := by simp only [exCall] at hy; omega
  rcases hx' with rfl | rfl | rfl <;> rcases hy' with rfl | rfl | rfl <;>
    (simp only [exCallOver, exCall]; decide)
/- the oversized matrix is accepted and the three aligners return what they return for the 3×3
   matrix (stride `let = 5`; with stride 3, or with only the 3×3 block copied, they would not) -/
example : align .nw (exCallOver [97, 98, 97] [97, 97]) = .ok [⟨0, 1, 0, 1, 2⟩, ⟨1, 2, 1, 1, -1⟩, ⟨2, 3, 1, 2, 2⟩] := by decide
example : align .sw (exCallOver [98, 97, 97] [97, 97, 98]) = .ok [⟨1, 3, 0, 2, 4⟩] := by decide
example : align .fit (exCallOver [98, 97, 98, 98] [97, 98]) = .ok [⟨1, 3, 0, 2, 4⟩] := by decide
example : callS (exCallOver [] []) 2 2 = 2 ∧ entry (exCallOver [] []).mat 2 2 = 2 := by decide
/- an oversized matrix with a ragged extra row is not accepted -/
example : align .sw { exCall [97] [97] with mat := [[0, -1, -1, 7], [-1, 2, -1, 7], [-1, -1, 2, 7], [7, 7, 7]] }
    = .error .notSquare := by decide

end Biogo.Properties.C08_lin
