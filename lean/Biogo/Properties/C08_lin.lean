/-
C08, part `lin` — NW, SW and Fitted return optimal-scoring alignments.
Property theorems only.
-/
import Biogo.Model.AlignLin
import Biogo.Spec.AlignPairs

namespace Biogo.Properties.C08_lin
open Biogo.AlignLin Biogo.Spec.AlignPairs Biogo.Spec.Alignment

end Biogo.Properties.C08_lin
