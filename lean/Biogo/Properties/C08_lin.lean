/-
C08, part `lin` — NW, SW and Fitted return optimal-scoring alignments.
Property theorems only; the proofs are in `Biogo/Proofs/AlignLin*.lean` and
`Biogo/Proofs/AlignPairs.lean`.

The theorems are about `Biogo.AlignLin.align`, the executable model the driver runs
(`Biogo/Model/AlignLin.lean`: argument checks, row-major fill of the flat table, traceback).
For a call `c`, `callS c` is the scoring function built from the flattened matrix
(`la[a*n+b]`, row/column 0 = gap letter) and `callR c`, `callQ c` are the alphabet indices of
the two sequences.  `decode r q ps` is the alignment (`Spec.Alignment.Aln`) described by the
returned feature pairs `ps`, `total ps` the sum of their scores.
-/
import Biogo.Proofs.AlignLinTotal
import Biogo.Proofs.AlignPairs

namespace Biogo.Properties.C08_lin
open Biogo.AlignLin Biogo.Spec.AlignPairs Biogo.Spec.Alignment Biogo.Proofs.AlignLin Biogo.Proofs.AlignPairs

/- `GapsNonPos S r q` (hypothesis "non-positive gap scores"): `S x 0 ≤ 0` for every reference
   letter `x ∈ r` and `S 0 y ≤ 0` for every query letter `y ∈ q`. -/

/-- "the total score … equals the maximum over all global alignments" — table level: the
    bottom-right cell of the table the model fills row by row bounds every global alignment and
    is attained by one.  Holds for every matrix (non-positive gap scores are not needed). -/
theorem nw_opt (S : Matrix) (r q : List Nat) :
    (∀ a, IsGlobal a r q → scoreLin S a ≤ nwScore S r q) ∧
    ∃ a, IsGlobal a r q ∧ scoreLin S a = nwScore S r q :=
  Biogo.Proofs.AlignLin.nw_opt S r q

/-- "… of the Smith-Waterman aligners equals the maximum over all local alignments (zero if none
    is positive)" — table level: `maxS` bounds every local alignment (the empty one scores 0) and
    is attained; this includes that the code's end-cell filter `score == diagScore` loses nothing
    when gap scores are ≤ 0. -/
theorem sw_opt (S : Matrix) (r q : List Nat) (hg : GapsNonPos S r q) :
    (∀ a, IsLocal a r q → scoreLin S a ≤ swScore S r q) ∧
    ∃ a, IsLocal a r q ∧ scoreLin S a = swScore S r q :=
  Biogo.Proofs.AlignLin.sw_opt S r q hg

/-- "(zero if none is positive)": SW's value is never negative -/
theorem sw_nonneg (S : Matrix) (r q : List Nat) (hg : GapsNonPos S r q) : 0 ≤ swScore S r q :=
  (swFill_bound S r q hg).1

/-- "optimal among all such alignments that end at the same reference position" — table level:
    for every end position `e`, the last-column cell of row `e` of Fitted's table is the maximum
    over the alignments of the whole query with a reference segment ending at `e`. -/
theorem fitted_table_opt (S : Matrix) (r q : List Nat) (hg : ∀ x ∈ r, S x 0 ≤ 0)
    (e : Nat) (he : e ≤ r.length) :
    (∀ a, IsFitted a r q e → scoreLin S a ≤ fitScoreAt S r q e) ∧
    ∃ a, IsFitted a r q e ∧ scoreLin S a = fitScoreAt S r q e :=
  fit_opt S r q hg e he

theorem wellFormed_of_span {ps : List Pair} {i j e1 e2 : Nat} (k : Class) (n m : Nat)
    (h : span ps = some (i, j, e1, e2)) :
    wellFormed k n m ps =
      match k with
      | .global => decide (i = 0) && decide (j = 0) && decide (e1 = n) && decide (e2 = m)
      | .loc => decide (e1 ≤ n) && decide (e2 ≤ m)
      | .fitted => decide (e1 ≤ n) && decide (e2 ≤ m) := by
  simp only [wellFormed, h]
  cases k <;> rfl

/-- `trace_faithful_nw`: whenever the model's NW returns pairs, they describe a global alignment
    of the two sequences whose recomputed score is the sum of the pair scores, and that sum is
    the table value. -/
theorem trace_faithful_nw (c : Call) (ps : List Pair) (h : align .nw c = .ok ps) :
    IsGlobal (decode (callR c) (callQ c) ps) (callR c) (callQ c) ∧
    scoreLin (callS c) (decode (callR c) (callQ c) ps) = total ps ∧
    total ps = nwScore (callS c) (callR c) (callQ c) := by
  obtain ⟨_, hc⟩ := align_ok_inv .nw c ps h
  obtain ⟨ps', h1, hspan, hsc, htot⟩ := nwCore_spec (callS c) (callR c) (callQ c)
  simp only [core] at hc
  rw [hc] at h1; cases h1
  have hwf : wellFormed .global (callR c).length (callQ c).length ps = true := by
    rw [wellFormed_of_span _ _ _ hspan]; simp
  exact ⟨wellFormed_global_sound _ _ _ hwf, (pairScores_total _ _ _ _ hsc).symm, htot⟩

/-- **NW returns an optimal alignment** (C08, first sentence): the pairs the model returns
    describe a global alignment whose score is their total, and no global alignment of the two
    sequences scores more. -/
theorem nw_returns_optimal (c : Call) (ps : List Pair) (h : align .nw c = .ok ps) :
    IsGlobal (decode (callR c) (callQ c) ps) (callR c) (callQ c) ∧
    scoreLin (callS c) (decode (callR c) (callQ c) ps) = total ps ∧
    ∀ a, IsGlobal a (callR c) (callQ c) → scoreLin (callS c) a ≤ total ps := by
  obtain ⟨h1, h2, h3⟩ := trace_faithful_nw c ps h
  exact ⟨h1, h2, fun a ha => by rw [h3]; exact (nw_opt _ _ _).1 a ha⟩

/-- `trace_faithful_sw`: the model's SW returns pairs describing a local alignment whose
    recomputed score is their total, which is `maxS`. -/
theorem trace_faithful_sw (c : Call) (ps : List Pair) (h : align .sw c = .ok ps) :
    IsLocal (decode (callR c) (callQ c) ps) (callR c) (callQ c) ∧
    scoreLin (callS c) (decode (callR c) (callQ c) ps) = total ps ∧
    total ps = swScore (callS c) (callR c) (callQ c) := by
  obtain ⟨_, hc⟩ := align_ok_inv .sw c ps h
  obtain ⟨ps', i, j, h1, hspan, hbi, hbj, hsc, htot⟩ := swCore_spec (callS c) (callR c) (callQ c)
  simp only [core] at hc
  rw [hc] at h1; cases h1
  have hwf : wellFormed .loc (callR c).length (callQ c).length ps = true := by
    rw [wellFormed_of_span _ _ _ hspan]; simp [hbi, hbj]
  exact ⟨wellFormed_local_sound _ _ _ hwf, (pairScores_total _ _ _ _ hsc).symm, htot⟩

/-- **SW returns an optimal local alignment** (C08, second sentence; gap scores ≤ 0): the
    returned pairs describe a local alignment whose score is their total, no local alignment
    scores more, and the total is ≥ 0 ("zero if none is positive"). -/
theorem sw_returns_optimal (c : Call) (hg : GapsNonPos (callS c) (callR c) (callQ c))
    (ps : List Pair) (h : align .sw c = .ok ps) :
    IsLocal (decode (callR c) (callQ c) ps) (callR c) (callQ c) ∧
    scoreLin (callS c) (decode (callR c) (callQ c) ps) = total ps ∧
    (∀ a, IsLocal a (callR c) (callQ c) → scoreLin (callS c) a ≤ total ps) ∧ 0 ≤ total ps := by
  obtain ⟨h1, h2, h3⟩ := trace_faithful_sw c ps h
  exact ⟨h1, h2, fun a ha => by rw [h3]; exact (sw_opt _ _ _ hg).1 a ha, by rw [h3]; exact sw_nonneg _ _ _ hg⟩

/-- `trace_faithful_fit`: the model's Fitted (with the repair of K2b) returns pairs that consume
    the whole query and describe an alignment of the query with a reference segment ending at
    `endRef ps`, whose recomputed score is their total, the table value of that end row. -/
theorem trace_faithful_fit (c : Call) (ps : List Pair) (h : align .fit c = .ok ps) :
    consumesQuery (callQ c).length ps = true ∧ endRef ps ≤ (callR c).length ∧
    IsFitted (decode (callR c) (callQ c) ps) (callR c) (callQ c) (endRef ps) ∧
    scoreLin (callS c) (decode (callR c) (callQ c) ps) = total ps ∧
    total ps = fitScoreAt (callS c) (callR c) (callQ c) (endRef ps) := by
  obtain ⟨_, hc⟩ := align_ok_inv .fit c ps h
  obtain ⟨ps', i, h1, hspan, hsc, htot⟩ := fitCore_spec (callS c) (callR c) (callQ c)
  simp only [core] at hc
  rw [hc] at h1; cases h1
  have he := fitEnd_le (callS c) (callR c) (callQ c)
  have hwf : wellFormed .fitted (callR c).length (callQ c).length ps = true := by
    rw [wellFormed_of_span _ _ _ hspan]; simp [he]
  have hcq : consumesQuery (callQ c).length ps = true := by simp [consumesQuery, hspan]
  have hend : endRef ps = fitEnd (callS c) (callR c) (callQ c) := by simp [endRef, hspan]
  refine ⟨hcq, by rw [hend]; exact he, wellFormed_fitted_sound _ _ _ hwf hcq,
    (pairScores_total _ _ _ _ hsc).symm, by rw [hend]; exact htot⟩

/-- **`fitted_opt_at_end`** (C08, third sentence; gap scores ≤ 0): the alignment Fitted returns
    consumes the whole query and is optimal among all alignments of the whole query that end at
    the same reference position. -/
theorem fitted_opt_at_end (c : Call) (hg : ∀ x ∈ callR c, callS c x 0 ≤ 0)
    (ps : List Pair) (h : align .fit c = .ok ps) :
    consumesQuery (callQ c).length ps = true ∧
    IsFitted (decode (callR c) (callQ c) ps) (callR c) (callQ c) (endRef ps) ∧
    scoreLin (callS c) (decode (callR c) (callQ c) ps) = total ps ∧
    ∀ a, IsFitted a (callR c) (callQ c) (endRef ps) → scoreLin (callS c) a ≤ total ps := by
  obtain ⟨h1, he, h2, h3, h4⟩ := trace_faithful_fit c ps h
  exact ⟨h1, h2, h3, fun a ha => by rw [h4]; exact (fitted_table_opt _ _ _ hg _ he).1 a ha⟩

/-! ### non-vacuity -/

/-- a legal call: alphabet `-ab`, match 2, mismatch −1, gap −1 -/
def exCall (r q : List UInt8) : Call :=
  { refAlpha := some 0, qryAlpha := some 0, gapIndex := 0, refQ := false, qryQ := false, alphaLen := 3,
    index := fun l => if l = 45 then 0 else if l = 97 then 1 else if l = 98 then 2 else -1,
    mat := [[0, -1, -1], [-1, 2, -1], [-1, -1, 2]], r := r, q := q }

example : GapsNonPos (callS (exCall [98, 97, 97] [97, 97, 98])) (callR (exCall [98, 97, 97] [97, 97, 98]))
    (callQ (exCall [98, 97, 97] [97, 97, 98])) := by unfold GapsNonPos; decide
example : align .nw (exCall [97, 98, 97] [97, 97]) = .ok [⟨0, 1, 0, 1, 2⟩, ⟨1, 2, 1, 1, -1⟩, ⟨2, 3, 1, 2, 2⟩] := by decide
example : align .sw (exCall [98, 97, 97] [97, 97, 98]) = .ok [⟨1, 3, 0, 2, 4⟩] := by decide
example : align .fit (exCall [98, 97, 98, 98] [97, 98]) = .ok [⟨1, 3, 0, 2, 4⟩] := by decide
example : nwScore (callS (exCall [] [])) [1, 2, 1] [1, 1] = 3 := by decide

end Biogo.Properties.C08_lin
