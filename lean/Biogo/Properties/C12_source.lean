/-
C12 — source tie below hook granularity.

`Model/MorassConc.lean` treats the code between two hook points as one atomic block.  Three of
its blocks rely on the *order of statements inside the block* in a way no forced schedule can
exhibit, because the goroutine concerned has not reached its first hook yet (or holds a lock):

* the caller's `push.send` block registers the new writer in the WaitGroup **before** the
  goroutine exists (`wg := wg + 1` in the caller's step) — if `writers.Add(1)` ran inside the
  spawned goroutine, `Finalise`'s `Wait` could return before the writer is counted;
* `Finalise` counts, runs and then waits: `Add(1); write(); Wait()`;
* the writer's final block decrements the counter whatever path it leaves by (`defer Done` is the
  first statement), and its `files` registration is inside `filesLock` (the model's
  `register` step is atomic with respect to the other writers).

* a `Push` of a value of another type is rejected by the **first** statement of `Push` (the
  model's `reject` block returns the error and changes nothing; were the check made later — after
  the hand-over of a full chunk — a rejected call would spawn a writer).

The facts are regenerated from `/repo/morass/morass.go` by go/ast on every run
(`harness/props/c12_facts.go`); this theorem fails to check when one of them stops holding.
-/
import Biogo.Generated.MorassFacts

namespace Biogo.Properties.C12_source
open Biogo.Generated.MorassFacts

theorem model_matches_source_structure :
    pushAddsBeforeSpawn = true ∧ finaliseAddsWritesThenWaits = true ∧
    writeDefersDoneFirst = true ∧ filesAppendUnderLock = true ∧ setErrLocks = true ∧
    pushChecksTypeFirst = true := by
  decide

end Biogo.Properties.C12_source
