/-
C14 — PALS q-gram filter reports every ε-match.  Property theorems only.
-/
import Biogo.Model.Filter
import Biogo.Spec.Filter
import Biogo.Generated.FilterFacts

namespace Biogo.Properties.C14
open Biogo.Filter Biogo.Spec.Filter

/-- `tube_geometry`: a diagonal index `d` lies in the band of tube `d / off`, and also in the
    band of the previous tube exactly when `d % off < e` (tube `i` covers the diagonal indices
    `i·off … i·off + (off + e) - 1`). -/
theorem tube_geometry (off e d : Nat) (hoff : 0 < off) :
    (d / off * off ≤ d ∧ d < d / off * off + (off + e)) ∧
    (0 < d / off → ((d / off - 1) * off ≤ d ∧ (d < (d / off - 1) * off + (off + e) ↔ d % off < e))) := by
  have h1 : d / off * off ≤ d := Nat.div_mul_le_self d off
  have h2 : d = off * (d / off) + d % off := (Nat.div_add_mod d off).symm
  have h3 : d % off < off := Nat.mod_lt d hoff
  rw [Nat.mul_comm] at h2
  refine ⟨⟨h1, by omega⟩, fun hpos => ?_⟩
  have h4 : (d / off - 1) * off + off = d / off * off := by
    rw [← Nat.succ_mul]; congr 1; omega
  constructor <;> omega

end Biogo.Properties.C14
