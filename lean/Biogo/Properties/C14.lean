/-
C14 — PALS q-gram filter reports every ε-match.  Property theorems only.
-/
import Biogo.Model.Filter
import Biogo.Spec.Filter
import Biogo.Generated.FilterFacts
import Biogo.Proofs.Filter
import Biogo.Proofs.FilterRun
import Biogo.Proofs.FilterComplete

namespace Biogo.Properties.C14
open Biogo.Filter Biogo.Spec.Filter Biogo.Spec.Kmer Biogo.Proofs.Filter Biogo.Proofs.Kmer
open Biogo.Proofs.FilterRun Biogo.Proofs.FilterComplete

/-- `tube_geometry`: a diagonal index `d` lies in the band of tube `d / off`, and also in the
    band of the previous tube exactly when `d % off < e` (tube `i` covers the diagonal indices
    `i·off … i·off + (off + e) - 1`). -/
theorem tube_geometry (off e d : Nat) (hoff : 0 < off) :
    (d / off * off ≤ d ∧ d < d / off * off + (off + e)) ∧
    (0 < d / off → ((d / off - 1) * off ≤ d ∧ (d < (d / off - 1) * off + (off + e) ↔ d % off < e))) := by
  have h1 : d / off * off ≤ d := Nat.div_mul_le_self d off
  have h2 : d = off * (d / off) + d % off := (Nat.div_add_mod d off).symm
  have h3 : d % off < off := Nat.mod_lt d hoff
  rw [Nat.mul_comm] at h2
  refine ⟨⟨h1, by omega⟩, fun hpos => ?_⟩
  have h4 : (d / off - 1) * off + off = d / off * off := by
    rw [← Nat.succ_mul]; congr 1; omega
  constructor <;> omega

/-- `qgram_lemma` (Ukkonen, substitutions only): an ε-match — windows `t[a:a+n]`, `q[b:b+n]`
    differing in at most `e` columns — shares at least `MinWordsPerFilterHit(n, k, e) =
    n + 1 - k(e+1)` k-mer occurrences; every shared k-mer pairs target position `a+i` with query
    position `b+i` (so it lies on the diagonal of the match), lies inside the match
    (`i + k ≤ n`), and any two of them are at most `n - k = maxKmerDist` apart in the query. -/
theorem qgram_lemma (lk : Lookup) (k : Nat) (hk : 1 ≤ k) (t q : List UInt8) (n e a b : Nat)
    (h : EpsMatch lk t q n e a b) :
    ((sharedKmers lk k t q a b n).length : Int) ≥ minWordsPerFilterHit n k e ∧
    (∀ i ∈ sharedKmers lk k t q a b n,
      i + k ≤ n ∧ ∃ w, wordAt lk k t (a + i) = some w ∧ wordAt lk k q (b + i) = some w) ∧
    (∀ i ∈ sharedKmers lk k t q a b n, ∀ i' ∈ sharedKmers lk k t q a b n,
      (b + i') - (b + i) ≤ n - k) := by
  refine ⟨?_, ?_, ?_⟩
  · have := sharedKmers_bound lk k hk t q a b n e h.2.2
    unfold minWordsPerFilterHit
    have h2 : ((k * (e + 1) : Nat) : Int) = (k : Int) * ((e : Int) + 1) := by simp
    omega
  · intro i hi
    unfold sharedKmers at hi
    rw [List.mem_filter, List.mem_range] at hi
    obtain ⟨h1, h2⟩ := hi
    refine ⟨by omega, ?_⟩
    cases hw : wordAt lk k t (a + i) with
    | none => simp [hw] at h2
    | some w =>
      cases hw' : wordAt lk k q (b + i) with
      | none => simp [hw, hw'] at h2
      | some w' =>
        simp only [hw, hw', beq_iff_eq] at h2
        exact ⟨w, rfl, by rw [h2]⟩
  · intro i hi i' hi'
    unfold sharedKmers at hi hi'
    rw [List.mem_filter, List.mem_range] at hi hi'
    omega

-- non-vacuity: "acgtacgtac" against "acgtaagtac" (one substitution), k = 3, n = 10, e = 1:
-- threshold 10 + 1 - 3·2 = 5, shared 3-mers at offsets 0,1,2 and 6,7
example :
    let lk : Lookup := fun b => if b = 97 then some 0 else if b = 99 then some 1 else if b = 103 then some 2
      else if b = 116 then some 3 else none
    EpsMatch lk [97, 99, 103, 116, 97, 99, 103, 116, 97, 99] [97, 99, 103, 116, 97, 97, 103, 116, 97, 99] 10 1 0 0 ∧
    sharedKmers lk 3 [97, 99, 103, 116, 97, 99, 103, 116, 97, 99] [97, 99, 103, 116, 97, 97, 103, 116, 97, 99] 0 0 10
      = [0, 1, 2, 6, 7] ∧ minWordsPerFilterHit 10 3 1 = 5 := by
  decide

/-- the retirement rule regenerated from `align/pals/filter/filter.go` is the repaired one
    (`tubeEnd` subtracts `MaxError`; the final flush starts at the first tube no tick has retired).
    This is the tie of `filter_complete` to the source: it fails to build on the pinned tree. -/
theorem rule_tie : Biogo.Generated.FilterFacts.rule = repaired := by decide

/-- `retire_timing_ok`, arithmetic core: with the repaired rule the `j`-th tick happens at query
    position `tickPos j = (j+1)·off + e - 1` and retires exactly tube `j`; while the run of a match
    in tube `i` is complete and `i` is not yet retired, no other tube index sharing the slot of `i`
    can be addressed by a common k-mer (`event_alias`). -/
theorem retire_timing_ok {c : Cfg} (w : WF c) (j : Nat) :
    tubeEndIndex c (tickPos c j) = (j : Int) ∧ tickPos c (j + 1) = tickPos c j + c.off :=
  ⟨tubeEndIndex_tick w j, tickPos_succ w j⟩

/-- `run_accumulates` / completeness of the tube state machine for one match (abstract run: any
    assignment `ts` of target positions to query positions `0 … Qlen-k`): if `m ≥ threshold` shared
    k-mers of a match, all in tube `i`, at query positions within `[lo, hi]` with
    `hi - lo ≤ maxKmerDist`, are among the processed common k-mers, then a hit on the diagonal of
    tube `i` whose query interval contains `[lo, hi + k)` is pushed, and no slot index is negative. -/
theorem run_accumulates {c : Cfg} (w : WF c) (i lo hi m : Nat) (sh : Nat → Bool) (tstar : Nat → Nat)
    (ts : Nat → List Nat) (qlen : Nat)
    (hk2 : 2 ≤ c.k) (hkt : c.k ≤ c.tlen) (hq : c.k ≤ qlen) (hqe : c.maxError + 1 ≤ qlen)
    (hs : Shared sh lo hi m) (he : Events c i sh tstar ts)
    (hthr : (m : Int) ≥ c.minKmers) (hm1 : 1 ≤ m) (hD : (hi : Int) - lo ≤ c.maxKmerDist)
    (hband : i * c.off ≤ c.tlen + lo) (hhiq : hi ≤ tickPos c i) (hhi : hi + c.k ≤ qlen) :
    (runFilter c ts (qlen - c.k + 1) qlen).panic = false ∧
    Done c i lo hi (runFilter c ts (qlen - c.k + 1) qlen) :=
  run_complete w i lo hi m sh tstar ts qlen hk2 hkt hq hqe hs he hthr hm1 hD hband hhiq hhi

/-- **C14, the property** (for the model of the repaired code): for any target and any query —
    the property is stated for sequences over the four-letter alphabet (either case); since the
    ticker follows the query position (`Rule.tickByPosition`, fix `0c69d0c`) the theorem no longer
    needs that: letters outside the alphabet are allowed in both sequences and count as mismatches
    in `EpsMatch`, so every window pair with at most `e` columns that differ *or* hold such a letter
    is covered (the first-wave hypothesis `AllValid lk q` is gone; `filter_incomplete_ticker` shows
    it was needed for the callback-counting ticker) —, any supported word size `k`
    (`MinKmerLen ≤ k ≤ MaxKmerLen`, target of at least `k+1` letters), match length `n`, error bound
    `e` and tube offset `off ≥ max e 1` whose q-gram threshold `n + 1 - k(e+1)` is positive: the index
    is built, and whenever `Filter` returns its hits, every pair of length-`n` windows differing by at
    most `e` substitutions — in self-comparison mode: every such pair strictly above the main
    diagonal — is covered by a reported hit (its diagonal band of width `off + e` contains the match
    diagonal and its query interval overlaps the match).  `filter` is the function the driver runs
    against `filter.Filter`; the rule is the one regenerated from the source (`rule_tie`). -/
theorem filter_complete {lk : Lookup} (hlk : FourLetter lk) (t q : List UInt8) (k n e off : Nat)
    (selfAlign : Bool) (hk : Biogo.Kmer.minKmerLen ≤ k) (hk' : k ≤ Biogo.Kmer.maxKmerLen)
    (ht : k + 1 ≤ t.length)
    (hthr : 0 < minWordsPerFilterHit n k e) (he : e ≤ off) (hoff : 1 ≤ off) :
    (∃ ix0, Biogo.Kmer.new lk 4 k t = .ok ix0 ∧ Biogo.Kmer.build lk ix0 = builtIndex lk k t) ∧
    ∀ hits, filter Biogo.Generated.FilterFacts.rule lk (builtIndex lk k t)
        { minMatch := n, maxError := e, tubeOffset := off } q selfAlign false = .ok hits →
      ∀ a b, EpsMatch lk t q n e a b → required selfAlign a b = true →
        Covered (hits.map toSpec) (off + e) n a b := by
  have hk1 : 2 ≤ k ∧ 2 * k ≤ Biogo.Kmer.wordBits := by
    unfold Biogo.Kmer.minKmerLen at hk; unfold Biogo.Kmer.maxKmerLen at hk'; unfold Biogo.Kmer.wordBits; omega
  constructor
  · refine ⟨_, ?_, rfl⟩
    unfold Biogo.Kmer.new Biogo.Kmer.newCheck
    rw [if_neg (by omega), if_neg (by omega), if_neg (by omega), if_neg (by omega)]
  · intro hits hf a b hm hreq
    rw [rule_tie] at hf
    obtain ⟨hits', hf', hcov⟩ := filter_complete_aux hlk t q k n e off selfAlign false hk1.1 hk1.2 (by omega) hthr he hoff a b hm hreq
    rw [hf] at hf'
    cases hf'
    exact hcov

/-- **C14 on the complement strand** (`complement = true`, the second pass of `PALS.Align`): same
    parameter ranges as `filter_complete`, the query being whatever the caller hands over (PALS: the
    reverse complement of the query).  Without self comparison the flag has no effect and every
    ε-match is covered.  In a self comparison the filter cuts the common k-mers below the
    anti-diagonal (`q < Tlen - t`), and every ε-match that lies on or above it — `Tlen ≤ a + b`, i.e.
    none of its k-mers is cut — is covered by a reported hit.  For `q = revcomp t` each pair of
    regions appears twice, mirrored about the anti-diagonal, and of a pair of disjoint regions
    exactly one image satisfies `Tlen ≤ a + b` (`C14_checker.requiredC_mirror`): every inverted
    repeat with disjoint arms is found, once. -/
theorem filter_complete_complement {lk : Lookup} (hlk : FourLetter lk) (t q : List UInt8) (k n e off : Nat)
    (selfAlign : Bool) (hk : Biogo.Kmer.minKmerLen ≤ k) (hk' : k ≤ Biogo.Kmer.maxKmerLen)
    (ht : k + 1 ≤ t.length)
    (hthr : 0 < minWordsPerFilterHit n k e) (he : e ≤ off) (hoff : 1 ≤ off) :
    ∀ hits, filter Biogo.Generated.FilterFacts.rule lk (builtIndex lk k t)
        { minMatch := n, maxError := e, tubeOffset := off } q selfAlign true = .ok hits →
      ∀ a b, EpsMatch lk t q n e a b → (selfAlign = true → t.length ≤ a + b) →
        Covered (hits.map toSpec) (off + e) n a b := by
  have hk1 : 2 ≤ k ∧ 2 * k ≤ Biogo.Kmer.wordBits := by
    unfold Biogo.Kmer.minKmerLen at hk; unfold Biogo.Kmer.maxKmerLen at hk'; unfold Biogo.Kmer.wordBits; omega
  intro hits hf a b hm hreq
  rw [rule_tie] at hf
  have hreq' : requiredC selfAlign true t.length a b = true := by
    unfold requiredC
    cases selfAlign with
    | false => rfl
    | true => simpa using hreq rfl
  obtain ⟨hits', hf', hcov⟩ := filter_complete_aux hlk t q k n e off selfAlign true hk1.1 hk1.2 (by omega) hthr he hoff a b hm hreq'
  rw [hf] at hf'
  cases hf'
  exact hcov

/-- both strands in one statement, in the form the driver's checker evaluates it
    (`C14_checker.checker_iff_strand`): whatever the two flags, every ε-match required on that strand
    (`requiredC`) is covered. -/
theorem filter_complete_strand {lk : Lookup} (hlk : FourLetter lk) (t q : List UInt8) (k n e off : Nat)
    (selfAlign complement : Bool) (hk : Biogo.Kmer.minKmerLen ≤ k) (hk' : k ≤ Biogo.Kmer.maxKmerLen)
    (ht : k + 1 ≤ t.length)
    (hthr : 0 < minWordsPerFilterHit n k e) (he : e ≤ off) (hoff : 1 ≤ off) :
    ∀ hits, filter Biogo.Generated.FilterFacts.rule lk (builtIndex lk k t)
        { minMatch := n, maxError := e, tubeOffset := off } q selfAlign complement = .ok hits →
      ∀ a b, EpsMatch lk t q n e a b → requiredC selfAlign complement t.length a b = true →
        Covered (hits.map toSpec) (off + e) n a b := by
  have hk1 : 2 ≤ k ∧ 2 * k ≤ Biogo.Kmer.wordBits := by
    unfold Biogo.Kmer.minKmerLen at hk; unfold Biogo.Kmer.maxKmerLen at hk'; unfold Biogo.Kmer.wordBits; omega
  intro hits hf a b hm hreq
  rw [rule_tie] at hf
  obtain ⟨hits', hf', hcov⟩ := filter_complete_aux hlk t q k n e off selfAlign complement hk1.1 hk1.2 (by omega) hthr he hoff a b hm hreq
  rw [hf] at hf'
  cases hf'
  exact hcov

/-! ### refutation of the full statement for the rules of the pinned tree -/

/-- lower-case DNA lookup -/
def dna : Lookup := fun b =>
  if b = 97 then some 0 else if b = 99 then some 1 else if b = 103 then some 2 else if b = 116 then some 3 else none

/-- does `filter` (with `rule`) leave the match at `(a, b)` uncovered? -/
def misses (rule : Rule) (k n e off : Nat) (t q : List UInt8) (a b : Nat) : Bool :=
  match filter rule dna (builtIndex dna k t) { minMatch := n, maxError := e, tubeOffset := off } q false false with
  | .ok hits => !(hits.any fun h => covers (off + e) n (toSpec h) a b)
  | .error _ => false

/-- `filter_incomplete` (F21): with the retirement rule of the pinned tree (`tubeEnd` does not
    subtract `MaxError`) completeness fails — `k=4 n=13 e=1 off=8`, target of 20 letters, query of 28,
    the ε-match at `a=5 b=0` is covered by no hit (the witness of `corpus/C14.txt`). -/
theorem filter_incomplete_pinned :
    EpsMatch dna [116, 116, 97, 103, 103, 97, 99, 99, 99, 103, 103, 116, 116, 103, 99, 103, 116, 116, 99, 99] [97, 99, 99, 99, 103, 103, 99, 116, 103, 99, 103, 116, 116, 99, 116, 116, 103, 116, 97, 116, 103, 103, 99, 116, 103, 97, 103, 97] 13 1 5 0 ∧
    misses Rule.pinned 4 13 1 8 [116, 116, 97, 103, 103, 97, 99, 99, 99, 103, 103, 116, 116, 103, 99, 103, 116, 116, 99, 99] [97, 99, 99, 99, 103, 103, 99, 116, 103, 99, 103, 116, 116, 99, 116, 116, 103, 116, 97, 116, 103, 103, 99, 116, 103, 97, 103, 97] 5 0 = true := by
  decide +kernel

/-- `filter_incomplete` (K4): with only the retirement rule repaired, the final flush of the pinned
    tree still reports the run of an end-of-query tube under an aliased index — `k=4 n=4 e=0 off=2`,
    target `caacc`, query `acaacaaaca`, the exact match at `a=0 b=1` is covered by no hit (tube 3 is
    flushed as tube 7 of a 4-slot array). -/
theorem filter_incomplete_flush :
    EpsMatch dna [99, 97, 97, 99, 99] [97, 99, 97, 97, 99, 97, 97, 97, 99, 97] 4 0 0 1 ∧
    misses { retireSubMaxError := true, flushFromLastTick := false } 4 4 0 2 [99, 97, 97, 99, 99] [97, 99, 97, 97, 99, 97, 97, 97, 99, 97] 0 1 = true := by
  decide +kernel

/-- `filter_incomplete` (ticker; outside the quantifier of C14, which is stated over A,C,G,T): with
    the callback-counting ticker of the first wave (`tickByPosition := false`, both other repairs in
    place) a query with letters outside the alphabet loses matches — `k=4 n=7 e=0 off=5`, target
    `cttacta`, query `cttactaaaacnn`: the two last windows get no callback, the tick that retires
    tube 1 never comes, the final flush starts beyond it and reports the run of the exact match at
    `a=0 b=0` under the aliased index 4 (the `fln` witness of `corpus/C14.txt`, shrunk). -/
theorem filter_incomplete_ticker :
    EpsMatch dna [99, 116, 116, 97, 99, 116, 97] [99, 116, 116, 97, 99, 116, 97, 97, 97, 97, 99, 110, 110] 7 0 0 0 ∧
    misses { retireSubMaxError := true, flushFromLastTick := true, tickByPosition := false } 4 7 0 5
      [99, 116, 116, 97, 99, 116, 97] [99, 116, 116, 97, 99, 116, 97, 97, 97, 97, 99, 110, 110] 0 0 = true ∧
    misses repaired 4 7 0 5
      [99, 116, 116, 97, 99, 116, 97] [99, 116, 116, 97, 99, 116, 97, 97, 97, 97, 99, 110, 110] 0 0 = false := by
  decide +kernel

-- the same two inputs are covered under the repaired rule (as `filter_complete` says they must be)
example : misses repaired 4 13 1 8 [116, 116, 97, 103, 103, 97, 99, 99, 99, 103, 103, 116, 116, 103, 99, 103, 116, 116, 99, 99] [97, 99, 99, 99, 103, 103, 99, 116, 103, 99, 103, 116, 116, 99, 116, 116, 103, 116, 97, 116, 103, 103, 99, 116, 103, 97, 103, 97] 5 0 = false ∧ misses repaired 4 4 0 2 [99, 97, 97, 99, 99] [97, 99, 97, 97, 99, 97, 97, 97, 99, 97] 0 1 = false := by
  decide +kernel

/-- **the ticker repair is conservative inside the property's quantifier**: for a query over the
    four-letter alphabet (every k-mer position has a callback) the model of the first wave's code —
    the ticker a countdown of callbacks — and the model of the repaired code — the ticker following
    the query position, rule regenerated from the source — return the same result of `Filter`,
    errors included, for every index, parameters `e ≤ off`, `1 ≤ off` and both flags.  (With letters
    outside the alphabet they differ: `filter_incomplete_ticker`.) -/
theorem ticker_repair_conservative {lk : Lookup} (hlk : FourLetter lk) (ix : Biogo.Kmer.Index) (p : Params)
    (q : List UInt8) (selfAlign complement : Bool)
    (hk : 1 ≤ ix.k) (hk2 : 2 * ix.k ≤ Biogo.Kmer.wordBits) (hq : AllValid lk q) (hkq : ix.k ≤ q.length)
    (he : p.maxError ≤ p.tubeOffset) (hoff : 1 ≤ p.tubeOffset) :
    filter { Biogo.Generated.FilterFacts.rule with tickByPosition := false } lk ix p q selfAlign complement =
      filter Biogo.Generated.FilterFacts.rule lk ix p q selfAlign complement :=
  filter_countdown_eq hlk _ (by rw [rule_tie]; rfl) ix p q selfAlign complement hk hk2 hq hkq he hoff

/-! ### non-vacuity of the complement statement -/

/-- `misses` with both flags -/
def missesC (rule : Rule) (k n e off : Nat) (t q : List UInt8) (selfAlign complement : Bool) (a b : Nat) : Bool :=
  match filter rule dna (builtIndex dna k t) { minMatch := n, maxError := e, tubeOffset := off } q selfAlign complement with
  | .ok hits => !(hits.any fun h => covers (off + e) n (toSpec h) a b)
  | .error _ => false

-- `caacgttg` is its own reverse complement (`L = 8`); `k = n = 4`, `e = 0`, `off = 2`.  The exact
-- matches are the five windows of the main diagonal.  `(4, 4)` lies on the anti-diagonal
-- (`a + b = L`): required, and covered.  Its mirror image `(0, 0)` (the same pair of regions
-- `[0,4)`, `[4,8)`) lies below: not required, and indeed cut — the pair is reported once.
example :
    EpsMatch dna [99, 97, 97, 99, 103, 116, 116, 103] [99, 97, 97, 99, 103, 116, 116, 103] 4 0 4 4 ∧
    requiredC true true 8 4 4 = true ∧
    missesC repaired 4 4 0 2 [99, 97, 97, 99, 103, 116, 116, 103] [99, 97, 97, 99, 103, 116, 116, 103] true true 4 4 = false ∧
    EpsMatch dna [99, 97, 97, 99, 103, 116, 116, 103] [99, 97, 97, 99, 103, 116, 116, 103] 4 0 0 0 ∧
    requiredC true true 8 0 0 = false ∧
    missesC repaired 4 4 0 2 [99, 97, 97, 99, 103, 116, 116, 103] [99, 97, 97, 99, 103, 116, 116, 103] true true 0 0 = true := by
  decide +kernel

end Biogo.Properties.C14
