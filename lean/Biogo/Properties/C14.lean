/-
C14 — PALS q-gram filter reports every ε-match.  Property theorems only.
-/
import Biogo.Model.Filter
import Biogo.Spec.Filter
import Biogo.Generated.FilterFacts
import Biogo.Proofs.Filter

namespace Biogo.Properties.C14
open Biogo.Filter Biogo.Spec.Filter Biogo.Spec.Kmer Biogo.Proofs.Filter

/-- `tube_geometry`: a diagonal index `d` lies in the band of tube `d / off`, and also in the
    band of the previous tube exactly when `d % off < e` (tube `i` covers the diagonal indices
    `i·off … i·off + (off + e) - 1`). -/
theorem tube_geometry (off e d : Nat) (hoff : 0 < off) :
    (d / off * off ≤ d ∧ d < d / off * off + (off + e)) ∧
    (0 < d / off → ((d / off - 1) * off ≤ d ∧ (d < (d / off - 1) * off + (off + e) ↔ d % off < e))) := by
  have h1 : d / off * off ≤ d := Nat.div_mul_le_self d off
  have h2 : d = off * (d / off) + d % off := (Nat.div_add_mod d off).symm
  have h3 : d % off < off := Nat.mod_lt d hoff
  rw [Nat.mul_comm] at h2
  refine ⟨⟨h1, by omega⟩, fun hpos => ?_⟩
  have h4 : (d / off - 1) * off + off = d / off * off := by
    rw [← Nat.succ_mul]; congr 1; omega
  constructor <;> omega

/-- `qgram_lemma` (Ukkonen, substitutions only): an ε-match — windows `t[a:a+n]`, `q[b:b+n]`
    differing in at most `e` columns — shares at least `MinWordsPerFilterHit(n, k, e) =
    n + 1 - k(e+1)` k-mer occurrences; every shared k-mer pairs target position `a+i` with query
    position `b+i` (so it lies on the diagonal of the match), lies inside the match
    (`i + k ≤ n`), and any two of them are at most `n - k = maxKmerDist` apart in the query. -/
theorem qgram_lemma (lk : Lookup) (k : Nat) (hk : 1 ≤ k) (t q : List UInt8) (n e a b : Nat)
    (h : EpsMatch lk t q n e a b) :
    ((sharedKmers lk k t q a b n).length : Int) ≥ minWordsPerFilterHit n k e ∧
    (∀ i ∈ sharedKmers lk k t q a b n,
      i + k ≤ n ∧ ∃ w, wordAt lk k t (a + i) = some w ∧ wordAt lk k q (b + i) = some w) ∧
    (∀ i ∈ sharedKmers lk k t q a b n, ∀ i' ∈ sharedKmers lk k t q a b n,
      (b + i') - (b + i) ≤ n - k) := by
  refine ⟨?_, ?_, ?_⟩
  · have := sharedKmers_bound lk k hk t q a b n e h.2.2
    unfold minWordsPerFilterHit
    have h2 : ((k * (e + 1) : Nat) : Int) = (k : Int) * ((e : Int) + 1) := by simp
    omega
  · intro i hi
    unfold sharedKmers at hi
    rw [List.mem_filter, List.mem_range] at hi
    obtain ⟨h1, h2⟩ := hi
    refine ⟨by omega, ?_⟩
    cases hw : wordAt lk k t (a + i) with
    | none => simp [hw] at h2
    | some w =>
      cases hw' : wordAt lk k q (b + i) with
      | none => simp [hw, hw'] at h2
      | some w' =>
        simp only [hw, hw', beq_iff_eq] at h2
        exact ⟨w, rfl, by rw [h2]⟩
  · intro i hi i' hi'
    unfold sharedKmers at hi hi'
    rw [List.mem_filter, List.mem_range] at hi hi'
    omega

-- non-vacuity: "acgtacgtac" against "acgtaagtac" (one substitution), k = 3, n = 10, e = 1:
-- threshold 10 + 1 - 3·2 = 5, shared 3-mers at offsets 0,1,2 and 6,7
example :
    let lk : Lookup := fun b => if b = 97 then some 0 else if b = 99 then some 1 else if b = 103 then some 2
      else if b = 116 then some 3 else none
    EpsMatch lk [97, 99, 103, 116, 97, 99, 103, 116, 97, 99] [97, 99, 103, 116, 97, 97, 103, 116, 97, 99] 10 1 0 0 ∧
    sharedKmers lk 3 [97, 99, 103, 116, 97, 99, 103, 116, 97, 99] [97, 99, 103, 116, 97, 97, 103, 116, 97, 99] 0 0 10
      = [0, 1, 2, 6, 7] ∧ minWordsPerFilterHit 10 3 1 = 5 := by
  decide

end Biogo.Properties.C14
