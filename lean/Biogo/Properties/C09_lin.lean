/-
C09, part `lin` — alignment descriptions of NW, SW and Fitted are well-formed, faithfully
scored, type-independent and total.  Property theorems only; proofs in
`Biogo/Proofs/AlignLin*.lean` and `Biogo/Proofs/AlignPairs.lean`.

The theorems are about `Biogo.AlignLin.align`, the executable model the driver runs.  For a call
`c`: `callS c` is the scoring function built from the flattened matrix, `callR c` / `callQ c` the
alphabet indices of the sequences.  `Spec.AlignPairs.wellFormed` is the executable path predicate
the driver evaluates on the implementation's pairs.
-/
import Biogo.Proofs.AlignLinTotal
import Biogo.Proofs.AlignPairs
import Biogo.Generated.AlignTemplates
import Biogo.Properties.C08_lin

namespace Biogo.Properties.C09_lin
open Biogo.AlignLin Biogo.Spec.AlignPairs Biogo.Spec.Alignment Biogo.Proofs.AlignLin Biogo.Proofs.AlignPairs

/-- class of path each aligner must return -/
def classOf : Aligner → Class
  | .nw => .global | .sw => .loc | .fit => .fitted

/-! ### `Spec.wellFormed` and its soundness -/

/-- What `wellFormed k n m ps = true` says ("the feature pairs form one monotone path: consecutive
    pairs abut in both sequences, each pair is an equal-length ungapped block, a gap in exactly one
    sequence, or empty with zero score; global alignments span both sequences entirely and local
    ones stay within bounds"): the list is non-empty, every pair starts where its predecessor
    ends (`chainEnd`), every pair has one of the three shapes (`okShape_iff`), and the path runs
    from `(i, j)` to `(e₁, e₂)` with the class condition. -/
theorem wellFormed_iff (k : Class) (n m : Nat) (ps : List Pair) :
    wellFormed k n m ps = true ↔
      ∃ i j e1 e2, span ps = some (i, j, e1, e2) ∧ chainEnd i j ps = some (e1, e2) ∧
        match k with
        | .global => i = 0 ∧ j = 0 ∧ e1 = n ∧ e2 = m
        | .loc => e1 ≤ n ∧ e2 ≤ m
        | .fitted => e1 ≤ n ∧ e2 ≤ m := by
  constructor
  · intro h
    simp only [wellFormed] at h
    split at h
    · simp at h
    · rename_i i j e1 e2 hs
      refine ⟨i, j, e1, e2, hs, span_chain hs, ?_⟩
      cases k <;> simp only [Bool.and_eq_true, decide_eq_true_eq] at h ⊢
      · exact ⟨h.1.1.1, h.1.1.2, h.1.2, h.2⟩
      · exact h
      · exact h
  · rintro ⟨i, j, e1, e2, hs, _, hk⟩
    simp only [wellFormed, hs]
    cases k <;> simp only [Bool.and_eq_true, decide_eq_true_eq] at hk ⊢
    · exact ⟨⟨⟨hk.1, hk.2.1⟩, hk.2.2.1⟩, hk.2.2.2⟩
    · exact hk
    · exact hk

/-- every link of the chain is a well-shaped pair that starts where the previous one ended -/
theorem chain_links (ps : List Pair) (i j e1 e2 : Nat) (h : chainEnd i j ps = some (e1, e2)) :
    ∀ p ∈ ps, p.a0 ≤ p.a1 ∧ p.b0 ≤ p.b1 ∧
      (p.a1 - p.a0 = p.b1 - p.b0 ∨ p.a0 = p.a1 ∨ p.b0 = p.b1) ∧
      (p.a0 = p.a1 → p.b0 = p.b1 → p.score = 0) := by
  induction ps generalizing i j with
  | nil => intro p hp; simp at hp
  | cons p0 ps ih =>
    intro p hp
    simp only [chainEnd] at h
    split at h
    · rename_i hc
      simp only [List.mem_cons] at hp
      rcases hp with rfl | hp
      · exact (okShape_iff p).mp hc.2.2
      · exact ih _ _ h p hp
    · simp at h

/-- soundness for the global class: the pairs describe a global alignment -/
theorem wellFormed_global_sound (r q : List Nat) (ps : List Pair)
    (h : wellFormed .global r.length q.length ps = true) : IsGlobal (decode r q ps) r q :=
  Biogo.Proofs.AlignPairs.wellFormed_global_sound r q ps h

/-- soundness for the local class -/
theorem wellFormed_local_sound (r q : List Nat) (ps : List Pair)
    (h : wellFormed .loc r.length q.length ps = true) : IsLocal (decode r q ps) r q :=
  Biogo.Proofs.AlignPairs.wellFormed_local_sound r q ps h

/-- soundness for the fitted class (with the query consumed) -/
theorem wellFormed_fitted_sound (r q : List Nat) (ps : List Pair)
    (h : wellFormed .fitted r.length q.length ps = true) (hc : consumesQuery q.length ps = true) :
    IsFitted (decode r q ps) r q (endRef ps) :=
  Biogo.Proofs.AlignPairs.wellFormed_fitted_sound r q ps h hc

/-- faithful pair scores make the sum of the pair scores the score of the described alignment -/
theorem pairScores_total (S : Matrix) (r q : List Nat) (ps : List Pair)
    (h : pairScoresOk S r q ps = true) : total ps = scoreLin S (decode r q ps) :=
  Biogo.Proofs.AlignPairs.pairScores_total S r q ps h

/-! ### the model's tracebacks -/

theorem core_span (al : Aligner) (c : Call) (ps : List Pair) (h : align al c = .ok ps) :
    wellFormed (classOf al) c.r.length c.q.length ps = true ∧
    pairScoresOk (callS c) (callR c) (callQ c) ps = true := by
  obtain ⟨_, hc⟩ := align_ok_inv al c ps h
  rw [← callR_length c, ← callQ_length c]
  cases al with
  | nw =>
    obtain ⟨ps', h1, hspan, hsc, _⟩ := nwCore_spec (callS c) (callR c) (callQ c)
    simp only [core] at hc; rw [hc] at h1; cases h1
    exact ⟨by simp [wellFormed, hspan, classOf], hsc⟩
  | sw =>
    obtain ⟨ps', i, j, h1, hspan, hbi, hbj, hsc, _⟩ := swCore_spec (callS c) (callR c) (callQ c)
    simp only [core] at hc; rw [hc] at h1; cases h1
    exact ⟨by simp [wellFormed, hspan, classOf, hbi, hbj], hsc⟩
  | fit =>
    obtain ⟨ps', i, h1, hspan, hsc, _⟩ := fitCore_spec (callS c) (callR c) (callQ c)
    simp only [core] at hc; rw [hc] at h1; cases h1
    exact ⟨by simp [wellFormed, hspan, classOf, fitEnd_le], hsc⟩

/-- `trace_wf_nw`: NW's pairs form one monotone path that spans both sequences entirely -/
theorem trace_wf_nw (c : Call) (ps : List Pair) (h : align .nw c = .ok ps) :
    wellFormed .global c.r.length c.q.length ps = true := (core_span .nw c ps h).1

/-- `trace_wf_sw`: SW's pairs form one monotone path that stays within both sequences -/
theorem trace_wf_sw (c : Call) (ps : List Pair) (h : align .sw c = .ok ps) :
    wellFormed .loc c.r.length c.q.length ps = true := (core_span .sw c ps h).1

/-- `trace_wf_fit`: Fitted's pairs form one monotone path within the sequences that covers the
    whole query -/
theorem trace_wf_fit (c : Call) (ps : List Pair) (h : align .fit c = .ok ps) :
    wellFormed .fitted c.r.length c.q.length ps = true ∧ consumesQuery c.q.length ps = true := by
  refine ⟨(core_span .fit c ps h).1, ?_⟩
  rw [← callQ_length c]
  exact (Biogo.Properties.C08_lin.trace_faithful_fit c ps h).1

/-- `pair_scores_faithful`: "each pair's reported score equals the score recomputed from the
    letters, matrix and gap parameters", for all three aligners -/
theorem pair_scores_faithful (al : Aligner) (c : Call) (ps : List Pair) (h : align al c = .ok ps) :
    ∀ p ∈ ps, p.score = scoreLin (callS c) (p.cols (callR c) (callQ c)) := by
  have := (core_span al c ps h).2
  simpa [pairScoresOk] using this

/-! ### `align.Format` -/

/-- `format_rows`: "Format renders two equal-length rows that reduce to the aligned subsequences
    when gap letters are removed" — for every well-formed pair list (in particular, by
    `trace_wf_*`, for everything the aligners return) over sequences that do not themselves
    contain the gap letter. -/
theorem format_rows (k : Class) (gap : UInt8) (r q : List UInt8) (ps : List Pair)
    (h : wellFormed k r.length q.length ps = true) :
    ∃ i j e1 e2, span ps = some (i, j, e1, e2) ∧
      (formatRows gap r q ps).1.length = (formatRows gap r q ps).2.length ∧
      (¬ gap ∈ r → (formatRows gap r q ps).1.filter (· ≠ gap) = (r.take e1).drop i) ∧
      (¬ gap ∈ q → (formatRows gap r q ps).2.filter (· ≠ gap) = (q.take e2).drop j) := by
  obtain ⟨i, j, e1, e2, hs, hc, hk⟩ := (wellFormed_iff k _ _ ps).mp h
  have hb : e1 ≤ r.length ∧ e2 ≤ q.length := by
    cases k <;> simp only at hk <;> omega
  obtain ⟨h1, h2, h3, _⟩ := format_chain gap r q ps i j e1 e2 hc hb.1 hb.2
  exact ⟨i, j, e1, e2, hs, h1, h2, h3⟩

/-! ### totality -/

/-- `align_total`, part 1: no input makes the model of NW or SW panic, and none with a non-empty
    query makes Fitted panic (the `default: panic("internal error: no path")` of the tracebacks is
    unreachable; after the repair of F12 no letter check comes after a table access). -/
theorem align_never_panics (al : Aligner) (c : Call) (hq : al = .fit → c.q ≠ []) (msg : String) :
    align al c ≠ .panic msg :=
  align_no_panic al c hq msg

/-- `align_total`, part 2: "illegal letters, mismatched alphabets or sequence types, and non-square
    or undersized matrices produce an error": no alphabet, different alphabet objects, no gap
    letter at index 0, different slice types, fewer matrix rows than alphabet letters, a row whose
    length differs from the number of rows, or — both sequences non-empty — a letter of either
    sequence outside the alphabet. -/
theorem align_total (al : Aligner) (c : Call)
    (h : c.refAlpha = none ∨ c.refAlpha ≠ c.qryAlpha ∨ c.gapIndex ≠ 0 ∨ c.refQ ≠ c.qryQ ∨
      c.mat.length < c.alphaLen ∨ (∃ row ∈ c.mat, row.length ≠ c.mat.length) ∨
      (c.r ≠ [] ∧ c.q ≠ [] ∧ ((∃ l ∈ c.r, c.index l < 0) ∨ ∃ l ∈ c.q, c.index l < 0))) :
    ∃ e, align al c = .error e := by
  apply align_not_accepted
  rintro ⟨h1, h2, h3, h4, h5, h6, h7⟩
  rcases h with h | h | h | h | h | h | ⟨hr, hq, h⟩
  · simp [h] at h1
  · exact h h2
  · exact h h3
  · exact h h4
  · exact h5 h
  · obtain ⟨row, hrow, hne⟩ := h
    simp only [isSquare, List.all_eq_true, beq_iff_eq] at h6
    exact hne (h6 row hrow)
  · obtain ⟨hvr, hvq⟩ := (checkLetters_none al c.index c.r c.q hr hq).mp h7
    rcases h with ⟨l, hl, hneg⟩ | ⟨l, hl, hneg⟩
    · have := hvr l hl; omega
    · have := hvq l hl; omega

/-- conversely a legal call (non-empty sequences) returns pairs -/
theorem align_legal_ok (al : Aligner) (c : Call)
    (h1 : c.refAlpha ≠ none) (h2 : c.refAlpha = c.qryAlpha) (h3 : c.gapIndex = 0) (h4 : c.refQ = c.qryQ)
    (h5 : c.alphaLen ≤ c.mat.length) (h6 : ∀ row ∈ c.mat, row.length = c.mat.length)
    (hr : c.r ≠ []) (hq : c.q ≠ []) (hvr : ∀ l ∈ c.r, 0 ≤ c.index l) (hvq : ∀ l ∈ c.q, 0 ≤ c.index l) :
    ∃ ps, align al c = .ok ps := by
  have hacc : Accepted al c := by
    refine ⟨?_, h2, h3, h4, by omega, ?_, (checkLetters_none al c.index c.r c.q hr hq).mpr ⟨hvr, hvq⟩⟩
    · cases hh : c.refAlpha with
      | none => exact absurd hh h1
      | some _ => rfl
    · simp only [isSquare, List.all_eq_true, beq_iff_eq]; exact h6
  cases hres : align al c with
  | ok ps => exact ⟨ps, rfl⟩
  | error e =>
    exfalso
    rw [align_of_accepted al c hacc] at hres
    cases al <;> simp only at hres <;> (try split at hres) <;> (try split at hres) <;> simp at hres
  | panic msg => exact absurd hres (align_no_panic al c (fun _ => hq) msg)

/-! ### type independence (static half) -/

/-- "Aligning quality-carrying sequences gives the same pairs as aligning plain sequences with
    the same letters" — static half: each of the twelve committed `*_letters.go` /
    `*_qletters.go` files is byte-for-byte what `genCode.sh` (the `gofmt -r` pipeline) produces
    from its `*_type.got` template, so the two variants of every aligner differ exactly by the
    rewrite rules (`Type → alphabet.Letters | alphabet.QLetters`, `xSeq[i] → xSeq[i].L`, names).
    The facts are regenerated from the working tree on every run; a hand edit of a generated
    file (or of a template without regeneration) turns one of them into `false`.  The dynamic
    half (Letters result = QLetters result on every case) is evaluated by the driver. -/
theorem generated_files_are_template_instances :
    Biogo.Generated.AlignTemplates.all.all (·.2) = true ∧
    Biogo.Generated.AlignTemplates.all.length = 12 ∧
    Biogo.Generated.AlignTemplates.generatedFileCount = 12 := by
  decide

/-! ### non-vacuity -/

open Biogo.Properties.C08_lin in
example : wellFormed .global 3 2 [⟨0, 1, 0, 1, 2⟩, ⟨1, 2, 1, 1, -1⟩, ⟨2, 3, 1, 2, 2⟩] = true := by decide
example : wellFormed .global 3 2 [⟨0, 1, 0, 1, 2⟩, ⟨2, 3, 1, 2, 2⟩] = false := by decide
open Biogo.Properties.C08_lin in
example : ∃ e, align .nw (exCall [97, 122] [97]) = .error e := ⟨.illegalR 1, by decide⟩
open Biogo.Properties.C08_lin in
example : ∃ e, align .fit { exCall [97] [97] with mat := [[0, -1], [-1, 2]] } = .error e :=
  ⟨.wrongSize 2 3, by decide⟩
/- matrix shapes relative to the 3-letter alphabet: an oversized square (5×5) is legal
   (`align_legal_ok`: `alphaLen ≤ mat.length`), an oversized matrix with a ragged row beyond the
   alphabet's rows, a wide and a tall one are `ErrMatrixNotSquare` (`align_total`, clause "a row
   whose length differs from the number of rows"), an undersized ragged one is
   `ErrMatrixWrongSize` (the size check comes first) — for every aligner -/
open Biogo.Properties.C08_lin in
example : ∀ al, (match align al (exCallOver [97, 98] [98]) with | .ok _ => true | _ => false) = true := by
  intro al; cases al <;> decide
open Biogo.Properties.C08_lin in
example : ∀ al, align al { exCall [97] [97] with mat := [[0, -1, -1, 7], [-1, 2, -1, 7], [-1, -1, 2, 7], [7, 7, 7]] }
    = .error .notSquare := by intro al; cases al <;> decide
open Biogo.Properties.C08_lin in
example : ∀ al, align al { exCall [97] [97] with mat := [[0, -1, -1, 7], [-1, 2, -1, 7], [-1, -1, 2, 7]] }
    = .error .notSquare := by intro al; cases al <;> decide
open Biogo.Properties.C08_lin in
example : ∀ al, align al { exCall [97] [97] with mat := [[0, -1, -1], [-1, 2, -1], [-1, -1, 2], [7, 7, 7]] }
    = .error .notSquare := by intro al; cases al <;> decide
open Biogo.Properties.C08_lin in
example : ∀ al, align al { exCall [97] [97] with mat := [[0, -1, -1], [-1, 2]] }
    = .error (.wrongSize 2 3) := by intro al; cases al <;> decide
example : formatRows (45 : UInt8) [97, 98, 97] [97, 97] [⟨0, 1, 0, 1, 2⟩, ⟨1, 2, 1, 1, -1⟩, ⟨2, 3, 1, 2, 2⟩]
    = ([97, 98, 97], [97, 45, 97]) := by decide

end Biogo.Properties.C09_lin
