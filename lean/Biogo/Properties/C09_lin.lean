/-
C09, part `lin` — alignment descriptions of NW, SW and Fitted are well-formed, faithfully
scored, type-independent and total.  Property theorems only.
-/
import Biogo.Model.AlignLin
import Biogo.Spec.AlignPairs
import Biogo.Generated.AlignTemplates

namespace Biogo.Properties.C09_lin
open Biogo.AlignLin Biogo.Spec.AlignPairs Biogo.Spec.Alignment

/-- "Aligning quality-carrying sequences gives the same pairs as aligning plain sequences with
    the same letters" — static half: each of the twelve committed `*_letters.go` /
    `*_qletters.go` files is byte-for-byte what `genCode.sh` (the `gofmt -r` pipeline) produces
    from its `*_type.got` template, so the two variants of every aligner differ exactly by the
    rewrite rules (`Type → alphabet.Letters | alphabet.QLetters`, `xSeq[i] → xSeq[i].L`, names).
    The facts are regenerated from the working tree on every run; a hand edit of a generated
    file (or of a template without regeneration) turns one of them into `false`. -/
theorem generated_files_are_template_instances :
    Biogo.Generated.AlignTemplates.all.all (·.2) = true ∧
    Biogo.Generated.AlignTemplates.all.length = 12 ∧
    Biogo.Generated.AlignTemplates.generatedFileCount = 12 := by
  decide

end Biogo.Properties.C09_lin
