/-
Shared by the drivers of C12 and C13: parsing of a workload line, running the labelled
transition system `Biogo.MorassConc.sys` under a forced schedule, rendering the observation.

Input   `<tag> <conc 0|1> <chunk> <autoClear> <autoClean> <i|s> <ops> <sched> <fault> [<opts>]`
          ops   comma separated  p<key>[:<tag>]  f  l  c  x;  a last `u` = the caller ends with
                `CleanUp` (after its last call, or after the call that made it give up)
          sched comma separated actor ids (0 = caller, k = k-th spawned writer) or `-`
          fault `-` or `<point>:<n>(+<point>:<n>)*`: a list of faults armed one after the other; the
                armed one fires at the n-th execution (from 0) of its operation counted from the
                moment it became armed (`MorassConc.Fault`)
          opts  `-` or `r`: the concurrent caller, too, recovers with Clear after an error
Observation `<flags> <status> <disk> <dir> <dirAfterCleanUp> <out>*`
          flags  one letter per schedule entry: r = ran one atomic block, b = blocked,
                 x = no such actor / actor has finished;  `-` for the empty schedule
          status done | deadlock;  disk = run files in the temp dir after the program;
          dir = 1 if the temp dir exists then;  out tokens as for C11.
-/
import Biogo.Go.Wire
import Biogo.Go.Interleave
import Biogo.Model.MorassConc
import Biogo.Model.MorassAbandon
import Biogo.Drive.C11

namespace Biogo.Drive.MorassWire
open Biogo.Wire Biogo.Morass Biogo.MorassConc Biogo.Interleave

structure Work where
  conc : Bool
  chunk : Nat
  ac : Bool
  aclean : Bool
  ty : String
  ops : List Op
  sched : List Nat
  flt : Fault
  reuse : Bool := false
  abandon : Bool := false
  /-- fourth wave: the last fault of the wire list is `trunc:<n>:<bytes>` - a completed run file is
      cut short on disk before `Finalise` reads it (not an element of `flt`, see `Drive/C13.lean`) -/
  trunc : Bool := false
  /-- fourth wave: the identity of each injected error (g generic, u io.ErrUnexpectedEOF, w wrapped);
      every kind is a failure of the operation, the model does not look at it -/
  kinds : List String := []

def parsePt (s : String) : Option Pt :=
  if s == "tempfile" then some .tempfile else if s == "encode" then some .encode
  else if s == "sync" then some .sync else if s == "seek" then some .seek
  else if s == "fdecode" then some .fdecode else if s == "pdecode" then some .pdecode
  else if s == "close" then some .close else if s == "remove" then some .remove else none

def parseFault1 (s : String) : Option (Pt × Nat) :=
  match s.splitOn ":" with
  | [p, n] =>
    match parsePt p, parseNat n with
    | some p, some n => some (p, n)
    | _, _ => none
  | [p, n, k] =>
    -- `<point>:<n>:<kind>`: the kind is the identity of the injected error value
    match parsePt p, parseNat n with
    | some p, some n => if k == "g" || k == "u" || k == "w" then some (p, n) else none
    | _, _ => none
  | _ => none

/-- the fault field with the fourth-wave extensions: the model's fault list, whether a last
    `trunc:<n>:<bytes>` follows it, and the error kinds -/
def parseFaultW (s : String) : Option (Fault × Bool × List String) :=
  if s == "-" then some ([], false, []) else
  let toks := s.splitOn "+"
  let tr := toks.getLast?.any (fun t => t.startsWith "trunc:")
  let body := if tr then toks.dropLast else toks
  let kinds := body.filterMap (fun t => match t.splitOn ":" with | [_, _, k] => some k | _ => none)
  (body.mapM parseFault1).map (fun f => (f, tr, kinds))

def parseFault (s : String) : Option Fault :=
  if s == "-" then some [] else (s.splitOn "+").mapM parseFault1

def parseList {α} (f : String → Option α) (s : String) : Option (List α) :=
  if s == "-" then some [] else (s.splitOn ",").mapM f

/-- the ops field: a last `u` is the caller's final `CleanUp` -/
def parseOps (s : String) : Option (List Op × Bool) :=
  if s == "-" then some ([], false) else
  let toks := s.splitOn ","
  if toks.getLast? == some "u" then (toks.dropLast.mapM Biogo.Drive.C11.parseOp).map (·, true)
  else (toks.mapM Biogo.Drive.C11.parseOp).map (·, false)

def parseWork8 (conc c ac acl ty ops sched flt opts : String) : Option Work :=
  match parseBool conc, parseNat c, parseBool ac, parseBool acl,
        parseOps ops, parseList parseNat sched, parseFaultW flt with
  | some conc, some c, some ac, some acl, some (ops, abandon), some sched, some (flt, tr, kinds) =>
    if opts == "-" || opts == "r" then some ⟨conc, c, ac, acl, ty, ops, sched, flt, opts == "r", abandon, tr, kinds⟩ else none
  | _, _, _, _, _, _, _ => none

def parseWork : List String → Option Work
  | [conc, c, ac, acl, ty, ops, sched, flt] => parseWork8 conc c ac acl ty ops sched flt "-"
  | [conc, c, ac, acl, ty, ops, sched, flt, opts] => parseWork8 conc c ac acl ty ops sched flt opts
  | _ => none

def Work.sys (w : Work) : Sys CState Nat := MorassConc.sys w.conc w.chunk w.ac w.aclean w.ops w.flt w.reuse

/-- the system with the caller's final `CleanUp` and `TempFile` failing in a removed directory -/
def Work.sysA (w : Work) : Sys AState Nat :=
  MorassConc.sysA w.conc w.chunk w.ac w.aclean w.ops w.flt w.reuse w.abandon

/-- does the actor exist and still have something to do -/
def alive (s : CState) : Nat → Bool
  | 0 => !finished s
  | k + 1 => match s.writers[k]? with | some w => w.pc != .done | none => false

/-- forced schedule, lenient: blocked steps are skipped -/
def forced (s : CState) : List Nat → CState × List Char
  | [] => (s, [])
  | i :: is =>
    if !alive s i then let (t, fl) := forced s is; (t, 'x' :: fl) else
    match MorassConc.step s i with
    | some s' => let (t, fl) := forced s' is; (t, 'r' :: fl)
    | none => let (t, fl) := forced s is; (t, 'b' :: fl)

def aliveA (a : AState) : Nat → Bool
  | 0 => !finishedA a
  | k + 1 => alive a.s (k + 1)

/-- forced schedule of the abandon system -/
def forcedA (a : AState) : List Nat → AState × List Char
  | [] => (a, [])
  | i :: is =>
    if !aliveA a i then let (t, fl) := forcedA a is; (t, 'x' :: fl) else
    match MorassConc.stepA a i with
    | some a' => let (t, fl) := forcedA a' is; (t, 'r' :: fl)
    | none => let (t, fl) := forcedA a is; (t, 'b' :: fl)

structure Result where
  flags : String
  final : CState
  outs : List Out
  done : Bool      -- the caller has returned from every call (its final `CleanUp` included)
  inflight : Nat := 0   -- abandon: `write()` activations that had not ended when `CleanUp` ran

def runWork (w : Work) : Result :=
  let fuel := 20 * (w.ops.length + 4) * (w.chunk + 8)
  if w.abandon then
    let (a1, fl) := forcedA w.sysA.init w.sched
    let a2 := finish w.sysA actorsA fuel a1
    ⟨if fl.isEmpty then "-" else String.ofList fl, a2.s, a2.s.outs.reverse, finishedA a2, a2.inflight⟩
  else
    let (s1, fl) := forced w.sys.init w.sched
    let s2 := finish w.sys actors fuel s1
    ⟨if fl.isEmpty then "-" else String.ofList fl, s2, s2.outs.reverse, finished s2, 0⟩

/-! ### the listing of the temporary directory after every completed call (fourth wave)

The harness lists the directory when a call has returned (same atomic block of the caller); the
model's counterpart is `onDisk` / `dirExists` in the state in which the caller has just recorded
an output.  `forcedL` / `finishL` are `forced` / `finish` with that bookkeeping. -/

def lsOf (s : CState) : Int := if s.dirExists then s.onDisk else -1

def noteLs (s s' : CState) (acc : List Int) : List Int :=
  if s.outs.length < s'.outs.length then lsOf s' :: acc else acc

def forcedL (s : CState) (acc : List Int) : List Nat → CState × List Int
  | [] => (s, acc)
  | i :: is =>
    if !alive s i then forcedL s acc is else
    match MorassConc.step s i with
    | some s' => forcedL s' (noteLs s s' acc) is
    | none => forcedL s acc is

def finishL : Nat → CState → List Int → List Int
  | 0, _, acc => acc
  | fuel + 1, s, acc =>
    match (actors s).findSome? (fun i => MorassConc.step s i) with
    | some s' => finishL fuel s' (noteLs s s' acc)
    | none => acc

/-- the model's listing after each completed call, in call order (not for `u` programs) -/
def lsTrace (w : Work) : List Int :=
  let fuel := 20 * (w.ops.length + 4) * (w.chunk + 8)
  let (s1, acc) := forcedL w.sys.init [] w.sched
  (finishL fuel s1 acc).reverse

/-- the calls after which the listing is compared and stated about: a `Pull` that returned io.EOF
    (a drain) and a call that returned nil with `Len` = `Pos` = 0 (every successful `Clear`; also a
    Push-less `Finalise`) - no `write()` activation is alive then in the generated cases -/
def lsPoint (o : Out) : Bool :=
  o.res == .eof || (o.res == .ok && o.len == 0 && o.pos == 0 && o.val.isNone)

def lsRender (outs : List Out) (ls : List Int) : String :=
  ",".intercalate ((outs.zip ls).filterMap (fun p => if lsPoint p.1 then some (toString p.2) else none))

/-- the `tr:<ls>.<fired>,…` token of the C13 observation -/
def parseTrace (tok : String) : Option (List (Int × Nat)) :=
  if !tok.startsWith "tr:" then none else
  ((tok.drop 3).toString.splitOn ",").mapM (fun e =>
    match e.splitOn "." with
    | [a, b] =>
      match parseInt a, parseNat b with
      | some a, some b => some (a, b)
      | _, _ => none
    | _ => none)

def showOutK (o : Out) : String :=
  match o.res with
  | .panic => "panic"
  | .hang => "hang"
  | r => s!"{Biogo.Drive.C11.showRes r}/{match o.val with | some e => toString e.key | none => "-"}/{o.len}/{o.pos}"

/-- the model's observation (keys only) -/
def Result.render (r : Result) : String :=
  let st := if r.done then "done" else "deadlock"
  let disk : Int := if r.final.dirExists then r.final.onDisk else -1
  s!"{r.flags} {st} {disk} {showBool r.final.dirExists} 0 " ++ " ".intercalate (r.outs.map showOutK)

/-- flags are compared up to and including the first `b` (after a blocked step the released
    goroutine proceeds on its own when it becomes enabled) -/
def flagPrefix (s : String) : String :=
  let rec go : List Char → List Char
    | [] => []
    | 'b' :: _ => ['b']
    | c :: r => c :: go r
  String.ofList (go s.toList)

/-- `err:<hex>` tokens of the implementation become the `err` kind -/
def normErr (tok : String) : String :=
  if tok.startsWith "err:" then
    match tok.splitOn "/" with
    | _ :: rest => "/".intercalate ("err" :: rest)
    | [] => tok
  else tok

/-- implementation observation reduced to the level that is compared -/
def implRender (toks : List String) : String :=
  match toks with
  | fl :: rest => " ".intercalate (flagPrefix fl :: (rest.take 4 ++ (rest.drop 4).map (fun t => Biogo.Drive.C11.stripTag (normErr t))))
  | [] => ""

def modelRender (r : Result) : String :=
  match tokens r.render with
  | fl :: rest => " ".intercalate (flagPrefix fl :: rest)
  | [] => ""

def parseOutE (s : String) : Option Out :=
  match (normErr s).splitOn "/" with
  | "err" :: v :: l :: p :: [] =>
    match parseNat l, parseNat p with
    | some l, some p => if v == "-" then some ⟨.ioerr, none, l, p⟩ else none
    | _, _ => none
  | _ => Biogo.Drive.C11.parseOut s

end Biogo.Drive.MorassWire
