/-
Shared by the drivers of C12 and C13: parsing of a workload line, running the labelled
transition system `Biogo.MorassConc.sys` under a forced schedule, rendering the observation.

Input   `<tag> <conc 0|1> <chunk> <autoClear> <autoClean> <i|s> <ops> <sched> <fault>`
          ops   comma separated  p<key>[:<tag>]  f  l  c
          sched comma separated actor ids (0 = caller, k = k-th spawned writer) or `-`
          fault `-` or `<point>:<n>` (the n-th execution, from 0, of that operation fails)
Observation `<flags> <status> <disk> <dir> <dirAfterCleanUp> <out>*`
          flags  one letter per schedule entry: r = ran one atomic block, b = blocked,
                 x = no such actor / actor has finished;  `-` for the empty schedule
          status done | deadlock;  disk = run files in the temp dir after the program;
          dir = 1 if the temp dir exists then;  out tokens as for C11.
-/
import Biogo.Go.Wire
import Biogo.Go.Interleave
import Biogo.Model.MorassConc
import Biogo.Drive.C11

namespace Biogo.Drive.MorassWire
open Biogo.Wire Biogo.Morass Biogo.MorassConc Biogo.Interleave

structure Work where
  conc : Bool
  chunk : Nat
  ac : Bool
  aclean : Bool
  ty : String
  ops : List Op
  sched : List Nat
  flt : Fault

def parsePt (s : String) : Option Pt :=
  if s == "tempfile" then some .tempfile else if s == "encode" then some .encode
  else if s == "sync" then some .sync else if s == "seek" then some .seek
  else if s == "fdecode" then some .fdecode else if s == "pdecode" then some .pdecode
  else if s == "close" then some .close else if s == "remove" then some .remove else none

def parseFault (s : String) : Option Fault :=
  if s == "-" then some none else
  match s.splitOn ":" with
  | [p, n] =>
    match parsePt p, parseNat n with
    | some p, some n => some (some (p, n))
    | _, _ => none
  | _ => none

def parseList {α} (f : String → Option α) (s : String) : Option (List α) :=
  if s == "-" then some [] else (s.splitOn ",").mapM f

def parseWork : List String → Option Work
  | [conc, c, ac, acl, ty, ops, sched, flt] =>
    match parseBool conc, parseNat c, parseBool ac, parseBool acl,
          parseList Biogo.Drive.C11.parseOp ops, parseList parseNat sched, parseFault flt with
    | some conc, some c, some ac, some acl, some ops, some sched, some flt =>
      some ⟨conc, c, ac, acl, ty, ops, sched, flt⟩
    | _, _, _, _, _, _, _ => none
  | _ => none

def Work.sys (w : Work) : Sys CState Nat := MorassConc.sys w.conc w.chunk w.ac w.aclean w.ops w.flt

/-- does the actor exist and still have something to do -/
def alive (s : CState) : Nat → Bool
  | 0 => !finished s
  | k + 1 => match s.writers[k]? with | some w => w.pc != .done | none => false

/-- forced schedule, lenient: blocked steps are skipped -/
def forced (s : CState) : List Nat → CState × List Char
  | [] => (s, [])
  | i :: is =>
    if !alive s i then let (t, fl) := forced s is; (t, 'x' :: fl) else
    match MorassConc.step s i with
    | some s' => let (t, fl) := forced s' is; (t, 'r' :: fl)
    | none => let (t, fl) := forced s is; (t, 'b' :: fl)

structure Result where
  flags : String
  final : CState
  outs : List Out

def runWork (w : Work) : Result :=
  let (s1, fl) := forced w.sys.init w.sched
  let s2 := finish w.sys actors (20 * (w.ops.length + 4) * (w.chunk + 8)) s1
  ⟨if fl.isEmpty then "-" else String.ofList fl, s2, s2.outs.reverse⟩

def showOutK (o : Out) : String :=
  match o.res with
  | .panic => "panic"
  | .hang => "hang"
  | r => s!"{Biogo.Drive.C11.showRes r}/{match o.val with | some e => toString e.key | none => "-"}/{o.len}/{o.pos}"

/-- the model's observation (keys only) -/
def Result.render (r : Result) : String :=
  let st := if finished r.final then "done" else "deadlock"
  let disk : Int := if r.final.dirExists then r.final.onDisk else -1
  s!"{r.flags} {st} {disk} {showBool r.final.dirExists} 0 " ++ " ".intercalate (r.outs.map showOutK)

/-- flags are compared up to and including the first `b` (after a blocked step the released
    goroutine proceeds on its own when it becomes enabled) -/
def flagPrefix (s : String) : String :=
  let rec go : List Char → List Char
    | [] => []
    | 'b' :: _ => ['b']
    | c :: r => c :: go r
  String.ofList (go s.toList)

/-- `err:<hex>` tokens of the implementation become the `err` kind -/
def normErr (tok : String) : String :=
  if tok.startsWith "err:" then
    match tok.splitOn "/" with
    | _ :: rest => "/".intercalate ("err" :: rest)
    | [] => tok
  else tok

/-- implementation observation reduced to the level that is compared -/
def implRender (toks : List String) : String :=
  match toks with
  | fl :: rest => " ".intercalate (flagPrefix fl :: (rest.take 4 ++ (rest.drop 4).map (fun t => Biogo.Drive.C11.stripTag (normErr t))))
  | [] => ""

def modelRender (r : Result) : String :=
  match tokens r.render with
  | fl :: rest => " ".intercalate (flagPrefix fl :: rest)
  | [] => ""

def parseOutE (s : String) : Option Out :=
  match (normErr s).splitOn "/" with
  | "err" :: v :: l :: p :: [] =>
    match parseNat l, parseNat p with
    | some l, some p => if v == "-" then some ⟨.ioerr, none, l, p⟩ else none
    | _, _ => none
  | _ => Biogo.Drive.C11.parseOut s

end Biogo.Drive.MorassWire
