/-
Shared by the drivers `C08_aff` and `C09_aff`: the wire format of one affine-aligner case.

  input   <op> <ralpha> <qalpha> <rtype> <qtype> <open> <matrix> <rhex> <qhex>
          op ∈ nwaff | swaff | fitaff; alphabets by the name of the built-in (`none` = nil);
          types `l` (alphabet.Letters) or `q` (alphabet.QLetters); matrix rows separated by `;`,
          entries by `,` (`-` = no rows); sequences as hex letters
  output  ok <pairs> tq=<1|0|x> f=<hex row>:<hex row>      pairs: rs-re:qs-qe:score,…
          err:<kind>  |  panic:<hex>  |  hang
Core only.
-/
import Biogo.Go.Wire
import Biogo.Model.Alphabet
import Biogo.Generated.Alphabets
import Biogo.Model.AlignAff
import Biogo.Spec.AffineOpt
import Biogo.Spec.AffPairs

namespace Biogo.Drive.AffCommon
open Biogo.Wire Biogo.AlignAff

def parseMatrix (s : String) : Option (List (List Int)) :=
  if s == "-" then some [] else (s.splitOn ";").mapM parseInts

structure AlphaInfo where
  name : String
  alen : Nat
  gapIdx : Int
  index : UInt8 → Int
  gap : UInt8

def findAlpha (n : String) : Option (Option AlphaInfo) :=
  if n == "none" then some none else
  match Biogo.Generated.builtins.find? (·.name == n) with
  | none => none
  | some d =>
    match d.build with
    | .error _ => none
    | .ok (a, _) => some (some { name := n, alen := a.length, gapIdx := a.index a.gap, index := a.index, gap := a.gap })

def mkArg (a : Option AlphaInfo) (quality : Bool) (ls : List UInt8) : SeqArg :=
  match a with
  | none => { alpha := none, alen := 0, gapIdx := -1, quality, idx := ls.map fun _ => -1 }
  | some a => { alpha := some a.name, alen := a.alen, gapIdx := a.gapIdx, quality, idx := ls.map a.index }

structure Case where
  w : Which
  M : List (List Int)
  gapOpen : Int
  ref : SeqArg
  qry : SeqArg
  rbytes : List UInt8
  qbytes : List UInt8
  gapLetter : UInt8

def parseWhich (s : String) : Option Which :=
  if s == "nwaff" then some .nw else if s == "swaff" then some .sw
  else if s == "fitaff" then some .fit else none

def parseType (s : String) : Option Bool :=
  if s == "l" then some false else if s == "q" then some true else none

def parseCase (t : List String) : Option Case :=
  match t with
  | [op, ra, qa, rt, qt, o, m, rh, qh] =>
    match parseWhich op, findAlpha ra, findAlpha qa, parseType rt, parseType qt, parseInt o,
          parseMatrix m, bytesOfHex rh, bytesOfHex qh with
    | some w, some ra, some qa, some rt, some qt, some o, some m, some rb, some qb =>
      some { w, M := m, gapOpen := o, ref := mkArg ra rt rb, qry := mkArg qa qt qb,
             rbytes := rb, qbytes := qb,
             gapLetter := match ra with | some a => a.gap | none => 45 }
    | _, _, _, _, _, _, _, _, _ => none
  | _ => none

def showPair (p : Pair) : String := s!"{p.rs}-{p.re}:{p.qs}-{p.qe}:{p.score}"

def showPairs (ps : List Pair) : String :=
  if ps.isEmpty then "-" else ",".intercalate (ps.map showPair)

def parsePair (s : String) : Option Pair :=
  match s.splitOn ":" with
  | [a, b, sc] =>
    match a.splitOn "-", b.splitOn "-", parseInt sc with
    | [rs, re], [qs, qe], some sc =>
      match parseNat rs, parseNat re, parseNat qs, parseNat qe with
      | some rs, some re, some qs, some qe => some ⟨rs, re, qs, qe, sc⟩
      | _, _, _, _ => none
    | _, _, _ => none
  | _ => none

def parsePairs (s : String) : Option (List Pair) :=
  if s == "-" then some [] else (s.splitOn ",").mapM parsePair

def errCode : Err → String
  | .noAlphabet => "err:noalphabet" | .alphabets => "err:alphabets" | .noGap => "err:nogap"
  | .types => "err:types" | .size => "err:size" | .notSquare => "err:notsquare"
  | .letterR p => s!"err:letter:r:{p}" | .letterQ p => s!"err:letter:q:{p}"
  | .panicEmpty => "panic" | .panicNoPath _ _ => "panic"

/-- the implementation's observation -/
inductive Obs
  | pairs (ps : List Pair) (tq : String) (fmt : String)
  | err (code : String)
  | panic
  | hang
  | other (s : String)

def parseObs (s : String) : Obs :=
  if s.startsWith "panic" then .panic
  else if s == "hang" then .hang
  else if s.startsWith "err:" then .err s
  else
    match tokens s with
    | ["ok", ps, tq, f] =>
      match parsePairs ps with
      | some ps => .pairs ps ((tq.drop 3).toString) ((f.drop 2).toString)
      | none => .other s
    | _ => .other s

/-- first two tokens of the model's observation, comparable with the implementation's -/
def modelObs (r : Except Err (List Pair)) : String :=
  match r with
  | .ok ps => "ok " ++ showPairs ps
  | .error e => errCode e

def obsHead (s : String) : String :=
  match tokens s with
  | "ok" :: ps :: _ => "ok " ++ ps
  | _ => if s.startsWith "panic" then "panic" else s

/-- legal, non-empty letters of one alphabet and type, square matrix of sufficient size:
    the inputs on which the aligners are meant to return an alignment -/
def legalInput (c : Case) : Bool :=
  c.ref.alpha.isSome && c.ref.alpha == c.qry.alpha && c.ref.gapIdx == 0 &&
  c.ref.quality == c.qry.quality &&
  decide (c.ref.alen ≤ c.M.length) && c.M.all (fun row => row.length == c.M.length) &&
  !c.ref.idx.isEmpty && !c.qry.idx.isEmpty &&
  c.ref.idx.all (fun x => decide (0 ≤ x)) && c.qry.idx.all (fun x => decide (0 ≤ x))

/-- gap scores (row and column 0 of the matrix) and the gap-open penalty are non-positive -/
def gapsNonPos (c : Case) : Bool :=
  decide (c.gapOpen ≤ 0) && (c.M.headD []).all (fun x => decide (x ≤ 0)) &&
  c.M.all (fun row => decide (row.headD 0 ≤ 0))

def rIdx (c : Case) : List Nat := c.ref.idx.map Int.toNat
def qIdx (c : Case) : List Nat := c.qry.idx.map Int.toNat

def showV (v : V) : String := match v with | some x => toString x | none => "-inf"

def opTag (w : Which) : String := match w with | .nw => "nwaff" | .sw => "swaff" | .fit => "fitaff"

end Biogo.Drive.AffCommon
