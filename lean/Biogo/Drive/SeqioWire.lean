/-
Line-protocol helpers shared by the drivers of C01, C03 (part seq) and C04 (part seq):
record tokens, rendering of reader call histories in the format of
harness/props/seqio_util.go, and the generated constants.  Core only.
-/
import Biogo.Go.Wire
import Biogo.Model.Fasta
import Biogo.Model.Fastq
import Biogo.Spec.Seqio
import Biogo.Generated.Seqio

namespace Biogo.Drive.Seqio
open Biogo.Wire Biogo.Go.Bytes

/-- four hex tokens per record -/
def parseRecs : List String → Option (List (Bytes × Bytes × Bytes × Bytes))
  | [] => some []
  | n :: d :: l :: q :: rest =>
    match bytesOfHex n, bytesOfHex d, bytesOfHex l, bytesOfHex q, parseRecs rest with
    | some n, some d, some l, some q, some rs => some ((n, d, l, q) :: rs)
    | _, _, _, _, _ => none
  | _ => none

def encOfString (s : String) : Option Biogo.Fastq.Encoding :=
  match s with
  | "-1" => some .none | "0" => some .sanger | "1" => some .solexa | "2" => some .illumina1_3
  | "3" => some .illumina1_5 | "4" => some .illumina1_8 | "5" => some .illumina1_9
  | _ => none

def encName : Biogo.Fastq.Encoding → String
  | .none => "enc-none" | .sanger => "sanger" | .solexa => "solexa" | .illumina1_3 => "illumina1.3"
  | .illumina1_5 => "illumina1.5" | .illumina1_8 => "illumina1.8" | .illumina1_9 => "illumina1.9"

def hex16 (h : UInt64) : String :=
  String.ofList <| (List.range 16).map fun i => hexDigit ((h >>> (UInt64.ofNat (60 - 4 * i))).toNat % 16)

def recFields (n d l q : Bytes) : String :=
  hexOfBytes n ++ ":" ++ hexOfBytes d ++ ":" ++ hexOfBytes l ++ ":" ++ hexOfBytes q

def fastaErr : Biogo.Fasta.Err → String
  | .eof => "EOF" | .badLine _ => "bad" | .header => "hdr"

def fastaRet (r : Biogo.Fasta.Ret) : String :=
  match r.s, r.e with
  | none, none => "N"
  | none, some .eof => "EOF"
  | none, some e => "E:" ++ fastaErr e
  | some s, none => "R:" ++ recFields s.name s.desc s.letters []
  | some s, some e => "X:" ++ fastaErr e ++ ":" ++ recFields s.name s.desc s.letters []

def fastaCalls (cs : List Biogo.Fasta.Call) : String :=
  " ".intercalate <| cs.map fun
    | .ret r => fastaRet r
    | .panic p => "PANIC:" ++ p.code
    | .unfinished => "CAP"

def fastqErr : Biogo.Fastq.Err → String
  | .eof => "EOF" | .noHeader => "nohdr" | .qualHeader => "qhdr" | .lengthMismatch => "len" | .header => "hdr"

def fastqRet (r : Biogo.Fastq.Ret) : String :=
  match r.s, r.e with
  | none, none => "N"
  | none, some .eof => "EOF"
  | none, some e => "E:" ++ fastqErr e
  | some s, none => "R:" ++ recFields s.name s.desc s.letters s.quals
  | some s, some e => "X:" ++ fastqErr e ++ ":" ++ recFields s.name s.desc s.letters s.quals

def fastqCalls (cs : List Biogo.Fastq.Call) : String :=
  " ".intercalate <| cs.map fun
    | .ret r => fastqRet r
    | .panic p => "PANIC:" ++ p.code
    | .unfinished => "CAP"

/-- the reader/writer configuration with the prefixes regenerated from the source -/
def fastaCfg : Biogo.Fasta.Cfg :=
  { idPrefix := Biogo.Generated.Seqio.fastaIDPrefix, seqPrefix := Biogo.Generated.Seqio.fastaSeqPrefix }

def qtables : Biogo.Fastq.QTables := Biogo.Generated.Seqio.qtables

/-- the template of the FASTQ reader: `s` = linear.Seq, otherwise a QSeq with the encoding -/
def fastqCfg (typ : String) (enc : Biogo.Fastq.Encoding) : Biogo.Fastq.Cfg :=
  { tmpl := if typ == "s" then .seq else .qseq enc, tabs := qtables }

def lenTag (n : Nat) : String :=
  if n == 0 then "len0" else if n < 4096 then "len<4096" else if n ≤ 8192 then "len4096-8192" else "len>8192"

/-- `sioSource` of harness/props/seqio_util.go: the file is served by one of five
    `io.Reader` behaviours chosen from its FNV-1a hash; number 3 is `iotest.DataErrReader`,
    which returns `io.EOF` together with the last data -/
def eofWithData (bs : Bytes) : Bool := (fnv1a32 bs).toNat % 5 == 3

/-- the calls of a history up to `EOF`: every token is a call -/
def callTokens (s : String) : List String := tokens s

end Biogo.Drive.Seqio
