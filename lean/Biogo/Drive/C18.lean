/-
Driver for C18: runs the quality-score model on a harness input, compares with the
implementation's observation, and evaluates the executable statements of
`Biogo.Spec.Quality` on the implementation's own output.  Core-only.
-/
import Biogo.Go.Wire
import Biogo.Model.Quality
import Biogo.Spec.Quality
import Biogo.Generated.QualTables

namespace Biogo.Drive.C18
open Biogo.Wire Biogo.Quality Biogo.Quality.Spec

def S : Source := Biogo.Generated.Qual.source
def T : Tables := Biogo.Generated.Qual.tables

def hexNat (s : String) : Option Nat :=
  s.toList.foldl (fun acc c => match acc, hexVal c with
    | some a, some d => some (a * 16 + d)
    | _, _ => none) (some 0)

def probOfHex (s : String) : Prob :=
  match hexNat s with
  | some b => if s.length = 16 then Prob.ofBits b else .bad
  | none => .bad

def showOptU (o : Option UInt8) : String := match o with | some x => toString x.toNat | none => "panic"
def showOptS (o : Option Int8) : String := match o with | some x => toString x.toInt | none => "panic"

def encName (e : Int) : String :=
  match Biogo.Generated.Qual.encodingCodes.find? (·.2 == e) with
  | some (n, _) => n
  | none => "illegal"

/-- finish a case: the first violated statement, else agreement with the model -/
def conclude (viol : List String) (model obs : String) (tags : List String) : Verdict :=
  match viol with
  | why :: _ => fail why tags
  | [] => if model == obs then ok tags else diff model tags

def handleTokens (inp : List String) (obs : String) : Verdict :=
  let ot := tokens obs
  match inp with
  | ["pe", e, q] =>
    match parseInt e, parseNat q with
    | some e, some q =>
      let qp := UInt8.ofNat q
      let mb := encodePhred S T e qp
      let md := showOptU (decodePhred S T e mb)
      let m := s!"{mb.toNat} {md} {mb.toNat} {md} {mb.toNat} {mb.toNat}"
      let demanded := printablePhred e q
      let tags := ["encode-phred", encName e] ++ (if demanded then ["nt", "printable"] else ["not-demanded"])
      let viol := match ot with
        | [_, d, _, d2, _, _] =>
          if demanded && (parseNat d ≠ some q || parseNat d2 ≠ some q) then
            [s!"decode-encode-phred: {encName e} score {q} decodes to {d}"] else []
        | _ => ["unparsable-observation"]
      conclude viol m obs tags
    | _, _ => bad "pe"
  | ["se", e, q] =>
    match parseInt e, parseInt q with
    | some e, some q =>
      let qs := Int8.ofInt q
      let mb := encodeSolexa S T e qs
      let md := showOptS (decodeSolexa S T e mb)
      let m := s!"{mb.toNat} {md} {mb.toNat} {md} {mb.toNat}"
      let demanded := e == codeSolexa && printableSolexa q
      let tags := ["encode-solexa", encName e] ++ (if demanded then ["nt", "printable"] else ["not-demanded"])
      let viol := match ot with
        | [_, d, _, d2, _] =>
          if demanded && (parseInt d ≠ some q || parseInt d2 ≠ some q) then
            [s!"decode-encode-solexa: score {q} decodes to {d}"] else []
        | _ => ["unparsable-observation"]
      conclude viol m obs tags
    | _, _ => bad "se"
  | ["d", e, b] =>
    match parseInt e, parseNat b with
    | some e, some b =>
      let bb := UInt8.ofNat b
      let m := s!"{showOptU (decodePhred S T e bb)} {showOptS (decodeSolexa S T e bb)}"
      -- "encode, decode and convert consistently": decoding one byte to the two score types must
      -- commute with the conversion tables (Solexa encoding: the Phred reading is the converted
      -- Solexa score; Phred-offset encodings: the Solexa reading is the converted Phred score)
      let viol := match ot with
        | [ph, so] =>
          match parseNat ph, parseInt so with
          | some ph, some so =>
            if e == codeSolexa && (T.toPhred (Int8.ofInt so)).toNat ≠ ph then
              [s!"decode-cross-consistency: Solexa byte {b} reads as Solexa {so} but as Phred {ph}, conversion gives {(T.toPhred (Int8.ofInt so)).toNat}"]
            else if phredOffsetEncodings.contains e && (T.toSolexa (UInt8.ofNat ph)).toInt ≠ so then
              [s!"decode-cross-consistency: {encName e} byte {b} reads as Phred {ph} but as Solexa {so}, conversion gives {(T.toSolexa (UInt8.ofNat ph)).toInt}"]
            else []
          | _, _ => ["unparsable-observation"]
        | _ => if obs.startsWith "panic" then [] else ["unparsable-observation"]
      conclude viol m obs ["decode", encName e]
    | _, _ => bad "d"
  | ["pq", q] =>
    match parseNat q with
    | some q =>
      let qp := UInt8.ofNat q
      match ot with
      | [bits, eph, qs, prev, e1, e2] =>
        let p := probOfHex bits
        let mp := T.probPhred qp
        let viol : List String :=
          (if q < 254 then (if phredProbClose q p then [] else [s!"phred-probability: ProbE({q}) is not 10^(-{q}/10)"])
           else if q = 254 then (if p.isZero then [] else ["phred-probability: ProbE(254) is not 0"])
           else (if p == .nan then [] else ["phred-probability: ProbE(255) is not NaN"])) ++
          (if parseNat eph == some q then [] else [s!"phred-roundtrip: Ephred(ProbE({q})) = {eph}"]) ++
          (if 1 ≤ q && q ≤ 254 && !(Prob.le p (probOfHex prev)) then [s!"phred-antitone: ProbE({q}) > ProbE({q}-1)"] else []) ++
          (if 1 ≤ q && q ≤ 127 then
             (match parseInt qs with
              | some v => if phredToSolexaNearest q v then [] else [s!"phred-to-solexa: Qphred({q}).Qsolexa() = {v} is not the nearest score"]
              | none => ["unparsable-observation"])
           else [])
        -- model: the regenerated tables; the containers return the same value
        let agree := p == mp && parseInt qs == some (T.toSolexa qp).toInt && e1 == bits && e2 == bits &&
          (q == 0 || probOfHex prev == T.probPhred (qp - 1))
        let tags := ["phred-score"] ++ (if q < 254 then ["nt"] else ["special"])
        conclude viol (if agree then obs else s!"tables: {reprStr mp} {(T.toSolexa qp).toInt}") obs tags
      | _ => fail "unparsable-observation" ["phred-score"]
    | none => bad "pq"
  | ["sq", q] =>
    match parseInt q with
    | some q =>
      let qs := Int8.ofInt q
      match ot with
      | [bits, eso, qph, prev, e1] =>
        let p := probOfHex bits
        let mp := T.probSolexa qs
        let viol : List String :=
          (if -127 ≤ q && q ≤ 126 then (if solexaProbClose q p then [] else [s!"solexa-probability: ProbE({q}) is not 1/(1+10^({q}/10))"])
           else if q = 127 then (if p.isZero then [] else ["solexa-probability: ProbE(127) is not 0"])
           else (if p == .nan then [] else ["solexa-probability: ProbE(-128) is not NaN"])) ++
          (if parseInt eso == some q then [] else [s!"solexa-roundtrip: Esolexa(ProbE({q})) = {eso}"]) ++
          (if -126 ≤ q && q ≤ 127 && !(Prob.le p (probOfHex prev)) then [s!"solexa-antitone: ProbE({q}) > ProbE({q}-1)"] else []) ++
          (if -127 ≤ q && q ≤ 126 then
             (match parseNat qph with
              | some v => if solexaToPhredNearest q v then [] else [s!"solexa-to-phred: Qsolexa({q}).Qphred() = {v} is not the nearest score"]
              | none => ["unparsable-observation"])
           else [])
        let agree := p == mp && parseNat qph == some (T.toPhred qs).toNat && e1 == bits &&
          (q == -128 || probOfHex prev == T.probSolexa (qs - 1))
        let tags := ["solexa-score"] ++ (if -127 ≤ q && q ≤ 126 then ["nt"] else ["special"])
        conclude viol (if agree then obs else s!"tables: {reprStr mp} {(T.toPhred qs).toNat}") obs tags
      | _ => fail "unparsable-observation" ["solexa-score"]
    | none => bad "sq"
  | ["ep", bits] =>
    let p := probOfHex bits
    match ot with
    | [a, b, c] =>
      match parseNat a, parseNat b, parseNat c with
      | some a, some b, some c =>
        let exact := phredNearest p a
        let tags := ["ephred"] ++ (match p with | .val 0 _ => ["zero"] | .nan => ["nan"] | _ => ["nt"]) ++
          (if exact then ["exact"] else ["near-boundary"])
        let viol :=
          (if p == .bad then ["not-a-probability"] else []) ++
          ([a, b, c].filterMap fun x =>
            if phredNearestTol p x then none else some s!"ephred-nearest: Ephred gives {x}, not the nearest score")
        conclude viol (if a == b && b == c then obs else s!"{a} {a} {a}") obs tags
      | _, _, _ => fail "unparsable-observation" ["ephred"]
    | _ => fail "unparsable-observation" ["ephred"]
  | ["es", bits] =>
    let p := probOfHex bits
    match ot with
    | [a, b] =>
      match parseInt a, parseInt b with
      | some a, some b =>
        let exact := solexaNearest p a
        let tags := ["esolexa"] ++ (match p with | .val 0 _ => ["zero"] | .nan => ["nan"] | _ => ["nt"]) ++
          (if exact then ["exact"] else ["near-boundary"])
        let viol :=
          (if p == .bad then ["not-a-probability"] else []) ++
          ([a, b].filterMap fun x =>
            if solexaNearestTol p x then none else some s!"esolexa-nearest: Esolexa gives {x}, not the nearest score")
        conclude viol (if a == b then obs else s!"{a} {a}") obs tags
      | _, _ => fail "unparsable-observation" ["esolexa"]
    | _ => fail "unparsable-observation" ["esolexa"]
  | _ => bad "unknown-op"

def ops : List String := ["pe", "se", "d", "pq", "sq", "ep", "es"]

def handle (line : String) : String :=
  let (inp, obs) := splitCase line
  (handleTokens (tokens inp) obs).render

end Biogo.Drive.C18
