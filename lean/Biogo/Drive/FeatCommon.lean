/-
Shared by the drivers of C02, C03 (part feat) and C04 (part feat): canonical rendering of what
the BED / GFF reader models return (the same text as `fioRec`/`fioErr`/`fioReadAll` in
harness/props/c02.go) and parsing of the harness tokens.  Core-only.
-/
import Biogo.Go.Wire
import Biogo.Go.TimeDate
import Biogo.Spec.FeatIO

namespace Biogo.Drive.FeatCommon
open Biogo.Wire Biogo.BytesFeat

def hx (b : Bytes) : String := hexOfBytes b

def ints (xs : List Int) : String := showInts xs

def hex16 (n : Nat) : String :=
  String.ofList ((List.range 16).map fun i => hexDigit ((n / 16 ^ (15 - i)) % 16))

def parseHexNat (s : String) : Option Nat :=
  s.toList.foldlM (fun acc c => (hexVal c).map (acc * 16 + ·)) 0

/-! ### BED -/

def bedRec (r : Bed.Rec) : String :=
  let base := s!"b{r.width}:{hx r.chrom}:{r.start}:{r.stop}"
  if r.width == 3 then base else
  let base := base ++ s!":{hx r.name}"
  if r.width == 4 then base else
  let base := base ++ s!":{r.score}"
  if r.width == 5 then base else
  let base := base ++ s!":{r.strand}"
  if r.width == 6 then base else
  base ++ s!":{r.thickStart}:{r.thickEnd}:{r.rgb.r.toNat},{r.rgb.g.toNat},{r.rgb.b.toNat},{r.rgb.a.toNat}:{r.blockCount}:{ints r.blockSizes}:{ints r.blockStarts}"

def bedErr (e : Bed.Err) (line : Nat) : String :=
  match e with
  | .badType => s!"type@{line}"
  | .blocks => s!"blocks@{line}"
  | .num c => s!"num{c}@{line}"
  | .strandField c => s!"strandfield{c}@{line}"
  | .strand c => s!"strand{c}@{line}"
  | .color c => s!"color{c}@{line}"

def bedCall (c : Bed.Call) : String :=
  match c with
  | .record r => "r:" ++ bedRec r
  | .err e l => "e:" ++ bedErr e l
  | .panicked _ => "panic:model"
  | .eof => "eof"

def bedCalls (cs : List Bed.Call) : String := " ".intercalate (cs.map bedCall)

/-! ### GFF -/

def attrsStr (a : Option (List Gff.Attr)) : String :=
  match a.getD [] with
  | [] => "-"
  | as => ",".intercalate (as.map fun x => hx x.tag ++ "=" ++ hx x.value)

def scoreStr (s : Option Nat) : String :=
  match s with
  | none => "n"
  | some b => "x" ++ hex16 b

def gffFeature (f : Gff.Feature) : String :=
  s!"f:{hx f.seqName}:{hx f.source}:{hx f.feature}:{f.start}:{f.stop}:{scoreStr f.score}:{f.strand}:{f.frame}:{attrsStr f.attrs}:{hx f.comments}:{f.len}"

def gffItem (i : Gff.Item) : String :=
  match i with
  | .feature f => gffFeature f
  | .region name m s e => s!"g:{hx name}:{m}:{s}:{e}:{wrap64 (e - s)}"
  | .sequence id m letters => s!"s:{hx id}:{m}:{hx letters}"

def gffErr (e : Gff.Err) (line : Nat) : String :=
  match e with
  | .missing c => s!"missing{c}@{line}"
  | .num c => s!"num{c}@{line}"
  | .zero c => s!"zero{c}@{line}"
  | .strandField c => s!"strandfield{c}@{line}"
  | .strand c => s!"strand{c}@{line}"
  | .tag c => s!"tag{c}@{line}"
  | .metaline => s!"metaline0@{line}"
  | .notHandled => s!"nothandled0@{line}"
  | .badSeq => s!"badseq0@{line}"
  | .badMoltype => "moltype"
  | .date => "date"

def gffCall (c : Gff.Call) : String :=
  match c with
  | .item i => "r:" ++ gffItem i
  | .err e l => "e:" ++ gffErr e l
  | .panicked _ => "panic:model"
  | .eof => "eof"

def gffMeta (m : Gff.Meta) : String := s!"m:{m.version}:{hx m.sourceVersion}:{m.moltype}:{hx m.name}"

def gffCalls (r : List Gff.Call × Gff.St) : String :=
  " ".intercalate (r.1.map gffCall) ++ " " ++ gffMeta r.2.md

/-! ### oracles -/

/-- `o:<hex>=<bits>,…` -/
def parseFloatTable (s : String) : List (Bytes × Nat) :=
  if s == "-" then [] else
  (s.splitOn ",").filterMap fun kv =>
    match kv.splitOn "=" with
    | [k, v] => match bytesOfHex k, parseHexNat v with
      | some k, some v => some (k, v)
      | _, _ => none
    | _ => none

def parseDateTable (s : String) : List Bytes :=
  if s == "-" then [] else (s.splitOn ",").filterMap bytesOfHex

/-- oracles from the tokens `o:… d:…`; `ff` is the writer's float text (if any) -/
def mkOracles (toks : List String) (ff : Option (Nat × Bytes) := none) : Gff.Oracles :=
  let o := (toks.find? (·.startsWith "o:")).map (fun t => parseFloatTable (t.drop 2).toString) |>.getD []
  let d := (toks.find? (·.startsWith "d:")).map (fun t => parseDateTable (t.drop 2).toString) |>.getD []
  { parseFloat := fun b => (o.find? (·.1 == b)).map (·.2),
    formatFloat := fun x => match ff with
      | some (bits, txt) => if bits == x then txt else []
      | none => [],
    -- exact model of time.Parse("2006-1-02", ·); the harness's list `d:` is cross-checked by op `dt`
    parseDate := fun b => let _ := d; Biogo.Go.TimeDate.dateOK b }

/-- split an observation at `" | "` -/
def sections (obs : String) : List String := obs.splitOn " | "

/-! ### the statements of C03 evaluated on an observed call list -/

/-- number of physical lines (LF-terminated ones plus a non-empty tail) -/
def lineCount (bs : Bytes) : Nat := (lines bs).length

/-- `none` when the observed calls satisfy the totality part of C03 -/
def totalityViolation (calls : List String) (bs : Bytes) : Option String :=
  if calls.any (·.startsWith "panic") then some "read-panicked"
  else if calls.contains "hang" then some "read-hangs"
  else if calls.contains "nn" then some "read-returned-neither-record-nor-error"
  else if calls.contains "nilptr" || calls.any (fun c => c.startsWith "r:nilptr" || c.startsWith "b:nilptr") then some "read-returned-typed-nil"
  else if calls.contains "more" || calls.getLast? != some "eof" then some "no-EOF-within-lines-plus-one-calls"
  else if calls.length > lineCount bs + 1 then some s!"more-calls-than-lines-plus-one"
  else none

end Biogo.Drive.FeatCommon
