/-
Driver for C20.  For one case line it runs the gene / feature models on the input, evaluates
the statement of C20 (the predicates of `Biogo.Spec.Gene`) on the **implementation's**
observation, and compares model and implementation.  Core-only.

Input formats: see `harness/props/c20.go`.
-/
import Biogo.Go.Wire
import Biogo.Model.Feat
import Biogo.Model.Gene
import Biogo.Spec.Gene
import Biogo.Spec.GeneCheck

namespace Biogo.Drive.C20
open Biogo.Wire Biogo.Gene Biogo.Feat Biogo.Spec.Gene
open Biogo.Spec.GeneCheck (addStatement txStatement gfStatement maxStop)

/-! ### wire helpers -/

def parseExon (s : String) : Option Exon :=
  match s.splitOn ":" with
  | [a, b, c, d] => do
    let loc ← parseNat a
    let st ← parseInt b
    let l ← parseInt c
    let t ← parseNat d
    pure ⟨loc, st, l, t⟩
  | _ => none

def parseExons (s : String) : Option (List Exon) :=
  if s == "-" then some [] else (s.splitOn ";").mapM parseExon

def showExon (e : Exon) : String := s!"{e.loc}:{e.start}:{e.len}:{e.tag}"

def showList (xs : List String) : String := if xs.isEmpty then "-" else ";".intercalate xs

def showExons (es : List Exon) : String := showList (es.map showExon)

def showIntrons (is : List Intron) : String :=
  showList (is.map fun i => s!"{i.loc}:{i.start}:{i.len}")

def parseIntron (s : String) : Option Intron :=
  match s.splitOn ":" with
  | [a, b, c] => do
    let loc ← parseNat a
    let st ← parseInt b
    let l ← parseInt c
    pure ⟨loc, st, l⟩
  | _ => none

def parseIntrons (s : String) : Option (List Intron) :=
  if s == "-" then some [] else (s.splitOn ";").mapM parseIntron

def errCode : Option Err → String
  | none => "ok"
  | some e => e.code

def panicTok (p : Panic) : String := "P:" ++ p.code

/-- split an operation token `k=<arg>` -/
def splitOp (s : String) : Option (String × String) :=
  match s.splitOn "=" with
  | [k, a] => some (k, a)
  | _ => none

def pieces (obs : String) : List String := obs.splitOn " | "

def implDied (obs : String) : Bool := obs.startsWith "panic:" || obs == "hang" || obs == "crash"

/-- the outcome of one step of a history: the model's observation, a violated clause of the
    statement (evaluated on the implementation's observation), tags -/
structure Step where
  model : String
  viol : Option String := none
  tags : List String := []

def finish (base : List String) (steps : List Step) (obs : String) : Verdict :=
  let tags := (base ++ (steps.map (·.tags)).flatten).eraseDups
  if implDied obs then fail ("implementation-" ++ obs) tags
  else
    match steps.findSome? (·.viol) with
    | some why => fail why tags
    | none =>
      let m := " | ".intercalate (steps.map (·.model))
      if m == obs then ok tags else diff m tags

/-! ### xs: history on a bare `Exons` value -/

/-- the statement for one `Add` call, on the implementation's observation -/
def specAdd (args : List Exon) (t : List String) : Option String :=
  match t with
  | [err, len, before, after, res, _, _, _, heldB, heldA] =>
    match parseNat len, parseExons before, parseExons after, parseExons res, parseExons heldB, parseExons heldA with
    | some len, some before, some after, some res, some heldB, some heldA =>
      -- `Spec.GeneCheck.addStatement`; proved in `Properties/C20_checker.lean` (`add_checker_iff`)
      addStatement (err == "ok") (before.take len) (after.take len) res args heldB heldA
    | _, _, _, _, _, _ => some "unparsable-observation"
  | _ => some "unparsable-observation"

/-- (heap, `s`) and the second variable `held` -/
abbrev XsState := (Heap × Slice) × Slice

def xsStep (st : XsState) (op : String) (ob : String) : Option (XsState × Step) :=
  match splitOp op with
  | some (k, arg) =>
    if k == "a" || k == "d" then
      match parseExons arg with
      | some args =>
        let (h', r, e) := add st.1.1 st.1.2 args
        let shared := r.arr == st.1.2.arr && cap h' r > 0 && cap h' st.1.2 > 0
        let m := s!"{errCode e} {st.1.2.len} {showExons (cells st.1.1 st.1.2)} {showExons (cells h' st.1.2)} {showExons (read h' r)} {cap h' r} {showExons args} {showBool shared} {showExons (read st.1.1 st.2)} {showExons (read h' st.2)}"
        let spare := cap st.1.1 st.1.2 > st.1.2.len
        -- the receiver is empty and its spare capacity is what `held` reads
        let reset := st.1.2.len == 0 && st.2.len > 0 && st.2.arr == st.1.2.arr && st.2.off == st.1.2.off
        let tags := (if e.isSome then ["rejected", "nt", "err-" ++ errCode e] ++ (if spare then ["rejected-with-spare-capacity"] else [])
                     else ["accepted"] ++ (if args.isEmpty then [] else ["nt"]))
          ++ (if reset then [if e.isSome then "rejected-Add-on-reset-receiver" else "accepted-Add-on-reset-receiver",
                if args.length ≤ cap st.1.1 st.1.2 then "reset-args-fit-capacity" else "reset-args-exceed-capacity"] else [])
        some (xhApply st (.op (.add args (k == "a"))), { model := m, viol := specAdd args (tokens ob), tags })
      | none => none
    else if k == "t" then
      match parseNat arg with
      | some j =>
        let st' := xhApply st (.op (.upTo j))
        some (st', { model := s!"t {st'.1.2.len} {cap st'.1.1 st'.1.2}", tags := ["reslice"] })
      | none => none
    else if k == "o" then
      match parseNat arg with
      | some j =>
        let st' := xhApply st (.op (.drop j))
        some (st', { model := s!"o {st'.1.2.len} {cap st'.1.1 st'.1.2}", tags := ["reslice"] })
      | none => none
    else if k == "h" then
      let st' := xhApply st .hold
      some (st', { model := s!"h {st'.2.len}", tags := ["hold"] })
    else none
  | none => none

def runHist {σ} (step : σ → String → String → Option (σ × Step)) : σ → List String → List String → Option (List Step)
  | _, [], _ => some []
  | st, op :: ops, obs =>
    match step st op (obs.headD "") with
    | some (st', s) => (runHist step st' ops obs.tail).map (s :: ·)
    | none => none

def handleXS (n c : Nat) (init : List Exon) (ops : List String) (obs : String) : Verdict :=
  if init.length ≠ n || c < n then bad "xs header" else
  match runHist xsStep (xhInit n (init ++ List.replicate (c - n) zeroExon)) ops (pieces obs) with
  | some steps => finish ["xs"] steps obs
  | none => bad "xs op"

/-! ### chains -/

def parseNode (id : Nat) (s : String) : Option Node :=
  match s.splitOn ":" with
  | [_, st, o] => do
    let st ← parseInt st
    if o == "x" then pure ⟨id, st, none⟩ else do
      let o ← parseInt o
      pure ⟨id, st, some o⟩
  | _ => none

def parseChainFrom (firstId : Nat) (s : String) : Option (List Node) :=
  if s == "-" then some []
  else (List.zipIdx (s.splitOn ";")).mapM fun (tok, i) => parseNode (firstId + i) tok

def foreignId : Nat := 100000
def foreignChain : Chain := [⟨foreignId, 7, some 1⟩]

def idStr (n : Nat) : String := if n == foreignId then "f" else toString n

/-- the chain seen from node `i`; a loop is unrolled beyond the depth limit -/
def unrollFrom (nodes : List Node) (loop : Option Nat) (i : Nat) : Chain :=
  let first := nodes.drop i
  match loop with
  | none => first
  | some k =>
    let seg := nodes.drop k
    if seg.isEmpty then first
    else first ++ (List.replicate (1005 / seg.length + 1) seg).flatten

inductive Sel | nil | foreign | idx (i : Nat)

def parseSel (s : String) : Option Sel :=
  if s == "n" then some .nil else if s == "f" then some .foreign else (parseNat s).map .idx

def Sel.chain (nodes : List Node) (loop : Option Nat) : Sel → Chain
  | .nil => []
  | .foreign => foreignChain
  | .idx i => unrollFrom nodes loop i

def Sel.ref : Sel → Option Nat
  | .nil => none
  | .foreign => some foreignId
  | .idx i => some (i + 1)

def showBP : Except Panic (Int × Nat) → String
  | .ok (p, r) => s!"{p},{idStr r}"
  | .error e => panicTok e

def showPW : Except Panic (Int × Bool) → String
  | .ok (p, k) => s!"{p},{showBool k}"
  | .error e => panicTok e

def showOW : Except Panic Int → String
  | .ok o => toString o
  | .error e => panicTok e

def isPanicTok (s : String) : Bool := s.startsWith "P:"

def parsePair (s : String) : Option (Int × String) :=
  match s.splitOn "," with
  | [a, b] => (parseInt a).map (·, b)
  | _ => none

def segment (nodes : List Node) (i j : Nat) : List Node := (nodes.drop i).take (j - i)

/-- The statement of C20 about nested positions and orientations, evaluated on the
    implementation's answers to one query (tokens in the order the harness writes them). -/
def specQuery (nodes : List Node) (loop : Option Nat) (si sj sk : Sel) (p : Int) (t : List String) : Option String :=
  match t with
  | [bp1, pw1, pw2, bp2, pw3, bo1, bo2, ow1, ow2, ow3] =>
    let n := nodes.length
    let acyclic := loop.isNone
    -- additivity, closed form: position within an enclosing location adds the starts between
    let c1 : Option String :=
      match si, sj with
      | .idx i, .idx j =>
        if i ≤ j && j < n && j - i < 1000 && pw1 ≠ s!"{p + startSum (segment nodes i j)},1" then
          some "PositionWithin-is-not-the-sum-of-starts"
        else none
      | _, _ => none
    let c2 : Option String :=
      match si, sk with
      | .idx i, .idx k =>
        if i ≤ k && k < n && k - i < 1000 && pw3 ≠ s!"{p + startSum (segment nodes i k)},1" then
          some "PositionWithin-is-not-the-sum-of-starts"
        else none
      | _, _ => none
    -- composition through the middle location
    let c3 : Option String :=
      match si, sj, sk with
      | .idx i, .idx j, .idx k =>
        if i ≤ j && j ≤ k && k < n && pw1.endsWith ",1" && pw2.endsWith ",1" && pw3 ≠ pw2
            && !(pw3 == "P:toolong" && k - i ≥ 1000) then
          some "PositionWithin-does-not-compose"
        else none
      | _, _, _ => none
    -- base position: closed form on acyclic chains within the limit, and invariance under
    -- moving to an enclosing location
    let c4 : Option String :=
      match si with
      | .idx i =>
        if acyclic && i < n && n - i ≤ 1000 then
          match nodes.drop i with
          | f :: rest =>
            if bp1 ≠ s!"{p + startSum (f :: rest)},{lastId f rest}" then some "BasePositionOf-is-not-the-sum-of-starts"
            else none
          | [] => none
        else none
      | _ => none
    let c5 : Option String :=
      if pw1.endsWith ",1" && !isPanicTok bp1 && !isPanicTok bp2 && bp2 ≠ "-" && bp1 ≠ bp2 then
        some "BasePositionOf-changes-when-moving-to-a-location"
      else none
    -- orientation within an enclosing location: the product of the orientations between
    let owClosed (i j : Nat) : String :=
      match nodes.drop i with
      | f :: _ => if !f.oriented then "0" else toString (orientAll (segment nodes i j))
      | [] => "0"
    let c6 : Option String :=
      match si, sj with
      | .idx i, .idx j =>
        if i ≤ j && j < n && j - i < 999 && ow1 ≠ owClosed i j then some "OrientationWithin-is-not-the-product"
        else none
      | _, _ => none
    let c7 : Option String :=
      match si, sj, sk with
      | .idx i, .idx j, .idx k =>
        if i ≤ j && j ≤ k && k < n then
          match parseInt ow1, parseInt ow2, parseInt ow3 with
          | some a, some b, some c =>
            if a ≠ 0 && b ≠ 0 && c ≠ a * b then some "OrientationWithin-does-not-compose" else none
          | some a, some b, none =>
            if a ≠ 0 && b ≠ 0 && !(ow3 == "P:toolong" && k - i ≥ 999) then some "OrientationWithin-does-not-compose" else none
          | _, _, _ => none
        else none
      | _, _, _ => none
    -- base orientation: closed form, and multiplicativity over one level
    let c8 : Option String :=
      match si with
      | .idx i =>
        if acyclic && i < n && n - i ≤ 1000 then
          match baseOrientSpec (nodes.drop i) with
          | some (o, r) => if bo1 ≠ s!"{o},{r}" then some "BaseOrientationOf-is-not-the-product" else none
          | none => none
        else none
      | _ => none
    let c9 : Option String :=
      match si with
      | .idx i =>
        match unrollFrom nodes loop i with
        | f :: g :: _ =>
          if f.oriented && g.oriented then
            match parsePair bo1, parsePair bo2 with
            | some (o1, r1), some (o2, r2) =>
              if o1 ≠ f.ori * o2 || r1 ≠ r2 then some "BaseOrientationOf-is-not-multiplicative" else none
            | _, _ => none
          else none
        | _ => none
      | _ => none
    [c1, c2, c3, c4, c5, c6, c7, c8, c9].findSome? id
  | _ => some "unparsable-observation"

def queryStep (nodes : List Node) (loop : Option Nat) (q : String) (ob : String) : Option Step :=
  match q.splitOn "," with
  | [a, b, c, d] =>
    match parseSel a, parseSel b, parseSel c, parseInt d with
    | some si, some sj, some sk, some p =>
      let ci := si.chain nodes loop
      let cj := sj.chain nodes loop
      let bp1 := basePositionOf ci p
      let pw1 := positionWithin ci sj.ref p
      let (pw2, bp2) : String × String :=
        match pw1 with
        | .ok (q1, _) => (showPW (positionWithin cj sk.ref q1), showBP (basePositionOf cj q1))
        | .error _ => ("-", "-")
      let pw3 := positionWithin ci sk.ref p
      let bo1 := baseOrientationOf ci
      let bo2 : String :=
        match ci with
        | [] => "-"
        | [_] => "-"
        | _ :: up => showBP (baseOrientationOf up)
      let ow1 := orientationWithin ci sj.ref
      let ow2 := orientationWithin cj sk.ref
      let ow3 := orientationWithin ci sk.ref
      let m := " ".intercalate [showBP bp1, showPW pw1, pw2, bp2, showPW pw3, showBP bo1, bo2,
                                showOW ow1, showOW ow2, showOW ow3]
      let nested := match si, sj, sk with
        | .idx i, .idx j, .idx k => i ≤ j && j ≤ k
        | _, _, _ => false
      let tags := (if nested then ["nested", "nt"] else ["unnested"])
        ++ (if ci.length > 1000 then ["deeper-than-limit"] else [])
        ++ (if (m.splitOn "P:toolong").length > 1 then ["toolong"] else [])
      some { model := m, viol := specQuery nodes loop si sj sk p (tokens ob), tags }
    | _, _, _, _ => none
  | _ => none

/-- an assignment to a feature of the chain between two queries: `O<k>=<o>` (the orientation of node
    `k`, which must be an Orienter) or `M<k>=<s>` (its start); `k` counts from the bottom feature, 0-based -/
def parseChainOp (tok : String) : Option (String × ChainOp) :=
  match splitOp tok with
  | some (k, arg) =>
    let idx := (k.drop 1).toString
    if k.startsWith "O" then
      match parseNat idx, parseInt arg with
      | some i, some o => some ("O", .orient i o)
      | _, _ => none
    else if k.startsWith "M" then
      match parseNat idx, parseInt arg with
      | some i, some st => some ("M", .move i st)
      | _, _ => none
    else none
  | none => none

/-- the operation is one the harness can carry out on this chain: the node exists and, for `O`, has
    an orientation to assign -/
def chainOpValid (c : Chain) : ChainOp → Bool
  | .orient k _ => match c[k]? with
    | some x => x.orient.isSome
    | none => false
  | .move k _ => k < c.length

/-- what the harness reads back from the feature after the assignment -/
def showChainOp (c : Chain) (kind : String) (k : Nat) : String :=
  match c[k]? with
  | some x =>
    if kind == "O" then (match x.orient with | some o => s!"O {o}" | none => "O x") else s!"M {x.start}"
  | none => kind ++ " ?"

/-- a step of a `ch` history: a query on the chain as it is now, or a change of the chain; the state is
    the current list of nodes and the queries asked so far (to tag a query that is repeated after a change) -/
def chStep (loop : Option Nat) (st : List Node × List String × Bool) (tok : String) (ob : String) :
    Option ((List Node × List String × Bool) × Step) :=
  let (nodes, asked, changed) := st
  if (tok.splitOn "=").length > 1 then
    match parseChainOp tok with
    | some (kind, op) =>
      if !chainOpValid nodes op then none else
      let nodes' := chainApply nodes op
      some ((nodes', asked, true),
        { model := showChainOp nodes' kind op.index,
          tags := [if kind == "O" then "orientation-changed-between-queries" else "node-moved-between-queries"] })
    | none => none
  else
    match queryStep nodes loop tok ob with
    | some step =>
      let tags := step.tags ++ (if changed then ["query-after-a-change"] else [])
        ++ (if changed && asked.contains tok then ["same-query-before-and-after-a-change"] else [])
      some ((nodes, tok :: asked, changed), { step with tags })
    | none => none

def handleCH (chain loopTok : String) (qs : List String) (obs : String) : Verdict :=
  match parseChainFrom 1 chain with
  | some nodes =>
    let loop := if loopTok == "-" then none else parseNat loopTok
    match runHist (chStep loop) (nodes, [], false) qs (pieces obs) with
    | some steps =>
      let base := ["ch", if nodes.length ≥ 900 then "depth-near-limit" else s!"depth-{nodes.length}"]
        ++ (if loop.isSome then ["cycle"] else [])
      finish base steps obs
    | none => bad "ch query"
  | none => bad "ch chain"

/-! ### tx: history on a transcript -/

structure TxCfg where
  coding : Bool
  cdsStart : Int
  cdsEnd : Int

def showTF : Except Panic TF → String
  | .ok f => s!"{f.start}:{f.stop}"
  | .error e => panicTok e

def parsePiece (s : String) : Option Piece :=
  match s.splitOn ":" with
  | [a, b] => do
    let a ← parseInt a
    let b ← parseInt b
    pure (a, b)
  | _ => none

/-- The statement of C20 for a transcript after one operation, on the implementation's
    observation; `prev` is the exon set the implementation showed before the operation, `node` and
    `loc` the location chain as it is after the operation (the *current* orientations). -/
def specTx (cfg : TxCfg) (node : Node) (loc : Chain) (kind : String) (args prev : List Exon) (t : List String) :
    Option String × List Exon :=
  match t with
  | [err, exons, intr, sel, u5, cd, u3, sh] =>
    match parseExons exons, parseIntrons intr, parseInts sel with
    | some es, some is, some [tstart, tend, tlen] =>
      -- `Spec.GeneCheck.txStatement`; proved in `Properties/C20_checker.lean` (`tx_checker_sound`)
      let utr : Option (Piece × Piece × Piece) :=
        match parsePiece u5, parsePiece cd, parsePiece u3 with
        | some a, some b, some c => some (a, b, c)
        | _, _, _ => none
      let r : Option String :=
        txStatement cfg.coding node loc cfg.cdsStart cfg.cdsEnd kind (err == "ok") args prev es is
          tstart tend tlen utr sh
      (r, es)
    | _, _, _ => (some "unparsable-observation", prev)
  | _ => (some "unparsable-observation", prev)

/-- the model's observation in state `st` (`Model/Gene.lean`: `TcState`, the chain as it is now;
    `layout` = `UTR5`, `CDS`, `UTR3` computed from it) -/
def txModel (cfg : TxCfg) (st : TcState) (e : Option Err) : String :=
  let es := read st.h st.t.exons
  let len := endOf es
  let base := s!"{errCode e} {showExons es} {showIntrons (introns es)} {st.node.start},{st.node.start + len},{len}"
  if cfg.coding then
    let (u5, cd, u3) := layout st cfg.cdsStart cfg.cdsEnd
    let sh := match u5, u3 with
      | .ok a, .ok b => s!"{a.start},{a.stop},{b.start},{b.stop}"
      | .error e, _ => panicTok e
      | _, .error e => panicTok e
    s!"{base} {showTF u5} {showTF (.ok cd)} {showTF u3} {sh}"
  else base ++ " - - - -"

/-- the model's operation for an operation token: `S`, `A`, `R`, `Z<j>` (`Z` = `Z0`) with an exon list,
    `O<k>=<o>` / `M<k>=<s>` (a change of the location chain; `k = 0` is the transcript itself) -/
def parseTxOp (tok : String) : Option (String × TcOp × List Exon) :=
  match splitOp tok with
  | some (k, arg) =>
    if k.startsWith "O" || k.startsWith "M" then
      (parseChainOp tok).map fun (kind, op) => (kind, .chain op, [])
    else
      match parseExons arg with
      | some args =>
        if k == "S" then some ("S", .tx (.set args), args) else if k == "A" then some ("A", .tx (.addDrop args), args)
        else if k == "R" then some ("R", .tx (.addSet args), args)
        else if k.startsWith "Z" then
          let js := (k.drop 1).toString
          if js.isEmpty then some ("Z", .tx (.resliceAdd 0 args), args)
          else (parseNat js).map fun j => ("Z", .tx (.resliceAdd j args), args)
        else none
      | none => none
  | none => none

/-- state: the model's (`TcState`: heap, transcript, current chain), and the exon set last shown by the
    implementation -/
def txStep (cfg : TxCfg) (st : TcState × List Exon) (tok : String) (ob : String) : Option ((TcState × List Exon) × Step) :=
  let (ms, prev) := st
  match parseTxOp tok with
  | some (kind, mop, args) =>
    let valid := match mop with
      | .chain op => chainOpValid (ms.node :: ms.loc) op
      | .tx _ => true
    if !valid then none else
    let (ms', e) := tcApply ms mop
    let (viol, shown) := specTx cfg ms'.node ms'.loc kind args prev (tokens ob)
    let n := (read ms'.h ms'.t.exons).length
    let ztags : List String :=
      match mop with
      | .tx (.resliceAdd j _) =>
        let recv := resliceTo ms.h ms.t.exons j
        [if recv.len == 0 then "reset-receiver" else "resliced-receiver",
         if args.length ≤ cap ms.h recv - recv.len then "args-fit-spare-capacity" else "args-exceed-spare-capacity"]
        ++ (if cap ms.h recv > recv.len && args.length ≤ cap ms.h recv - recv.len then
              [if e.isSome then "rejected-Add-into-live-exons" else "accepted-Add-into-live-exons"] else [])
      | .chain op =>
        let before := if ms.node.oriented then orientProduct (ms.node :: ms.loc) else 0
        let after := if ms'.node.oriented then orientProduct (ms'.node :: ms'.loc) else 0
        (match op with
          | .orient k _ =>
            [if k == 0 then "orientation-change-of-the-transcript" else "orientation-change-above-the-transcript",
             s!"orientation-change-at-level-{k}",
             if before == after then "base-orientation-unchanged"
             else if before == 0 then "base-orientation-defined-by-the-change"
             else if after == 0 then "base-orientation-undefined-by-the-change"
             else "base-orientation-flipped"]
            ++ (if k > 0 && before != after && before != 0 && cfg.coding && prev.length > 0 then
                  ["UTR-query-before-and-after-an-orientation-change-above-the-transcript"] else [])
          | .move k _ => [if k == 0 then "transcript-moved" else "location-moved"])
      | _ => []
    let tags := [if e.isSome then "rejected" else "accepted", "op-" ++ kind, "nt"]
      ++ (if e.isSome then ["err-" ++ errCode e] else [])
      ++ (if n ≤ 1 then ["single-exon"] else if n > 12 then ["more-than-12-exons"] else [])
      ++ (if (introns (read ms'.h ms'.t.exons)).any (·.len == 0) then ["abutting-exons"] else [])
      ++ ztags
    some ((ms', shown), { model := txModel cfg ms' e, viol, tags })
  | none => none

def handleTX (kind hdr chain : String) (ops : List String) (obs : String) : Verdict :=
  match parseInts hdr, parseChainFrom 10 chain with
  | some [off, ori, cs, ce], some loc =>
    let cfg : TxCfg := { coding := kind == "c", cdsStart := cs, cdsEnd := ce }
    let node : Node := ⟨1, off, some ori⟩
    match runHist (txStep cfg) (tcInit 1 node loc, []) ops (pieces obs) with
    | some steps =>
      let o := orientProduct (node :: loc)
      let base := ["tx", if cfg.coding then "coding" else "noncoding", s!"levels-{loc.length + 1}",
                   if !node.oriented then "not-oriented" else if o = -1 then "base-reverse" else "base-forward"]
      finish base steps obs
    | none => bad "tx op"
  | _, _ => bad "tx header"

/-! ### gf: history of `Gene.SetFeatures` -/

def parseFeat (s : String) : Option FeatIv :=
  match s.splitOn ":" with
  | [a, b, c, d] => do
    let loc ← parseNat a
    let st ← parseInt b
    let en ← parseInt c
    let t ← parseNat d
    pure ⟨loc, st, en, t⟩
  | _ => none

def parseFeats (s : String) : Option (List FeatIv) :=
  if s == "-" then some [] else (s.splitOn ";").mapM parseFeat

def gfStep (off : Int) (st : GeneSt × (Int × String)) (op : String) (ob : String) : Option ((GeneSt × (Int × String)) × Step) :=
  match splitOp op with
  | some ("F", arg) =>
    match parseFeats arg with
    | some fs =>
      let (g, (plen, ptags)) := st
      let (g', e) := setFeatures 1 g fs
      let tagsOf (fs : List FeatIv) := showNats (fs.map (·.tag))
      let m := s!"{errCode e} {off},{off + g'.length},{g'.length} {tagsOf g'.feats}"
      let (viol, shown) : Option String × (Int × String) :=
        match tokens ob with
        | [err, sel, tg] =>
          match parseInts sel with
          | some [s, en, l] =>
            -- `Spec.GeneCheck.gfStatement`; proved in `Properties/C20_checker.lean` (`gf_checker_sound`)
            let r : Option String :=
              gfStatement (err == "ok") fs off s en l plen (tg == ptags) (tg == tagsOf fs)
            (r, (l, tg))
          | _ => (some "unparsable-observation", (plen, ptags))
        | _ => (some "unparsable-observation", (plen, ptags))
      let tags := [if e.isSome then "rejected" else "accepted", "nt"] ++ (if e.isSome then ["err-" ++ errCode e] else [])
      some ((g', shown), { model := m, viol, tags })
    | none => none
  | _ => none

def handleGF (off : Int) (ops : List String) (obs : String) : Verdict :=
  match runHist (gfStep off) (({ length := 0, feats := [] } : GeneSt), ((0 : Int), "-")) ops (pieces obs) with
  | some steps => finish ["gf"] steps obs
  | none => bad "gf op"

/-! ### cv: 1-based / 0-based -/

def minInt64 : Int := -9223372036854775808
def maxInt64 : Int := 9223372036854775807

def showOW64 : Except Panic Int64 → String
  | .ok o => toString o.toInt
  | .error e => panicTok e

/-- The model run here is the bit-exact one (`oneToZero64`, `zeroToOne64` over `Int64`, wrap-around);
    `Properties/C20_int64.lean` proves that it is the unbounded one except for `ZeroToOne(MaxInt64)`.
    Statement: `OneToZero(ZeroToOne(p)) = p` for every `int` but `MaxInt64` — which is not a value of
    `OneToZero` at all (`maxInt64_not_a_zero_based_image`), so that no implementation could satisfy
    the law there — and `ZeroToOne(OneToZero(p)) = p` for every `p ≠ 0`. -/
def handleCV (p : Int) (obs : String) : Verdict :=
  if p < minInt64 || p > maxInt64 then bad "cv argument is not an int64" else
  let q := Int64.ofInt p
  let a := showOW64 (oneToZero64 q)
  let b := toString (zeroToOne64 q).toInt
  let c := showOW64 (oneToZero64 (zeroToOne64 q))
  let d := showOW64 ((oneToZero64 q).map zeroToOne64)
  let m := s!"{a} {b} {c} {d}"
  let tags := ["cv", "nt", if p = 0 then "zero" else if p > 0 then "positive" else "negative"]
    ++ (if p ≥ maxInt64 - 2 || p ≤ minInt64 + 2 then ["int64-boundary"] else [])
    ++ (if p = maxInt64 then ["ZeroToOne-wraps"] else [])
  match tokens obs with
  | [_, _, ic, id] =>
    if p ≠ maxInt64 && ic ≠ toString p then fail "OneToZero-of-ZeroToOne-is-not-the-identity" tags
    else if p ≠ 0 && id ≠ toString p then fail "ZeroToOne-of-OneToZero-is-not-the-identity" tags
    else if m == obs then ok tags else diff m tags
  | _ => fail "unparsable-observation" tags

def handleTokens (inp : List String) (obs : String) : Verdict :=
  match inp with
  | "xs" :: n :: c :: init :: ops =>
    match parseNat n, parseNat c, parseExons init with
    | some n, some c, some init => handleXS n c init ops obs
    | _, _, _ => bad "xs"
  | "tx" :: kind :: hdr :: chain :: ops => handleTX kind hdr chain ops obs
  | "ch" :: chain :: loop :: qs => handleCH chain loop qs obs
  | "gf" :: off :: ops =>
    match parseInt off with
    | some off => handleGF off ops obs
    | none => bad "gf"
  | ["cv", p] =>
    match parseInt p with
    | some p => handleCV p obs
    | none => bad "cv"
  | _ => bad "unknown-op"

def ops : List String := ["xs", "tx", "ch", "gf", "cv"]

def handle (line : String) : String :=
  let (inp, obs) := splitCase line
  (handleTokens (tokens inp) obs).render

end Biogo.Drive.C20
