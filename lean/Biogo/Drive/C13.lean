/-
Driver for C13 (I/O failures are never hidden; no temporary files remain).

Input `x <conc> <chunk> <ac> <aclean> <i|s> <ops> <sched> <fault> [<opts>]` (see `MorassWire`).
(1) runs the labelled transition system with the fault oracle under the forced schedule;
(2) evaluates the statement on the implementation's observation:
    * if every call of the program returned success (nil or io.EOF) then the outputs satisfy the
      statement of C11 — the sorter never reports success throughout while delivering fewer or
      different values than were pushed; a program that never returns is a failure, too;
    * the same again for what follows every recovery (a reported I/O error, then a successful
      `Clear`): the rest of the program on the recovered sorter (`recoveryStatement`) — a second
      failure must be reported, too;
    * a sorter abandoned with `CleanUp` (ops end with `u`) while chunk writers are in flight: when
      everything has stopped the temporary directory does not exist;
    * after CleanUp the temporary directory does not exist; after a fault-free history whose
      last cycle was pulled to io.EOF the directory does not exist if AutoClean is set and
      holds no run file if AutoClear is set;
(3) compares model and implementation (flags, results, pulled keys, residue).
-/
import Biogo.Drive.MorassWire

namespace Biogo.Drive.C13
open Biogo.Wire Biogo.Morass Biogo.MorassConc Biogo.Drive.MorassWire

def lastDrained (h : List Cycle) : Bool :=
  match h.getLast? with
  | some cy => decide (cy.pushes.length < cy.pulls) && !cy.clear
  | none => false

/-- a call returned an error (anything but nil / io.EOF) -/
def reported (outs : List Out) : Bool :=
  (outs.find? (fun o => o.res != .ok && o.res != .eof && o.res != .rejected)).isSome

/-- The executable statement "an I/O failure is never hidden" on the outputs of a program that is
    the well-formed history `h`: the first call that did not succeed returned an error (it did not
    panic or hang), or no call failed and the outputs satisfy the statement of C11.  `none` = the
    statement holds.  Proved sound in `Properties/C13_history.lean` (`surfaceStatement_sound`). -/
def surfaceStatement (ac : Bool) (h : List Cycle) (ops : List Op) (outs : List Out) : Option String :=
  -- (the type-mismatch error of a rejected Push is not the report of an I/O failure)
  let firstBad := outs.find? (fun o => o.res != .ok && o.res != .eof && o.res != .rejected)
  if firstBad.any (fun o => o.res == .panic || o.res == .hang) then
    some "a-call-panicked-before-any-error-was-returned"
  else if firstBad.isSome then none
  else (Biogo.Drive.C11.programStatement ac h ops outs).map (fun why => s!"success-reported-throughout-but:{why}")

def notOk (o : Out) : Bool := o.res != .ok && o.res != .eof && o.res != .rejected

/-- The program and the outputs that follow the first recovery: the first call that did not
    succeed returned an I/O error, the caller made no call until its next `Clear`, and that
    `Clear` succeeded.  `none` = no (such) recovery. -/
def afterRecovery (ops : List Op) (outs : List Out) : Option (List Op × List Out) :=
  match outs.findIdx? notOk with
  | none => none
  | some i =>
    if (outs[i]?.map (·.res)) != some .ioerr then none else
    match (ops.drop (i + 1)).dropWhile (· != Op.clear), outs.drop (i + 1) with
    | .clear :: ops', oc :: outs' => if oc.res == .ok then some (ops', outs') else none
    | _, _ => none

/-- The executable statement "a failure after a recovery is not hidden either": after a reported
    I/O error and the `Clear` with which the caller recovered, the rest of the program — again a
    well-formed history, on a sorter that `Clear` has reset — satisfies `surfaceStatement`, and so
    on after every further recovery.  `none` = holds.  (`n` = fuel: the number of outputs.)
    Proved sound in `Properties/C13_recovery.lean` (`recoveryStatement_sound`). -/
def recoveryStatement (ac : Bool) : Nat → List Op → List Out → Option String
  | 0, _, _ => none
  | n + 1, ops, outs =>
    match afterRecovery ops outs with
    | none => none
    | some (ops', outs') =>
      match Biogo.Morass.historyOf ac (Biogo.Morass.dropRejects ops') with
      | none => none
      | some h' =>
        match surfaceStatement ac h' ops' outs' with
        | some why => some s!"after-recovery:{why}"
        | none => recoveryStatement ac n ops' outs'

/-- The executable statement for a sorter abandoned with `CleanUp`: the caller returned from every
    call, and when every goroutine has stopped the temporary directory does not exist (`dir` is
    the listing taken then: "1" = it exists). -/
def abandonStatement (st dir : String) : Option String :=
  if st ≠ "done" then some "the-program-never-returned"
  else if dir ≠ "0" then some "abandoned-sorter-leaves-its-directory-behind"
  else none

/-! ### fourth wave (seeded changes C13-m7, C13-m8, C11-m7) -/

open Biogo.Drive.C11 in
/-- `surfaceStatement` for a program with cycles abandoned with `Clear` (segments `sg`). -/
def surfaceStatementA (ac : Bool) (sg : List Seg) (ops : List Op) (outs : List Out) : Option String :=
  let firstBad := outs.find? notOk
  if firstBad.any (fun o => o.res == .panic || o.res == .hang) then
    some "a-call-panicked-before-any-error-was-returned"
  else if firstBad.isSome then none
  else (programStatementA ac sg ops outs).map (fun why => s!"success-reported-throughout-but:{why}")

/-- `recoveryStatement` for programs with abandoned cycles after a recovery. -/
def recoveryStatementA (ac : Bool) : Nat → List Op → List Out → Option String
  | 0, _, _ => none
  | n + 1, ops, outs =>
    match afterRecovery ops outs with
    | none => none
    | some (ops', outs') =>
      match Biogo.Drive.C11.segsOf ac (Biogo.Morass.dropRejects ops') with
      | none => none
      | some sg' =>
        match surfaceStatementA ac sg' ops' outs' with
        | some why => some s!"after-recovery:{why}"
        | none => recoveryStatementA ac n ops' outs'

/-- "… after draining a sorter that has AutoClean set the temporary directory no longer exists, and
    draining with AutoClear set leaves no run files in it" - at *every* drain of the program (a
    `Pull` that returned io.EOF), on the listing the harness took when that call had returned
    (`-1` = no directory).  Whatever happened before: cycles abandoned with `Clear`, earlier
    reported failures the caller recovered from. -/
def drainResidue (ac aclean : Bool) : List Out → List (Int × Nat) → Option String
  | o :: outs, (ls, _) :: tr =>
    if o.res == .eof && aclean && ls ≠ -1 then some "autoclean-drain-leaves-the-directory"
    else if o.res == .eof && ac && ls > 0 then some "autoclear-drain-leaves-run-files"
    else drainResidue ac aclean outs tr
  | _, _ => none

/-- C11 on a recovered sorter ("whatever earlier cycles did"): after a reported I/O error the
    caller's next call is `Clear`; when that `Clear` has succeeded, a call returns an I/O error only
    if an injected failure has fired since (`fired` = the harness's count of faults that have
    fired, sampled when each call returned) - otherwise the cycle that follows cannot be completed
    although nothing fails in it.  `base` = the count at the last recovering `Clear`;
    `afterErr` = the previous call returned an I/O error (so this one is that `Clear`). -/
def staleError : List Out → List (Int × Nat) → Option Nat → Bool → Option String
  | o :: outs, (_, f) :: tr, base, afterErr =>
    if o.res == .ioerr then
      if base == some f then some "after-recovery:io-error-returned-though-no-operation-failed-since-the-successful-clear"
      else staleError outs tr none true
    else if afterErr then staleError outs tr (if o.res == .ok then some f else none) false
    else staleError outs tr base false
  | _, _, _, _ => none

/-- candidates for what a run file cut short on disk amounts to in the model: nothing (the cut
    value is never read), or the failure of one `Decode` in `Finalise` or in `Pull` -/
def truncCandidates (w : Work) : List Fault :=
  let k := (w.ops.filter (fun o => match o with | .push _ => true | _ => false)).length + 2
  [w.flt] ++ (List.range k).map (fun i => w.flt ++ [(Pt.fdecode, i)])
          ++ (List.range k).map (fun i => w.flt ++ [(Pt.pdecode, i)])

def handleTokens (inp : List String) (obs : String) : Verdict :=
  match inp with
  | "x" :: rest =>
    match parseWork rest with
    | none => bad "x"
    | some w =>
      let r := runWork w
      -- the last token of a C13 observation is the listing / fired-faults trace
      let allToks := tokens obs
      let trace : Option (List (Int × Nat)) := allToks.getLast?.bind parseTrace
      let implToks := if trace.isSome then allToks.dropLast else allToks
      -- which of two files with equal head keys is exhausted first decides how many run files
      -- are present when a drain stops early: below the level of the observation
      let keys := w.ops.filterMap (fun o => match o with | .push e => some e.key | _ => none)
      let maskDisk (s : String) : String :=
        if keys.Nodup then s else
        match tokens s with
        | fl :: st :: _ :: rest => " ".intercalate (fl :: st :: "*" :: rest)
        | _ => s
      -- model and implementation listings at the drains and Clears (compared; masked like `disk`)
      let implOuts : List Out := ((implToks.drop 5).mapM parseOutE).getD []
      let lsView (outs : List Out) (ls : List Int) : String :=
        if trace.isNone || w.abandon then "" else if keys.Nodup then " ls=" ++ lsRender outs ls else " ls=*"
      let view (w' : Work) : String :=
        let r' := runWork w'
        maskDisk (modelRender r') ++ lsView r'.outs (lsTrace w')
      let impl := maskDisk (implRender implToks) ++ lsView implOuts ((trace.getD []).map (·.1))
      -- a run file cut short on disk: the model's counterpart is some single Decode failure (or
      -- none, when the cut value is never read)
      let m := if w.trunc then
                 match (truncCandidates w).find? (fun f => view { w with flt := f } == impl) with
                 | some f => view { w with flt := f }
                 | none => view w
               else view w
      let fired := decide (r.final.flt.length < w.flt.length)
      let allFired := !w.flt.isEmpty && r.final.flt.isEmpty
      let recovered := (afterRecovery w.ops r.outs).isSome
      -- the cycle in which the failure surfaced (model): Clear calls completed before it
      let firstErr := r.outs.findIdx? (fun o => o.res == .ioerr)
      let errCycle : List String := match firstErr with
        | some i => [s!"error-in-cycle{min (((w.ops.take i).filter (· == Op.clear)).length + 1) 3}"]
        | none => []
      let tags := errCycle ++ [if w.conc then "concurrent" else "sequential",
                   match w.flt with | (p, _) :: _ => "fault-" ++ (reprStr p).replace "Biogo.MorassConc.Pt." "" | [] => "no-fault"]
                  ++ (match w.flt with | _ :: (p, _) :: _ => ["two-faults", "second-fault-" ++ (reprStr p).replace "Biogo.MorassConc.Pt." ""] | _ => [])
                  ++ (if fired then ["fault-fired", "nt"] else [])
                  ++ (if recovered then ["recovered"] else [])
                  ++ (if recovered && allFired && w.flt.length ≥ 2 then ["second-fault-fired-after-recovery"] else [])
                  ++ (if w.reuse then ["reuse"] else [])
                  ++ (if w.trunc then ["run-file-truncated", "nt"] else [])
                  ++ (w.kinds.eraseDups.map (fun k => "error-kind-" ++ k))
                  ++ (if w.abandon then ["abandon"] ++ (if r.inflight > 0 then ["abandon-writers-in-flight", "nt"] else []) else [])
                  ++ (if w.aclean then ["autoclean"] else []) ++ (if w.ac then ["autoclear"] else [])
      -- an abandoned sorter: the statement about the directory comes first (the program need not
      -- be a whole history)
      let abandonFail : Option String :=
        if !w.abandon || w.chunk = 0 then none else
        if obs == "crash" || obs.startsWith "panic" then some "harness-process-or-goroutine-panicked"
        else if obs == "hang" then some "hang"
        else match implToks with
          | _ :: st :: _ :: dir :: _ => abandonStatement st dir
          | _ => some "unparsable-observation"
      match abandonFail with
      | some why => fail why tags
      | none =>
      let hOpt := Biogo.Morass.historyOf w.ac (Biogo.Morass.dropRejects w.ops)
      -- (fourth wave) the same with cycles abandoned with Clear before Finalise
      match Biogo.Drive.C11.segsOf w.ac (Biogo.Morass.dropRejects w.ops) with
      | none => if m == impl then ok (tags ++ ["illformed"]) else diff m (tags ++ ["illformed"])
      | some sg =>
        let h := Biogo.Drive.C11.cyclesOf sg
        let dropped := Biogo.Drive.C11.hasDropped sg
        let tags := tags ++ (if w.flt.isEmpty && hOpt.isSome && lastDrained h && (w.ac || w.aclean) then ["nt", "residue"] else [])
                         ++ (if dropped then ["abandoned-cycle", "nt"] else [])
        if obs == "crash" || obs.startsWith "panic" then fail "harness-process-or-goroutine-panicked" tags
        else if obs == "hang" then fail "hang" tags
        else if w.chunk = 0 then (if m == impl then ok tags else diff m tags)
        else
          match implToks with
          | _ :: st :: disk :: dir :: after :: outToks =>
            if st ≠ "done" then fail "the-program-never-returned" tags else
            if after ≠ "0" then fail "cleanup-leaves-the-directory" tags else
            match outToks.mapM parseOutE with
            | none => fail "unparsable-observation" tags
            | some outs =>
              let reported := reported outs
              -- the proved-sound statements on a program that is a history; the same with abandoned
              -- cycles (they coincide without them: `programStatementA_cycles`)
              let st1 : Option String := match hOpt with
                | some h0 => (surfaceStatement w.ac h0 w.ops outs).orElse
                               (fun _ => recoveryStatement w.ac outs.length w.ops outs)
                | none => none
              let st2 := st1.orElse (fun _ => (surfaceStatementA w.ac sg w.ops outs).orElse
                               (fun _ => recoveryStatementA w.ac outs.length w.ops outs))
              let trc := if (trace.getD []).length == outs.length then trace.getD [] else []
              let st3 := st2.orElse (fun _ => (drainResidue w.ac w.aclean outs trc).orElse
                               (fun _ => if w.aclean then none else staleError outs trc none false))
              match st3 with
              | some why => fail why tags
              | none =>
                if hOpt.isNone then (if m == impl then ok tags else diff m tags) else
                if w.flt.isEmpty && !reported && lastDrained h && w.aclean && dir ≠ "0" then
                  fail "autoclean-drain-leaves-the-directory" tags
                else if w.flt.isEmpty && !reported && lastDrained h && w.ac && dir == "1" && disk ≠ "0" then
                  fail "autoclear-drain-leaves-run-files" tags
                else if m == impl then ok tags else diff m tags
          | _ => fail "unparsable-observation" tags
  | _ => bad "unknown-op"

def ops : List String := ["x"]

def handle (line : String) : String :=
  let (inp, obs) := splitCase line
  (handleTokens (tokens inp) obs).render

end Biogo.Drive.C13
