/-
Driver for C13 (I/O failures are never hidden; no temporary files remain).

Input `x <conc> <chunk> <ac> <aclean> <i|s> <ops> <sched> <fault> [<opts>]` (see `MorassWire`).
(1) runs the labelled transition system with the fault oracle under the forced schedule;
(2) evaluates the statement on the implementation's observation:
    * if every call of the program returned success (nil or io.EOF) then the outputs satisfy the
      statement of C11 — the sorter never reports success throughout while delivering fewer or
      different values than were pushed; a program that never returns is a failure, too;
    * the same again for what follows every recovery (a reported I/O error, then a successful
      `Clear`): the rest of the program on the recovered sorter (`recoveryStatement`) — a second
      failure must be reported, too;
    * a sorter abandoned with `CleanUp` (ops end with `u`) while chunk writers are in flight: when
      everything has stopped the temporary directory does not exist;
    * after CleanUp the temporary directory does not exist; after a fault-free history whose
      last cycle was pulled to io.EOF the directory does not exist if AutoClean is set and
      holds no run file if AutoClear is set;
(3) compares model and implementation (flags, results, pulled keys, residue).
-/
import Biogo.Drive.MorassWire

namespace Biogo.Drive.C13
open Biogo.Wire Biogo.Morass Biogo.MorassConc Biogo.Drive.MorassWire

def lastDrained (h : List Cycle) : Bool :=
  match h.getLast? with
  | some cy => decide (cy.pushes.length < cy.pulls) && !cy.clear
  | none => false

/-- a call returned an error (anything but nil / io.EOF) -/
def reported (outs : List Out) : Bool :=
  (outs.find? (fun o => o.res != .ok && o.res != .eof && o.res != .rejected)).isSome

/-- The executable statement "an I/O failure is never hidden" on the outputs of a program that is
    the well-formed history `h`: the first call that did not succeed returned an error (it did not
    panic or hang), or no call failed and the outputs satisfy the statement of C11.  `none` = the
    statement holds.  Proved sound in `Properties/C13_history.lean` (`surfaceStatement_sound`). -/
def surfaceStatement (ac : Bool) (h : List Cycle) (ops : List Op) (outs : List Out) : Option String :=
  -- (the type-mismatch error of a rejected Push is not the report of an I/O failure)
  let firstBad := outs.find? (fun o => o.res != .ok && o.res != .eof && o.res != .rejected)
  if firstBad.any (fun o => o.res == .panic || o.res == .hang) then
    some "a-call-panicked-before-any-error-was-returned"
  else if firstBad.isSome then none
  else (Biogo.Drive.C11.programStatement ac h ops outs).map (fun why => s!"success-reported-throughout-but:{why}")

def notOk (o : Out) : Bool := o.res != .ok && o.res != .eof && o.res != .rejected

/-- The program and the outputs that follow the first recovery: the first call that did not
    succeed returned an I/O error, the caller made no call until its next `Clear`, and that
    `Clear` succeeded.  `none` = no (such) recovery. -/
def afterRecovery (ops : List Op) (outs : List Out) : Option (List Op × List Out) :=
  match outs.findIdx? notOk with
  | none => none
  | some i =>
    if (outs[i]?.map (·.res)) != some .ioerr then none else
    match (ops.drop (i + 1)).dropWhile (· != Op.clear), outs.drop (i + 1) with
    | .clear :: ops', oc :: outs' => if oc.res == .ok then some (ops', outs') else none
    | _, _ => none

/-- The executable statement "a failure after a recovery is not hidden either": after a reported
    I/O error and the `Clear` with which the caller recovered, the rest of the program — again a
    well-formed history, on a sorter that `Clear` has reset — satisfies `surfaceStatement`, and so
    on after every further recovery.  `none` = holds.  (`n` = fuel: the number of outputs.)
    Proved sound in `Properties/C13_recovery.lean` (`recoveryStatement_sound`). -/
def recoveryStatement (ac : Bool) : Nat → List Op → List Out → Option String
  | 0, _, _ => none
  | n + 1, ops, outs =>
    match afterRecovery ops outs with
    | none => none
    | some (ops', outs') =>
      match Biogo.Morass.historyOf ac (Biogo.Morass.dropRejects ops') with
      | none => none
      | some h' =>
        match surfaceStatement ac h' ops' outs' with
        | some why => some s!"after-recovery:{why}"
        | none => recoveryStatement ac n ops' outs'

/-- The executable statement for a sorter abandoned with `CleanUp`: the caller returned from every
    call, and when every goroutine has stopped the temporary directory does not exist (`dir` is
    the listing taken then: "1" = it exists). -/
def abandonStatement (st dir : String) : Option String :=
  if st ≠ "done" then some "the-program-never-returned"
  else if dir ≠ "0" then some "abandoned-sorter-leaves-its-directory-behind"
  else none

def handleTokens (inp : List String) (obs : String) : Verdict :=
  match inp with
  | "x" :: rest =>
    match parseWork rest with
    | none => bad "x"
    | some w =>
      let r := runWork w
      let implToks := tokens obs
      -- which of two files with equal head keys is exhausted first decides how many run files
      -- are present when a drain stops early: below the level of the observation
      let keys := w.ops.filterMap (fun o => match o with | .push e => some e.key | _ => none)
      let maskDisk (s : String) : String :=
        if keys.Nodup then s else
        match tokens s with
        | fl :: st :: _ :: rest => " ".intercalate (fl :: st :: "*" :: rest)
        | _ => s
      let m := maskDisk (modelRender r)
      let impl := maskDisk (implRender implToks)
      let fired := decide (r.final.flt.length < w.flt.length)
      let allFired := !w.flt.isEmpty && r.final.flt.isEmpty
      let recovered := (afterRecovery w.ops r.outs).isSome
      -- the cycle in which the failure surfaced (model): Clear calls completed before it
      let firstErr := r.outs.findIdx? (fun o => o.res == .ioerr)
      let errCycle : List String := match firstErr with
        | some i => [s!"error-in-cycle{min (((w.ops.take i).filter (· == Op.clear)).length + 1) 3}"]
        | none => []
      let tags := errCycle ++ [if w.conc then "concurrent" else "sequential",
                   match w.flt with | (p, _) :: _ => "fault-" ++ (reprStr p).replace "Biogo.MorassConc.Pt." "" | [] => "no-fault"]
                  ++ (match w.flt with | _ :: (p, _) :: _ => ["two-faults", "second-fault-" ++ (reprStr p).replace "Biogo.MorassConc.Pt." ""] | _ => [])
                  ++ (if fired then ["fault-fired", "nt"] else [])
                  ++ (if recovered then ["recovered"] else [])
                  ++ (if recovered && allFired && w.flt.length ≥ 2 then ["second-fault-fired-after-recovery"] else [])
                  ++ (if w.reuse then ["reuse"] else [])
                  ++ (if w.abandon then ["abandon"] ++ (if r.inflight > 0 then ["abandon-writers-in-flight", "nt"] else []) else [])
                  ++ (if w.aclean then ["autoclean"] else []) ++ (if w.ac then ["autoclear"] else [])
      -- an abandoned sorter: the statement about the directory comes first (the program need not
      -- be a whole history)
      let abandonFail : Option String :=
        if !w.abandon || w.chunk = 0 then none else
        if obs == "crash" || obs.startsWith "panic" then some "harness-process-or-goroutine-panicked"
        else if obs == "hang" then some "hang"
        else match implToks with
          | _ :: st :: _ :: dir :: _ => abandonStatement st dir
          | _ => some "unparsable-observation"
      match abandonFail with
      | some why => fail why tags
      | none =>
      match Biogo.Morass.historyOf w.ac (Biogo.Morass.dropRejects w.ops) with
      | none => if m == impl then ok (tags ++ ["illformed"]) else diff m (tags ++ ["illformed"])
      | some h =>
        let tags := tags ++ (if w.flt.isEmpty && lastDrained h && (w.ac || w.aclean) then ["nt", "residue"] else [])
        if obs == "crash" || obs.startsWith "panic" then fail "harness-process-or-goroutine-panicked" tags
        else if obs == "hang" then fail "hang" tags
        else if w.chunk = 0 then (if m == impl then ok tags else diff m tags)
        else
          match implToks with
          | _ :: st :: disk :: dir :: after :: outToks =>
            if st ≠ "done" then fail "the-program-never-returned" tags else
            if after ≠ "0" then fail "cleanup-leaves-the-directory" tags else
            match outToks.mapM parseOutE with
            | none => fail "unparsable-observation" tags
            | some outs =>
              let reported := reported outs
              match (surfaceStatement w.ac h w.ops outs).orElse
                      (fun _ => recoveryStatement w.ac outs.length w.ops outs) with
              | some why => fail why tags
              | none =>
                if w.flt.isEmpty && !reported && lastDrained h && w.aclean && dir ≠ "0" then
                  fail "autoclean-drain-leaves-the-directory" tags
                else if w.flt.isEmpty && !reported && lastDrained h && w.ac && dir == "1" && disk ≠ "0" then
                  fail "autoclear-drain-leaves-run-files" tags
                else if m == impl then ok tags else diff m tags
          | _ => fail "unparsable-observation" tags
  | _ => bad "unknown-op"

def ops : List String := ["x"]

def handle (line : String) : String :=
  let (inp, obs) := splitCase line
  (handleTokens (tokens inp) obs).render

end Biogo.Drive.C13
