/-
Driver for C03, part feat (BED at each column count, GFF): runs the reader models on the
input bytes, evaluates the statement of C03 on the implementation's calls (no panic, no hang,
record or error from every call, io.EOF within lines+1 calls, structurally invalid lines
rejected), and compares model and implementation call by call.  Core-only.
-/
import Biogo.Drive.FeatCommon

namespace Biogo.Drive.C03_feat
open Biogo.Wire Biogo.BytesFeat Biogo.Drive.FeatCommon

def bedKind (e : Bed.Err) : String :=
  match e with
  | .badType => "missing-columns"
  | .blocks => "block-count"
  | .num _ => "non-numeric"
  | .strandField _ => "bad-strand"
  | .strand _ => "bad-strand"
  | .color _ => "bad-colour"

/-- the error kinds C03 names: missing mandatory columns, non-numeric coordinates, a GFF start of
    zero, bad strand, incomplete metadata lines -/
def gffKind (e : Gff.Err) : Option String :=
  match e with
  | .missing _ => some "missing-columns"
  | .num _ => some "non-numeric"
  | .zero _ => some "start-zero"
  | .strandField _ => some "bad-strand"
  | .strand _ => some "bad-strand"
  | .metaline => some "incomplete-metaline"
  | _ => none

/-- first call where the model reports one of the named structural errors but the
    implementation returned a record -/
def bedRejects (model : List Bed.Call) (impl : List String) : Option String :=
  (model.zip impl).findSome? fun (m, i) =>
    match m with
    | .err e _ => if i.startsWith "r:" || i.startsWith "b:" then some ("accepted-" ++ bedKind e) else none
    | _ => none

def gffRejects (model : List Gff.Call) (impl : List String) : Option String :=
  (model.zip impl).findSome? fun (m, i) =>
    match m with
    | .err e _ =>
      match gffKind e with
      | some k => if i.startsWith "r:" || i.startsWith "b:" then some ("accepted-" ++ k) else none
      | none => none
    | _ => none

def bedTags (n : Nat) (model : List Bed.Call) : List String :=
  let kinds := (model.filterMap fun c => match c with | .err e _ => some (bedKind e) | _ => none).eraseDups
  [s!"bed{n}"] ++ kinds ++ (if model.any (fun c => match c with | .record _ => true | _ => false) then ["has-record"] else [])
    ++ (if model.length > 1 then ["nt"] else [])

def gffErrName (e : Gff.Err) : String :=
  match e with
  | .missing _ => "missing-columns" | .num _ => "non-numeric" | .zero _ => "start-zero"
  | .strandField _ => "bad-strand" | .strand _ => "bad-strand" | .tag _ => "bad-tag"
  | .metaline => "incomplete-metaline" | .notHandled => "not-handled" | .badSeq => "bad-sequence"
  | .badMoltype => "bad-moltype" | .date => "bad-date"

def gffTags (model : List Gff.Call) : List String :=
  let kinds := (model.filterMap fun c => match c with | .err e _ => some (gffErrName e) | _ => none).eraseDups
  let items := (model.filterMap fun c => match c with
    | .item (.feature _) => some "has-feature" | .item (.region ..) => some "has-region"
    | .item (.sequence ..) => some "has-sequence" | _ => none).eraseDups
  ["gff"] ++ kinds ++ items ++ (if model.length > 1 then ["nt"] else [])

def handleTokens (inp : List String) (obs : String) : Verdict :=
  match inp with
  | ["bedr", n, hex] =>
    match parseNat n, bytesOfHex hex with
    | some n, some bs =>
      let model := Bed.readAll n bs
      let impl := tokens obs
      let tags := bedTags n model
      match totalityViolation impl bs with
      | some why => fail why tags
      | none =>
        match bedRejects model impl with
        | some why => fail why tags
        | none =>
          let m := bedCalls model
          if m == obs then ok tags else diff m tags
    | _, _ => bad "bedr"
  | ["gffr", hex] =>
    match bytesOfHex hex, sections obs with
    | some bs, [callsMeta, orc] =>
      let o := mkOracles (tokens orc)
      let model := Gff.readAll o bs
      let implAll := tokens callsMeta
      let impl := implAll.filter (fun t => !t.startsWith "m:")
      let tags := gffTags model.1
      match totalityViolation impl bs with
      | some why => fail why tags
      | none =>
        match gffRejects model.1 impl with
        | some why => fail why tags
        | none =>
          let m := gffCalls model
          if m == callsMeta then ok tags else diff m tags
    | _, _ => bad "gffr"
  | ["dt", hex] =>
    -- time.Parse(gff.Astronomical, s): the exact model against the real parser
    match bytesOfHex hex with
    | some s =>
      let m := match Biogo.Go.TimeDate.parseAstronomical s with
        | some (y, mo, d) => s!"ok {y} {mo} {d}"
        | none => "err"
      let tags := ["date", if m == "err" then "date-rejected" else "nt"]
      if m == obs then ok tags else diff m tags
    | none => bad "dt"
  | ["dtf", y, mo, d] =>
    -- Time.Format(gff.Astronomical)
    match parseNat y, parseNat mo, parseNat d with
    | some y, some mo, some d =>
      let m := hexOfBytes (Biogo.Go.TimeDate.formatAstronomical y mo d)
      if m == obs then ok ["date-format", "nt"] else diff m ["date-format"]
    | _, _, _ => bad "dtf"
  | _ => bad "unknown-op"

def ops : List String := ["bedr", "gffr", "dt", "dtf"]

def handle (line : String) : String :=
  let (inp, obs) := splitCase line
  (handleTokens (tokens inp) obs).render

end Biogo.Drive.C03_feat
