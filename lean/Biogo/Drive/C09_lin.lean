/-
Driver for C09, part `lin` (NW, SW, Fitted).  For a case line it runs the model and
evaluates C09's statement on the implementation's own observation:
 * legal input: the returned pairs form one monotone path of the aligner's class
   (`wellFormed`), every pair's score is the score recomputed from letters and matrix
   (`pairScoresOk`), the QLetters variant returns the same pairs, `align.Format` renders
   exactly the rows the pairs describe, of equal length, which reduce to the aligned
   subsequences when gap letters are removed (when the sequences contain no gap letter);
 * ill-typed input (the model answers an error): the implementation answers an error —
   a panic, or an alignment, is a violation;
 * a panic is a violation on every input inside the property's quantifier (non-empty
   sequences).
Core-only.
-/
import Biogo.Drive.AlignLinWire

namespace Biogo.Drive.C09_lin
open Biogo.Wire Biogo.AlignLin Biogo.Spec.AlignPairs Biogo.Spec.Alignment Biogo.Drive.AlignLinWire

/-- what Format must render for the implementation's pairs, checked against its output -/
def formatStatement (c : Case) (ps : List Pair) (fmt : String) : Option String :=
  let rows := formatRows c.gap c.r c.q ps
  let want := hexOfBytes rows.1 ++ "/" ++ hexOfBytes rows.2
  if fmt ≠ want then some "format-rows-differ-from-the-pairs"
  else if rows.1.length ≠ rows.2.length then some "format-rows-of-different-length"
  else
    match span ps with
    | none => some "format-of-ill-formed-path"
    | some (i, j, e1, e2) =>
      if c.r.contains c.gap || c.q.contains c.gap then none
      else if rows.1.filter (· ≠ c.gap) ≠ (c.r.take e1).drop i then some "format-row0-degapped-is-not-the-aligned-reference"
      else if rows.2.filter (· ≠ c.gap) ≠ (c.q.take e2).drop j then some "format-row1-degapped-is-not-the-aligned-query"
      else none

/-- C09's statement for a legal input, on the implementation's observation tokens -/
def statementLegal (c : Case) (ot : List String) : Option String :=
  match ot with
  | [resL, resQ, fmtL, fmtQ] =>
    if isPanic resL || isPanic resQ then some "panic-on-legal-input"
    else match parseOkPairs resL with
    | none => none       -- an error on a legal input: reported as a model disagreement
    | some ps =>
      if !wellFormed c.cls c.r.length c.q.length ps then some "path-not-well-formed"
      else if !pairScoresOk c.S c.ri c.qi ps then some "pair-score-differs-from-recomputed-score"
      else if resQ ≠ "=" then some "qletters-result-differs-from-letters-result"
      else if isPanic fmtL || isPanic fmtQ then some "format-panics"
      else if fmtQ ≠ "=" then some "format-of-qletters-differs"
      else formatStatement c ps fmtL
  | _ => some "unparsable-observation"

def handleTokens (inp : List String) (obs : String) : Verdict :=
  match parseCase inp with
  | none => bad "unparsable-input"
  | some c =>
    let ot := tokens obs
    let nonEmpty := !c.r.isEmpty && !c.q.isEmpty
    let base := [opTag c, "mode-" ++ c.mode, shapeTag c]
    if c.mode != "LL" then
      let mr := align c.al (c.call false)
      let m := showRes mr
      let tags := base ++ [if nonEmpty then "nt" else "empty-sequence", "ill-typed"]
      match mr with
      | .error _ =>
        if isPanic obs then fail "panic-on-ill-typed-input" tags
        else if !isErr obs then fail s!"no-error-on-ill-typed-input-model={m}" tags
        else if m == obs then ok (tags ++ [m]) else diff m tags
      | _ => if m == normObs obs then ok tags else diff m tags
    else
      let mres := align c.al (c.call false)
      let m := modelObsLL c mres
      let agree := m == normObs obs
      match mres with
      | .ok mps =>
        let tags := base ++ ["r-" ++ lenTag c.r.length, "q-" ++ lenTag c.q.length] ++
          (if nonEmpty then ["nt", "legal"] else ["legal", "empty-sequence"]) ++
          (if mps.length ≥ 3 then ["gapped-path"] else []) ++
          (if mps.any (fun p => p.a0 == p.a1 && p.b0 == p.b1) then ["has-empty-pair"] else [])
        match statementLegal c ot with
        | some why => fail why tags
        | none => if agree then ok tags else diff m tags
      | .error e =>
        let tags := base ++ [if nonEmpty then "nt" else "empty-sequence", "ill-typed", showErr e |>.takeWhile (· ≠ ':') |>.toString,
          match e with
          | .illegalR _ => "illegal-ref-letter" | .illegalQ _ => "illegal-query-letter"
          | .notSquare => "ragged-matrix" | .wrongSize _ _ => "undersized-matrix"
          | .notGapped => "no-gap-at-0" | _ => "other-error"]
        match ot with
        | [resL, resQ, _, _] =>
          if isPanic resL || isPanic resQ then fail "panic-on-ill-typed-input" tags
          else if !isErr resL then fail s!"no-error-on-ill-typed-input-model={showErr e}" tags
          else if resQ ≠ "=" then fail "qletters-result-differs-from-letters-result" tags
          else if agree then ok tags else diff m tags
        | _ => fail "unparsable-observation" tags
      | .panic _ =>
        -- the model itself panics only for Fitted with an empty query, outside the quantifier
        let tags := base ++ ["empty-sequence", "model-panics"]
        if nonEmpty then fail "model-panic-on-non-empty-input" tags
        else if agree then ok tags else diff m tags

def ops : List String := ["nw", "sw", "fit"]

def handle (line : String) : String :=
  let (inp, obs) := splitCase line
  (handleTokens (tokens inp) obs).render

end Biogo.Drive.C09_lin
