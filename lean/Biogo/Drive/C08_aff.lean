/-
Driver for C08, part `aff` (NWAffine, SWAffine, FittedAffine).

For one case it (1) runs the model of the aligner, (2) evaluates the statement of C08 on the
implementation's own pairs: their total must equal the optimum of the alignment class under
the affine gap model, computed by the reference dynamic program `Spec.AffineOpt` with all
transitions (`cross = true`); any optimal alignment is acceptable, paths are never compared
for the verdict; (3) recognises the findings K1 and K3 — both repaired; the recognisers stay so
that a regression is reported by name (`KNOWN_FINDINGS.txt` no longer lists them, so the check
then fails):
  K1  total = optimum over alignments with no gap next to a gap in the other sequence
      (`cross = false`) < optimum;
  K2  FittedAffine stopped at the reference start with query letters left;
  K3  FittedAffine consumed the query, the total is below the no-adjacent-gaps optimum for its
      end, and it *is* the optimum, for that end, of the class the fill explored before the
      repair — alignments that end with a letter pair and start with a letter pair (or, from
      reference position 0, with a gap in the reference), `Spec.FittedRestricted`; the yardstick
      is the match-layer value of the last column of row `e` of the table of the fill before
      the repair of K1 (`fitTable false`), proved to be that optimum
      (`fittedRestricted_yardstick`).  Tag `k3-model-end`: the run of the model of the aligner
      before the repairs (`fitAlignLegacy`) ends at the same row with the same total.
Tags `oldfill-same` / `oldfill-differs`: the model of the aligner before the repairs of K1/K3
(`legacyFillAlign`) reports the same total / another one; `noadj<opt`: the optimum needs a gap
directly next to a gap in the other sequence.
Core only.
-/
import Biogo.Drive.AffCommon

namespace Biogo.Drive.C08_aff
open Biogo.Wire Biogo.AlignAff Biogo.Drive.AffCommon
open Biogo.Spec.AffineOpt Biogo.Spec.AffPairs

def ops : List String := ["nwaff", "swaff", "fitaff"]

def hasGap (ps : List Pair) : Bool := ps.any fun p => (p.re - p.rs) != (p.qe - p.qs)

def handleCase (c : Case) (obs : String) : Verdict :=
  let r := rIdx c
  let q := qIdx c
  let R := r.length
  let C := q.length
  let S := sc c.M
  let model := align c.w c.M c.gapOpen c.ref c.qry
  let base := [opTag c.w] ++ (if c.ref.quality then ["quality"] else ["plain"]) ++
    (if R ≥ 2 ∧ C ≥ 2 then ["nt"] else []) ++ (if R + C > 12 then ["long"] else ["short"])
  if !(legalInput c && gapsNonPos c) then { status := "skip", tags := ["outside-domain"] } else
  match parseObs obs with
  | .pairs ps _ _ =>
    let tags := base ++ (if hasGap ps then ["gapped"] else ["ungapped"])
    let tot := total ps
    let old := legacyFillAlign c.w S c.gapOpen r q
    let oldTot := match old with | .ok mp => some (total mp) | .error _ => none
    let oldEnd := match old with | .ok mp => some (lastEnd mp).1 | .error _ => none
    let tags := tags ++ (if oldTot == some tot then ["oldfill-same"] else ["oldfill-differs"])
    let same := modelObs model == obsHead obs
    let fin (tags : List String) : Verdict := if same then ok tags else diff (modelObs model) tags
    if !(wellFormed ps) then fail "returned pairs are not one monotone path" tags else
    match c.w with
    | .nw =>
      if !(spansAll ps R C) then fail "not a global alignment" tags else
      let all := globalOpt true S c.gapOpen r q
      let na := globalOpt false S c.gapOpen r q
      if some tot == all then fin (tags ++ (if na == all then [] else ["noadj<opt"]))
      else if some tot == na ∧ vgt all na then
        known "K1" s!"total={tot} = optimum without adjacent opposite gaps < optimum={showV all}" (tags ++ ["k1"])
      else fail s!"total={tot} optimum={showV all} noadj-optimum={showV na}" tags
    | .sw =>
      if !(inBounds ps R C) then fail "pairs out of bounds" tags else
      let all := localOpt true S c.gapOpen r q
      let na := localOpt false S c.gapOpen r q
      if some tot == all then fin (tags ++ (if na == all then [] else ["noadj<opt"]))
      else if some tot == na ∧ vgt all na then
        known "K1" s!"total={tot} = local optimum without adjacent opposite gaps < optimum={showV all}" (tags ++ ["k1"])
      else fail s!"total={tot} local-optimum={showV all} noadj-optimum={showV na}" tags
    | .fit =>
      if !(inBounds ps R C) then fail "pairs out of bounds" tags else
      let (rs0, qs0) := firstStart ps
      let (e, qe) := lastEnd ps
      if qe ≠ C then fail s!"alignment ends at query position {qe} of {C}" tags
      else if qs0 ≠ 0 then
        if rs0 = 0 then
          known "K2" s!"query letters [0,{qs0}) not aligned: traceback reached the reference start" (tags ++ ["k2"])
        else fail s!"query letters [0,{qs0}) not aligned although the reference start was not reached" tags
      else
        let all := fittedOpt true S c.gapOpen r q e
        let na := fittedOpt false S c.gapOpen r q e
        if some tot == all then fin (tags ++ ["consumes"] ++ (if na == all then [] else ["noadj<opt"]))
        else if some tot == na ∧ vgt all na then
          known "K1" s!"total={tot} = optimum for end {e} without adjacent opposite gaps < optimum={showV all}" (tags ++ ["k1"])
        else if vgt na (some tot) ∧ ((fitTable false S c.gapOpen r q).at e C).d == some tot then
          known "K3" s!"total={tot} for end {e} below noadj-optimum={showV na} (optimum={showV all}); it is the optimum over the alignments ending with a letter pair and not starting with a gap after a free reference prefix" (tags ++ ["k3"] ++ (if oldTot == some tot ∧ oldEnd == some e then ["k3-model-end"] else []))
        else fail s!"total={tot} end={e} optimum={showV all} noadj-optimum={showV na}" tags
  | .err code => fail s!"no alignment returned: {code}" base
  | .panic => fail "panic on a legal input" base
  | .hang => fail "hang" base
  | .other s => bad s!"unparsable observation {s}"

def handle (line : String) : String :=
  let (inp, obs) := splitCase line
  match parseCase (tokens inp) with
  | some c => (handleCase c obs).render
  | none => (bad "unparsable input").render

end Biogo.Drive.C08_aff
