/-
Driver for C11 (sequential external sort, every usage history).

Input      `h <chunkSize> <autoClear 0|1> <i|s> <op>*`   with ops  p<key>[:<tag>]  f  l  c
Observation one token per op  `<res>/<val>/<len>/<pos>`, res ∈ ok eof fin panic err:<hex>,
            val = `-` or `<key>:<tag>` (the value a successful Pull delivered).

(1) runs the model `Biogo.Morass.run` on the history, (2) for a well-formed history evaluates
the statement of C11 (`checkHistory`) on the implementation's outputs, (3) compares model and
implementation at the level of the observation: result kinds, pulled *keys*, Len, Pos.
-/
import Biogo.Go.Wire
import Biogo.Model.Morass
import Biogo.Spec.Morass

namespace Biogo.Drive.C11
open Biogo.Wire Biogo.Morass

def parseElem (s : String) : Option Elem :=
  match s.splitOn ":" with
  | [k] => (parseInt k).map (⟨·, 0⟩)
  | [k, t] =>
    match parseInt k, parseNat t with
    | some k, some t => some ⟨k, t⟩
    | _, _ => none
  | _ => none

def parseOp (s : String) : Option Op :=
  match s.toList with
  | ['f'] => some .finalise
  | ['l'] => some .pull
  | ['c'] => some .clear
  | ['x'] => some .reject
  | 'p' :: r => (parseElem (String.ofList r)).map .push
  | _ => none

def parseRes (s : String) : Option Res :=
  if s == "ok" then some .ok else if s == "eof" then some .eof
  else if s == "fin" then some .finalised else if s == "panic" then some .panic
  else if s == "hang" then some .hang else if s == "rej" then some .rejected else none

def showRes : Res → String
  | .ok => "ok" | .eof => "eof" | .finalised => "fin" | .panic => "panic" | .hang => "hang" | .ioerr => "err"
  | .rejected => "rej"

/-- one implementation token; an unknown result kind (an I/O error) gives `none` -/
def parseOut (s : String) : Option Out :=
  match s.splitOn "/" with
  | [r, v, l, p] =>
    match parseRes r, parseNat l, parseNat p with
    | some r, some l, some p =>
      if v == "-" then some ⟨r, none, l, p⟩
      else (parseElem v).map fun e => ⟨r, some e, l, p⟩
    | _, _, _ => none
  | _ => none

def showKOut (o : KOut) : String :=
  match o.res with
  | .panic => "panic"
  | .hang => "hang"
  | r => s!"{showRes r}/{match o.key with | some k => toString k | none => "-"}/{o.len}/{o.pos}"

def nondecreasing : List Int → Bool
  | a :: b :: r => decide (a ≤ b) && nondecreasing (b :: r)
  | _ => true

/-- The statement of C11 for one cycle, evaluated on that cycle's outputs. -/
def checkCycle (ac : Bool) (cy : Cycle) (outs : List Out) : Option String :=
  let n := cy.pushes.length
  let pushOuts := outs.take n
  let pullOuts := (outs.drop (n + 1)).take cy.pulls
  let vals := pullOuts.filterMap (·.val)
  if pushOuts ≠ (List.range n).map (fun i => (⟨.ok, none, i + 1, i + 1⟩ : Out)) then
    some "push-result-or-len-pos"
  else if outs[n]? ≠ some ⟨.ok, none, n, 0⟩ then some "finalise-result-or-len-pos"
  else if !nondecreasing (vals.map (·.key)) then some "pulls-not-nondecreasing"
  else if (pullOuts.take n).any (fun o => o.res == .eof) then some "eof-before-all-values-pulled"
  else if (pullOuts.take n).any (fun o => o.res != .ok || o.val.isNone) then some "pull-fails-before-drained"
  else if n ≤ cy.pulls && !(vals.isPerm cy.pushes) then some "drained-multiset-differs"
  else if (vals.foldl List.erase cy.pushes).length + vals.length ≠ n then some "pulled-value-never-pushed"
  else if vals.map (·.key) ≠ (sortKeys (cy.pushes.map (·.key))).take vals.length then
    some "partial-drain-not-the-smallest"
  else if (pullOuts.drop n).any (fun o => o.res != .eof || o.val.isSome) then some "no-eof-after-drain"
  else if (List.range cy.pulls).any (fun j =>
      match pullOuts[j]? with
      | some o => if j < n then o.len != n || o.pos != j + 1
                  else o.len != (if ac then 0 else n) || o.pos != (if ac then 0 else n)
      | none => true) then some "len-pos-during-pulls"
  else if cy.clear && outs[n + 1 + cy.pulls]? ≠ some ⟨.ok, none, 0, 0⟩ then some "clear-result-or-len-pos"
  else none

def cycleOpCount (cy : Cycle) : Nat := cy.pushes.length + 1 + cy.pulls + (if cy.clear then 1 else 0)

/-- The statement of C11 for a well-formed history, on the outputs of all its calls. -/
def checkHistory (ac : Bool) : List Cycle → Nat → List Out → Option String
  | [], _, _ => none
  | cy :: rest, i, outs =>
    match checkCycle ac cy (outs.take (cycleOpCount cy)) with
    | some why => some s!"cycle{i}:{why}"
    | none => checkHistory ac rest (i + 1) (outs.drop (cycleOpCount cy))

/-- The executable statement of C11 (also evaluated by the drivers of C12 and C13) on the outputs
    of a program that is the well-formed history `h`: every call returned (one output per call)
    and `checkHistory` accepts them.  `none` = the statement holds.  Proved sound with respect to
    `HistorySpec` in `Properties/C11_checker.lean`. -/
def historyStatement (ac : Bool) (h : List Cycle) (ops : List Op) (outs : List Out) : Option String :=
  if outs.length ≠ ops.length then some "history-did-not-complete" else checkHistory ac h 1 outs

/-- The statement about rejected pushes, on the outputs of a program: every `Push` of a value of
    another type returned the type-mismatch error, delivered nothing and left `Len`/`Pos` as the
    previous call had left them (`l`, `p`), and no other call returned that error.  `none` = holds. -/
def rejectsStatement : List Op → List Out → Nat → Nat → Option String
  | [], _, _, _ => none
  | _ :: _, [], _, _ => none
  | .reject :: ops, o :: outs, l, p =>
    if o = ⟨.rejected, none, l, p⟩ then rejectsStatement ops outs l p
    else some "rejected-push-changed-the-sorter-or-did-not-return-its-error"
  | _ :: ops, o :: outs, _, _ =>
    if o.res = .rejected then some "type-mismatch-returned-by-an-accepted-call"
    else rejectsStatement ops outs o.len o.pos

/-- The executable statement for a program with rejected pushes whose accepted calls are the
    well-formed history `h`: every call returned, the rejected pushes are no-ops
    (`rejectsStatement`), and the outputs of the accepted calls satisfy `historyStatement`.
    Without rejected pushes this is `historyStatement`.  Proved sound in
    `Properties/C11_checker.lean` (`programStatement_sound`). -/
def programStatement (ac : Bool) (h : List Cycle) (ops : List Op) (outs : List Out) : Option String :=
  if outs.length ≠ ops.length then some "history-did-not-complete" else
  match rejectsStatement ops outs 0 0 with
  | some why => some why
  | none => historyStatement ac h (dropRejects ops) (dropRejOuts outs)

/-! ### cycles abandoned with `Clear` (fourth wave, seeded change C13-m7)

A cycle may be given up before `Finalise`: some pushes (enough to spill or not), then `Clear`.
The pushed values are discarded and the sorter is empty again; the cycles that follow are use
cycles like any other ("whatever earlier cycles did").  A *segment* is a use cycle or such an
abandoned cycle (`dropped`: zero or more pushes, then `Clear`, no `Finalise`). -/

inductive Seg where
  | cyc (cy : Cycle)
  | dropped (pushes : List Elem)
deriving DecidableEq, Repr

def Seg.ops : Seg → List Op
  | .cyc cy => cy.ops
  | .dropped es => es.map Op.push ++ [Op.clear]

def Seg.closed (ac : Bool) : Seg → Bool
  | .cyc cy => cy.closed ac
  | .dropped _ => true

def wellFormedSegs (ac : Bool) : List Seg → Bool
  | [] => true
  | [_] => true
  | sg :: rest => sg.closed ac && wellFormedSegs ac rest

def groupSegs : Nat → List Op → Option (List Seg)
  | _, [] => some []
  | 0, _ => none
  | fuel + 1, ops =>
    let (es, r1) := splitPushes ops
    match r1 with
    | .finalise :: r2 =>
      let (k, r3) := splitPulls r2
      match r3 with
      | .clear :: r4 => (groupSegs fuel r4).map (Seg.cyc ⟨es, k, true⟩ :: ·)
      | r4 => (groupSegs fuel r4).map (Seg.cyc ⟨es, k, false⟩ :: ·)
    | .clear :: r2 => (groupSegs fuel r2).map (Seg.dropped es :: ·)
    | _ => none

/-- the segments of a flat operation list (no rejected pushes), when every segment but the last
    leaves the sorter ready for the next one -/
def segsOf (ac : Bool) (ops : List Op) : Option (List Seg) :=
  match groupSegs (ops.length + 1) ops with
  | some sg => if sg.flatMap Seg.ops = ops ∧ wellFormedSegs ac sg then some sg else none
  | none => none

/-- the use cycles among the segments -/
def cyclesOf : List Seg → List Cycle
  | [] => []
  | .cyc cy :: r => cy :: cyclesOf r
  | .dropped _ :: r => cyclesOf r

def hasDropped (sg : List Seg) : Bool := sg.any (fun s => match s with | .dropped _ => true | _ => false)

/-- The statement for an abandoned cycle on its outputs: every `Push` succeeds with `Len` = `Pos` =
    the number of values pushed so far in the cycle, and `Clear` succeeds and leaves `Len` = `Pos` = 0. -/
def checkDropped (n : Nat) (outs : List Out) : Option String :=
  if outs.take n ≠ (List.range n).map (fun i => (⟨.ok, none, i + 1, i + 1⟩ : Out)) then
    some "push-result-or-len-pos"
  else if outs[n]? ≠ some ⟨.ok, none, 0, 0⟩ then some "clear-result-or-len-pos"
  else none

/-- `checkHistory` for segments: every use cycle satisfies `checkCycle` (its pulls are the sorted
    multiset of *its* pushes - nothing of an abandoned cycle is delivered), every abandoned cycle
    `checkDropped`.  Without abandoned cycles this is `checkHistory` (`checkSegs_cycles`). -/
def checkSegs (ac : Bool) : List Seg → Nat → List Out → Option String
  | [], _, _ => none
  | .cyc cy :: rest, i, outs =>
    match checkCycle ac cy (outs.take (cycleOpCount cy)) with
    | some why => some s!"cycle{i}:{why}"
    | none => checkSegs ac rest (i + 1) (outs.drop (cycleOpCount cy))
  | .dropped es :: rest, i, outs =>
    match checkDropped es.length (outs.take (es.length + 1)) with
    | some why => some s!"abandoned-cycle{i}:{why}"
    | none => checkSegs ac rest (i + 1) (outs.drop (es.length + 1))

/-- `programStatement` for a program whose accepted calls are the segments `sg`. -/
def programStatementA (ac : Bool) (sg : List Seg) (ops : List Op) (outs : List Out) : Option String :=
  if outs.length ≠ ops.length then some "history-did-not-complete" else
  match rejectsStatement ops outs 0 0 with
  | some why => some why
  | none =>
    if (dropRejOuts outs).length ≠ (dropRejects ops).length then some "history-did-not-complete"
    else checkSegs ac sg 1 (dropRejOuts outs)

def stripTag (tok : String) : String :=
  match tok.splitOn "/" with
  | [r, v, l, p] =>
    if r == "panic" || r == "hang" then r
    else s!"{r}/{(v.splitOn ":").headD "-"}/{l}/{p}"
  | _ => tok

def handleTokens (inp : List String) (obs : String) : Verdict :=
  match inp with
  | "h" :: c :: ac :: ty :: opToks =>
    match parseNat c, parseBool ac, opToks.mapM parseOp with
    | some c, some ac, some ops =>
      let (_, mouts) := run (init c ac) ops
      let m := " ".intercalate (mouts.map (fun o => showKOut o.keyed))
      let implToks := tokens obs
      let impl := " ".intercalate (implToks.map stripTag)
      let base := [if ac then "autoclear" else "noautoclear", if ty == "s" then "struct" else "int"]
      let rejects := ops.any (· == Op.reject)
      match historyOf ac (dropRejects ops) with
      | some h =>
        let disk := h.map (fun cy => decide (c ≤ cy.pushes.length))
        let memThenDisk := (disk.zip (disk.drop 1)).any (fun p => !p.1 && p.2)
        let partial_ := h.any (fun cy => decide (cy.pulls < cy.pushes.length))
        let dup := h.any (fun cy => !(cy.pushes.map (·.key)).Nodup)
        let tags := base ++ [s!"cycles{min h.length 6}"]
          ++ (if disk.any id then ["disk"] else []) ++ (if disk.any (!·) then ["mem"] else [])
          ++ (if memThenDisk then ["mem-then-disk"] else []) ++ (if partial_ then ["partial-drain"] else [])
          ++ (if dup then ["dup-keys"] else []) ++ (if rejects then ["rejected-push"] else [])
          ++ (if disk.any id || h.length ≥ 2 then ["nt"] else [])
        if c = 0 then (if m == impl then ok tags else diff m tags) else
        match implToks.mapM parseOut with
        | none => fail "call-returned-unexpected-error-or-died" tags
        | some outs =>
          match programStatement ac h ops outs with
          | some why => fail why tags
          | none => if m == impl then ok tags else diff m tags
      | none =>
        match segsOf ac (dropRejects ops) with
        | some sg =>
          -- cycles abandoned with Clear before Finalise among the use cycles
          let spilled := sg.any (fun s => match s with | .dropped es => decide (c < es.length) | _ => false)
          let tags := base ++ ["abandoned-cycle", "nt"] ++ (if spilled then ["abandoned-after-spilling"] else [])
            ++ (if rejects then ["rejected-push"] else [])
          if c = 0 then (if m == impl then ok tags else diff m tags) else
          match implToks.mapM parseOut with
          | none => fail "call-returned-unexpected-error-or-died" tags
          | some outs =>
            match programStatementA ac sg ops outs with
            | some why => fail why tags
            | none => if m == impl then ok tags else diff m tags
        | none =>
          let tags := base ++ ["illformed"]
          if m == impl then ok tags else diff m tags
    | _, _, _ => bad "h"
  | _ => bad "unknown-op"

def ops : List String := ["h"]

def handle (line : String) : String :=
  let (inp, obs) := splitCase line
  (handleTokens (tokens inp) obs).render

end Biogo.Drive.C11
