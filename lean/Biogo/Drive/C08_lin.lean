/-
Driver for C08, part `lin` (NW, SW, Fitted).  For a case line it
 1. runs the model (`Biogo.AlignLin.align`) on the input;
 2. evaluates C08's statement on the implementation's own pairs: they describe an alignment
    of the aligner's class (`wellFormed`), whose recomputed score is the reported total
    (`pairScoresOk`), and the total equals the optimum — `nwScore`, `swScore`,
    `fitScoreAt … (endRef pairs)` of the model's table, proved optimal in
    `Properties/C08_lin.lean` (no path comparison: any optimal alignment is accepted);
    Fitted must also consume the whole query;
 3. answers ok / diff / fail.
The statement is only demanded under C08's hypotheses (legal input, both sequences
non-empty, gap scores ≤ 0); other inputs are compared with the model only.  Core-only.
-/
import Biogo.Drive.AlignLinWire

namespace Biogo.Drive.C08_lin
open Biogo.Wire Biogo.AlignLin Biogo.Spec.AlignPairs Biogo.Spec.Alignment Biogo.Drive.AlignLinWire

/-- C08's statement on the implementation's pairs; `none` = holds -/
def statement (c : Case) (ps : List Pair) : Option String :=
  let S := c.S
  let r := c.ri
  let q := c.qi
  if !wellFormed c.cls r.length q.length ps then some "not-an-alignment-of-the-class"
  else if !pairScoresOk S r q ps then some "total-is-not-the-score-of-the-described-alignment"
  else
    let t := total ps
    match c.al with
    | .nw =>
      let opt := nwScore S r q
      if t ≠ opt then some s!"nw-total={t}-optimum={opt}" else none
    | .sw =>
      let opt := swScore S r q
      if t ≠ opt then some s!"sw-total={t}-optimum={opt}" else none
    | .fit =>
      if !consumesQuery q.length ps then
        -- recognisers of the two root causes of K2 (both repaired by the `fix:` commit that
        -- emits the leading query block; they fire again if that repair is reverted)
        let qLast := q.getD (q.length - 1) 0
        if ps == [⟨0, 0, q.length, q.length, 0⟩] ∧ r.all (fun a => decide (S a qLast < 0)) then
          some "known:K2a no-reference-letter-scores>=0-against-the-last-query-letter;result-empty"
        else match span ps with
          | some (0, j, e, e2) =>
            if j > 0 ∧ e2 = q.length ∧ t = fitScoreAt S r q e - (fitTable S r q).getD j 0 then
              some s!"known:K2b path-reached-reference-start-with-{j}-query-letters-left;leading-block-not-reported"
            else some "fitted-does-not-consume-the-query"
          | _ => some "fitted-does-not-consume-the-query"
      else
        let e := endRef ps
        let opt := fitScoreAt S r q e
        if t ≠ opt then some s!"fitted-total={t}-optimum-at-end-{e}={opt}" else none

def handleTokens (inp : List String) (obs : String) : Verdict :=
  match parseCase inp with
  | none => bad "unparsable-input"
  | some c =>
    if c.mode != "LL" then
      -- ill-typed modes belong to C09; here only model = implementation
      let m := showRes (align c.al (c.call false))
      if m == normObs obs then ok [opTag c, "mode-" ++ c.mode] else diff m [opTag c, "mode-" ++ c.mode]
    else
      let mres := align c.al (c.call false)
      let m := modelObsLL c mres
      let agree := m == normObs obs
      let base := [opTag c, shapeTag c, "r-" ++ lenTag c.r.length, "q-" ++ lenTag c.q.length,
                   if c.alpha.length ≤ 4 then "small-alphabet" else if c.alpha.length ≤ 5 then "dna" else "protein"]
      match mres with
      | .ok mps =>
        let inScope := !c.r.isEmpty && !c.q.isEmpty && gapsNonPos c
        let tags := base ++ contentTags c ++ (if inScope then ["nt"] else ["outside-hypotheses"]) ++
          (if total mps == 0 then ["optimum-zero"] else if total mps > 0 then ["optimum-positive"] else ["optimum-negative"]) ++
          (if mps.length ≥ 3 then ["gapped-path"] else []) ++
          (if c.al == .fit && endRef mps == 0 then ["fit-no-admissible-end"] else [])
        if !inScope then (if agree then ok tags else diff m tags)
        else
          match (tokens obs).head? with
          | none => bad "empty-observation"
          | some resL =>
            match parseOkPairs resL with
            | none => fail s!"no-alignment-returned-on-legal-input:{normPanic resL}" tags
            | some ps =>
              -- the QLetters variant's result ("plain and quality letters"): `=` when identical
              let stQ : Option String :=
                match (tokens obs)[1]? with
                | some resQ =>
                  if resQ == "=" then none
                  else match parseOkPairs resQ with
                    | some psQ => (statement c psQ).map (· ++ "-(qletters)")
                    | none => some s!"no-alignment-returned-on-legal-input-(qletters):{normPanic resQ}"
                | none => some "unparsable-observation"
              match (statement c ps).orElse (fun _ => stQ) with
              | some why =>
                if why.startsWith "known:K2a" then known "K2a" why tags
                else if why.startsWith "known:K2b" then known "K2b" why tags
                else fail why tags
              | none => if agree then ok tags else diff m tags
      | _ =>
        -- illegal input or a model panic: outside C08
        if agree then ok (base ++ ["not-legal"]) else diff m (base ++ ["not-legal"])

def ops : List String := ["nw", "sw", "fit"]

def handle (line : String) : String :=
  let (inp, obs) := splitCase line
  (handleTokens (tokens inp) obs).render

end Biogo.Drive.C08_lin
