/-
Driver for C15.  One case = one PALS workload
  `pw <self> <minLen> <minIdMilli> <maxMemMB> <plants> <target> <query|->\t<observation>`
(or `pt <minLen> <minIdMilli> <plants> <traps> <target> <query>`: the aligner run on a given
trapezoid list through `AlignFrom`, same statement).
What runs here is the executable statement of the property on the implementation's hits, and the
model of `AlignTraps` (`Biogo.PalsKernel.alignTraps`: kernel, acceptance test, suppression) on the
trapezoids the implementation's aligner was given, compared hit by hit:

 per hit   inside both sequences; both lengths ≥ minLen; reported Error ≤ 1 − minId;
           Score ≤ `globalScore (palsS SameCost DiffCost)` of the two hit regions (the proved
           oracle, `Biogo.Properties.C15.palsGlobal_opt`); DiffCost·editDist(regions) ≤
           RMatchCost·|B|·Error (the "edit distance is bounded by the reported error" clause,
           evaluated directly with the proved edit-distance oracle); the consequences of the
           kernel contract (`Spec.PalsKernel.consistent`: 0 ≤ Score ≤ min(lengths) − DiffCost·indel,
           alen + blen − 2·Score = 7g + 8x with g ≥ indel of the same parity, both ends of the hit
           on diagonals within [LowDiagonal, HighDiagonal]);
 model     the acceptance function `accept` of the model holds for the hit and the reported
           Error is `errNum/(RMatchCost·blen)` (disagreement → `diff`);
 strand    no two hits share a start point, no two an end point (`alignTraps_sound`);
 workload  every planted pair is recovered by one hit on the right strand that overlaps more
           than half of each copy; no trivial self match in self comparison; the filter
           parameters chosen by Optimise have a positive q-gram threshold and TubeOffset ≥ MaxError.
Core-only.
-/
import Biogo.Go.Wire
import Biogo.Model.PalsOracle
import Biogo.Model.PalsOptimise
import Biogo.Spec.PalsKernel
import Biogo.Spec.Filter
import Biogo.Model.PalsKernel
import Biogo.Generated.PalsConsts

namespace Biogo.Drive.C15
open Biogo.Wire Biogo.PalsOracle Biogo.PalsOptimise
open Biogo.Generated.Pals (SameCost DiffCost RMatchCost MaxIGap MatchCost BlockCost)
open Biogo.PalsMerge (Trap)

def lettersOf (s : String) : Array Nat := (s.toList.map Char.toNat).toArray

def compLetter (c : Nat) : Nat :=
  if c = 97 then 116 else if c = 116 then 97 else if c = 99 then 103 else if c = 103 then 99
  else if c = 65 then 84 else if c = 84 then 65 else if c = 67 then 71 else if c = 71 then 67 else c

def revComp (a : Array Nat) : Array Nat := (a.toList.reverse.map compLetter).toArray

structure Plant where
  aPos : Nat
  aLen : Nat
  bPos : Nat
  bLen : Nat
  comp : Bool
  /-- 0: the calibrated class of the first wave (recall always demanded); 1: the boundary class
      (recall demanded exactly when the pair is guaranteed to be seeded, `guaranteedSeeded`) -/
  cls : Nat := 0

def parsePlant (s : String) : Option Plant :=
  match (s.splitOn ":").mapM parseNat with
  | some [a, al, b, bl, c] => some ⟨a, al, b, bl, c == 1, 0⟩
  | some [a, al, b, bl, c, k] => some ⟨a, al, b, bl, c == 1, k⟩
  | _ => none

def parsePlants (s : String) : Option (List Plant) :=
  if s == "-" then some [] else (s.splitOn ";").mapM parsePlant

structure HitObs where
  strand : Nat
  h : Hit
  e12 : Option Int
  lowDiag : Int
  highDiag : Int

def parseHit (s : String) : Option HitObs :=
  match s.splitOn ":" with
  | [st, ab, ae, bb, be, sc, e, lo, hi] =>
    match parseNat st, parseInt ab, parseInt ae, parseInt bb, parseInt be, parseInt sc, parseInt lo, parseInt hi with
    | some st, some ab, some ae, some bb, some be, some sc, some lo, some hi =>
      some ⟨st, { abpos := ab, bbpos := bb, aepos := ae, bepos := be, score := sc }, parseInt e, lo, hi⟩
    | _, _, _, _, _, _, _, _ => none
  | _ => none

def parseHits (s : String) : Option (List HitObs) :=
  if s == "-" then some [] else (s.splitOn ";").mapM parseHit

def showHit (o : HitObs) : String :=
  s!"{o.strand}:{o.h.abpos}:{o.h.aepos}:{o.h.bbpos}:{o.h.bepos}:{o.h.score}"

def tenTo12 : Int := 1000000000000

/-- overlap of `[s,e)` with `[p, p+l)` -/
def overlap (s e : Int) (p l : Nat) : Int :=
  let lo := max s (p : Int)
  let hi := min e ((p + l : Nat) : Int)
  if hi > lo then hi - lo else 0

/-- checks of one hit against the oracle; `none` = fine -/
def hitWhy (minLen minIdMilli : Int) (target working : Array Nat) (o : HitObs) : Option String :=
  let h := o.h
  if !(0 ≤ h.abpos && h.abpos ≤ h.aepos && h.aepos ≤ target.size &&
       0 ≤ h.bbpos && h.bbpos ≤ h.bepos && h.bepos ≤ working.size) then
    some s!"hit-outside-sequences {showHit o}"
  else if !(h.alen ≥ minLen && h.blen ≥ minLen) then
    some s!"hit-shorter-than-minimum {showHit o}"
  else match o.e12 with
    | none => some s!"reported-error-not-a-number {showHit o}"
    | some e12 =>
      if e12 > (1000 - minIdMilli) * 1000000000 + 1 then
        some s!"reported-error-above-1-minus-minId {showHit o} e12={e12}"
      else
        let a := (target.extract h.abpos.toNat h.aepos.toNat).toList
        let b := (working.extract h.bbpos.toNat h.bepos.toNat).toList
        let opt := globalScore (palsS SameCost DiffCost) a b
        if h.score > opt then
          some s!"score-exceeds-optimal-global-score {showHit o} optimal={opt}"
        else
          let d : Int := editDist a b
          if DiffCost * d * tenTo12 > RMatchCost * h.blen * (e12 + 1) then
            some s!"edit-distance-not-bounded-by-reported-error {showHit o} edit={d} e12={e12}"
          else if !Biogo.Spec.PalsKernel.consistent SameCost DiffCost ⟨h, o.lowDiag, o.highDiag⟩ then
            -- consequences of the kernel contract (`Properties/C15_kernel.lean`)
            some s!"kernel-contract-inconsistent {showHit o} diagonals={o.lowDiag}..{o.highDiag}"
          else none

/-- the model's acceptance decision and error formula for a reported hit; `none` = agrees -/
def modelWhy (minLen minIdMilli : Int) (o : HitObs) : Option String :=
  let h := o.h
  if !accept minLen RMatchCost (1000 - minIdMilli) 1000 h then
    some s!"model-accept-false {showHit o}"
  else match o.e12 with
    | none => none
    | some e12 =>
      let den := RMatchCost * h.blen
      if den ≤ 0 then some "blen" else
      -- |e12 - errNum*1e12/den| ≤ 2
      let lhs := e12 * den - h.errNum * tenTo12
      if lhs > 2 * den || lhs < -2 * den then some s!"model-error-formula {showHit o} e12={e12} errNum={h.errNum}"
      else none

/-- do `a[ai …]` and `b[bi …]`, `len` columns along one diagonal, contain a window of `n` columns
    with at most `e` mismatches? -/
def windowOn (a b : Array Nat) (n e ai bi len : Nat) : Bool :=
  if len < n then false
  else
    let pm := Biogo.Spec.Filter.prefixLoop a b len ai bi 0 #[0]
    !(Biogo.Spec.Filter.windowsLoop pm n e (len + 1 - n) 0 []).isEmpty

/-- **the guaranteed class**: the two copies of the planted pair (copy B taken in the sequence the
    strand's `Align` works on) contain an ε-match of the filter parameters `Optimise` chose —
    `n = MinMatch` columns on one diagonal (shifted by at most 12 against the copies' starts) with
    at most `e = MaxError` substitutions, inside both copies.  By `filter_complete`,
    `merger_covers_hits` and `seed_prescreen_passes` (`epsmatch_inside_trapezoid`,
    `Properties/C15_chain.lean`) such a pair lies in a trapezoid at least `k` high, which
    `AlignTraps` hands to the kernel. -/
def guaranteedSeeded (target working : Array Nat) (n e : Nat) (aPos aLen bPos bLen : Nat) : Bool :=
  (List.range 25).any fun s =>
    -- diagonal shift s - 12: copy A from offset max(0, 12 - s)… against copy B from max(0, s - 12)…
    let da := 12 - s
    let db := s - 12
    if da ≥ aLen || db ≥ bLen then false
    else
      let len := min (aLen - da) (bLen - db)
      aPos + da + len ≤ target.size && bPos + db + len ≤ working.size &&
      windowOn target working n e (aPos + da) (bPos + db) len

/-- is recall of this planted pair demanded?  Class 0: always.  Class 1: exactly when the pair is
    guaranteed to be seeded (in a self comparison: in either mirror image). -/
def demanded (self : Bool) (target query working1 : Array Nat) (n e : Nat) (p : Plant) : Bool :=
  if p.cls == 0 then true
  else
    let qLen := query.size
    if p.comp then
      guaranteedSeeded target working1 n e p.aPos p.aLen (qLen - (p.bPos + p.bLen)) p.bLen ||
      (self && guaranteedSeeded target working1 n e p.bPos p.bLen (qLen - (p.aPos + p.aLen)) p.aLen)
    else
      guaranteedSeeded target query n e p.aPos p.aLen p.bPos p.bLen ||
      (self && guaranteedSeeded target query n e p.bPos p.bLen p.aPos p.aLen)

/-- is the planted pair recovered by this hit?  B coordinates of strand-1 hits are mapped back
    to the query's own coordinates.  In a self comparison only one of the two mirror images
    of a pair is searched, so the roles of the copies may be exchanged. -/
def recovers (self : Bool) (qLen : Nat) (p : Plant) (o : HitObs) : Bool :=
  let h := o.h
  let (qs, qe) := if o.strand == 1 then ((qLen : Int) - h.bepos, (qLen : Int) - h.bbpos) else (h.bbpos, h.bepos)
  let strandOK := (o.strand == 1) == p.comp
  let direct := 2 * overlap h.abpos h.aepos p.aPos p.aLen > p.aLen && 2 * overlap qs qe p.bPos p.bLen > p.bLen
  let mirror := self && 2 * overlap h.abpos h.aepos p.bPos p.bLen > p.bLen && 2 * overlap qs qe p.aPos p.aLen > p.aLen
  strandOK && (direct || mirror)

/-! ### the kernel model run on the trapezoids the implementation's aligner was given -/

def parseTrap (s : String) : Option Trap :=
  match (s.splitOn ":").mapM parseInt with
  | some [t, b, l, r] => some ⟨t, b, l, r⟩
  | _ => none

def parseTraps (s : String) : Option (List Trap) :=
  if s == "-" then some [] else (s.splitOn ";").mapM parseTrap

def kernelCosts : Biogo.PalsKernel.Costs := Biogo.Spec.PalsKernel.palsCosts

/-- strict lexicographic order on the coordinates and the score (`hitLe` without equality) -/
def hitLt (a b : Hit) : Bool :=
  if a.abpos ≠ b.abpos then a.abpos < b.abpos
  else if a.bbpos ≠ b.bbpos then a.bbpos < b.bbpos
  else if a.aepos ≠ b.aepos then a.aepos < b.aepos
  else if a.bepos ≠ b.bepos then a.bepos < b.bepos
  else a.score < b.score

def hitLe (a b : Hit) : Bool :=
  if a.abpos ≠ b.abpos then a.abpos < b.abpos
  else if a.bbpos ≠ b.bbpos then a.bbpos < b.bbpos
  else if a.aepos ≠ b.aepos then a.aepos < b.aepos
  else if a.bepos ≠ b.bepos then a.bepos < b.bepos
  else a.score ≤ b.score

/-- `AlignTraps` of the model (kernel, then suppression with merge sorts on both coordinates) and `dropSelfMatches`:
    the emitted hits and the returned ones -/
def modelAlign (target working : Array Nat) (traps : List Trap) (k minLen minIdMilli : Int) (dropSelf : Bool)
    (split : Bool := false) : List Biogo.PalsKernel.KHit × List Hit :=
  let em := Biogo.PalsKernel.emittedWith split kernelCosts ⟨target, working⟩ traps k minLen (1000 - minIdMilli) 1000
  -- for `split = false` this is `Biogo.PalsKernel.alignTraps` (`alignTraps_sound`)
  let kept := Biogo.PalsKernel.suppressed em
  let kept := if dropSelf then kept.filter (fun h => !(h.abpos == h.bbpos && h.aepos == h.bepos)) else kept
  (em, kept)

/-- model against implementation for one strand; `none` = the same hits (coordinates, score,
    diagonals, error numerator) -/
def kernelWhy (strand : Nat) (target working : Array Nat) (traps : List Trap) (k minLen minIdMilli : Int)
    (dropSelf : Bool) (impl : List HitObs) : Option String :=
  let (em, kept) := modelAlign target working traps k minLen minIdMilli dropSelf
  let a := (impl.map (·.h)).mergeSort hitLe
  let b := kept.mergeSort hitLe
  if a != b then
    some s!"kernel-model strand={strand} hits={";".intercalate (b.map fun h => s!"{h.abpos}:{h.aepos}:{h.bbpos}:{h.bepos}:{h.score}")}"
  else
    match impl.find? (fun o => !em.any (fun m => m.h == o.h && m.lowDiagonal == o.lowDiag && m.highDiagonal == o.highDiag)) with
    | some o => some s!"kernel-model-diagonals {showHit o} {o.lowDiag}..{o.highDiag}"
    | none => none

/-- rows × columns the kernel has to fill at most once per trapezoid, a bound on the model's work.
    The comparison is skipped above 2·10⁹ (two 20 kb sequences merged into one trapezoid per strand are
    8·10⁸: every workload of the generator is compared; the model needs about 0.6 s for 10⁸). -/
def trapWork (traps : List Trap) : Int :=
  traps.foldl (fun acc t => acc + (t.top - t.bottom + 1) * (t.right - t.left + 1 + 40)) 0

/-- Structural part of the recogniser of known finding **K6** (one alignment per row range inside a
    trapezoid).  `alignRecursion` splits a trapezoid only by rows: after the alignment through its
    middle row it recurses into the rows above and below, so a second repeat whose query rows
    overlap those of a reported alignment *in the same trapezoid* (another diagonal of a very wide
    trapezoid — the short-seed regime, where the filter threshold is 1 and everything merges) is
    never aligned.  A missed planted pair has the shape of K6 when, in one of its orientations, an
    implementation trapezoid of that strand contains its diagonal and overlaps its query rows, and
    a reported hit of that strand that does not recover it lies in the same trapezoid on
    overlapping query rows. -/
def k6Shape (self : Bool) (qLen : Nat) (traps : List Trap) (hits : List HitObs) (p : Plant) : Bool :=
  let strand : Nat := if p.comp then 1 else 0
  let hs := hits.filter fun o => o.strand == strand && !recovers self qLen p o
  let bsD : Int := if p.comp then (qLen : Int) - (p.bPos + p.bLen : Nat) else p.bPos
  let bsM : Int := if p.comp then (qLen : Int) - (p.aPos + p.aLen : Nat) else p.aPos
  let orients : List (Int × Int × Int) :=
    [((p.aPos : Int), bsD, bsD + p.bLen)] ++ (if self then [((p.bPos : Int), bsM, bsM + p.aLen)] else [])
  orients.any fun (tA, bs, be) =>
    let d := bs - tA
    traps.any fun t =>
      decide (t.left - 12 ≤ d) && decide (d ≤ t.right + 12) && decide (t.bottom ≤ be) && decide (bs ≤ t.top) &&
      hs.any fun o =>
        let hd := o.h.bbpos - o.h.abpos
        decide (t.left - 12 ≤ hd) && decide (hd ≤ t.right + 12) &&
        decide (t.bottom ≤ o.h.bepos) && decide (o.h.bbpos ≤ t.top) &&
        decide (o.h.bbpos < be) && decide (bs < o.h.bepos)

/-- **Recogniser of K6**, specific to the root cause.  A missed planted pair is K6 when
    (1) it has the shape above (`k6Shape`);
    (2) the kernel model with the recursion of the source (`emittedWith false`, the model the
        correspondence compares hit by hit with the implementation), run on the trapezoids the
        implementation's aligner was given, misses the pair as well — so the miss is what the
        row-wise recursion does on these trapezoids, not a departure of the implementation from it;
    (3) the same model with the one change "also recurse into the diagonals left and right of the
        band of a found alignment" (`emittedWith true`), everything else equal — same trapezoids,
        same traces, same acceptance test, same suppression — recovers it.
    Any other recall failure (pair not in a trapezoid, kernel losing an alignment the model finds,
    a pair the diagonal split does not bring back) stays `fail`.  The model is run here whatever the
    work bound of the correspondence (only on workloads with a missed demanded pair). -/
def isK6 (self : Bool) (qLen : Nat) (target working : Array Nat) (traps : List Trap) (k minLen minIdMilli : Int)
    (hits : List HitObs) (p : Plant) : Bool :=
  let strand : Nat := if p.comp then 1 else 0
  k6Shape self qLen traps hits p &&
    let dropSelf := self && !p.comp
    let asObs := fun (h : Hit) => ({ strand := strand, h := h, e12 := none, lowDiag := 0, highDiag := 0 } : HitObs)
    let rowWise := (modelAlign target working traps k minLen minIdMilli dropSelf false).2
    !rowWise.any (fun h => recovers self qLen p (asObs h)) &&
      (modelAlign target working traps k minLen minIdMilli dropSelf true).2.any (fun h => recovers self qLen p (asObs h))

def handleCase (self : Bool) (minLen minIdMilli maxMemMB : Int) (plants : List Plant) (target query : Array Nat)
    (obs : String) (givenTraps : Option (List Trap) := none) : Verdict :=
  let baseTags := [if self then "self" else "non-self"] ++
    (if plants.isEmpty then ["no-plant"] else []) ++
    (if plants.any (·.comp) then ["plant-revcomp"] else []) ++
    (if plants.any (!·.comp) then ["plant-forward"] else []) ++
    (if plants.any (fun p => p.aLen ≠ p.bLen) then ["plant-indel"] else [])
  let optIn (w d : Int) : OptIn :=
    { tlen := target.size, qlen := if self then 0 else query.size, minHitLen := minLen, seedDiffs0 := d,
      minWordSize := w, tubeOffsetArg := 0, maxMem := if maxMemMB > 0 then some (maxMemMB * 1048576) else none }
  if obs.startsWith "err:optimise" then
    -- Optimise found no parameters: the model must agree
    match tokens obs with
    | [_, o] =>
      match parseInts (o.drop 2).toString with
      | some [w, d] =>
        match optimise (optIn w d) with
        | none => { status := "ok", tags := baseTags ++ ["optimise-rejects"] }
        | some p => diff s!"optimise-model-accepts k={p.wordSize} n={p.minMatch} e={p.maxError}" (baseTags ++ ["optimise-rejects"])
      | _ => bad "observation"
    | _ => bad "observation"
  else if obs.startsWith "err:" || obs.startsWith "panic" || obs == "hang" then
    fail s!"implementation {obs.take 120}" baseTags
  else
  match (match tokens obs with
    | [p, o, hs] => some (p, o, hs, givenTraps.map fun t => (t, ([] : List Trap)))
    | [p, o, hs, ts] =>
      if !ts.startsWith "T=" then none
      else match (ts.drop 2).toString.splitOn "|" with
        | [t0, t1] =>
          match parseTraps t0, parseTraps t1 with
          | some t0, some t1 => some (p, o, hs, some (t0, t1))
          | _, _ => none
        | _ => none
    | _ => none) with
  | some (p, o, hs, trapsObs) =>
    if !(p.startsWith "P=" && o.startsWith "O=" && hs.startsWith "H=") then bad "observation" else
    match parseNats (p.drop 2).toString, parseInts (o.drop 2).toString, parseHits (hs.drop 2).toString with
    | some [k, n, e, off], some [ow, od], some hits =>
      let optModel := optimise (optIn ow od)
      let optAgree := optModel == some { wordSize := k, minMatch := n, maxError := e, tubeOffset := off }
      let working1 := revComp query
      let tags := baseTags ++ (if hits.isEmpty then ["no-hit"] else ["nt", "hits"]) ++ [s!"k{k}"]
      -- filter parameters accepted by Optimise
      if !((n : Int) + 1 - (k : Int) * ((e : Int) + 1) > 0) then fail s!"optimise-threshold-not-positive k={k} n={n} e={e}" tags
      else if off < e then fail s!"optimise-tubeoffset-below-maxerror off={off} e={e}" tags
      else
      let why := hits.findSome? fun o =>
        if o.strand > 1 then some "bad-strand"
        else hitWhy minLen minIdMilli target (if o.strand == 1 then working1 else query) o
      match why with
      | some w => fail w tags
      | none =>
        -- trivial self match
        let trivial := self && hits.any fun o => o.strand == 0 && o.h.abpos == o.h.bbpos && o.h.aepos == o.h.bepos
        if trivial then fail "trivial-self-match-reported" tags else
        -- the suppression of `AlignTraps` ("remove lower scoring segments that begin or end at the same point as a
        -- higher scoring segment"; `alignTraps_sound`): no two hits of a strand share a start point, no two an end point
        let sharing := hits.find? fun o => hits.any fun p =>
          p.strand == o.strand && hitLt o.h p.h &&
          ((p.h.abpos == o.h.abpos && p.h.bbpos == o.h.bbpos) || (p.h.aepos == o.h.aepos && p.h.bepos == o.h.bepos))
        let twice := hits.find? fun o => (hits.filter fun p => p.strand == o.strand && p.h == o.h).length > 1
        match twice, sharing with
        | some o, _ => fail s!"hit-reported-twice {showHit o}" tags
        | none, some o => fail s!"two-hits-share-a-start-or-an-end-point {showHit o}" tags
        | none, none =>
        let boundary := plants.filter (·.cls == 1)
        let tags := tags ++
          (if boundary.any (fun p => demanded self target query working1 n e p) then ["boundary-guaranteed"] else []) ++
          (if boundary.any (fun p => !demanded self target query working1 n e p) then
             (if boundary.any (fun p => !demanded self target query working1 n e p && hits.any (recovers self query.size p))
              then ["boundary-unguaranteed-recovered"] else []) ++
             (if boundary.any (fun p => !demanded self target query working1 n e p && !hits.any (recovers self query.size p))
              then ["boundary-unguaranteed-missed"] else [])
           else [])
        let missed := plants.filter fun p => demanded self target query working1 n e p && !hits.any (recovers self query.size p)
        let showPlant := fun (p : Plant) => s!"{p.aPos}:{p.aLen}:{p.bPos}:{p.bLen}:{if p.comp then 1 else 0}:{p.cls}"
        let k6 := fun (p : Plant) => match trapsObs with
          | some (t0, t1) =>
            isK6 self query.size target (if p.comp then working1 else query) (if p.comp then t1 else t0) k minLen minIdMilli hits p
          | none => false
        match missed.find? (fun p => !k6 p), missed with
        | some p, _ => fail s!"planted-repeat-not-recovered {showPlant p}" tags
        | none, p :: _ => known "K6" s!"planted-repeat-shares-query-rows-with-a-reported-hit-in-one-trapezoid;row-wise-model-misses-it;diagonal-split-recovers-it {showPlant p}" tags
        | none, [] =>
          match hits.findSome? (modelWhy minLen minIdMilli) with
          | some w => diff w tags
          | none =>
            -- the trapezoids handed to the aligner lie within the query rows (hypothesis of the kernel theorems;
            -- `merger_output_within_rows`, `merger_output_wellformed`)
            let outside := match trapsObs, givenTraps with
              | some (t0, t1), none => (t0 ++ t1).find? fun (t : Trap) => !(decide (0 ≤ t.bottom) && decide (t.bottom ≤ t.top) && decide (t.top ≤ (query.size : Int)))
              | _, _ => none
            match outside with
            | some t => fail s!"trapezoid-outside-the-query-rows {t.top}:{t.bottom}:{t.left}:{t.right}" tags
            | none =>
            -- the kernel model on the trapezoids the implementation's aligner was given
            let (kw, tags) : Option String × List String :=
              match trapsObs with
              | none => (none, tags)
              | some (t0, t1) =>
                if trapWork t0 + trapWork t1 > 2000000000 then (none, tags ++ ["kernel-model-skipped"])
                else
                  let w0 := kernelWhy 0 target query t0 k minLen minIdMilli self (hits.filter (·.strand == 0))
                  let w1 := if givenTraps.isSome then none
                            else kernelWhy 1 target working1 t1 k minLen minIdMilli false (hits.filter (·.strand == 1))
                  ((w0 <|> w1), tags ++ ["kernel-model"])
            match kw with
            | some w => diff w tags
            | none =>
            if optAgree then ok tags
            else diff ("optimise-model=" ++ (match optModel with
              | some q => s!"{q.wordSize},{q.minMatch},{q.maxError},{q.tubeOffset}"
              | none => "none")) tags
    | _, _, _ => bad "observation"
  | none => bad "observation"

/-- `po`: Optimise alone — the model of the parameter search against the implementation, and the
    statement "accepted parameters have a positive q-gram threshold and, with the default
    tubeOffset, TubeOffset ≥ MaxError" on the implementation's choice -/
def handleOptimise (tlen qlen minLen mem off : Int) (obs : String) : Verdict :=
  let mk (w d : Int) : OptIn :=
    { tlen := tlen, qlen := qlen, minHitLen := minLen, seedDiffs0 := d, minWordSize := w,
      tubeOffsetArg := off, maxMem := if mem > 0 then some (mem * 1048576) else none }
  let tags := ["optimise-only", if qlen == 0 then "self" else "non-self"]
  if obs == "err:args" then { status := "ok", tags := tags ++ ["args-rejected"] }
  else match tokens obs with
  | ["err:optimise", o] =>
    match parseInts (o.drop 2).toString with
    | some [w, d] =>
      if w < 0 then { status := "skip", tags := tags, detail := "negative minWordSize" } else
      match optimise (mk w d) with
      | none => ok (tags ++ ["no-parameters"])
      | some p => diff s!"optimise-model={p.wordSize},{p.minMatch},{p.maxError},{p.tubeOffset}" tags
    | _ => bad "observation"
  | [p, o] =>
    match parseInts (p.drop 2).toString, parseInts (o.drop 2).toString with
    | some [k, n, e, t], some [w, d] =>
      let tags := tags ++ ["nt", "accepted", s!"k{k}"]
      if !(n + 1 - k * (e + 1) > 0) then fail s!"optimise-threshold-not-positive k={k} n={n} e={e}" tags
      else if off ≤ 0 && t < e then fail s!"optimise-tubeoffset-below-maxerror off={t} e={e}" tags
      else if w < 0 then { status := "skip", tags := tags, detail := "negative minWordSize" }
      else
        match optimise (mk w d) with
        | some q =>
          if q == { wordSize := k, minMatch := n, maxError := e, tubeOffset := t } then ok tags
          else diff s!"optimise-model={q.wordSize},{q.minMatch},{q.maxError},{q.tubeOffset}" tags
        | none => diff "optimise-model=none" tags
    | _, _ => bad "observation"
  | _ => bad "observation"

def ops : List String := ["pw", "po", "pt"]

def handle (line : String) : String :=
  let (inp, obs) := splitCase line
  match tokens inp with
  | ["pw", self, minLen, minId, mem, plants, t, q] =>
    match parseBool self, parseInt minLen, parseInt minId, parseInt mem, parsePlants plants with
    | some self, some minLen, some minId, some mem, some plants =>
      let target := lettersOf t
      let query := if self then target else lettersOf q
      (handleCase self minLen minId mem plants target query obs).render
    | _, _, _, _, _ => (bad "input").render
  | ["pt", minLen, minId, plants, traps, t, q] =>
    -- the aligner on a given trapezoid list (two sequences, forward strand): same statement as `pw`
    match parseInt minLen, parseInt minId, parsePlants plants, parseTraps traps with
    | some minLen, some minId, some plants, some traps =>
      let v := handleCase false minLen minId 64 plants (lettersOf t) (lettersOf q) obs (some traps)
      ({ v with tags := "given-trapezoids" :: v.tags }).render
    | _, _, _, _ => (bad "input").render
  | ["po", tlen, qlen, minLen, _minId, mem, off] =>
    match parseInt tlen, parseInt qlen, parseInt minLen, parseInt mem, parseInt off with
    | some tlen, some qlen, some minLen, some mem, some off => (handleOptimise tlen qlen minLen mem off obs).render
    | _, _, _, _, _ => (bad "input").render
  | _ => (bad "unknown-op").render

end Biogo.Drive.C15
