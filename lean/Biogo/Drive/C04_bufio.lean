/-
Driver for C04, part bufio.  For one case

  buf <size> <src> <ops> <hex data>

and the observation of the real `bufio.Reader` (one token per call) it (1) runs the byte-level
model `Biogo.Go.Bufio` with the same buffer size, the same underlying reader and the same calls,
(2) evaluates on the **implementation's** tokens the line-level abstraction the four reader
models rest on — for a pure `ReadLine` loop: the joined `isPrefix` fragments are the lines of
`Biogo.Spec.Bufio.lineInput` (at 4096: `Biogo.Go.Bytes.readLineInput`), every fragment of a long
line but the last is flagged, the fragments pending at the final error are the ones predicted;
for a pure `ReadBytes` loop: the results are `Biogo.BytesFeat.lines`, the error comes exactly
with an unterminated last line and after the end — and (3) compares model and implementation
call by call.  Core only.
-/
import Biogo.Go.Wire
import Biogo.Go.Bufio
import Biogo.Go.BytesFeat
import Biogo.Spec.Bufio

namespace Biogo.Drive.C04_bufio
open Biogo.Wire Biogo.Go.Bufio

def ops : List String := ["buf"]

def errStr : Option Err → String
  | none => "-"
  | some .eof => "EOF"
  | some .bufferFull => "FULL"
  | some .noProgress => "NOPROG"
  | some (.other c) => s!"E{c}"

/-- the underlying reader named by the token -/
def parseSrc (tok : String) (data : Bytes) : Option Src :=
  if tok == "b" then some { rest := data }
  else if tok == "1" then some { rest := data, pol := fun _ n => min n 1 }
  else if tok == "h" then some { rest := data, pol := fun _ n => (n + 1) / 2 }
  else if tok == "d" then some { rest := data, withData := true }   -- chunking proved irrelevant
  else if tok.startsWith "c" then (parseNat (tok.drop 1).toString).map fun n => { rest := data, pol := fun _ _ => n }
  else if tok.startsWith "s" then
    match (tok.drop 1).toString.splitOn ":" with
    | [w, e, sc] =>
      match parseBool w, parseNat e, parseNats sc with
      | some w, some e, some (s :: sc) =>
        let script := (s :: sc).toArray
        some { rest := data, withData := w, fin := if e == 0 then .eof else .other e,
               pol := fun k _ => script[k % script.size]! }
      | _, _, _ => none
    | _ => none
  else none

/-- the calls of the harness on the model -/
def run (ops : Array Char) : Nat → Nat → Nat → Reader → List String
  | 0, _, _, _ => []
  | fuel + 1, i, errs, b =>
    if errs ≥ 2 then []
    else
      let count (e : Option Err) : Nat := if e.isSome && e != some .bufferFull then errs + 1 else errs
      match ops[i % ops.size]! with
      | 'L' =>
        let (l, b) := readLine b
        s!"L:{hexOfBytes l.line}:{showBool l.isPrefix}:{errStr l.err}" :: run ops fuel (i + 1) (count l.err) b
      | 'B' =>
        let (line, e, b) := readBytes 10 b
        s!"B:{hexOfBytes line}:{errStr e}" :: run ops fuel (i + 1) (count e) b
      | _ =>
        let (line, e, b) := readSlice 10 b
        s!"S:{hexOfBytes line}:{errStr e}" :: run ops fuel (i + 1) (count e) b

/-! the abstraction, evaluated on the implementation's tokens -/

/-- join the fragments of a pure `ReadLine` loop: complete lines, pending fragments, first error -/
def joinL : List String → Bytes → List Bytes → Option (List Bytes × Bytes × String)
  | [], _, _ => none
  | t :: ts, acc, ls =>
    match t.splitOn ":" with
    | ["L", h, p, e] =>
      match bytesOfHex h with
      | none => none
      | some frag =>
        if e != "-" then some (ls.reverse, acc, e)
        else if p == "1" then (if frag.isEmpty then none else joinL ts (acc ++ frag) ls)
        else joinL ts [] ((acc ++ frag) :: ls)
    | _ => none

/-- the tokens a pure `ReadBytes` loop must produce: `Biogo.Spec.Bufio.readBytesCalls` (the image
    proved in `Properties/C04_bufio`), then the final error once more -/
def expectB (data : Bytes) (fin : Err) : List String :=
  (Biogo.Spec.Bufio.readBytesCalls fin data).map (fun c => s!"B:{hexOfBytes c.1}:{errStr c.2}")
    ++ [s!"B:-:{errStr (some fin)}"]

def statement (size : Nat) (src : Src) (opsWord : String) (data : Bytes) (obs : List String) : Option String :=
  let fin := errStr (some src.fin)
  if obs.any (fun (t : String) => t.endsWith "NOPROG") then none
  else if opsWord == "L" then
    match joinL obs [] [] with
    | none => some "readline-loop: an empty isPrefix fragment, or no final error"
    | some (ls, pend, e) =>
      let (els, epend) := Biogo.Spec.Bufio.lineInput (max size 16) src.withData data
      if e != fin then some s!"readline-loop: final error {e}"
      else if ls ++ (if pend.isEmpty then [] else [pend]) != Biogo.Go.Bytes.splitLines data then
        some "readline-loop: the joined fragments are not the physical lines without their terminators"
      else if ls != els || pend != epend then
        some "readline-loop: fragments pending at the final error differ from lineInput"
      else if max size 16 == 4096 && (els, epend) != Biogo.Go.Bytes.readLineInput src.withData data then
        some "lineInput 4096 differs from readLineInput"
      else none
  else if opsWord == "B" then
    if obs != expectB data src.fin then some "readbytes-loop: results are not the lines with their terminators"
    else none
  else none

def handle (line : String) : String :=
  let (inp, obs) := splitCase line
  let v : Verdict :=
    match tokens inp with
    | ["buf", sz, st, opsWord, hex] =>
      match parseNat sz, bytesOfHex hex with
      | some size, some data =>
        match parseSrc st data with
        | some src =>
          if opsWord.isEmpty then bad "buf-ops" else
          let tags := [s!"size{max size 16}", "src-" ++ (st.take 1).toString, "ops-" ++ (if opsWord.length == 1 then opsWord else "mixed")]
            ++ (if data.length ≥ max size 16 then ["nt"] else [])
          if obs.startsWith "panic:" then fail "bufio-panicked" tags
          else if obs == "hang" then fail "bufio-hung" tags
          else
          match statement size src opsWord data (tokens obs) with
          | some why => fail why tags
          | none =>
            let m := " ".intercalate (run opsWord.toList.toArray (data.length + 4) 0 0 (newReaderSize src size))
            if m == obs then ok tags else diff (m.take 600).toString tags
        | none => bad "buf-src"
      | _, _ => bad "buf"
    | _ => bad "unknown-op"
  v.render

end Biogo.Drive.C04_bufio
