/-
Driver for C04, part seq.  For one case
  fa4 <tags> <hex A> <hex B>        fq4 <tmpl> <tags> <hex A> <hex B>
(A a valid file, B the same records in another layout) with the implementation's two call
histories it (1) runs `readAll` of the model on A and on B, (2) evaluates the statement of
C04 on the implementation's histories — A is read as records only, and B gives exactly the
same history — and (3) compares model and implementation on both files.  Core only.
-/
import Biogo.Drive.SeqioWire

namespace Biogo.Drive.C04_seq
open Biogo.Wire Biogo.Go.Bytes Biogo.Drive.Seqio

def ops : List String := ["fa4", "fq4"]

def splitObs (obs : String) : Option (List String × List String) :=
  match obs.splitOn " | " with
  | [a, b] => some (tokens a, tokens b)
  | _ => none

/-- statement of C04 on the implementation's histories; `none` = holds -/
def statement (obs : String) : Option String :=
  if obs.startsWith "panic:" then some "reader-panicked"
  else if obs == "hang" then some "reader-hung"
  else match splitObs obs with
    | none => some "unparsable-observation"
    | some (a, b) =>
      if !(a.getLast? == some "EOF" && a.dropLast.all (·.startsWith "R:")) then
        some "the valid file is not read as a list of records"
      else if a ≠ b then
        some s!"layout changed the records: {a.length - 1} records before, history after: {(" ".intercalate (b.map (fun (t : String) => (t.take 40).toString))).take 300}"
      else none

def verdict (a b : Bytes) (model obs : String) (tags : List String) : Verdict :=
  let tags := tags ++ (if a ≠ b then ["nt"] else [])
    ++ [lenTag (max a.length b.length)]
  match statement obs with
  | some why => fail why tags
  | none => if model == obs then ok tags else diff (model.take 600).toString tags

def handle (line : String) : String :=
  let (inp, obs) := splitCase line
  let v : Verdict :=
    match tokens inp with
    | ["fa4", tg, ha, hb] =>
      match bytesOfHex ha, bytesOfHex hb with
      | some a, some b =>
        let m := fastaCalls (Biogo.Fasta.readAll fastaCfg a) ++ " | " ++ fastaCalls (Biogo.Fasta.readAll fastaCfg b)
        verdict a b m obs ("fasta" :: tg.splitOn ",")
      | _, _ => bad "fa4"
    | ["fq4", tmpl, tg, ha, hb] =>
      match bytesOfHex ha, bytesOfHex hb, (if tmpl == "s" then some Biogo.Fastq.Encoding.none else encOfString tmpl) with
      | some a, some b, some enc =>
        let cfg := fastqCfg tmpl enc
        let m := fastqCalls (Biogo.Fastq.readAll cfg (eofWithData a) a) ++ " | " ++ fastqCalls (Biogo.Fastq.readAll cfg (eofWithData b) b)
        verdict a b m obs (["fastq", if tmpl == "s" then "tmpl-seq" else encName enc] ++ tg.splitOn ",")
      | _, _, _ => bad "fq4"
    | _ => bad "unknown-op"
  v.render

end Biogo.Drive.C04_seq
