/-
Driver for C02: runs the BED / GFF writer and reader models on a harness input, evaluates the
statement of C02 on the implementation's observation (the record read equals the record
written, restricted to the first m columns; text is 1-based inclusive; reported count = bytes
emitted) and compares model and implementation.  Core-only.
-/
import Biogo.Drive.FeatCommon

namespace Biogo.Drive.C02
open Biogo.Wire Biogo.BytesFeat Biogo.Drive.FeatCommon Biogo.FeatIO

def parseRgb (s : String) : Option Bed.Rgb :=
  match parseNats s with
  | some [r, g, b, a] => some { r := UInt8.ofNat r, g := UInt8.ofNat g, b := UInt8.ofNat b, a := UInt8.ofNat a }
  | _ => none

/-- the twelve column tokens of a `bed` input -/
def parseBedIn (t : List String) : Option Bed.Rec :=
  match t with
  | [chrom, s, e, name, score, strand, ts, te, rgb, cnt, sizes, starts] => do
    let chrom ← bytesOfHex chrom
    let name ← bytesOfHex name
    some { width := 12, chrom, name, start := ← parseInt s, stop := ← parseInt e, score := ← parseInt score,
           strand := ← parseInt strand, thickStart := ← parseInt ts, thickEnd := ← parseInt te,
           rgb := ← parseRgb rgb, blockCount := ← parseInt cnt, blockSizes := ← parseInts sizes,
           blockStarts := ← parseInts starts }
  | _ => none

def parseAttrs (s : String) : Option (Option (List Gff.Attr)) :=
  if s == "N" then some none
  else if s == "-" then some (some [])
  else do
    let as ← (s.splitOn ",").mapM fun kv =>
      match kv.splitOn "=" with
      | [k, v] => do some ({ tag := ← bytesOfHex k, value := ← bytesOfHex v } : Gff.Attr)
      | _ => none
    some (some as)

def parseScore (s : String) : Option (Option Nat) :=
  if s == "n" then some none else (parseHexNat (s.drop 1).toString).map some

def parseGffIn (t : List String) : Option Gff.Feature :=
  match t with
  | [sq, src, ft, s, e, sc, strand, frame, attrs, comment] => do
    some { seqName := ← bytesOfHex sq, source := ← bytesOfHex src, feature := ← bytesOfHex ft,
           start := ← parseInt s, stop := ← parseInt e, score := ← parseScore sc,
           strand := ← parseInt strand, frame := ← parseInt frame, attrs := ← parseAttrs attrs,
           comments := ← bytesOfHex comment }
  | _ => none

/-- first section of an observation: `<n> <emitted> <hex text> [ff:<hex>]` -/
structure Written where
  n : Nat
  emitted : Nat
  text : Bytes
  ff : Option Bytes

def parseWritten (s : String) : Option Written :=
  match tokens s with
  | n :: e :: t :: rest => do
    let ff := match rest with
      | [f] => if f.startsWith "ff:" && f != "ff:-" then bytesOfHex (f.drop 3).toString else none
      | _ => none
    some { n := ← parseNat n, emitted := ← parseNat e, text := ← bytesOfHex t, ff }
  | _ => none

def metaStr (hdr : Bool) : String := if hdr then "m:2:-:-1:-" else "m:0:-:-1:-"

/-- columns 4 and 5 of the last line of the text -/
def coordColumns (text : Bytes) : Option (Bytes × Bytes) :=
  match (lines text).getLast? with
  | some l =>
    let f := splitOn 9 (trimSpace l)
    match f[3]?, f[4]? with
    | some a, some b => some (a, b)
    | _, _ => none
  | none => none

/-! ### the call histories demanded of a round trip
Each is the rendering of the conclusion of the corresponding theorem of `Properties/C02.lean`
(`Properties/C02_checker.lean`: `wantBed_is_roundtrip`, `wantGff_is_roundtrip`, `wantRegion_is_roundtrip`,
`wantSeq_is_roundtrip`). -/

/-- a reader of `r` columns returns the first `r` columns of the record, then `io.EOF` -/
def wantBed (r : Nat) (b : Bed.Rec) : String := "r:" ++ bedRec (Bed.firstCols r b) ++ " eof"

/-- one feature equal to the original, then `io.EOF`, and the reader's metadata -/
def wantGff (hdr : Bool) (f : Gff.Feature) : String := "r:" ++ gffFeature f ++ " eof " ++ metaStr hdr

def wantRegion (hdr : Bool) (name : Bytes) (s e : Int) : String :=
  "r:" ++ gffItem (.region name (-1) s e) ++ " eof " ++ metaStr hdr

def wantSeq (hdr : Bool) (id : Bytes) (mol : Nat) (letters : Bytes) : String :=
  "r:" ++ gffItem (.sequence id mol letters) ++ " eof " ++ metaStr hdr

/-- the 1-based inclusive text of the coordinates of a feature: start column, end column -/
def wantCoords (f : Gff.Feature) : Bytes × Bytes :=
  (formatInt (if f.start ≥ 0 then f.start + 1 else f.start), formatInt f.stop)

/-! ### files of several records (ops `bedf`, `gfff`)
One writer, one reader; the harness keeps every record the reader returned and looks at them only
after `io.EOF`.  The model of a file is the per-record model mapped over the records: the text is
the concatenation of the per-record texts, and the reader model is run on the whole text. -/

def chunksOf (k : Nat) : Nat → List String → List (List String)
  | 0, _ => []
  | _, [] => []
  | fuel + 1, ts => ts.take k :: chunksOf k fuel (ts.drop k)

/-- split the record tokens of a file op into records of `k` tokens each -/
def recordTokens (k : Nat) (ts : List String) : Option (List (List String)) :=
  if k == 0 || ts.length % k != 0 then none else some (chunksOf k ts.length ts)

/-- every record read back as its first `r` columns, in order, then `io.EOF`; for one record it is
    `wantBed r b` -/
def wantBedFile (r : Nat) (bs : List Bed.Rec) : String :=
  " ".intercalate (bs.map (fun b => "r:" ++ bedRec (Bed.firstCols r b)) ++ ["eof"])

/-- every feature read back equal to the original, in order, then `io.EOF` and the reader's
    metadata; for one feature it is `wantGff hdr f` -/
def wantGffFile (hdr : Bool) (fs : List Gff.Feature) : String :=
  " ".intercalate (fs.map (fun f => "r:" ++ gffFeature f) ++ ["eof", metaStr hdr])

def bedWriteAll (w : Nat) : List Bed.Rec → Except Bed.Err (List Bytes × List Nat)
  | [] => .ok ([], [])
  | b :: bs => do
    let (t, n) ← Bed.write w b
    let (ts, ns) ← bedWriteAll w bs
    pure (t :: ts, n :: ns)

def gffWriteAll (o : Gff.Oracles) : List Gff.Feature → Except Gff.WErr (List Bytes × List Nat)
  | [] => .ok ([], [])
  | f :: fs => do
    let (t, n) ← Gff.writeFeature o f
    let (ts, ns) ← gffWriteAll o fs
    pure (t :: ts, n :: ns)

/-- first section of a file observation: `<n,…> <emitted,…> <hex text> [<ff:…,ff:…>]` -/
structure WrittenFile where
  ns : List Nat
  emitted : List Nat
  text : Bytes
  ffs : List (Option Bytes)

def parseFf (f : String) : Option Bytes :=
  if f.startsWith "ff:" && f != "ff:-" then bytesOfHex (f.drop 3).toString else none

def parseWrittenFile (s : String) : Option WrittenFile :=
  match tokens s with
  | n :: e :: t :: rest => do
    let ffs := match rest with
      | [f] => if f == "-" then [] else (f.splitOn ",").map parseFf
      | _ => []
    some { ns := ← parseNats n, emitted := ← parseNats e, text := ← bytesOfHex t, ffs }
  | _ => none

/-- columns 4 and 5 of one line of text -/
def coordColumnsOfLine (l : Bytes) : Option (Bytes × Bytes) :=
  let f := splitOn 9 (trimSpace l)
  match f[3]?, f[4]? with
  | some a, some b => some (a, b)
  | _, _ => none

/-- the last `fs.length` lines of the text carry the 1-based inclusive coordinates of `fs` -/
def coordsOK (text : Bytes) (fs : List Gff.Feature) : Bool :=
  let ls := lines text
  ls.length ≥ fs.length &&
  ((ls.drop (ls.length - fs.length)).zip fs).all fun (l, f) =>
    match coordColumnsOfLine l with
    | some (a, b) => a == (wantCoords f).1 && b == (wantCoords f).2
    | none => false

def handleBedFile (n w r : Nat) (fulls : List Bed.Rec) (obs : String) : Verdict :=
  let bs := fulls.map (Bed.firstCols n)
  let wf := bs.all (bedWF n) && w ≤ n && r ≤ w
  let counts := bs.map (·.blockSizes.length)
  let decreasing := n == 12 && r == 12 && (counts.zip (counts.drop 1)).any fun (a, b) => b < a
  let tags := ["bed-file", s!"bed{n}", s!"write{w}", s!"read{r}", s!"recs{min bs.length 3}"]
    ++ (if wf then (if bs.length ≥ 2 then ["nt", "wf"] else ["wf"]) else ["not-wf"])
    ++ (if decreasing then ["block-count-decreases"] else [])
  match bedWriteAll w bs with
  | .error _ =>
    let m := "werr:type 0 -"
    if bs.isEmpty then bad "bedf" else if m == obs then ok tags else diff m tags
  | .ok (texts, cnts) =>
    let text := texts.flatten
    let m := s!"{showNats cnts} {showNats (texts.map (·.length))} {hx text} | {bedCalls (Bed.readAll r text)}"
    if wf then
      match sections obs with
      | [wr, calls] =>
        match parseWrittenFile wr with
        | some x =>
          if x.ns != x.emitted then fail s!"reported-counts {showNats x.ns} != bytes-emitted {showNats x.emitted}" tags
          else if x.emitted.foldl (· + ·) 0 != x.text.length then fail "bytes-emitted-inconsistent" tags
          else
            let want := wantBedFile r bs
            if calls != want then fail s!"read-back-differs want={want}" tags
            else if m == obs then ok tags else diff m tags
        | none => fail "write-failed-on-well-formed-record" tags
      | _ => fail "write-failed-on-well-formed-record" tags
    else if m == obs then ok tags else diff m tags

def handleGffFile (hdr : Bool) (fs : List Gff.Feature) (obs : String) : Verdict :=
  match sections obs with
  | [wr, calls, orc] =>
    match parseWrittenFile wr with
    | none =>
      if fs.any (fun f => f.start ≥ f.stop) then
        (if obs.startsWith "werr:badfeature" then ok ["gff-file", "refused"] else diff "werr:badfeature" ["gff-file"])
      else fail "write-failed" ["gff-file"]
    | some x =>
      let ffps : List (Nat × Bytes) := (fs.zip x.ffs).filterMap fun (f, t) =>
        match f.score, t with
        | some bits, some txt => some (bits, txt)
        | _, _ => none
      let o0 := mkOracles (tokens orc)
      let o : Gff.Oracles := { o0 with formatFloat := fun v => ((ffps.find? (·.1 == v)).map (·.2)).getD [] }
      let wf := fs.all gffWF
      let counts := fs.map (fun f => (f.attrs.getD []).length)
      let tags := ["gff-file", if hdr then "header" else "no-header", s!"recs{min fs.length 3}"]
        ++ (if wf then (if fs.length ≥ 2 then ["nt", "wf"] else ["wf"]) else ["not-wf"])
        ++ (if (counts.zip (counts.drop 1)).any (fun (a, b) => b < a) then ["attr-count-decreases"] else [])
      -- the assumed float law, sampled on every score of the file
      let floatLaw := (fs.zip (x.ffs ++ List.replicate fs.length none)).all fun (f, t) =>
        match f.score with
        | some bits => Gff.isNaN bits || (match t with
            | some txt => floatTokenOK txt && o.parseFloat txt == some bits
            | none => false)
        | none => true
      if !floatLaw then fail "float-law: ParseFloat(Sprintf(%v, x)) != x or the text is not a clean token" tags else
      match gffWriteAll o fs with
      | .error _ => diff "werr:badfeature" tags
      | .ok (texts, cnts) =>
        let all := (if hdr then Gff.headerText else []) ++ texts.flatten
        let ffs := if fs.isEmpty then "-" else
          ",".intercalate ((x.ffs ++ List.replicate (fs.length - x.ffs.length) none).map fun
            | some t => "ff:" ++ hx t | none => "ff:-")
        let m := s!"{showNats cnts} {showNats (texts.map (·.length))} {hx all} {ffs} | {gffCalls (Gff.readAll o all)}"
        if wf then
          if x.ns != x.emitted then fail s!"reported-counts {showNats x.ns} != bytes-emitted {showNats x.emitted}" tags
          else
            let want := wantGffFile hdr fs
            if calls != want then fail s!"read-back-differs want={want}" tags
            else if !coordsOK x.text fs then fail "text-not-one-based-inclusive" tags
            else if m == wr ++ " | " ++ calls then ok tags else diff m tags
        else if m == wr ++ " | " ++ calls then ok tags else diff m tags
  | _ =>
    if fs.any (fun f => f.start ≥ f.stop) then
      (if obs.startsWith "werr:badfeature" then ok ["gff-file", "refused"] else diff "werr:badfeature" ["gff-file"])
    else fail "write-failed" ["gff-file"]

/-! ### one record through a failing `io.Writer` (ops `bedx`, `gffx`)
"reported byte counts equal bytes emitted" — also by a `Write` that fails part-way.  The harness
writes the record, for every `k` up to the length of the fault-free text, to a writer that accepts
exactly `k` bytes and then fails. -/

/-- the failing sink seen from a writer that adds up what its underlying writes return and stops at
    the first error: the record's text (`len` bytes, starting at offset `s` — the header) is emitted
    completely when it fits, otherwise its first `k - s` bytes are, reported with an error -/
def faultOne (k s len : Nat) : String :=
  if s + len ≤ k then s!"{len}/{len}/0/1" else s!"{k - s}/{k - s}/1/1"

def faultModel (pre text : Bytes) : String :=
  let all := pre ++ text
  " ".intercalate (["x", toString all.length, hx all]
    ++ (List.range (all.length + 1)).map fun k => faultOne k pre.length text.length)

/-- demanded at one failure point `<n>/<emitted>/<e>/<p>`: the count returned equals the bytes that
    `Write` emitted, and everything emitted is the beginning of the fault-free text -/
def faultDemand (k : Nat) (tok : String) : Option String :=
  match tok.splitOn "/" with
  | [n, d, _, p] =>
    if n ≠ d then some s!"writer failing after {k} bytes: reported-count {n} != bytes-emitted {d}"
    else if p ≠ "1" then some s!"writer failing after {k} bytes: the bytes emitted are not a prefix of the fault-free text"
    else none
  | _ => some "unparsable-observation"

def faultDemands : Nat → List String → Option String
  | _, [] => none
  | k, t :: ts => match faultDemand k t with
    | some why => some why
    | none => faultDemands (k + 1) ts

def faultVerdict (model obs : String) (tags : List String) : Verdict :=
  match tokens obs with
  | "x" :: _ :: _ :: toks =>
    match faultDemands 0 toks with
    | some why => fail why tags
    | none => if model == obs then ok tags else diff (model.take 600).toString tags
  | _ => if model == obs then ok tags else diff (model.take 600).toString tags

def handleTokens (inp : List String) (obs : String) : Verdict :=
  match inp with
  | "bedx" :: n :: w :: cols =>
    match parseNat n, parseNat w, parseBedIn cols with
    | some n, some w, some full =>
      let b := Bed.firstCols n full
      let tags := ["bed", "failing-writer", s!"bed{n}", s!"write{w}"] ++ (if w ≤ n then ["nt"] else [])
      match Bed.write w b with
      | .error _ => let m := "werr:type 0 -"; if m == obs then ok tags else diff m tags
      | .ok (text, _) => faultVerdict (faultModel [] text) obs tags
    | _, _, _ => bad "bedx"
  | "gffx" :: hdr :: cols =>
    match parseBool hdr, parseGffIn cols with
    | some hdr, some f =>
      let tags := ["gff", "failing-writer", if hdr then "header" else "no-header", "nt"]
        ++ (match f.score with | none => ["score-nil"] | some _ => ["score-float"])
        ++ (match f.attrs with | none => ["attrs-nil"] | some [] => ["attrs-empty"] | some _ => ["attrs"])
      if f.start ≥ f.stop then (if obs.startsWith "werr:badfeature" then ok ["gff", "refused"] else diff "werr:badfeature" ["gff"])
      else
        -- the fault-free text is taken from the observation (its float text is the oracle's): the
        -- model of the failing sink needs only the lengths
        match tokens obs with
        | "x" :: _ :: t :: _ =>
          match bytesOfHex t with
          | some all =>
            let pre := if hdr then Gff.headerText else []
            faultVerdict (faultModel pre (all.drop pre.length)) obs tags
          | none => bad "gffx"
        | _ => fail "write-failed" tags
    | _, _ => bad "gffx"
  | "bedf" :: n :: w :: r :: cols =>
    match parseNat n, parseNat w, parseNat r, (recordTokens 12 cols).bind (·.mapM parseBedIn) with
    | some n, some w, some r, some fulls => handleBedFile n w r fulls obs
    | _, _, _, _ => bad "bedf"
  | "gfff" :: hdr :: cols =>
    match parseBool hdr, (recordTokens 10 cols).bind (·.mapM parseGffIn) with
    | some hdr, some fs => handleGffFile hdr fs obs
    | _, _ => bad "gfff"
  | "bed" :: n :: w :: r :: cols =>
    match parseNat n, parseNat w, parseNat r, parseBedIn cols with
    | some n, some w, some r, some full =>
      let b := Bed.firstCols n full
      let wf := bedWF n b && w ≤ n && r ≤ w
      let tags := [s!"bed{n}", s!"write{w}", s!"read{r}"] ++ (if wf then ["nt", "wf"] else ["not-wf"])
        ++ (if r < w then ["narrower-read"] else []) ++ (if w < n then ["narrower-write"] else [])
      match Bed.write w b with
      | .error _ =>
        let m := "werr:type 0 -"
        if m == obs then ok tags else diff m tags
      | .ok (text, cnt) =>
        let m := s!"{cnt} {text.length} {hx text} | {bedCalls (Bed.readAll r text)}"
        if wf then
          match sections obs with
          | [wr, calls] =>
            match parseWritten wr with
            | some x =>
              if x.n != x.emitted then fail s!"reported-count {x.n} != bytes-emitted {x.emitted}" tags
              else if x.emitted != x.text.length then fail "bytes-emitted-inconsistent" tags
              else
                let want := wantBed r b
                if calls != want then fail s!"read-back-differs want={want}" tags
                else if m == obs then ok tags else diff m tags
            | none => fail "write-failed-on-well-formed-record" tags
          | _ => fail "write-failed-on-well-formed-record" tags
        else if m == obs then ok tags else diff m tags
    | _, _, _, _ => bad "bed"
  | "gff" :: hdr :: cols =>
    match parseBool hdr, parseGffIn cols, sections obs with
    | some hdr, some f, [wr, calls, orc] =>
      match parseWritten wr with
      | none => -- the writer refused
        (match Gff.writeFeature (mkOracles []) f with
         | .error _ => if obs.startsWith "werr:badfeature" then ok ["gff", "refused"] else diff "werr:badfeature" ["gff"]
         | .ok _ => fail "write-failed" ["gff"])
      | some x =>
        let ffp := match f.score, x.ff with
          | some bits, some txt => some (bits, txt)
          | _, _ => none
        let o := mkOracles (tokens orc) ffp
        let wf := gffWF f
        let tags := ["gff", if hdr then "header" else "no-header"] ++ (if wf then ["nt", "wf"] else ["not-wf"])
          ++ (match f.score with | none => ["score-nil"] | some _ => ["score-float"])
          ++ (match f.attrs with | none => ["attrs-nil"] | some [] => ["attrs-empty"] | some _ => ["attrs"])
          ++ (if f.start < 0 then ["negative-start"] else [])
        -- the assumed float law, sampled on this value
        let floatLaw := match f.score with
          | some bits => Gff.isNaN bits || (match x.ff with
              | some txt => floatTokenOK txt && o.parseFloat txt == some bits
              | none => false)
          | none => true
        if !floatLaw then fail "float-law: ParseFloat(Sprintf(%v, x)) != x or the text is not a clean token" tags else
        match Gff.writeFeature o f with
        | .error _ => diff "werr:badfeature" tags
        | .ok (text, cnt) =>
          let all := (if hdr then Gff.headerText else []) ++ text
          let ffs := match x.ff with | some t => "ff:" ++ hx t | none => "ff:-"
          let m := s!"{cnt} {text.length} {hx all} {ffs} | {gffCalls (Gff.readAll o all)}"
          if wf then
            if x.n != x.emitted then fail s!"reported-count {x.n} != bytes-emitted {x.emitted}" tags
            else
              let want := wantGff hdr f
              if calls != want then fail s!"read-back-differs want={want}" tags
              else match coordColumns x.text with
                | some (a, b) =>
                  if a != (wantCoords f).1 || b != (wantCoords f).2 then
                    fail "text-not-one-based-inclusive" tags
                  else if m == wr ++ " | " ++ calls then ok tags else diff m tags
                | none => fail "text-has-no-coordinate-columns" tags
          else if m == wr ++ " | " ++ calls then ok tags else diff m tags
    | some _, some f, _ =>
      -- refused by the writer (start ≥ end)
      if f.start ≥ f.stop then (if obs.startsWith "werr:badfeature" then ok ["gff", "refused"] else diff "werr:badfeature" ["gff"])
      else fail "write-failed" ["gff"]
    | _, _, _ => bad "gff"
  | ["reg", hdr, kind, name, s, e] =>
    match parseBool hdr, bytesOfHex name, parseInt s, parseInt e with
    | some hdr, some name, some s, some e =>
      let wf := nameOK name && inInt64 s && inInt64 e && s < e
      let tags := ["region", "kind-" ++ kind] ++ (if wf then ["nt", "wf"] else ["not-wf"])
      match Gff.writeRegion name s e with
      | .error _ => if obs.startsWith "werr:badfeature" then ok tags else diff "werr:badfeature" tags
      | .ok (text, cnt) =>
        let all := (if hdr then Gff.headerText else []) ++ text
        let m := s!"{cnt} {text.length} {hx all} | {gffCalls (Gff.readAll (mkOracles []) all)}"
        if wf then
          match sections obs with
          | [wr, calls] =>
            match parseWritten wr with
            | some x =>
              if x.n != x.emitted then fail s!"reported-count {x.n} != bytes-emitted {x.emitted}" tags
              else
                let want := wantRegion hdr name s e
                if calls != want then fail s!"region-read-back-differs want={want}" tags
                else if m == obs then ok tags else diff m tags
            | none => fail "write-failed" tags
          | _ => fail "write-failed" tags
        else if m == obs then ok tags else diff m tags
    | _, _, _, _ => bad "reg"
  | ["iseq", hdr, width, mol, id, desc, letters] =>
    match parseBool hdr, parseNat width, parseNat mol, bytesOfHex id, bytesOfHex desc, bytesOfHex letters with
    | some hdr, some width, some mol, some id, some desc, some letters =>
      let wf := nameOK id && lettersOK letters && width ≥ 1 && mol ≤ 2 && descOK desc && noEndMarker width mol letters
      let tags := ["inline-seq", s!"mol{mol}"] ++ (if wf then ["nt", "wf"] else ["not-wf"])
        ++ (if letters.length > width then ["wrapped"] else [])
      match Gff.writeSeq width mol id desc letters with
      | .error _ => if obs.startsWith "werr:" then ok tags else diff "werr" tags
      | .ok (text, cnt) =>
        let all := (if hdr then Gff.headerText else []) ++ text
        let m := s!"{cnt} {text.length} {hx all} | {gffCalls (Gff.readAll (mkOracles []) all)}"
        if wf then
          match sections obs with
          | [wr, calls] =>
            match parseWritten wr with
            | some x =>
              if x.n != x.emitted then fail s!"reported-count {x.n} != bytes-emitted {x.emitted}" tags
              else
                let want := wantSeq hdr id mol letters
                if calls != want then fail s!"inline-sequence-read-back-differs want={want}" tags
                else if m == obs then ok tags else diff m tags
            | none => fail "write-failed" tags
          | _ => fail "write-failed" tags
        else if m == obs then ok tags else diff m tags
    | _, _, _, _, _, _ => bad "iseq"
  | ["fl", bits] =>
    match parseHexNat bits, tokens obs with
    | some b, [txt, back] =>
      match bytesOfHex txt with
      | some t =>
        if Gff.isNaN b then ok ["float-law", "nan"]
        else if parseHexNat back != some b then fail "float-law: ParseFloat(Sprintf(%v, x)) != x" ["float-law"]
        else if !floatTokenOK t then fail "float-law: text is not a clean token" ["float-law"]
        else ok ["float-law", "nt"]
      | none => bad "fl"
    | _, _ => bad "fl"
  | _ => bad "unknown-op"

def ops : List String := ["bed", "gff", "reg", "iseq", "fl", "bedf", "gfff", "bedx", "gffx"]

def handle (line : String) : String :=
  let (inp, obs) := splitCase line
  (handleTokens (tokens inp) obs).render

end Biogo.Drive.C02
