/-
Driver for C16.  For one case `pl <pairs> <filters>\t<observation>` it
 (1) runs the piler model on the Add history and every `Piles` call,
 (2) evaluates the statement of C16 on the implementation's observation:
     * an Add is rejected exactly when an earlier Add had the same pair in either orientation,
     * every nil-filter `Piles` result passes `Spec.Piles.checkPiles` (proved sound: it implies
       `IsComponents`, i.e. disjoint piles, interval = union of members, share a pile iff
       chained, every feature once),
     * a filtered `Piles` result is the validated component list with images selected by the
       filter and intervals unchanged; a filter that inspects the piles of the pair's images
       (`L l S E C Q` tokens) is evaluated on the FINAL piles, on the first call too: an image is
       listed iff the filter, asked after the call returned, accepts its pair (`K=`),
     * every accepted feature's `Location()` is the pile that contains it and `Mate()` is its
       pair mate with the link intact,
 (3) compares the model's observation with the implementation's.
Core-only.
-/
import Biogo.Go.Wire
import Biogo.Model.Piler
import Biogo.Spec.Piles

namespace Biogo.Drive.C16
open Biogo.Wire Biogo.Piler Biogo.Spec.Piles

def splitNE (s : String) (sep : String) : List String := (s.splitOn sep).filter (· ≠ "")

def parsePair (s : String) : Option PairIn :=
  match (s.splitOn ":").mapM parseInt with
  | some [id, la, sa, ea, lb, sb, eb] =>
    if id < 0 || la < 0 || lb < 0 then none
    else some { id := id.toNat, a := ⟨la.toNat, sa, ea⟩, b := ⟨lb.toNat, sb, eb⟩ }
  | _ => none

def parsePairs (s : String) : Option (List PairIn) :=
  if s == "-" then some [] else (s.splitOn ",").mapM parsePair

/-- the pile-inspecting filters of the harness (`c16Filter`), on the piles `a`, `b` of the pair's
    images A and B (`Loc.Len() = e - s`, `Loc.Start() = s`, `Loc.End() = e`):
    `L k` both at least `k` long, `l k` one of them, `S k` both start at or after `k`, `E k` one ends
    at or before `k`, `C q` coverage (`A.Len()*100 ≥ A.Loc.Len()*q ∨ …`, the filter of the repository's
    TestPiler), `Q` the images lie in different piles -/
def locFilter (fs : Feats) (kind : Char) (k : Int) : LocFilter := fun id pa pb =>
  match pa, pb with
  | some a, some b =>
    let la := a.e - a.s
    let lb := b.e - b.s
    if kind == 'L' then decide (la ≥ k) && decide (lb ≥ k)
    else if kind == 'l' then decide (la ≥ k) || decide (lb ≥ k)
    else if kind == 'S' then decide (a.s ≥ k) && decide (b.s ≥ k)
    else if kind == 'E' then decide (a.e ≤ k) || decide (b.e ≤ k)
    else if kind == 'Q' then !(a.loc == b.loc && a.s == b.s && a.e == b.e)
    else if kind == 'C' then
      match fs.lookup (2 * id), fs.lookup (2 * id + 1) with
      | some ka, some kb => decide ((ka.e - ka.s) * 100 ≥ la * k) || decide ((kb.e - kb.s) * 100 ≥ lb * k)
      | _, _ => false
    else false
  | _, _ => false

/-- a filter token: `n`, a 0/1 mask over pair ids, or a pile-inspecting filter -/
inductive Flt
  | nil
  | mask (cs : List Char)
  | loc (kind : Char) (k : Int)

def parseFlt (s : String) : Option Flt :=
  if s == "n" then some .nil
  else match s.toList with
    | [] => none
    | c :: rest =>
      if c == '0' || c == '1' then some (.mask (c :: rest))
      else if c == 'Q' then (if rest.isEmpty then some (.loc 'Q' 0) else none)
      else if "LlSEC".toList.contains c then (parseInt (String.ofList rest)).map (.loc c)
      else none

/-- the filter on pair ids a token amounts to when the images sit in the piles `ps`
    (`none` = nil filter) -/
def Flt.on (fs : Feats) (ps : List Pile) : Flt → Option (Nat → Bool)
  | .nil => none
  | .mask cs => some fun id => cs.getD id '0' == '1'
  | .loc c k => some ((locFilter fs c k).on ps)

/-- what a pile-inspecting filter would answer on features that are not yet located in a pile
    (`Feature.Loc` still the `Contig`: `Len() = Start() = End() = 0`); only used for the tag that
    counts the cases on which the time of evaluation matters -/
def staleOn (fs : Feats) (c : Char) (k : Int) : Nat → Bool := fun id =>
  let st (i : Nat) : Option Pile := (fs.lookup i).map fun key => ⟨key.loc, 0, 0, []⟩
  locFilter fs c k id (st (2 * id)) (st (2 * id + 1))

def parsePile (s : String) : Option Pile :=
  match s.splitOn ":" with
  | [l, a, b, is] =>
    match parseNat l, parseInt a, parseInt b with
    | some l, some a, some b =>
      if is == "-" then some ⟨l, a, b, []⟩
      else match (is.splitOn ".").mapM parseNat with
        | some is => some ⟨l, a, b, is⟩
        | none => none
    | _, _, _ => none
  | _ => none

def parsePiles (s : String) : Option (List Pile) :=
  if s == "-" then some [] else (s.splitOn ";").mapM parsePile

structure FeatObs where
  id : Nat
  pile : Int
  mate : Int
  mok : Bool

def parseFeat (s : String) : Option FeatObs :=
  match (s.splitOn ":").mapM parseInt with
  | some [i, p, m, k] => if i < 0 then none else some ⟨i.toNat, p, m, k == 1⟩
  | _ => none

def parseFeats (s : String) : Option (List FeatObs) :=
  if s == "-" then some [] else (s.splitOn ";").mapM parseFeat

/-! canonical form of a pile list: images ascending, piles by (loc, start, end, images) -/

def leList : List Nat → List Nat → Bool
  | [], _ => true
  | _ :: _, [] => false
  | a :: as, b :: bs => a < b || (a == b && leList as bs)

def lePile (p q : Pile) : Bool :=
  p.loc < q.loc || (p.loc == q.loc &&
    (p.s < q.s || (p.s == q.s &&
      (p.e < q.e || (p.e == q.e && leList p.imgs q.imgs)))))

def canonPile (p : Pile) : Pile := { p with imgs := p.imgs.mergeSort (fun a b => decide (a ≤ b)) }

def canon (ps : List Pile) : List Pile := (ps.map canonPile).mergeSort lePile

def showPile (p : Pile) : String :=
  s!"{p.loc}:{p.s}:{p.e}:" ++ (if p.imgs.isEmpty then "-" else ".".intercalate (p.imgs.map toString))

def showPiles (ps : List Pile) : String :=
  if ps.isEmpty then "-" else ";".intercalate (ps.map showPile)

def applyFilter (f : Option (Nat → Bool)) (ps : List Pile) : List Pile :=
  match f with
  | none => ps
  | some f => ps.map fun p => { p with imgs := p.imgs.filter fun i => f (i / 2) }

/-! what the property says about the Add results, computed from the input only -/

/-- expected results: an Add succeeds iff no earlier *successful* Add had the same pair in
    either orientation (equivalently: no earlier Add at all had it) -/
def expectAdds : List PairIn → List (Key × Key) → List Bool
  | [], _ => []
  | x :: xs, earlier =>
    let dup := earlier.contains (x.a, x.b) || earlier.contains (x.b, x.a)
    (!dup) :: expectAdds xs ((x.a, x.b) :: earlier)

/-- features of the accepted Adds -/
def specFeats (xs : List PairIn) (oks : List Bool) : Feats :=
  (xs.zip oks).flatMap fun (x, ok) => if ok then [(2 * x.id, x.a), (2 * x.id + 1, x.b)] else []

def showBits (bs : List Bool) : String :=
  if bs.isEmpty then "-" else String.ofList (bs.map fun b => if b then '1' else '0')

def firstIds : List PairIn → List Nat → List Nat
  | [], acc => acc.reverse
  | x :: xs, acc => if acc.contains x.id then firstIds xs acc else firstIds xs (x.id :: acc)

/-- reason for a `checkPiles` failure (diagnostic only; the verdict comes from `checkPiles`) -/
def whyNot (fs : Feats) (ps : List Pile) : String :=
  if !featsOK fs then "bad-feature-table"
  else if !onceOK fs ps then "feature-not-in-exactly-one-pile"
  else match ps.find? (fun p => !checkPile fs p) with
    | some p => s!"pile-not-connected-union-of-members {showPile p}"
    | none => if !sepAll ps then "piles-of-one-location-overlap-or-abut" else "?"

def inputOK (xs : List PairIn) : Bool :=
  xs.all (fun x => decide (x.a.s ≤ x.a.e) && decide (x.b.s ≤ x.b.e)) &&
  xs.all (fun x => xs.all fun y => x.id != y.id || (x.a == y.a && x.b == y.b))

def idxOf (ps : List Pile) (i : Nat) : Int :=
  match ps.findIdx? (fun p => p.imgs.contains i) with
  | some k => k
  | none => -1

/-- checks one `F=` list against one `P=` list (implementation's), for accepted features -/
def featWhy (fs : Feats) (nilFilter : Bool) (ps : List Pile) (fo : List FeatObs) : Option String :=
  fo.findSome? fun o =>
    match fs.lookup o.id with
    | none => none          -- feature of a rejected pair: the property says nothing
    | some k =>
      if o.pile < (0 : Int) then some s!"location-of-feature-{o.id}-is-not-a-reported-pile"
      else match ps[o.pile.toNat]? with
        | none => some s!"location-of-feature-{o.id}-is-not-a-reported-pile"
        | some p =>
          if p.loc ≠ k.loc || k.s < p.s || p.e < k.e then some s!"location-of-feature-{o.id}-is-a-pile-that-does-not-contain-it"
          else if nilFilter && !p.imgs.contains o.id then some s!"feature-{o.id}-not-an-image-of-its-location-pile"
          else if o.mate ≠ Int.ofNat (if o.id % 2 == 0 then o.id + 1 else o.id - 1) then some s!"mate-of-feature-{o.id}-wrong"
          else if !o.mok then some s!"mate-link-of-feature-{o.id}-broken"
          else none

def abuts (fs : Feats) : Bool :=
  fs.any fun f => fs.any fun g => f.2.loc == g.2.loc && f.2.e == g.2.s && f.1 != g.1

/-- groups the observation tokens after `A=` into (P, F, K) calls -/
def groupCalls : List String → Option (List (String × String × String))
  | [] => some []
  | p :: f :: k :: rest =>
    if p.startsWith "P=" && f.startsWith "F=" && k.startsWith "K=" then
      (groupCalls rest).map (((p.drop 2).toString, (f.drop 2).toString, (k.drop 2).toString) :: ·)
    else none
  | _ => none

/-- `K=`: ids of the accepted pairs the filter accepts when asked after the call -/
def parseK (s : String) : Option (List Nat) :=
  if s == "-" then some [] else (s.splitOn ".").mapM parseNat

def showK (ids : List Nat) : String := if ids.isEmpty then "-" else ".".intercalate (ids.map toString)

def handleCase (xs : List PairIn) (filters : List String) (obs : String) : Verdict :=
  if !inputOK xs then { status := "skip", detail := "ill-formed input (start > end or one id with two keys)" } else
  match tokens obs with
  | [] => bad "empty observation"
  | a :: calls =>
    if !a.startsWith "A=" then
      (if obs.startsWith "panic" || obs == "hang" then fail s!"implementation {obs.take 80}" ["panic"] else bad "observation")
    else
    match groupCalls calls, filters.mapM parseFlt with
    | none, _ => bad "observation calls"
    | _, none => bad "filter token"
    | some calls, some flts =>
      if calls.length ≠ filters.length then bad "call count" else
      let implAdds := (a.drop 2).toString
      -- model
      let (P, oks) := Piler.new.addAll xs
      let ref := canon (P.piles none)
      let order := firstIds xs []
      let accIds := (((xs.zip oks).filter (·.2)).map (·.1.id)).mergeSort (fun a b => decide (a ≤ b))
      let modelCall (f : Flt) : String :=
        -- the model's `Piles`: `piles` for nil / mask filters, `pilesLoc` (filter evaluated on the
        -- final piles) for pile-inspecting ones
        let ps := match f with
          | .nil => ref
          | .mask cs => canon (P.piles (some fun id => cs.getD id '0' == '1'))
          | .loc c k => canon (P.pilesLoc (locFilter P.feats c k))
        let kstr := match f with
          | .nil => "n"
          | .mask cs => showK (accIds.filter fun id => cs.getD id '0' == '1')
          | .loc c k => showK (accIds.filter ((locFilter P.feats c k).on (P.piles none)))
        let fl := order.flatMap fun id => [2 * id, 2 * id + 1]
        let fstr := fl.map fun i =>
          let m := if i % 2 == 0 then i + 1 else i - 1
          s!"{i}:{idxOf ref i}:{m}:1"
        s!"P={showPiles ps} F=" ++ (if fstr.isEmpty then "-" else ";".intercalate fstr) ++ s!" K={kstr}"
      let model := s!"A={showBits oks} " ++ " ".intercalate (flts.map modelCall)
      -- statement
      let want := expectAdds xs []
      let fs := specFeats xs want
      let specIds := (((xs.zip want).filter (·.2)).map (·.1.id))
      let staleSensitive (f : Flt) : Bool := match f with
        | .loc c k => specIds.any fun id => staleOn fs c k id != (locFilter fs c k).on ref id
        | _ => false
      let nmerged := ref.any fun p => p.imgs.length > 1
      let tags :=
        (if nmerged then ["nt", "merged"] else ["no-merge"]) ++
        [if xs.length ≤ 6 then "n<=6" else "n>6"] ++
        (if want.contains false then ["dup-pair"] else []) ++
        (if filters.any (· ≠ "n") then ["filter"] else []) ++
        (if flts.any (fun f => match f with | .loc .. => true | _ => false) then ["pile-filter"] else []) ++
        (match flts.head? with | some (.loc ..) => ["pile-filter-first-call"] | _ => []) ++
        (match flts.head? with
          | some f => if staleSensitive f then ["first-call-filter-differs-on-unlocated-features"] else []
          | none => []) ++
        (if filters.length > 1 then ["repeated-piles"] else []) ++
        (if abuts fs then ["abutting"] else []) ++
        (if fs.any (fun f => f.2.s == f.2.e) then ["empty-interval"] else []) ++
        [s!"locs{(fs.map (·.2.loc)).eraseDups.length}"]
      if implAdds ≠ showBits want then
        fail s!"duplicate-detection want={showBits want} got={implAdds}" tags
      else if !checkPiles fs ref then
        -- the reference used for filtered calls must itself satisfy the statement
        { status := "bad-line", detail := "model piles do not pass checkPiles: " ++ whyNot fs ref }
      else
        let why := ((filters.zip flts).zip calls).findSome? fun ((f, fl), (ps, fo, ko)) =>
          match parsePiles ps, parseFeats fo with
          | some ps, some fo =>
            -- the filter of this call on the final piles (the validated components)
            let flt := fl.on fs ref
            let pw :=
              if f == "n" then (if checkPiles fs ps then none else some (whyNot fs ps))
              else if canon ps != applyFilter flt ref then
                some "filtered-piles-are-not-the-components-with-images-selected"
              else match parseK ko with
                | none => some "unparsable-observation"
                | some ks =>
                  -- listed iff the filter, asked after the call returned, accepts the pair
                  if canon ps == applyFilter (some fun id => ks.contains id) ref then none
                  else some "listed-images-are-not-those-whose-pair-the-filter-accepts-after-the-call"
            match pw with
            | some w => some w
            | none => featWhy fs (f == "n") ps fo
          | _, _ => some "unparsable-observation"
        match why with
        | some w => fail w tags
        | none => if model == obs then ok tags else diff model tags

def ops : List String := ["pl"]

def handle (line : String) : String :=
  let (inp, obs) := splitCase line
  match tokens inp with
  | ["pl", ps, fl] =>
    match parsePairs ps with
    | some xs => (handleCase xs (fl.splitOn "/") obs).render
    | none => (bad "pairs").render
  | _ => (bad "unknown-op").render

end Biogo.Drive.C16
