/-
Shared by the drivers of C08 (part lin) and C09 (part lin): parsing of the harness input
`<op> <alpha> <matrix> <ref> <qry> <mode>` (harness/props/c08_lin.go), construction of the
model's `Call`, rendering of model results and parsing of implementation results.
Core-only.
-/
import Biogo.Go.Wire
import Biogo.Model.Alphabet
import Biogo.Model.AlignLin
import Biogo.Spec.AlignPairs

namespace Biogo.Drive.AlignLinWire
open Biogo.Wire Biogo.AlignLin Biogo.Spec.AlignPairs Biogo.Spec.Alignment

structure Case where
  al : Aligner
  cls : Class
  alpha : Biogo.Alphabet.Alpha
  gap : UInt8
  mat : List (List Int)
  la : Array Int            -- the flattened matrix, computed once
  ri : List Nat             -- alphabet indices of the sequences (meaningful for legal letters)
  qi : List Nat
  r : List UInt8
  q : List UInt8
  mode : String

def parseRow (s : String) : Option (List Int) :=
  if s == "e" then some [] else (s.splitOn ",").mapM parseInt

def parseMatrix (s : String) : Option (List (List Int)) :=
  if s == "-" then some [] else (s.splitOn ";").mapM parseRow

def parseAlpha (s : String) : Option (Biogo.Alphabet.Alpha × UInt8) :=
  match s.splitOn ":" with
  | [hex, cased, gap] =>
    match bytesOfHex hex, parseBool cased, parseNat gap with
    | some ls, some cased, some gap =>
      match Biogo.Alphabet.newAlphabet ls (UInt8.ofNat gap) 110 cased with
      | .ok a => some (a, UInt8.ofNat gap)
      | .error _ => none
    | _, _, _ => none
  | _ => none

def parseCase (inp : List String) : Option Case :=
  match inp with
  | [op, alpha, mat, r, q, mode] =>
    let al : Option (Aligner × Class) :=
      if op == "nw" then some (.nw, .global) else if op == "sw" then some (.sw, .loc)
      else if op == "fit" then some (.fit, .fitted) else none
    match al, parseAlpha alpha, parseMatrix mat, bytesOfHex r, bytesOfHex q with
    | some (al, cls), some (a, gap), some mat, some r, some q =>
      if ["LL", "LQ", "QL", "A2", "NA"].contains mode then
        some { al, cls, alpha := a, gap, mat, la := mat.flatten.toArray, ri := toIdx a.index r,
               qi := toIdx a.index q, r, q, mode }
      else none
    | _, _, _, _, _ => none
  | _ => none

/-- the `Align` call the harness makes for a case; `qual` selects the QLetters variant of
    mode `LL` -/
def Case.call (c : Case) (qual : Bool := false) : Call :=
  { refAlpha := if c.mode == "NA" then none else some 0
    qryAlpha := if c.mode == "A2" then some 1 else some 0
    gapIndex := c.alpha.indexOf c.gap
    refQ := if c.mode == "QL" then true else if c.mode == "LL" then qual else false
    qryQ := if c.mode == "LQ" then true else if c.mode == "LL" then qual else false
    alphaLen := c.alpha.length
    index := c.alpha.index
    mat := c.mat
    r := c.r
    q := c.q }

def showPair (p : Pair) : String := s!"{p.a0}:{p.a1}/{p.b0}:{p.b1}={p.score}"

def showPairs (ps : List Pair) : String :=
  if ps.isEmpty then "ok:-" else "ok:" ++ ",".intercalate (ps.map showPair)

def showErr : Err → String
  | .noAlphabet => "err:noalphabet" | .alphabets => "err:alphabets" | .notGapped => "err:notgapped"
  | .types => "err:types" | .notSquare => "err:notsquare"
  | .wrongSize s l => s!"err:wrongsize:{s}:{l}"
  | .illegalR p => s!"err:illegal:r:{p}" | .illegalQ p => s!"err:illegal:q:{p}"

def showRes : Res → String
  | .ok ps => showPairs ps
  | .error e => showErr e
  | .panic _ => "panic"

def parsePair (s : String) : Option Pair :=
  match s.splitOn "=" with
  | [coords, sc] =>
    match coords.splitOn "/" with
    | [a, b] =>
      match a.splitOn ":", b.splitOn ":" with
      | [a0, a1], [b0, b1] =>
        match parseNat a0, parseNat a1, parseNat b0, parseNat b1, parseInt sc with
        | some a0, some a1, some b0, some b1, some sc => some ⟨a0, a1, b0, b1, sc⟩
        | _, _, _, _, _ => none
      | _, _ => none
    | _ => none
  | _ => none

/-- `ok:<pairs>` of an implementation result -/
def parseOkPairs (s : String) : Option (List Pair) :=
  if s == "ok:-" then some []
  else if s.startsWith "ok:" then ((s.drop 3).toString.splitOn ",").mapM parsePair
  else none

def isPanic (s : String) : Bool := s.startsWith "panic"
def isErr (s : String) : Bool := s.startsWith "err:"

/-- model observation for mode `LL`: `<resL> <resQ> <fmtL> <fmtQ>` -/
def modelObsLL (c : Case) (resL : Res) : String :=
  -- the model's `align` reads the slice types only through `refQ ≠ qryQ`, so the QLetters
  -- variant of mode LL has the same result as the Letters variant
  let resQ := resL
  let fmtOf (res : Res) : String :=
    match res with
    | .ok ps =>
      let rows := formatRows c.gap c.r c.q ps
      hexOfBytes rows.1 ++ "/" ++ hexOfBytes rows.2
    | _ => "x"
  let sL := showRes resL
  let sQ := showRes resQ
  let fL := fmtOf resL
  let fQ := fmtOf resQ
  s!"{sL} {if sQ == sL then "=" else sQ} {fL} {if fQ == fL then "=" else fQ}"

/-- implementation panics are observed as `panic:<hex>`; the model says only `panic` -/
def normPanic (s : String) : String := if isPanic s then "panic" else s

def normObs (obs : String) : String := " ".intercalate ((tokens obs).map normPanic)

/-- the scoring function and index sequences of a legal case -/
def Case.S (c : Case) : Matrix := matOf c.la c.mat.length

/-- hypothesis of C08: every gap score is non-positive -/
def gapsNonPos (c : Case) : Bool :=
  let S := c.S
  (List.range c.mat.length).all fun x => decide (S x 0 ≤ 0) && decide (S 0 x ≤ 0)

def lenTag (n : Nat) : String :=
  if n == 0 then "len0" else if n ≤ 3 then "len1-3" else if n ≤ 6 then "len4-6"
  else if n ≤ 30 then "len7-30" else if n ≤ 100 then "len31-100" else "len101+"

def opTag (c : Case) : String :=
  match c.al with | .nw => "nw" | .sw => "sw" | .fit => "fit"

end Biogo.Drive.AlignLinWire
