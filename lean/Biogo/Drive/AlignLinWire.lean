/-
Shared by the drivers of C08 (part lin) and C09 (part lin): parsing of the harness input
`<op> <alpha> <matrix> <ref> <qry> <mode>` (harness/props/c08_lin.go), construction of the
model's `Call`, rendering of model results and parsing of implementation results.
Core-only.
-/
import Biogo.Go.Wire
import Biogo.Model.Alphabet
import Biogo.Model.AlignLin
import Biogo.Spec.AlignPairs

namespace Biogo.Drive.AlignLinWire
open Biogo.Wire Biogo.AlignLin Biogo.Spec.AlignPairs Biogo.Spec.Alignment

structure Case where
  al : Aligner
  cls : Class
  alpha : Biogo.Alphabet.Alpha
  gap : UInt8
  mat : List (List Int)
  la : Array Int            -- the flattened matrix, computed once
  ri : List Nat             -- alphabet indices of the sequences (meaningful for legal letters)
  qi : List Nat
  r : List UInt8
  q : List UInt8
  mode : String

def parseRow (s : String) : Option (List Int) :=
  if s == "e" then some [] else (s.splitOn ",").mapM parseInt

def parseMatrix (s : String) : Option (List (List Int)) :=
  if s == "-" then some [] else (s.splitOn ";").mapM parseRow

def parseAlpha (s : String) : Option (Biogo.Alphabet.Alpha × UInt8) :=
  match s.splitOn ":" with
  | [hex, cased, gap] =>
    match bytesOfHex hex, parseBool cased, parseNat gap with
    | some ls, some cased, some gap =>
      match Biogo.Alphabet.newAlphabet ls (UInt8.ofNat gap) 110 cased with
      | .ok a => some (a, UInt8.ofNat gap)
      | .error _ => none
    | _, _, _ => none
  | _ => none

def parseCase (inp : List String) : Option Case :=
  match inp with
  | [op, alpha, mat, r, q, mode] =>
    let al : Option (Aligner × Class) :=
      if op == "nw" then some (.nw, .global) else if op == "sw" then some (.sw, .loc)
      else if op == "fit" then some (.fit, .fitted) else none
    match al, parseAlpha alpha, parseMatrix mat, bytesOfHex r, bytesOfHex q with
    | some (al, cls), some (a, gap), some mat, some r, some q =>
      if ["LL", "LQ", "QL", "A2", "NA"].contains mode then
        some { al, cls, alpha := a, gap, mat, la := mat.flatten.toArray, ri := toIdx a.index r,
               qi := toIdx a.index q, r, q, mode }
      else none
    | _, _, _, _, _ => none
  | _ => none

/-- the `Align` call the harness makes for a case; `qual` selects the QLetters variant of
    mode `LL` -/
def Case.call (c : Case) (qual : Bool := false) : Call :=
  { refAlpha := if c.mode == "NA" then none else some 0
    qryAlpha := if c.mode == "A2" then some 1 else some 0
    gapIndex := c.alpha.indexOf c.gap
    refQ := if c.mode == "QL" then true else if c.mode == "LL" then qual else false
    qryQ := if c.mode == "LQ" then true else if c.mode == "LL" then qual else false
    alphaLen := c.alpha.length
    index := c.alpha.index
    mat := c.mat
    r := c.r
    q := c.q }

def showPair (p : Pair) : String := s!"{p.a0}:{p.a1}/{p.b0}:{p.b1}={p.score}"

def showPairs (ps : List Pair) : String :=
  if ps.isEmpty then "ok:-" else "ok:" ++ ",".intercalate (ps.map showPair)

def showErr : Err → String
  | .noAlphabet => "err:noalphabet" | .alphabets => "err:alphabets" | .notGapped => "err:notgapped"
  | .types => "err:types" | .notSquare => "err:notsquare"
  | .wrongSize s l => s!"err:wrongsize:{s}:{l}"
  | .illegalR p => s!"err:illegal:r:{p}" | .illegalQ p => s!"err:illegal:q:{p}"

def showRes : Res → String
  | .ok ps => showPairs ps
  | .error e => showErr e
  | .panic _ => "panic"

def parsePair (s : String) : Option Pair :=
  match s.splitOn "=" with
  | [coords, sc] =>
    match coords.splitOn "/" with
    | [a, b] =>
      match a.splitOn ":", b.splitOn ":" with
      | [a0, a1], [b0, b1] =>
        match parseNat a0, parseNat a1, parseNat b0, parseNat b1, parseInt sc with
        | some a0, some a1, some b0, some b1, some sc => some ⟨a0, a1, b0, b1, sc⟩
        | _, _, _, _, _ => none
      | _, _ => none
    | _ => none
  | _ => none

/-- `ok:<pairs>` of an implementation result -/
def parseOkPairs (s : String) : Option (List Pair) :=
  if s == "ok:-" then some []
  else if s.startsWith "ok:" then ((s.drop 3).toString.splitOn ",").mapM parsePair
  else none

def isPanic (s : String) : Bool := s.startsWith "panic"
def isErr (s : String) : Bool := s.startsWith "err:"

/-- model observation for mode `LL`: `<resL> <resQ> <fmtL> <fmtQ>` -/
def modelObsLL (c : Case) (resL : Res) : String :=
  -- the model's `align` reads the slice types only through `refQ ≠ qryQ`, so the QLetters
  -- variant of mode LL has the same result as the Letters variant
  let resQ := resL
  let fmtOf (res : Res) : String :=
    match res with
    | .ok ps =>
      let rows := formatRows c.gap c.r c.q ps
      hexOfBytes rows.1 ++ "/" ++ hexOfBytes rows.2
    | _ => "x"
  let sL := showRes resL
  let sQ := showRes resQ
  let fL := fmtOf resL
  let fQ := fmtOf resQ
  s!"{sL} {if sQ == sL then "=" else sQ} {fL} {if fQ == fL then "=" else fQ}"

/-- implementation panics are observed as `panic:<hex>`; the model says only `panic` -/
def normPanic (s : String) : String := if isPanic s then "panic" else s

def normObs (obs : String) : String := " ".intercalate ((tokens obs).map normPanic)

/-- the scoring function and index sequences of a legal case -/
def Case.S (c : Case) : Matrix := matOf c.la c.mat.length

/-- hypothesis of C08: every gap score is non-positive.  The gap scores are the entries
    `a[x][0]` and `a[0][x]` for the letters `x` of the alphabet; when the matrix is larger
    than the alphabet its further rows and columns belong to no letter and are not gap scores
    (the theorems need the hypothesis only for the letters that occur, `GapsNonPos`). -/
def gapsNonPos (c : Case) : Bool :=
  let S := c.S
  (List.range (min c.alpha.length c.mat.length)).all fun x => decide (S x 0 ≤ 0) && decide (S 0 x ≤ 0)

/-- shape class of the matrix relative to the alphabet (`let = len(a)`, `n = alpha.Len()`):
    the legal classes `exact` (`let = n`), `oversized+1`, `+2`, `+3..` (square, `let > n`), and
    the ill-typed ones — `let < n`: `empty`, `undersized-square`, `short` (not square);
    `let ≥ n` with a row of another length: `rect` (all rows of one length ≠ `let`: wide or
    tall), `ragged-in-alphabet-rows` (a bad row among the first `n`), `ragged-beyond-alphabet-rows`
    (all bad rows are extra rows of an oversized matrix). -/
def shapeClass (c : Case) : String :=
  let n := c.alpha.length
  let k := c.mat.length
  let sq := isSquare c.mat
  if k == 0 then "empty"
  else if k < n then (if sq then "undersized-square" else "short")
  else if sq then
    (if k == n then "exact" else if k == n + 1 then "oversized+1" else if k == n + 2 then "oversized+2"
     else "oversized+3..")
  else
    let l0 := (c.mat.headD []).length
    if c.mat.all (fun row => row.length == l0) then (if l0 > k then "rect-wide" else "rect-tall")
    else if (c.mat.take n).any (fun row => row.length != k) then "ragged-in-alphabet-rows"
    else "ragged-beyond-alphabet-rows"

/-- content class of a legal matrix on the block the alphabet addresses -/
def contentTags (c : Case) : List String :=
  let S := c.S
  let idx := List.range (min c.alpha.length c.mat.length)
  let sym := idx.all fun x => idx.all fun y => S x y == S y x
  let zeroGaps := idx.all fun x => S x 0 == 0 && S 0 x == 0
  let const := idx.all fun x => idx.all fun y => S x y == S 0 0
  [if sym then "mat-symmetric" else "mat-asymmetric"] ++
    (if zeroGaps then ["mat-zero-gaps"] else []) ++ (if const then ["mat-ties-everywhere"] else [])

def lenTag (n : Nat) : String :=
  if n == 0 then "len0" else if n ≤ 3 then "len1-3" else if n ≤ 6 then "len4-6"
  else if n ≤ 30 then "len7-30" else if n ≤ 100 then "len31-100" else "len101+"

def opTag (c : Case) : String :=
  match c.al with | .nw => "nw" | .sw => "sw" | .fit => "fit"

/-- `<aligner>:mat-<shape class>`: the evidence histogram shows every shape class per aligner -/
def shapeTag (c : Case) : String := opTag c ++ ":mat-" ++ shapeClass c

end Biogo.Drive.AlignLinWire
