/-
Driver for C01.  For one case
  fa <width> <typ> <alphabet> {<name> <desc> <letters> <quals>}*
  fq <qid> <typ> <enc> <alphabet> {...}*
it (1) runs the writer and reader models, (2) evaluates the statement of C01 on the
implementation's observation — every returned `n` equals the bytes emitted by that Write,
and, when the records are well formed (`Biogo.Spec.Seqio`) and the width is positive, the
call history of the reader is exactly the records in order followed by `EOF` — and (3)
compares model and implementation (bytes by FNV-1a hash and length, counts, call history).
Core only.
-/
import Biogo.Drive.SeqioWire
import Biogo.Model.SeqFormat
import Biogo.Generated.Alphabets

namespace Biogo.Drive.C01
open Biogo.Wire Biogo.Go.Bytes Biogo.Drive.Seqio Biogo.Spec.Seqio

def ops : List String := ["fa", "fq", "fap", "fva", "fvq", "fax", "fqx", "fapx"]

/-- what is demanded of a parsed observation: `ns` the counts the `Write` calls returned, `ds` the
    bytes each of them emitted (both as the harness prints them), `calls` the reader's call history
    as tokens.  Proved in `Properties/C01_checker.lean` (`demands_none_iff`). -/
def demands (wf : Bool) (expected : List String) (ns ds : String) (calls : List String) : Option String :=
  if ns ≠ ds then some s!"write-count: returned n={ns} bytes emitted={ds}"
  else if wf && calls ≠ expected then
    some ("roundtrip: expected " ++ ((" ".intercalate expected).take 300).toString)
  else none

/-- the call history demanded of a FASTA round trip: every record, then `EOF`; it is the
    rendering of the conclusion of `fasta_roundtrip` (`fasta_expected_is_roundtrip`) -/
def expectedFa (recs : List Biogo.Fasta.Rec) : List String :=
  recs.map (fun r => "R:" ++ recFields r.name r.desc r.letters []) ++ ["EOF"]

/-- the call history demanded of a FASTQ round trip (`plain`: a `linear.Seq`, no scores of its own);
    the rendering of the conclusion of `fastq_roundtrip` / `fastq_roundtrip_plain` -/
def expectedFq (plain : Bool) (recs : List Biogo.Fastq.QRec) : List String :=
  recs.map (fun r => "R:" ++ recFields r.name r.desc r.letters (if plain then [] else r.quals)) ++ ["EOF"]

/-- statement of C01 on the implementation's observation; `none` = holds -/
def statement (wf : Bool) (expected : List String) (obs : String) : Option String :=
  if obs.startsWith "panic:" then (if wf then some "writer-or-reader-panicked" else none)
  else if obs == "hang" then (if wf then some "writer-or-reader-hung" else none)
  else
    match tokens obs with
    | "w" :: ns :: ds :: _ :: _ :: "r" :: calls => demands wf expected ns ds calls
    | _ => if wf then some "unparsable-observation" else none

def verdict (wf : Bool) (expected : List String) (model obs : String) (tags : List String) : Verdict :=
  match statement wf expected obs with
  | some why => fail why tags
  | none => if model == obs then ok tags else diff (model.take 600).toString tags

def handleFa (width : Nat) (typ alpha : String) (rs : List (Bytes × Bytes × Bytes × Bytes)) (obs : String)
    (fastaCfg : Biogo.Fasta.Cfg := fastaCfg) (userPrefixes : Bool := false) : Verdict :=
  let recs : List Biogo.Fasta.Rec := rs.map fun (n, d, l, _) => ⟨n, d, l⟩
  -- with user-set prefixes only the write count is demanded (the statement names the default reader/writer)
  let wf := width ≥ 1 && recs.all wfFasta && !userPrefixes
  let maxLen := recs.foldl (fun m r => max m r.letters.length) 0
  let tags := ["fasta", "typ-" ++ typ, alpha, s!"recs{min recs.length 3}", lenTag maxLen,
               if width ≤ 3 then "width1-3" else if width < 4096 then "width<4096" else "width>=4096"]
             ++ (if wf then (if recs.isEmpty then ["wf"] else ["wf", "nt"]) else ["nonwf"])
             ++ (if userPrefixes then ["user-prefixes"] else [])
  let expected := expectedFa recs
  let model :=
    match Biogo.Fasta.writeAll { cfg := fastaCfg, width := width } {} recs with
    | .error p => "panic:" ++ p.code
    | .ok (sink, ns) =>
      let bytes := sink.bytes
      s!"w {showNats ns} {showNats ns} {hex16 (fnv1a bytes)} {bytes.length} r {fastaCalls (Biogo.Fasta.readAll fastaCfg bytes)}"
  if model.startsWith "panic:" && obs.startsWith "panic:" then ok ("expected-panic" :: tags)
  else verdict wf expected model obs tags

def handleFq (qid : Bool) (typ : String) (enc : Biogo.Fastq.Encoding) (alpha : String)
    (rs : List (Bytes × Bytes × Bytes × Bytes)) (obs : String) : Verdict :=
  let recs : List Biogo.Fastq.QRec := rs.map fun (n, d, l, q) => ⟨n, d, l, q⟩
  let plain := typ == "s"
  let wf := if plain then recs.all wfFastqPlain else recs.all (wfFastq enc)
  let maxLen := recs.foldl (fun m r => max m r.letters.length) 0
  let startsAtPlus := recs.any fun r =>
    match r.quals.head? with
    | some q => let c := Biogo.Fastq.encode qtables enc q; c == 64 || c == 43
    | none => false
  let tags := ["fastq", "typ-" ++ typ, alpha, encName enc, if qid then "qid" else "plus-only",
               s!"recs{min recs.length 3}", lenTag maxLen]
             ++ (if startsAtPlus then ["quality-starts-with-@-or-+"] else [])
             ++ (if wf then (if recs.isEmpty then ["wf"] else ["wf", "nt"]) else ["nonwf"])
  let expected := expectedFq plain recs
  -- a plain linear.Seq has no Encoding method: the writer uses Sanger and At(i).Q = DefaultQphred
  let (wrecs, wenc) := if plain then (recs.map Biogo.Fastq.ofPlain, Biogo.Fastq.Encoding.sanger) else (recs, enc)
  let (sink, ns) := Biogo.Fastq.writeAll qtables qid wenc {} wrecs
  let bytes := sink.bytes
  let calls := Biogo.Fastq.readAll (fastqCfg typ enc) (eofWithData bytes) bytes
  let model := s!"w {showNats ns} {showNats ns} {hex16 (fnv1a bytes)} {bytes.length} r {fastqCalls calls}"
  verdict wf expected model obs tags

/-! ### writers over an `io.Writer` that fails (ops `fax`, `fqx`)
"The byte count returned by each write equals the number of bytes actually emitted" — also by a
`Write` that fails part-way.  The harness writes the records, for every `k` up to the length of the
fault-free text, to a writer that accepts exactly `k` bytes and then fails. -/

/-- the failing sink seen from a writer that adds up what its `w.w.Write` calls return and stops at
    the first error: the record whose fault-free text has `len` bytes and starts at offset `s` is
    emitted completely when it fits (`s + len ≤ k`), otherwise its first `k - s` bytes are, and the
    `Write` reports them with an error.  Result: the counts, and the index of the failed `Write`. -/
def faultRun (k : Nat) : Nat → Nat → List Nat → List Nat × Option Nat
  | _, _, [] => ([], none)
  | i, s, len :: rest =>
    if s + len ≤ k then
      let (ns, e) := faultRun k (i + 1) (s + len) rest
      (len :: ns, e)
    else ([k - s], some i)

def faultToken (lens : List Nat) (k : Nat) : String :=
  let (ns, e) := faultRun k 0 0 lens
  let e := match e with | some i => toString i | none => "-"
  s!"{showNats ns}/{showNats ns}/{e}/1"

/-- `lens`: what each `Write` of the fault-free run returned (the model's), `bytes` its text -/
def faultModel (lens : List Nat) (bytes : Bytes) : String :=
  " ".intercalate (["x", toString bytes.length, hex16 (fnv1a bytes)]
    ++ (List.range (bytes.length + 1)).map (faultToken lens))

/-- what is demanded of one failure point `<n,…>/<delta,…>/<e>/<p>`: every returned count equals
    the bytes emitted by that `Write` (the failed one included), and the bytes emitted are the first
    bytes of the fault-free text -/
def faultDemand (k : Nat) (tok : String) : Option String :=
  match tok.splitOn "/" with
  | [ns, ds, _, p] =>
    if ns ≠ ds then some s!"write-count, writer failing after {k} bytes: returned n={ns} bytes emitted={ds}"
    else if p ≠ "1" then some s!"writer failing after {k} bytes: the bytes emitted are not a prefix of the fault-free text"
    else none
  | _ => some "unparsable-observation"

def faultDemands : Nat → List String → Option String
  | _, [] => none
  | k, t :: ts => match faultDemand k t with
    | some why => some why
    | none => faultDemands (k + 1) ts

/-- `noPanic`: the writer must not panic (width ≥ 1) -/
def faultVerdict (noPanic : Bool) (model obs : String) (tags : List String) : Verdict :=
  if obs.startsWith "panic:" || obs == "hang" then
    (if noPanic then fail "writer-panicked-or-hung" tags else diff (model.take 300).toString tags)
  else
    match tokens obs with
    | "x" :: _ :: _ :: toks =>
      match faultDemands 0 toks with
      | some why => fail why tags
      | none => if model == obs then ok tags else diff (model.take 600).toString tags
    | _ => if model == obs then ok tags else diff (model.take 600).toString tags

def handleFax (width : Nat) (typ alpha : String) (rs : List (Bytes × Bytes × Bytes × Bytes)) (obs : String)
    (fastaCfg : Biogo.Fasta.Cfg := fastaCfg) (userPrefixes : Bool := false) : Verdict :=
  let recs : List Biogo.Fasta.Rec := rs.map fun (n, d, l, _) => ⟨n, d, l⟩
  let tags := ["fasta", "failing-writer", "typ-" ++ typ, alpha, s!"recs{min recs.length 3}",
               if width ≤ 3 then "width1-3" else "width<4096"] ++ (if width ≥ 1 && !recs.isEmpty then ["nt"] else [])
             ++ (if userPrefixes then ["user-prefixes"] else [])
  match Biogo.Fasta.writeAll { cfg := fastaCfg, width := width } {} recs with
  | .error p => if obs.startsWith "panic:" then ok ("expected-panic" :: tags) else diff ("panic:" ++ p.code) tags
  | .ok (sink, ns) => faultVerdict (width ≥ 1) (faultModel ns sink.bytes) obs tags

def handleFqx (qid : Bool) (typ : String) (enc : Biogo.Fastq.Encoding) (alpha : String)
    (rs : List (Bytes × Bytes × Bytes × Bytes)) (obs : String) : Verdict :=
  let recs : List Biogo.Fastq.QRec := rs.map fun (n, d, l, q) => ⟨n, d, l, q⟩
  let plain := typ == "s"
  let tags := ["fastq", "failing-writer", "typ-" ++ typ, alpha, encName enc, if qid then "qid" else "plus-only",
               s!"recs{min recs.length 3}"] ++ (if recs.isEmpty then [] else ["nt"])
  let (wrecs, wenc) := if plain then (recs.map Biogo.Fastq.ofPlain, Biogo.Fastq.Encoding.sanger) else (recs, enc)
  let (sink, ns) := Biogo.Fastq.writeAll qtables qid wenc {} wrecs
  faultVerdict true (faultModel ns sink.bytes) obs tags

/-- the letters a `Format` verb prints: for a QSeq each letter goes through `seq.AmbigFilter`
    with the default threshold 3 and the alphabet's gap / ambiguous letters -/
def shownLetters (typ alpha : String) (l q : Bytes) : Bytes :=
  if typ == "s" then l
  else match Biogo.Generated.builtins.find? (·.name == alpha) with
    | some d => (l.zip (q ++ List.replicate (l.length - q.length) 0)).map fun (x, y) =>
        Biogo.SeqFormat.ambigFilter d.gap d.ambiguous 3 x y
    | none => l

def optNat (s : String) : Option (Option Nat) :=
  if s == "-" then some none else (parseNat s).map some

/-- `%a` / `%q` of one sequence, read back: compared with the model only (the verbs are not
    part of the statement of C01) -/
def handleFormat (fasta : Bool) (w prec : Option Nat) (plus : Bool) (typ : String) (enc : Biogo.Fastq.Encoding)
    (alpha : String) (r : Bytes × Bytes × Bytes × Bytes) (obs : String) : Verdict :=
  let (n, d, l, q) := r
  let shown := shownLetters typ alpha l q
  let tags := [if fasta then "format-a" else "format-q", "typ-" ++ typ, alpha, lenTag l.length]
    ++ (if shown != l then ["quality-filtered"] else []) ++ (if prec.isSome then ["precision"] else [])
  let out : Except Biogo.Go.Bytes.Panic Bytes :=
    if fasta then Biogo.SeqFormat.formatA w prec n d shown
    else
      let quals := if typ == "s" then List.replicate l.length 73
                   else (q ++ List.replicate (l.length - q.length) 0).map (Biogo.Fastq.encode qtables enc)
      .ok (Biogo.SeqFormat.formatQ plus prec n d shown quals)
  let model := match out with
    | .error p => "panic:" ++ p.code
    | .ok bytes =>
      let calls := if fasta then fastaCalls (Biogo.Fasta.readAll fastaCfg bytes)
                   else fastqCalls (Biogo.Fastq.readAll (fastqCfg typ enc) (eofWithData bytes) bytes)
      s!"f {hex16 (fnv1a bytes)} {bytes.length} r {calls}"
  if obs == "norec" then { status := "skip", tags := tags }
  else if model == obs then ok tags else diff (model.take 600).toString tags

def handle (line : String) : String :=
  let (inp, obs) := splitCase line
  let v : Verdict :=
    match tokens inp with
    | "fa" :: width :: typ :: alpha :: rest =>
      match parseNat width, parseRecs rest with
      | some w, some rs => handleFa w typ alpha rs obs
      | _, _ => bad "fa"
    | "fap" :: width :: idp :: sp :: typ :: alpha :: rest =>
      match parseNat width, bytesOfHex idp, bytesOfHex sp, parseRecs rest with
      | some w, some idp, some sp, some rs => handleFa w typ alpha rs obs { idPrefix := idp, seqPrefix := sp } true
      | _, _, _, _ => bad "fap"
    | "fq" :: qid :: typ :: enc :: alpha :: rest =>
      match parseBool qid, encOfString enc, parseRecs rest with
      | some qid, some enc, some rs => handleFq qid typ enc alpha rs obs
      | _, _, _ => bad "fq"
    | "fax" :: width :: typ :: alpha :: rest =>
      match parseNat width, parseRecs rest with
      | some w, some rs => handleFax w typ alpha rs obs
      | _, _ => bad "fax"
    | "fapx" :: width :: idp :: sp :: typ :: alpha :: rest =>
      match parseNat width, bytesOfHex idp, bytesOfHex sp, parseRecs rest with
      | some w, some idp, some sp, some rs => handleFax w typ alpha rs obs { idPrefix := idp, seqPrefix := sp } true
      | _, _, _, _ => bad "fapx"
    | "fqx" :: qid :: typ :: enc :: alpha :: rest =>
      match parseBool qid, encOfString enc, parseRecs rest with
      | some qid, some enc, some rs => handleFqx qid typ enc alpha rs obs
      | _, _, _ => bad "fqx"
    | "fva" :: w :: prec :: typ :: alpha :: rest =>
      match optNat w, optNat prec, parseRecs rest with
      | some w, some prec, some [r] => handleFormat true w prec false typ .sanger alpha r obs
      | _, _, _ => if obs == "norec" then { status := "skip" } else bad "fva"
    | "fvq" :: plus :: prec :: typ :: enc :: alpha :: rest =>
      match parseBool plus, optNat prec, encOfString enc, parseRecs rest with
      | some plus, some prec, some enc, some [r] => handleFormat false none prec plus typ enc alpha r obs
      | _, _, _, _ => if obs == "norec" then { status := "skip" } else bad "fvq"
    | _ => bad "unknown-op"
  v.render

end Biogo.Drive.C01
