/-
Driver for C14 (PALS q-gram filter completeness).  For one case line it (1) runs the filter
model (`filterFrom`, on the usage history of the case: a new `*Filter`, possibly one warm-up scan)
on the C10 index model of the target, with the retirement rule regenerated from the source, and
compares the multiset of hits with the implementation's; (2) evaluates the
statement of C14 on the implementation's hits: every ε-match required on the strand (`requiredC`,
found by a scan of every diagonal) must be covered by some hit; (3) answers ok / diff / fail / known:<Kid>.
Core-only.
-/
import Biogo.Go.Wire
import Biogo.Model.Alphabet
import Biogo.Model.Kmer
import Biogo.Model.Filter
import Biogo.Spec.Filter
import Biogo.Generated.Alphabets
import Biogo.Generated.FilterFacts
import Biogo.Drive.C10

namespace Biogo.Drive.C14
open Biogo.Wire Biogo.Filter
open Biogo.Spec.Kmer (Lookup)

def ltHit (a b : Int × Int × Int) : Bool :=
  a.1 < b.1 || (a.1 == b.1 && (a.2.1 < b.2.1 || (a.2.1 == b.2.1 && a.2.2 < b.2.2)))

def renderHits (hs : List (Int × Int × Int)) : String :=
  let sorted := (hs.toArray.qsort ltHit).toList
  if sorted.isEmpty then "-" else ",".intercalate (sorted.map fun h => s!"{h.1}.{h.2.1}.{h.2.2}")

def parseHit (s : String) : Option Biogo.Spec.Filter.Hit :=
  match (s.splitOn ".").mapM parseInt with
  | some [f, t, d] => some { from_ := f, to := t, diagonal := d }
  | _ => none

def parseHits (s : String) : Option (List Biogo.Spec.Filter.Hit) :=
  if s == "-" then some [] else (s.splitOn ",").mapM parseHit

def sizeTag (n : Nat) : String :=
  if n ≤ 100 then "len≤100" else if n ≤ 1000 then "len≤1000" else "len>1000"

/-- Recogniser of known finding K4 (end-of-query tubes flushed under an aliased index), for one
    uncovered match at target `a`, query `b`.  The match's own tube `i = d / off` is one that the
    scan left un-retired (`i` is at or beyond the tube of the last tick), the final flush does not
    reach it under its own index before reaching its slot under another index `i' ≡ i (mod cap)`,
    and the implementation did report the run — under that aliased index: a hit whose query
    interval overlaps the match and whose diagonal is `Tlen - i'·off`. -/
def isK4 (c : Cfg) (qlen n : Nat) (hits : List Biogo.Spec.Filter.Hit) (a b : Nat) : Bool :=
  let d := c.tlen - a + b
  let i := d / c.off
  let (tubeFrom, tubeTo) := flushRange c qlen
  -- last position for which the callback runs, and the tube retired by the last tick (none: -1)
  let lastPos : Int := (qlen : Int) - c.k
  let tubeWidth := c.off + c.maxError
  let ticks : Int := if lastPos < (tubeWidth : Int) - 1 then 0 else (lastPos - ((tubeWidth : Int) - 1)).tdiv c.off + 1
  let lastTickPos : Int := (tubeWidth : Int) - 1 + (ticks - 1) * c.off
  let lastTickTube : Int := if ticks = 0 then -1 else tubeEndIndex c lastTickPos.toNat
  let finalEnd := tubeEndIndex c (qlen - 1)
  -- own index not retired by a tick after the match, nor by the final tubeEnd
  let notRetired := decide ((i : Int) > lastTickTube) && decide ((i : Int) ≠ finalEnd)
  -- aliases of i inside the flush range that are visited before i itself (or i is outside the range)
  let inRange (x : Int) : Bool := decide ((tubeFrom : Int) ≤ x) && decide (x ≤ tubeTo)
  let aliases : List Int := ((List.range 4).map fun (m : Nat) => (i : Int) + ((m : Int) + 1) * c.cap) ++
                            ((List.range 4).map fun (m : Nat) => (i : Int) - ((m : Int) + 1) * c.cap)
  let firstAlias := aliases.filter fun x => inRange x && (!(inRange i) || decide (x < (i : Int)))
  notRetired && firstAlias.any fun x =>
    hits.any fun h => h.diagonal == (c.tlen : Int) - x * c.off &&
      decide (h.from_ < (b : Int) + n) && decide ((b : Int) < h.to)

/-- `c14Warm` of the harness: FNV-1a (32 bit) of the input line, lowest bit — half of the cases run a
    warm-up scan (the reversed query, no flags) through the same `*Filter` first -/
def warm (inp : String) : Bool :=
  (inp.toUTF8.foldl (fun (h : Nat) b => ((h ^^^ b.toNat) * 16777619) % 4294967296) 2166136261) % 2 == 1

def handleFl (inp op : String) (k n e off : Nat) (self comp : Bool) (t q : List UInt8) (obs : String) : Verdict :=
  match Biogo.Generated.alphaDNA.build with
  | .ok (alpha, _) =>
    let lk := Biogo.Drive.C10.lookupOf alpha
    let rule := Biogo.Generated.FilterFacts.rule
    let p : Params := { minMatch := n, maxError := e, tubeOffset := off }
    let thr := minWordsPerFilterHit n k e
    let invalid (s : List UInt8) : Bool := s.any fun b => (lk b).isNone
    let tags0 := [op, s!"k={k}", s!"e={e}", sizeTag (max t.length q.length)]
      ++ (if warm inp then ["after-warm-up-scan"] else [])
      ++ (if invalid q then ["query-has-n"] else []) ++ (if invalid t then ["target-has-n"] else [])
      ++ (if self then [if comp then "self-complement" else "self"] else (if comp then ["complement"] else []))
    let inScope := thr > 0 && off ≥ e && off ≥ 1
    -- model
    let m := match Biogo.Kmer.new lk alpha.length k t with
      | .error err => "err:index:" ++ err.code
      | .ok ix0 =>
        let ix := Biogo.Kmer.build lk ix0
        -- the usage history of the case: a new `*Filter`, for half of the cases a first scan of the
        -- reversed query, then the scan that is observed
        let st0 := if warm inp then (filterFrom rule lk ix p FState.new q.reverse false false).2 else FState.new
        match (filterFrom rule lk ix p st0 q self comp).1 with
        | .error err => "err:" ++ err.code
        | .ok hs => "ok " ++ renderHits (hs.map fun h => (h.from_, h.to, h.diagonal))
    if !inScope then
      let tags := tags0 ++ ["out-of-scope"]
      if m == obs then ok tags else diff (m.take 2000).toString tags
    else
      -- the statement on the implementation's hits (an error reports no hit)
      let hits : Option (List Biogo.Spec.Filter.Hit) :=
        match tokens obs with
        | ["ok", hs] => parseHits hs
        | _ => if obs.startsWith "err:" || obs.startsWith "panic:" then some [] else none
      match hits with
      | none => bad "unparsable-observation"
      | some hits =>
        let tubeWidth := off + e
        let (nreq, unc) := Biogo.Spec.Filter.uncoveredC lk t q n e tubeWidth self comp hits
        let c := mkCfg rule k t.length p self comp
        -- self-complement: is some ε-match on the other side of the anti-diagonal (cut, not required)?
        let below := self && comp &&
          (Biogo.Spec.Filter.uncoveredBy lk t q n e tubeWidth (fun a b => decide (a + b < t.length)) []).1 > 0
        let tags := tags0 ++ (if nreq == 0 then ["no-match"] else ["nt"])
          ++ (if below then ["below-antidiagonal"] else [])
          ++ (if self && comp && nreq > 0 then ["above-antidiagonal"] else [])
          ++ (if nreq > 50 then ["many-matches"] else [])
          ++ (if hits.isEmpty then ["no-hit"] else [])
          ++ (if off < k then ["offset<k"] else []) ++ (if off == e then ["offset=e"] else [])
          ++ (if thr == 1 then ["threshold=1"] else [])
        match unc with
        | [] => if m == obs then ok tags else diff (m.take 2000).toString tags
        | (a, b) :: _ =>
          let other := unc.filter fun mt => !isK4 c q.length n hits mt.1 mt.2
          match other with
          | [] => known "K4" s!"{unc.length} of {nreq} ε-matches uncovered, all reported under an aliased tube index at the final flush; first a={a} b={b} d={t.length - a + b} tube={(t.length - a + b) / off} cap={c.cap}" tags
          | (a, b) :: _ =>
            fail s!"{other.length} of {nreq} ε-matches uncovered (first a={a} b={b} diagIndex={t.length - a + b} tube={(t.length - a + b) / off} residue={(t.length - a + b) % off} cap={c.cap} tubeWidth={tubeWidth} threshold={thr})" tags
  | _ => fail "DNA-alphabet-rejected-by-model" ["fl"]

def handleTokens (line : String) (inp : List String) (obs : String) : Verdict :=
  match inp with
  | [op, k, n, e, off, self, comp, ht, hq] =>
    if op != "fl" && op != "fln" then bad "unknown-op" else
    match parseNat k, parseNat n, parseNat e, parseNat off, parseBool self, parseBool comp, bytesOfHex ht with
    | some k, some n, some e, some off, some self, some comp, some t =>
      match (if hq == "=" then some t else bytesOfHex hq) with
      | some q => handleFl line op k n e off self comp t q obs
      | none => bad "query"
    | _, _, _, _, _, _, _ => bad "fl"
  | _ => bad "unknown-op"

def ops : List String := ["fl", "fln"]

def handle (line : String) : String :=
  let (inp, obs) := splitCase line
  (handleTokens inp (tokens inp) obs).render

end Biogo.Drive.C14
