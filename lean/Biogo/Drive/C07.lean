/-
Driver for C07 (tag `h7`): runs the container model on an edit history, evaluates the
statements of C07 (`Biogo.Containers.Laws`) on the implementation's observations, compares
observations.  Core-only.
-/
import Biogo.Go.Wire
import Biogo.Model.ContWorld
import Biogo.Model.ContAnn
import Biogo.Spec.ContLaws
import Biogo.Generated.Alphabets
import Biogo.Drive.C05

namespace Biogo.Drive.C07
open Biogo.Wire Biogo.Containers Biogo.Containers.Laws

abbrev Snap := String × List ObjV

/-- the caller's buffers as the history has left them (pure bookkeeping of `mkb` / `mut`) -/
def stepBufs (bufs : List (List QL)) : Op → List (List QL)
  | .mkbuf cells _ => bufs ++ [cells]
  | .mutbuf b i c => bufs.modify b (fun cs => cs.set i c)
  | _ => bufs

/-- laws that hold of every single observation -/
def snapLaw (hist : History) (s : Snap) : Why :=
  allIdx s.2.length fun j =>
    match s.2[j]? with
    | some o => (lawRowEqColumn hist.cx.gap hist.cx.amb o).and fun _ =>
                if hist.cx.alpha.cased then none else lawConsensus hist.cx.alpha.valid o
    | none => none

/-- the statement of C07 on one step `before --op--> after` -/
def stepLaw (hist : History) (bufs : List (List QL)) (op : Op) (before after : Snap) : Why :=
  let okS := check (after.1 == "ok") "operation-reported-an-error"
  let obj (k : Nat) (f : ObjV → ObjV → Why) : Why :=
    match before.2[k]?, after.2[k]? with
    | some b, some a => f b a
    | _, _ => some "object-missing"
  match op with
  | .mkbuf .. => okS.and fun _ => lawFrame before.2 after.2 none
  | .mutbuf .. =>
    okS.and fun _ => (lawFrame before.2 after.2 none).and fun _ =>
      check (after.2.length == before.2.length) "object-count"
  | .appendCols k bs =>
    (lawFrame before.2 after.2 (some k)).and fun _ => obj k fun b a =>
      let cols := bs.map fun i => bufs.getD i []
      if bs.all (· < bufs.length) && cols.all (·.length == b.nrows) && b.nrows > 0 then
        okS.and fun _ => lawAppendCols b a cols
      else none
  | .appendEach k bs =>
    (lawFrame before.2 after.2 (some k)).and fun _ => obj k fun b a =>
      let runs := bs.map fun i => bufs.getD i []
      if bs.all (· < bufs.length) && runs.length == b.nrows && b.nrows > 0 then
        okS.and fun _ => lawAppendEach hist.cx.gap b a runs
      else none
  | .add k _ => lawFrame before.2 after.2 (some k)
  | .delete k i =>
    okS.and fun _ => (lawFrame before.2 after.2 (some k)).and fun _ => obj k fun b a => lawDelete b a i
  | .flush k wh fill =>
    okS.and fun _ => (lawFrame before.2 after.2 (some k)).and fun _ => obj k fun b a => lawFlush b a wh fill
  | .truncate k st en =>
    (lawFrame before.2 after.2 (some k)).and fun _ => obj k fun b a =>
      if allCover b st en then okS.and fun _ => lawRange b a st en else none
  | .subseq k st en =>
    (lawFrame before.2 after.2 none).and fun _ =>
    match before.2[k]? with
    | some b =>
      if allCover b st en then
        okS.and fun _ =>
        (check (after.2.length == before.2.length + 1) "Subseq-returned-no-object").and fun _ =>
        match after.2[before.2.length]? with
        | some a => lawRange b a st en
        | none => some "object-missing"
      else none
    | none => some "object-missing"
  | .clone k =>
    okS.and fun _ => (lawFrame before.2 after.2 none).and fun _ =>
    (check (after.2.length == before.2.length + 1) "clone-object-count").and fun _ =>
    check (after.2[before.2.length]? == before.2[k]? && before.2[k]?.isSome) "clone-differs-from-original"
  | .set k r pos c =>
    okS.and fun _ => (lawFrame before.2 after.2 (some k)).and fun _ => obj k fun b a => lawSet b a r pos c
  | _ => some "operation-outside-C07"

def checkSteps (hist : History) : List Op → List (List QL) → List Snap → Why
  | op :: ops, bufs, before :: after :: rest =>
    let bufs' := stepBufs bufs op
    (stepLaw hist bufs' op before after).and fun _ =>
    (snapLaw hist after).and fun _ => checkSteps hist ops bufs' (after :: rest)
  | [], _, [_] => none
  | _, _, _ => some "snapshot-count"

def checkC07 (hist : History) (impl : List Snap) : Why :=
  match impl with
  | s0 :: _ => (snapLaw hist s0).and fun _ => checkSteps hist hist.ops [] impl
  | [] => some "snapshot-count"

def opTag : Op → String
  | .clone _ => "Clone" | .set .. => "Set" | .mkbuf .. => "buffer" | .mutbuf .. => "mutate-buffer"
  | .appendCols .. => "AppendColumns" | .appendEach .. => "AppendEach" | .add .. => "Add"
  | .delete .. => "Delete" | .flush .. => "Flush" | .subseq .. => "Subseq" | .truncate .. => "Truncate"
  | _ => "other"

def tagsOf (hist : History) (model : List Snap) : List String :=
  let ragged := match hist.rows with
    | [] => false
    | r0 :: rest => rest.any fun r => r.off != r0.off || r.cells.length != r0.cells.length
  let edits := hist.ops.filter fun o => match o with | .mkbuf .. => false | _ => true
  [hist.kind, s!"rows{hist.rows.length}"] ++ (hist.ops.map opTag).eraseDups
    ++ (if hist.kind == "multi" then [if ragged then "ragged" else "flush"] else [])
    ++ (if model.any (·.1 == "err") then ["error-return"] else [])
    ++ (if hist.rows.any (·.cells.isEmpty) then ["empty-row"] else [])
    ++ (if !edits.isEmpty then ["nt"] else [])

def handleLine (inp obs : String) : Verdict :=
  match parseHistory Biogo.Generated.builtins (tokens inp) with
  | none => bad "unparsable-input"
  | some hist =>
    -- value model + `SubAnnotations` stored in slices on a heap, in lockstep (Model/ContAnn.lean);
    -- equal to `runHistory` by `annotation_store_refines_values`
    let model := runHistoryA false hist.cx hist.init hist.ops
    let tags := tagsOf hist model
    if model.any (·.1 == "panic") then { status := "skip", tags := tags ++ ["model-panics"] }
    else if obs.startsWith "panic:" || obs == "hang" then
      fail ("implementation-" ++ (obs.take 200).toString) tags
    else
      match parseSnapshots obs with
      | none => bad "unparsable-observation"
      | some impl =>
        match checkC07 hist impl with
        | some why => fail why tags
        | none =>
          let m := renderSnapshots model
          let i := expandSnapshots obs
          if m == i then ok tags else diff (Biogo.Drive.C05.firstDiff m i) tags

def ops : List String := ["h7"]

def handle (line : String) : String :=
  let (inp, obs) := splitCase line
  (handleLine inp obs).render

end Biogo.Drive.C07
