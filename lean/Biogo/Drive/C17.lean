/-
Driver for C17: evaluates the alphabet model on a harness input, compares with the
implementation's observation, and evaluates the property's executable statement on the
implementation's own output (`specB`, `specBL`, `specAV`).  Core-only.
-/
import Biogo.Go.Wire
import Biogo.Model.Alphabet
import Biogo.Generated.Alphabets

namespace Biogo.Drive.C17
open Biogo.Wire Biogo.Alphabet

def findDef (n : String) : Option Def := Biogo.Generated.builtins.find? (·.name == n)

def bitmap (f : UInt8 → Bool) : String :=
  String.ofList <| (List.range 64).map fun i =>
    let b (j : Nat) : Nat := if f (UInt8.ofNat (4 * i + j)) then (8 >>> j) else 0
    hexDigit (b 0 + b 1 + b 2 + b 3)

def optNat (o : Option UInt8) : String := match o with | some l => toString l.toNat | none => "x"

/-- model observation for `b <name> <l>` -/
def obsB (a : Alpha) (p : Option Pairing) (l : UInt8) : String :=
  let idx := a.indexOf l
  let at_ := if idx ≥ 0 then optNat (a.letter idx.toNat) else "x"
  let base := s!"{showBool (a.isValid l)} {idx} {at_} {showBool (a.valid l)} {a.index l}"
  match p with
  | some p =>
    let (c, k) := p.complement l
    let (cc, _) := p.complement c
    base ++ s!" {c.toNat} {showBool k} {(p.complements l).toNat} {a.indexOf c} {showBool (a.isValid c)} {cc.toNat}"
  | none => base ++ " x x x x x x"

def isUpperB (b : UInt8) : Bool := 65 ≤ b && b ≤ 90
def isLowerB (b : UInt8) : Bool := 97 ≤ b && b ≤ 122

/-- membership of a letter in a definition, in either case for uncased alphabets -/
def inDef (d : Def) (l : UInt8) : Bool := inDefinition d.cased d.letters l

/-- The statement of C17 for one letter of a built-in alphabet, evaluated on the
    implementation's observation (tokens of the `b` line). -/
def specB (d : Def) (l : UInt8) (t : List String) : Option String :=
  match t with
  | [v, i, at_, tv, ti, c, k, tab, ic, vc, cc] =>
    match parseBool v, parseInt i with
    | some v, some i =>
      if v ≠ inDef d l then some "valid-iff-in-definition"
      else if (i < 0) ≠ (!v) then some "indexOf-negative-iff-invalid"
      else if v && !(0 ≤ i && i < d.letters.length) then some "indexOf-in-range"
      else if v && (match parseNat at_ with
                    | some x => !(if d.cased then x == l.toNat else toLower (UInt8.ofNat x) == toLower l)
                    | none => true) then some "letter-indexOf-inverse"
      else if parseBool tv ≠ some v || parseInt ti ≠ some i then some "tables-agree-with-methods"
      else if c == "x" then (if d.pairS.isSome then some "complementor-missing" else none)
      else
        match parseNat c, parseBool k, parseNat tab, parseInt ic, parseBool vc, parseNat cc with
        | some c, some k, some tab, some ic, some vc, some cc =>
          let cb := UInt8.ofNat c
          if cc ≠ l.toNat then some "complement-involutive"
          else if v && !vc then some "complement-valid-to-valid"
          else if (isUpperB l ≠ isUpperB cb) || (isLowerB l ≠ isLowerB cb) then some "complement-case-preserving"
          else if (if k then tab ≠ c else tab ≠ (cb ||| 128).toNat) then some "table-agrees-with-method"
          else if d.nucleotide4 && v && ic ≠ 3 - i then some "index-of-complement-is-3-minus-index"
          else none
        | _, _, _, _, _, _ => some "unparsable-observation"
    | _, _ => some "unparsable-observation"
  | _ => some "unparsable-observation"

def errObs (e : Err) : String := "err:" ++ e.code

/-- 256 booleans from the 64 hex digits of a bitmap token -/
def bitsOfBitmap (s : String) : Option (Array Bool) :=
  if s.length ≠ 64 then none else
  s.toList.foldl (fun acc ch => match acc, hexVal ch with
    | some a, some v => some (a ++ #[v / 8 % 2 == 1, v / 4 % 2 == 1, v / 2 % 2 == 1, v % 2 == 1])
    | _, _ => none) (some #[])

/-- the hypothesis of the property on a definition: ASCII letters, distinct (after lower-casing
    when the alphabet is not case sensitive) -/
def validDefinition (cased : Bool) (ls : List UInt8) : Bool :=
  ls.all (· < 128) && decide ((if cased then ls else ls.map toLower).Nodup)

def firstBad (p : Nat → Bool) : Option Nat := (List.range 256).find? (fun l => !p l)

/-- The statement of C17 for an alphabet built from a valid definition, on the *parsed*
    observation of `NewAlphabet`: `len` = `Len()`, `valid` / `idx` the 256 answers of `IsValid` /
    `IndexOf`, `letters` the answers of `Letter(0 … Len-1)`.  Validity ⇔ membership, IndexOf
    negative ⇔ invalid, Letter/IndexOf mutually inverse on 0..Len-1, Len = length of the
    definition.  Proved in `Properties/C17_checker.lean` (`naStatement_none_iff`). -/
def naStatement (cased : Bool) (ls : List UInt8) (len : Nat) (valid : Array Bool) (idx : Array Int)
    (letters : Array UInt8) : Option String :=
  let v (l : Nat) : Bool := valid.getD l false
  let ix (l : Nat) : Int := idx.getD l (-1)
  if idx.size ≠ 256 then some "unparsable-observation"
  else if len ≠ ls.length then some "len-is-definition-length"
  else match firstBad (fun l => v l == inDefinition cased ls (UInt8.ofNat l)) with
  | some l => some s!"valid-iff-in-definition letter={l}"
  | none =>
  match firstBad (fun l => (ix l < 0) == !v l) with
  | some l => some s!"indexOf-negative-iff-invalid letter={l}"
  | none =>
  match (List.range len).find? (fun i =>
      match letters[i]? with
      | some x => !(v x.toNat && ix x.toNat == (i : Int))
      | none => true) with
  | some i => some s!"indexOf-letter-inverse index={i}"
  | none =>
  match firstBad (fun l => !v l ||
      (0 ≤ ix l && ix l < len &&
       match letters[(ix l).toNat]? with
       | some x => if cased then x.toNat == l else toLower x == toLower (UInt8.ofNat l)
       | none => false)) with
  | some l => some s!"letter-indexOf-inverse letter={l}"
  | none => none

/-- `naStatement` on the tokens of an accepted `na` line -/
def specNA (cased : Bool) (ls : List UInt8) (t : List String) : Option String :=
  match t with
  | ["ok", len, vbm, idx, letters, _, _, _] =>
    match parseNat len, bitsOfBitmap vbm, parseInts idx, bytesOfHex letters with
    | some len, some valid, some idx, some letters =>
      naStatement cased ls len valid idx.toArray letters.toArray
    | _, _, _, _ => some "unparsable-observation"
  | _ => some "unparsable-observation"

/-- The statement of C17 for an accepted pairing, on the *parsed* observation of `NewPairing`
    (`pair`: the 256 answers of the complement method, `okb`: its `ok` flags, `comp`: the table):
    the complement is an involution on all 256 letters, and the table holds the method's result
    with the high bit set exactly when `ok` is false.  Proved in `Properties/C17_checker.lean`
    (`npStatement_none_iff`). -/
def npStatement (pair : Array UInt8) (okb : Array Bool) (comp : Array UInt8) : Option String :=
  if pair.size ≠ 256 || comp.size ≠ 256 then some "unparsable-observation"
  else match firstBad (fun l => (pair.getD (pair.getD l 0).toNat 0).toNat == l) with
  | some l => some s!"complement-involutive letter={l}"
  | none =>
  match firstBad (fun l =>
      let c := pair.getD l 0
      comp.getD l 0 == (if okb.getD l false then c else c ||| 128)) with
  | some l => some s!"table-agrees-with-method letter={l}"
  | none => none

/-- `npStatement` on the tokens of an accepted `np` line -/
def specNP (t : List String) : Option String :=
  match t with
  | ["ok", pair, okbm, comp] =>
    match bytesOfHex pair, bitsOfBitmap okbm, bytesOfHex comp with
    | some pair, some okb, some comp => npStatement pair.toArray okb comp.toArray
    | _, _, _ => some "unparsable-observation"
  | _ => some "unparsable-observation"

/-- what `AllValid` must answer (twice: method and table form): the first position whose letter
    is not in the definition, or `(true, -1)`.  `Properties/C17_checker.lean`: `avFirst_spec`. -/
def avFirst (d : Def) (ls : List UInt8) : Option Nat := ls.findIdx? (fun l => !inDef d l)

def avWant (d : Def) (ls : List UInt8) : String :=
  match avFirst d ls with
  | some p => s!"0 {p} 0 {p}"
  | none => "1 -1 1 -1"

def handleTokens (inp : List String) (obs : String) : Verdict :=
  let ot := tokens obs
  match inp with
  | ["b", name, l] =>
    match findDef name, parseNat l with
    | some d, some l =>
      let l := UInt8.ofNat l
      match d.build with
      | .error e => fail s!"builtin-rejected-by-model {e.code}" ["builtin"]
      | .ok (a, p) =>
        let m := obsB a p l
        let tags := ["builtin"] ++ (if a.isValid l then ["nt", "valid-letter"] else ["invalid-letter"])
        match specB d l ot with
        | some why => fail why tags
        | none => if m == obs then ok tags else diff m tags
    | _, _ => bad "b"
  | ["bl", name, i] =>
    match findDef name, parseNat i with
    | some d, some i =>
      match d.build with
      | .error e => fail s!"builtin-rejected-by-model {e.code}" ["builtin-letter"]
      | .ok (a, _) =>
        let m := match a.letter i with
          | some l => s!"{a.length} {l.toNat} {a.indexOf l}"
          | none => "panic"
        let tags := ["builtin-letter", "nt"]
        match ot with
        | [len, _, ix] =>
          if parseNat len ≠ some d.letters.length then fail "len-is-definition-length" tags
          else if parseNat ix ≠ some i then fail "indexOf-letter-inverse" tags
          else if m == obs then ok tags else diff m tags
        | _ => if m == obs then ok tags else diff m tags
    | _, _ => bad "bl"
  | ["av", name, hex] =>
    match findDef name, bytesOfHex hex with
    | some d, some ls =>
      match d.build with
      | .error e => fail s!"builtin-rejected-by-model {e.code}" ["allvalid"]
      | .ok (a, _) =>
        let (okm, pos) := a.allValid ls
        let m := s!"{showBool okm} {pos} {showBool okm} {pos}"
        -- spec: first position whose letter is not in the definition
        let want := avWant d ls
        let tags := ["allvalid"] ++ (if okm then ["all-valid"] else ["nt", "has-invalid"])
        if obs ≠ want then fail s!"allValid-first-invalid want={want}" tags
        else if m == obs then ok tags else diff m tags
    | _, _ => bad "av"
  | ["na", cased, gap, amb, hex] =>
    match parseBool cased, parseNat gap, parseNat amb, bytesOfHex hex with
    | some cased, some gap, some amb, some ls =>
      let nonascii := ls.any (· ≥ 128)
      let tags := ["newalphabet"] ++ (if nonascii then ["nonascii"] else ["nt"])
      match newAlphabet ls (UInt8.ofNat gap) (UInt8.ofNat amb) cased with
      | .error e =>
        let m := errObs e
        if nonascii && !obs.startsWith "err:" then fail "rejects-nonASCII-definition" tags
        else if m == obs then ok tags else diff m tags
      | .ok a =>
        let idx := allBytes.map a.index
        let m := s!"ok {a.length} {bitmap a.valid} {showInts idx} {hexOfBytes a.letters} {showBool a.cased} {gap} {amb}"
        let tags := tags ++ (if validDefinition cased ls then ["valid-definition"] else ["duplicate-letters"])
        if obs.startsWith "err:" then (if m == obs then ok tags else diff m tags)
        else match (if validDefinition cased ls then specNA cased ls ot else none) with
        | some why => fail why tags
        | none => if m == obs then ok tags else diff m tags
    | _, _, _, _ => bad "na"
  | ["np", hs, hc] =>
    match bytesOfHex hs, bytesOfHex hc with
    | some s, some c =>
      match newPairing s c with
      | .error e =>
        let tags := ["newpairing", "nt", "rejected-" ++ e.code]
        let m := errObs e
        if !obs.startsWith "err:" then fail s!"constructor-rejects-{e.code}" tags
        else if m == obs then ok tags else diff m tags
      | .ok p =>
        let tags := ["newpairing", "accepted"] ++ (if s.isEmpty then [] else ["nt"])
        let m := s!"ok {hexOfBytes (allBytes.map p.pair)} {bitmap p.ok} {hexOfBytes (allBytes.map p.complements)}"
        if obs.startsWith "err:" then diff m tags
        else match specNP ot with
        | some why => fail why tags
        | none => if m == obs then ok tags else diff m tags
    | _, _ => bad "np"
  | ["nc", cased, hl, hs, hc] =>
    match parseBool cased, bytesOfHex hl, bytesOfHex hs, bytesOfHex hc with
    | some cased, some ls, some s, some c =>
      let m := match newPairing s c with
        | .error e => errObs e
        | .ok p =>
          match newComplementor ls p 45 110 cased with
          | .error e => errObs e
          | .ok _ => "ok"
      let tags := ["newcomplementor", "nt", if m == "ok" then "accepted" else "rejected"]
      if m.startsWith "err:" && m ≠ "err:invalidpairing" && !obs.startsWith "err:" then
        fail s!"constructor-rejects-{m}" tags
      else if m == obs then ok tags else diff m tags
    | _, _, _, _ => bad "nc"
  | _ => bad "unknown-op"

def ops : List String := ["b", "bl", "av", "na", "np", "nc"]

def handle (line : String) : String :=
  let (inp, obs) := splitCase line
  (handleTokens (tokens inp) obs).render

end Biogo.Drive.C17
