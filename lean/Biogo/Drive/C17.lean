/-
Driver for C17: evaluates the alphabet model on a harness input, compares with the
implementation's observation, and evaluates the property's executable statement on the
implementation's own output (`specB`, `specBL`, `specAV`).  Core-only.
-/
import Biogo.Go.Wire
import Biogo.Model.Alphabet
import Biogo.Generated.Alphabets

namespace Biogo.Drive.C17
open Biogo.Wire Biogo.Alphabet

def findDef (n : String) : Option Def := Biogo.Generated.builtins.find? (·.name == n)

def bitmap (f : UInt8 → Bool) : String :=
  String.ofList <| (List.range 64).map fun i =>
    let b (j : Nat) : Nat := if f (UInt8.ofNat (4 * i + j)) then (8 >>> j) else 0
    hexDigit (b 0 + b 1 + b 2 + b 3)

def optNat (o : Option UInt8) : String := match o with | some l => toString l.toNat | none => "x"

/-- model observation for `b <name> <l>` -/
def obsB (a : Alpha) (p : Option Pairing) (l : UInt8) : String :=
  let idx := a.indexOf l
  let at_ := if idx ≥ 0 then optNat (a.letter idx.toNat) else "x"
  let base := s!"{showBool (a.isValid l)} {idx} {at_} {showBool (a.valid l)} {a.index l}"
  match p with
  | some p =>
    let (c, k) := p.complement l
    let (cc, _) := p.complement c
    base ++ s!" {c.toNat} {showBool k} {(p.complements l).toNat} {a.indexOf c} {showBool (a.isValid c)} {cc.toNat}"
  | none => base ++ " x x x x x x"

def isUpperB (b : UInt8) : Bool := 65 ≤ b && b ≤ 90
def isLowerB (b : UInt8) : Bool := 97 ≤ b && b ≤ 122

/-- membership of a letter in a definition, in either case for uncased alphabets -/
def inDef (d : Def) (l : UInt8) : Bool :=
  if d.cased then d.letters.contains l
  else d.letters.any fun x => toLower x == toLower l

/-- The statement of C17 for one letter of a built-in alphabet, evaluated on the
    implementation's observation (tokens of the `b` line). -/
def specB (d : Def) (l : UInt8) (t : List String) : Option String :=
  match t with
  | [v, i, at_, tv, ti, c, k, tab, ic, vc, cc] =>
    match parseBool v, parseInt i with
    | some v, some i =>
      if v ≠ inDef d l then some "valid-iff-in-definition"
      else if (i < 0) ≠ (!v) then some "indexOf-negative-iff-invalid"
      else if v && !(0 ≤ i && i < d.letters.length) then some "indexOf-in-range"
      else if v && (match parseNat at_ with
                    | some x => !(if d.cased then x == l.toNat else toLower (UInt8.ofNat x) == toLower l)
                    | none => true) then some "letter-indexOf-inverse"
      else if parseBool tv ≠ some v || parseInt ti ≠ some i then some "tables-agree-with-methods"
      else if c == "x" then (if d.pairS.isSome then some "complementor-missing" else none)
      else
        match parseNat c, parseBool k, parseNat tab, parseInt ic, parseBool vc, parseNat cc with
        | some c, some k, some tab, some ic, some vc, some cc =>
          let cb := UInt8.ofNat c
          if cc ≠ l.toNat then some "complement-involutive"
          else if v && !vc then some "complement-valid-to-valid"
          else if (isUpperB l ≠ isUpperB cb) || (isLowerB l ≠ isLowerB cb) then some "complement-case-preserving"
          else if (if k then tab ≠ c else tab ≠ (cb ||| 128).toNat) then some "table-agrees-with-method"
          else if d.nucleotide4 && v && ic ≠ 3 - i then some "index-of-complement-is-3-minus-index"
          else none
        | _, _, _, _, _, _ => some "unparsable-observation"
    | _, _ => some "unparsable-observation"
  | _ => some "unparsable-observation"

def errObs (e : Err) : String := "err:" ++ e.code

def handleTokens (inp : List String) (obs : String) : Verdict :=
  let ot := tokens obs
  match inp with
  | ["b", name, l] =>
    match findDef name, parseNat l with
    | some d, some l =>
      let l := UInt8.ofNat l
      match d.build with
      | .error e => fail s!"builtin-rejected-by-model {e.code}" ["builtin"]
      | .ok (a, p) =>
        let m := obsB a p l
        let tags := ["builtin"] ++ (if a.isValid l then ["nt", "valid-letter"] else ["invalid-letter"])
        match specB d l ot with
        | some why => fail why tags
        | none => if m == obs then ok tags else diff m tags
    | _, _ => bad "b"
  | ["bl", name, i] =>
    match findDef name, parseNat i with
    | some d, some i =>
      match d.build with
      | .error e => fail s!"builtin-rejected-by-model {e.code}" ["builtin-letter"]
      | .ok (a, _) =>
        let m := match a.letter i with
          | some l => s!"{a.length} {l.toNat} {a.indexOf l}"
          | none => "panic"
        let tags := ["builtin-letter", "nt"]
        match ot with
        | [len, _, ix] =>
          if parseNat len ≠ some d.letters.length then fail "len-is-definition-length" tags
          else if parseNat ix ≠ some i then fail "indexOf-letter-inverse" tags
          else if m == obs then ok tags else diff m tags
        | _ => if m == obs then ok tags else diff m tags
    | _, _ => bad "bl"
  | ["av", name, hex] =>
    match findDef name, bytesOfHex hex with
    | some d, some ls =>
      match d.build with
      | .error e => fail s!"builtin-rejected-by-model {e.code}" ["allvalid"]
      | .ok (a, _) =>
        let (okm, pos) := a.allValid ls
        let m := s!"{showBool okm} {pos} {showBool okm} {pos}"
        -- spec: first position whose letter is not in the definition
        let first := ls.findIdx? (fun l => !inDef d l)
        let want := match first with
          | some p => s!"0 {p} 0 {p}"
          | none => "1 -1 1 -1"
        let tags := ["allvalid"] ++ (if okm then ["all-valid"] else ["nt", "has-invalid"])
        if obs ≠ want then fail s!"allValid-first-invalid want={want}" tags
        else if m == obs then ok tags else diff m tags
    | _, _ => bad "av"
  | ["na", cased, gap, amb, hex] =>
    match parseBool cased, parseNat gap, parseNat amb, bytesOfHex hex with
    | some cased, some gap, some amb, some ls =>
      let nonascii := ls.any (· ≥ 128)
      let tags := ["newalphabet"] ++ (if nonascii then ["nonascii"] else ["nt"])
      match newAlphabet ls (UInt8.ofNat gap) (UInt8.ofNat amb) cased with
      | .error e =>
        let m := errObs e
        if nonascii && !obs.startsWith "err:" then fail "rejects-nonASCII-definition" tags
        else if m == obs then ok tags else diff m tags
      | .ok a =>
        let idx := allBytes.map a.index
        let m := s!"ok {a.length} {bitmap a.valid} {showInts idx} {hexOfBytes a.letters} {showBool a.cased} {gap} {amb}"
        if m == obs then ok tags else diff m tags
    | _, _, _, _ => bad "na"
  | ["np", hs, hc] =>
    match bytesOfHex hs, bytesOfHex hc with
    | some s, some c =>
      match newPairing s c with
      | .error e =>
        let tags := ["newpairing", "nt", "rejected-" ++ e.code]
        let m := errObs e
        if !obs.startsWith "err:" then fail s!"constructor-rejects-{e.code}" tags
        else if m == obs then ok tags else diff m tags
      | .ok p =>
        let tags := ["newpairing", "accepted"] ++ (if s.isEmpty then [] else ["nt"])
        let m := s!"ok {hexOfBytes (allBytes.map p.pair)} {bitmap p.ok} {hexOfBytes (allBytes.map p.complements)}"
        if m == obs then ok tags else diff m tags
    | _, _ => bad "np"
  | ["nc", cased, hl, hs, hc] =>
    match parseBool cased, bytesOfHex hl, bytesOfHex hs, bytesOfHex hc with
    | some cased, some ls, some s, some c =>
      let m := match newPairing s c with
        | .error e => errObs e
        | .ok p =>
          match newComplementor ls p 45 110 cased with
          | .error e => errObs e
          | .ok _ => "ok"
      let tags := ["newcomplementor", "nt", if m == "ok" then "accepted" else "rejected"]
      if m.startsWith "err:" && m ≠ "err:invalidpairing" && !obs.startsWith "err:" then
        fail s!"constructor-rejects-{m}" tags
      else if m == obs then ok tags else diff m tags
    | _, _, _, _ => bad "nc"
  | _ => bad "unknown-op"

def ops : List String := ["b", "bl", "av", "na", "np", "nc"]

def handle (line : String) : String :=
  let (inp, obs) := splitCase line
  (handleTokens (tokens inp) obs).render

end Biogo.Drive.C17
