/-
Driver for C04, part feat: BED and GFF inputs yield the same features with CRLF or LF and with
or without the final newline.  The statement is evaluated on the implementation's four call
lists (they must be equal); the model is run on all four layouts as well.  Core-only.
-/
import Biogo.Drive.FeatCommon

namespace Biogo.Drive.C04_feat
open Biogo.Wire Biogo.BytesFeat Biogo.Drive.FeatCommon

/-- drop one final LF (and a CR before it when `cr`) -/
def dropFinal (bs : Bytes) (cr : Bool) : Bytes :=
  match bs.reverse with
  | 10 :: r => (match cr, r with
                | true, 13 :: r2 => r2.reverse
                | _, _ => r.reverse)
  | _ => bs

def layouts (bs : Bytes) : List Bytes :=
  [bs, crlf bs, dropFinal bs false, dropFinal (crlf bs) true]

def names : List String := ["lf", "crlf", "lf-nofinal", "crlf-nofinal"]

/-- the last line of the file is non-empty and terminated, so that "the same file without its
    final newline" has the same lines -/
def finalLineNonEmpty (bs : Bytes) : Bool :=
  match bs.reverse with
  | 10 :: c :: _ => c != 10
  | _ => false

/-- the statement of C04 on four observed call lists (the two layouts without the final
    terminator are compared only when the last line is non-empty) -/
def layoutViolation (bs : Bytes) (impl : List String) : Option String :=
  match impl with
  | a :: rest =>
    ((names.drop 1).zip rest).findSome? fun (nm, x) =>
      if nm != "crlf" && !finalLineNonEmpty bs then none
      else if x.trimAscii.toString == a.trimAscii.toString then none
      else some ("records-differ-with-" ++ nm)
  | [] => some "no-observation"

def records (s : String) : Nat := ((tokens s).filter (·.startsWith "r:")).length

def handleTokens (inp : List String) (obs : String) : Verdict :=
  match inp with
  | ["bedl", n, hex] =>
    match parseNat n, bytesOfHex hex with
    | some n, some bs =>
      let impl := sections obs
      let tags := [s!"bed{n}"] ++ (if records (impl.headD "") > 0 then ["nt"] else [])
      if impl.length != 4 then bad "bedl-sections" else
      match layoutViolation bs impl with
      | some why => fail why tags
      | none =>
        let m := " | ".intercalate ((layouts bs).map fun l => bedCalls (Bed.readAll n l))
        if m == obs then ok tags else diff m tags
    | _, _ => bad "bedl"
  | ["gffl", hex] =>
    match bytesOfHex hex with
    | some bs =>
      let secs := sections obs
      if secs.length != 5 then bad "gffl-sections" else
      let impl := secs.take 4
      let o := mkOracles (tokens (secs.getD 4 ""))
      let tags := ["gff"] ++ (if records (impl.headD "") > 0 then ["nt"] else [])
        ++ (if ((impl.headD "").splitOn "r:s:").length > 1 then ["inline-seq"] else [])
      match layoutViolation bs impl with
      | some why => fail why tags
      | none =>
        let m := " | ".intercalate ((layouts bs).map fun l => gffCalls (Gff.readAll o l))
        if m == " | ".intercalate impl then ok tags else diff m tags
    | none => bad "gffl"
  | _ => bad "unknown-op"

def ops : List String := ["bedl", "gffl"]

def handle (line : String) : String :=
  let (inp, obs) := splitCase line
  (handleTokens (tokens inp) obs).render

end Biogo.Drive.C04_feat
