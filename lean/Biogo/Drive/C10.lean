/-
Driver for C10 (k-mer index).  For one case line it (1) runs the model `Biogo.Kmer` on the
input, (2) evaluates the statement of C10 on the implementation's observation — positions,
frequencies, callback lists and word/text conversions are compared with what a plain scan of
the letters (`Biogo.Spec.Kmer`) gives — and (3) answers ok / diff / fail.  Core-only.
-/
import Biogo.Go.Wire
import Biogo.Model.Alphabet
import Biogo.Model.Kmer
import Biogo.Spec.Kmer
import Biogo.Spec.KmerGroup
import Biogo.Generated.Alphabets

namespace Biogo.Drive.C10
open Biogo.Wire Biogo.Kmer
open Biogo.Spec.Kmer (Lookup encode toDigits digits wordsFrom allWindows validWindows revComp gcCount)
open Biogo.Spec.KmerGroup (byWord byText ltBytes)

def findDef (n : String) : Option Biogo.Alphabet.Def := Biogo.Generated.builtins.find? (·.name == n)

/-- the alphabet's `LetterIndex()` table as a `Lookup` -/
def lookupOf (a : Biogo.Alphabet.Alpha) : Lookup := fun b =>
  let i := a.index b
  if i ≥ 0 then some i.toNat else none

/-- `alpha.Letter(i)` (0 where Go would panic; not reached for `i < 4` on a four-letter alphabet) -/
def letterOf (a : Biogo.Alphabet.Alpha) (i : Nat) : UInt8 := (a.letter i).getD 0

def dots (xs : List Nat) : String := if xs.isEmpty then "-" else ".".intercalate (xs.map toString)
def orDash (xs : List String) (sep : String) : String := if xs.isEmpty then "-" else sep.intercalate xs

-- `byWord` / `byText` (the plain scan grouped by word / by lower-cased text, groups and positions
-- increasing) and `ltBytes` are `Biogo.Spec.KmerGroup`'s; `Properties/C10_checker.lean` proves
-- that they are `occurrences` (`byWord_spec`, `byWord_lookup`, `byWord_eq`, `byText_spec`, `byText_lookup`)

def renderWordMap (m : List (Nat × List Nat)) : String :=
  orDash (m.map fun kv => s!"{kv.1}:{dots kv.2}") ","
def renderFreq (m : List (Nat × Nat)) : String :=
  orDash (m.map fun kv => s!"{kv.1}:{kv.2}") ","
def renderTextMap (m : List (List UInt8 × List Nat)) : String :=
  orDash (m.map fun kv => s!"{hexOfBytes kv.1}:{dots kv.2}") ","

def field (toks : List String) (name : String) : Option String :=
  toks.findSome? fun t => if t.startsWith (name ++ "=") then some ((t.drop (name.length + 1)).toString) else none

/-- element-wise comparison of comma separated lists; a wanted `err` matches any `err:…` -/
def listMatches (want got : String) : Bool :=
  let w := want.splitOn ","
  let g := got.splitOn ","
  w.length == g.length && (w.zip g).all fun p => if p.1 == "err" then p.2.startsWith "err:" else p.1 == p.2

def errObs (e : Err) : String := "err:" ++ e.code

def supportedK (k : Nat) : Bool := minKmerLen ≤ k && k ≤ maxKmerLen

def lenTag (n : Nat) : String :=
  if n ≤ 9 then "len≤9" else if n ≤ 100 then "len≤100" else if n ≤ 1000 then "len≤1000" else "len>1000"

/-- the harness reaches `ForEachKmerOf` and the methods through an index over a fixed 20-letter
    sequence (4 letters of the alphabet × 5), and skips them for 12 < k ≤ 16 (table size) -/
def dummyCheck (a : Biogo.Alphabet.Alpha) (k : Nat) : Option Err :=
  newCheck a.length k (5 * ((a.letters.take a.length).take 4).length)
def dummySkipped (k : Nat) : Bool := 12 < k && k ≤ maxKmerLen

def iterObs (it : Iter) : String :=
  orDash (it.calls.map fun c => s!"{c.1}:{c.2}") "," ++ "/" ++ showBool it.err

def callsObs (cs : List (Nat × Nat)) : String := orDash (cs.map fun c => s!"{c.1}:{c.2}") ","

def gcBits (gc k : Nat) : String := toString (Float.ofNat gc / Float.ofNat k).toBits

def handleIx (a : Biogo.Alphabet.Alpha) (k : Nat) (s : List UInt8) (probes : List Nat)
    (texts : List (List UInt8)) (obs : String) : Verdict :=
  let lk := lookupOf a
  let hasInvalid := s.any fun b => (lk b).isNone
  let tags0 := ["ix", s!"k={k}", lenTag s.length] ++ (if hasInvalid then ["invalid-letters"] else [])
    ++ (if s.any (fun b => 65 ≤ b && b ≤ 90) then ["upper-case"] else [])
  match Kmer.new lk a.length k s with
  | .error e =>
    let m := errObs e
    let tags := tags0 ++ ["rejected-" ++ e.code]
    -- supported parameters must be accepted; the kind of a rejection is not part of the property
    if m == obs then ok tags else diff m tags
  | .ok ix0 =>
    let built := build lk ix0
    -- model observation
    let mF := match kmerFrequencies ix0 with | some f => renderFreq f | none => "none"
    let mIx := match kmerIndex built with | some m => renderWordMap m | none => "none"
    let mSx := match kmerIndex built with
      | some m =>
        let kv := (m.map fun (e : Nat × List Nat) => (format (letterOf a) k e.1, e.2)).toArray.qsort fun x y => ltBytes x.1 y.1
        renderTextMap kv.toList
      | none => "none"
    let mPr := orDash (probes.map fun w => match kmerPositions built w with
      | .ok p => dots p | .error e => errObs e) ","
    let mPs := orDash (texts.map fun t =>
      if t.length ≠ k then errObs .badKmerTextLen
      else match kmerOf lk k t with
        | .error e => errObs e
        | .ok w => match kmerPositions built w with | .ok p => dots p | .error e => errObs e) ","
    let chk := check lk built
    let mChk := s!"{showBool chk.1}:{chk.2}"
    -- the model's index is immutable: whatever the caller does with earlier answers, asking again
    -- gives the same answers (`same`)
    let m := s!"ok f={mF} ix={mIx} sx={mSx} pr={mPr} ps={mPs} chk={mChk} ix2=same sx2=same pr2=same ps2=same"
    -- the statement, by a plain scan of the letters
    let ws := allWindows lk k s
    let wm := byWord ws
    let tm := byText s.toArray k ws
    let wF := renderFreq (wm.map fun kv => (kv.1, kv.2.length))
    let wIx := renderWordMap wm
    let wSx := renderTextMap tm
    let wPr := orDash (probes.map fun w =>
      if w < 4 ^ k then dots ((wm.lookup w).getD []) else "err") ","
    let wPs := orDash (texts.map fun t =>
      if t.length == k && t.all (fun b => (lk b).isSome) then
        dots ((tm.lookup (t.map Biogo.Alphabet.toLower)).getD [])
      else "err") ","
    let wChk := s!"1:{ws.length}"
    let tags := tags0 ++ (if ws.isEmpty then ["no-valid-window"] else ["nt"])
      ++ (if wm.any (fun kv => kv.2.length > 1) then ["repeated-word"] else [])
      ++ (if (wm.lookup 0).isSome then ["word-0-present"] else [])
      ++ (if (wm.lookup (4 ^ k - 1)).isSome then ["last-word-present"] else [])
    let toks := tokens obs
    if toks.head? ≠ some "ok" then fail s!"supported-input-rejected got={obs.take 40}" tags
    else
      let chkTok (name want : String) (cmp : String → String → Bool) : Option String :=
        match field toks name with
        | some got => if cmp want got then none else some s!"{name}: want={want.take 200} got={got.take 200}"
        | none => some s!"{name}: missing"
      let eq := fun (a b : String) => a == b
      -- second answers, given after the caller edited and appended to every slice it got the first
      -- time (`same` abbreviates "identical to the first answer"): C10 says of every query that
      -- the positions reported are the occurrences, so these equal the plain scan too
      let chkTok2 (name want : String) (cmp : String → String → Bool) : Option String :=
        match field toks (name ++ "2"), field toks name with
        | some got2, some got1 =>
          let got := if got2 == "same" then got1 else got2
          if cmp want got then none
          else some s!"{name}2 (asked again after the caller edited the first answers): want={want.take 200} got={got.take 200}"
        | _, _ => some s!"{name}2: missing"
      match (chkTok "f" wF eq).orElse fun _ => (chkTok "ix" wIx eq).orElse fun _ =>
            (chkTok "sx" wSx eq).orElse fun _ => (chkTok "pr" wPr listMatches).orElse fun _ =>
            (chkTok "ps" wPs listMatches).orElse fun _ => (chkTok "chk" wChk eq).orElse fun _ =>
            (chkTok2 "ix" wIx eq).orElse fun _ => (chkTok2 "sx" wSx eq).orElse fun _ =>
            (chkTok2 "pr" wPr listMatches).orElse fun _ => chkTok2 "ps" wPs listMatches with
      | some why => fail why tags
      | none => if m == obs then ok tags else diff (m.take 2000).toString tags

def handleIter (a : Biogo.Alphabet.Alpha) (k : Nat) (s : List UInt8) (ranges : List (Nat × Nat))
    (all : Bool) (obs : String) : Verdict :=
  let lk := lookupOf a
  let tags0 := [if all then "fa" else "fe", s!"k={k}", lenTag s.length]
    ++ (if s.any (fun b => (lk b).isNone) then ["invalid-letters"] else [])
  if dummySkipped k then { status := "skip", tags := tags0 } else
  match dummyCheck a k with
  | some e =>
    let m := errObs e
    let tags := tags0 ++ ["rejected-" ++ e.code]
    if m == obs then ok tags else diff m tags
  | none =>
    let its := ranges.map fun r => forEachKmer lk k s r.1 r.2
    let m := "ok " ++ ";".intercalate (its.map iterObs)
    match tokens obs with
    | ["ok", body] =>
      let parts := body.splitOn ";"
      if parts.length ≠ ranges.length then fail "wrong-number-of-sub-ranges" tags0
      else
        -- the statement: for 0 ≤ start ≤ end ≤ len the callbacks are exactly the valid windows of the range
        let bad := (ranges.zip parts).find? fun rp =>
          let (st, en) := rp.1
          st ≤ en && en ≤ s.length &&
            ((rp.2.splitOn "/").headD "") ≠ callsObs (validWindows lk k s st en)
        let some_calls := its.any fun it => !it.calls.isEmpty
        let tags := tags0 ++ (if some_calls then ["nt"] else ["no-call"])
          ++ (if its.any (·.err) then ["index-out-of-range"] else [])
        match bad with
        | some rp => fail s!"range [{rp.1.1},{rp.1.2}): want={(callsObs (validWindows lk k s rp.1.1 rp.1.2)).take 300} got={rp.2.take 300}" tags
        | none => if m == obs then ok tags else diff (m.take 2000).toString tags
    | _ => fail s!"supported-input-rejected got={obs.take 40}" tags0

def handleKm (a : Biogo.Alphabet.Alpha) (k w : Nat) (obs : String) : Verdict :=
  let lk := lookupOf a
  let tags0 := ["km", s!"k={k}"]
  if a.length ≠ 4 then
    if obs == "err:badalphabet" then ok (tags0 ++ ["rejected-badalphabet"]) else diff "err:badalphabet" tags0
  else
    let text := format (letterOf a) k w
    let back := match kmerOf lk k text with | .ok b => toString b | .error e => errObs e
    let base := s!"fmt={hexOfBytes text} back={back} gc={gcBits (gcOf k w) k} comp={complementOf k w}"
    let meth := if (dummyCheck a k).isNone && !dummySkipped k then
        s!"mfmt={hexOfBytes text} mback={back} mgc={gcBits (gcOf k w) k} mcomp={complementOf k w}"
      else "mfmt=x mback=x mgc=x mcomp=x"
    let m := s!"ok {base} {meth}"
    if 2 ≤ k && k ≤ maxKmerLen && w < 4 ^ k then
      -- the statement: agreement with the string operations on the word's digits
      let ds := toDigits k w
      let wText := hexOfBytes (ds.map (letterOf a))
      let wGc := gcBits (gcCount ds) k
      let wComp := toString (encode (revComp ds))
      let toks := tokens obs
      let tags := tags0 ++ ["nt"]
      let need (name want : String) : Option String :=
        match field toks name with
        | some got => if got == want || got == "x" && name.startsWith "m" then none
                      else some s!"{name}: want={want} got={got}"
        | none => some s!"{name}: missing"
      match (need "fmt" wText).orElse fun _ => (need "back" (toString w)).orElse fun _ =>
            (need "gc" wGc).orElse fun _ => (need "comp" wComp).orElse fun _ =>
            (need "mfmt" wText).orElse fun _ => (need "mback" (toString w)).orElse fun _ =>
            (need "mgc" wGc).orElse fun _ => need "mcomp" wComp with
      | some why => fail why tags
      | none => if m == obs then ok tags else diff m tags
    else
      let tags := tags0 ++ ["word-out-of-range"]
      if m == obs then ok tags else diff m tags

def handleKo (a : Biogo.Alphabet.Alpha) (k : Nat) (text : List UInt8) (obs : String) : Verdict :=
  let lk := lookupOf a
  let tags0 := ["ko", s!"k={k}"]
  let r := match kmerOf lk k text with | .ok b => toString b | .error e => errObs e
  let meth := if (dummyCheck a k).isNone && !dummySkipped k then r else "x"
  let m := s!"ok p={r} m={meth}"
  let toks := tokens obs
  -- the statement is about four-letter alphabets; a longer alphabet is compared with the model only
  let valid := a.length == 4 && text.length == k && text.all fun b => (lk b).isSome
  let want := match digits lk text with
    | some ds => if valid && k ≤ maxKmerLen then some (toString (encode ds)) else none
    | none => none
  let tags := tags0 ++ (if valid then ["nt", "valid-text"] else ["invalid-text"])
  let bad (name : String) : Option String :=
    match field toks name, want with
    | some got, some w => if got == w || got == "x" && name == "m" then none else some s!"{name}: want={w} got={got}"
    | some got, none =>
      if valid || a.length != 4 then none   -- k beyond the word width / not a four-letter alphabet: not part of the property
      else if got.startsWith "err:" || got == "x" && name == "m" then none else some s!"{name}: invalid text accepted got={got}"
    | none, _ => some s!"{name}: missing"
  match (bad "p").orElse fun _ => bad "m" with
  | some why => fail why tags
  | none => if m == obs then ok tags else diff m tags

def handleTokens (inp : List String) (obs : String) : Verdict :=
  match inp with
  | op :: alpha :: k :: rest =>
    match findDef alpha, parseNat k with
    | some d, some k =>
      match d.build with
      | .error e => fail s!"builtin-rejected-by-model {e.code}" [op]
      | .ok (a, _) =>
        match op, rest with
        | "ix", [hs, pr, tx] =>
          match bytesOfHex hs, parseNats pr, (if tx == "-" then some [] else (tx.splitOn ",").mapM bytesOfHex) with
          | some s, some probes, some texts => handleIx a k s probes texts obs
          | _, _, _ => bad "ix"
        | "fa", [hs] =>
          match bytesOfHex hs with
          | some s =>
            let n := s.length + 2
            handleIter a k s ((List.range n).flatMap fun st => (List.range n).map fun en => (st, en)) true obs
          | none => bad "fa"
        | "fe", [hs, st, en] =>
          match bytesOfHex hs, parseNat st, parseNat en with
          | some s, some st, some en => handleIter a k s [(st, en)] false obs
          | _, _, _ => bad "fe"
        | "km", [w] =>
          match parseNat w with
          | some w => handleKm a k w obs
          | none => bad "km"
        | "ko", [ht] =>
          match bytesOfHex ht with
          | some t => handleKo a k t obs
          | none => bad "ko"
        | _, _ => bad "unknown-op"
    | _, _ => bad "alpha-or-k"
  | _ => bad "short-line"

def ops : List String := ["ix", "fa", "fe", "km", "ko"]

def handle (line : String) : String :=
  let (inp, obs) := splitCase line
  (handleTokens (tokens inp) obs).render

end Biogo.Drive.C10
