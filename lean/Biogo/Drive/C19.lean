/-
Driver for C19 (workers and promises).  Core-only.

Inputs (harness/props/c19.go)
  pf <threads> <outcap> <incap> <ops> <close> <sched>      Processor, forced schedule
  pg <threads> <outcap> <incap> <ops;ops;…> <collectors> <close> <sched>
                                                            the same with several producers / collectors
  pu <threads> <gomaxprocs> <outcap> <incap> <ops> <mode>  Processor, free running
  mp <n> <threads> <maxchunk> <errAt>                       Map, free running
  pp <mrl> <calls> <sched>                                  Promise, forced schedule

A forced schedule names, step by step, the actor that the controller releases from the hook
point where it is parked; the actor then runs until it parks at its next hook point, finishes
or blocks (a blocked actor keeps running and moves on as soon as another actor unblocks it).
`runMacro` is the same discipline on the model: it only ever takes steps of the labelled
transition systems `Biogo.Processor.sys` / `Biogo.Promise.sys`, so every state it visits is
`Reach`able and the theorems of Biogo/Properties/C19.lean apply to it.  After the schedule the
remaining parked actors are released lowest first until nothing is parked (drain).
-/
import Biogo.Go.Wire
import Biogo.Go.LTS
import Biogo.Model.Processor
import Biogo.Model.Promise
import Biogo.Model.PromiseCond

namespace Biogo.Drive.C19
open Biogo.Wire Biogo.LTS

/-! ### the controller discipline on a model -/

structure Macro (σ ι : Type) where
  sys : Sys σ ι
  n : Nat
  act : Nat → ι
  /-- actor k stands at a hook point (or has finished): a released actor arriving here parks -/
  atHook : σ → Nat → Bool
  finished : σ → Nat → Bool
  /-- status letter of actor k when it is parked -/
  parkedAt : σ → Nat → Char
  dead : σ → Bool

structure MSt (σ : Type) where
  st : σ
  rel : List Bool
  amb : Bool := false
  trace : List String := []

variable {σ ι : Type} [BEq σ]

def commute (M : Macro σ ι) (s : σ) (k j : Nat) : Bool :=
  match M.sys.step s (M.act k), M.sys.step s (M.act j) with
  | some a, some b =>
    match M.sys.step a (M.act j), M.sys.step b (M.act k) with
    | some x, some y => x == y
    | _, _ => false
  | _, _ => true

/-- released actors run while they can; one that reaches a hook point parks -/
def settle (M : Macro σ ι) : Nat → MSt σ → MSt σ
  | 0, m => m
  | fuel + 1, m =>
    let en := (List.range M.n).filter fun k => m.rel.getD k false && (M.sys.step m.st (M.act k)).isSome
    match en with
    | [] => m
    | k :: rest =>
      match M.sys.step m.st (M.act k) with
      | some s' =>
        let amb := m.amb || rest.any (fun j => !commute M m.st k j)
        let rel := if M.atHook s' k then m.rel.set k false else m.rel
        settle M fuel { m with st := s', rel := rel, amb := amb }
      | none => m

def statusOf (M : Macro σ ι) (m : MSt σ) (k : Nat) : Char :=
  if M.finished m.st k then 'D'
  else if m.rel.getD k false then 'B'
  else M.parkedAt m.st k

def statusVec (M : Macro σ ι) (m : MSt σ) : String :=
  String.ofList ((List.range M.n).map (statusOf M m))

def isParked (M : Macro σ ι) (m : MSt σ) (k : Nat) : Bool :=
  k < M.n && !M.finished m.st k && !(m.rel.getD k false)

/-- release actor k (no-op unless it is parked) -/
def release (M : Macro σ ι) (m : MSt σ) (k : Nat) : MSt σ :=
  if M.dead m.st || !isParked M m k then m
  else
    let m1 := settle M 100000 { m with rel := m.rel.set k true }
    { m1 with trace := m1.trace ++ [statusVec M m1] }

def drain (M : Macro σ ι) (order : List Nat) : Nat → MSt σ → MSt σ
  | 0, m => m
  | fuel + 1, m =>
    if M.dead m.st then m else
    match order.find? (isParked M m) with
    | some k => drain M order fuel (release M m k)
    | none => m

def runMacro (M : Macro σ ι) (sched : List Nat) (order : List Nat) : MSt σ :=
  let m0 : MSt σ := { st := M.sys.init, rel := List.replicate M.n false }
  drain M order 100000 (sched.foldl (release M) m0)

/-! ### Processor -/
section processor
open Biogo.Processor

def parseOp (t : String) : Option Op :=
  match t.toList with
  | c :: ds =>
    match (String.ofList ds).toNat? with
    | some k => if c == 'v' then some (.val k) else if c == 'e' then some (.err k)
                else if c == 'x' then some (.pan k) else none
    | none => none
  | [] => none

def parseOps (s : String) : Option (List Op) :=
  if s == "-" then some [] else (s.splitOn ",").mapM parseOp

def parseRes (t : String) : Option Res := (parseOp t).map eval

def parseRess (s : String) : Option (List Res) :=
  if s == "-" then some [] else (s.splitOn ",").mapM parseRes

def showRes : Res → String
  | .val k => s!"v{k}"
  | .err k => s!"e{k}"
  | .pan k => s!"x{k}"

def showRess (rs : List Res) : String :=
  if rs.isEmpty then "-" else ",".intercalate (rs.map showRes)

def resKey : Res → Nat × Nat
  | .val k => (0, k)
  | .err k => (1, k)
  | .pan k => (2, k)

def resLe (a b : Res) : Bool :=
  let (x, y) := resKey a; let (u, v) := resKey b
  x < u || (x == u && y ≤ v)

def sortRes (rs : List Res) : List Res := rs.mergeSort resLe

/-- is `a` a sub-multiset of `b` -/
def subMultiset : List Res → List Res → Bool
  | [], _ => true
  | x :: xs, b => if b.contains x then subMultiset xs (b.erase x) else false

/-- actor numbering: workers 0..t-1, then the producers, the collectors, stopper, waiter -/
def procActor (t np nc : Nat) (k : Nat) : Actor :=
  if k < t then .worker k
  else if k < t + np then .producer (k - t)
  else if k < t + np + nc then .collector (k - t - np)
  else if k == t + np + nc then .stopper
  else .waiter

def procMacro (c : Cfg) : Macro St Actor :=
  let t := c.threads
  let np := c.prods.length
  let nc := c.ncoll
  { sys := sys c
    n := t + np + nc + 2
    act := procActor t np nc
    atHook := fun s k =>
      if k < t then
        match s.ws[k]? with
        | some .idle | some (.send _) | some .tokret | some .done => true
        | _ => false
      else if t + np ≤ k && k < t + np + nc then s.cpcs[k - t - np]? != some .receiving
      else true
    finished := fun s k =>
      if k < t then s.ws[k]? == some .done
      else if k < t + np then
        (s.todo.getD (k - t) []).isEmpty && (k != t || s.inClosed || !c.wantClose)
      else if k < t + np + nc then s.cpcs[k - t - np]? == some .closedSeen
      else if k == t + np + nc then s.stop
      else s.waitReturned
    parkedAt := fun s k =>
      if k < t then
        match s.ws[k]? with
        | some .idle => 'i'
        | some (.send _) => 'r'
        | some .tokret => 't'
        | _ => '?'
      else 'P'
    dead := fun s => s.crashed.isSome }

/-- schedule letters: digits = workers; p q r = producers 0 1 2; c d e = collectors 0 1 2;
    s = stopper; w = waiter -/
def parseProcSched (t np nc : Nat) (s : String) : Option (List Nat) :=
  if s == "-" then some [] else
  s.toList.mapM fun ch =>
    if ch.isDigit then (let k := ch.toNat - 48; if k < t then some k else none)
    else if ch == 'p' || ch == 'q' || ch == 'r' then
      (let p := ch.toNat - 112; if p < np then some (t + p) else none)
    else if ch == 'c' || ch == 'd' || ch == 'e' then
      (let k := ch.toNat - 99; if k < nc then some (t + np + k) else none)
    else if ch == 's' then some (t + np + nc)
    else if ch == 'w' then some (t + np + nc + 1)
    else none

def showCrash : Crash → String
  | .doubleClose => "crash:close-of-closed-channel"
  | .sendOnClosed => "crash:send-on-closed-channel"

/-- per-collector results `a,b;c;-` and per-collector closed bits `101` (one collector: the
    format of the first wave, `res=a,b closed=1`) -/
def procObs (_c : Cfg) (m : MSt St) : String :=
  match m.st.crashed with
  | some k => showCrash k
  | none =>
    let res := ";".intercalate (m.st.delivered.map showRess)
    let closed := String.join (m.st.cpcs.map fun pc => showBool (pc == .closedSeen))
    s!"t={"/".intercalate m.trace} res={res} closed={closed} wait={showBool m.st.waitReturned}"

/-- drain order: workers, producers, collectors, waiter (never the stopper) -/
def procDrainOrder (t np nc : Nat) : List Nat := List.range (t + np + nc) ++ [t + np + nc + 1]

/-- key=value fields of an observation -/
def field (ts : List String) (key : String) : Option String :=
  (ts.find? (·.startsWith (key ++ "="))).map fun t => String.ofList (t.toList.drop (key.length + 1))

/-- The statement of C19 for a Processor run, evaluated on the implementation's observation.
    `stopUsed`: the schedule released the stopper.  The results of all collectors are taken
    together: every result is some operation's (no duplicate, nothing invented); with the queue
    closed every worker, every collector and `Wait` finish, and — no `Stop`, fewer panicking
    operations than workers — every operation has its result. -/
def procSpec (c : Cfg) (stopUsed : Bool) (obs : String) : Option String :=
  if obs.startsWith "crash:" then some ("no_panic " ++ obs)
  else if obs == "hang" then some "shutdown_clean hang"
  else
    let ts := tokens obs
    let resLists := (field ts "res").bind fun r => (r.splitOn ";").mapM parseRess
    let closedBits := (field ts "closed").bind fun b => b.toList.mapM fun ch => parseBool (String.singleton ch)
    match resLists, closedBits, (field ts "wait").bind parseBool with
    | some ress, some closeds, some wait =>
      let res := ress.flatten
      let closed := closeds.all id
      let want := c.ops.map eval
      let fin := match field ts "t" with
        | some t => ((t.splitOn "/").getLast?).getD ""
        | none => ""
      let finL := fin.toList
      let t := c.threads
      let np := c.prods.length
      let nc := c.ncoll
      let producersDone := ((finL.drop t).take np).all (· == 'D')
      if ress.length ≠ nc || closeds.length ≠ nc then some "unparsable-observation"
      else if !subMultiset res want then some "each_op_one_result: a result that no operation produced, or a duplicate"
      else if c.wantClose && producersDone && nc > 0 &&
              !((finL.take t).all (· == 'D') && ((finL.drop (t + np)).take nc).all (· == 'D') &&
                finL.getD (t + np + nc + 1) 'D' == 'D' && closed && wait) then
        some "shutdown_clean: queue closed but a worker, a collector or Wait did not finish"
      else if c.wantClose && producersDone && nc > 0 && !stopUsed && (c.ops.filter Op.isPan).length < c.threads && !subMultiset want res then
        -- fewer panicking operations than workers: a worker survives and drains the queue
        some "each_op_one_result: an operation without a result"
      else none
    | _, _, _ => some "unparsable-observation"

def parseProds (s : String) : Option (List (List Op)) := (s.splitOn ";").mapM parseOps

def runPF (t oc ic : Nat) (prods : List (List Op)) (nc : Nat) (cl : Bool) (sc : String) (tag : String)
    (obs : String) : Verdict :=
  let np := prods.length
  match parseProcSched t np nc sc with
  | none => bad (tag ++ "-sched")
  | some sched =>
    let c : Cfg := { threads := t, outCap := oc, inCap := ic, prods := prods, ncoll := nc, wantClose := cl, fixed := true }
    let stopUsed := sched.contains (t + np + nc)
    let m := runMacro (procMacro c) sched (procDrainOrder t np nc)
    let mo := procObs c m
    let tags := [tag, s!"threads{t}", s!"ops{c.ops.length}", "nt"] ++
      (if np != 1 then [s!"producers{np}"] else []) ++ (if nc != 1 then [s!"collectors{nc}"] else []) ++
      (if m.amb then ["ambiguous"] else []) ++ (if stopUsed then ["stop"] else []) ++
      (if c.ops.any Op.isPan then ["panic-op"] else []) ++ (if oc == 0 then ["unbuffered"] else [])
    match procSpec c stopUsed obs with
    | some why => fail why tags
    | none => if mo == obs || m.amb then ok tags else diff mo tags

def handlePF (inp : List String) (obs : String) : Verdict :=
  match inp with
  | [_, t, oc, ic, ops, cl, sc] =>
    match parseNat t, parseNat oc, parseNat ic, parseOps ops, parseBool cl with
    | some t, some oc, some ic, some ops, some cl => runPF t oc ic [ops] 1 cl sc "pf" obs
    | _, _, _, _, _ => bad "pf"
  | _ => bad "pf"

/-- `pg <threads> <outcap> <incap> <ops of producer 0>;<ops of producer 1>;… <collectors> <close> <sched>` -/
def handlePG (inp : List String) (obs : String) : Verdict :=
  match inp with
  | [_, t, oc, ic, prods, nc, cl, sc] =>
    match parseNat t, parseNat oc, parseNat ic, parseProds prods, parseNat nc, parseBool cl with
    | some t, some oc, some ic, some prods, some nc, some cl => runPF t oc ic prods nc cl sc "pg" obs
    | _, _, _, _, _, _ => bad "pg"
  | _ => bad "pg"

def handlePU (inp : List String) (obs : String) : Verdict :=
  match inp with
  | [_, t, gmp, oc, ic, ops, mode] =>
    match parseNat t, parseNat gmp, parseNat oc, parseNat ic, parseOps ops with
    | some t, some gmp, some oc, some ic, some ops =>
      let threads := if t > gmp || t < 1 then gmp else t
      let c : Cfg := Cfg.single threads oc (max ic 1) ops true true
      let anyPan := ops.any Op.isPan
      let rel := if ops.length == 0 then "ops0" else if ops.length < threads then "ops<w"
                 else if ops.length == threads then "ops=w" else "ops>w"
      let tags := ["pu", rel, "mode" ++ mode] ++ (if anyPan then ["panic-op"] else ["nt"]) ++
                  (if oc == 0 then ["unbuffered"] else [])
      if obs.startsWith "crash:" then fail ("no_panic " ++ obs) tags
      else if obs.startsWith "hang" then fail "shutdown_clean hang" tags
      else
        let ts := tokens obs
        match (field ts "res").bind parseRess, (field ts "closed").bind parseBool, (field ts "wait").bind parseBool with
        | some res, some closed, some wait =>
          let want := sortRes (ops.map eval)
          if !subMultiset res want then fail "each_op_one_result: a result that no operation produced, or a duplicate" tags
          else if (ops.filter Op.isPan).length < threads && !subMultiset want res then fail "each_op_one_result: an operation without a result" tags
          else if !(closed && wait) then fail "shutdown_clean" tags
          else
            -- model: the lowest-first schedule of the model (any schedule gives this multiset)
            let m := runMacro (procMacro c) [] (procDrainOrder threads 1 1)
            let mo := s!"res={showRess (sortRes (allDelivered m.st))} closed={showBool (allSeen m.st)} wait={showBool m.st.waitReturned}"
            if (ops.filter Op.isPan).length ≥ threads || mo == obs then ok tags else diff mo tags
        | _, _, _ => fail "unparsable-observation" tags
    | _, _, _, _, _ => bad "pu"
  | _ => bad "pu"

/-- chunk list "i-j,i-j" -/
def parseChunks (s : String) : Option (List (Nat × Nat)) :=
  if s == "-" then some [] else
  (s.splitOn ",").mapM fun t =>
    match t.splitOn "-" with
    | [a, b] => match a.toNat?, b.toNat? with
      | some a, some b => some (a, b)
      | _, _ => none
    | _ => none

def showChunks (cs : List (Nat × Nat)) : String :=
  if cs.isEmpty then "-" else ",".intercalate (cs.map fun (a, b) => s!"{a}-{b}")

def handleMP (inp : List String) (obs : String) : Verdict :=
  match inp with
  | [_, n, t, mc, errAt] =>
    match parseNat n, parseNat t, parseNat mc, parseInt errAt with
    | some n, some t, some mc, some errAt =>
      let cs := chunks n (chunkSize n t mc)
      let tags := ["mp", if n == 0 then "empty" else if cs.length == 1 then "one-chunk" else "nt"] ++
        (if errAt ≥ 0 then ["error-chunk"] else [])
      if obs.startsWith "crash:" then fail ("no_panic " ++ obs) tags
      else if obs.startsWith "hang" then fail "map hang" tags
      else
        let ts := tokens obs
        match (field ts "chunks").bind parseChunks, (field ts "err").bind parseBool with
        | some got, some err =>
          let mo := s!"chunks={showChunks cs} err=0"
          if errAt ≥ 0 && errAt.toNat < n then
            -- a failing chunk: Map reports an error; the results it did collect are distinct chunks
            if !err then fail "map: error of a chunk not reported" tags
            else if !(got.all cs.contains) then fail "map_partition: a result that is not a chunk" tags
            else ok tags
          else if err then fail "map: error reported without a failing chunk" tags
          else if !tiles n 0 got then fail "map_partition: results do not partition the input" tags
          else if mo == obs then ok tags else diff mo tags
        | _, _ => fail "unparsable-observation" tags
    | _, _, _, _ => bad "mp"
  | _ => bad "mp"

end processor

/-! ### Promise -/
section promise
open Biogo.Promise

def parseOptNat (s : String) : Option (Option Nat) :=
  if s == "n" then some none else (s.toNat?).map some

def parseCall (t : String) : Option Call :=
  match t.toList with
  | 'W' :: [] => some .wait
  | 'B' :: [] => some .brk
  | 'F' :: r => (parseOptNat (String.ofList r)).map .fulfill
  | 'R' :: r => (parseOptNat (String.ofList r)).map .recover
  | 'X' :: r =>
    match (String.ofList r).splitOn "." with
    | [a, b] =>
      match parseOptNat a, parseOptNat b with
      | some v, some e => some (.fail v (e.map .user))
      | _, _ => none
    | _ => none
  | _ => none

def parseCalls (s : String) : Option (List Call) :=
  if s == "-" then some [] else (s.splitOn ",").mapM parseCall

def parseFlags (s : String) : Option Flags :=
  match s.toList with
  | [m, r, l] =>
    match parseBool (String.singleton m), parseBool (String.singleton r), parseBool (String.singleton l) with
    | some m, some r, some l => some ⟨m, r, l⟩
    | _, _, _ => none
  | _ => none

def showOptNat : Option Nat → String
  | none => "n"
  | some k => toString k

def showErrV : Option ErrV → String
  | none => "n"
  | some (.user k) => toString k
  | some .alreadySet => "S"

def showResP (r : Res) : String := showOptNat r.val ++ "." ++ showErrV r.err

def showRet : Ret → String
  | .ferr none => "ok"
  | .ferr (some .failedPromise) => "failed"
  | .ferr (some .alreadySet) => "set"
  | .ferr (some .cannotRelay) => "norelay"
  | .bool b => showBool b
  | .unit => "u"
  | .res r => showResP r

open Biogo.PromiseCond in
/-- the promise protocol with the condition variable spelled out (`Biogo.PromiseCond.fsys`, a
    refinement of `Biogo.Promise.sys`: Properties/C19_cond.lean).  A Wait that goes to sleep on
    the condition variable, or has been woken and is on its way back to the mailbox, is not at a
    hook point: it stays released and shows as blocked (`B`) in the status vector. -/
def promMacro (c : FCfg) : Macro FSt Nat where
  sys := fsys c
  n := c.calls.length
  act := id
  atHook := fun s k => match s.pcs[k]? with | some .sleeping | some .woken => false | _ => true
  finished := fun s k => match s.pcs[k]? with | some (.done _) => true | _ => false
  parkedAt := fun s k => match s.pcs[k]? with | some (.borrowed _) => 'b' | _ => 'P'
  dead := fun _ => false

open Biogo.PromiseCond in
def promObs (m : MSt FSt) : String :=
  let rets := m.st.pcs.map fun p => match p with | .done r => showRet r | _ => "-"
  s!"t={"/".intercalate m.trace} ret={",".intercalate rets}"

def parseSchedLetters (n : Nat) (s : String) : Option (List Nat) :=
  if s == "-" then some [] else
  s.toList.mapM fun ch => let k := ch.toNat - 97; if ch.toNat ≥ 97 && k < n then some k else none

/-- The statement of C19 for a promise run, evaluated on the implementation's returns.
    `calls` includes the final probing Wait appended by the harness (released last, by the drain).

    Every flag combination and every kind of call ("without … deadlock"): a Fulfill, Fail,
    Recover or Break always returns; and when the probing Wait returned — the promise holds a
    Result at the end — no other Wait may still be blocked.

    Immutable promise whose calls are Fulfill, Fail, Wait (any values, nil included) and Recover
    on a *non-recoverable* promise (a refused Recover): exactly one Fulfill/Fail reports success,
    every call returns when a Fulfill/Fail exists, and every Wait delivers the winner's Result
    (with relay: possibly with the relayed error).

    Mutable promise whose calls are Fulfill and Wait: every Fulfill succeeds; a Wait delivers
    the value of one of them. -/
def promSpec (f : Flags) (calls : List Call) (obs : String) : Option String :=
  if obs.startsWith "crash:" then some ("no_panic " ++ obs)
  else if obs == "hang" then some "no_deadlock hang"
  else
    let ts := tokens obs
    match field ts "ret", field ts "t" with
    | some ret, some t =>
      let rets := ret.splitOn ","
      if rets.length ≠ calls.length then some "unparsable-observation" else
      let cr := calls.zip rets
      let probeReturned := (rets.getLast?).getD "-" != "-"
      if cr.any (fun (c, r) => c != .wait && r == "-") then
        some "no_deadlock: a Fulfill/Fail/Recover/Break never returned"
      else if probeReturned && rets.any (· == "-") then
        some "no_deadlock: a Wait is blocked although the promise holds a Result"
      else
      -- mutable promise with Fulfill and Wait callers only ("Mutable promises may have their value
      -- state changed with subsequent Fulfill calls"): every Fulfill succeeds, and a Wait
      -- delivers the value of one of them, without error
      let mutScope := f.mutable && calls.all fun c => match c with
        | .fulfill _ => true
        | .wait => true
        | _ => false
      if mutScope && cr.any (fun (c, r) => match c with | .fulfill _ => r != "ok" | _ => false) then
        some "mutable_fulfill_replaces: a Fulfill on a mutable promise that carries no error did not succeed"
      else if mutScope && cr.any (fun (c, r) => c == .wait && r != "-" &&
          !(calls.any fun c' => match c' with | .fulfill v => r == showResP ⟨v, none⟩ | _ => false)) then
        some "mutable_fulfill_replaces: a Wait delivered a Result that no Fulfill supplied"
      else
      let inScope := !f.mutable && calls.all fun c => match c with
        | .fulfill _ => true
        | .fail _ _ => true
        | .wait => true
        | .recover _ => !f.recoverable
        | .brk => false
      if !inScope then none else
      -- the setters that report success
      let wins : List Res := cr.filterMap fun (c, r) => match c with
        | .fulfill v => if r == "ok" then some ⟨v, none⟩ else none
        | .fail v e => if r == "1" then some ⟨v, e⟩ else none
        | _ => none
      let hasSetter := calls.any fun c => match c with | .fulfill _ => true | .fail _ _ => true | _ => false
      let fin := ((t.splitOn "/").getLast?).getD ""
      if wins.length > 1 then some "promise_single_assignment: more than one Fulfill/Fail succeeded"
      else if cr.any (fun (c, r) => match c with | .recover _ => r != "0" | _ => false) then
        some "seq_recover: Recover reported success on a non-recoverable promise"
      else if hasSetter && rets.any (· == "-") then some "no_deadlock: a call never returned"
      else if hasSetter && fin.toList.any (· != 'D') then some "no_deadlock: a call never returned"
      else if hasSetter && wins.length == 0 then some "promise_single_assignment: no Fulfill/Fail succeeded"
      else
        match wins with
        | [w] =>
          -- every Wait that returned delivers the settled value (the error may be the relayed one)
          let okWait (r : String) : Bool :=
            r == "-" || r == showResP w || (f.relay && w.err.isNone && r == showResP { w with err := some .alreadySet })
          if cr.any (fun (c, r) => c == .wait && !okWait r) then
            some "waits_return_value: a Wait delivered something else than the settled value"
          else none
        | _ => none
    | _, _ => some "unparsable-observation"

/-- first step of the trace after which actor `k` is no longer parked at its start -/
def relIdx (trace : List String) (k : Nat) : Nat :=
  (trace.findIdx? fun v => v.toList.getD k 'P' != 'P').getD trace.length

/-- first step of the trace after which actor `k` has returned -/
def finIdx (trace : List String) (k : Nat) : Nat :=
  (trace.findIdx? fun v => v.toList.getD k 'P' == 'D').getD (trace.length + 1)

/-- The executable form of `promise_linearizable` (Properties/C19_promise.lean) on an
    observation: is there an order of the calls that returned which (1) respects real time — a
    call that had returned before another one was released comes first —, (2) executed
    sequentially with `seqCall` on an empty promise gives every call the return value observed,
    and (3) leaves the promise empty if some Wait never returned.  Depth-first over the calls
    still to be placed (`rem`). -/
def linSearch (f : Flags) (cr : List (Call × String)) (rel fin : List Nat) :
    Nat → Option Res → List Nat → Bool
  | 0, _, _ => false
  | _ + 1, box, [] => cr.all (fun (_, r) => r != "-") || box.isNone
  | fuel + 1, box, rem =>
    rem.any fun k =>
      rem.all (fun j => j == k || !(fin.getD j 0 < rel.getD k 0)) &&
      match cr[k]? with
      | some (call, r) =>
        match seqCall f box call with
        | some (b', ret) => showRet ret == r && linSearch f cr rel fin fuel b' (rem.erase k)
        | none => false
      | none => false

def linearizableObs (f : Flags) (calls : List Call) (obs : String) : Bool :=
  let ts := tokens obs
  match field ts "ret", field ts "t" with
  | some ret, some t =>
    let rets := ret.splitOn ","
    let trace := t.splitOn "/"
    let cr := calls.zip rets
    let n := cr.length
    let rel := (List.range n).map (relIdx trace)
    let fin := (List.range n).map (finIdx trace)
    let returned := (List.range n).filter fun k => (rets.getD k "-") != "-"
    linSearch f cr rel fin (n + 2) none returned
  | _, _ => false

def handlePP (inp : List String) (obs : String) : Verdict :=
  match inp with
  | [_, fl, calls, sc] =>
    match parseFlags fl, parseCalls calls with
    | some f, some calls0 =>
      -- the harness appends a probing Wait as the last actor; it is only released by the drain
      let calls := calls0 ++ [.wait]
      match parseSchedLetters calls0.length sc with
      | none => bad "pp-sched"
      | some sched =>
        let c : PromiseCond.FCfg := { flags := f, calls := calls, wake := .broadcast }
        let m := runMacro (promMacro c) sched (List.range calls.length)
        let mo := promObs m
        let nwait := (calls0.filter (· == .wait)).length
        let tags := ["pp", "flags" ++ fl, s!"actors{calls0.length}", s!"waits{nwait}"] ++
          (if m.amb then ["ambiguous"] else []) ++ (if calls0.length ≥ 2 then ["nt"] else [])
        match promSpec f calls obs with
        | some why => fail why tags
        | none =>
          if !linearizableObs f calls obs then
            diff ("promise_linearizable: no sequential history of the promise laws explains the returns; model: " ++ mo) tags
          else if mo == obs || m.amb then ok tags else diff mo tags
    | _, _ => bad "pp"
  | _ => bad "pp"

end promise

def ops : List String := ["pf", "pg", "pu", "mp", "pp"]

def handle (line : String) : String :=
  let (inp, obs) := splitCase line
  let ts := tokens inp
  if obs == "skip" then ({ status := "skip" } : Verdict).render else
  (match ts.head? with
   | some "pf" => handlePF ts obs
   | some "pg" => handlePG ts obs
   | some "pu" => handlePU ts obs
   | some "mp" => handleMP ts obs
   | some "pp" => handlePP ts obs
   | _ => bad "unknown-op").render

end Biogo.Drive.C19
