/-
Driver for C09, part `aff` (NWAffine, SWAffine, FittedAffine).

The statement of C09 evaluated on the implementation's own output:
  * legal input: the pairs form one monotone path of well-shaped pairs (`wellFormed`), global
    alignments span both sequences, local/fitted ones stay in bounds; every pair's score is
    the score recomputed from letters, matrix and gap parameters (`faithful`); quality
    letters give the same pairs (`tq=1`); `align.Format` renders two rows of equal length
    that reduce to the aligned subsequences when the gap letter is removed;
  * ill-typed input (illegal letter, differing alphabets or types, non-square or undersized
    matrix, alphabet without leading gap): an error, never a panic and never an alignment.
K5 (C09, repaired): before the repair the traceback `switch` tested its cases against the
current value whatever the current layer, so a numeric tie could move the path to another
layer and a gap pair was then reported without (or with a second) gap-open.  The recogniser
stays, so that a regression is named: unfaithful pairs are `known:K5` when the path is
otherwise well formed, the model of the layer-blind traceback (`legacyPairs`) reproduces the
pairs exactly, and that traceback takes a `case` that does not belong to its current layer on
this input (`tieSwitched`).  `KNOWN_FINDINGS.txt` no longer lists K5, so the check then fails.
The repair must not change anything else: when the layer-blind traceback takes no such `case`
on an input (`tieSwitched = false`), the implementation's pairs must be the ones it returned
(`diff` otherwise; tags `legacy-same`, `legacy-tie`).
Core only.
-/
import Biogo.Drive.AffCommon

namespace Biogo.Drive.C09_aff
open Biogo.Wire Biogo.AlignAff Biogo.Drive.AffCommon
open Biogo.Spec.AffPairs

def ops : List String := ["nwaff", "swaff", "fitaff"]

def degap (gap : UInt8) (bs : List UInt8) : List UInt8 := bs.filter (· != gap)

/-- `Format` rows: equal length, and without gap letters they are the aligned subsequences -/
def formatOk (c : Case) (ps : List Pair) (f : String) : Option String :=
  if f == "x" then none else
  match f.splitOn ":" with
  | [a, b] =>
    match bytesOfHex a, bytesOfHex b with
    | some ra, some rb =>
      if ra.length ≠ rb.length then some "Format rows differ in length"
      else if c.rbytes.contains c.gapLetter || c.qbytes.contains c.gapLetter then none
      else
        let (rs, qs) := firstStart ps
        let (re, qe) := lastEnd ps
        if degap c.gapLetter ra ≠ (c.rbytes.take re).drop rs then some "Format row 0 is not the aligned reference segment"
        else if degap c.gapLetter rb ≠ (c.qbytes.take qe).drop qs then some "Format row 1 is not the aligned query segment"
        else none
    | _, _ => some "unparsable Format rows"
  | _ => some "unparsable Format rows"

def handleCase (c : Case) (obs : String) : Verdict :=
  let r := rIdx c
  let q := qIdx c
  let R := r.length
  let C := q.length
  let S := sc c.M
  let model := align c.w c.M c.gapOpen c.ref c.qry
  let legal := legalInput c
  let base := [opTag c.w] ++ (if c.ref.quality then ["quality"] else ["plain"]) ++
    (if legal then ["legal"] ++ (if R ≥ 2 ∧ C ≥ 2 then ["nt"] else [])
     else ["nt", "illtyped", ((modelObs model).splitOn " ").headD ""])
  if c.ref.idx.isEmpty || c.qry.idx.isEmpty then { status := "skip", tags := ["outside-domain"] } else
  let same := modelObs model == obsHead obs
  let fin (tags : List String) : Verdict := if same then ok tags else diff (modelObs model) tags
  match parseObs obs with
  | .panic =>
    if legal then fail "panic on a legal input" base else fail s!"panic where an error is required ({modelObs model})" base
  | .hang => fail "hang" base
  | .err code =>
    if legal then fail s!"error on a legal input: {code}" base else fin base
  | .pairs ps tq f =>
    if !legal then fail s!"an alignment is returned where an error is required ({modelObs model})" base else
    if !(wellFormed ps) then fail "pairs are not one monotone path of blocks, one-sided gaps and empty zero-score pairs" base
    else if c.w == .nw ∧ !(spansAll ps R C) then fail "global alignment does not span both sequences" base
    else if !(inBounds ps R C) then fail "pairs out of bounds" base
    else if tq == "0" then fail "quality letters give different pairs from plain letters" base
    else
      match formatOk c ps f with
      | some why => fail why base
      | none =>
        let legacy := legacyPairs c.w S c.gapOpen r q
        let tie := tieSwitched c.w S c.gapOpen r q
        let legacySame := modelObs legacy == obsHead obs
        if faithful S c.gapOpen r q ps then
          if !tie ∧ !legacySame then
            diff s!"differs from the traceback before the K5 repair although that one takes no case of another layer: {modelObs legacy}" (base ++ ["faithful"])
          else fin (base ++ ["faithful"] ++ (if tie then ["legacy-tie"] else []) ++
            (if legacySame then ["legacy-same"] else ["legacy-differs"]))
        else
          let bad := ps.filter fun p => p.score != pairScore S c.gapOpen r q p
          let why := match bad.head? with
            | some p => s!"pair {showPair p} recomputed score {pairScore S c.gapOpen r q p}"
            | none => ""
          if legacySame ∧ tie then
            known "K5" s!"{why}: a numeric tie moved the traceback to another layer (the model of the layer-blind switch reproduces the pairs)" (base ++ ["k5"])
          else fail why base
  | .other s => bad s!"unparsable observation {s}"

def handle (line : String) : String :=
  let (inp, obs) := splitCase line
  match parseCase (tokens inp) with
  | some c => (handleCase c obs).render
  | none => (bad "unparsable input").render

end Biogo.Drive.C09_aff
