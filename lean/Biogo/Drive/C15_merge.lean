/-
Driver for C15, part `merge`.  One case =
  `mg <self> <k> <maxError> <tubeOffset> <maxIGap> <truns> <qruns> <hits>\t<observation>`
(see `harness/props/c15_merge.go`).  The model `Biogo.PalsMerge.merge` is run on the input and
compared with the trapezoid slice `filter.Merger` returned (up to the order of equal bottoms,
which `sort.Sort` leaves open).  The statement evaluated on the *implementation's* slice:

 always        no panic inside the modelled domain; the slice is sorted by `Bottom`;
 self          every trapezoid satisfies `Left - maxIGap > MaxError` (the aligner widens a
               trapezoid by `maxIGap` diagonals: the widened band stays above the main diagonal);
 sorted input, every letter valid, `maxIGap ≥ 1`, every hit with `From ≤ To`
               every hit that `MergeFilterHit` does not drop at its head (self-comparison cut;
               band beyond the last query row, `-Diagonal > Qlen`) lies inside one returned trapezoid
               (`Left ≤ -Diagonal`, `-Diagonal + binWidth ≤ Right`, `Bottom ≤ From`, `To ≤ Top`),
               and every trapezoid has `Bottom ≤ Top` (and `Left ≤ Right` when `binWidth ≥ 0`).
Core-only.
-/
import Biogo.Go.Wire
import Biogo.Model.PalsMerge

namespace Biogo.Drive.C15_merge
open Biogo.Wire Biogo.PalsMerge

/-- run lengths, alternately valid / invalid, starting with valid -/
def expandRuns (runs : List Nat) : Array Bool :=
  (runs.foldl (fun (acc : Array Bool × Bool) r => (acc.1 ++ Array.replicate r acc.2, !acc.2)) (#[], true)).1

def parseHit (s : String) : Option FHit :=
  match (s.splitOn ":").mapM parseInt with
  | some [f, t, d] => some ⟨f, t, d⟩
  | _ => none

def parseHits (s : String) : Option (List FHit) :=
  if s == "-" then some [] else (s.splitOn ";").mapM parseHit

def parseTrap (s : String) : Option Trap :=
  match (s.splitOn ":").mapM parseInt with
  | some [t, b, l, r] => some ⟨t, b, l, r⟩
  | _ => none

def parseTraps (s : String) : Option (List Trap) :=
  if s == "-" then some [] else (s.splitOn ";").mapM parseTrap

def showTrap (t : Trap) : String := s!"{t.top}:{t.bottom}:{t.left}:{t.right}"
def showTraps (l : List Trap) : String := if l.isEmpty then "-" else ";".intercalate (l.map showTrap)

def trapLe (a b : Trap) : Bool :=
  if a.bottom ≠ b.bottom then a.bottom < b.bottom
  else if a.top ≠ b.top then a.top < b.top
  else if a.left ≠ b.left then a.left < b.left
  else a.right ≤ b.right

def canon (l : List Trap) : List Trap := l.mergeSort trapLe

def sortedByBottom : List Trap → Bool
  | [] => true
  | [_] => true
  | a :: b :: rest => decide (a.bottom ≤ b.bottom) && sortedByBottom (b :: rest)

def sortedByFrom : List FHit → Bool
  | [] => true
  | [_] => true
  | a :: b :: rest => decide (a.from_ ≤ b.from_) && sortedByFrom (b :: rest)

/-- the hit's band and query interval lie inside the trapezoid -/
def contains (c : Cfg) (t : Trap) (h : FHit) : Bool :=
  decide (t.left ≤ -h.diagonal) && decide (-h.diagonal + c.binWidth ≤ t.right) &&
  decide (t.bottom ≤ h.from_) && decide (h.to ≤ t.top)

/-- the property's statement on the implementation's slice; `none` = holds -/
def statementWhy (c : Cfg) (hits : List FHit) (allValid : Bool) (traps : List Trap) : Option String :=
  if !sortedByBottom traps then some "trapezoids-not-sorted-by-bottom"
  else match (if c.selfComparison then traps.find? (fun t => !decide (t.left - c.maxIGap > c.maxError)) else none) with
  | some t => some s!"self-comparison-trapezoid-within-maxIGap-of-main-diagonal {showTrap t}"
  | none =>
    if !(allValid && decide (1 ≤ c.maxIGap) && sortedByFrom hits && hits.all (fun h => decide (h.from_ ≤ h.to))) then none
    else match hits.find? (fun h => !dropped c h && !traps.any (fun t => contains c t h)) with
    | some h => some s!"filter-hit-not-inside-any-trapezoid {h.from_}:{h.to}:{h.diagonal}"
    | none =>
      match traps.find? (fun t => !(decide (t.bottom ≤ t.top) && (decide (c.binWidth < 0) || decide (t.left ≤ t.right)))) with
      | some t => some s!"trapezoid-not-well-formed {showTrap t}"
      | none => none

def handleCase (c : Cfg) (hits : List FHit) (obs : String) : Verdict :=
  let allValid := c.qv.all id && c.tv.all id
  let kept := hits.filter (fun h => !dropped c h)
  let baseTags := [if c.selfComparison then "self" else "non-self"] ++
    (if allValid then [] else ["n-runs"]) ++
    (if sortedByFrom hits then ["sorted"] else ["unsorted"]) ++
    (if kept.length < hits.length then ["cut"] else []) ++
    (if hits.any (beyondQuery c) then ["beyond-query"] else []) ++
    (if hits.isEmpty then ["no-hit"] else [])
  if obs == "err:index" then { status := "skip", tags := baseTags, detail := "index" } else
  match merge c hits with
  | none => { status := "skip", tags := baseTags ++ ["outside-domain"], detail := "hit reaches the sentinel" }
  | some model =>
    let tags := baseTags ++ (if model.length < kept.length then ["merged"] else []) ++
      (match mergeAll c St.init hits with
       | some s => if finalList c s != s.active.reverse ++ s.done then ["clipped"] else []
       | none => [])
    if obs.startsWith "panic" || obs == "hang" then fail s!"implementation {obs.take 80}" tags
    else if !obs.startsWith "T=" then bad "observation"
    else match parseTraps (obs.drop 2).toString with
    | none => bad "observation"
    | some traps =>
      let tags := tags ++ (if traps.isEmpty then [] else ["nt"])
      match statementWhy c hits allValid traps with
      | some w => fail w tags
      | none =>
        if canon traps == canon model then ok tags
        else diff (showTraps model) tags

def ops : List String := ["mg"]

def handle (line : String) : String :=
  let (inp, obs) := splitCase line
  match tokens inp with
  | ["mg", self, k, e, off, gap, truns, qruns, hits] =>
    match parseBool self, parseInt k, parseInt e, parseInt off, parseInt gap, parseNats truns, parseNats qruns, parseHits hits with
    | some self, some k, some e, some off, some gap, some truns, some qruns, some hits =>
      let c : Cfg := { qv := expandRuns qruns, tv := expandRuns truns, k := k, maxError := e, tubeOffset := off,
                       maxIGap := gap, selfComparison := self }
      (handleCase c hits obs).render
    | _, _, _, _, _, _, _, _ => (bad "input").render
  | _ => (bad "unknown-op").render

end Biogo.Drive.C15_merge
