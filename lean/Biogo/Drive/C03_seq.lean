/-
Driver for C03, part seq (FASTA and FASTQ readers on arbitrary bytes).

For one case `fa3 <hex>` / `fq3 <tmpl> <hex>` with the implementation's call history it
(1) runs `readAll` of the model, (2) evaluates the statement of C03 on the implementation's
history: no panic, no hang, no call that returned neither a sequence nor an error, `EOF`
reached within (number of input lines + 1) calls, and the structurally invalid shapes of
`Biogo.Properties.C03_seq.rejects_*` are answered by an error; (3) compares the histories.
Core only.
-/
import Biogo.Drive.SeqioWire

namespace Biogo.Drive.C03_seq
open Biogo.Wire Biogo.Go.Bytes Biogo.Drive.Seqio

def ops : List String := ["fa3", "fq3", "fap3"]

/-- the non-blank lines, trimmed, as both readers see them -/
def nonblank (bs : Bytes) : List Bytes := ((splitLines bs).map trimSpace).filter (fun l => l.length > 0)

/-- FASTA: data before any header line must be answered by an error on the first call -/
def fastaMustReject (bs : Bytes) (idPrefix : Bytes := [62]) : Option String :=
  match nonblank bs with
  | l :: _ => if hasPrefix l idPrefix then none else some "E:bad"
  | [] => none

/-- FASTQ: a record `@hdr / letters / +… / quality` (blank lines anywhere in between) whose
    `+` line repeats a different header, or whose quality line has another length than the
    sequence line, must be answered by that error on the first call.  The first three lines
    must have been delivered as lines (`readLineInput`); the quality line may also be the
    fragments pending at `io.EOF`. -/
def fastqMustReject (bs : Bytes) : Option String :=
  let (lines, pend) := readLineInput (eofWithData bs) bs
  match (lines.map trimSpace).filter (fun l => l.length > 0) with
  | hdr :: s :: p :: rest =>
    let letters := s.filter (fun b => !Biogo.Fastq.isSpace b)
    if Biogo.Fastq.maybeID1 hdr && !Biogo.Fastq.maybeID2 s && Biogo.Fastq.maybeID2 p && letters.length > 0 then
      if p.length != 1 && hdr.drop 1 != p.drop 1 then some "E:qhdr"
      else
        let q := removeSpaces (rest.headD pend)
        if q.length != letters.length then some "E:len" else none
    else none
  | _ => none

/-- statement of C03 on the implementation's history; `none` = holds -/
def statement (bs : Bytes) (mustReject : Option String) (obs : String) : Option String :=
  if obs.startsWith "panic:" then some ("reader-panicked " ++ obs)
  else if obs == "hang" then some "reader-hung"
  else
    let calls := tokens obs
    if calls.contains "N" then some "a call returned neither a sequence nor an error"
    else if calls.getLast? != some "EOF" then some "no EOF within the call budget"
    else if calls.length > lineCount bs + 1 then
      some s!"{calls.length} calls for {lineCount bs} lines"
    else match mustReject with
      | some e => if calls.head? == some e then none else some ("invalid input not rejected with " ++ e)
      | none => none

def kindTags (obs : String) : List String :=
  let calls := tokens obs
  (if calls.any (·.startsWith "R:") then ["has-record"] else []) ++
  (if calls.contains "E:bad" then ["err-bad"] else []) ++
  (if calls.contains "E:len" then ["err-len"] else []) ++
  (if calls.contains "E:qhdr" then ["err-qhdr"] else []) ++
  (if calls.contains "E:nohdr" then ["err-nohdr"] else [])

def verdict (bs : Bytes) (mustReject : Option String) (model obs : String) (tags : List String) : Verdict :=
  let tags := tags ++ kindTags obs ++ (if mustReject.isSome then ["must-reject"] else [])
    ++ (if bs.length > 0 then ["nt"] else [])
    ++ [if bs.length ≤ 64 then "bytes<=64" else if bs.length < 4096 then "bytes<4096" else "bytes>=4096"]
  match statement bs mustReject obs with
  | some why => fail why tags
  | none => if model == obs then ok tags else diff (model.take 600).toString tags

def handle (line : String) : String :=
  let (inp, obs) := splitCase line
  let v : Verdict :=
    match tokens inp with
    | ["fa3", hex] =>
      match bytesOfHex hex with
      | some bs => verdict bs (fastaMustReject bs) (fastaCalls (Biogo.Fasta.readAll fastaCfg bs)) obs ["fasta"]
      | none => bad "fa3"
    | ["fap3", idp, sp, hex] =>
      -- the FASTA reader with user-set IDPrefix / SeqPrefix
      match bytesOfHex idp, bytesOfHex sp, bytesOfHex hex with
      | some idp, some sp, some bs =>
        verdict bs (fastaMustReject bs idp)
          (fastaCalls (Biogo.Fasta.readAll { idPrefix := idp, seqPrefix := sp } bs)) obs ["fasta", "user-prefixes"]
      | _, _, _ => bad "fap3"
    | ["fq3", tmpl, hex] =>
      match bytesOfHex hex, (if tmpl == "s" then some Biogo.Fastq.Encoding.none else encOfString tmpl) with
      | some bs, some enc =>
        verdict bs (fastqMustReject bs) (fastqCalls (Biogo.Fastq.readAll (fastqCfg tmpl enc) (eofWithData bs) bs)) obs
          ["fastq", if tmpl == "s" then "tmpl-seq" else encName enc]
      | _, _ => bad "fq3"
    | _ => bad "unknown-op"
  v.render

end Biogo.Drive.C03_seq
