/-
Driver for C12 (concurrent-mode external sort is schedule independent).

Input `s <conc> <chunk> <ac> <aclean> <i|s> <ops> <sched> -` (see `MorassWire`).
(1) runs the labelled transition system under the forced schedule, then to completion;
(2) evaluates the statement on the implementation's observation: the caller's program
    completes (no deadlock, no panic, no error) and its outputs satisfy the statement of C11
    (every cycle's pulls are the sorted multiset of its pushes, then io.EOF; Len/Pos);
(3) compares model and implementation: which forced steps ran / were blocked, results, keys.
-/
import Biogo.Drive.MorassWire

namespace Biogo.Drive.C12
open Biogo.Wire Biogo.Morass Biogo.MorassConc Biogo.Drive.MorassWire

def handleTokens (inp : List String) (obs : String) : Verdict :=
  match inp with
  | "s" :: rest =>
    match parseWork rest with
    | none => bad "s"
    | some w =>
      let r := runWork w
      let implToks := tokens obs
      -- the residue of the temporary directory belongs to C13 (and depends on which of two
      -- equal-key files is exhausted first): not compared here
      let noResidue (s : String) : String :=
        match tokens s with
        | fl :: st :: _ :: _ :: _ :: rest => " ".intercalate (fl :: st :: rest)
        | _ => s
      let m := noResidue (modelRender r)
      let impl := noResidue (implRender implToks)
      let spawned := r.final.writers.length
      let tags := [if w.conc then "concurrent" else "sequential", s!"writers{min spawned 4}",
                   if w.sched.isEmpty then "free-run" else "forced"]
                  ++ (if (tokens r.render).head?.any (·.contains 'b') then ["blocked-probe"] else [])
      match Biogo.Morass.historyOf w.ac (Biogo.Morass.dropRejects w.ops) with
      | none => if m == impl then ok (tags ++ ["illformed"]) else diff m (tags ++ ["illformed"])
      | some h =>
        let tags := tags ++ [s!"cycles{min h.length 4}"] ++ (if w.ops.any (· == Op.reject) then ["rejected-push"] else []) ++ (if spawned ≥ 1 && !w.sched.isEmpty then ["nt"] else [])
        if obs == "crash" || obs.startsWith "panic" then fail "harness-process-or-goroutine-panicked" tags
        else if obs == "hang" then fail "hang" tags
        else if w.chunk = 0 || !w.flt.isEmpty || w.abandon then (if m == impl then ok tags else diff m tags)
        else
          match implToks with
          | _ :: st :: _ :: _ :: _ :: outToks =>
            if st ≠ "done" then fail "deadlock:the-caller-never-returned" tags else
            match outToks.mapM Biogo.Drive.C11.parseOut with
            | none => fail "a-call-returned-an-error-or-panicked" tags
            | some outs =>
              match Biogo.Drive.C11.programStatement w.ac h w.ops outs with
              | some why => fail why tags
              | none => if m == impl then ok tags else diff m tags
          | _ => fail "unparsable-observation" tags
  | _ => bad "unknown-op"

def ops : List String := ["s"]

def handle (line : String) : String :=
  let (inp, obs) := splitCase line
  (handleTokens (tokens inp) obs).render

end Biogo.Drive.C12
