/-
Driver for C06.  For one case line it (1) runs the model of `Biogo/Model/Sequtils.lean` on the
input, in a heap laid out like the harness's buffers, (2) evaluates the statement of C06
(`Biogo/Spec/Sequtils.lean`) on the implementation's observation, (3) answers the verdict.
Core only.
-/
import Biogo.Go.Wire
import Biogo.Model.Sequtils
import Biogo.Generated.SequtilsFacts

namespace Biogo.Drive.C06
open Biogo.Wire Biogo.Sequtils

abbrev El := UInt8 × UInt8          -- letter, quality (0 for sequences without qualities)

def pad : Nat := 3
def sentinel : El := (0xA5, 0xA5)

def pairs : List UInt8 → Option (List El)
  | [] => some []
  | [_] => none
  | l :: q :: rest => (pairs rest).map ((l, q) :: ·)

def parseData (kind hex : String) : Option (List El) :=
  match bytesOfHex hex with
  | none => none
  | some bs => if kind == "q" then pairs bs else some (bs.map fun b => (b, 0))

def showData (kind : String) (xs : List El) : String :=
  if kind == "q" then hexOfBytes (xs.flatMap fun e => [e.1, e.2]) else hexOfBytes (xs.map (·.1))

def parseFeat (s : String) : Option Feat :=
  match s.splitOn ":" with
  | [a, b, c] =>
    match parseInt a, parseInt b, parseInt c with
    | some a, some b, some c => some { s := a, e := b, o := c }
    | _, _, _ => none
  | _ => none

def parseFeats (s : String) : Option (List Feat) :=
  if s == "-" then some [] else (s.splitOn ",").mapM parseFeat

/-- reverse-complement function of a named alphabet: the dumped complement table on the
    letter (quality travels with its letter), `id` for a non-complementing alphabet -/
def rcOf (alpha : String) : Option (El → El) :=
  match Biogo.Generated.Sequtils.alphabets.find? (·.1 == alpha) with
  | none => none
  | some (_, isComp, tab) =>
    if isComp then some fun e => (tab.getD e.1.toNat e.1, e.2) else some id

/-- the harness's buffer: sentinels, letters, sentinels; the sequence is the middle window
    with the trailing sentinels as spare capacity -/
def buffer (xs : List El) : List El := List.replicate pad sentinel ++ xs ++ List.replicate pad sentinel

def window (arr n : Nat) : Sl := { arr, off := pad, len := n, cap := n + pad }

def padsOk (h : Heap El) (arr n : Nat) : Bool :=
  let b := h.arr arr
  b.take pad == List.replicate pad sentinel && (b.drop (pad + n)) == List.replicate pad sentinel

def scribble (kind : String) (h : Heap El) (s : Sl) : Heap El :=
  h.write s.arr s.off ((read h s).map fun e => (e.1 ^^^ 0xFF, if kind == "q" then e.2 ^^^ 0xFF else e.2))

def errCode : Err → String
  | .error c => "err:" ++ c
  | .panic _ => "panic"

/-- renders a model outcome like the harness renders the implementation's.
    `srcArr n` locate the caller's buffer; `srcAfter` is the source object after the call. -/
def render (kind : String) (r : Except Err (Heap El × Seq)) (h0 : Heap El) (src : Seq) (srcArr n : Nat)
    (dstIsSrc scribbleDst : Bool) : String :=
  match r with
  | .error (.panic _) => "panic"
  | .error e =>
    s!"{errCode e} {showData kind (read h0 (window srcArr n))} {src.offset} {src.conf} {showBool (padsOk h0 srcArr n)}"
  | .ok (h, d) =>
    let after := read h (window srcArr n)
    let s' := if dstIsSrc then d else src
    let h' := if scribbleDst then scribble kind h d.sl else h
    let after2 := read h' (window srcArr n)
    s!"ok {showData kind (read h d.sl)} {d.offset} {d.conf} {showData kind after} {s'.offset} {s'.conf} {showData kind after2} {showBool (padsOk h srcArr n && padsOk h' srcArr n)}"

structure ImplOk where
  data : List El
  start : Int
  conf : Int
  srcAfter : List El
  srcStart : Int
  srcConf : Int
  srcAfter2 : List El
  pads : Bool

inductive Impl
  | ok (o : ImplOk)
  | err (code : String) (srcAfter : List El) (srcStart srcConf : Int) (pads : Bool)
  | panic
  | junk

def parseImpl (kind obs : String) : Impl :=
  if obs.startsWith "panic" || obs == "hang" || obs == "crash" then .panic else
  match tokens obs with
  | ["ok", d, st, cf, a1, ss, sc, a2, p] =>
    match parseData kind d, parseInt st, parseInt cf, parseData kind a1, parseInt ss, parseInt sc,
          parseData kind a2, parseBool p with
    | some d, some st, some cf, some a1, some ss, some sc, some a2, some p =>
      .ok { data := d, start := st, conf := cf, srcAfter := a1, srcStart := ss, srcConf := sc, srcAfter2 := a2, pads := p }
    | _, _, _, _, _, _, _, _ => .junk
  | [e, a1, ss, sc, p] =>
    if e.startsWith "err:" then
      match parseData kind a1, parseInt ss, parseInt sc, parseBool p with
      | some a1, some ss, some sc, some p => .err e a1 ss sc p
      | _, _, _, _ => .junk
    else .junk
  | _ => .junk

/-- "when destination and source differ the source is unchanged and shares no storage with
    the result", on an ok observation -/
def untouched (o : ImplOk) (xs : List El) (offset conf : Int) : Option String :=
  if o.srcAfter ≠ xs then some "source-letters-changed"
  else if o.srcStart ≠ offset || o.srcConf ≠ conf then some "source-position-changed"
  else if o.srcAfter2 ≠ xs then some "result-shares-storage-with-source"
  else if !o.pads then some "source-buffer-written-outside-the-sequence"
  else none

def confTag (c : Int) : String := if c = 0 then "linear" else if c = 1 then "circular" else "undefined-conf"
def sameTag (s : String) : String := if s == "1" then "dst==src" else "dst!=src"
def offTag (o : Int) : String := if o < 0 then "offset<0" else if o = 0 then "offset=0" else "offset>0"

def finish (why : Option String) (model obs : String) (tags : List String) : Verdict :=
  match why with
  | some w => fail w tags
  | none => if model == obs then ok tags else diff model tags

/-! #### Truncate -/
def specTruncate (xs : List El) (offset conf : Int) (same : Bool) (start stop : Int) (i : Impl) : Option String :=
  let stop_ := offset + xs.length
  let inside := truncateInside offset stop_ (conf == confCircular) start stop
  -- an undefined conformation with start > stop is neither "circular" nor "linear": either outcome
  let free := conf ≠ confLinear && conf ≠ confCircular && start > stop &&
              truncateInside offset stop_ true start stop
  match i with
  | .panic => some "panic"
  | .junk => some "unparsable-observation"
  | .err _ a _ _ _ =>
    if inside && !free then some "error-for-a-range-inside-the-sequence"
    else if !same && a ≠ xs then some "source-letters-changed"
    else none
  | .ok o =>
    if !inside && !free then some "no-error-for-a-range-outside-the-sequence"
    else if o.data ≠ truncateSpec xs offset start stop then some "letters-are-not-those-at-the-positions"
    else if o.start ≠ start then some "result-does-not-start-at-start"
    else if o.conf ≠ confLinear then some "result-not-linear"
    else if !same then untouched o xs offset conf
    else none

/-! #### Stitch / Compose -/
def wellFormed (fs : List Feat) : Bool := fs.all fun f => decide (f.s ≤ f.e)

def specStitch (xs : List El) (offset conf : Int) (same : Bool) (fs : List Feat) (i : Impl) : Option String :=
  if !wellFormed fs then (match i with | .junk => some "unparsable-observation" | _ => none) else
  match i with
  | .panic => some "panic"
  | .junk => some "unparsable-observation"
  | .err _ _ _ _ _ => some "error-for-well-formed-features"
  | .ok o =>
    if o.data ≠ stitchSpec xs offset fs then some "letters-are-not-the-clipped-union-in-ascending-order"
    else if !same then untouched o xs offset conf
    else none

def specCompose (rc : El → El) (reverser : Bool) (xs : List El) (offset conf : Int) (same : Bool)
    (fs : List Feat) (i : Impl) : Option String :=
  if !wellFormed fs || (!reverser && fs.any (·.o = orientReverse)) then
    (match i with | .junk => some "unparsable-observation" | _ => none) else
  match i with
  | .panic => some "panic"
  | .junk => some "unparsable-observation"
  | .err _ _ _ _ _ => some "error-for-well-formed-features"
  | .ok o =>
    if o.data ≠ composeSpec rc xs offset fs then some "letters-are-not-the-concatenated-clipped-segments"
    else if !same then untouched o xs offset conf
    else none

/-! #### Join -/
def specJoin (dxs sxs : List El) (dconf sconf soff wh : Int) (same : Bool) (i : Impl) : Option String :=
  match i with
  | .panic => some "panic"
  | .junk => some "unparsable-observation"
  | .err _ a _ _ _ =>
    -- circular sequences cannot be joined
    if dconf ≤ confLinear && sconf ≤ confLinear then some "error-for-linear-sequences"
    else if a ≠ sxs then some "source-letters-changed"
    else none
  | .ok o =>
    if wh ≠ whereStart && wh ≠ whereEnd then none
    else if o.data ≠ joinSpec dxs sxs wh then some "letters-are-not-the-concatenation-in-the-requested-order"
    else if o.srcAfter ≠ sxs then some "source-letters-changed"
    else if !same && (o.srcStart ≠ soff || o.srcConf ≠ sconf) then some "source-position-changed"
    else if o.srcAfter2 ≠ sxs then some "result-shares-storage-with-source"
    else if !o.pads then some "source-buffer-written-outside-the-sequence"
    else none

/-! #### Trim -/
def floatE (q : UInt8) : Float :=
  if q == 254 then 0 else Float.pow 10 (-(Float.ofNat q.toNat / 10))

def fwindowSum (vs : List Float) (s0 i j : Int) : Float :=
  ((vs.drop (i - s0).toNat).take (j - i).toNat).foldl (· + ·) 0

def fmaxWindow (vs : List Float) (s0 : Int) : Float :=
  (allWindows s0 vs.length).foldl (fun m w => let x := fwindowSum vs s0 w.1 w.2; if x > m then x else m) 0

def tol : Float := 1e-9

/-- the statement for dyadic Trim on the implementation's window `(a, b)`; proved in
    `Properties/C06_checker.lean` (`trim_checker_iff`) -/
def specTrim (vs : List Int) (s0 a b : Int) : Option String :=
  if a > b then some "start>end"
  else if a < b && !isWindow s0 vs.length a b then some "window-outside-the-feature"
  else if !isMaxWindow vs s0 a b then some "window-sum-not-maximal"
  else none

def sizeTag (n : Nat) : String := if n = 0 then "empty" else if n ≤ 3 then "len1-3" else "len>3"

def handleTokens (inp : List String) (obs : String) : Verdict :=
  match inp with
  | [op, kind, _alpha, conf, offset, hex, same, a, b] =>
    if op ≠ "tr" then bad "arity" else
    match parseData kind hex, parseInt conf, parseInt offset, parseInt a, parseInt b with
    | some xs, some conf, some offset, some start, some stop =>
      let n := xs.length
      let h0 : Heap El := [buffer xs]
      let src : Seq := { sl := window 0 n, offset, conf }
      let sameB := same == "1"
      let r := truncate h0 src sameB start stop
      let m := render kind r h0 src 0 n sameB (!sameB)
      let inside := truncateInside offset (offset + n) (conf == confCircular) start stop
      let tags := ["truncate", confTag conf, sameTag same, offTag offset, sizeTag n, "kind-" ++ kind] ++
        (if start > stop then ["start>end"] else []) ++
        (if inside then ["inside"] ++ (if n > 0 then ["nt"] else []) else ["outside", "nt"])
      finish (specTruncate xs offset conf sameB start stop (parseImpl kind obs)) m obs tags
    | _, _, _, _, _ => bad "tr"
  | [op, kind, alpha, conf, offset, hex, same, feats] =>
    match parseData kind hex, parseInt conf, parseInt offset, parseFeats feats, rcOf alpha with
    | some xs, some conf, some offset, some fs, some rc =>
      let n := xs.length
      let h0 : Heap El := [buffer xs]
      let src : Seq := { sl := window 0 n, offset, conf }
      let sameB := same == "1"
      let stop_ := offset + (n : Int)
      let outside := fs.any fun f => decide (f.e < offset) || decide (f.s > stop_)
      let partly := fs.any fun f => decide (f.s < offset && f.e > offset) || decide (f.s < stop_ && f.e > stop_)
      let nrev := (fs.filter (·.o = orientReverse)).length
      let tags := [confTag conf, sameTag same, offTag offset, sizeTag n, "kind-" ++ kind, "alpha-" ++ alpha] ++
        (if wellFormed fs then [] else ["end<start"]) ++
        (if outside then ["feature-entirely-outside"] else []) ++
        (if partly then ["feature-partly-outside"] else []) ++
        (if n > 0 && !fs.isEmpty then ["nt"] else [])
      if op == "st" then
        let r := stitch h0 src fs
        let m := render kind r h0 src 0 n sameB (!sameB)
        finish (specStitch xs offset conf sameB fs (parseImpl kind obs)) m obs ("stitch" :: tags)
      else if op == "co" then
        let reverser := kind ≠ "p"
        let r := compose (if reverser then some rc else none) h0 src fs
        let m := render kind r h0 src 0 n sameB (!sameB)
        let tags := tags ++ [if nrev = 0 then "reverse-0" else if nrev = 1 then "reverse-1" else "reverse-2+"]
        finish (specCompose rc reverser xs offset conf sameB fs (parseImpl kind obs)) m obs ("compose" :: tags)
      else bad "arity"
    | _, _, _, _, _ => bad "st/co"
  | ["jn", kind, _alpha, wh, same, dconf, doff, dhex, sconf, soff, shex] =>
    match parseInt wh, parseInt dconf, parseInt doff, parseData kind dhex, parseInt sconf, parseInt soff,
          parseData kind shex with
    | some wh, some dconf, some doff, some dxs, some sconf, some soff, some sxs =>
      let sameB := same == "1"
      let (sconf, soff, sxs) := if sameB then (dconf, doff, dxs) else (sconf, soff, sxs)
      let dst : Seq := { sl := window 0 dxs.length, offset := doff, conf := dconf }
      let (h0, src, srcArr) : Heap El × Seq × Nat :=
        if sameB then ([buffer dxs], dst, 0)
        else ([buffer dxs, buffer sxs], { sl := window 1 sxs.length, offset := soff, conf := sconf }, 1)
      let r := join h0 dst src wh
      let m := render kind r h0 src srcArr sxs.length sameB true
      let tags := ["join", sameTag same, "kind-" ++ kind, s!"where-{wh}", offTag doff] ++
        (if dconf > 0 || sconf > 0 then ["circular"] else []) ++
        (if !dxs.isEmpty && !sxs.isEmpty then ["nt"] else [])
      finish (specJoin dxs sxs dconf sconf soff wh sameB (parseImpl kind obs)) m obs tags
    | _, _, _, _, _, _, _ => bad "jn"
  | ["td", s0, _k, lim, es] =>
    match parseInt s0, parseInt lim, parseInts es with
    | some s0, some lim, some es =>
      let vs := es.map fun e => lim - e
      let (ms, me) := trim s0 vs
      let m := s!"{ms} {me}"
      let tags := ["trim-dyadic", offTag s0, sizeTag vs.length] ++ (if vs.length ≥ 2 then ["nt"] else [])
      let why : Option String :=
        match tokens obs with
        | [a, b] =>
          match parseInt a, parseInt b with
          | some a, some b => specTrim vs s0 a b
          | _, _ => some "unparsable-observation"
        | _ => some (if obs.startsWith "panic" then "panic" else "unparsable-observation")
      finish why m obs tags
    | _, _, _ => bad "td"
  | ["tq", off, hexq, num, den] =>
    match parseInt off, bytesOfHex hexq, parseNat num, parseNat den with
    | some s0, some qs, some num, some den =>
      let limit := Float.ofNat num / Float.ofNat den
      let vs := qs.map fun q => limit - floatE q
      let (ms, me) := trim s0 vs
      let m := s!"{ms} {me}"
      let best := fmaxWindow vs s0
      let tags := ["trim-qseq", offTag s0, sizeTag vs.length] ++ (if vs.length ≥ 2 then ["nt"] else [])
      match tokens obs with
      | [a, b] =>
        match parseInt a, parseInt b with
        | some a, some b =>
          if a > b then fail "start>end" tags
          else if a < b && !isWindow s0 vs.length a b then fail "window-outside-the-feature" tags
          else
            let got := fwindowSum vs s0 a b
            if got + tol < best then fail s!"window-sum-not-maximal got={got} best={best}" tags
            else if m == obs then ok tags
            else if Float.abs (fwindowSum vs s0 ms me - got) ≤ tol then ok ("fp-tie" :: tags)
            else diff m tags
        | _, _ => fail "unparsable-observation" tags
      | _ => fail (if obs.startsWith "panic" then "panic" else "unparsable-observation") tags
    | _, _, _, _ => bad "tq"
  | _ => bad "unknown-op"

def ops : List String := ["tr", "st", "co", "jn", "td", "tq"]

def handle (line : String) : String :=
  let (inp, obs) := splitCase line
  (handleTokens (tokens inp) obs).render

end Biogo.Drive.C06
