/-
Driver for C05 (tag `h5`): runs the container model on a history, evaluates the statements of
C05 (`Biogo.Containers.Laws`) on the implementation's observations, compares observations.
Core-only.
-/
import Biogo.Go.Wire
import Biogo.Model.ContWorld
import Biogo.Model.ContAnn
import Biogo.Spec.ContLaws
import Biogo.Generated.Alphabets

namespace Biogo.Drive.C05
open Biogo.Wire Biogo.Containers Biogo.Containers.Laws

abbrev Snap := String × List ObjV

/-- the statement of C05 on one step `before --op--> after`; `prev2` is the snapshot two
    steps back when the previous operation was the same (involution laws) -/
def stepLaw (hist : History) (op : Op) (prevOp : Option Op) (prev2 : Option (List ObjV))
    (before after : Snap) : Why :=
  let cx := hist.cx
  (check (after.1 == "ok") "operation-reported-an-error").and fun _ =>
  let twice : Bool := prevOp == some op
  match op with
  | .revComp k =>
    (lawFrame before.2 after.2 (some k)).and fun _ =>
    (check (after.2.length == before.2.length) "object-count").and fun _ =>
    match before.2[k]?, after.2[k]? with
    | some b, some a =>
      if !allPaired hist.pairs b then none else
      (lawRevComp cx.comp b a).and fun _ =>
      match twice, prev2.bind (·[k]?) with
      | true, some b0 => check (sameLettersCoords b0 a) "revcomp-twice-does-not-restore"
      | _, _ => none
    | _, _ => some "object-missing"
  | .reverse k =>
    (lawFrame before.2 after.2 (some k)).and fun _ =>
    (check (after.2.length == before.2.length) "object-count").and fun _ =>
    match twice, prev2.bind (·[k]?), after.2[k]? with
    | true, some b0, some a => check (sameLetters b0 a) "reverse-twice-does-not-restore-letters"
    | _, _, _ => none
  | .clone k =>
    (lawFrame before.2 after.2 none).and fun _ =>
    (check (after.2.length == before.2.length + 1) "clone-object-count").and fun _ =>
    check (after.2[before.2.length]? == before.2[k]? && before.2[k]?.isSome) "clone-differs-from-original"
  | .set k r pos c =>
    (lawFrame before.2 after.2 (some k)).and fun _ =>
    match before.2[k]?, after.2[k]? with
    | some b, some a => lawSet b a r pos c
    | _, _ => some "object-missing"
  | .rowRevComp k r =>
    (lawFrame before.2 after.2 (some k)).and fun _ =>
    match before.2[k]?, after.2[k]? with
    | some b, some a =>
      if !allPaired hist.pairs b then none else
      (lawRowRevComp cx.comp b a r).and fun _ =>
      match twice, prev2.bind (·[k]?) with
      | true, some b0 => check (sameLettersCoords b0 a) "row-revcomp-twice-does-not-restore"
      | _, _ => none
    | _, _ => some "object-missing"
  | .rowReverse k _ =>
    (lawFrame before.2 after.2 (some k)).and fun _ =>
    match twice, prev2.bind (·[k]?), after.2[k]? with
    | true, some b0, some a => check (sameLetters b0 a) "row-reverse-twice-does-not-restore-letters"
    | _, _, _ => none
  | _ => some "operation-outside-C05"

/-- all steps of a history -/
def checkSteps (hist : History) : List Op → Option Op → Option (List ObjV) → List Snap → Why
  | op :: ops, prevOp, prev2, before :: after :: rest =>
    (stepLaw hist op prevOp prev2 before after).and fun _ =>
      checkSteps hist ops (some op) (some before.2) (after :: rest)
  | [], _, _, [_] => none
  | _, _, _, _ => some "snapshot-count"

def checkC05 (hist : History) (impl : List Snap) : Why := checkSteps hist hist.ops none none impl

def opTag : Op → String
  | .revComp _ => "RevComp" | .reverse _ => "Reverse" | .clone _ => "Clone" | .set .. => "Set"
  | .rowRevComp .. => "RowRevComp" | .rowReverse .. => "RowReverse" | _ => "other"

def tagsOf (hist : History) : List String :=
  let lens := hist.rows.map (·.cells.length)
  let nonEmpty := lens.any (· > 0)
  let ragged := match hist.rows with
    | [] => false
    | r0 :: rest => rest.any fun r => r.off != r0.off || r.cells.length != r0.cells.length
  let unpaired := hist.rows.any fun r => r.cells.any fun c => !hist.pairs c.L
  [hist.kind] ++ (hist.ops.map opTag).eraseDups
    ++ (if lens.any (· % 2 == 1) then ["odd"] else []) ++ (if lens.any (fun n => n % 2 == 0 && n > 0) then ["even"] else [])
    ++ (if lens.any (· == 0) then ["len0"] else [])
    ++ (if hist.kind == "multi" || hist.kind == "set" then [if ragged then "ragged" else "flush"] else [])
    ++ (if hist.rows.any (·.off != 0) then ["nonzero-start"] else [])
    ++ (if unpaired then ["unpaired"] else [])
    ++ (if nonEmpty && !hist.ops.isEmpty && !unpaired then ["nt"] else [])

def firstDiff (m i : List (String × List String)) : String :=
  let pairs := List.zip m i
  match pairs.zipIdx.find? (fun (p, _) => p.1 != p.2) with
  | some ((ms, _), t) => s!"step={t} model={(ms.1 :: ms.2).foldl (fun a b => a ++ "/" ++ b) ""}".take 600 |>.toString
  | none => s!"snapshot-count model={m.length} impl={i.length}"

def handleLine (inp obs : String) : Verdict :=
  match parseHistory Biogo.Generated.builtins (tokens inp) with
  | none => bad "unparsable-input"
  | some hist =>
    let tags := tagsOf hist
    -- value model + `SubAnnotations` stored in slices on a heap, in lockstep (Model/ContAnn.lean);
    -- equal to `runHistory` by `annotation_store_refines_values`
    let model := runHistoryA false hist.cx hist.init hist.ops
    if model.any (·.1 == "panic") then { status := "skip", tags := tags ++ ["model-panics"] }
    else if obs.startsWith "panic:" || obs == "hang" then
      fail ("implementation-" ++ (obs.take 200).toString) tags
    else
      match parseSnapshots obs with
      | none => bad "unparsable-observation"
      | some impl =>
        match checkC05 hist impl with
        | some why => fail why tags
        | none =>
          let m := renderSnapshots model
          let i := expandSnapshots obs
          if m == i then ok tags else diff (firstDiff m i) tags

def ops : List String := ["h5"]

def handle (line : String) : String :=
  let (inp, obs) := splitCase line
  (handleLine inp obs).render

end Biogo.Drive.C05
