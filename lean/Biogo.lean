-- Root of the `Biogo` library: models, specs, proofs, property theorems and audits.
import Biogo.Go.Wire
import Biogo.Model.Alphabet
import Biogo.Drive.C17
