/-
Line-protocol driver: `driver <Cxx> < cases > verdicts`, one verdict line per case line.
Each module `Biogo/Drive/Cxx.lean` or `Biogo/Drive/Cxx_<part>.lean` contributes
`ops : List String` (the first tokens it handles) and `handle : String → String`;
`Driver/Handlers.lean` is generated from the files present.
-/
import Driver.Handlers

def pick (parts : List (List String × (String → String))) (line : String) : String :=
  match parts with
  | [(_, f)] => f line
  | _ =>
    let op := ((line.splitOn "\t").headD "").splitOn " " |>.headD ""
    match parts.find? (fun p => p.1.contains op) with
    | some (_, f) => f line
    | none => "bad-line\t\tno part handles op " ++ op

partial def loop (h : IO.FS.Stream) (out : IO.FS.Stream) (f : String → String) : IO Unit := do
  let line ← h.getLine
  if line.isEmpty then return ()
  let line := if line.endsWith "\n" then (line.dropEnd 1).toString else line
  if line.isEmpty then loop h out f else
  out.putStrLn (f line)
  loop h out f

def main (args : List String) : IO UInt32 := do
  match args with
  | [id] =>
    match handlers.lookup id with
    | some parts =>
      loop (← IO.getStdin) (← IO.getStdout) (pick parts)
      return 0
    | none =>
      IO.eprintln s!"driver: no handler for {id}"
      return 2
  | _ =>
    IO.eprintln "usage: driver <property id>"
    return 2
