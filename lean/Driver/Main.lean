/-
Line-protocol driver: `driver <Cxx> < cases > verdicts`, one verdict line per case line.
Each property contributes `Biogo.Drive.Cxx.handle : String → String`.
-/
import Biogo.Drive.C17

def handlers : List (String × (String → String)) := [
  ("C17", Biogo.Drive.C17.handle)
]

partial def loop (h : IO.FS.Stream) (out : IO.FS.Stream) (f : String → String) : IO Unit := do
  let line ← h.getLine
  if line.isEmpty then return ()
  let line := if line.endsWith "\n" then (line.dropEnd 1).toString else line
  if line.isEmpty then loop h out f else
  out.putStrLn (f line)
  loop h out f

def main (args : List String) : IO UInt32 := do
  match args with
  | [id] =>
    match handlers.lookup id with
    | some f =>
      loop (← IO.getStdin) (← IO.getStdout) f
      return 0
    | none =>
      IO.eprintln s!"driver: no handler for {id}"
      return 2
  | _ =>
    IO.eprintln "usage: driver <property id>"
    return 2
