#!/bin/sh
# tools_integrate.sh <name>: merge a builder's /verif branch and cherry-pick its repo commits onto /repo main
n="$1"
cd /verif
git pull --no-edit -X theirs /tmp/agents/$n/verif agent/$n 2>&1 | tail -2
for c in $(git -C /repo log --reverse --format=%h main..agent/$n); do
  s=$(git -C /repo log -1 --format=%s $c)
  if git -C /repo log --format=%s main | grep -qxF "$s"; then echo "skip (already on main): $s"; continue; fi
  git -C /repo cherry-pick $c >/dev/null 2>&1 && echo "picked: $s" || { echo "CONFLICT picking $c: $s"; git -C /repo cherry-pick --abort; }
done
python3 tools_fixids.py
