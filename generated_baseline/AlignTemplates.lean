-- GENERATED from /repo on every check run by `harness gen`; do not edit.
namespace Biogo.Generated.AlignTemplates

/-! For each generated aligner file: is the committed file byte-for-byte the output of
    `genCode.sh` (the `gofmt -r` pipeline) on its `*_type.got` template? -/

def fitted_affine_letters : Bool := true
def fitted_affine_qletters : Bool := true
def fitted_letters : Bool := true
def fitted_qletters : Bool := true
def nw_affine_letters : Bool := true
def nw_affine_qletters : Bool := true
def nw_letters : Bool := true
def nw_qletters : Bool := true
def sw_affine_letters : Bool := true
def sw_affine_qletters : Bool := true
def sw_letters : Bool := true
def sw_qletters : Bool := true

def generatedFileCount : Nat := 12

def all : List (String × Bool) := [("fitted_affine_letters", fitted_affine_letters), ("fitted_affine_qletters", fitted_affine_qletters), ("fitted_letters", fitted_letters), ("fitted_qletters", fitted_qletters), ("nw_affine_letters", nw_affine_letters), ("nw_affine_qletters", nw_affine_qletters), ("nw_letters", nw_letters), ("nw_qletters", nw_qletters), ("sw_affine_letters", sw_affine_letters), ("sw_affine_qletters", sw_affine_qletters), ("sw_letters", sw_letters), ("sw_qletters", sw_qletters)]

/-- the linear-gap aligners' files -/
def linear : List (String × Bool) := [("fitted_letters", fitted_letters), ("fitted_qletters", fitted_qletters), ("nw_letters", nw_letters), ("nw_qletters", nw_qletters), ("sw_letters", sw_letters), ("sw_qletters", sw_qletters)]

/-- the affine-gap aligners' files -/
def affine : List (String × Bool) := [("fitted_affine_letters", fitted_affine_letters), ("fitted_affine_qletters", fitted_affine_qletters), ("nw_affine_letters", nw_affine_letters), ("nw_affine_qletters", nw_affine_qletters), ("sw_affine_letters", sw_affine_letters), ("sw_affine_qletters", sw_affine_qletters)]

end Biogo.Generated.AlignTemplates
