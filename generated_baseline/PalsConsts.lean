-- GENERATED from /repo on every check run by `harness gen`; do not edit.
namespace Biogo.Generated.Pals

def MaxIGap : Int := 5
def DiffCost : Int := 3
def SameCost : Int := 1
def MatchCost : Int := 4
def BlockCost : Int := 15
def RMatchCost : Int := 4
def fpAlignRecursion : String := "d76e96b076003751"
def fpAlignTraps : String := "12866ecdea35edb5"
def fpTraceForward : String := "3242f214c997c8ca"
def fpTraceReverse : String := "28298aacb4d36e37"
def fpStartsLess : String := "b7d2e4dbaeec5a67"
def fpEndsLess : String := "a5365f6edcfa5bf9"

end Biogo.Generated.Pals
