-- GENERATED from /repo on every check run by `harness gen`; do not edit.
import Biogo.Model.Alphabet
namespace Biogo.Generated
open Biogo.Alphabet

def alphaDNA : Def :=
  { name := "DNA", letters := [97, 99, 103, 116],
    pairS := some [97, 99, 103, 116, 110, 120, 65, 67, 71, 84, 78, 88, 45],
    pairC := some [116, 103, 99, 97, 110, 120, 84, 71, 67, 65, 78, 88, 45],
    gap := 45, ambiguous := 110, cased := false, nucleotide4 := true }

def alphaDNAgapped : Def :=
  { name := "DNAgapped", letters := [45, 97, 99, 103, 116],
    pairS := some [97, 99, 103, 116, 110, 120, 65, 67, 71, 84, 78, 88, 45],
    pairC := some [116, 103, 99, 97, 110, 120, 84, 71, 67, 65, 78, 88, 45],
    gap := 45, ambiguous := 110, cased := false, nucleotide4 := false }

def alphaDNAredundant : Def :=
  { name := "DNAredundant", letters := [45, 97, 99, 109, 103, 114, 115, 118, 116, 119, 121, 104, 107, 100, 98, 110],
    pairS := some [97, 99, 109, 103, 114, 115, 118, 116, 119, 121, 104, 107, 100, 98, 110, 120, 65, 67, 77, 71, 82, 83, 86, 84, 87, 89, 72, 75, 68, 66, 78, 88, 45],
    pairC := some [116, 103, 107, 99, 121, 115, 98, 97, 119, 114, 100, 109, 104, 118, 110, 120, 84, 71, 75, 67, 89, 83, 66, 65, 87, 82, 68, 77, 72, 86, 78, 88, 45],
    gap := 45, ambiguous := 110, cased := false, nucleotide4 := false }

def alphaRNA : Def :=
  { name := "RNA", letters := [97, 99, 103, 117],
    pairS := some [97, 99, 103, 117, 110, 120, 65, 67, 71, 85, 78, 88, 45],
    pairC := some [117, 103, 99, 97, 110, 120, 85, 71, 67, 65, 78, 88, 45],
    gap := 45, ambiguous := 110, cased := false, nucleotide4 := true }

def alphaRNAgapped : Def :=
  { name := "RNAgapped", letters := [45, 97, 99, 103, 117],
    pairS := some [97, 99, 103, 117, 110, 120, 65, 67, 71, 85, 78, 88, 45],
    pairC := some [117, 103, 99, 97, 110, 120, 85, 71, 67, 65, 78, 88, 45],
    gap := 45, ambiguous := 110, cased := false, nucleotide4 := false }

def alphaRNAredundant : Def :=
  { name := "RNAredundant", letters := [45, 97, 99, 109, 103, 114, 115, 118, 117, 119, 121, 104, 107, 100, 98, 110],
    pairS := some [97, 99, 109, 103, 114, 115, 118, 117, 119, 121, 104, 107, 100, 98, 110, 120, 65, 67, 77, 71, 82, 83, 86, 85, 87, 89, 72, 75, 68, 66, 78, 88, 45],
    pairC := some [117, 103, 107, 99, 121, 115, 98, 97, 119, 114, 100, 109, 104, 118, 110, 120, 85, 71, 75, 67, 89, 83, 66, 65, 87, 82, 68, 77, 72, 86, 78, 88, 45],
    gap := 45, ambiguous := 110, cased := false, nucleotide4 := false }

def alphaProtein : Def :=
  { name := "Protein", letters := [45, 97, 98, 99, 100, 101, 102, 103, 104, 105, 106, 107, 108, 109, 110, 112, 113, 114, 115, 116, 118, 119, 120, 121, 122, 42],
    pairS := none,
    pairC := none,
    gap := 45, ambiguous := 120, cased := false, nucleotide4 := false }

def builtins : List Def := [alphaDNA, alphaDNAgapped, alphaDNAredundant, alphaRNA, alphaRNAgapped, alphaRNAredundant, alphaProtein]

end Biogo.Generated
